/-
Model of the two crop-parameter readers and of the shipped classic→YAML converter at the
*post-tokenisation* layer (hermes/cropparam.go).

* `Classic α` — the token record of a classic fixed-width crop file: what the fixed columns hold
  after number parsing (`ValAsFloat`, `ValAsInt`, `TryValAsFloat`), five organ slots per row,
  one `StageTok` per development stage.
* `Yml α` — the record `yaml.Unmarshal` fills (`CropParam`, cropparam.go:16-63).
* `applyClassic` — ReadCropParamClassic (cropparam.go:217-405): what is stored into the model state,
  including the derived quantities (VELOC/200, initial concentrations/100, total temperature sum,
  BBCH flag) and the resets.
* `applyYml` — ReadCropParamYml (cropparam.go:101-214).
* `convert` — ConvertCropParamClassicToYml (cropparam.go:407-618).

Tokenisation (fixed columns, `strings.Fields`, the YAML library) is not modelled; it is covered by
the correspondence check on every shipped file.  Polymorphic in the arithmetic; core Lean only.
-/
namespace Hermes.CropParam

/-- Go `int(x)` on a float64 (truncation toward zero) and `float64(i)`. -/
class TruncInt (α : Type) where
  truncInt : α → Int
  ofInt : Int → α

instance : TruncInt Float where
  truncInt x := (Float.toInt64 x).toInt
  ofInt i := Float.ofInt i

section
variable {α : Type}

/-- tokens of one development stage of a classic file (13 lines, cropparam.go:350-403) -/
structure StageTok (α : Type) where
  /-- `TryValAsFloat(headline[65:])` when the headline is longer than 65 bytes and the tail is a number -/
  bbch : Option α
  tsum : α
  bas : α
  vschwell : α
  dayl : α
  dlbas : α
  dryswell : α
  lukrit : α
  laifkt : α
  wgmax : α
  pro : List α       -- five slots
  dead : List α      -- five slots
  kc : α

/-- token record of a classic crop file -/
structure Classic (α : Type) where
  maxamax : α
  temptyp : Int
  mintmp : α
  wumaxpf : α
  veloc : α          -- RTVELOC as written (mm/°C)
  ngefkt : Int
  a : Option α       -- token `a=` of the N-content line
  b : Option α       -- token `b=`
  org : Option Int   -- token `org=S<k>`
  above : List Int
  yorgan : Int
  yifak : α
  initb : α          -- % N in above-ground biomass
  initr : α          -- % N in roots
  nrkom : Nat
  dauer : Bool
  legum : Bool
  worg : List α      -- five slots
  mairt : List α     -- five slots
  kcini : α
  nrentw : Nat
  stages : List (StageTok α)

structure StageY (α : Type) where
  bbch : Int
  tsum : α
  bas : α
  vschwell : α
  dayl : α
  dlbas : α
  dryswell : α
  lukrit : α
  laifkt : α
  wgmax : α
  pro : List α
  dead : List α
  kc : α

/-- the record the YAML library fills (absent keys = zero values) -/
structure Yml (α : Type) where
  maxamax : α
  temptyp : Int
  mintmp : α
  wumaxpf : α
  veloc : α
  ngefkt : Int
  rga : α
  rgb : α
  subOrgan : Int
  above : List Int
  yorgan : Int
  yifak : α
  initb : α
  initr : α
  nrkom : Nat
  dauer : Bool
  legum : Bool
  worg : List α
  mairt : List α
  kcini : α
  nrentw : Nat
  stages : List (StageY α)

/-- Every field of `GlobalVarsMain` / `CropSharedVars` the readers and the override write. -/
structure State (α : Type) where
  maxamax : α
  mintmp : α
  wumaxpf : α
  veloc : α
  rga : α
  rgb : α
  yifak : α
  gehob : α
  wugeh : α
  phyllo : α
  verntage : α
  trootsum : α
  kcini : α
  tendsum : α
  temptyp : Int
  ngefkt : Int
  subOrgan : Int
  yorgan : Int
  nrkom : Nat
  nrentw : Nat
  stageDays : List Int      -- DOUBLE ASIP BLUET REIF ENDPRO
  dauer : Bool
  legum : Bool
  useBBCH : Bool
  above : List Int
  worg : List α             -- 5
  wdorg : List α            -- 10
  mairt : List α            -- 10
  sum : List α              -- 10 each
  tsum : List α
  bas : List α
  vschwell : List α
  dayl : List α
  dlbas : List α
  dryswell : List α
  lukrit : List α
  laifkt : List α
  wgmax : List α
  kc : List α
  endbbch : List α
  dev : List Int            -- 10
  pro : List (List α)       -- 10 × 5
  dead : List (List α)      -- 10 × 5

/-- `for L < n { old[L] = new[L] }` -/
def overlay (n : Nat) (new old : List α) : List α := new.take n ++ old.drop n

variable [Add α] [Div α] [LT α] [LE α] [DecidableLT α] [DecidableLE α]
  [OfNat α 0] [OfNat α 100] [OfNat α 200] [TruncInt α]

/-- The reset block both readers run after the permanent-crop flag is known
(cropparam.go:146-167 and 307-328; ResetStages, dung.go:59-61). -/
def reset (dauer : Bool) (s : State α) : State α :=
  if dauer then
    { s with sum := s.sum.take 2 ++ List.replicate 8 0,
             pro := s.pro.take 2 ++ List.replicate 8 (List.replicate 5 0),
             dead := s.dead.take 2 ++ List.replicate 8 (List.replicate 5 0),
             trootsum := 0 }
  else
    { s with stageDays := [0, 0, 0, 0, 0], phyllo := 0, verntage := 0,
             sum := List.replicate 10 0, dev := List.replicate 10 0,
             pro := List.replicate 10 (List.replicate 5 0),
             dead := List.replicate 10 (List.replicate 5 0),
             trootsum := 0 }

/-- BBCH code the classic reader takes from a stage headline (cropparam.go:352-361). -/
def bbchClassic (t : Option α) : Int :=
  match t with
  | some v => if (0 : α) ≤ v ∧ v < (100 : α) then TruncInt.truncInt v else 0
  | none => 0

/-- BBCH code the converter writes (cropparam.go:544-552): no range test. -/
def bbchConvert (t : Option α) : Int :=
  match t with
  | some v => TruncInt.truncInt v
  | none => 0

/-- one pass of the stage loop of ReadCropParamClassic (cropparam.go:350-403) -/
def stageClassic (nrkom i : Nat) (st : StageTok α) (s : State α) : State α :=
  let e : α := TruncInt.ofInt (bbchClassic st.bbch)
  { s with endbbch := s.endbbch.set i e,
           useBBCH := s.useBBCH || decide ((0 : α) < e),
           tsum := s.tsum.set i st.tsum,
           bas := s.bas.set i st.bas,
           vschwell := s.vschwell.set i st.vschwell,
           dayl := s.dayl.set i st.dayl,
           dlbas := s.dlbas.set i st.dlbas,
           dryswell := s.dryswell.set i st.dryswell,
           lukrit := s.lukrit.set i st.lukrit,
           laifkt := s.laifkt.set i st.laifkt,
           wgmax := s.wgmax.set i st.wgmax,
           pro := s.pro.set i (overlay nrkom st.pro (s.pro.getD i [])),
           dead := s.dead.set i (overlay nrkom st.dead (s.dead.getD i [])),
           tendsum := s.tendsum + st.tsum,
           kc := s.kc.set i st.kc }

def stagesClassic (nrkom : Nat) : List (StageTok α) → Nat → State α → State α
  | [], _, s => s
  | st :: rest, i, s => stagesClassic nrkom rest (i + 1) (stageClassic nrkom i st s)

/-- one pass of the stage loop of ReadCropParamYml (cropparam.go:194-212) -/
def stageYml (nrkom i : Nat) (y : StageY α) (s : State α) : State α :=
  let e : α := TruncInt.ofInt y.bbch
  { s with endbbch := s.endbbch.set i e,
           useBBCH := s.useBBCH || decide ((0 : α) < e),
           tsum := s.tsum.set i y.tsum,
           bas := s.bas.set i y.bas,
           vschwell := s.vschwell.set i y.vschwell,
           dayl := s.dayl.set i y.dayl,
           dlbas := s.dlbas.set i y.dlbas,
           dryswell := s.dryswell.set i y.dryswell,
           lukrit := s.lukrit.set i y.lukrit,
           laifkt := s.laifkt.set i y.laifkt,
           wgmax := s.wgmax.set i y.wgmax,
           pro := s.pro.set i (overlay nrkom y.pro (s.pro.getD i [])),
           dead := s.dead.set i (overlay nrkom y.dead (s.dead.getD i [])),
           kc := s.kc.set i y.kc,
           tendsum := s.tendsum + y.tsum }

def stagesYml (nrkom : Nat) : List (StageY α) → Nat → State α → State α
  | [], _, s => s
  | y :: rest, i, s => stagesYml nrkom rest (i + 1) (stageYml nrkom i y s)

/-- ReadCropParamClassic on a record within the array bounds. `rep` is the state condition
`AKF.Num > 2 ∧ FRUCHT[AKF] = FRUCHT[AKF−1]` (a permanent crop grown again keeps its masses). -/
def applyClassicCore (t : Classic α) (rep : Bool) (s : State α) : State α :=
  let five := t.ngefkt == 5
  let s1 : State α :=
    { s with maxamax := t.maxamax, temptyp := t.temptyp, mintmp := t.mintmp, wumaxpf := t.wumaxpf,
             veloc := t.veloc / 200, ngefkt := t.ngefkt,
             -- cropparam.go: reset before the function-5 block, then the optional tokens
             rga := if five then t.a.getD 0 else 0,
             rgb := if five then t.b.getD 0 else 0,
             subOrgan := if five then t.org.getD 0 else 0,
             above := t.above, yorgan := t.yorgan, yifak := t.yifak, nrkom := t.nrkom,
             dauer := t.dauer, legum := t.legum }
  let s2 := reset t.dauer s1
  let keep := t.dauer && rep
  let s3 : State α :=
    { s2 with gehob := if keep then s2.gehob else t.initb / 100,
              wugeh := if keep then s2.wugeh else t.initr / 100,
              worg := if keep then s2.worg else overlay t.nrkom t.worg s2.worg,
              mairt := overlay t.nrkom t.mairt s2.mairt,
              wdorg := overlay t.nrkom (List.replicate t.nrkom 0) s2.wdorg,
              kcini := t.kcini, nrentw := t.nrentw, tendsum := 0, useBBCH := false }
  stagesClassic t.nrkom (t.stages.take t.nrentw) 0 s3

/-- `none` where the Go code ends the process (`log.Fatal`) or indexes an array out of range. -/
def applyClassic (t : Classic α) (rep : Bool) (s : State α) : Option (State α) :=
  if t.nrkom > 5 ∨ t.nrentw > 10 ∨ t.stages.length < t.nrentw ∨
     (t.ngefkt = 5 ∧ (t.org.getD 0) > 5) then none
  else some (applyClassicCore t rep s)

def applyYmlCore (y : Yml α) (rep : Bool) (s : State α) : State α :=
  let s1 : State α :=
    { s with maxamax := y.maxamax, temptyp := y.temptyp, mintmp := y.mintmp, wumaxpf := y.wumaxpf,
             veloc := y.veloc / 200, ngefkt := y.ngefkt, rga := y.rga, rgb := y.rgb,
             subOrgan := y.subOrgan, yorgan := y.yorgan, yifak := y.yifak,
             dauer := y.dauer, legum := y.legum, nrkom := y.nrkom, above := y.above,
             nrentw := y.nrentw }
  let s2 := reset y.dauer s1
  let keep := y.dauer && rep
  let s3 : State α :=
    { s2 with worg := if keep then s2.worg else overlay y.nrkom y.worg s2.worg,
              mairt := overlay y.nrkom y.mairt s2.mairt,
              wdorg := overlay y.nrkom (List.replicate y.nrkom 0) s2.wdorg,
              gehob := if keep then s2.gehob else y.initb / 100,
              wugeh := if keep then s2.wugeh else y.initr / 100,
              kcini := y.kcini, tendsum := 0, useBBCH := false }
  stagesYml y.nrkom (y.stages.take y.nrentw) 0 s3

/-- the shape tests of ReadCropParamYml (cropparam.go:128-144, 170-178) and the slice bounds of its
loops -/
def ymlShapeOk (y : Yml α) : Bool :=
  decide (y.nrkom ≤ 5) && y.above.all (fun o => decide (1 ≤ o) && decide (o ≤ (y.nrkom : Int))) &&
  decide (y.nrentw ≤ 10) && decide (y.worg.length = y.nrkom) && decide (y.mairt.length = y.nrkom) &&
  decide (y.nrentw ≤ y.stages.length) &&
  (y.stages.take y.nrentw).all (fun st => decide (y.nrkom ≤ st.pro.length) && decide (y.nrkom ≤ st.dead.length))

def applyYml (y : Yml α) (rep : Bool) (s : State α) : Option (State α) :=
  if ymlShapeOk y then some (applyYmlCore y rep s) else none

/-- one stage of ConvertCropParamClassicToYml (cropparam.go:542-601) -/
def convertStage (nrkom : Nat) (st : StageTok α) : StageY α :=
  { bbch := bbchConvert st.bbch, tsum := st.tsum, bas := st.bas, vschwell := st.vschwell,
    dayl := st.dayl, dlbas := st.dlbas, dryswell := st.dryswell, lukrit := st.lukrit,
    laifkt := st.laifkt, wgmax := st.wgmax, pro := st.pro.take nrkom, dead := st.dead.take nrkom,
    kc := st.kc }

/-- ConvertCropParamClassicToYml (cropparam.go:407-618), numeric fields -/
def convert (t : Classic α) : Yml α :=
  let five := t.ngefkt == 5
  { maxamax := t.maxamax, temptyp := t.temptyp, mintmp := t.mintmp, wumaxpf := t.wumaxpf,
    veloc := t.veloc, ngefkt := t.ngefkt,
    rga := if five then t.a.getD 0 else 0,
    rgb := if five then t.b.getD 0 else 0,
    subOrgan := if five then t.org.getD 0 else 0,
    above := t.above, yorgan := t.yorgan, yifak := t.yifak, initb := t.initb, initr := t.initr,
    nrkom := t.nrkom, dauer := t.dauer, legum := t.legum,
    worg := t.worg.take t.nrkom, mairt := t.mairt.take t.nrkom, kcini := t.kcini,
    nrentw := t.nrentw, stages := (t.stages.take t.nrentw).map (convertStage t.nrkom) }

/-- Shape limits of a crop file: at most 5 organs and 10 stages, five slots per organ row, one
token block per stage, above-ground organs among the organs, BBCH codes in 0 … 99. -/
structure Classic.WF (t : Classic α) : Prop where
  nrkom_le : t.nrkom ≤ 5
  nrentw_le : t.nrentw ≤ 10
  stages_len : t.stages.length = t.nrentw
  worg_len : t.worg.length = 5
  mairt_len : t.mairt.length = 5
  above_ok : ∀ o ∈ t.above, 1 ≤ o ∧ o ≤ (t.nrkom : Int)
  org_le : t.ngefkt = 5 → t.org.getD 0 ≤ 5
  slots : ∀ st ∈ t.stages, st.pro.length = 5 ∧ st.dead.length = 5
  bbch_ok : ∀ st ∈ t.stages, ∀ v, st.bbch = some v → (0 : α) ≤ v ∧ v < (100 : α)

end
end Hermes.CropParam
