/-
Bounds for the *translation of the current source* of `setFieldCapacityWithGW` (hermes/init.go →
`HermesModel/Generated/ImpsetFieldCapacityWithGW.lean`, regenerated on every run): raising the field capacity of the layers at and
below the groundwater table towards the pore volume never lowers a field capacity and never lifts one above the pore volume —
for every groundwater level, any number of layers.  Loop invariant (`loopUp_noBrk_ind`): per layer old W ≤ new W ≤ PORGES, and the
layers the loop has not reached yet are unchanged.
-/
import HermesModel.Generated.ImpsetFieldCapacityWithGW
import Mathlib.Tactic.Ring
import Mathlib.Tactic.SplitIfs
import Mathlib.Tactic.Linarith
import Mathlib.Tactic.NormNum

namespace Hermes.Generated.Imp.setFieldCapacityWithGW
open Hermes.Imp

/-- what the theorems need of Go's `math.Mod(x, 1)` for the groundwater levels of a run (x = GRW + 1 ≥ 1): a value in [0,1] -/
def ModOK (m : MathFns ℚ) (s : St ℚ) : Prop := 0 ≤ m.mod (s.g_GRW + 1.0) 1.0 ∧ m.mod (s.g_GRW + 1.0) 1.0 ≤ 1

/-- the invariant of the layer loop: lengths, the scalars the loop reads, and per layer old W ≤ new W ≤ PORGES -/
def Inv (s t : St ℚ) : Prop :=
  t.g_GRW = s.g_GRW ∧ t.g_N = s.g_N ∧ t.g_PORGES = s.g_PORGES ∧ t.g_W.length = s.g_W.length ∧
  ∀ j : Int, rd s.g_W j ≤ rd t.g_W j ∧ rd t.g_W j ≤ rd s.g_PORGES j

theorem loop1_inv (m : MathFns ℚ) (s t : St ℚ) (l : Int) (h : Inv s t) (hm : ModOK m s)
    (hl : 1 ≤ l) (hb : (l - 1).toNat < s.g_W.length) (hfresh : rd t.g_W (l - 1) = rd s.g_W (l - 1)) :
    Inv s (loop1 m l t) := by
  obtain ⟨e1, e2, e3, e4, hj⟩ := h
  have h0 : (0 : Int) ≤ l - 1 := by omega
  have hlt : (l - 1).toNat < t.g_W.length := by rw [e4]; exact hb
  have hwp := hj (l - 1)
  unfold loop1
  dsimp only
  split_ifs with hc
  · refine ⟨e1, e2, e3, by simp only [length_wr]; exact e4, ?_⟩
    intro j
    show rd s.g_W j ≤ rd (wr t.g_W (l - 1) _) j ∧ rd (wr t.g_W (l - 1) _) j ≤ rd s.g_PORGES j
    rw [rd_wr _ _ _ _ h0 hlt]
    split_ifs with hjl
    · subst hjl
      rw [e1, e3, hfresh]
      obtain ⟨f0, f1⟩ := hm
      have hw : rd s.g_W (l - 1) ≤ rd s.g_PORGES (l - 1) := le_trans hwp.1 hwp.2
      constructor <;> nlinarith
    · exact hj j
  · refine ⟨e1, e2, e3, by simp only [length_wr]; exact e4, ?_⟩
    intro j
    show rd s.g_W j ≤ rd (wr t.g_W (l - 1) _) j ∧ rd (wr t.g_W (l - 1) _) j ≤ rd s.g_PORGES j
    rw [rd_wr _ _ _ _ h0 hlt]
    split_ifs with hjl
    · subst hjl
      rw [e3]
      exact ⟨le_trans hwp.1 hwp.2, le_refl _⟩
    · exact hj j

/-- the first layer the loop visits is a layer of the profile: `int(GRW + 1) ≥ 1` (groundwater level ≥ 0) -/
def FirstOK (m : MathFns ℚ) (s : St ℚ) : Prop := 1 ≤ m.toInt (s.g_GRW + 1.0)

theorem loop1_other (m : MathFns ℚ) (t : St ℚ) (l j : Int) (h : l - 1 ≠ j) : rd (loop1 m l t).g_W j = rd t.g_W j := by
  unfold loop1
  dsimp only
  split_ifs <;> exact rd_wr_ne _ _ _ _ h

/-- **`setFieldCapacityWithGW`, whole call, any number of layers**: the field capacity of no layer is lowered, and none is raised
above the pore volume. -/
theorem run_bounds (m : MathFns ℚ) (s : St ℚ) (hm : ModOK m s) (hf : FirstOK m s) (hN : s.g_N.toNat ≤ s.g_W.length)
    (hw : ∀ j : Int, rd s.g_W j ≤ rd s.g_PORGES j) :
    ∀ j : Int, rd s.g_W j ≤ rd (run m s).g_W j ∧ rd (run m s).g_W j ≤ rd s.g_PORGES j := by
  unfold run
  have key := loopUp_noBrk_ind (loop1 m)
    (fun k t => Inv s t ∧ ∀ j : Int, m.toInt (s.g_GRW + 1.0) + (k : Nat) - 1 ≤ j → rd t.g_W j = rd s.g_W j)
    (m.toInt (s.g_GRW + 1.0)) (s.g_N + 1) s
    ⟨⟨rfl, rfl, rfl, rfl, fun j => ⟨le_refl _, hw j⟩⟩, fun _ _ => rfl⟩
    (fun k hk t ht => by
      obtain ⟨hi, hfr⟩ := ht
      unfold FirstOK at hf
      have hl1 : 1 ≤ m.toInt (s.g_GRW + 1.0) + k := by omega
      have hb : (m.toInt (s.g_GRW + 1.0) + k - 1).toNat < s.g_W.length := by omega
      refine ⟨loop1_inv m s t _ hi hm hl1 hb (hfr _ (le_refl _)), ?_⟩
      intro j hj
      rw [loop1_other m t _ j (by push_cast at hj; omega)]
      exact hfr j (by push_cast at hj ⊢; omega))
  exact key.1.2.2.2.2

end Hermes.Generated.Imp.setFieldCapacityWithGW
