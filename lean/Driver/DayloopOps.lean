import HermesModel.Proto
import HermesModel.DayLoop
import Driver.WeatherOps
open Hermes Hermes.Proto

namespace Hermes.Driver
open Hermes.Weather Hermes.DayLoop

def fmtDays (ds : List (DayOut Nat)) : String :=
  fmtNats_Weather (ds.flatMap fun d => [d.zeit, d.j, d.tagNum, d.jtag, d.val.getD 0])

/-- `dayloop.multi anjahr cap beginn itag ndays n (year doy)*n` → `err` | per day `zeit j tag jtag id` -/
def dayloopMulti (toks : Toks) : Option String := do
  let (anjahr, r) ← popNat toks
  let (cap, r) ← popNat r
  let (beginn, r) ← popNat r
  let (itag, r) ← popNat r
  let (ndays, r) ← popNat r
  let (n, r) ← popNat r
  let (recs, _) ← popRecs n 1 r
  match runMulti recs anjahr cap beginn itag ndays with
  | none => some "err"
  | some ds => some (fmtDays ds)

/-- `k [year n T*n]*k` → association list year ↦ lines (payload = global 1-based line number) -/
def popFiles : Nat → Nat → Toks → Option (List (Nat × List (Nat × Nat)))
  | 0, _, _ => some []
  | k + 1, base, r => do
    let (year, r) ← popNat r
    let (n, r) ← popNat r
    let (ts, r) ← popNats_Weather n r
    let lines := (List.range n).zipWith (fun i t => (t, base + i + 1)) ts
    let rest ← popFiles k (base + n) r
    pure ((year, lines) :: rest)

/-- `dayloop.peryear anjahr beginn itag ndays k [year n T*n]*k` → per day `zeit j tag jtag id` -/
def dayloopPerYear (toks : Toks) : Option String := do
  let (anjahr, r) ← popNat toks
  let (beginn, r) ← popNat r
  let (itag, r) ← popNat r
  let (ndays, r) ← popNat r
  let (k, r) ← popNat r
  let files ← popFiles k 0 r
  let look : Nat → Option (List (Nat × Nat)) := fun y => (files.find? (·.1 == y)).map (·.2)
  match runPerYear look anjahr beginn itag ndays with
  | none => some "err"
  | some ds => some (fmtDays ds)

def dayloopOps (toks : List String) : String :=
  match toks with
  | "dayloop.multi" :: rest => (dayloopMulti rest).getD "bad-op"
  | "dayloop.peryear" :: rest => (dayloopPerYear rest).getD "bad-op"
  | _ => "bad-op"

end Hermes.Driver
