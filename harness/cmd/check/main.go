// check — the implementation side of every property check: generates cases from VERIF_SEED,
// calls the real Hermes2Go code in-process (or its built binaries), runs the Lean model driver on
// the same cases, compares, evaluates the property directly on the implementation and writes a
// result record that bin/run_check.py merges with the proof stage.
package main

import (
	"flag"
	"fmt"
	"os"
	"sort"

	"verifharness/vh"
)

var checks = map[string]func(c *vh.Ctx){}

func register(id string, f func(c *vh.Ctx)) { checks[id] = f }

func main() {
	prop := flag.String("prop", "", "property id")
	tier := flag.String("tier", "quick", "quick|thorough")
	seed := flag.Uint64("seed", 1, "seed")
	out := flag.String("out", "", "result json path")
	replay := flag.String("replay", "", "replay file (optional)")
	flag.Parse()
	f, ok := checks[*prop]
	if !ok {
		ids := []string{}
		for k := range checks {
			ids = append(ids, k)
		}
		sort.Strings(ids)
		fmt.Fprintln(os.Stderr, "unknown property; have", ids)
		os.Exit(2)
	}
	c := vh.NewCtx(*prop, *tier, *seed)
	if *replay != "" {
		os.Setenv("VERIF_REPLAY", *replay)
	}
	func() {
		defer func() {
			if r := recover(); r != nil {
				c.Violate("search", "harness:panic", fmt.Sprintf("panic while checking: %v", r), nil)
			}
		}()
		f(c)
	}()
	c.Finish(*out)
}
