/-
Lemmas over ℚ about the harvest model (HermesModel/Harvest.lean): the comparison helpers, sums and
element-wise facts of the two pool updates, the split of `resid`, closed forms of the residues of a
non-permanent crop.
-/
import HermesProofs.RatInst
import HermesModel.Harvest
import Mathlib.Tactic.Linarith
import Mathlib.Tactic.Ring
import Mathlib.Tactic.FieldSimp
import Mathlib.Tactic.NormNum
import Mathlib.Tactic.Positivity

namespace Hermes.Harvest

theorem isEq_iff (x c : ℚ) : isEq x c = true ↔ x = c := by
  simp only [isEq, Bool.and_eq_true, Bool.not_eq_true', decide_eq_false_iff_not, not_lt]
  constructor
  · rintro ⟨h1, h2⟩; exact le_antisymm h2 h1
  · rintro rfl; exact ⟨le_refl _, le_refl _⟩

theorem isEq_false_iff (x c : ℚ) : isEq x c = false ↔ x ≠ c := by
  rw [← Bool.not_eq_true, isEq_iff]

theorem clamp0_nonneg (x : ℚ) : 0 ≤ clamp0 x := by
  unfold clamp0; split <;> [exact le_refl _; linarith]

theorem clamp0_of_nonneg {x : ℚ} (h : 0 ≤ x) : clamp0 x = x := by
  unfold clamp0; rw [if_neg (not_lt.mpr h)]

theorem clamp0_ge (x : ℚ) : x ≤ clamp0 x := by
  unfold clamp0; split <;> linarith

theorem fmax_ge_left (a b : ℚ) : a ≤ fmax a b := by
  unfold fmax; split <;> linarith

theorem fmax_ge_right (a b : ℚ) : b ≤ fmax a b := by
  unfold fmax; split <;> linarith

theorem fmax_of_le {a b : ℚ} (h : b ≤ a) : fmax a b = a := by
  unfold fmax; rw [if_neg (not_lt.mpr h)]

theorem fmax_of_lt {a b : ℚ} (h : a < b) : fmax a b = b := by
  unfold fmax; rw [if_pos h]

/-! ### the two pool updates -/

theorem addTop_sum (x : ℚ) (l : List ℚ) (h : l ≠ []) : (addTop x l).sum = l.sum + x := by
  cases l with
  | nil => exact absurd rfl h
  | cons p ps => simp [addTop]; ring

theorem addTop_length (x : ℚ) (l : List ℚ) : (addTop x l).length = l.length := by
  cases l <;> simp [addTop]

theorem addTop_ne_nil (x : ℚ) (l : List ℚ) (h : l ≠ []) : addTop x l ≠ [] := by
  cases l with
  | nil => exact absurd rfl h
  | cons p ps => simp [addTop]

theorem addTop_nonneg (x : ℚ) (hx : 0 ≤ x) (l : List ℚ) (h : ∀ y ∈ l, 0 ≤ y) : ∀ y ∈ addTop x l, 0 ≤ y := by
  cases l with
  | nil => simp [addTop]
  | cons p ps =>
    intro y hy
    simp only [addTop, List.mem_cons] at hy
    rcases hy with rfl | hy
    · have := h p (by simp); linarith
    · exact h y (by simp [hy])

theorem addTop_getD_succ (x : ℚ) (l : List ℚ) (z : ℕ) : (addTop x l).getD (z + 1) 0 = l.getD (z + 1) 0 := by
  cases l <;> simp [addTop]

theorem addTop_getD_zero (x : ℚ) (l : List ℚ) (h : l ≠ []) : (addTop x l).getD 0 0 = l.getD 0 0 + x := by
  cases l with
  | nil => exact absurd rfl h
  | cons p ps => simp [addTop]

theorem addRoots_zero (c : ℚ) (ws ps : List ℚ) : addRoots c 0 ws ps = ps := by
  unfold addRoots; rfl

theorem addRoots_nil_w (c : ℚ) (k : ℕ) (ps : List ℚ) : addRoots c k [] ps = ps := by
  cases k <;> simp [addRoots]

theorem addRoots_nil_p (c : ℚ) (k : ℕ) (ws : List ℚ) : addRoots c k ws [] = [] := by
  cases k <;> cases ws <;> simp [addRoots]

theorem addRoots_cons (c : ℚ) (k : ℕ) (w p : ℚ) (ws ps : List ℚ) :
    addRoots c (k + 1) (w :: ws) (p :: ps) = (p + c * w) :: addRoots c k ws ps := by
  simp [addRoots]

theorem addRoots_length (c : ℚ) : ∀ (k : ℕ) (ws ps : List ℚ), (addRoots c k ws ps).length = ps.length := by
  intro k
  induction k with
  | zero => intro ws ps; rw [addRoots_zero]
  | succ k ih =>
    intro ws ps
    cases ws with
    | nil => rw [addRoots_nil_w]
    | cons w ws =>
      cases ps with
      | nil => rw [addRoots_nil_p]
      | cons p ps => rw [addRoots_cons]; simp [ih]

/-- the rooted layers gain `c · WUANT[i]`: the sum grows by `c · Σ WUANT[0..k)` (WUANT not longer than the pool array) -/
theorem addRoots_sum (c : ℚ) : ∀ (k : ℕ) (ws ps : List ℚ), ws.length ≤ ps.length →
    (addRoots c k ws ps).sum = ps.sum + c * (ws.take k).sum := by
  intro k
  induction k with
  | zero => intro ws ps _; rw [addRoots_zero]; simp
  | succ k ih =>
    intro ws ps h
    cases ws with
    | nil => rw [addRoots_nil_w]; simp
    | cons w ws =>
      cases ps with
      | nil => simp at h
      | cons p ps =>
        rw [addRoots_cons]
        simp only [List.sum_cons, List.take_succ_cons]
        rw [ih ws ps (by simpa using h)]
        ring

theorem addRoots_nonneg (c : ℚ) (hc : 0 ≤ c) : ∀ (k : ℕ) (ws ps : List ℚ), (∀ w ∈ ws, 0 ≤ w) → (∀ y ∈ ps, 0 ≤ y) →
    ∀ y ∈ addRoots c k ws ps, 0 ≤ y := by
  intro k
  induction k with
  | zero => intro ws ps _ hp; rw [addRoots_zero]; exact hp
  | succ k ih =>
    intro ws ps hw hp
    cases ws with
    | nil => rw [addRoots_nil_w]; exact hp
    | cons w ws =>
      cases ps with
      | nil => rw [addRoots_nil_p]; simp
      | cons p ps =>
        rw [addRoots_cons]
        intro y hy
        simp only [List.mem_cons] at hy
        rcases hy with rfl | hy
        · have h1 := hp p (by simp)
          have h2 := hw w (by simp)
          have := mul_nonneg hc h2
          linarith
        · exact ih ws ps (fun w' hw' => hw w' (by simp [hw'])) (fun y' hy' => hp y' (by simp [hy'])) y hy

/-- layers at and below the root depth are not touched -/
theorem addRoots_getD_ge (c : ℚ) : ∀ (k : ℕ) (ws ps : List ℚ) (z : ℕ), k ≤ z →
    (addRoots c k ws ps).getD z 0 = ps.getD z 0 := by
  intro k
  induction k with
  | zero => intro ws ps z _; rw [addRoots_zero]
  | succ k ih =>
    intro ws ps z hz
    cases ws with
    | nil => rw [addRoots_nil_w]
    | cons w ws =>
      cases ps with
      | nil => rw [addRoots_nil_p]
      | cons p ps =>
        rw [addRoots_cons]
        cases z with
        | zero => omega
        | succ z => simp only [List.getD_cons_succ]; exact ih ws ps z (by omega)

/-- every layer holds at least what it held before -/
theorem addRoots_getD_le (c : ℚ) (hc : 0 ≤ c) : ∀ (k : ℕ) (ws ps : List ℚ) (z : ℕ), (∀ w ∈ ws, 0 ≤ w) →
    ps.getD z 0 ≤ (addRoots c k ws ps).getD z 0 := by
  intro k
  induction k with
  | zero => intro ws ps z _; rw [addRoots_zero]
  | succ k ih =>
    intro ws ps z hw
    cases ws with
    | nil => rw [addRoots_nil_w]
    | cons w ws =>
      cases ps with
      | nil => rw [addRoots_nil_p]
      | cons p ps =>
        rw [addRoots_cons]
        cases z with
        | zero =>
          simp only [List.getD_cons_zero]
          have := mul_nonneg hc (hw w (by simp)); linarith
        | succ z =>
          simp only [List.getD_cons_succ]
          exact ih ws ps z (fun w' hw' => hw w' (by simp [hw']))

theorem addTop_getD_le (x : ℚ) (hx : 0 ≤ x) (l : List ℚ) (z : ℕ) : l.getD z 0 ≤ (addTop x l).getD z 0 := by
  cases l with
  | nil => simp [addTop]
  | cons p ps =>
    cases z with
    | zero => simp [addTop]; linarith
    | succ z => simp [addTop]

/-! ### resid -/

/-- the clamps make both residue amounts non-negative in every state -/
theorem resid_dg_nonneg (i : ResidIn ℚ) : 0 ≤ (resid i).dgm ∧ 0 ≤ (resid i).dgu :=
  ⟨clamp0_nonneg _, clamp0_nonneg _⟩

theorem resid_split (i : ResidIn ℚ) :
    (resid i).nsa + (resid i).nla = (resid i).dgm ∧ (resid i).nusa + (resid i).nula = (resid i).dgu ∧
    (resid i).nresid = (resid i).dgm ∧ (resid i).ndi = 0 := by
  refine ⟨?_, ?_, rfl, rfl⟩ <;> simp only [resid] <;> ring

theorem residOf_split (i : In ℚ) :
    (residOf i).nsa + (residOf i).nla = (residOf i).dgm ∧ (residOf i).nusa + (residOf i).nula = (residOf i).dgu ∧
    (residOf i).nresid = (residOf i).dgm ∧ (residOf i).ndi = 0 ∧ 0 ≤ (residOf i).dgm ∧ 0 ≤ (residOf i).dgu := by
  unfold residOf
  split
  · simp [noResid]
  · obtain ⟨a, b, c, d⟩ := resid_split i.r
    obtain ⟨e, f⟩ := resid_dg_nonneg i.r
    exact ⟨a, b, c, d, e, f⟩

theorem residOf_parts_nonneg (i : In ℚ) (hf0 : 0 ≤ i.r.row.nfast) (hf1 : i.r.row.nfast ≤ 1) :
    0 ≤ (residOf i).nsa ∧ 0 ≤ (residOf i).nla ∧ 0 ≤ (residOf i).nusa ∧ 0 ≤ (residOf i).nula := by
  unfold residOf
  split
  · simp [noResid]
  · obtain ⟨e, f⟩ := resid_dg_nonneg i.r
    have h1 : 0 ≤ 1 - i.r.row.nfast := by linarith
    simp only [resid] at e f ⊢
    exact ⟨mul_nonneg e hf0, mul_nonneg e h1, mul_nonneg f hf0, mul_nonneg f h1⟩

/-- the ranges of a row of CROP_N.TXT and of the crop N under which the closed forms hold -/
structure RowRange (p : ℚ) (t : CropNRow ℚ) : Prop where
  p0 : 0 ≤ p
  w0 : 0 ≤ t.nwura
  w1 : t.nwura ≤ 1
  ne0 : 0 ≤ t.nernt
  ks0 : 0 ≤ t.kostro
  nk0 : 0 ≤ t.nkopp
  den : 0 < t.nernt + t.kostro * t.nkopp

/-- nitro.go:905 in closed form: the share `KOSTRO·NKOPP / (NERNT + KOSTRO·NKOPP)` of the above-ground N is in
the by-product, and `1 − jn` of it stays -/
theorem annualDgm_closed (jn p : ℚ) (t : CropNRow ℚ) (hd : 0 < t.nernt + t.kostro * t.nkopp) :
    annualDgm jn p t = (1 - jn) * (p * (1 - t.nwura) * (t.kostro * t.nkopp / (t.nernt + t.kostro * t.nkopp))) := by
  unfold annualDgm
  have hd' : t.nernt + t.kostro * t.nkopp ≠ 0 := ne_of_gt hd
  field_simp
  ring

theorem annualDgm_nonneg (jn p : ℚ) (t : CropNRow ℚ) (r : RowRange p t) (hj : jn ≤ 1) : 0 ≤ annualDgm jn p t := by
  rw [annualDgm_closed jn p t r.den]
  have h1 : 0 ≤ 1 - jn := by linarith
  have h2 : 0 ≤ 1 - t.nwura := by linarith [r.w1]
  have h3 : 0 ≤ t.kostro * t.nkopp / (t.nernt + t.kostro * t.nkopp) :=
    div_nonneg (mul_nonneg r.ks0 r.nk0) (le_of_lt r.den)
  exact mul_nonneg h1 (mul_nonneg (mul_nonneg r.p0 h2) h3)

/-- residues of a non-permanent crop, `0 ≤ JN ≤ 1`: no clamp is active, the roots stay as a whole -/
theorem resid_annual (i : ResidIn ℚ) (hk : i.dauerkult = false) (r : RowRange i.pesum i.row) (hj1 : i.jn ≤ 1) :
    (resid i).dgu = i.pesum * i.row.nwura ∧ (resid i).dgm = annualDgm i.jn i.pesum i.row := by
  have hpw : 0 ≤ i.pesum * i.row.nwura := mul_nonneg r.p0 r.w0
  have hann := annualDgm_nonneg i.jn i.pesum i.row r hj1
  have h2 : isEq i.jn 2 = false := by rw [isEq_false_iff]; intro h; linarith
  simp only [resid, rawDg, hk, Bool.false_eq_true, if_false]
  cases h0 : isEq i.jn 0
  · cases h1 : isEq i.jn 1
    · simp only [h2, if_false, Bool.false_eq_true]
      exact ⟨clamp0_of_nonneg hpw, clamp0_of_nonneg hann⟩
    · simp only [if_true, if_false, Bool.false_eq_true]
      refine ⟨clamp0_of_nonneg hpw, ?_⟩
      have : i.jn = 1 := (isEq_iff _ _).mp h1
      rw [clamp0_of_nonneg (le_refl _)]
      unfold annualDgm; rw [this]; ring
  · simp only [if_true]
    exact ⟨clamp0_of_nonneg hpw, clamp0_of_nonneg hann⟩

/-- `JN = 2`: the whole plant stays on the field -/
theorem resid_whole_plant (i : ResidIn ℚ) (hj : i.jn = 2) (hp : 0 ≤ i.pesum) (w0 : 0 ≤ i.row.nwura) (w1 : i.row.nwura ≤ 1) :
    (resid i).dgu = i.pesum * i.row.nwura ∧ (resid i).dgm = i.pesum - i.pesum * i.row.nwura := by
  have e0 : isEq i.jn 0 = false := by rw [isEq_false_iff, hj]; norm_num
  have e1 : isEq i.jn 1 = false := by rw [isEq_false_iff, hj]; norm_num
  have e2 : isEq i.jn 2 = true := by rw [isEq_iff, hj]
  have hpw : 0 ≤ i.pesum * i.row.nwura := mul_nonneg hp w0
  have hpm : 0 ≤ i.pesum - i.pesum * i.row.nwura := by nlinarith
  simp only [resid, rawDg, e0, e1, e2, if_true, if_false, Bool.false_eq_true]
  exact ⟨clamp0_of_nonneg hpw, clamp0_of_nonneg hpm⟩

/-! ### projections of `step` -/

theorem step_res (i : In ℚ) : (step i).res = residOf i := rfl
theorem step_nfos (i : In ℚ) :
    (step i).nfos = if skipOf i then addTop i.nsas (nfosAfterResidues i) else nfosAfterResidues i := rfl
theorem step_naos (i : In ℚ) :
    (step i).naos = if skipOf i then addTop i.nlas (naosAfterResidues i) else naosAfterResidues i := rfl
theorem step_dsumm (i : In ℚ) :
    (step i).dsumm = if skipOf i then i.dsumm + (residOf i).ndi + i.ndir else i.dsumm + (residOf i).ndi := rfl
theorem step_nuptake (i : In ℚ) : (step i).nuptake = i.r.pesum := rfl
theorem step_skipped (i : In ℚ) : (step i).skipped = skipOf i := rfl
theorem step_record (i : In ℚ) : (step i).record = (skipOf i || !i.first) := rfl
theorem step_akfInc (i : In ℚ) : (step i).akfInc = if skipOf i then 2 else 1 := rfl
theorem step_crop (i : In ℚ) :
    (step i).crop = finalReset i.nextPerennialCode (pinit i.r.dauerkult
      (afterCut i.r.dauerkult i.r.jn i.yifak i.r.gehob i.wugeh
        { i.crop with pesum := i.r.pesum - ((residOf i).nsa + (residOf i).nla + (residOf i).ndi), obmas := i.r.obmas })) := rfl
theorem step_recv_noskip (i : In ℚ) (h : skipOf i = false) :
    (step i).recv = { yield := yieldOf i.yorgan i.yifak i.r.obmas i.crop.worg, biomass := i.r.obmas,
                      roots := i.crop.worg.getD 0 0, nuptake := i.r.pesum, nagb := (residOf i).nagb,
                      nresid := (residOf i).nresid,
                      soilN1 := i.naltos / i.nakt * (1 - i.nakt) + sum3 (naosAfterResidues i) + sum3 (nfosAfterResidues i),
                      orgN := i.domeng1 } := by
  simp only [step, h, Bool.false_eq_true, if_false]
theorem step_recv_skip (i : In ℚ) (h : skipOf i = true) :
    (step i).recv = { yield := 0, biomass := 0, roots := 0, nuptake := 0, nagb := 0, nresid := 0, soilN1 := 0,
                      orgN := i.nsas + i.nlas + i.ndir } := by
  simp only [step, h, if_true]

/-- the arrays of the Go code: `NFOS`, `NAOS` with 21 cells, `WUANT` with 20 -/
structure Arrays (i : In ℚ) : Prop where
  nfos : i.nfos.length = 21
  naos : i.naos.length = 21
  wuant : i.wuant.length = 20

/-- Σ WUANT[0..WURZ): the share of the root residues that reaches a layer -/
def rootShare (i : In ℚ) : ℚ := (i.wuant.take i.crop.wurz).sum

theorem nfosAfterResidues_sum (i : In ℚ) (A : Arrays i) :
    (nfosAfterResidues i).sum = i.nfos.sum + (residOf i).nsa + (residOf i).nusa * rootShare i := by
  have hne : i.nfos ≠ [] := by intro h; have := A.nfos; rw [h] at this; simp at this
  unfold nfosAfterResidues rootShare
  rw [addRoots_sum _ _ _ _ (by rw [addTop_length, A.wuant, A.nfos]; norm_num), addTop_sum _ _ hne]

theorem naosAfterResidues_sum (i : In ℚ) (A : Arrays i) :
    (naosAfterResidues i).sum = i.naos.sum + (residOf i).nla + (residOf i).nula * rootShare i := by
  have hne : i.naos ≠ [] := by intro h; have := A.naos; rw [h] at this; simp at this
  unfold naosAfterResidues rootShare
  rw [addRoots_sum _ _ _ _ (by rw [addTop_length, A.wuant, A.naos]; norm_num), addTop_sum _ _ hne]

theorem nfosAfterResidues_ne_nil (i : In ℚ) (A : Arrays i) : nfosAfterResidues i ≠ [] := by
  intro h
  have := congrArg List.length h
  unfold nfosAfterResidues at this
  rw [addRoots_length, addTop_length, A.nfos] at this
  simp at this

theorem naosAfterResidues_ne_nil (i : In ℚ) (A : Arrays i) : naosAfterResidues i ≠ [] := by
  intro h
  have := congrArg List.length h
  unfold naosAfterResidues at this
  rw [addRoots_length, addTop_length, A.naos] at this
  simp at this

/-! ### the shipped table -/

/-- a row of the regenerated table (hundredths) lies in the ranges the theorems assume -/
def rowOk (v : List Nat) : Bool :=
  decide (v.getD 3 0 ≤ 100) && decide (v.getD 4 0 ≤ 100) && decide (0 < v.getD 1 0 * 100 + v.getD 0 0 * v.getD 2 0)

theorem shippedTableOk : Hermes.Generated.cropNRows.all (fun r => rowOk r.2) = true := by decide

theorem rowOk_range (v : List Nat) (h : rowOk v = true) (p : ℚ) (hp : 0 ≤ p) :
    RowRange p (rowOfHundredths v) ∧ 0 ≤ (rowOfHundredths v : CropNRow ℚ).nfast ∧ (rowOfHundredths v : CropNRow ℚ).nfast ≤ 1 := by
  simp only [rowOk, Bool.and_eq_true, decide_eq_true_eq] at h
  obtain ⟨⟨h3, h4⟩, hd⟩ := h
  have c3 : ((v.getD 3 0 : ℕ) : ℚ) ≤ 100 := by exact_mod_cast h3
  have c4 : ((v.getD 4 0 : ℕ) : ℚ) ≤ 100 := by exact_mod_cast h4
  have cd : (0 : ℚ) < ((v.getD 1 0 : ℕ) : ℚ) * 100 + ((v.getD 0 0 : ℕ) : ℚ) * ((v.getD 2 0 : ℕ) : ℚ) := by exact_mod_cast hd
  have n0 : ∀ n : ℕ, (0 : ℚ) ≤ (n : ℚ) / 100 := fun n => div_nonneg (Nat.cast_nonneg n) (by norm_num)
  refine ⟨⟨hp, n0 _, ?_, n0 _, n0 _, n0 _, ?_⟩, n0 _, ?_⟩
  · show ((v.getD 3 0 : ℕ) : ℚ) / 100 ≤ 1
    rw [div_le_one (by norm_num)]; exact c3
  · show (0 : ℚ) < ((v.getD 1 0 : ℕ) : ℚ) / 100 + ((v.getD 0 0 : ℕ) : ℚ) / 100 * (((v.getD 2 0 : ℕ) : ℚ) / 100)
    have : ((v.getD 1 0 : ℕ) : ℚ) / 100 + ((v.getD 0 0 : ℕ) : ℚ) / 100 * (((v.getD 2 0 : ℕ) : ℚ) / 100)
        = (((v.getD 1 0 : ℕ) : ℚ) * 100 + ((v.getD 0 0 : ℕ) : ℚ) * ((v.getD 2 0 : ℕ) : ℚ)) / 10000 := by ring
    rw [this]; exact div_pos cd (by norm_num)
  · show ((v.getD 4 0 : ℕ) : ℚ) / 100 ≤ 1
    rw [div_le_one (by norm_num)]; exact c4

end Hermes.Harvest
