package main

import (
	"fmt"
	"os"
	"strings"

	"github.com/zalf-rpm/Hermes2Go/hermes"
	"verifharness/proj"
	"verifharness/vh"
)

func main() {
	r := vh.NewRng(7)
	root, _ := os.MkdirTemp("", "verif-smoke-")
	defer os.RemoveAll(root)
	for i := 0; i < 20; i++ {
		p := proj.Gen(r.Fork(), fmt.Sprintf("p%d", i), proj.Opt{Management: true})
		if err := p.Write(root, "/repo"); err != nil {
			panic(err)
		}
		days, subs := 0, 0
		res := proj.Run(root, p, &hermes.VerifProbes{
			DayEnd:     func(g *hermes.GlobalVarsMain, w *hermes.WaterSharedVars, n *hermes.NitroSharedVars, c *hermes.CropSharedVars, zeit int) { days++ },
			AfterWater: func(g *hermes.GlobalVarsMain, w *hermes.WaterSharedVars, zeit, subd int, wdt, steps float64) { subs++ },
		})
		fmt.Printf("%s N=%d rot=%d start=%v end=%v err=%v panic=%q days=%d subs=%d %v V=%d C=%d M=%d\n", p.Name, p.N(), len(p.Rot), p.Start(), p.End(), res.Err, res.Panic, days, subs, res.Elapsed,
			strings.Count(res.Out.File("V"), "\n"), strings.Count(res.Out.File("C"), "\n"), strings.Count(res.Out.File("M"), "\n"))
		for _, l := range res.Log {
			if strings.Contains(l, "rror") {
				fmt.Println("   log:", l)
			}
		}
	}
}
