package proj

// Management / configuration variations at run level and the expectations the checks derive from the
// generated INPUT (never from the code under test):
//   IrrigationNOn      irrigation N of a day from the irrigation schedule the harness writes
//   GWSeriesLevel      level of the groundwater time series on a day and whether it rests since the day before
//   DepositionPerDay   deposition input of a day from the configuration text
//   WriteConfigStyle   other valid renderings of config.yml (CRLF, comments, quoted keys, document marker)
//   RemoveConfig       run without config.yml (the run writes the default file)

import (
	"fmt"
	"os"
	"path/filepath"
	"sort"
	"strconv"
	"strings"
)

// IrrigationNOn: the N (kg/ha) that the irrigation schedule of the project's field brings on day z:
// lines of the field dated on that day and not before the simulation start, mm * concentration * 0.01
// (ppm * mm -> kg N/ha). Lines of other fields do not count. ok = at most one line of the field on that
// day (the model executes one irrigation per day).
func (p *Project) IrrigationNOn(z int) (n float64, mm float64, lines int) {
	s0 := p.Start().Z()
	for _, e := range p.Irr {
		if e.Field != "" && e.Field != p.Field {
			continue
		}
		if ez := e.Date.Z(); ez == z && ez >= s0 {
			n += float64(e.Conc) * float64(e.MM) * 0.01
			mm += float64(e.MM)
			lines++
		}
	}
	return
}

// HasPreStartIrrigation: a line of the field dated before the first simulated day.
func (p *Project) HasPreStartIrrigation() bool {
	s0 := p.Start().Z()
	for _, e := range p.Irr {
		if (e.Field == "" || e.Field == p.Field) && e.Date.Z() < s0 {
			return true
		}
	}
	return false
}

// DepositionPerDay: NDeposition of the configuration (kg N/ha/a) / 365. Batch-line arguments override
// the file (later arguments win).
func (p *Project) DepositionPerDay() float64 {
	txt := strings.Trim(p.Cfg["NDeposition"], "\"'")
	for _, a := range p.Args {
		if strings.HasPrefix(a, "NDeposition=") {
			txt = strings.TrimPrefix(a, "NDeposition=")
		}
	}
	if txt == "" {
		txt = "20" // documented default
	}
	f, _ := strconv.ParseFloat(txt, 64)
	return f / 365
}

// GWSeriesLevel: the groundwater level (dm) the time series gives for day z (record of the day, else
// linear interpolation between the neighbouring records, else the nearest record) and rests = the level
// of day z-1 is the same number because both days lie on a stretch between two records (or beyond the
// ends of the series) that carry the same level.
func (p *Project) GWSeriesLevel(z int) (level float64, rests bool, ok bool) {
	if len(p.GWSerie) == 0 {
		return 0, false, false
	}
	pts := append([]GWPoint(nil), p.GWSerie...)
	sort.SliceStable(pts, func(a, b int) bool { return pts[a].Date.Z() < pts[b].Date.Z() })
	first, last := pts[0], pts[len(pts)-1]
	switch {
	case z <= first.Date.Z():
		return first.Level, true, true
	case z-1 >= last.Date.Z():
		return last.Level, true, true
	}
	for i := 0; i+1 < len(pts); i++ {
		a, b := pts[i], pts[i+1]
		az, bz := a.Date.Z(), b.Date.Z()
		if az <= z && z <= bz {
			switch {
			case z == az:
				level = a.Level
			case z == bz:
				level = b.Level
			default:
				level = (b.Level-a.Level)/float64(bz-az)*float64(z-az) + a.Level
			}
			if a.Level == b.Level && az <= z-1 {
				return a.Level, true, true
			}
			if z == az {
				continue // the stretch before this record decides (z-1 lies there)
			}
			return level, false, true
		}
	}
	return level, false, true
}

// WriteConfigStyle rewrites project/<name>/config.yml in another valid rendering (call after Write):
//
//	1 CRLF line endings
//	2 a comment line on top, a `# …` comment behind every value, blank lines
//	3 CRLF + comments + `---` document marker + keys in reverse order
//	4 quoted keys ("Key": value)
func (p *Project) WriteConfigStyle(root string, style int) error {
	if style == 0 {
		return nil
	}
	keys := make([]string, 0, len(p.Cfg))
	for k := range p.Cfg {
		keys = append(keys, k)
	}
	sort.Strings(keys)
	if style == 3 {
		sort.Sort(sort.Reverse(sort.StringSlice(keys)))
	}
	eol := "\n"
	if style == 1 || style == 3 {
		eol = "\r\n"
	}
	var b strings.Builder
	if style == 3 {
		b.WriteString("---" + eol)
	}
	if style == 2 || style == 3 {
		b.WriteString("# generated configuration (comments and blank lines are legal YAML)" + eol + eol)
	}
	for i, k := range keys {
		key := k
		if style == 4 {
			key = "\"" + k + "\""
		}
		line := fmt.Sprintf("%s: %s", key, p.Cfg[k])
		if style == 2 || style == 3 {
			line += "   # " + k
			if i%5 == 4 {
				line += eol
			}
		}
		b.WriteString(line + eol)
	}
	return os.WriteFile(filepath.Join(root, "project", p.Name, "config.yml"), []byte(b.String()), 0o644)
}

// RemoveConfig deletes config.yml (call after Write): the run creates the default file and works with
// the documented defaults (plus the batch line).
func (p *Project) RemoveConfig(root string) error {
	return os.Remove(filepath.Join(root, "project", p.Name, "config.yml"))
}

// StripScheduleEnd removes the final "end" line of the three schedule files (call after Write /
// WriteScheduleStyle): the readers stop at the end of the file as well.
func (p *Project) StripScheduleEnd(root string) error {
	dir := filepath.Join(root, "project", p.Name)
	for _, f := range []string{"fert_", "irr_", "til_"} {
		file := filepath.Join(dir, f+p.Name+".txt")
		b, err := os.ReadFile(file)
		if err != nil {
			continue
		}
		lines := strings.Split(strings.TrimRight(string(b), "\n"), "\n")
		if n := len(lines); n > 0 && strings.TrimSpace(lines[n-1]) == "end" {
			lines = lines[:n-1]
		}
		if err := os.WriteFile(file, []byte(strings.Join(lines, "\n")+"\n"), 0o644); err != nil {
			return err
		}
	}
	return nil
}

// RemoveTillageFile deletes the tillage schedule (the only schedule file the model treats as optional).
func (p *Project) RemoveTillageFile(root string) error {
	return os.Remove(filepath.Join(root, "project", p.Name, "til_"+p.Name+".txt"))
}
