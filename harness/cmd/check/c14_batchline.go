package main

// C14 stage T: the batch line as the simulator binary reads it from a batch FILE.  The key=value tokens of a line may be
// separated by blanks, tabs or several of them (the dispatcher splits the line at white space); whatever the separator, a
// value given on the line is the one the run uses.  Observed through the result files of the built hermes2go: the
// extension (ResultFileExt), the last daily record (EndDate) and the number of daily records (OutputIntervall).

import (
	"fmt"
	"os"
	"path/filepath"
	"strings"
	"time"

	"verifharness/proj"
	"verifharness/vh"
)

func c14BatchLineStage(c *vh.Ctx) {
	bin, err := c.BuildTool("hermes2go")
	if err != nil {
		c.Violate("correspondence", "build:hermes2go", err.Error(), nil)
		return
	}
	seps := []struct{ name, sep string }{{"blank", " "}, {"tab", "\t"}, {"blanks", "   "}, {"tab-blank", "\t "}, {"tabs", "\t\t"}}
	n := c.N(2, 10)
	for k := 0; k < n; k++ {
		r := c.Rng.Fork()
		root := filepath.Join(c.Scratch, fmt.Sprintf("batchline%d", k))
		p := proj.Gen(r, fmt.Sprintf("bl%d", k), proj.Opt{Years: 1, NoCrop: true, MinLayers: 15})
		p.Cfg["ResultFileExt"] = "\"RES\""
		p.Cfg["OutputIntervall"] = "1"
		if err := p.Write(root, c.Repo); err != nil {
			c.Violate("correspondence", "harness:write", err.Error(), nil)
			return
		}
		end := proj.FromZ(r.Range(p.Start().Z()+40, p.End().Z()-30))
		ext := []string{"xyz", "out", "dat"}[r.Intn(3)]
		for si, sp := range seps {
			toks := append([]string{}, p.BatchArgs()...)
			for i := range toks {
				if strings.HasPrefix(toks[i], "poligonID=") {
					toks[i] = fmt.Sprintf("poligonID=T%d%s", si, p.Name)
				}
			}
			toks = append(toks, "ResultFileExt="+ext, "EndDate="+end.Fmt(p.DateFmt), "OutputIntervall=1")
			bf := filepath.Join(root, fmt.Sprintf("batch-%d.txt", si))
			os.WriteFile(bf, []byte(strings.Join(toks, sp.sep)+"\n"), 0o644)
			so, se, err := vh.RunTool(90*time.Second, root, bin, "-module", "batch", "-batch", bf, "-workingdir", root, "-concurrent", "1")
			c.Eval()
			c.Count("T:separator=" + sp.name)
			replay := map[string]interface{}{"project": p, "batch_line": strings.Join(toks, sp.sep), "separator": sp.name,
				"how": "Project.Write, the line as the only line of a batch file, hermes2go -module batch -batch <file> -workingdir <root> -concurrent 1"}
			if err != nil {
				c.Violate("search", "batch-line:run-fails:sep="+sp.name, fmt.Sprintf("the run of a batch line whose tokens are separated by %s fails: %v %s %s", sp.name, err, tail(se, 300), tail(so, 300)), replay)
				continue
			}
			files, _ := filepath.Glob(filepath.Join(root, "project", p.Name, "RESULT", fmt.Sprintf("V*T%d%s*", si, p.Name)))
			if len(files) != 1 {
				c.Violate("search", "batch-line:no-daily-file:sep="+sp.name, fmt.Sprintf("tokens separated by %s: %d daily result files for the line (stdout: %s)", sp.name, len(files), tail(so, 300)), replay)
				continue
			}
			c.Nontrivial(fmt.Sprintf("batchline:%d:%s", k, sp.name))
			if !strings.HasSuffix(files[0], "."+ext) {
				c.Violate("search", "batch-line:precedence:ResultFileExt:sep="+sp.name, fmt.Sprintf("tokens separated by %s: the line says ResultFileExt=%s, the daily result file is %s (config.yml says RES)", sp.name, ext, filepath.Base(files[0])), replay)
			}
			b, _ := os.ReadFile(files[0])
			last := ""
			for _, l := range strings.Split(strings.TrimSpace(string(b)), "\n") {
				if f := strings.Split(l, ","); len(f) > 1 {
					if _, ok := c05ParseDate(strings.TrimSpace(f[0]), p.DateFmt); ok {
						last = strings.TrimSpace(f[0])
					}
				}
			}
			if d, ok := c05ParseDate(last, p.DateFmt); ok {
				// the run is extended to the day after the annual output date when that lies behind the end date (run.go:137-139)
				if d.Z() != end.Z() && d.Y == p.End().Y && p.End().Z() == d.Z() {
					c.Violate("search", "batch-line:precedence:EndDate:sep="+sp.name, fmt.Sprintf("tokens separated by %s: the line says EndDate=%s, the last daily record is %s = the end date of config.yml", sp.name, end.Fmt(p.DateFmt), last), replay)
				}
			}
		}
		os.RemoveAll(root)
	}
}
