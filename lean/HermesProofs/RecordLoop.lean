/-
Helper lemmas for the record loop model (HermesModel/RecordLoop.lean), used by HermesProps/C05.lean.
Core Lean only.
-/
import HermesModel.RecordLoop
import HermesProofs.Calendar

namespace Hermes.RecordLoop
open Hermes.Calendar

/-! ### the window -/

theorem mem_window (b e z : Nat) : z ∈ window b e ↔ b ≤ z ∧ z ≤ e := by
  unfold window
  rw [List.mem_range'_1]; omega

theorem window_pairwise (b e : Nat) : (window b e).Pairwise (· < ·) := by
  unfold window; exact List.pairwise_lt_range'

/-! ### day numbers and dates -/

/-- Every day number of the range is the day number of the valid date KalenderDate returns. -/
theorem kalender_of_range (z : Nat) (h1 : 1 ≤ z) (h2 : z ≤ 72684) :
    ∃ yr mon tg, ValidDate yr mon tg ∧ kalenderDate z = some (yr + 1900, mon, tg) ∧
      masdat yr mon tg = z := by
  obtain ⟨yr, mon, tg, hv, hm⟩ := masdat_surj z h1 h2
  obtain ⟨a, b, c, d, e, f⟩ := hv
  exact ⟨yr, mon, tg, ⟨a, b, c, d, e, f⟩, by rw [← hm]; exact kalender_masdat_core yr mon tg a b c d e f, hm⟩

theorem masdat_pos (yr mon tg : Nat) (h : ValidDate yr mon tg) : 1 ≤ masdat yr mon tg := by
  obtain ⟨a, b, c, d, e, f⟩ := h
  unfold masdat; omega

theorem masdat_le (yr mon tg : Nat) (h : ValidDate yr mon tg) : masdat yr mon tg ≤ 72684 := by
  obtain ⟨hy1, hy2, hm1, hm2, ht1, ht2⟩ := h
  have hb := doy_bound yr mon tg hm1 hm2 ht1 ht2
  unfold masdat
  by_cases hl : yr % 4 = 0 <;> simp [hl] at hb <;> omega

/-- The year a day number lies in, as KalenderDate reports it (0 outside the range). -/
def yearOf (z : Nat) : Nat :=
  match kalenderDate z with
  | some (y, _, _) => y
  | none => 0

/-- A strictly increasing list has at most one element with a property that pins the element. -/
theorem filter_singleton {l : List Nat} (hs : l.Pairwise (· < ·)) (p : Nat → Bool) (a : Nat)
    (hp : ∀ z ∈ l, p z = true → z = a) (ha : a ∈ l) (hpa : p a = true) : l.filter p = [a] := by
  have hsub : (l.filter p).Pairwise (· < ·) := hs.sublist List.filter_sublist
  have hall : ∀ z ∈ l.filter p, z = a := by
    intro z hz
    rw [List.mem_filter] at hz
    exact hp z hz.1 hz.2
  have hmem : a ∈ l.filter p := List.mem_filter.mpr ⟨ha, hpa⟩
  match hl : l.filter p, hsub, hall, hmem with
  | [], _, _, hm => simp at hm
  | [x], _, hall, _ => rw [hall x (by simp)]
  | x :: y :: _, hsub, hall, _ =>
    have hx := hall x (by simp)
    have hy := hall y (by simp)
    rw [List.pairwise_cons] at hsub
    have := hsub.1 y (by simp)
    omega

theorem filter_none {l : List Nat} (p : Nat → Bool) (hp : ∀ z ∈ l, p z = false) :
    l.filter p = [] := by
  rw [List.filter_eq_nil_iff]
  intro z hz; simp [hp z hz]

/-! ### yearly records -/

theorem isAnnual_masdat (yr m d om od : Nat) (h : ValidDate yr m d) :
    isAnnualOutputDay (masdat yr m d) om od =
      ((m == om && d == od) || (om == 2 && od == 29 && m == 3 && d == 1 && (yr + 1900) % 4 != 0)) := by
  obtain ⟨a, b, c, e, f, g⟩ := h
  simp only [isAnnualOutputDay, kalender_masdat_core yr m d a b c e f g]

theorem yearOf_masdat (yr m d : Nat) (h : ValidDate yr m d) : yearOf (masdat yr m d) = yr + 1900 := by
  obtain ⟨a, b, c, e, f, g⟩ := h
  simp only [yearOf, kalender_masdat_core yr m d a b c e f g]

theorem mem_yearlyWrites (om od b e z : Nat) :
    z ∈ yearlyWrites om od (window b e) ↔ (b ≤ z ∧ z ≤ e ∧ isAnnualOutputDay z om od = true) := by
  unfold yearlyWrites
  rw [List.mem_filter, mem_window]
  constructor
  · rintro ⟨⟨h1, h2⟩, h3⟩; exact ⟨h1, h2, h3⟩
  · rintro ⟨h1, h2, h3⟩; exact ⟨⟨h1, h2⟩, h3⟩

theorem yearlyWrites_pairwise (om od b e : Nat) : (yearlyWrites om od (window b e)).Pairwise (· < ·) :=
  (window_pairwise b e).sublist List.filter_sublist

/-- If, among the dates of year `yr`, exactly the date `d.m.` triggers the yearly output, then the
yearly writes of that year are: its day number if it lies in the window, nothing otherwise. -/
theorem yearly_year_filter (om od b e yr m d : Nat) (hb : 1 ≤ b) (he : e ≤ 72684)
    (hv : ValidDate yr m d) (hhit : isAnnualOutputDay (masdat yr m d) om od = true)
    (huniq : ∀ m' d', ValidDate yr m' d' → isAnnualOutputDay (masdat yr m' d') om od = true →
      m' = m ∧ d' = d) :
    (yearlyWrites om od (window b e)).filter (fun z => yearOf z == yr + 1900) =
      if b ≤ masdat yr m d ∧ masdat yr m d ≤ e then [masdat yr m d] else [] := by
  have key : ∀ z, z ∈ yearlyWrites om od (window b e) → (yearOf z == yr + 1900) = true →
      z = masdat yr m d := by
    intro z hz hp
    obtain ⟨h1, h2, h3⟩ := (mem_yearlyWrites om od b e z).mp hz
    obtain ⟨y', m', d', hv', hk, hm⟩ := kalender_of_range z (by omega) (by omega)
    have hy : y' = yr := by
      have : yearOf z = y' + 1900 := by simp only [yearOf, hk]
      rw [this] at hp
      have := beq_iff_eq.mp hp
      omega
    subst hy
    rw [← hm] at h3
    obtain ⟨e1, e2⟩ := huniq m' d' hv' h3
    rw [← hm, e1, e2]
  by_cases hin : b ≤ masdat yr m d ∧ masdat yr m d ≤ e
  · rw [if_pos hin]
    apply filter_singleton (yearlyWrites_pairwise om od b e)
    · exact key
    · exact (mem_yearlyWrites om od b e _).mpr ⟨hin.1, hin.2, hhit⟩
    · rw [yearOf_masdat yr m d hv]; exact beq_self_eq_true _
  · rw [if_neg hin]
    apply filter_none
    intro z hz
    by_cases hp : (yearOf z == yr + 1900) = true
    · exfalso
      have hzz := key z hz hp
      obtain ⟨h1, h2, _⟩ := (mem_yearlyWrites om od b e z).mp hz
      rw [hzz] at h1 h2
      exact hin ⟨h1, h2⟩
    · simpa using hp

/-! ### crop records -/

/-- The scan of cropWrites phrased over the harvest days still ahead. -/
def scanL : List Nat → List Nat → Nat → List (Nat × Nat)
  | _, [], _ => []
  | [], _ :: _, _ => []
  | h :: hs, z :: rest, akf =>
    if h == z then
      if akf ≥ 1 then (z, akf) :: scanL hs rest (akf + 1) else scanL hs rest (akf + 1)
    else scanL (h :: hs) rest akf

theorem scanL_nil (zs : List Nat) (a : Nat) : scanL [] zs a = [] := by
  cases zs <;> simp [scanL]

theorem cropWrites_eq_scanL (ernte : List Nat) : ∀ (zs : List Nat) (a : Nat), (∀ z ∈ zs, 1 ≤ z) →
    cropWrites ernte zs a = scanL (ernte.drop a) zs a
  | [], a, _ => by cases h : ernte.drop a <;> simp [cropWrites, scanL]
  | z :: rest, a, hz => by
    have hz1 : 1 ≤ z := hz z (by simp)
    have hrest : ∀ z ∈ rest, 1 ≤ z := fun w hw => hz w (by simp [hw])
    cases hd : ernte.drop a with
    | nil =>
      have hlen : ernte.length ≤ a := by
        have := congrArg List.length hd
        simp at this; omega
      have hg : ernte.getD a 0 = 0 := by
        simp [List.getD_eq_getElem?_getD, List.getElem?_eq_none hlen]
      have hne : (0 == z) = false := by simp; omega
      simp only [cropWrites, hg, hne, scanL]
      rw [cropWrites_eq_scanL ernte rest a hrest, hd, scanL_nil]
      simp
    | cons h hs =>
      have hlt : a < ernte.length := by
        have := congrArg List.length hd
        simp at this; omega
      have hh : ernte[a] = h := by
        have := List.getElem_cons_drop (as := ernte) (i := a) hlt
        rw [hd] at this
        have h2 := List.cons.inj this
        exact h2.1
      have hdrop : ernte.drop (a + 1) = hs := by
        have := List.getElem_cons_drop (as := ernte) (i := a) hlt
        rw [hd] at this
        exact (List.cons.inj this).2
      have hg : ernte.getD a 0 = h := by
        simp [List.getD_eq_getElem?_getD, List.getElem?_eq_getElem hlt, hh]
      simp only [cropWrites, hg, scanL]
      by_cases he : (h == z) = true
      · simp only [he, if_true]
        rw [cropWrites_eq_scanL ernte rest (a + 1) hrest, hdrop]
      · simp only [he]
        rw [cropWrites_eq_scanL ernte rest a hrest, hd]
        simp

/-- On a window of consecutive days, strictly increasing harvest days that all lie ahead are met one
after the other: the scan yields them, numbered consecutively, as far as they fall into the window. -/
theorem scanL_spec : ∀ (n : Nat) (rem : List Nat) (z0 a : Nat), rem.Pairwise (· < ·) →
    (∀ h ∈ rem, z0 ≤ h) →
    scanL rem (List.range' z0 n) a =
      ((rem.takeWhile (fun h => decide (h < z0 + n))).zipIdx a).filter (fun p => decide (p.2 ≥ 1))
  | 0, rem, z0, a, _, hge => by
    cases rem with
    | nil => simp [scanL]
    | cons h hs =>
      have : ¬ h < z0 := by have := hge h (by simp); omega
      simp [scanL, this]
  | n + 1, [], z0, a, _, _ => by simp [List.range'_succ, scanL]
  | n + 1, h :: hs, z0, a, hs', hge => by
    rw [List.range'_succ]
    have hz0 : z0 ≤ h := hge h (by simp)
    rw [List.pairwise_cons] at hs'
    by_cases he : h = z0
    · subst he
      have hlt : h < h + (n + 1) := by omega
      have ih := scanL_spec n hs (h + 1) (a + 1) hs'.2 (fun x hx => by have := hs'.1 x hx; omega)
      have e : h + 1 + n = h + (n + 1) := by omega
      rw [e] at ih
      simp only [scanL, beq_self_eq_true, if_true, List.takeWhile_cons, hlt, decide_true,
        List.zipIdx_cons, List.filter_cons]
      by_cases ha : a ≥ 1
      · simp only [ha, if_true, decide_true]; rw [ih]
      · simp only [ha, if_false, decide_false]; rw [ih]; simp
    · have hne : (h == z0) = false := by simp [he]
      have ih := scanL_spec n (h :: hs) (z0 + 1) a (List.pairwise_cons.mpr hs')
        (fun x hx => by
          rcases List.mem_cons.mp hx with rfl | hx'
          · omega
          · have := hs'.1 x hx'; omega)
      have e : z0 + 1 + n = z0 + (n + 1) := by omega
      rw [e] at ih
      simp only [scanL, hne]
      simpa using ih

end Hermes.RecordLoop
