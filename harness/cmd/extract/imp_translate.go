package main

// Translator v2 (DESIGN §4.3): imperative kernels of /repo → Lean.
//
// A Go function of package hermes whose body consists of
//   - assignments (=, :=, +=, -=, *=, /=) to local variables, to fields of its pointer parameters (g.X, g.X.Y) and to
//     elements of arrays (g.X[i], g.X[c][i] with a constant c, local arrays and slice literals),
//   - `var` declarations, `if` / `else if` / `else`, `break`,
//   - counted loops `for i := a; i < b; i++`, `i <= b`, `for i := a; i >= b; i--` whose body does not assign i or a variable of the bound,
//   - calls of package math, the conversions float64(·) and int(·), arithmetic, comparisons, && || !
// is translated on every run into lean/HermesModel/Generated/Imp<Func>.lean:
//   structure St α   — one field per variable the function touches (parameters p_*, fields of the receivers g_* / l_*, locals v_*),
//   def loop<k>      — one definition per loop body,
//   def run          — the function as a state transformer St α → St α (polymorphic in the arithmetic, math functions a parameter).
// The list of fields with their Go access paths goes to facts.json (key imp.<Func>.fields) so that the harness can serialise the
// state before and after a call of the real function by reflection and the model driver can run the translation on the same state
// (correspondence of the translator itself), and lean/Driver/SrcimpOps.lean is generated to decode/encode the states.
//
// The types come from go/types (package hermes is type-checked from source; unresolved third-party imports are ignored, the
// kernels do not use them).  Constant expressions are folded like the Go compiler does: exact value, printed as a quotient.
// A function outside the subset is not an error of the extraction: its Lean file is written without definitions, so exactly the
// theorems that depend on it stop checking.

import (
	"bytes"
	"fmt"
	"go/ast"
	"go/constant"
	"go/importer"
	"go/parser"
	"go/printer"
	"go/token"
	"go/types"
	"math/big"
	"os"
	"path/filepath"
	"sort"
	"strconv"
	"strings"
)

func init() { registerExtractor(extractImpKernels) }

type impTarget struct {
	file, fn string
	split    bool // emit one definition per top-level statement (`top<k>`), `run` is their composition
}

var impTargets = []impTarget{
	{"hermes/soiltemp.go", "Soiltemp", false},
	{"hermes/denit.go", "Denitr", false},
	{"hermes/water.go", "Water", true},
	{"hermes/nitro.go", "nmove", true},
	{"hermes/nitro.go", "mineral", false},
	{"hermes/crop.go", "vern", true},
	{"hermes/init.go", "setFieldCapacityWithGW", false},
}

// ---------------------------------------------------------------------------------------------- type-checked package

type hermesPkg struct {
	fset  *token.FileSet
	files map[string]*ast.File
	info  *types.Info
	pkg   *types.Package
}

func loadHermesPkg(repo string) *hermesPkg {
	dir := filepath.Join(repo, "hermes")
	fset := token.NewFileSet()
	ents, err := os.ReadDir(dir)
	must(err == nil, "read hermes dir")
	h := &hermesPkg{fset: fset, files: map[string]*ast.File{}}
	var files []*ast.File
	for _, e := range ents {
		n := e.Name()
		if !strings.HasSuffix(n, ".go") || strings.HasSuffix(n, "_test.go") || strings.HasPrefix(n, "verif_") {
			continue
		}
		f, err := parser.ParseFile(fset, filepath.Join(dir, n), nil, 0)
		if err != nil {
			fmt.Println("imp: parse", n, err)
			os.Exit(1)
		}
		files = append(files, f)
		h.files["hermes/"+n] = f
	}
	conf := types.Config{Importer: importer.ForCompiler(fset, "source", nil), Error: func(error) {}}
	h.info = &types.Info{Types: map[ast.Expr]types.TypeAndValue{}, Defs: map[*ast.Ident]types.Object{}, Uses: map[*ast.Ident]types.Object{}}
	h.pkg, _ = conf.Check("hermes", fset, files, h.info)
	return h
}

// ---------------------------------------------------------------------------------------------- translator state

type impField struct {
	Lean   string `json:"lean"`   // field name in St
	Kind   string `json:"kind"`   // float | int | bool | floats | ints
	Role   string `json:"role"`   // param | recv | local
	GoPath string `json:"go"`     // e.g. g.TSOIL[0]  (recv), wdt (param), "" (local)
	Len    int    `json:"len"`    // array length (lists), 0 for scalars / slices
	Order  int    `json:"-"`
}

type impTr struct {
	h       *hermesPkg
	fn      string
	fields  map[string]*impField
	objName map[types.Object]string // local variable objects → field name / loop variable name
	loopVar map[types.Object]bool
	recv    map[types.Object]string // pointer/struct parameters
	hasBrk  bool
	defs    []string // emitted loop definitions (in order)
	nloop   int
	loopCtx []string // enclosing loop variables (parameters of nested loop defs)
	usedNames map[string]bool
	fields2D  map[string][2]int // local 2-D arrays: rows, columns
	pure      map[types.Object]bool // single-assignment scalar locals used only in the loop body that declares them: Lean `let`s
}

// findPure: a local declared by `x := e` with a scalar type, never assigned again, and used only inside the same innermost loop
// body as its declaration becomes a Lean `let` (its Go scope is the enclosing block, so it cannot be read later).
func (t *impTr) findPure(body *ast.BlockStmt) {
	t.pure = map[types.Object]bool{}
	declLoop := map[types.Object]ast.Node{}
	bad := map[types.Object]bool{}
	var stack []ast.Node
	inner := func() ast.Node {
		for i := len(stack) - 1; i >= 0; i-- {
			if _, ok := stack[i].(*ast.ForStmt); ok {
				return stack[i]
			}
		}
		return nil
	}
	var walk func(n ast.Node) bool
	walk = func(n ast.Node) bool {
		if n == nil {
			stack = stack[:len(stack)-1]
			return true
		}
		switch x := n.(type) {
		case *ast.AssignStmt:
			for _, l := range x.Lhs {
				id, ok := l.(*ast.Ident)
				if !ok {
					continue
				}
				if x.Tok == token.DEFINE {
					if obj := t.h.info.Defs[id]; obj != nil {
						k, _ := kindOf(obj.Type())
						if (k == "float" || k == "int") && len(x.Lhs) == 1 {
							declLoop[obj] = inner()
						} else {
							bad[obj] = true
						}
						continue
					}
				}
				if obj := t.h.info.Uses[id]; obj != nil {
					bad[obj] = true // assigned again
				}
			}
		case *ast.IncDecStmt:
			if id, ok := x.X.(*ast.Ident); ok {
				if obj := t.h.info.Uses[id]; obj != nil {
					bad[obj] = true
				}
			}
		case *ast.Ident:
			if obj := t.h.info.Uses[x]; obj != nil {
				if dl, ok := declLoop[obj]; ok && dl != inner() {
					bad[obj] = true // used inside a nested loop (a separate Lean definition)
				}
			}
		}
		stack = append(stack, n)
		return true
	}
	ast.Inspect(body, walk)
	for obj := range declLoop {
		if !bad[obj] {
			t.pure[obj] = true
		}
	}
}

// src prints a node as Go source (for comments and messages)
func (t *impTr) src(n ast.Node) string {
	var b bytes.Buffer
	printer.Fprint(&b, t.h.fset, n)
	return strings.Join(strings.Fields(b.String()), " ")
}

func (t *impTr) fail(format string, a ...interface{}) { panic(trErr{fmt.Sprintf(format, a...)}) }

func (t *impTr) pos(n ast.Node) string {
	p := t.h.fset.Position(n.Pos())
	return fmt.Sprintf("%s:%d", filepath.Base(p.Filename), p.Line)
}

func kindOf(ty types.Type) (kind string, n int) {
	switch u := ty.Underlying().(type) {
	case *types.Basic:
		switch {
		case u.Info()&types.IsFloat != 0:
			return "float", 0
		case u.Info()&types.IsInteger != 0:
			return "int", 0
		case u.Info()&types.IsBoolean != 0:
			return "bool", 0
		case u.Info()&types.IsString != 0:
			return "string", 0
		}
	case *types.Array:
		k, _ := kindOf(u.Elem())
		if k == "float" {
			return "floats", int(u.Len())
		}
		if k == "int" {
			return "ints", int(u.Len())
		}
	case *types.Slice:
		k, _ := kindOf(u.Elem())
		if k == "float" {
			return "floats", 0
		}
		if k == "int" {
			return "ints", 0
		}
	}
	return "", 0
}

func leanType(kind string) string {
	switch kind {
	case "float":
		return "α"
	case "int":
		return "Int"
	case "bool":
		return "Bool"
	case "floats":
		return "List α"
	case "ints":
		return "List Int"
	case "string":
		return "String"
	}
	return "?"
}

func (t *impTr) field(lean, kind, role, gopath string, n int) string {
	if f, ok := t.fields[lean]; ok {
		if f.Kind != kind {
			t.fail("field %s used with kinds %s and %s", lean, f.Kind, kind)
		}
		return lean
	}
	t.fields[lean] = &impField{Lean: lean, Kind: kind, Role: role, GoPath: gopath, Len: n, Order: len(t.fields)}
	return lean
}

// location: a variable or (element of) a field.  Returns the state field and the (translated) index, "" if scalar.
func (t *impTr) loc(e ast.Expr) (field string, idx string, kind string) {
	switch x := e.(type) {
	case *ast.ParenExpr:
		return t.loc(x.X)
	case *ast.Ident:
		obj := t.h.info.Uses[x]
		if obj == nil {
			obj = t.h.info.Defs[x]
		}
		if obj == nil {
			t.fail("%s: unresolved identifier %s", t.pos(x), x.Name)
		}
		if t.loopVar[obj] || t.pure[obj] {
			if _, ok := t.objName[obj]; !ok {
				t.fail("%s: %s used before its declaration", t.pos(x), x.Name)
			}
			return "", t.objName[obj], "loopvar"
		}
		if name, ok := t.objName[obj]; ok {
			return name, "", t.fields[name].Kind
		}
		t.fail("%s: identifier %s is not a local variable or parameter of the kernel", t.pos(x), x.Name)
	case *ast.SelectorExpr:
		path, root := t.selPath(x)
		ty := t.h.info.Types[x].Type
		k, n := kindOf(ty)
		if k == "" {
			t.fail("%s: %s has unsupported type %s", t.pos(x), exprString(x), ty)
		}
		lean := root + "_" + strings.Join(path, "_")
		return t.field(lean, k, "recv", root+"."+strings.Join(path, "."), n), "", k
	case *ast.IndexExpr:
		// 2-D array with constant first index?
		if inner, ok := x.X.(*ast.IndexExpr); ok {
			cv := t.h.info.Types[inner.Index]
			if cv.Value == nil {
				t.fail("%s: first index of %s is not a constant", t.pos(x), exprString(x))
			}
			c, _ := constant.Int64Val(constant.ToInt(cv.Value))
			ty := t.h.info.Types[inner].Type
			k, n := kindOf(ty)
			if k != "floats" && k != "ints" {
				t.fail("%s: %s: unsupported row type %s", t.pos(x), exprString(inner), ty)
			}
			var lean, gopath, role string
			switch b := inner.X.(type) {
			case *ast.SelectorExpr:
				path, root := t.selPath(b)
				lean = fmt.Sprintf("%s_%s_%d", root, strings.Join(path, "_"), c)
				gopath = fmt.Sprintf("%s.%s[%d]", root, strings.Join(path, "."), c)
				role = "recv"
			case *ast.Ident:
				obj := t.h.info.Uses[b]
				base, ok := t.objName[obj]
				if !ok {
					t.fail("%s: unknown array %s", t.pos(x), b.Name)
				}
				lean = fmt.Sprintf("%s_%d", base, c)
				role = "local"
			default:
				t.fail("%s: unsupported array expression %s", t.pos(x), exprString(inner))
			}
			f := t.field(lean, k, role, gopath, n)
			return f, t.intExpr(x.Index), strings.TrimSuffix(k, "s")
		}
		f, i0, k := t.loc(x.X)
		if i0 != "" || (k != "floats" && k != "ints") {
			t.fail("%s: cannot index %s", t.pos(x), exprString(x.X))
		}
		return f, t.intExpr(x.Index), strings.TrimSuffix(k, "s")
	}
	t.fail("%s: unsupported location %s", t.pos(e), exprString(e))
	return
}

func (t *impTr) selPath(x *ast.SelectorExpr) (path []string, root string) {
	switch b := x.X.(type) {
	case *ast.Ident:
		obj := t.h.info.Uses[b]
		r, ok := t.recv[obj]
		if !ok {
			t.fail("%s: selector %s is not rooted at a pointer parameter", t.pos(x), exprString(x))
		}
		return []string{x.Sel.Name}, r
	case *ast.SelectorExpr:
		p, r := t.selPath(b)
		return append(p, x.Sel.Name), r
	}
	t.fail("%s: unsupported selector %s", t.pos(x), exprString(x))
	return
}

// ---------------------------------------------------------------------------------------------- expressions

func ratLit(r *big.Rat, float bool) string {
	if !float {
		if !r.IsInt() {
			return "?"
		}
		if r.Sign() < 0 {
			return "(" + r.Num().String() + ")"
		}
		return r.Num().String()
	}
	lim := new(big.Int).Lsh(big.NewInt(1), 53)
	a := new(big.Rat).Abs(r)
	num, den := a.Num(), a.Denom()
	var s string
	if d, ok := decimalString(a); ok && leanLiteralIsExact(d) {
		// a short decimal fraction is printed as a decimal literal when Lean's literal conversion provably yields Go's float64
		s = d
	} else if num.Cmp(lim) <= 0 && den.Cmp(lim) <= 0 {
		// numerator and denominator are exact float64 values: one correctly rounded division = Go's rounding of the exact constant
		s = "(" + num.String() + ".0 / " + den.String() + ".0)"
	} else if isPow2(den) || isPow2(num) {
		s = "(" + num.String() + ".0 / " + den.String() + ".0)"
	} else {
		return "?"
	}
	if r.Sign() < 0 {
		return "(-" + s + ")"
	}
	return s
}

func isPow2(x *big.Int) bool {
	return x.Sign() > 0 && new(big.Int).And(x, new(big.Int).Sub(x, big.NewInt(1))).Sign() == 0
}

// decimalString: r ≥ 0 as a finite decimal literal if its denominator is 2^a·5^b with a short expansion
func decimalString(a *big.Rat) (string, bool) {
	den := new(big.Int).Set(a.Denom())
	for _, p := range []int64{2, 5} {
		bp := big.NewInt(p)
		for new(big.Int).Mod(den, bp).Sign() == 0 {
			den.Div(den, bp)
		}
	}
	if den.Cmp(big.NewInt(1)) != 0 {
		return "", false
	}
	s := a.FloatString(40)
	s = strings.TrimRight(s, "0")
	if strings.HasSuffix(s, ".") {
		s += "0"
	}
	if len(s) > 22 {
		return "", false
	}
	return s, true
}

// leanLiteralIsExact replays Lean's `Float.ofScientific` (Init/Data/OfScientific.lean: shift, truncating division by 5^e, truncation
// to 64 bits, one rounding) on the decimal literal and compares the result with the correctly rounded float64 (Go's value).
func leanLiteralIsExact(dec string) bool {
	want, err := strconv.ParseFloat(dec, 64)
	if err != nil {
		return false
	}
	parts := strings.SplitN(dec, ".", 2)
	frac := ""
	if len(parts) == 2 {
		frac = parts[1]
	}
	m, ok := new(big.Int).SetString(parts[0]+frac, 10)
	if !ok {
		return false
	}
	e := len(frac)
	if m.Sign() == 0 {
		return want == 0
	}
	var mant *big.Int
	var exp int
	if e > 0 {
		sh := 64 - (m.BitLen() - 1)
		if sh < 0 {
			sh = 0
		}
		mant = new(big.Int).Lsh(m, uint(3*e+sh))
		mant.Div(mant, new(big.Int).Exp(big.NewInt(5), big.NewInt(int64(e)), nil))
		exp = -4*e - sh
	} else {
		mant, exp = m, 0
	}
	// ofBinaryScientific: keep the top 64 bits (truncation), convert to float (round to nearest even), scale
	if bl := mant.BitLen(); bl > 64 {
		s := bl - 64
		mant = new(big.Int).Rsh(mant, uint(s))
		exp += s
	}
	f := new(big.Float).SetPrec(53).SetMode(big.ToNearestEven).SetInt(mant)
	f.SetMantExp(f, exp)
	got, _ := f.Float64()
	return got == want
}

// exactConst evaluates a constant expression made of literals, + − * / and parentheses exactly (as the Go compiler does before
// the single rounding to float64).
func (t *impTr) exactConst(e ast.Expr) (*big.Rat, bool) {
	switch x := e.(type) {
	case *ast.ParenExpr:
		return t.exactConst(x.X)
	case *ast.BasicLit:
		if x.Kind != token.INT && x.Kind != token.FLOAT {
			return nil, false
		}
		v := x.Value
		if strings.ContainsAny(v, "xXpP_") {
			return nil, false
		}
		r, ok := new(big.Rat).SetString(v)
		return r, ok
	case *ast.UnaryExpr:
		r, ok := t.exactConst(x.X)
		if !ok {
			return nil, false
		}
		switch x.Op {
		case token.SUB:
			return r.Neg(r), true
		case token.ADD:
			return r, true
		}
	case *ast.BinaryExpr:
		a, ok1 := t.exactConst(x.X)
		b, ok2 := t.exactConst(x.Y)
		if !ok1 || !ok2 {
			return nil, false
		}
		// integer division of two integer constants truncates in Go; only float contexts are folded here
		tvx, tvy := t.h.info.Types[x.X], t.h.info.Types[x.Y]
		intDiv := false
		if bx, ok := tvx.Type.Underlying().(*types.Basic); ok && bx.Info()&types.IsInteger != 0 {
			if by, ok := tvy.Type.Underlying().(*types.Basic); ok && by.Info()&types.IsInteger != 0 {
				intDiv = true
			}
		}
		switch x.Op {
		case token.ADD:
			return a.Add(a, b), true
		case token.SUB:
			return a.Sub(a, b), true
		case token.MUL:
			return a.Mul(a, b), true
		case token.QUO:
			if b.Sign() == 0 || intDiv {
				return nil, false
			}
			return a.Quo(a, b), true
		}
	}
	return nil, false
}

func (t *impTr) constExpr(e ast.Expr, tv types.TypeAndValue) string {
	k, _ := kindOf(tv.Type)
	switch k {
	case "string":
		return strconv.Quote(constant.StringVal(tv.Value))
	case "bool":
		if constant.BoolVal(tv.Value) {
			return "True"
		}
		return "False"
	case "int":
		v := constant.ToInt(tv.Value)
		r, ok := new(big.Rat).SetString(v.ExactString())
		if !ok {
			t.fail("%s: integer constant %s", t.pos(e), v)
		}
		return ratLit(r, false)
	case "float":
		// the exact value of the constant expression (the Go compiler rounds it once); tv.Value is already rounded to float64
		r, ok := t.exactConst(e)
		if ok {
			// safety: the exact value must round to the value go/types recorded
			want, _ := constant.Float64Val(constant.ToFloat(tv.Value))
			got, _ := r.Float64()
			if got != want {
				ok = false
			}
		}
		if !ok {
			v := constant.ToFloat(tv.Value)
			r, ok = new(big.Rat).SetString(v.ExactString())
			if !ok {
				t.fail("%s: float constant %s", t.pos(e), v.ExactString())
			}
		}
		s := ratLit(r, true)
		if s == "?" {
			t.fail("%s: constant %s cannot be printed exactly", t.pos(e), r.String())
		}
		return s
	}
	t.fail("%s: constant of type %s", t.pos(e), tv.Type)
	return ""
}

func (t *impTr) typeKind(e ast.Expr) string {
	tv, ok := t.h.info.Types[e]
	if !ok {
		t.fail("%s: no type for %s", t.pos(e), exprString(e))
	}
	k, _ := kindOf(tv.Type)
	return k
}

func (t *impTr) intExpr(e ast.Expr) string {
	if t.typeKind(e) != "int" {
		t.fail("%s: %s is not an int", t.pos(e), exprString(e))
	}
	return t.expr(e)
}

var mathUnary = map[string]string{"Exp": "exp", "Log": "log", "Sqrt": "sqrt", "Sin": "sin", "Cos": "cos", "Tan": "tan", "Asin": "asin",
	"Acos": "acos", "Atan": "atan", "Abs": "abs", "Round": "round", "Floor": "floor", "Ceil": "ceil"}
var mathBinary = map[string]string{"Pow": "pow", "Max": "max", "Min": "min", "Mod": "mod"}

// expr translates a value expression (float / int); conditions go through cond.
func (t *impTr) expr(e ast.Expr) string {
	tv := t.h.info.Types[e]
	if tv.Value != nil {
		return t.constExpr(e, tv)
	}
	switch x := e.(type) {
	case *ast.ParenExpr:
		return t.expr(x.X)
	case *ast.Ident, *ast.SelectorExpr, *ast.IndexExpr:
		f, idx, k := t.loc(e)
		if k == "loopvar" {
			return idx
		}
		if idx == "" {
			return "s." + f
		}
		return "(rd s." + f + " " + paren(idx) + ")"
	case *ast.UnaryExpr:
		switch x.Op {
		case token.SUB:
			return "(-" + t.expr(x.X) + ")"
		case token.ADD:
			return t.expr(x.X)
		}
	case *ast.BinaryExpr:
		op := map[token.Token]string{token.ADD: "+", token.SUB: "-", token.MUL: "*", token.QUO: "/"}[x.Op]
		if op != "" {
			k := t.typeKind(e)
			if k == "int" && x.Op == token.QUO {
				return "(Int.tdiv " + t.expr(x.X) + " " + t.expr(x.Y) + ")"
			}
			if k != "int" && k != "float" {
				t.fail("%s: arithmetic on %s", t.pos(e), k)
			}
			return "(" + t.expr(x.X) + " " + op + " " + t.expr(x.Y) + ")"
		}
		if x.Op == token.REM && t.typeKind(e) == "int" {
			return "(Int.tmod " + t.expr(x.X) + " " + t.expr(x.Y) + ")"
		}
	case *ast.CallExpr:
		fun := exprString(x.Fun)
		if strings.HasPrefix(fun, "math.") {
			name := strings.TrimPrefix(fun, "math.")
			if name == "Pow" && len(x.Args) == 2 {
				if cv := t.h.info.Types[x.Args[1]]; cv.Value != nil {
					if f, _ := constant.Float64Val(constant.ToFloat(cv.Value)); f == 2 {
						a := t.expr(x.Args[0])
						return "(pow2 " + paren(a) + ")"
					} else if f == 3 {
						a := t.expr(x.Args[0])
						return "(pow3 " + paren(a) + ")"
					}
				}
			}
			if m, ok := mathUnary[name]; ok && len(x.Args) == 1 {
				return "(m." + m + " " + paren(t.expr(x.Args[0])) + ")"
			}
			if m, ok := mathBinary[name]; ok && len(x.Args) == 2 {
				return "(m." + m + " " + paren(t.expr(x.Args[0])) + " " + paren(t.expr(x.Args[1])) + ")"
			}
			t.fail("%s: unsupported math function %s", t.pos(e), fun)
		}
		if len(x.Args) == 1 {
			switch fun {
			case "float64":
				if t.typeKind(x.Args[0]) == "int" {
					return "(m.ofInt " + paren(t.expr(x.Args[0])) + ")"
				}
				return t.expr(x.Args[0])
			case "int":
				if t.typeKind(x.Args[0]) == "float" {
					return "(m.toInt " + paren(t.expr(x.Args[0])) + ")"
				}
				return t.expr(x.Args[0])
			}
		}
		t.fail("%s: unsupported call %s", t.pos(e), fun)
	}
	t.fail("%s: unsupported expression %s", t.pos(e), exprString(e))
	return ""
}

func paren(s string) string {
	if strings.HasPrefix(s, "(") || !strings.ContainsAny(s, " ") {
		return s
	}
	return "(" + s + ")"
}

// cond translates a boolean expression into a decidable Prop.
func (t *impTr) cond(e ast.Expr) string {
	tv := t.h.info.Types[e]
	if tv.Value != nil {
		return t.constExpr(e, tv)
	}
	switch x := e.(type) {
	case *ast.ParenExpr:
		return t.cond(x.X)
	case *ast.UnaryExpr:
		if x.Op == token.NOT {
			return "(¬ " + t.cond(x.X) + ")"
		}
	case *ast.BinaryExpr:
		switch x.Op {
		case token.LAND:
			return "(" + t.cond(x.X) + " ∧ " + t.cond(x.Y) + ")"
		case token.LOR:
			return "(" + t.cond(x.X) + " ∨ " + t.cond(x.Y) + ")"
		case token.LSS:
			return "(" + t.expr(x.X) + " < " + t.expr(x.Y) + ")"
		case token.GTR:
			return "(" + t.expr(x.Y) + " < " + t.expr(x.X) + ")"
		case token.LEQ:
			return "(" + t.expr(x.X) + " ≤ " + t.expr(x.Y) + ")"
		case token.GEQ:
			return "(" + t.expr(x.Y) + " ≤ " + t.expr(x.X) + ")"
		case token.EQL, token.NEQ:
			k := t.typeKind(x.X)
			var s string
			switch k {
			case "int":
				s = "(" + t.expr(x.X) + " = " + t.expr(x.Y) + ")"
			case "float":
				s = "((" + t.expr(x.X) + " == " + t.expr(x.Y) + ") = true)"
			case "bool":
				s = "(" + t.cond(x.X) + " ↔ " + t.cond(x.Y) + ")"
			default:
				t.fail("%s: comparison of %s", t.pos(e), k)
			}
			if x.Op == token.NEQ {
				return "(¬ " + s + ")"
			}
			return s
		}
	case *ast.Ident, *ast.SelectorExpr:
		f, idx, k := t.loc(e)
		if k != "bool" || idx != "" {
			t.fail("%s: %s is not a boolean variable", t.pos(e), exprString(e))
		}
		return "(s." + f + " = true)"
	}
	t.fail("%s: unsupported condition %s", t.pos(e), exprString(e))
	return ""
}

// ---------------------------------------------------------------------------------------------- statements

func containsBreak(n ast.Node) bool {
	found := false
	ast.Inspect(n, func(c ast.Node) bool {
		switch x := c.(type) {
		case *ast.ForStmt, *ast.RangeStmt, *ast.SwitchStmt, *ast.SelectStmt:
			_ = x
			if c != n {
				return false // a break inside belongs to the inner statement
			}
		case *ast.BranchStmt:
			if x.Tok == token.BREAK {
				found = true
			}
		}
		return true
	})
	return found
}

func (t *impTr) declLocal(id *ast.Ident, ty types.Type) string {
	obj := t.h.info.Defs[id]
	if obj == nil {
		// `:=` re-using an existing variable
		obj = t.h.info.Uses[id]
		if name, ok := t.objName[obj]; ok {
			return name
		}
		t.fail("%s: cannot resolve %s", t.pos(id), id.Name)
	}
	if name, ok := t.objName[obj]; ok {
		return name
	}
	base := "v_" + id.Name
	name := base
	for i := 2; t.usedNames[name]; i++ {
		name = fmt.Sprintf("%s_%d", base, i)
	}
	t.usedNames[name] = true
	t.objName[obj] = name
	if arr, ok := ty.Underlying().(*types.Array); ok {
		if inner, ok := arr.Elem().Underlying().(*types.Array); ok {
			// 2-D local array: one list per row, fields are created on use (name_<c>); remember the base
			k, _ := kindOf(inner)
			for c := 0; c < int(arr.Len()); c++ {
				t.field(fmt.Sprintf("%s_%d", name, c), k, "local", "", int(inner.Len()))
			}
			t.fields2D[name] = [2]int{int(arr.Len()), int(inner.Len())}
			return name
		}
	}
	k, n := kindOf(ty)
	if k == "" {
		t.fail("%s: local %s has unsupported type %s", t.pos(id), id.Name, ty)
	}
	t.field(name, k, "local", "", n)
	return name
}

func zeroOf(kind string, n int) string {
	switch kind {
	case "float":
		return "0.0"
	case "int":
		return "0"
	case "bool":
		return "false"
	case "string":
		return "\"\""
	case "floats":
		return fmt.Sprintf("(List.replicate %d 0.0)", n)
	case "ints":
		return fmt.Sprintf("(List.replicate %d 0)", n)
	}
	return "?"
}

// block translates a statement list into a Lean expression of type St α that starts from the state `s`.
func (t *impTr) block(stmts []ast.Stmt, ind string) string {
	var b strings.Builder
	t.seq(&b, stmts, ind)
	return b.String()
}

func (t *impTr) seq(b *strings.Builder, stmts []ast.Stmt, ind string) {
	for i, s := range stmts {
		t.stmt(b, s, ind)
		if containsBreak(s) {
			if _, isBranch := s.(*ast.BranchStmt); !isBranch && i+1 < len(stmts) {
				// the rest of the block is skipped when the statement has left the loop
				fmt.Fprintf(b, "%slet s : St α := if s.brk then s else (\n", ind)
				t.seq(b, stmts[i+1:], ind+"  ")
				fmt.Fprintf(b, "%s  )\n", ind)
				fmt.Fprintf(b, "%ss\n", ind)
				return
			}
		}
	}
	fmt.Fprintf(b, "%ss\n", ind)
}

func (t *impTr) assign(b *strings.Builder, lhs ast.Expr, tok token.Token, rhs ast.Expr, ind string) {
	f, idx, k := t.loc(lhs)
	if k == "loopvar" {
		t.fail("%s: assignment to loop variable", t.pos(lhs))
	}
	var val string
	switch k {
	case "bool":
		val = "(decide " + t.cond(rhs) + ")"
	case "floats", "ints":
		cl, ok := rhs.(*ast.CompositeLit)
		if !ok {
			t.fail("%s: assignment of a whole array %s", t.pos(lhs), exprString(lhs))
		}
		var elts []string
		for _, e := range cl.Elts {
			elts = append(elts, t.expr(e))
		}
		val = "[" + strings.Join(elts, ", ") + "]"
	default:
		val = t.expr(rhs)
	}
	cur := "s." + f
	if idx != "" {
		cur = "(rd s." + f + " " + paren(idx) + ")"
	}
	switch tok {
	case token.ASSIGN, token.DEFINE:
	case token.ADD_ASSIGN:
		val = "(" + cur + " + " + val + ")"
	case token.SUB_ASSIGN:
		val = "(" + cur + " - " + val + ")"
	case token.MUL_ASSIGN:
		val = "(" + cur + " * " + val + ")"
	case token.QUO_ASSIGN:
		val = "(" + cur + " / " + val + ")"
	default:
		t.fail("%s: assignment operator %s", t.pos(lhs), tok)
	}
	if idx == "" {
		fmt.Fprintf(b, "%slet s : St α := { s with %s := %s }\n", ind, f, val)
	} else {
		fmt.Fprintf(b, "%slet s : St α := { s with %s := wr s.%s %s %s }\n", ind, f, f, paren(idx), paren(val))
	}
}

func (t *impTr) stmt(b *strings.Builder, s ast.Stmt, ind string) {
	switch x := s.(type) {
	case *ast.AssignStmt:
		if len(x.Lhs) != 1 || len(x.Rhs) != 1 {
			t.fail("%s: multiple assignment", t.pos(x))
		}
		if x.Tok == token.DEFINE {
			id, ok := x.Lhs[0].(*ast.Ident)
			if !ok {
				t.fail("%s: := to %s", t.pos(x), exprString(x.Lhs[0]))
			}
			if obj := t.h.info.Defs[id]; obj != nil && t.pure[obj] {
				base := "v_" + id.Name
				name := base
				for i := 2; t.usedNames[name]; i++ {
					name = fmt.Sprintf("%s_%d", base, i)
				}
				t.usedNames[name] = true
				k, _ := kindOf(obj.Type())
				val := t.expr(x.Rhs[0])
				t.objName[obj] = name
				fmt.Fprintf(b, "%slet %s : %s := %s\n", ind, name, leanType(k), val)
				return
			}
			ty := t.h.info.Types[x.Rhs[0]].Type
			if obj := t.h.info.Defs[id]; obj != nil {
				ty = obj.Type()
			}
			t.declLocal(id, ty)
		}
		t.assign(b, x.Lhs[0], x.Tok, x.Rhs[0], ind)
	case *ast.IncDecStmt:
		f, idx, k := t.loc(x.X)
		if k == "loopvar" || idx != "" {
			t.fail("%s: ++/-- on %s", t.pos(x), exprString(x.X))
		}
		one := "1"
		if k == "float" {
			one = "1.0"
		}
		op := "+"
		if x.Tok == token.DEC {
			op = "-"
		}
		fmt.Fprintf(b, "%slet s : St α := { s with %s := (s.%s %s %s) }\n", ind, f, f, op, one)
	case *ast.DeclStmt:
		gd, ok := x.Decl.(*ast.GenDecl)
		if !ok || gd.Tok != token.VAR {
			t.fail("%s: declaration", t.pos(x))
		}
		for _, sp := range gd.Specs {
			vs := sp.(*ast.ValueSpec)
			for i, id := range vs.Names {
				obj := t.h.info.Defs[id]
				name := t.declLocal(id, obj.Type())
				if len(vs.Values) > i {
					t.assign(b, id, token.ASSIGN, vs.Values[i], ind)
					continue
				}
				if dims, ok := t.fields2D[name]; ok {
					for c := 0; c < dims[0]; c++ {
						fn := fmt.Sprintf("%s_%d", name, c)
						fmt.Fprintf(b, "%slet s : St α := { s with %s := %s }\n", ind, fn, zeroOf(t.fields[fn].Kind, dims[1]))
					}
					continue
				}
				f := t.fields[name]
				fmt.Fprintf(b, "%slet s : St α := { s with %s := %s }\n", ind, name, zeroOf(f.Kind, f.Len))
			}
		}
	case *ast.IfStmt:
		if x.Init != nil {
			t.fail("%s: if with init statement", t.pos(x))
		}
		fmt.Fprintf(b, "%slet s : St α := if %s then (\n", ind, t.cond(x.Cond))
		t.seq(b, x.Body.List, ind+"  ")
		fmt.Fprintf(b, "%s  ) else (\n", ind)
		switch el := x.Else.(type) {
		case nil:
			fmt.Fprintf(b, "%s  s\n", ind)
		case *ast.BlockStmt:
			t.seq(b, el.List, ind+"  ")
		case *ast.IfStmt:
			t.seq(b, []ast.Stmt{el}, ind+"  ")
		}
		fmt.Fprintf(b, "%s  )\n", ind)
	case *ast.BlockStmt:
		fmt.Fprintf(b, "%slet s : St α := (\n", ind)
		t.seq(b, x.List, ind+"  ")
		fmt.Fprintf(b, "%s  )\n", ind)
	case *ast.BranchStmt:
		if x.Tok != token.BREAK || x.Label != nil {
			t.fail("%s: %s", t.pos(x), x.Tok)
		}
		if len(t.loopCtx) == 0 {
			t.fail("%s: break outside a loop", t.pos(x))
		}
		t.hasBrk = true
		fmt.Fprintf(b, "%slet s : St α := { s with brk := true }\n", ind)
	case *ast.ForStmt:
		t.forStmt(b, x, ind)
	case *ast.EmptyStmt:
	default:
		t.fail("%s: unsupported statement %T", t.pos(s), s)
	}
}

func assignedIn(n ast.Node, info *types.Info, objs map[types.Object]bool) bool {
	hit := false
	ast.Inspect(n, func(c ast.Node) bool {
		switch x := c.(type) {
		case *ast.AssignStmt:
			for _, l := range x.Lhs {
				if id, ok := l.(*ast.Ident); ok {
					o := info.Uses[id]
					if o == nil {
						o = info.Defs[id]
					}
					if objs[o] {
						hit = true
					}
				}
			}
		case *ast.IncDecStmt:
			if id, ok := x.X.(*ast.Ident); ok && objs[info.Uses[id]] {
				hit = true
			}
		}
		return true
	})
	return hit
}

func (t *impTr) forStmt(b *strings.Builder, x *ast.ForStmt, ind string) {
	as, ok := x.Init.(*ast.AssignStmt)
	if !ok || as.Tok != token.DEFINE || len(as.Lhs) != 1 {
		t.fail("%s: loop without `i := a`", t.pos(x))
	}
	id := as.Lhs[0].(*ast.Ident)
	obj := t.h.info.Defs[id]
	cnd, ok := x.Cond.(*ast.BinaryExpr)
	if !ok {
		t.fail("%s: loop condition", t.pos(x))
	}
	if ci, ok := cnd.X.(*ast.Ident); !ok || t.h.info.Uses[ci] != obj {
		t.fail("%s: loop condition is not on the loop variable", t.pos(x))
	}
	post, ok := x.Post.(*ast.IncDecStmt)
	if !ok {
		t.fail("%s: loop post statement", t.pos(x))
	}
	if pi, ok := post.X.(*ast.Ident); !ok || t.h.info.Uses[pi] != obj {
		t.fail("%s: loop post statement is not on the loop variable", t.pos(x))
	}
	// the body must not assign the loop variable; the bound must not mention a plain local assigned in the body
	if assignedIn(x.Body, t.h.info, map[types.Object]bool{obj: true}) {
		t.fail("%s: loop variable assigned in the body", t.pos(x))
	}
	boundObjs := map[types.Object]bool{}
	ast.Inspect(cnd.Y, func(c ast.Node) bool {
		if bi, ok := c.(*ast.Ident); ok {
			if o := t.h.info.Uses[bi]; o != nil {
				boundObjs[o] = true
			}
		}
		return true
	})
	if assignedIn(x.Body, t.h.info, boundObjs) {
		t.fail("%s: loop bound assigned in the body", t.pos(x))
	}
	boundSrc := t.src(cnd.Y)
	ast.Inspect(x.Body, func(c ast.Node) bool {
		if a, ok := c.(*ast.AssignStmt); ok {
			for _, l := range a.Lhs {
				if ls := t.src(l); strings.Contains(boundSrc, ls) && len(ls) > 2 && strings.Contains(ls, ".") {
					t.fail("%s: loop bound %s assigned in the body", t.pos(x), ls)
				}
			}
		}
		return true
	})
	start := t.intExpr(as.Rhs[0])
	bound := t.intExpr(cnd.Y)
	var call string
	t.nloop++
	k := t.nloop
	name := fmt.Sprintf("loop%d", k)
	brkFn := "noBrk"
	if containsBreakBody(x.Body) {
		brkFn = "(fun s => s.brk)"
		t.hasBrk = true
	}
	vname := id.Name
	for _, o := range t.loopCtx {
		if o == vname {
			vname = vname + fmt.Sprint(k)
		}
	}
	t.objName[obj] = vname
	t.loopVar[obj] = true
	outer := strings.Join(t.loopCtx, " ")
	outerArgs := outer
	if outer != "" {
		outer = " (" + outer + " : Int)"
		outerArgs = " " + outerArgs
	}
	switch {
	case post.Tok == token.INC && cnd.Op == token.LSS:
		call = fmt.Sprintf("loopUp %s %s %s (%s m%s)", brkFn, paren(start), paren(bound), name, outerArgs)
	case post.Tok == token.INC && cnd.Op == token.LEQ:
		call = fmt.Sprintf("loopUp %s %s (%s + 1) (%s m%s)", brkFn, paren(start), bound, name, outerArgs)
	case post.Tok == token.DEC && cnd.Op == token.GEQ:
		call = fmt.Sprintf("loopDown %s %s %s (%s m%s)", brkFn, paren(start), paren(bound), name, outerArgs)
	case post.Tok == token.DEC && cnd.Op == token.GTR:
		call = fmt.Sprintf("loopDown %s %s (%s + 1) (%s m%s)", brkFn, paren(start), bound, name, outerArgs)
	default:
		t.fail("%s: unsupported loop shape %s %s", t.pos(x), cnd.Op, post.Tok)
	}
	t.loopCtx = append(t.loopCtx, vname)
	var body strings.Builder
	t.seq(&body, x.Body.List, "  ")
	t.loopCtx = t.loopCtx[:len(t.loopCtx)-1]
	def := fmt.Sprintf("/-- body of the loop at %s: `for %s; %s; %s` -/\ndef %s (m : MathFns α)%s (%s : Int) (s : St α) : St α :=\n%s",
		t.pos(x), t.src(as), t.src(cnd), t.src(post), name, outer, vname, body.String())
	t.defs = append(t.defs, def)
	fmt.Fprintf(b, "%slet s : St α := %s s\n", ind, call)
	if brkFn != "noBrk" {
		fmt.Fprintf(b, "%slet s : St α := { s with brk := false }\n", ind)
	}
}

// containsBreakBody: a break that leaves THIS loop (not one of an inner loop)
func containsBreakBody(body *ast.BlockStmt) bool {
	for _, s := range body.List {
		if containsBreak(s) {
			return true
		}
	}
	return false
}

// ---------------------------------------------------------------------------------------------- one function

type impResult struct {
	lean   string
	fields []*impField
	err    error
}

func translateImp(h *hermesPkg, tg impTarget) (res impResult) {
	t := &impTr{h: h, fn: tg.fn, fields: map[string]*impField{}, objName: map[types.Object]string{}, loopVar: map[types.Object]bool{},
		recv: map[types.Object]string{}, usedNames: map[string]bool{}}
	t.fields2D = map[string][2]int{}
	defer func() {
		if r := recover(); r != nil {
			if te, ok := r.(trErr); ok {
				res.err = fmt.Errorf("%s: not in the translatable subset: %s", tg.fn, te.msg)
				return
			}
			panic(r)
		}
	}()
	f := h.files[tg.file]
	if f == nil {
		t.fail("file %s not found", tg.file)
	}
	fd := findFunc(f, tg.fn)
	if fd == nil || fd.Body == nil {
		t.fail("function not found in %s", tg.file)
	}
	if fd.Recv != nil {
		t.fail("method")
	}
	if fd.Type.Results != nil && len(fd.Type.Results.List) > 0 {
		t.fail("function with results")
	}
	for _, p := range fd.Type.Params.List {
		for _, n := range p.Names {
			obj := h.info.Defs[n]
			ty := obj.Type()
			if ptr, ok := ty.(*types.Pointer); ok {
				if _, ok := ptr.Elem().Underlying().(*types.Struct); ok {
					t.recv[obj] = n.Name
					continue
				}
			}
			k, _ := kindOf(ty)
			if k != "float" && k != "int" && k != "bool" {
				t.fail("parameter %s of type %s", n.Name, ty)
			}
			name := "p_" + n.Name
			t.usedNames[name] = true
			t.objName[obj] = name
			t.field(name, k, "param", n.Name, 0)
		}
	}
	t.findPure(fd.Body)
	var body strings.Builder
	var tops []string
	if tg.split {
		// one definition per top-level statement; a single-assignment local declared at the top level has to be visible
		// in the later definitions
		for _, st := range fd.Body.List {
			if as, ok := st.(*ast.AssignStmt); ok && as.Tok == token.DEFINE {
				if id, ok := as.Lhs[0].(*ast.Ident); ok {
					if obj := h.info.Defs[id]; obj != nil && t.pure[obj] {
						// it has to be visible in the later definitions: it becomes a variable of the state like the locals that
						// are assigned more than once
						t.pure[obj] = false
					}
				}
			}
		}
		for k, st := range fd.Body.List {
			var b strings.Builder
			t.seq(&b, []ast.Stmt{st}, "  ")
			tops = append(tops, fmt.Sprintf("/-- top-level statement %d of `%s` (%s) -/\ndef top%d (m : MathFns α) (s : St α) : St α :=\n%s", k+1, tg.fn, t.pos(st), k+1, b.String()))
			fmt.Fprintf(&body, "  let s : St α := top%d m s\n", k+1)
		}
		body.WriteString("  s\n")
	} else {
		t.seq(&body, fd.Body.List, "  ")
	}
	if t.hasBrk {
		t.fields["brk"] = &impField{Lean: "brk", Kind: "bool", Role: "local", Order: len(t.fields)}
	}
	var fl []*impField
	for _, fi := range t.fields {
		fl = append(fl, fi)
	}
	sort.Slice(fl, func(i, j int) bool { return fl[i].Order < fl[j].Order })
	var out bytes.Buffer
	fmt.Fprintf(&out, "/- GENERATED by harness/cmd/extract (imp_translate.go) from %s, func %s — do not edit.\n   Imperative translation: the Go function as a state transformer over the variables it touches. -/\n", tg.file, tg.fn)
	out.WriteString("import HermesModel.Imp\nset_option linter.unusedVariables false\nnamespace Hermes.Generated.Imp." + tg.fn + "\nopen Hermes.Imp\n\n")
	out.WriteString("/-- the variables `" + tg.fn + "` reads or writes -/\nstructure St (α : Type) where\n")
	for _, fi := range fl {
		note := fi.GoPath
		if fi.Role == "local" {
			note = "local"
		}
		fmt.Fprintf(&out, "  %s : %s   -- %s\n", fi.Lean, leanType(fi.Kind), note)
	}
	out.WriteString("\nsection\nvariable {α : Type} [Add α] [Sub α] [Mul α] [Div α] [Neg α] [LT α] [DecidableLT α] [LE α] [DecidableLE α] [BEq α] [OfScientific α] [Inhabited α]\n\n")
	out.WriteString("/-- `math.Pow(x, 2)` -/\n@[inline] def pow2 (x : α) : α := x * x\n/-- `math.Pow(x, 3)` -/\n@[inline] def pow3 (x : α) : α := x * (x * x)\n\n")
	for _, d := range t.defs {
		out.WriteString(d + "\n")
	}
	for _, d := range tops {
		out.WriteString(d + "\n")
	}
	pre := ""
	if t.hasBrk {
		pre = "  let s : St α := { s with brk := false }\n" // the break flag is a local of the translation: it starts cleared
	}
	fmt.Fprintf(&out, "/-- `%s` (%s) -/\ndef run (m : MathFns α) (s : St α) : St α :=\n%s%s\nend\n\nend Hermes.Generated.Imp.%s\n", tg.fn, tg.file, pre, body.String(), tg.fn)
	res.lean = out.String()
	res.fields = fl
	return
}

// ---------------------------------------------------------------------------------------------- driver ops (generated)

func impDriverOps(ok []string, fieldsOf map[string][]*impField) string {
	var b bytes.Buffer
	b.WriteString("/- GENERATED by harness/cmd/extract (imp_translate.go) — do not edit.\n   Line-protocol operations `srcimp.<Func>`: run the Lean translation of a Go kernel on a serialised state. -/\n")
	b.WriteString("import HermesModel.Proto\nimport HermesModel.Imp\nimport HermesModel.ImpFloat\n")
	for _, fn := range ok {
		b.WriteString("import HermesModel.Generated.Imp" + fn + "\n")
	}
	b.WriteString("open Hermes Hermes.Proto Hermes.Imp\n\nnamespace Hermes.Driver\n\n")
	for _, fn := range ok {
		fl := fieldsOf[fn]
		ns := "Hermes.Generated.Imp." + fn
		fmt.Fprintf(&b, "/-- `srcimp.%s <fields of St in declaration order>` (floats as bit patterns, ints in decimal, bools 0/1, lists length-prefixed)\n(locals excluded: they start at their zero values)\nanswers the non-local fields of the state after the call, in the same order and encoding -/\n", fn)
		fmt.Fprintf(&b, "def srcimp%s (toks : List String) : Option String := do\n  let r := toks\n", fn)
		for _, f := range fl {
			if f.Role == "local" || f.Kind == "string" {
				continue
			}
			switch f.Kind {
			case "float":
				fmt.Fprintf(&b, "  let (x_%s, r) ← popFloat r\n", f.Lean)
			case "int":
				fmt.Fprintf(&b, "  let (x_%s, r) ← popInt r\n", f.Lean)
			case "bool":
				fmt.Fprintf(&b, "  let (x_%s, r) ← popBool r\n", f.Lean)
			case "floats":
				fmt.Fprintf(&b, "  let (x_%s, r) ← popFloatList r\n", f.Lean)
			case "ints":
				fmt.Fprintf(&b, "  let (x_%s, r) ← popIntList r\n", f.Lean)
			}
		}
		b.WriteString("  let _ := r\n")
		fmt.Fprintf(&b, "  let s : %s.St Float := {", ns)
		for i, f := range fl {
			if i > 0 {
				b.WriteString(",")
			}
			if f.Role == "local" || f.Kind == "string" {
				fmt.Fprintf(&b, " %s := %s", f.Lean, map[string]string{"float": "0.0", "int": "0", "bool": "false", "floats": "[]", "ints": "[]", "string": "\"\""}[f.Kind])
			} else {
				fmt.Fprintf(&b, " %s := x_%s", f.Lean, f.Lean)
			}
		}
		b.WriteString(" }\n")
		fmt.Fprintf(&b, "  let s := %s.run floatMath s\n", ns)
		b.WriteString("  some (String.intercalate \" \" [")
		first := true
		for _, f := range fl {
			if f.Role == "local" {
				continue
			}
			if f.Kind == "string" {
				// strings travel as one token: their length (the kernels only set flags like "C1 unstable")
				if !first {
					b.WriteString(", ")
				}
				first = false
				fmt.Fprintf(&b, "toString s.%s.length", f.Lean)
				continue
			}
			if !first {
				b.WriteString(", ")
			}
			first = false
			switch f.Kind {
			case "float":
				fmt.Fprintf(&b, "fmtFloat s.%s", f.Lean)
			case "int":
				fmt.Fprintf(&b, "toString s.%s", f.Lean)
			case "bool":
				fmt.Fprintf(&b, "(if s.%s then \"1\" else \"0\")", f.Lean)
			case "floats":
				fmt.Fprintf(&b, "fmtFloatList s.%s", f.Lean)
			case "ints":
				fmt.Fprintf(&b, "fmtIntList s.%s", f.Lean)
			}
		}
		b.WriteString("])\n\n")
	}
	b.WriteString("def srcimpOps (toks : List String) : String :=\n  match toks with\n")
	for _, fn := range ok {
		fmt.Fprintf(&b, "  | \"srcimp.%s\" :: rest => (srcimp%s rest).getD \"bad-op\"\n", fn, fn)
	}
	b.WriteString("  | _ => \"bad-op\"\n\nend Hermes.Driver\n")
	return b.String()
}

func extractImpKernels(repo, outDir string, fc *facts) {
	h := loadHermesPkg(repo)
	var okFns, failed []string
	fieldsOf := map[string][]*impField{}
	for _, tg := range impTargets {
		res := translateImp(h, tg)
		path := ""
		if outDir != "" {
			path = filepath.Join(outDir, "Imp"+tg.fn+".lean")
		}
		if res.err != nil {
			fmt.Println("imp-translate:", res.err)
			failed = append(failed, tg.fn+": "+res.err.Error())
			if path != "" {
				writeIfChanged(path, []byte(fmt.Sprintf("/- GENERATED — the translation of %s failed: %s\n   (no definitions: the theorems about this kernel's source no longer check) -/\n", tg.fn, strings.ReplaceAll(res.err.Error(), "-/", "- /"))))
			}
			continue
		}
		if path != "" {
			writeIfChanged(path, []byte(res.lean))
		}
		okFns = append(okFns, tg.fn)
		fieldsOf[tg.fn] = res.fields
		var fl []string
		for _, f := range res.fields {
			fl = append(fl, fmt.Sprintf("%s|%s|%s|%s|%d", f.Lean, f.Kind, f.Role, f.GoPath, f.Len))
		}
		fc.Strs["imp."+tg.fn+".fields"] = fl
	}
	fc.Strs["imp.translated"] = okFns
	fc.Strs["imp.failed"] = failed
	if outDir != "" {
		drv := filepath.Join(outDir, "..", "..", "Driver", "SrcimpOps.lean")
		writeIfChanged(drv, []byte(impDriverOps(okFns, fieldsOf)))
	}
}
