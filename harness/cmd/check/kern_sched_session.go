package main

// Several generated projects as batch lines of ONE hermes session (C10, C16): every line must write
// byte-for-byte the result files (V daily, Y yearly, C crop, M management events) it writes alone in a
// fresh session — whatever other projects (other schedule files, other automan.txt, other rotations with
// the same crop codes and field ids) ran before it or overlap it in the same session.

import (
	"encoding/json"
	"fmt"
	"os"
	"path/filepath"
	"strings"

	"verifharness/proj"
	"verifharness/vh"
)

type sessProject struct {
	P     *proj.Project
	After func(root string) error // files written behind Project.Write (automan.txt, schedule style …)
}

// cloneProject copies a project through its JSON form (the weather series is regenerated from its seed).
func cloneProjectSch(p *proj.Project, name string) (*proj.Project, error) {
	b, err := json.Marshal(p)
	if err != nil {
		return nil, err
	}
	q := &proj.Project{}
	if err := json.Unmarshal(b, q); err != nil {
		return nil, err
	}
	q.Name = name
	q.GenWeather()
	return q, nil
}

// sessFile: the captured result file of a project (file name = kind letter + poligonID + plotNr + extension).
func sessFile(mo *proj.MemOut, kind string, p *proj.Project) (string, bool) {
	want := kind + "P" + p.Name + p.Plot
	for k, b := range mo.Files {
		base := k
		if i := strings.Index(k, "."); i >= 0 {
			base = k[:i]
		}
		if base == want {
			return b.String(), true
		}
	}
	return "", false
}

func firstDiff(a, b string) string {
	la, lb := strings.Split(a, "\n"), strings.Split(b, "\n")
	for i := 0; i < len(la) && i < len(lb); i++ {
		if la[i] != lb[i] {
			return fmt.Sprintf("line %d: alone %q, in the session %q", i+1, la[i], lb[i])
		}
	}
	return fmt.Sprintf("%d lines alone, %d in the session", len(la), len(lb))
}

// sessionCompare writes the projects, runs each alone in a fresh session, then all of them in one
// session in the given orders (sequentially) and overlapping, and compares every result file with the
// solo run. It returns the captured files of the first sequential order (nil when a solo run fails).
func sessionCompare(c *vh.Ctx, root string, ps []sessProject, orders [][]int, replay map[string]interface{}) *proj.MemOut {
	for _, sp := range ps {
		if err := sp.P.Write(root, c.Repo); err != nil {
			c.Violate("search", "harness:write", err.Error(), replay)
			return nil
		}
		if err := sp.P.WriteManagementConf(root); err != nil {
			c.Violate("search", "harness:write", err.Error(), replay)
			return nil
		}
		if sp.After != nil {
			if err := sp.After(root); err != nil {
				c.Violate("search", "harness:write", err.Error(), replay)
				return nil
			}
		}
	}
	defer func() {
		for _, sp := range ps {
			os.RemoveAll(filepath.Join(root, "project", sp.P.Name))
		}
		os.RemoveAll(filepath.Join(root, "weather"))
	}()
	kinds := []string{"V", "Y", "C", "M"}
	solo := make([]map[string]string, len(ps))
	for i, sp := range ps {
		mo, rs := proj.RunSession(root, [][]string{sp.P.BatchArgs()}, false)
		if rs[0].Err != nil || rs[0].Panic != "" {
			c.Count("session:solo-run-failed")
			return nil
		}
		solo[i] = map[string]string{}
		for _, k := range kinds {
			solo[i][k], _ = sessFile(mo, k, sp.P)
		}
	}
	var first *proj.MemOut
	run := func(order []int, concurrent bool, class string) {
		lines := make([][]string, len(order))
		for j, i := range order {
			lines[j] = ps[i].P.BatchArgs()
		}
		mo, rs := proj.RunSession(root, lines, concurrent)
		if first == nil && !concurrent {
			first = mo
		}
		for j, i := range order {
			c.Eval()
			pos := fmt.Sprintf("line %d of %d", j+1, len(order))
			if rs[j].Err != nil || rs[j].Panic != "" {
				c.Violate("search", class+":run-failed", fmt.Sprintf("project %s as %s of one session fails (err=%v panic=%s) although it runs alone", ps[i].P.Name, pos, rs[j].Err, rs[j].Panic), replay)
				continue
			}
			for _, k := range kinds {
				got, _ := sessFile(mo, k, ps[i].P)
				if got != solo[i][k] {
					c.Violate("search", class+":differs-from-solo:"+k, fmt.Sprintf("result file %s of project %s as %s (%s) differs from its run alone in a fresh session: %s", k, ps[i].P.Name, pos, class, firstDiff(solo[i][k], got)),
						replay)
				}
			}
		}
	}
	for _, o := range orders {
		run(o, false, "session-sequence")
		c.Count("session:sequential-sessions")
	}
	run(orders[0], true, "session-overlap")
	c.Count("session:overlapping-sessions")
	return first
}

var _ = vh.FHex
