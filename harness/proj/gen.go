package proj

import (
	"fmt"

	"verifharness/vh"
)

// Textures present in both HYPAR.TRU and PARCAP.TRU of examples/parameter (checked by the harness
// at start-up against the files, see ValidTextures).
var DefaultTextures = []string{"SS", "SL2", "SL3", "SL4", "SLU", "ST2", "ST3", "SU2", "SU3", "SU4", "LS2", "LS3", "LS4", "LT2", "LT3", "LTS", "LU", "UU", "ULS", "US", "UT2", "UT3", "UT4", "UTS", "TT", "TL", "TU2", "TU3", "TU4", "TS2", "TS3", "TS4"}

// Annual main crops with shipped parameter files (classic format) and typical sowing/harvest dates
// (month, day; harvest in the same year unless Winter).
type CropCal struct {
	Code         string
	SowM, SowD   int
	HarM, HarD   int
	Winter       bool
	Legume       bool
}

var Crops = []CropCal{
	{"SM", 4, 25, 10, 5, false, false},
	{"SOY", 5, 5, 9, 28, false, true},
	{"SW", 3, 20, 8, 10, false, false},
	{"OA", 3, 28, 8, 12, false, false},
	{"K", 4, 20, 9, 15, false, false},
	{"ZR", 4, 10, 10, 15, false, false},
	{"LUP", 4, 1, 8, 20, false, true},
	{"WW", 10, 1, 8, 5, true, false},
	{"WG", 9, 20, 7, 15, true, false},
	{"WR", 9, 28, 8, 1, true, false},
	{"TR", 9, 30, 8, 3, true, false},
	{"WRA", 8, 28, 7, 20, true, false},
}

// Opt steers the generator; zero value = moderate defaults.
type Opt struct {
	Years       int  // simulated years (default 2-4)
	Extreme     bool // extreme rain / stones (many sub-steps)
	Drain       bool
	ShallowGW   bool
	NoCrop      bool // bare soil only (rotation of one pre-crop)
	Management  bool // fertiliser / tillage / irrigation schedules
	MinLayers   int
	MaxLayers   int
	Legumes     bool
	ExplicitCap bool // explicit FC/WP/PV in the soil file
}

// Gen draws a complete project from the PRNG.
func Gen(r *vh.Rng, name string, o Opt) *Project {
	p := &Project{Name: name, Field: "F" + name, Plot: "1001", SoilID: "S01", DateFmt: 1, Century: 50, Cfg: DefaultCfg(), WeatherFmt: 1}
	if o.MaxLayers == 0 {
		o.MaxLayers = 20
	}
	if o.MinLayers == 0 {
		o.MinLayers = 1
	}
	// ---- soil
	n := r.Range(o.MinLayers, o.MaxLayers)
	nh := 1 + r.Intn(minInt(4, n))
	lower := 0
	for h := 0; h < nh; h++ {
		remain := n - lower - (nh - 1 - h)
		step := remain
		if h < nh-1 {
			step = 1 + r.Intn(remain)
		}
		lower += step
		hz := Horizon{Texture: DefaultTextures[r.Intn(len(DefaultTextures))], Lower: lower, LD: r.Range(1, 5), Corg: vh.RoundTo(r.Uni(0.1, 2.2)/float64(h+1), 2)}
		if r.Chance(0.3) {
			hz.Stone = r.Intn(30)
		}
		if o.Extreme && r.Chance(0.5) {
			hz.Stone = r.Range(60, 97)
		}
		if o.ExplicitCap || r.Chance(0.25) {
			hz.WP = r.Range(4, 25)
			hz.FC = hz.WP + r.Range(6, 22)
			hz.PV = hz.FC + r.Range(3, 15)
		}
		hz.Clay = r.Range(5, 40)
		hz.Silt = r.Range(5, 50)
		hz.Sand = 100 - hz.Clay - hz.Silt
		if hz.PV == 0 {
			hz.PV = 0
		}
		p.Soil = append(p.Soil, hz)
	}
	p.RootDepth = r.Range(1, maxInt(1, minInt(n, 15)))
	p.GW = 99
	if o.ShallowGW || r.Chance(0.2) {
		p.GW = r.Range(2, 25)
	}
	if o.Drain || r.Chance(0.15) {
		p.DrainDep = r.Range(1, n)
		p.DrainPct = r.Range(5, 100)
	}
	// ---- time frame and rotation
	y0 := r.Range(1961, 2040)
	years := o.Years
	if years == 0 {
		years = r.Range(2, 4)
	}
	start := Date{y0, r.Range(7, 11), r.Range(1, 28)}
	pre := Crops[r.Intn(len(Crops))]
	p.Rot = []RotEntry{{Crop: pre.Code, Harvest: start, Rex: r.Intn(100), Yld: r.Range(20, 90)}}
	cur := start
	endLimit := Date{y0 + years, 12, 31}
	if !o.NoCrop {
		for k := 0; k < 12; k++ {
			c := Crops[r.Intn(len(Crops))]
			if o.Legumes && r.Chance(0.7) {
				for !c.Legume {
					c = Crops[r.Intn(len(Crops))]
				}
			}
			sowY := cur.Y
			sow := Date{sowY, c.SowM, c.SowD}.AddDays(r.Range(-10, 10))
			for sow.Z() <= cur.Z()+5 {
				sowY++
				sow = Date{sowY, c.SowM, c.SowD}.AddDays(r.Range(-10, 10))
			}
			hy := sow.Y
			if c.Winter {
				hy++
			}
			har := Date{hy, c.HarM, c.HarD}.AddDays(r.Range(-10, 10))
			if har.Z() > endLimit.Z()-20 {
				break
			}
			p.Rot = append(p.Rot, RotEntry{Crop: c.Code, Sow: sow, Harvest: har, Rex: r.Intn(100)})
			cur = har
		}
	}
	end := Date{y0 + years, r.Range(1, 12), r.Range(1, 28)}
	if end.Z() < cur.Z()+10 {
		end = cur.AddDays(r.Range(10, 90))
	}
	p.SetEnd(end)
	p.Cfg["AnnualOutputDate"] = fmt.Sprintf("\"%02d%02d\"", r.Range(1, 28), r.Range(1, 12))
	p.Cfg["LeachingDepth"] = fmt.Sprint(r.Range(1, n))
	if r.Chance(0.5) {
		p.Cfg["LeachingDepth"] = fmt.Sprint(n)
	}
	p.Cfg["ETpot"] = fmt.Sprint([]int{1, 2, 3, 4}[r.Intn(4)])
	if p.Cfg["ETpot"] == "1" {
		p.Cfg["ETpot"] = "3" // Haude needs the saturation-deficit column; handled by dedicated generators
	}
	p.Cfg["NDeposition"] = fmt.Sprint(r.Intn(61))
	p.Cfg["Latitude"] = fmt.Sprintf("%.2f", r.Uni(35, 65))
	// ---- management
	p.Irrigated = true
	if o.Management || r.Chance(0.6) {
		ferts := []string{"KAS", "AHL", "HAS", "RM", "RG", "SM", "SG"}
		d := start.AddDays(r.Range(-30, 60))
		for k := 0; k < r.Range(1, 12); k++ {
			p.Fert = append(p.Fert, FertEv{Amount: r.Range(10, 160), Kind: ferts[r.Intn(len(ferts))], Date: d})
			d = d.AddDays(r.Range(1, 200))
		}
		d = start.AddDays(r.Range(-30, 60))
		for k := 0; k < r.Range(0, 8); k++ {
			p.Irr = append(p.Irr, IrrEv{MM: r.Range(5, 60), Conc: r.Intn(40), Date: d})
			d = d.AddDays(r.Range(1, 150))
		}
	}
	// tillage only outside sowing..harvest (the model rejects tillage under a crop)
	if o.Management || r.Chance(0.5) {
		for i := 1; i < len(p.Rot); i++ {
			gapFrom := p.Rot[i-1].Harvest.Z() + 2
			gapTo := p.Rot[i].Sow.Z() - 2
			if gapTo > gapFrom && r.Chance(0.7) {
				p.Til = append(p.Til, TilEv{Depth: r.Range(3, 35), Kind: r.Range(1, 2), Date: FromZ(r.Range(gapFrom, gapTo))})
			}
		}
	}
	// ---- initial state
	m := Measure{Date: start, Mode: "1"}
	for i := range m.Nmin {
		m.Nmin[i] = r.Range(1, 60)
		m.Water[i] = vh.RoundTo(r.Uni(0.2, 1.0), 3)
	}
	p.Meas = []Measure{m}
	// ---- weather
	p.WeatherStart = Date{y0, 1, 1}
	p.WeatherDays = Date{end.Y + 1, 12, 31}.Z() - p.WeatherStart.Z() + 1
	p.WeatherSeed = r.U64()
	p.Climate = Climate{MeanT: r.Uni(5, 14), AmpT: r.Uni(6, 13), NoiseT: r.Uni(2, 6), RainProb: r.Uni(0.15, 0.5), RainMean: r.Uni(2, 8),
		WindMean: r.Uni(1, 5), Frost: r.Uni(0, 8)}
	if o.Extreme {
		p.Climate.ExtremeProb = r.Uni(0.02, 0.15)
		p.Climate.ExtremeMM = r.Uni(40, 250)
	} else if r.Chance(0.3) {
		p.Climate.ExtremeProb = 0.01
		p.Climate.ExtremeMM = r.Uni(30, 90)
	}
	if r.Chance(0.3) {
		p.Climate.DrySpell = r.Range(20, 90)
	}
	p.GenWeather()
	return p
}

func minInt(a, b int) int {
	if a < b {
		return a
	}
	return b
}
func maxInt(a, b int) int {
	if a > b {
		return a
	}
	return b
}
