#!/bin/bash
# usage: confirm.sh <seed-dir>  — confirms a seeded change in a scratch worktree of /repo HEAD:
# demo passes without the patch, fails with it, the pinned suite's passing list is unchanged. Prints CONFIRMED or why not.
S="$(realpath "$1")"; ID=$(basename "$S")
WT=/tmp/seedconfirm-$ID
export GOPROXY=off GOSUMDB=off GOTOOLCHAIN=local
git -C /repo worktree remove --force $WT 2>/dev/null; git -C /repo worktree prune
git -C /repo worktree add --detach $WT HEAD >/dev/null 2>&1 || { echo "worktree failed"; exit 2; }
trap 'git -C /repo worktree remove --force '$WT' 2>/dev/null' EXIT
DD="${DEMO_DIR:-hermes}"; TAGS="${DEMO_TAGS:-}"
grep -q "src/hermes2go" "$S/meta.json" 2>/dev/null && [ -z "$DEMO_DIR" ] && grep -q "^package main" "$S"/*_test.go && DD=src/hermes2go
grep -q -- "-tags verif" "$S/meta.json" 2>/dev/null && TAGS="-tags verif"
n=0
for f in "$S"/*_test.go; do [ -f "$f" ] || continue; n=$((n+1)); cp "$f" $WT/$DD/zz_seed_demo${n}_test.go; done
[ $n -gt 0 ] || { echo "NO-GO-TEST-DEMO $ID (manual)"; exit 3; }
run_demo() { (cd $WT/$DD && timeout 600 go test $TAGS -vet=off -count=1 -run Seed . 2>&1 | tail -${1:-3}); }
A=$(run_demo 3); echo "$A" | grep -q "^ok" || { echo "DEMO-FAILS-ON-CLEAN $ID: $A"; exit 1; }
git -C $WT apply "$S/patch.diff" || { echo "PATCH-DOES-NOT-APPLY $ID"; exit 1; }
B=$(run_demo 12); echo "$B" | grep -q "^FAIL\|^--- FAIL\|panic" || { echo "DEMO-PASSES-WITH-PATCH $ID: $B"; exit 1; }
rm -f $WT/$DD/zz_seed_demo*_test.go
/tmp/seedkit/run_tests.sh $WT /tmp/seedconfirm-$ID.tests >/dev/null
LOST=$(comm -23 /tmp/seedkit/baseline.txt /tmp/seedconfirm-$ID.tests | wc -l); rm -f /tmp/seedconfirm-$ID.tests
[ "$LOST" = 0 ] || { echo "SUITE-LOSES-$LOST-TESTS $ID"; exit 1; }
echo "CONFIRMED $ID (demo ok on clean, fails with patch: $(echo "$B" | grep -m1 -- '--- FAIL\|panic' | cut -c1-100); suite 1610 unchanged)"
