/-
Model of the record bookkeeping of the day loop of hermes/run.go: at which day numbers ZEIT the
daily, yearly and crop `WriteLine` calls are reached.

  run.go:131-140   DAYOUT / OUTY, extension of ENDE, month and day of the annual output date
  run.go:307       for ZEIT := BEGINN; ZEIT <= ENDE; ZEIT += 1
  run.go:624-631   crop record when Nitro reports a finished cycle (nitro.go:286,352,424,462)
  run.go:650-664   daily record when OUTINT > 0 and ZEIT % OUTINT == 0
  run.go:709-720   yearly record when isAnnualOutputDay(ZEIT, outMonth, outDayOfMonth) (run.go:790-798)

Core Lean only, executable; Go `int` is `Nat` (all quantities are ≥ 0 for dates from 1901 on).
-/
import HermesModel.Calendar
namespace Hermes.RecordLoop
open Hermes.Calendar

/-- The values of ZEIT the loop body runs for (run.go:307; the `break` at 751 is redundant). -/
def window (beginn ende : Nat) : List Nat := List.range' beginn (ende + 1 - beginn)

/-- run.go:650-664: ZEIT of the daily WriteLine calls. -/
def dailyWrites (k : Nat) (zs : List Nat) : List Nat :=
  zs.filter fun z => decide (k > 0) && z % k == 0

/-- run.go `isAnnualOutputDay`: the day number falls on the annual output date (month, day); an
annual output date 29.02. is written on 01.03. in years without a 29.02.  Outside 1 … 72684
KalenderDate indexes its month table out of range (`none`; never reached for dates 1901-2099). -/
def isAnnualOutputDay (z outMonth outDay : Nat) : Bool :=
  match kalenderDate z with
  | none => false
  | some (year, month, day) =>
    (month == outMonth && day == outDay) ||
      (outMonth == 2 && outDay == 29 && month == 3 && day == 1 && year % 4 != 0)

/-- run.go:709: ZEIT of the yearly WriteLine calls. -/
def yearlyWrites (outMonth outDay : Nat) (zs : List Nat) : List Nat :=
  zs.filter fun z => isAnnualOutputDay z outMonth outDay

/-- nitro.go:286 (`zeit == ERNTE[AKF] && subd == 1`), 352 (`AKF.Num > 1` ⇒ finished), 461
(`AKF.Inc()`), with fixed sowing and harvest dates (AUTOMAN off, so the "skipped crop" branch
463-527 is not taken): (ZEIT, AKF.Index) of the crop WriteLine calls. `ernte` is the array ERNTE
(unset entries are 0). -/
def cropWrites (ernte : List Nat) : List Nat → Nat → List (Nat × Nat)
  | [], _ => []
  | z :: rest, akf =>
    if ernte.getD akf 0 == z then
      if akf ≥ 1 then (z, akf) :: cropWrites ernte rest (akf + 1)
      else cropWrites ernte rest (akf + 1)
    else cropWrites ernte rest akf

/-- What run.go derives from the configuration before the loop. -/
structure Setup where
  beginn : Nat
  ende : Nat        -- ENDE after the extension of run.go:135-137
  outMonth : Nat    -- month and day of KalenderDate(OUTY), run.go:140
  outDay : Nat
  deriving DecidableEq, Repr

/-- Start date (harvest of the initial crop) `sy sm sd`, configured end date `ey em ed`, configured
annual output date `am ad` (month, day), all as numbers; `sy`, `ey` are year offsets.
run.go:133-140: DAYOUT = AnnualOutputDate + year text of EndDate, (_, OUTY) = Datum(DAYOUT),
ENDE extended to OUTY + 1 when OUTY ≥ ENDE, (outMonth, outDay) = KalenderDate(OUTY). -/
def setup (sy sm sd ey em ed am ad : Nat) : Setup :=
  let beginn := masdat sy sm sd
  let ende0 := masdat ey em ed
  let outy := masdat ey am ad
  let md := match kalenderDate outy with
    | some (_, m, d) => (m, d)
    | none => (0, 0)
  { beginn := beginn
    ende := if outy ≥ ende0 then outy + 1 else ende0
    outMonth := md.1
    outDay := md.2 }

/-- All three record streams of one run. -/
def records (sy sm sd ey em ed am ad k : Nat) (ernte : List Nat) :
    List Nat × List Nat × List (Nat × Nat) :=
  let s := setup sy sm sd ey em ed am ad
  let zs := window s.beginn s.ende
  (dailyWrites k zs, yearlyWrites s.outMonth s.outDay zs, cropWrites ernte zs 0)

end Hermes.RecordLoop
