#!/usr/bin/env python3
"""archive_seed.py <property> <k> <srcdir> <detected-by text> — copies an independently written, confirmed
property-breaking change into /verif/seeded/<property>-<k>/ and completes meta.json."""
import json, os, shutil, sys
prop, k, src, detected = sys.argv[1:5]
dst = os.path.join(os.path.dirname(os.path.dirname(os.path.abspath(__file__))), "seeded", "%s-%s" % (prop, k))
os.makedirs(dst, exist_ok=True)
for fn in os.listdir(src):
    if fn.startswith("pass_after") or os.path.isdir(os.path.join(src, fn)):
        continue
    shutil.copy(os.path.join(src, fn), os.path.join(dst, fn))
mp = os.path.join(dst, "meta.json")
meta = json.load(open(mp)) if os.path.exists(mp) else {}
meta["property"] = prop
meta["confirmed"] = ("re-run by the framework author in a scratch worktree of /repo HEAD: demonstration passes on the unchanged tree, "
                     "fails with patch.diff applied; all 1610 previously passing tests of the pinned suite still pass with the patch "
                     "(/tmp/seedkit/run_tests.sh, comm -23 baseline empty)")
meta["check_result"] = detected
meta["how_to_rerun"] = "bin/mutate.sh seeded/%s-%s/patch.diff %s   (applies the patch to /repo, runs the quick check, undoes the patch)" % (prop, k, prop)
json.dump(meta, open(mp, "w"), indent=1, ensure_ascii=False)
print("archived", dst)
