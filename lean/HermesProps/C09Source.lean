/-
C09, vernalisation, stated about the *translation of the current source* of `vern` (hermes/crop.go →
`HermesModel/Generated/Impvern.lean`, regenerated on every run by translator v2; executed against the compiled function by the
srcimp stage of C09).  `vern_refines` (HermesProofs/ImpVern.lean) shows that the translation computes the hand-written model
`Crop.vern`; the statements of C09 about the vernalisation factor are restated here about the source.
-/
import HermesProofs.ImpVern
import HermesProofs.Crop

namespace Hermes.Generated.Imp.vern
open Hermes.Imp

/-- Go's `math.Min` on the values the kernel passes (the only fact about package `math` the theorems need) -/
def MinOK (m : MathFns ℚ) : Prop := ∀ a b : ℚ, m.min a b = Hermes.Crop.fmin a b

/-- **The source of `vern` refines the model** the C09 theorems are about: accumulated vernalisation days and the factor FV. -/
theorem C09_source_vern_refines_model (m : MathFns ℚ) (s : St ℚ) (hm : MinOK m) :
    (run m s).g_VERNTAGE = (Hermes.Crop.vern s.g_VERNTAGE (rd s.g_VSCHWELL s.g_INTWICK_Index) (rd s.g_TEMP s.g_TAG_Index) s.g_DT_Num).1 ∧
    (run m s).l_FV = (Hermes.Crop.vern s.g_VERNTAGE (rd s.g_VSCHWELL s.g_INTWICK_Index) (rd s.g_TEMP s.g_TAG_Index) s.g_DT_Num).2 :=
  vern_refines m s hm

/-- **The vernalisation factor lies in [0,1]** for every temperature, every requirement and every history (source level). -/
theorem C09_source_vern_factor_unit (m : MathFns ℚ) (s : St ℚ) (hm : MinOK m) :
    0 ≤ (run m s).l_FV ∧ (run m s).l_FV ≤ 1 := by
  rw [(vern_refines m s hm).2]
  exact Hermes.Crop.vern_unit _ _ _ _

/-- the effectiveness of a day is never negative -/
theorem vernEff_nonneg (t : ℚ) : 0 ≤ Hermes.Crop.vernEff t := by
  unfold Hermes.Crop.vernEff
  split_ifs with h1 h2 h3 h4 h5 h6 <;> norm_num at * <;> linarith

/-- **Vernalisation never runs backwards** (source level): with a non-negative time step the accumulated vernalisation days do
not decrease, whatever the day's temperature. -/
theorem C09_source_vern_days_monotone (m : MathFns ℚ) (s : St ℚ) (hm : MinOK m) (hdt : 0 ≤ s.g_DT_Num) :
    s.g_VERNTAGE ≤ (run m s).g_VERNTAGE := by
  rw [(vern_refines m s hm).1]
  unfold Hermes.Crop.vern
  have := mul_nonneg (vernEff_nonneg (rd s.g_TEMP s.g_TAG_Index)) hdt
  dsimp only
  split_ifs <;> simp only <;> linarith

/-- non-vacuity: 5 °C, requirement 45 days, 20 days accumulated — effectiveness 0.9, FV = (20.9 − 8)/(45 − 8) -/
def demoState : St ℚ :=
  { v_veff := 0, g_TEMP := [5], g_TAG_Index := 0, g_VERNTAGE := 20, g_DT_Num := 1, v_verschwell := 0, g_VSCHWELL := [45], g_INTWICK_Index := 0, l_FV := 0 }

def demoMath : MathFns ℚ where
  exp := id
  log := id
  pow := fun x _ => x
  mod := fun x _ => x
  sqrt := id
  sin := id
  cos := id
  tan := id
  asin := id
  acos := id
  atan := id
  abs := id
  max := fun a b => if a < b then b else a
  min := fun a b => Hermes.Crop.fmin a b
  round := id
  floor := id
  ceil := id
  ofInt := fun i => (i : ℚ)
  toInt := fun _ => 0

example : MinOK demoMath := fun _ _ => rfl
example : (run demoMath demoState).g_VERNTAGE = 209 / 10 ∧ (run demoMath demoState).l_FV = 129 / 370 := by
  rw [(vern_refines demoMath demoState (fun _ _ => rfl)).1, (vern_refines demoMath demoState (fun _ _ => rfl)).2]
  norm_num [demoState, Hermes.Crop.vern, Hermes.Crop.vernEff, Hermes.Crop.fmin, rd]

end Hermes.Generated.Imp.vern
