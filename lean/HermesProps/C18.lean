/-
C18 — A command-line crop-parameter override equals the same edit in the crop parameter file; an
out-of-range override is rejected as a whole.
Model: HermesModel/CropOverride.lean (crop_calibration.go) on top of the classic reader of
HermesModel/CropParam.lean.  The theorems hold for every arithmetic `α` (they compare which value
is stored where); range tests are the comparisons of the code.
-/
import HermesProofs.CropOverride
import HermesModel.CropWitness
set_option linter.unusedSectionVars false

namespace Hermes.CropOverride
open Hermes.CropParam
section
variable {α : Type} [Add α] [Div α] [Neg α] [LT α] [LE α] [DecidableLT α] [DecidableLE α]
  [OfNat α 0] [OfNat α 1] [OfNat α 10] [OfNat α 20] [OfNat α 24] [OfNat α 30] [OfNat α 40] [OfNat α 50]
  [OfNat α 100] [OfNat α 200] [OfNat α 10000] [TruncInt α]

/-- **Override ≡ edit, every overridable parameter.** For every token record within the shape
limits, every prior state (its TSUM array has the ten cells of the Go array), every base /
per-stage / per-organ parameter used with the indices of its kind, every stage 1 … NRENTW and organ
1 … NRKOM and every value: applying the override after the classic reader has read the file gives
exactly the state the reader produces from the record with that token replaced — VELOC/200,
concentrations/100, the permanent-crop condition and the total temperature sum derived from TSUM
included. -/
theorem C18_override_eq_edit (t : Classic α) (rep : Bool) (s : State α) (e : Entry α)
    (h : t.WF) (hs : s.tsum.length = 10) (hov : e.overridable = true)
    (hok : entryOk t.nrkom t.nrentw e = true) :
    applyEntry rep (applyClassicCore t rep s) e = applyClassicCore (edit t e) rep s := by
  cases e with
  | base n v => exact override_base_eq_edit t rep s n v hov
  | stage n st v =>
    simp only [entryOk, Bool.and_eq_true, decide_eq_true_iff] at hok
    have := h.nrentw_le
    exact override_stage_eq_edit t rep s n st v h.stages_len (by omega) hov hok.1
  | part n st o v =>
    simp only [entryOk, Bool.and_eq_true, decide_eq_true_iff] at hok
    refine override_part_eq_edit t rep s n st o v h.stages_len ?_ hov hok.1.1 hok.1.2
    intro x hx
    have := h.slots x hx
    have := h.nrkom_le
    omega

/-- The full run-time path: with the crop file named on the batch line and a valid single
override, `OverwriteCropParameters` after `ReadCropParamClassic` equals `ReadCropParamClassic` of
the edited record. -/
theorem C18_overwrite_after_read_eq_read_edited (t : Classic α) (rep : Bool) (s : State α)
    (e : Entry α) (h : t.WF) (hs : s.tsum.length = 10) (hov : e.overridable = true)
    (hok : entryOk t.nrkom t.nrentw e = true) :
    overwrite true rep [e] (applyClassicCore t rep s) = applyClassicCore (edit t e) rep s := by
  have hk : (applyClassicCore t rep s).nrkom = t.nrkom := by
    simp only [applyClassicCore, stagesClassic_char]
    show (reset t.dauer _).nrkom = _
    unfold reset; cases t.dauer <;> rfl
  have hn : (applyClassicCore t rep s).nrentw = t.nrentw := by
    simp only [applyClassicCore, stagesClassic_char]
  simp only [overwrite, isValid, hk, hn, List.all_cons, List.all_nil, hok, Bool.and_true, Bool.not_true,
    List.foldl_cons, List.foldl_nil]
  exact C18_override_eq_edit t rep s e h hs hov hok

/-- **Whole rejection.** If any single test of any entry fails — a value outside its coded range,
a stage beyond the stages of the file, an organ beyond its organs, a name that does not belong to
the map its index count selects — nothing is applied, the valid entries included. -/
theorem C18_invalid_override_rejected_whole (fileMatches rep : Bool) (o : List (Entry α)) (s : State α)
    (e : Entry α) (he : e ∈ o) (hbad : entryOk s.nrkom s.nrentw e = false) :
    overwrite fileMatches rep o s = s := by
  unfold overwrite
  cases fileMatches
  · rfl
  · have : isValid s.nrkom s.nrentw o = false := by
      unfold isValid
      rw [Bool.eq_false_iff]
      intro hall
      have := List.all_eq_true.mp hall e he
      rw [hbad] at this
      exact Bool.noConfusion this
    simp [this]

/-- the verdict is exactly "every entry passes every test" (independent of map iteration order) -/
theorem C18_valid_iff_every_entry_in_range (nrkom nrentw : Nat) (o : List (Entry α)) :
    isValid nrkom nrentw o = true ↔ ∀ e ∈ o, entryOk nrkom nrentw e = true := by
  unfold isValid; exact List.all_eq_true

/-- an override naming another crop file changes nothing -/
theorem C18_other_file_untouched (rep : Bool) (o : List (Entry α)) (s : State α) :
    overwrite false rep o s = s := rfl

end

/-! #### the TSUM override on a concrete record (integers as the arithmetic) -/

/-- `c_TSUM_1=150` on a two-stage record with temperature sums 100 and 200: the override and the
edited file both give TSUM = [150, 200] and the total 350 (regression witness of F10). -/
theorem C18_tsum_override_updates_total :
    (applyEntry false (applyClassicCore tsumWitness false zeroState) (.stage .TSUM 1 150)).tsum.take 2 = [150, 200] ∧
    (applyEntry false (applyClassicCore tsumWitness false zeroState) (.stage .TSUM 1 150)).tendsum = 350 ∧
    (applyClassicCore (edit tsumWitness (.stage .TSUM 1 150)) false zeroState).tendsum = 350 := by
  decide

/-! non-vacuity -/
example : entryOk (α := Int) 4 2 (.stage .BAS 2 5) = true := by decide
example : entryOk (α := Int) 4 2 (.stage .BAS 3 5) = false := by decide          -- stage beyond the file
example : entryOk (α := Int) 4 2 (.base .MAXAMAX 0) = false := by decide         -- excluded bound
example : entryOk (α := Int) 4 2 (.part .PRO 1 4 1) = true := by decide
example : entryOk (α := Int) 4 2 (.stage .MAXAMAX 1 5) = false := by decide      -- name in the wrong map
example : (applyEntry false (applyClassicCore tsumWitness false zeroState) (.stage .BAS 2 7)).bas.take 2 = [3, 7] := by decide
example : (overwrite true false [.base .MAXAMAX (55 : Int), .stage .BAS 9 5] (applyClassicCore tsumWitness false zeroState)).maxamax = 80 ∧
    (overwrite true false [.base .MAXAMAX (55 : Int), .stage .BAS 2 5] (applyClassicCore tsumWitness false zeroState)).maxamax = 55 := by decide

end Hermes.CropOverride
