package main

// Hand-written expectation for the regenerated concurrency facts
// (harness/cmd/extract/concurrency_facts.go → evidence/facts.json and
// lean/HermesModel/Generated/ConcurrencyFacts.lean).
//
// The dispatcher theorems of HermesProps/C03.lean and C11.lean assume that a run is a function of
// its batch line and the immutable file system (`runs_share_only_pool`) and that no selected line
// ends in log.Fatal/panic (`NoFatal`).  Lean cannot prove either about the Go code.  The first is
// discharged here: no write to a package-level variable of package hermes outside `init`, no new
// package-level variable, every access to FilePool.list inside the mutex span, the per-run state
// allocated inside Run, no `range` over a map whose body writes output, the dispatcher loop of the
// shape the model transcribes.  For the second the list of log.Fatal / panic / os.Exit sites is
// pinned: a new site is a new way for one line to end the whole batch.
// A deviation is a broken proof obligation (stage "proof"); bin/run_check.py reports it as
// `no-failing-input-found` unless the search on the real binary also finds a failing input.

import (
	"encoding/json"
	"fmt"
	"os"
	"path/filepath"
	"sort"
	"strings"

	"verifharness/vh"
)

var expectPackageVars = map[string]bool{
	// read-only lookup tables (config.go:261-353, types.go:570, …): written only by their declaration
	"config.go:dateFToString:map": true, "config.go:dateStrToID:map": true, "config.go:featureSwitchStrToID:map": true,
	"config.go:featureSwitchToString:map": true, "config.go:toID:map": true, "config.go:toString:map": true,
	"dung.go:developmentStageToString:map": true, "output_fmt.go:alignmentToID:map": true, "output_fmt.go:alignmentToString:map": true,
	"output_management.go:meToID:map": true, "output_management.go:meToString:map": true, "soil.go:soilHeaderNames:map": true,
	"types.go:cropTypeLookup:map": true, "weather_input.go:headerNames:map": true,
	// verification probe registration (build tag verif only; written by init and by the harness before runs start)
	"verif:verif_probe_on.go:VerifProbe:*VerifProbes": true,
}

var expectRunState = []string{
	"g:=NewGlobalVarsMain()", "herInputVars:InputSharedVars", "cropSharedVars:CropSharedVars", "nitroSharedVars:NitroSharedVars",
	"nitroSharedBBBVars:NitroBBBSharedVars", "hermesWaterVar:WaterSharedVars", "herPath:=NewHermesFilePath()", "driConfig:=readConfig()",
	"argValues:=make()", "bbbShared:WeatherDataShared", "yearlyOutConfig:OutputConfig", "cropOutputConfig:OutputConfig", "dailyOutputConfig:OutputConfig",
}

var expectDispatcherShape = []string{"activeRuns++:1", "activeRuns--:2", "activeRuns<concurrentOperations:1", "activeRuns==concurrentOperations:1",
	"activeRuns>0:1", "errorSummary:2", "go session.Run:1", "make-chan/0:2", "numErr++:1", "select:2"}

// log.Fatal* / panic / os.Exit sites of package hermes: file:function:call → number of sites.
var expectFatalSites = map[string]int{
	"config.go:readConfig:log.Fatalf":                      2,
	"cropparam.go:ReadCropParamClassic:log.Fatalf":         1,
	"cropparam.go:ReadCropParamYml:log.Fatalf":             8,
	"helper.go:AskDirectory:log.Fatal":                     1,
	"helper.go:DateConverter:log.Fatal":                    1,
	"helper.go:DateConverter:log.Fatalf":                   2,
	"helper.go:LineInut:log.Fatal":                         1,
	"helper.go:LineInut:log.Fatalf":                        1,
	"helper.go:MakeDir:log.Fatalf":                         1,
	"helper.go:PrintTo:log.Fatal":                          1,
	"helper.go:ValAsBool:log.Fatalf":                       2,
	"helper.go:ValAsFloat:log.Fatalf":                      1,
	"helper.go:ValAsInt:log.Fatalf":                        1,
	"longday.go:LangTagConverter:log.Fatal":                2,
	"output.go:progout:log.Fatal":                          4,
	"path.go:FilePool.Get:log.Fatalf":                      2,
	"path.go:Fout.Close:log.Fatalln":                       2,
	"run.go:HermesSession.Run:log.Fatal":                   11,
	"session.go:HermesSession.DumpStructToFile:log.Fatal":  1,
	"session.go:HermesSession.DumpStructToFile:log.Fatalf": 1,
	"session.go:HermesSession.Open:log.Fatalf":             1,
	"session.go:HermesSession.OpenResultFile:log.Fatal":    1,
	"session.go:HermesSession.ReadFile:log.Fatalf":         1,
	"session.go:HermesSession.WriteYamlConfig:log.Fatal":   1,
	"session.go:HermesSession.WriteYamlConfig:log.Fatalf":  1,
	"types.go:DualType.Add:log.Fatal":                      1,
	"types.go:DualType.Inc:log.Fatal":                      1,
	"types.go:DualType.SetByIndex:log.Fatal":               1,
}

// The reported-error classes of C11 must be *returned* errors (fmt.Errorf in the named function).
var expectReturnedErrors = map[string]string{
	"unknown-soil-id":                    "soil.go:LoadSoilCSV:SoilID '%s' not found",
	"unknown-soil-id(txt)":               "soil.go:LoadSoil:SoilID '%s' not found",
	"unknown-field-id":                   "input.go:Input:Feld_ID / Field_ID %s not found",
	"texture-not-in-tables":              "input.go:Input:soil texture %s is not listed in HYPAR.TRU",
	"texture-fractions-inconsistent":     "input.go:Input:sand: %f, Silt: %f, Clay: %f does not sum up to 100 percent",
	"weather-gap":                        "weather_input.go:ReadWeatherCSV:%s Failed to parse file: %s, error: missing days",
	"weather-gap(one-file-per-year)":     "weather_input.go:WetterK:%s Failed to parse file: %s, error: missing days",
	"tillage-between-sowing-and-harvest": "nitro.go:Nitro:tillage date %s before harvest %s at %s",
	"start-year-mismatch":                "run.go:HermesSession.Run:start year %v does not match beginn year %v",
	"rotation-dates-not-ascending":       "input.go:Input:rotation file %s: date %s is not after %s",
}

// Every assignment to g.ENDE and every change of the time step g.DT. `C11_run_loop_terminates`
// assumes DT ≥ 1 and a bound on the values ENDE takes inside the day loop: the sites below assign the
// current day, the bounded results of LangTag (P1, P2), a harvest date of the rotation or the end date
// of the configuration; none of them grows with ZEIT.
var expectDayLoopBoundSites = []string{
	"config.go:readConfig:g.ENDE=g.Datum()",                                // before the loop: EndDate of the configuration
	"run.go:HermesSession.Run:g.ENDE=OUTY+1",                               // before the loop: annual output date of the end year
	"dung.go:PrognoseTime:g.ENDE=g.ERNTE[]",                                // harvest date of the current crop
	"dung.go:PrognoseTime:g.ENDE=g.P1", "dung.go:PrognoseTime:g.ENDE=g.P1", // LangTag results (bounded, longday.go)
	"dung.go:PrognoseTime:g.ENDE=g.P2", "dung.go:PrognoseTime:g.ENDE=g.P2",
	"dung.go:SimulateFertilizationAfterPrognose:g.ENDE=zeit", "dung.go:SimulateFertilizationAfterPrognose:g.ENDE=zeit", // the current day
	"output.go:progout:g.ENDE=ABZEIT",   // after the loop (run.go:762, ABZEIT = 0: not taken)
	"input.go:Input:g.DT.SetByIndex(1)", // time step 1 day
}

type factsFile struct {
	Strs map[string][]string `json:"string_tables"`
}

func loadFacts(c *vh.Ctx) (*factsFile, error) {
	b, err := os.ReadFile(filepath.Join(c.Verif, "evidence", "facts.json"))
	if err != nil {
		return nil, err
	}
	var f factsFile
	if err := json.Unmarshal(b, &f); err != nil {
		return nil, err
	}
	for _, k := range []string{"concurrency.package_vars", "concurrency.package_var_writes", "concurrency.pool_list_accesses", "concurrency.run_state_allocations",
		"concurrency.map_ranges_writing_output", "concurrency.fatal_sites", "concurrency.returned_error_sites", "concurrency.dispatcher_shape", "concurrency.day_loop_bound_sites"} {
		if _, ok := f.Strs[k]; !ok {
			return nil, fmt.Errorf("facts.json has no table %s (extractor plug-in concurrency_facts.go did not run)", k)
		}
	}
	return &f, nil
}

func groupSites(sites []string) map[string]int {
	out := map[string]int{}
	for _, s := range sites {
		if i := strings.LastIndex(s, "#"); i >= 0 {
			s = s[:i]
		}
		out[s]++
	}
	return out
}

// checkConcurrencyFacts: the obligations behind `runs_share_only_pool` (C03).
func checkConcurrencyFacts(c *vh.Ctx) {
	f, err := loadFacts(c)
	if err != nil {
		c.Violate("proof", "facts:missing", "the regenerated concurrency facts are not available: "+err.Error(), nil)
		return
	}
	t := f.Strs
	for _, w := range t["concurrency.package_var_writes"] {
		p := strings.Split(w, ":")
		name := w
		if len(p) >= 3 {
			name = p[2]
		}
		c.Violate("proof", "facts:package-var-write:"+name, "a package-level variable of package hermes is written outside init/its declaration — runs of one session share mutable state, `runs_share_only_pool` is no longer discharged: "+w,
			map[string]interface{}{"write": w, "all_writes": t["concurrency.package_var_writes"]})
	}
	for _, v := range t["concurrency.package_vars"] {
		if !expectPackageVars[v] {
			c.Violate("proof", "facts:new-package-var:"+v, "new package-level variable in package hermes (not in the expectation list of shared read-only tables): "+v,
				map[string]interface{}{"var": v})
		}
	}
	nAcc := 0
	for _, a := range t["concurrency.pool_list_accesses"] {
		nAcc++
		if strings.Contains(a, ":UNLOCKED") {
			poolUnlockedFact = true
			c.Violate("proof", "facts:pool-access-unlocked", "FilePool.list is accessed outside the mux.Lock()…Unlock() span — `pool_transparent` assumes every Get is atomic: "+a,
				map[string]interface{}{"access": a, "all": t["concurrency.pool_list_accesses"]})
		}
	}
	if nAcc == 0 {
		c.Violate("proof", "facts:pool-shape", "no access to FilePool.list found — the pool no longer has the shape the model transcribes", nil)
	}
	have := map[string]bool{}
	for _, a := range t["concurrency.run_state_allocations"] {
		have[a] = true
	}
	for _, want := range expectRunState {
		if !have[want] {
			c.Violate("proof", "facts:run-state-not-allocated-in-run:"+strings.SplitN(want, ":", 2)[0], "per-run state is no longer allocated inside (*HermesSession).Run: expected "+want,
				map[string]interface{}{"expected": want, "found": t["concurrency.run_state_allocations"]})
		}
	}
	for _, m := range t["concurrency.map_ranges_writing_output"] {
		c.Violate("proof", "facts:map-range-writes-output", "a `range` over a map writes output in its body (iteration order is random per run): "+m, map[string]interface{}{"site": m})
	}
	got := append([]string{}, t["concurrency.dispatcher_shape"]...)
	sort.Strings(got)
	want := append([]string{}, expectDispatcherShape...)
	sort.Strings(want)
	if strings.Join(got, " ") != strings.Join(want, " ") {
		c.Violate("proof", "facts:dispatcher-shape", fmt.Sprintf("doConcurrentBatchRun no longer has the shape the transition system transcribes: found %v, expected %v", got, want),
			map[string]interface{}{"found": got, "expected": want})
	}
	// the generated Lean file must carry the same facts (driver op dispatch.facts)
	nFatal := len(t["concurrency.fatal_sites"])
	nUnlocked := 0
	for _, a := range t["concurrency.pool_list_accesses"] {
		if strings.Contains(a, ":UNLOCKED") {
			nUnlocked++
		}
	}
	line := fmt.Sprintf("writes %d unlocked %d poolaccesses %d maprange-output %d fatal %d perrun %d", len(t["concurrency.package_var_writes"]), nUnlocked,
		len(t["concurrency.pool_list_accesses"]), len(t["concurrency.map_ranges_writing_output"]), nFatal, len(t["concurrency.run_state_allocations"]))
	c.Correspond("dispatch.facts", []string{"dispatch.facts"}, []string{line}, 0, 0, nil)
	c.Res.Extra["concurrency_facts"] = map[string]interface{}{"package_vars": len(t["concurrency.package_vars"]), "package_var_writes": len(t["concurrency.package_var_writes"]),
		"pool_list_accesses": nAcc, "pool_list_unlocked": nUnlocked, "run_state_allocations": len(t["concurrency.run_state_allocations"]),
		"map_ranges_writing_output": len(t["concurrency.map_ranges_writing_output"]), "fatal_sites": nFatal}
	checkSessionFacts(c)
}

// checkFatalFacts: the obligations behind `NoFatal` and the per-run error classes (C11).
func checkFatalFacts(c *vh.Ctx) {
	f, err := loadFacts(c)
	if err != nil {
		c.Violate("proof", "facts:missing", "the regenerated concurrency facts are not available: "+err.Error(), nil)
		return
	}
	t := f.Strs
	got := groupSites(t["concurrency.fatal_sites"])
	for k, n := range got {
		if n > expectFatalSites[k] {
			c.Violate("proof", "facts:new-fatal-site:"+k, fmt.Sprintf("new log.Fatal/panic site in package hermes: %s now has %d site(s), expected %d — one batch line can end the whole process there", k, n, expectFatalSites[k]),
				map[string]interface{}{"site": k, "found": n, "expected": expectFatalSites[k]})
		}
	}
	for k, n := range expectFatalSites {
		if got[k] < n {
			c.Note("fatal site list: %s has %d site(s), expectation lists %d (stale expectation, not a violation)", k, got[k], n)
		}
	}
	have := map[string]bool{}
	for _, e := range t["concurrency.returned_error_sites"] {
		have[e] = true
	}
	for class, site := range expectReturnedErrors {
		if !have[site] {
			c.Violate("proof", "facts:error-class-not-returned:"+class, "the reported-error class "+class+" is no longer a returned error at "+site, map[string]interface{}{"class": class, "expected_site": site})
		}
	}
	// the day loop header: ENDE is only assigned from bounded sources (run_loop_terminates assumes a bound)
	{
		got := append([]string{}, t["concurrency.day_loop_bound_sites"]...)
		want := append([]string{}, expectDayLoopBoundSites...)
		sort.Strings(got)
		sort.Strings(want)
		wantN := map[string]int{}
		for _, w := range want {
			wantN[w]++
		}
		for _, g := range got {
			if wantN[g] > 0 {
				wantN[g]--
				continue
			}
			c.Violate("proof", "facts:day-loop-bound:"+g, "new assignment to g.ENDE / change of the time step g.DT — `C11_run_loop_terminates` assumes every value of ENDE inside the day loop is bounded and DT ≥ 1: "+g,
				map[string]interface{}{"site": g, "found": got, "expected": want})
		}
	}
	c.Res.Extra["fatal_sites"] = len(t["concurrency.fatal_sites"])
	c.Res.Extra["returned_error_sites"] = len(t["concurrency.returned_error_sites"])
	// also the shared-state obligations: isolation of runs rests on them
	checkConcurrencyFacts(c)
}
