/-
Model of the crop routine `PhytoOut` (hermes/crop.go), annual crops: the development-stage machine
(crop.go:130-181, 286-291) with its thermal increment and the factors of the increment (vernalisation
`vern` crop.go:1005-1040, photoperiod 245-264, acceleration by stress 266-285), the organ update with
its floors and the LAI update (452-505), the N-stress factor REDUK (424-440), the N concentrations
(741-763) and the rooting depth (572-606).  Transcendental values (`exp` in REDUK, the photoperiodic
day length DLP, the root distribution coefficient Qrez of `root`, the photosynthesis numbers GPHOT and
MAINT of `radia`) are inputs.  The automatic regrowth of permanent crops (522-541) is not modelled:
the property is claimed for annual crops only.  Polymorphic in the arithmetic (see Num.lean).
-/
import HermesModel.Num
namespace Hermes.Crop

section
variable {α : Type} [Add α] [Sub α] [Mul α] [Div α] [Neg α] [LT α] [DecidableLT α] [LE α] [DecidableLE α]
  [OfNat α 0] [OfNat α 1] [OfScientific α] [Conv α]

/-! ### small helpers -/

/-- `l[i] := v` (nothing happens beyond the end) -/
def setAt {β : Type} : Nat → β → List β → List β
  | _, _, [] => []
  | 0, v, _ :: xs => v :: xs
  | i + 1, v, x :: xs => x :: setAt i v xs

/-- Go `math.Max` (no NaN) -/
def fmax (a b : α) : α := if a < b then b else a
/-- Go `math.Min` (no NaN) -/
def fmin (a b : α) : α := if b < a then b else a
/-- the clamp `if x > 1 {x = 1}; if x < 0 {x = 0}` (crop.go:259-264) -/
def clamp01 (x : α) : α :=
  let y := if 1 < x then 1 else x
  if y < 0 then 0 else y
/-- Go `math.Abs` -/
def fabs (x : α) : α := if x < 0 then -x else x

/-! ### factors of the thermal increment -/

/-- crop.go:1013-1027: vernalisation effectiveness of the day's mean temperature. -/
def vernEff (t : α) : α :=
  if t < 0 ∧ (-(4.0 : α)) < t then (t + 4.0) / 4.0
  else if t < -(4.0 : α) then 0
  else if 3.0 < t ∧ t < 7.0 then 1 - 0.2 * (t - 3.0) / 4.0
  else if 7.0 < t ∧ t < 9.0 then 0.8 - 0.4 * (t - 7.0) / 2.0
  else if 9.0 < t ∧ t < 18.0 then 0.4 - 0.4 * (t - 9.0) / 9.0
  else if t < -(4.0 : α) ∨ 18.0 < t then 0
  else 1

/-- crop.go:1028-1039 (`vern`): new VERNTAGE and the vernalisation factor FV. -/
def vern (verntage vschwell temp dt : α) : α × α :=
  let vt := verntage + vernEff temp * dt
  let vs := fmin vschwell 9.0 - 1
  if 1 ≤ vs then
    let fv := (vt - vs) / (vschwell - vs)
    (vt, if fv < 0 then 0 else if 1 < fv then 1 else fv)
  else (vt, 1)

/-- crop.go:239-244: FV = 1 without a vernalisation requirement, else `vern`. Result (VERNTAGE', FV). -/
def vernFactor (verntage vschwell temp dt : α) : α × α :=
  if vschwell < 0 ∨ 0 < vschwell then vern verntage vschwell temp dt else (verntage, 1)

/-- crop.go:245-264: photoperiod factor FP from the photoperiodic day length DLP. -/
def fpFactor (dlp dayl dlbas : α) : α :=
  let raw :=
    if 0 < dayl then (dlp - dlbas) / (dayl - dlbas)
    else if dayl < 0 then
      if dlp ≤ fabs dayl then 1 else (dlp - fabs dlbas) / (fabs dayl - fabs dlbas)
    else 1
  clamp01 raw

/-- crop.go:266-285: acceleration of development by N stress (not for ZR, SM) and by drought
(not when the transpiration deficit comes from air shortage, LURED < 1). `math.Pow(x, 2)` is `x*x`. -/
def devProg (noNAccel : Bool) (reduk trrel dryswell lured : α) : α :=
  let nprog := if noNAccel then 1 else 1 + (1 - reduk) * (1 - reduk)
  let wprog :=
    if trrel < dryswell then (if lured < 1 then 1 else 1 + 0.2 * ((1 - trrel) * (1 - trrel))) else 1
  fmax nprog wprog

/-- crop.go:288: (TEMP − BAS)·FV·FP·devprog·DT -/
def thermalInc (temp bas fv fp devprog dt : α) : α := (temp - bas) * fv * fp * devprog * dt

/-- crop.go:287-291: the increment of SUM[INTWICK] and PHYLLO of the day (0 below the base temperature). -/
def dayIncrement (temp bas fv fp devprog dt : α) : Option α :=
  if bas ≤ temp then some (thermalInc temp bas fv fp devprog dt) else none

/-- crop.go:131-137: increment of SUM[0] before emergence (reduced when the top layer is dry). -/
def emergInc (temp bas wg0 w0 wmin0 dt : α) : Option α :=
  if bas < temp then
    let thr := 0.3 * (w0 - wmin0) + wmin0
    if thr < wg0 then some ((temp - bas) * dt) else some ((temp - bas) * (wg0 / thr) * dt)
  else none

/-! ### the stage machine -/

/-- development state: stage index (INTWICK.Index, 0-based), temperature sums per stage, day on which
each stage was entered (`DEV`). -/
structure Stage (α : Type) where
  intwick : Nat
  sum : List α
  dev : List Nat

def addOpt (x : α) : Option α → α
  | some d => x + d
  | none => x

/-- crop.go:150-157: the stage test. When the temperature sum of the current stage is reached and the
stage is not the last one, the surplus is carried into the next stage, INTWICK is incremented and the
day is recorded. Only evaluated once the crop has emerged (`SUM[0] >= TSUM[0]`). -/
def advance (nrentw day : Nat) (tsum : List α) (s : Stage α) : Stage α × Bool :=
  let si := s.sum.getD s.intwick 0
  let ti := tsum.getD s.intwick 0
  if ti ≤ si ∧ s.intwick + 1 < nrentw then
    ({ intwick := s.intwick + 1, sum := setAt (s.intwick + 1) (si - ti) s.sum,
       dev := setAt (s.intwick + 1) day s.dev }, true)
  else (s, false)

/-- emerged: `SUM[0] >= TSUM[0]` (crop.go:150) -/
def emerged (tsum : List α) (s : Stage α) : Bool := decide (tsum.getD 0 0 ≤ s.sum.getD 0 0)

/-- The stage part of one call of PhytoOut with the two increments of the day as inputs:
`e` is added to SUM[0] while the crop is in its first stage (crop.go:130-137), then the stage test,
then `d idx` (the thermal increment for the stage the crop is in after the test) is added to
SUM[INTWICK] (crop.go:287-288) — only once emerged. -/
def stageStep (nrentw day : Nat) (tsum : List α) (e : Option α) (d : Nat → Option α) (s : Stage α) : Stage α × Bool :=
  let s1 : Stage α := if s.intwick = 0 then { s with sum := setAt 0 (addOpt (s.sum.getD 0 0) e) s.sum } else s
  if emerged tsum s1 then
    let a := advance nrentw day tsum s1
    let s2 := a.1
    ({ s2 with sum := setAt s2.intwick (addOpt (s2.sum.getD s2.intwick 0) (d s2.intwick)) s2.sum }, a.2)
  else (s1, false)

/-- a season: the days between sowing and harvest with their labels and increments -/
def run (nrentw : Nat) (tsum : List α) : List (Nat × Option α × (Nat → Option α)) → Stage α → Stage α
  | [], s => s
  | (day, e, d) :: rest, s => run nrentw tsum rest (stageStep nrentw day tsum e d s).1

/-- Inputs of the stage part of one day as the code has them. Lists have 10 entries. -/
structure DayIn (α : Type) where
  nrentw : Nat
  doy : Nat
  noNAccel : Bool
  temp : α
  dt : α
  wg0 : α
  w0 : α
  wmin0 : α
  dlp : α
  reduk : α
  trrel : α
  lured : α
  verntage : α
  fvOld : α
  fpOld : α
  phyllo : α
  tsum : List α
  bas : List α
  vschwell : List α
  dayl : List α
  dlbas : List α
  dryswell : List α

structure DayOut (α : Type) where
  st : Stage α
  advanced : Bool
  phyllo : α
  verntage : α
  fv : α
  fp : α

/-- The stage part of one call of PhytoOut (annual crop, not the sowing day). -/
def stageDay (i : DayIn α) (s : Stage α) : DayOut α :=
  let e := if s.intwick = 0 then emergInc i.temp (i.bas.getD 0 0) i.wg0 i.w0 i.wmin0 i.dt else none
  let s1 : Stage α := if s.intwick = 0 then { s with sum := setAt 0 (addOpt (s.sum.getD 0 0) e) s.sum } else s
  if emerged i.tsum s1 then
    let a := advance i.nrentw i.doy i.tsum s1
    let k := a.1.intwick
    let v := vernFactor i.verntage (i.vschwell.getD k 0) i.temp i.dt
    let fp := fpFactor i.dlp (i.dayl.getD k 0) (i.dlbas.getD k 0)
    let dp := devProg i.noNAccel i.reduk i.trrel (i.dryswell.getD k 0) i.lured
    let d := dayIncrement i.temp (i.bas.getD k 0) v.2 fp dp i.dt
    { st := { a.1 with sum := setAt k (addOpt (a.1.sum.getD k 0) d) a.1.sum }, advanced := a.2,
      phyllo := addOpt i.phyllo d, verntage := v.1, fv := v.2, fp := fp }
  else { st := s1, advanced := false, phyllo := i.phyllo, verntage := i.verntage, fv := i.fvOld, fp := i.fpOld }

/-! ### organ update (crop.go:452-505) -/

/-- per-organ inputs -/
structure OrganPar (α : Type) where
  mant : α       -- share of the organ in the maintenance respiration
  proPrev : α    -- partitioning at the end of the previous / current stage
  proCur : α
  deadPrev : α   -- death rate at the end of the previous / current stage
  deadCur : α

structure OrganEnv (α : Type) where
  dt : α
  gtw : α        -- GPHOT + ASPOO
  maint : α
  reduk : α
  sumI : α       -- SUM[INTWICK], TSUM[INTWICK]
  tsumI : α
  lastStage : Bool   -- ¬ (int(INTWICK.Num) < NRENTW)
  laifktPrev : α
  laifktCur : α
  laifkt0 : α

/-- crop.go:453-459: growth and death rate of one organ; `dOld` is the death rate left from the
previous day (kept when the stage's temperature sum is exceeded). -/
def rates (e : OrganEnv α) (p : OrganPar α) (w dOld : α) : α × α :=
  if 1 < e.sumI / e.tsumI then (0, dOld)
  else
    (e.gtw * 0.7 * (p.proPrev + (p.proCur - p.proPrev) * e.sumI / e.tsumI) * e.reduk - (e.maint * p.mant * 0.7),
     w * (p.deadPrev + (p.deadCur - p.deadPrev) * (fmin 1 (e.sumI / e.tsumI))))

/-- crop.go:463-469: organs 1-3 (root, leaf, stem): explicit update, or — when that would not leave
more than 1e-13 — the death rate is set to what is there and the mass to 0.1. Result (WORG', DGORG'). -/
def updLow (dt w g d : α) : α × α :=
  if 1e-13 < w + (g - d) * dt then (w + g * dt - d * dt, d) else (0.1, w / dt + g)

/-- crop.go:470-480: organs 4-5 (storage): a third of what died in the three organs before is
relocated (not in the last stage), floor at 0. Result (WORG', DGORG'). -/
def updHigh (dt : α) (lastStage : Bool) (w g d d1 d2 d3 : α) : α × α :=
  let w1 := if lastStage then w + g * dt - d * dt
            else w + g * dt - d * dt + 0.3 * (d1 * dt + d2 * dt + d3 * dt)
  if w1 < 0 then (0, d + w1 / dt) else (w1, d)

/-- crop.go:481-491: LAI follows the leaf (organ 2), clamp at 0; LAIMAX is overwritten whenever
LAI grew. Result (LAI', LAIMAX'). -/
def updLai (e : OrganEnv α) (lai laimax g d : α) : α × α :=
  let l1 := lai + g * (e.laifktPrev + (e.sumI / e.tsumI * (e.laifktCur - e.laifktPrev))) * e.dt - d * e.laifkt0 * e.dt
  let l2 := if l1 < 0 then 0 else l1
  (l2, if lai < l2 then l2 else laimax)

/-- crop.go:206-208 -/
def laiFloor (lai : α) : α := if lai ≤ 0 then 0.001 else lai

structure OrgState (α : Type) where
  worg : List α     -- updated organs so far (in order)
  gorg : List α
  dgorg : List α    -- updated death rates so far, most recent first
  lai : α
  laimax : α
  pesum : α

/-- one pass of the loop body for organ number `i` (0-based). -/
def organStep (e : OrganEnv α) (gehalt : α) (st : OrgState α) (i : Nat) (p : OrganPar α) (w dOld : α) : OrgState α :=
  let r := rates e p w dOld
  let u := if i < 3 then updLow e.dt w r.1 r.2
           else updHigh e.dt e.lastStage w r.1 r.2 (st.dgorg.getD 0 0) (st.dgorg.getD 1 0) (st.dgorg.getD 2 0)
  let l := if i = 1 then updLai e st.lai st.laimax r.1 u.2 else (st.lai, st.laimax)
  let pes := if i = 1 ∨ i = 2 then st.pesum - 0.7 * u.2 * gehalt * e.dt else st.pesum
  { worg := st.worg ++ [u.1], gorg := st.gorg ++ [r.1], dgorg := u.2 :: st.dgorg, lai := l.1, laimax := l.2, pesum := pes }

/-- the loop over the organs: `orgs` = (parameters, WORG[i], DGORG[i] of the day before) per organ -/
def organLoop (e : OrganEnv α) (gehalt : α) : Nat → List (OrganPar α × α × α) → OrgState α → OrgState α
  | _, [], st => st
  | i, (p, w, d) :: rest, st => organLoop e gehalt (i + 1) rest (organStep e gehalt st i p w d)

/-- crop.go:515-517: above-ground mass = Σ WORG[komp−1] over the listed organs, in order from 0 -/
def obmas (above : List Nat) (worg : List α) : α :=
  above.foldl (fun s k => s + worg.getD (k - 1) 0) 0

structure OrgOut (α : Type) where
  worg : List α
  gorg : List α
  dgorg : List α   -- in organ order
  lai : α
  laimax : α
  pesum : α
  aspoo : α
  obmas : α

/-- The organ / LAI / assimilate-pool part of one call of PhytoOut (crop.go:206-208, 224-227, 452-517).
`lai0`, `laimax0`, `pesum0` are the values before the call (LAI gets its floor first). -/
def organs (e : OrganEnv α) (gehalt lai0 laimax0 pesum0 : α) (above : List Nat) (orgs : List (OrganPar α × α × α)) : OrgOut α :=
  let st := organLoop e gehalt 0 orgs { worg := [], gorg := [], dgorg := [], lai := laiFloor lai0, laimax := laimax0, pesum := pesum0 }
  { worg := st.worg, gorg := st.gorg, dgorg := st.dgorg.reverse, lai := st.lai, laimax := st.laimax, pesum := st.pesum,
    aspoo := 0 + e.gtw * (1 - e.reduk), obmas := obmas above st.worg }

/-! ### N stress factor (crop.go:424-440) -/

def minin (ngefkt : Nat) : α := if ngefkt = 1 then 0.005 else 0.004

/-- AUX of crop.go:435 -/
def aux (ngefkt : Nat) (gehob gehmin : α) : α := (gehob - minin ngefkt) / (gehmin - minin ngefkt)

/-- exponent handed to `exp`: 1 + 1/(AUX − 1) -/
def redukExponent (ngefkt : Nat) (gehob gehmin : α) : α := 1 + 1 / (aux ngefkt gehob gehmin - 1)

/-- REDUK with `e = exp (redukExponent …)` as an input -/
def reduk (ngefkt : Nat) (gehob gehmin e : α) : α :=
  if gehob < gehmin then
    if gehob ≤ minin ngefkt then 0 else (1 - e) * (1 - e)
  else 1

/-! ### N concentrations (crop.go:741-763) -/

/-- crop.go:741-755: root N concentration after a day. With root growth, and when the guard
`ΔOBMAS + ΔWUMAS > 0` holds, the root receives the fraction min(1, ΔWUMAS / denom) of the day's uptake
(the cap at 1 is the repair of the C09 finding); the result is capped by WGMAX and has the floor 0.005.
`guardv` is the guard expression, `denom` the denominator (they differ for sugar beet / potato). -/
def wugehCore (wumalt wumas guardv denom wugeh uptake wgmax : α) : α :=
  if wumalt < wumas then
    let w1 := if 0 < guardv
              then (wumalt * wugeh + fmin 1 ((wumas - wumalt) / denom) * uptake) / wumas
              else wugeh
    let w2 := fmin w1 wgmax
    if w2 < 0.005 then 0.005 else w2
  else wugeh

/-- crops other than ZR / K (crop.go:747-749): uptake = SUMPE + NFIX -/
def wugehUpdate (wumalt wumas obalt obmas wugeh sumpe nfix wgmax : α) : α :=
  wugehCore wumalt wumas (obmas - obalt + wumas - wumalt) (obmas - obalt + wumas - wumalt) wugeh (sumpe + nfix) wgmax

/-- crop.go:762: N concentration of the above-ground mass = (crop N − root N) / OBMAS -/
def gehobUpdate (pesum sumpe nfix wumas wugeh obmas : α) : α := (pesum + sumpe + nfix - wumas * wugeh) / obmas

/-- ZR / K (crop.go:743-745): `obalt` = OBMAS of the day before + WORG[3] (crop.go:507), the storage organ
WORG[3] is part of the denominator but not of the guard; uptake = SUMPE (no fixation). -/
def wugehBeet (wumalt wumas obalt obmas worg3 wugeh sumpe wgmax : α) : α :=
  wugehCore wumalt wumas (obmas - obalt + wumas - wumalt) (obmas + worg3 - obalt + wumas - wumalt) wugeh sumpe wgmax

/-- crop.go:757 -/
def gehobBeet (pesum sumpe wumas wugeh obmas worg3 : α) : α := (pesum + sumpe - wumas * wugeh) / (obmas + worg3)

/-- crop.go:758-760: when the N amount of the tops fell, WUGEH is recomputed from the balance
(algebraically the same value). -/
def wugehBeetFinal (pesum sumpe wumas wugeh obmas worg3 obalt gehalt gehob : α) : α :=
  if gehob * (obmas + worg3) < obalt * gehalt then (pesum + sumpe - (obmas + worg3) * gehob) / wumas else wugeh

/-! ### rooting depth (crop.go:572-606) -/

/-- crop.go:572-578: layer limit WURM = round(WURZMAX · WUMAXPF/11), at most N, at least 1 -/
def rootLimit (wurzmax n : Nat) (wumaxpf : α) : α :=
  let w : α := Conv.ofNat (Conv.roundNat ((Conv.ofNat wurzmax : α) * (wumaxpf / 11.0)))
  let w := if (Conv.ofNat n : α) < w then Conv.ofNat n else w
  if w < 1 then 1 else w

/-- crop.go:597-603 -/
def qrezClamp (qrez wurm dz : α) : α :=
  let q := if 0.35 < qrez then 0.35 else qrez
  if q < 4.5 / (wurm * dz) then 4.5 / (wurm * dz) else q

/-- crop.go:606: WURZ = int(4.5 / Qrez / DZ) -/
def rootDepth (wurzmax n : Nat) (wumaxpf dz qrez : α) : Nat :=
  Conv.truncNat (4.5 / qrezClamp qrez (rootLimit wurzmax n wumaxpf) dz / dz)

end
end Hermes.Crop
