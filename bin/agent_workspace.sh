#!/bin/sh
# usage: bin/agent_workspace.sh <name>  — private copy of /verif and worktree of /repo for parallel work
set -e
N="$1"
rm -rf /tmp/vw-$N
cp -r /verif /tmp/vw-$N
rm -rf /tmp/vw-$N/.git /tmp/vw-$N/replays/* /tmp/vw-$N/seeded
git -C /repo worktree remove --force /tmp/rw-$N 2>/dev/null || true
git -C /repo worktree prune
git -C /repo worktree add --detach /tmp/rw-$N HEAD >/dev/null
sed -i "s#=> /repo/hermes#=> /tmp/rw-$N/hermes#" /tmp/vw-$N/harness/go.mod
echo "export VERIF_DIR=/tmp/vw-$N VERIF_REPO=/tmp/rw-$N"
