import sys,subprocess,re
repo='/tmp/rw-weather/hermes/'
muts={
 'M1':('weather_input.go','		s.TMP[yrz-1][T-1] = d.tavg\n		s.TMI[yrz-1][T-1] = d.tmin\n		s.TMA[yrz-1][T-1] = d.tmax\n		s.RELF[yrz-1][T-1] = d.relhumid\n		s.RADI[yrz-1][T-1] = d.globrad\n		s.WIN[yrz-1][T-1] = d.wind\n		s.REG[yrz-1][T-1] = d.precip\n		s.SUND[yrz-1][T-1] = d.sunh\n		s.VERD[yrz-1][T-1] = d.verd\n		s.MaxYearDays[yrz-1] = T\n	}\n	s.replaceMissingValues(yrz, driConfig.WeatherNoneValue)\n	// apply value changes\n	s.transformWeatherData(yrz, CORRK[:])\n	return nil\n}\n\nfunc anyWeatherError',
      '		s.TMP[yrz-1][T-1] = d.tavg\n		s.TMI[yrz-1][T-1] = d.tmin\n		s.TMA[yrz-1][T-1] = d.tmax\n		s.RELF[yrz-1][T-1] = d.relhumid\n		s.RADI[yrz-1][T-1] = d.globrad\n		s.WIN[yrz-1][T-1] = d.wind\n		s.REG[yrz-1][T%366] = d.precip\n		s.SUND[yrz-1][T-1] = d.sunh\n		s.VERD[yrz-1][T-1] = d.verd\n		s.MaxYearDays[yrz-1] = T\n	}\n	s.replaceMissingValues(yrz, driConfig.WeatherNoneValue)\n	// apply value changes\n	s.transformWeatherData(yrz, CORRK[:])\n	return nil\n}\n\nfunc anyWeatherError'),
 'M2':('run.go','			if g.TAG.Index+1 > g.JTAG {','			if g.TAG.Index+1 > 365 {'),
 'M3':('weather_input.go','			cor := corr.getCorrValue(index + 1)','			cor := corr.getCorrValue(index)'),
 'M4':('run.go','				if driConfig.WeatherFileFormat == 1 || driConfig.WeatherFileFormat == 2 {\n					LoadYear(&g, &bbbShared, 1900+g.J)','				if driConfig.WeatherFileFormat == 1 {\n					LoadYear(&g, &bbbShared, 1900+g.J)'),
 'M5':('weather_input.go','		d.tavg = (d.tmax + d.tmin) / 2\n\n		if first {\n			// failsave if the first date is not 1.Jan\n			first = false\n			T = d.datetime.YearDay()\n			yrz = 1\n		} else if d.datetime.Day() == 1 && d.datetime.Month() == time.January {\n			T = 1\n			yrz = yrz + 1\n		}\n		if d.datetime.YearDay() != T {',
      '		d.tavg = (d.tmax + d.tmin) / 2\n\n		if first {\n			// failsave if the first date is not 1.Jan\n			first = false\n			T = d.datetime.YearDay()\n			yrz = 1\n		} else if d.datetime.Day() == 1 && d.datetime.Month() == time.January {\n			T = 1\n			yrz = yrz + 1\n		}\n		if d.datetime.YearDay() == T+1 {\n			T++\n		}\n		if d.datetime.YearDay() != T {'),
 'M6':('weather_input.go','		if Tlast+1 != T {','		if Tlast+1 < T-1 {'),
 'M7':('weather_input.go','			s.RADI[y][index] = s.RADI[y][index] / 2','			s.RADI[y][index] = s.RADI[y][index] / 2.5'),
 'M8':('weather_input.go','		if d.datetime.Year() < startyear {\n			continue\n		}\n		d.wind, err[0]','		if d.datetime.Year() <= startyear-1 && d.datetime.YearDay() < 366 {\n			continue\n		}\n		d.wind, err[0]'),
 'M9':('weather_input.go','		if s.JAR[yearIdx] == year {','		if s.JAR[yearIdx] >= year {'),
}
m=sys.argv[1]
f,old,new=muts[m]
s=open(repo+f).read()
assert s.count(old)==1,(m,s.count(old))
open(repo+f,'w').write(s.replace(old,new))
