/-
Model of the partition part of `Evatra` (hermes/water.go:17-656, line numbers of the tree with
the potential-ET floor): everything after the potential evapotranspiration of the chosen method
has been computed — the floor at zero and the daily caps (291-298, 464-479), the split by leaf
area (299-302, 472-474), the soil-dryness reduction function REDEV(PROZ) (75-92), the fraction of
usable field capacity (93-100), the distribution of evaporation over depth (484-507), the
root-activity and reduction tables (527-561), the air-deficit reduction (571-588), the
distribution of transpiration over the rooted layers above groundwater (593-603), the deficit
redistribution loop (604-643) and the relative ratios handed to the crop model (645-663).

The potential ET of the chosen method (`verdu0`, one of five formulas with `exp`, `pow`, `sqrt`,
`sin`, `asin`, `acos`) and every transcendental coefficient (`elai = exp(-.5·LAI)`,
`expc i = exp(-PROP·.1·((i+1)·10 − DZ/2))`) are inputs.  Constant sub-expressions which the Go
compiler folds exactly (`1 - .33`, `.33 - .22`, `.22 - .2`) are written as the folded literal, so
that the `Float` instantiation performs the same roundings as the compiled code.
Polymorphic in the arithmetic (see Num.lean); every Go loop is a structural recursion over a list.
-/
import HermesModel.Num
namespace Hermes.Evatra

section
variable {α : Type} [Add α] [Sub α] [Mul α] [Div α] [Neg α] [LT α] [DecidableLT α]
  [OfNat α 0] [OfNat α 1] [OfNat α 3] [OfNat α 4] [OfScientific α] [Conv α]

/-- Inputs of the partition part of one `Evatra` call. Lists have one entry per layer (length N). -/
structure In (α : Type) where
  dz : α                  -- DZ.Num
  dt : α                  -- DT.Num
  dtIdx : Nat             -- DT.Index
  crop : Bool             -- the vegetation condition of water.go:137-138 / 525-526
  verdu0 : α              -- raw potential ET of the chosen method, before floor and cap (cm/d)
  elai : α                -- exp(-.5·LAI)
  regen : α               -- REGEN[TAG] (cm)
  wg : List α             -- WG[0][i]
  w0 : α                  -- W[0]
  wmin : List α
  wnor : List α
  expc : List α           -- exp(-PROP·.1·((i+1)·10 − DZ/2))
  wudich : List α         -- root length density
  wurz : Nat              -- WURZ
  grw : α                 -- GRW
  p0 : α                  -- PORGES[0..2]
  p1 : α
  p2 : α
  g0 : α                  -- the array slots WG[0][0..2] (equal to `wg` when N ≥ 3)
  g1 : α
  g2 : α
  lukrit : α              -- LUKRIT[INTWICK]
  lumday : Nat            -- LUMDAY
  trrelPrev : α           -- TRREL, ETREL before the call (kept on some branches)
  etrelPrev : α

structure Out (α : Type) where
  verdu : α               -- potential ET after floor and cap
  evmax : α
  tramax : α
  redev : α
  eta : α
  eva : α                 -- EVA[TAG]
  fluss0 : α
  ev : List α
  nfk : List α
  tp0 : List α            -- TP after the first distribution (before the redistribution loop)
  tp : List α
  tpakt : α
  gwauf : α
  lured : α               -- LURED (previous value is not modelled on bare soil: reported as 1)
  lumday : Nat
  etrel : α
  trrel : α
  wurz : Nat

/-- water.go:75-92: share of evaporable water in the top layer and the reduction factor. -/
def proz (wg0 regen dz wmin0 w0 : α) : α :=
  let wob0 := wg0 + regen / dz
  let wob := if wob0 < wmin0 / 3 then wmin0 / 3 else wob0
  let p := (wob - wmin0 / 3) / (w0 - wmin0 / 3)
  if 1 < p then 1 else p

def redev (p : α) : α :=
  if (0.33 : α) < p then 1 - ((0.1 : α) * (1 - p) / (0.67 : α))
  else if (0.22 : α) < p then (0.9 : α) - ((0.625 : α) * ((0.33 : α) - p) / (0.11 : α))
  else if (0.2 : α) < p then (0.275 : α) - ((0.225 : α) * ((0.22 : α) - p) / (0.02 : α))
  else (0.05 : α) - ((0.05 : α) * ((0.2 : α) - p) / (0.2 : α))

def clamp0 (x : α) : α := if x < 0 then 0 else x

/-- water.go:93-100. The top layer's value is re-assigned in every pass of the loop *before* the
clamp of layer i, so with more than one layer it ends unclamped. -/
def nfkRest : List α → List α → List α → List α
  | g :: gs, m :: ms, n :: ns => clamp0 ((g - m) / (n - m)) :: nfkRest gs ms ns
  | _, _, _ => []

def nfk (regen dz : α) : List α → List α → List α → List α
  | g :: gs, m :: ms, n :: ns =>
    let top := (g + regen / dz - m) / (n - m)
    match gs with
    | [] => [clamp0 top]
    | _ => top :: nfkRest gs ms ns
  | _, _, _ => []

/-- water.go:291-302 / 464-479: floor at zero, cap and split. `verdu0` is the raw value of the
chosen method; the floored and capped value is what the day uses. Result (VERDU, EVMAX, TRAMAX). -/
def capSplit (crop : Bool) (verdu0 elai : α) : α × α × α :=
  let vf := if verdu0 < 0 then 0 else verdu0
  if crop then
    let v := if (0.65 : α) < vf then (0.65 : α) else vf
    let e := v * elai
    let e' := if (0.65 : α) < e then (0.65 : α) else e
    (v, e', v - e)
  else
    let v := if (0.6 : α) < vf then (0.6 : α) else vf
    let e' := if (0.65 : α) < v then (0.65 : α) else v
    (v, e', 0)

/-- water.go:490-496 -/
def evVar : List α → List α → List α → List α
  | g :: gs, m :: ms, c :: cs => (if 0 < g - m / 3 then (g - m / 3) * c else 0) :: evVar gs ms cs
  | _, _, _ => []

/-- water.go:488-507: evaporation per layer. -/
def evDist (eva dt : α) (n : Nat) (vars : List α) : List α :=
  if 0 < eva then
    let s := sumFrom (0 : α) vars
    vars.map fun v => if 0 < s then eva * v / s * dt else 0
  else List.replicate n 0

/-- water.go:528-543 -/
def trred (x : α) : α :=
  clamp0 (if x < (0.15 : α) then x * 3
    else if x < (0.3 : α) then (0.45 : α) + ((0.25 : α) * (x - (0.15 : α)) / (0.15 : α))
    else if x < (0.5 : α) then (0.7 : α) + ((0.275 : α) * (x - (0.3 : α)) / (0.2 : α))
    else if x < (0.75 : α) then (0.975 : α) + ((0.025 : α) * (x - (0.5 : α)) / (0.25 : α))
    else 1)

/-- water.go:544-555 -/
def wueffRaw (x : α) : α :=
  clamp0 (if x < (0.15 : α) then (0.15 : α) + (0.45 : α) * x / (0.15 : α)
    else if x < (0.3 : α) then (0.6 : α) + ((0.2 : α) * (x - (0.15 : α)) / (0.15 : α))
    else if x < (0.5 : α) then (0.8 : α) + ((0.2 : α) * (x - (0.3 : α)) / (0.2 : α))
    else 1)

/-- one layer of the uptake computation -/
structure Lay (α : Type) where
  tp : α
  wg : α
  wmin : α
  trred : α
  wueff : α
  wudich : α

/-- water.go:527-561: layers 1..WURZ get table values (WUEFF = 0 below groundwater), the others 0.
`k` is the 1-based layer number. -/
def mkLays (wurz : Nat) (grw : α) : Nat → List α → List α → List α → List α → List (Lay α)
  | k, g :: gs, m :: ms, x :: xs, d :: ds =>
    let inRoot := decide (k ≤ wurz)
    let wu := if inRoot then (if grw < Conv.ofNat k then 0 else wueffRaw x) else 0
    { tp := 0, wg := g, wmin := m, trred := if inRoot then trred x else 0, wueff := wu, wudich := d }
      :: mkLays wurz grw (k + 1) gs ms xs ds
  | _, _, _, _, _ => []

/-- WEFF: Σ WUEFF·WUDICH over the first WURZ layers, in loop order. -/
def weffSum (wurz : Nat) (ls : List (Lay α)) : α :=
  sumFrom (0 : α) ((ls.take wurz).map fun l => l.wueff * l.wudich)

/-- water.go:571-588. Result (LURED, LUMDAY). -/
def lured (i : In α) : α × Nat :=
  let lupor := (i.p0 + i.p1 + i.p2 - i.g0 - i.g1 - i.g2) / 3
  if 0 < i.lukrit ∧ lupor < i.lukrit then
    let ld0 := i.lumday + i.dtIdx
    let ld := if 4 < ld0 then 4 else ld0
    let lp := if lupor < 0 then 0 else lupor
    let lurmax := lp / i.lukrit
    let r := 1 - Conv.ofNat ld / 4 * (1 - lurmax)
    (if 1 < r then 1 else r, ld)
  else (1, 0)

/-- math.Min(float64(WURZ), GRW) -/
def minRootGw (wurz : Nat) (grw : α) : α :=
  if grw < Conv.ofNat wurz then grw else Conv.ofNat wurz

/-- water.go:593-603: first distribution of the potential transpiration. -/
def tpInit (tramax weff lr minv : α) : Nat → List (Lay α) → List (Lay α)
  | _, [] => []
  | k, l :: ls =>
    let t := if minv < Conv.ofNat k then 0
             else if 0 < l.wueff * l.wudich then tramax * l.wueff * l.wudich / weff * lr else 0
    { l with tp := t } :: tpInit tramax weff lr minv (k + 1) ls

/-- water.go:629-635: the share of `trest` handed to the next `k` layers. -/
def addShare (trest weffrest : α) : Nat → List (Lay α) → List (Lay α)
  | 0, ls => ls
  | _, [] => []
  | k + 1, l :: ls =>
    (if 0 < weffrest then { l with tp := l.tp + trest * l.wueff * l.wudich / weffrest } else l)
      :: addShare trest weffrest k ls

/-- water.go:611-628: the part of a layer's uptake that it cannot deliver. -/
def trest (dz : α) (l : Lay α) : α :=
  let tdeft :=
    if l.wg - l.wmin < l.tp / dz then
      let d0 := (l.tp / dz - (l.wg - l.wmin)) * dz
      let d1 := if d0 < 0 then 0 else d0
      if l.tp / dz < d1 then l.tp / dz else d1
    else 0
  let tdred := l.tp * (1 - l.trred)
  let r := if tdred < tdeft then tdeft else tdred      -- math.Max(TDRED, TDEFT)
  if l.tp < r then l.tp else r

/-- water.go:605-643: the redistribution loop `for i := 1; i <= int(min); i++` as a recursion on
the number `cnt` of iterations still to run; `i` is the current 1-based layer and the list holds
the layers from `i` on.  Result: new TP of these layers, TPAKT, GWAUF. -/
def redist (dz minv grw : α) : Nat → Nat → α → α → α → List (Lay α) → List α × α × α
  | 0, _, _, tpakt, gwauf, ls => (ls.map (·.tp), tpakt, gwauf)
  | _ + 1, _, _, tpakt, gwauf, [] => ([], tpakt, gwauf)
  | cnt + 1, i, weffrest, tpakt, gwauf, l :: ls =>
    let wr := weffrest - l.wueff * l.wudich
    let tr := trest dz l
    let ls' := if 0 < tr ∧ Conv.ofNat i < minv then addShare tr wr cnt ls else ls
    let t := clamp0 (l.tp - tr)
    let fi : α := Conv.ofNat i
    let gw := if fi < grw ∨ grw < fi then gwauf else t      -- float64(i) == GRW
    let r := redist dz minv grw cnt (i + 1) wr (tpakt + t) gw ls'
    (t :: r.1, r.2.1, r.2.2)

/-- The partition part of one call of `Evatra`. -/
def partition (i : In α) : Out α :=
  let n := i.wg.length
  let wg0 := i.wg.headD 0
  let wmin0 := i.wmin.headD 0
  let rd := redev (proz wg0 i.regen i.dz wmin0 i.w0)
  let nf := nfk i.regen i.dz i.wg i.wmin i.wnor
  let cs := capSplit i.crop i.verdu0 i.elai
  let verdu := cs.1
  let evmax := cs.2.1
  let tramax := cs.2.2
  let eva := evmax * rd - i.regen
  let eta := evmax * rd
  let ev := evDist eva i.dt n (evVar i.wg i.wmin i.expc)
  let fluss0 := -eva
  if i.crop then
    let lays := mkLays i.wurz i.grw 1 i.wg i.wmin nf i.wudich
    let weff := weffSum i.wurz lays
    let lr := lured i
    let minv := minRootGw i.wurz i.grw
    let l0 := tpInit tramax weff lr.1 minv 1 lays
    let r := redist i.dz minv i.grw (Conv.truncNat minv) 1 weff 0 0 l0
    let tpakt := r.2.1
    let etrel0 := if 0 < verdu then (tpakt + eta) / verdu else 1
    { verdu, evmax, tramax, redev := rd, eta, eva, fluss0, ev, nfk := nf, tp0 := l0.map (·.tp), tp := r.1,
      tpakt, gwauf := r.2.2, lured := lr.1, lumday := lr.2,
      etrel := if 1 < etrel0 then 1 else etrel0,
      trrel := if 0 < tramax then tpakt / tramax else i.trrelPrev, wurz := i.wurz }
  else
    { verdu, evmax, tramax, redev := rd, eta, eva, fluss0, ev, nfk := nf, tp0 := List.replicate n 0,
      tp := List.replicate n 0, tpakt := 0, gwauf := 0, lured := 1, lumday := i.lumday,
      etrel := i.etrelPrev, trrel := 1, wurz := 0 }

end
end Hermes.Evatra
