/-
Lemmas about the model of the automatic-fertilisation branch (HermesModel/AutoFert.lean) over ℚ:
the dose, the sums, which application a call makes (`flag`), counting over the days of a rotation entry.
-/
import HermesModel.AutoFert
import HermesProofs.RatInst
import Mathlib.Tactic.Linarith
import Mathlib.Tactic.NormNum

namespace Hermes.AutoFert
open Hermes.Rotation (autoN fmax)

/-! ### the dose -/

theorem autoN_nonneg (ndem nmin : ℚ) : 0 ≤ autoN ndem nmin := by
  unfold autoN fmax; split
  · exact le_refl _
  · rename_i h; linarith

theorem autoN_le (ndem nmin : ℚ) (hd : 0 ≤ ndem) (hn : 0 ≤ nmin) : autoN ndem nmin ≤ ndem := by
  unfold autoN fmax; split
  · exact hd
  · linarith

theorem sumFrom_nonneg : ∀ (l : List ℚ) (z : ℚ), 0 ≤ z → (∀ x ∈ l, 0 ≤ x) → 0 ≤ sumFrom z l
  | [], z, hz, _ => by simpa [sumFrom] using hz
  | x :: xs, z, hz, h => by
    simp only [sumFrom]
    apply sumFrom_nonneg xs
    · have := h x (by simp); linarith
    · intro y hy; exact h y (by simp [hy])

theorem nminTop_nonneg (k : Nat) (c : ℚ) (rest : List ℚ) (hc : 0 ≤ c) (hr : ∀ x ∈ rest, 0 ≤ x) :
    0 ≤ nminTop k c rest := by
  unfold nminTop
  apply sumFrom_nonneg _ _ (le_refl _)
  intro x hx
  have := List.mem_of_mem_take hx
  rcases List.mem_cons.mp this with h | h
  · rw [h]; exact hc
  · exact hr x h

theorem clamp0_nonneg (x : ℚ) : 0 ≤ clamp0 x := by
  unfold clamp0; split
  · exact le_refl _
  · rename_i h; exact not_lt.mp h

theorem clamp0_ge (x : ℚ) : x ≤ clamp0 x := by
  unfold clamp0; split
  · rename_i h; exact le_of_lt h
  · exact le_refl _

theorem clamp0_of_nonneg (x : ℚ) (h : 0 ≤ x) : clamp0 x = x := by
  unfold clamp0; rw [if_neg (not_lt.mpr h)]

theorem c10S_nonneg (i : In ℚ) (b : Bool) (c : ℚ) (h : 0 ≤ c) : 0 ≤ c10S i b c := by
  unfold c10S; split
  · exact clamp0_nonneg _
  · exact h

theorem c10After_nonneg (i : In ℚ) (s : St ℚ) (h : 0 ≤ s.c10) : 0 ≤ c10After i s := c10S_nonneg i _ _ h

theorem addIf_ge (b : Bool) (x y : ℚ) (h : 0 ≤ y) : x ≤ addIf b x y := by
  unfold addIf; split <;> linarith

theorem addIf_eq (b : Bool) (x y : ℚ) : addIf b x y = x + (if b then y else 0) := by
  unfold addIf; split <;> simp

/-! ### which applications one call makes -/

/-- the trigger of each kind of application in one call -/
def flag (k : Kind) (i : In ℚ) (s : St ℚ) : Bool :=
  match k with
  | .orgH => trigH i
  | .orgS => firesS i s
  | .min1 => sown i && fire1 i s.ndoy1
  | .min2 => sown i && fireK i s.ndoy2
  | .min3 => sown i && fireK i s.ndoy3

def b2n (b : Bool) : Nat := if b then 1 else 0

theorem mem_opt {β : Type} (b : Bool) (x a : β) : a ∈ opt b x ↔ b = true ∧ a = x := by
  unfold opt; cases b <;> simp

/-- an application of kind `k` is in the list of a call iff its trigger holds -/
theorem mem_step_kind (i : In ℚ) (s : St ℚ) (a : App ℚ) (h : a ∈ (step i s).2) : flag a.kind i s = true := by
  simp only [step, List.mem_append, mem_opt] at h
  rcases h with (((h | h) | h) | h) | h <;> obtain ⟨hb, rfl⟩ := h <;> simpa [flag] using hb

/-- the five applications a call can make -/
theorem mem_step_cases (i : In ℚ) (s : St ℚ) (a : App ℚ) (h : a ∈ (step i s).2) :
    a = ⟨Kind.orgH, i.prev.ndir, i.prev.nsas, i.prev.nlas, i.prev.dgart⟩ ∨
    a = ⟨Kind.orgS, i.cur.ndir, i.cur.nsas, i.cur.nlas, i.cur.dgart⟩ ∨
    a = ⟨Kind.min1, dose1 i s, 0, 0, dungAfter i s⟩ ∨ a = ⟨Kind.min2, dose2 i s, 0, 0, dungAfter i s⟩ ∨
    a = ⟨Kind.min3, dose3 i s, 0, 0, dungAfter i s⟩ := by
  simp only [step, List.mem_append, mem_opt] at h
  rcases h with (((h | h) | h) | h) | h
  · exact Or.inl h.2
  · exact Or.inr (Or.inl h.2)
  · exact Or.inr (Or.inr (Or.inl h.2))
  · exact Or.inr (Or.inr (Or.inr (Or.inl h.2)))
  · exact Or.inr (Or.inr (Or.inr (Or.inr h.2)))

theorem fired_map_step (k : Kind) (z : Nat) (i : In ℚ) (s : St ℚ) :
    fired k ((step i s).2.map (fun a => (z, a))) = b2n (flag k i s) := by
  simp only [step, fired, flag]
  generalize trigH i = fH
  generalize firesS i s = tS
  generalize sown i = g
  generalize fire1 i s.ndoy1 = t1
  generalize fireK i s.ndoy2 = t2
  generalize fireK i s.ndoy3 = t3
  cases k <;> cases fH <;> cases g <;> cases tS <;> cases t1 <;> cases t2 <;> cases t3 <;> rfl

theorem fired_append (k : Kind) (a b : List (Nat × App ℚ)) : fired k (a ++ b) = fired k a + fired k b := by
  simp [fired, List.countP_append]

theorem fired_run_cons (k : Kind) (zeit : Nat) (d : In ℚ) (ds : List (In ℚ)) (s : St ℚ) :
    fired k (run zeit (d :: ds) s).2 =
      b2n (flag k { d with zeit := zeit } s) + fired k (run (zeit + 1) ds (step { d with zeit := zeit } s).1).2 := by
  simp only [run, fired_append, fired_map_step]

@[simp] theorem fired_run_nil (k : Kind) (zeit : Nat) (s : St ℚ) : fired k (run zeit ([] : List (In ℚ)) s).2 = 0 := by
  simp [run, fired]

/-! ### the state a call leaves -/

theorem step_ndoy1 (i : In ℚ) (s : St ℚ) :
    (step i s).1.ndoy1 = if flag .min1 i s then rearm1 s.ndoy1 else s.ndoy1 := rfl
theorem step_ndoy2 (i : In ℚ) (s : St ℚ) :
    (step i s).1.ndoy2 = if flag .min2 i s then rearmK s.ndoy2 else s.ndoy2 := rfl
theorem step_ndoy3 (i : In ℚ) (s : St ℚ) :
    (step i s).1.ndoy3 = if flag .min3 i s then rearmK s.ndoy3 else s.ndoy3 := rfl
theorem step_ztdg (i : In ℚ) (s : St ℚ) :
    (step i s).1.ztdg = if sown i then ztdgS i s.ztdg else s.ztdg := rfl

/-! ### SAAT of the current entry does not move once it is set -/

/-- `Stable sa ds`: once the sowing day is known (`sa > 0`) every later day of the entry sees the same one
(the sowing block of run.go only writes `SAAT[AKF]` while it is 0) -/
def Stable : Nat → List (In ℚ) → Prop
  | _, [] => True
  | sa, d :: ds => (0 < sa → d.saat = sa) ∧ Stable d.saat ds

/-- the day of the year goes up by one from day to day (no turn of the year inside the list) -/
def TagsAscend : Nat → List (In ℚ) → Prop
  | _, [] => True
  | t, d :: ds => d.tag = t ∧ TagsAscend (t + 1) ds

/-! ### dose 1: at most once per rotation entry -/

/-- after the sowing day has passed, a dose 1 armed with `NDOY1 = 0` never fires -/
theorem dose1_after_sowing : ∀ (ds : List (In ℚ)) (zeit sa : Nat) (s : St ℚ),
    s.ndoy1 = 0 → 0 < sa → sa < zeit → Stable sa ds → fired .min1 (run zeit ds s).2 = 0
  | [], _, _, _, _, _, _, _ => by simp
  | d :: ds, zeit, sa, s, h0, hsa, hlt, hst => by
    obtain ⟨h1, h2⟩ := hst
    have hd : d.saat = sa := h1 hsa
    have hf : flag .min1 { d with zeit := zeit } s = false := by
      have hne : ¬ zeit = d.saat := by omega
      simp [flag, fire1, h0, hne]
    rw [fired_run_cons, hf]
    have hn : (step { d with zeit := zeit } s).1.ndoy1 = 0 := by rw [step_ndoy1, hf]; simpa using h0
    simp only [b2n, Bool.false_eq_true, if_false, Nat.zero_add]
    exact dose1_after_sowing ds (zeit + 1) d.saat _ hn (by omega) (by omega) h2

/-- a dose 1 armed with `NDOY1 = 0` fires at most once (on the sowing day) -/
theorem dose1_sowing_once : ∀ (ds : List (In ℚ)) (zeit sa : Nat) (s : St ℚ),
    s.ndoy1 = 0 → Stable sa ds → fired .min1 (run zeit ds s).2 ≤ 1
  | [], _, _, _, _, _ => by simp
  | d :: ds, zeit, sa, s, h0, hst => by
    obtain ⟨_, h2⟩ := hst
    rw [fired_run_cons]
    have hn : (step { d with zeit := zeit } s).1.ndoy1 = 0 := by
      rw [step_ndoy1]; split <;> simp [rearm1, h0]
    by_cases hf : flag .min1 { d with zeit := zeit } s = true
    · have hs : (0 < d.saat ∧ d.saat ≤ zeit) := by
        simp only [flag, sown, Bool.and_eq_true, decide_eq_true_eq] at hf
        exact hf.1
      have hz : zeit = d.saat := by
        simp only [flag, fire1, h0, Bool.and_eq_true] at hf
        simpa using hf.2
      have := dose1_after_sowing ds (zeit + 1) d.saat _ hn hs.1 (by omega) h2
      rw [this, hf]; simp [b2n]
    · have hf' : flag .min1 { d with zeit := zeit } s = false := by simpa using hf
      rw [hf']
      simp only [b2n, Bool.false_eq_true, if_false, Nat.zero_add]
      exact dose1_sowing_once ds (zeit + 1) d.saat _ hn h2

/-- a dose 1 re-armed with 370 (or configured with a day of the year ≥ 365) never fires -/
theorem dose1_spent : ∀ (ds : List (In ℚ)) (zeit : Nat) (s : St ℚ),
    365 ≤ s.ndoy1 → fired .min1 (run zeit ds s).2 = 0
  | [], _, _, _ => by simp
  | d :: ds, zeit, s, h => by
    have h10 : ¬ s.ndoy1 < 10 := by omega
    have h365 : ¬ s.ndoy1 < 365 := by omega
    have hf : flag .min1 { d with zeit := zeit } s = false := by
      simp [flag, fire1, h10, h365]
    rw [fired_run_cons, hf]
    have hn : (step { d with zeit := zeit } s).1.ndoy1 = s.ndoy1 := by rw [step_ndoy1, hf]; simp
    simp only [b2n, Bool.false_eq_true, if_false, Nat.zero_add]
    exact dose1_spent ds (zeit + 1) _ (by omega)

/-- dose 1 of a rotation entry is applied at most once, whatever its trigger -/
theorem dose1_once : ∀ (ds : List (In ℚ)) (zeit sa : Nat) (s : St ℚ),
    Stable sa ds → fired .min1 (run zeit ds s).2 ≤ 1
  | [], _, _, _, _ => by simp
  | d :: ds, zeit, sa, s, hst => by
    by_cases h0 : s.ndoy1 = 0
    · exact dose1_sowing_once (d :: ds) zeit sa s h0 hst
    obtain ⟨_, h2⟩ := hst
    rw [fired_run_cons]
    by_cases hf : flag .min1 { d with zeit := zeit } s = true
    · rw [hf]
      have hs : (0 < d.saat ∧ d.saat ≤ zeit) := by
        simp only [flag, sown, Bool.and_eq_true, decide_eq_true_eq] at hf
        exact hf.1
      by_cases h10 : s.ndoy1 < 10
      · have hn : (step { d with zeit := zeit } s).1.ndoy1 = 0 := by rw [step_ndoy1, hf]; simp [rearm1, h10]
        have := dose1_after_sowing ds (zeit + 1) d.saat _ hn hs.1 (by omega) h2
        rw [this]; simp [b2n]
      · have hn : (step { d with zeit := zeit } s).1.ndoy1 = 370 := by rw [step_ndoy1, hf]; simp [rearm1, h10]
        have := dose1_spent ds (zeit + 1) _ (by rw [hn]; omega)
        rw [this]; simp [b2n]
    · have hf' : flag .min1 { d with zeit := zeit } s = false := by simpa using hf
      rw [hf']
      simp only [b2n, Bool.false_eq_true, if_false, Nat.zero_add]
      exact dose1_once ds (zeit + 1) d.saat _ h2

/-! ### doses 2 and 3 -/

/-- the part of the state and of the trigger that belongs to dose `k` (2 or 3) -/
structure DoseK where
  kind : Kind
  get : St ℚ → Nat
  hflag : ∀ i s, flag kind i s = (sown i && fireK i (get s))
  hstep : ∀ i s, get (step i s).1 = if flag kind i s then rearmK (get s) else get s

def doseK2 : DoseK := ⟨.min2, St.ndoy2, fun _ _ => rfl, step_ndoy2⟩
def doseK3 : DoseK := ⟨.min3, St.ndoy3, fun _ _ => rfl, step_ndoy3⟩

/-- `HasStage zeit ds`: on every day on which the entry is sown (`0 < SAAT ≤ day`) the crop has a development
stage — `PhytoOut`, called from the sowing day to the latest harvest date before `Nitro`, sets stage 1 on the sowing
day (crop.go:94,101) and only raises it; the harvest step resets it together with the switch to the next entry -/
def HasStage : Nat → List (In ℚ) → Prop
  | _, [] => True
  | z, d :: ds => (0 < d.saat → d.saat ≤ z → d.intwick ≠ 0) ∧ HasStage (z + 1) ds

/-- a spent stage-triggered dose (`NDOYk = 0`) does not fire while the sown crop has a stage -/
theorem doseK_spent (D : DoseK) : ∀ (ds : List (In ℚ)) (zeit : Nat) (s : St ℚ),
    D.get s = 0 → HasStage zeit ds → fired D.kind (run zeit ds s).2 = 0
  | [], _, _, _, _ => by simp
  | d :: ds, zeit, s, h0, hi => by
    obtain ⟨hd, hi'⟩ := hi
    have hf : flag D.kind { d with zeit := zeit } s = false := by
      rw [D.hflag]
      by_cases hs : 0 < d.saat ∧ d.saat ≤ zeit
      · have := hd hs.1 hs.2
        simp [fireK, h0, this]
      · have : sown { d with zeit := zeit } = false := by
          simp only [sown, Bool.and_eq_false_iff, decide_eq_false_iff_not]
          by_cases h1 : 0 < d.saat
          · right; intro h2; exact hs ⟨h1, h2⟩
          · left; exact h1
        simp [this]
    rw [fired_run_cons, hf]
    have hn : D.get (step { d with zeit := zeit } s).1 = 0 := by rw [D.hstep, hf]; simpa using h0
    simp only [b2n, Bool.false_eq_true, if_false, Nat.zero_add]
    exact doseK_spent D ds (zeit + 1) _ hn hi'

/-- a stage-triggered dose 2 / 3 is applied at most once per rotation entry -/
theorem doseK_stage_once (D : DoseK) : ∀ (ds : List (In ℚ)) (zeit : Nat) (s : St ℚ),
    D.get s < 10 → HasStage zeit ds → fired D.kind (run zeit ds s).2 ≤ 1
  | [], _, _, _, _ => by simp
  | d :: ds, zeit, s, h10, hi => by
    rw [fired_run_cons]
    have hi' : HasStage (zeit + 1) ds := hi.2
    by_cases hf : flag D.kind { d with zeit := zeit } s = true
    · have hn : D.get (step { d with zeit := zeit } s).1 = 0 := by rw [D.hstep, hf]; simp [rearmK, h10]
      rw [doseK_spent D ds (zeit + 1) _ hn hi', hf]; simp [b2n]
    · have hf' : flag D.kind { d with zeit := zeit } s = false := by simpa using hf
      have hn : D.get (step { d with zeit := zeit } s).1 = D.get s := by rw [D.hstep, hf']; simp
      rw [hf']
      simp only [b2n, Bool.false_eq_true, if_false, Nat.zero_add]
      exact doseK_stage_once D ds (zeit + 1) _ (by rw [hn]; exact h10) hi'

/-- a day-of-year dose 2 / 3 whose day has passed in the current year does not fire again before the turn of the year -/
theorem doseK_doy_passed (D : DoseK) : ∀ (ds : List (In ℚ)) (zeit t : Nat) (s : St ℚ),
    10 ≤ D.get s → D.get s < t → TagsAscend t ds → fired D.kind (run zeit ds s).2 = 0
  | [], _, _, _, _, _, _ => by simp
  | d :: ds, zeit, t, s, h10, hlt, hta => by
    obtain ⟨ht, hta'⟩ := hta
    have h10' : ¬ D.get s < 10 := by omega
    have hne : ¬ d.tag = D.get s := by omega
    have hf : flag D.kind { d with zeit := zeit } s = false := by
      rw [D.hflag]; simp [fireK, h10', hne]
    rw [fired_run_cons, hf]
    have hn : D.get (step { d with zeit := zeit } s).1 = D.get s := by rw [D.hstep, hf]; simp
    simp only [b2n, Bool.false_eq_true, if_false, Nat.zero_add]
    exact doseK_doy_passed D ds (zeit + 1) (t + 1) _ (by rw [hn]; exact h10) (by rw [hn]; omega) hta'

/-- a day-of-year dose 2 / 3 is applied at most once in a calendar year -/
theorem doseK_doy_once (D : DoseK) : ∀ (ds : List (In ℚ)) (zeit t : Nat) (s : St ℚ),
    10 ≤ D.get s → TagsAscend t ds → fired D.kind (run zeit ds s).2 ≤ 1
  | [], _, _, _, _, _ => by simp
  | d :: ds, zeit, t, s, h10, hta => by
    obtain ⟨ht, hta'⟩ := hta
    have h10' : ¬ D.get s < 10 := by omega
    rw [fired_run_cons]
    by_cases hf : flag D.kind { d with zeit := zeit } s = true
    · have hn : D.get (step { d with zeit := zeit } s).1 = D.get s := by rw [D.hstep, hf]; simp [rearmK, h10']
      have htag : d.tag = D.get s := by
        rw [D.hflag] at hf
        simp only [Bool.and_eq_true, fireK, h10', if_false, decide_eq_true_eq] at hf
        exact hf.2
      have := doseK_doy_passed D ds (zeit + 1) (t + 1) _ (by rw [hn]; exact h10) (by rw [hn]; omega) hta'
      rw [this, hf]; simp [b2n]
    · have hf' : flag D.kind { d with zeit := zeit } s = false := by simpa using hf
      have hn : D.get (step { d with zeit := zeit } s).1 = D.get s := by rw [D.hstep, hf']; simp
      rw [hf']
      simp only [b2n, Bool.false_eq_true, if_false, Nat.zero_add]
      exact doseK_doy_once D ds (zeit + 1) (t + 1) _ (by rw [hn]; exact h10) hta'

/-! ### organic fertiliser -/

/-- the organic fertiliser of the previous entry ("H"): once, on the day `ZTDG[AKF-1]`, when that day is one of
the days of the list -/
theorem orgH_count : ∀ (ds : List (In ℚ)) (zeit z : Nat) (s : St ℚ),
    (∀ d ∈ ds, 1 ≤ d.akf ∧ d.prev.odu = true ∧ d.prev.orgtime = OrgTime.H ∧ d.ztdgPrev = z) →
    fired .orgH (run zeit ds s).2 = if zeit ≤ z ∧ z < zeit + ds.length then 1 else 0
  | [], zeit, z, _, _ => by
    simp
  | d :: ds, zeit, z, s, h => by
    obtain ⟨ha, ho, ht, hz⟩ := h d (by simp)
    rw [fired_run_cons, orgH_count ds (zeit + 1) z _ (fun x hx => h x (by simp [hx]))]
    have hf : flag .orgH { d with zeit := zeit } s = decide (zeit = z) := by
      simp [flag, trigH, ha, ho, ht, hz]
    rw [hf]
    simp only [List.length_cons, b2n, decide_eq_true_eq]
    by_cases h1 : zeit = z
    · have c1 : zeit ≤ z ∧ z < zeit + (ds.length + 1) := by omega
      have c2 : ¬ (zeit + 1 ≤ z ∧ z < zeit + 1 + ds.length) := by omega
      simp [h1]
    · by_cases h2 : zeit + 1 ≤ z ∧ z < zeit + 1 + ds.length
      · have c1 : zeit ≤ z ∧ z < zeit + (ds.length + 1) := by omega
        simp [h1, h2, c1]
      · have c1 : ¬ (zeit ≤ z ∧ z < zeit + (ds.length + 1)) := by omega
        simp [h1, h2, c1]

/-- the "S" application is never made for an entry whose time code is not "S" -/
theorem orgS_never : ∀ (ds : List (In ℚ)) (zeit : Nat) (s : St ℚ),
    (∀ d ∈ ds, d.cur.orgtime ≠ OrgTime.S) → fired .orgS (run zeit ds s).2 = 0
  | [], _, _, _ => by simp
  | d :: ds, zeit, s, h => by
    have hd := h d (by simp)
    have hf : flag .orgS { d with zeit := zeit } s = false := by
      simp [flag, firesS, trigS, condS, hd]
    rw [fired_run_cons, hf]
    simp only [b2n, Bool.false_eq_true, if_false, Nat.zero_add]
    exact orgS_never ds (zeit + 1) _ (fun x hx => h x (by simp [hx]))

/-- after the day `ZTDG[AKF]` has passed and the sowing day too, the "S" application is not made (again) -/
theorem orgS_passed : ∀ (ds : List (In ℚ)) (zeit sa : Nat) (s : St ℚ),
    0 < sa → sa < zeit → s.ztdg < zeit → Stable sa ds → fired .orgS (run zeit ds s).2 = 0
  | [], _, _, _, _, _, _, _ => by simp
  | d :: ds, zeit, sa, s, hsa, hlt, hz, hst => by
    obtain ⟨h1, h2⟩ := hst
    have hd : d.saat = sa := h1 hsa
    have hne : ¬ zeit = d.saat := by omega
    have hzs : ztdgS { d with zeit := zeit } s.ztdg = s.ztdg := by simp [ztdgS, hne]
    have hf : flag .orgS { d with zeit := zeit } s = false := by
      have : ¬ zeit = s.ztdg := by omega
      simp [flag, firesS, trigS, hzs, this]
    rw [fired_run_cons, hf]
    have hn : (step { d with zeit := zeit } s).1.ztdg = s.ztdg := by
      rw [step_ztdg]; split
      · exact hzs
      · rfl
    simp only [b2n, Bool.false_eq_true, if_false, Nat.zero_add]
    exact orgS_passed ds (zeit + 1) d.saat _ (by omega) (by omega) (by rw [hn]; omega) h2

/-- the "S" application of a rotation entry is made at most once -/
theorem orgS_once : ∀ (ds : List (In ℚ)) (zeit sa : Nat) (s : St ℚ),
    Stable sa ds → fired .orgS (run zeit ds s).2 ≤ 1
  | [], _, _, _, _ => by simp
  | d :: ds, zeit, sa, s, hst => by
    obtain ⟨_, h2⟩ := hst
    rw [fired_run_cons]
    by_cases hf : flag .orgS { d with zeit := zeit } s = true
    · rw [hf]
      simp only [flag, firesS, sown, trigS, Bool.and_eq_true, decide_eq_true_eq] at hf
      obtain ⟨⟨hs0, hs1⟩, _, hz⟩ := hf
      have hg : sown { d with zeit := zeit } = true := by simp [sown, hs0, hs1]
      have hn : (step { d with zeit := zeit } s).1.ztdg = zeit := by
        rw [step_ztdg, hg]; simpa using hz.symm
      have := orgS_passed ds (zeit + 1) d.saat _ hs0 (by omega) (by rw [hn]; omega) h2
      rw [this]; simp [b2n]
    · have hf' : flag .orgS { d with zeit := zeit } s = false := by simpa using hf
      rw [hf']
      simp only [b2n, Bool.false_eq_true, if_false, Nat.zero_add]
      exact orgS_once ds (zeit + 1) d.saat _ h2

/-- the sowing day has passed, `ZTDG[AKF]` lies ahead inside the list: the "S" application is made exactly once -/
theorem orgS_pending : ∀ (ds : List (In ℚ)) (zeit sa z : Nat) (c : Row ℚ) (s : St ℚ),
    c.odu = true → c.orgtime = OrgTime.S → 0 < sa → sa < zeit → s.ztdg = z → zeit ≤ z → z < zeit + ds.length →
    Stable sa ds → (∀ x ∈ ds, x.cur = c) → fired .orgS (run zeit ds s).2 = 1
  | [], zeit, _, z, _, _, _, _, _, _, _, h1, h2, _, _ => by simp at h2; omega
  | d :: ds, zeit, sa, z, c, s, ho, hc, hsa, hlt, hz, h1, h2, hst, hcur => by
    subst hz
    obtain ⟨hs1, hs2⟩ := hst
    have hd : d.saat = sa := hs1 hsa
    have hdc : d.cur = c := hcur d (by simp)
    have ho' : d.cur.odu = true := by rw [hdc]; exact ho
    have hc' : d.cur.orgtime = OrgTime.S := by rw [hdc]; exact hc
    have hne : ¬ zeit = d.saat := by omega
    have hzs : ztdgS { d with zeit := zeit } s.ztdg = s.ztdg := by simp [ztdgS, hne]
    have hg : sown { d with zeit := zeit } = true := by
      simp only [sown, Bool.and_eq_true, decide_eq_true_eq]; omega
    have hf : flag .orgS { d with zeit := zeit } s = decide (zeit = s.ztdg) := by
      simp only [flag, firesS, trigS, condS, hg, hzs, ho', hc']; simp
    have hn : (step { d with zeit := zeit } s).1.ztdg = s.ztdg := by rw [step_ztdg, hg]; simp [hzs]
    rw [fired_run_cons, hf]
    by_cases he : zeit = s.ztdg
    · have := orgS_passed ds (zeit + 1) d.saat _ (by omega) (by omega) (by rw [hn]; omega) hs2
      rw [this]; simp [b2n, he]
    · have := orgS_pending ds (zeit + 1) d.saat s.ztdg c _ ho hc (by omega) (by omega) hn (by omega)
        (by simp only [List.length_cons] at h2; omega) hs2 (fun x hx => hcur x (by simp [hx]))
      rw [this]; simp [b2n, he]

/-- an entry with organic fertiliser and time code "S", sown on the first day of the list: exactly one application
when the list reaches sowing day + ORGDOY -/
theorem orgS_exactly_once (d : In ℚ) (ds : List (In ℚ)) (zeit : Nat) (s : St ℚ)
    (ho : d.cur.odu = true) (hc : d.cur.orgtime = OrgTime.S) (hs : d.saat = zeit) (hz : 0 < zeit)
    (hst : Stable 0 (d :: ds)) (hsame : ∀ x ∈ ds, x.cur = d.cur) (hlen : d.cur.orgdoy ≤ ds.length) :
    fired .orgS (run zeit (d :: ds) s).2 = 1 := by
  obtain ⟨_, hs2⟩ := hst
  have hg : sown { d with zeit := zeit } = true := by
    simp only [sown, Bool.and_eq_true, decide_eq_true_eq]; omega
  have hzs : ztdgS { d with zeit := zeit } s.ztdg = zeit + d.cur.orgdoy := by
    simp [ztdgS, condS, ho, hc, hs]
  have hf : flag .orgS { d with zeit := zeit } s = decide (d.cur.orgdoy = 0) := by
    simp only [flag, firesS, trigS, condS, hg, hzs, ho, hc]; simp
  have hn : (step { d with zeit := zeit } s).1.ztdg = zeit + d.cur.orgdoy := by rw [step_ztdg, hg]; simp [hzs]
  rw [fired_run_cons, hf]
  by_cases h0 : d.cur.orgdoy = 0
  · have := orgS_passed ds (zeit + 1) d.saat _ (by omega) (by omega) (by rw [hn]; omega) hs2
    rw [this]; simp [b2n, h0]
  · have := orgS_pending ds (zeit + 1) d.saat (zeit + d.cur.orgdoy) d.cur _ ho hc (by omega) (by omega) hn (by omega)
      (by omega) hs2 hsame
    rw [this]; simp [b2n, h0]

/-! ### demand, sums over the applications of a call, statements lifted to the days of an entry -/

/-- the configured demand a mineral dose is measured against -/
def demand (i : In ℚ) : Kind → ℚ
  | .min1 => i.cur.ndem1
  | .min2 => i.cur.ndem2
  | .min3 => i.cur.ndem3
  | _ => 0

def Kind.isMineral : Kind → Bool
  | .min1 | .min2 | .min3 => true
  | _ => false

/-- sum of the mineral N of the applications whose kind satisfies `p` -/
def sumAmount (p : Kind → Bool) (l : List (App ℚ)) : ℚ := ((l.filter (fun a => p a.kind)).map (·.amount)).sum
def sumFast (l : List (App ℚ)) : ℚ := (l.map (·.fast)).sum
def sumSlow (l : List (App ℚ)) : ℚ := (l.map (·.slow)).sum

/-- a statement about every application of every call holds for every application of a run -/
theorem run_forall (P : App ℚ → Prop) (h : ∀ (i : In ℚ) (s : St ℚ) (a : App ℚ), a ∈ (step i s).2 → P a) :
    ∀ (ds : List (In ℚ)) (zeit : Nat) (s : St ℚ) (x : Nat × App ℚ), x ∈ (run zeit ds s).2 → P x.2
  | [], _, _, x, hx => by simp [run] at hx
  | d :: ds, zeit, s, x, hx => by
    simp only [run, List.mem_append, List.mem_map] at hx
    rcases hx with ⟨a, ha, rfl⟩ | hx
    · exact h _ _ a ha
    · exact run_forall P h ds (zeit + 1) _ x hx

/-- a monotone quantity of the state: never lowered by a call, hence by a run -/
theorem run_mono (f : St ℚ → ℚ) (ok : In ℚ → Prop) (h : ∀ (i : In ℚ) (s : St ℚ), ok i → f s ≤ f (step i s).1)
    (hz : ∀ (d : In ℚ) (z : Nat), ok d → ok { d with zeit := z }) :
    ∀ (ds : List (In ℚ)) (zeit : Nat) (s : St ℚ), (∀ d ∈ ds, ok d) → f s ≤ f (run zeit ds s).1
  | [], _, _, _ => by simp [run]
  | d :: ds, zeit, s, hd => by
    simp only [run]
    exact le_trans (h _ s (hz d zeit (hd d (by simp)))) (run_mono f ok h hz ds (zeit + 1) _ (fun x hx => hd x (by simp [hx])))

end Hermes.AutoFert
