/-
Refinement of the regenerated translation of `hermes.Water` — part G: the capillary-rise stage (top6-top9) is the model's
`phaseCapillary`.
-/
import HermesProofs.ImpWaterF

namespace Hermes.ImpWater
open Hermes.Imp Hermes.Water
open Hermes.ImpSoiltemp (vw vw_length vw_getElem rd_wr_nat getD_of_lt vw_getD)
open Hermes.Generated.Imp.Water

/-- the search of the receiving layer (top6-top8) -/
theorem stage4a (m : MathFns ℚ) (t : St ℚ) (N : Nat) (hN : t.g_N = (N : Int)) :
    top8 m (top7 m (top6 m t)) = { t with v_caplay := ((deepest t N : Nat) : Int), v_capdep := 1 } := by
  obtain ⟨c, e, hc⟩ := loop9_spec m N { t with v_caplay := 0, v_capdep := 1 }
  have hl : loopDown noBrk t.g_N 1 (loop9 m) { t with v_caplay := 0, v_capdep := 1 }
      = loopDownN noBrk (loop9 m) N (N : Int) { t with v_caplay := 0, v_capdep := 1 } := by
    unfold loopDown
    rw [hN]
    have : ((N : Int) - 1 + 1).toNat = N := by omega
    rw [this]
  simp only [top6, top7, top8]
  rw [hl, e, hc]
  simp only [if_true]
  rw [deepest_congr t { t with v_caplay := 0, v_capdep := 1 } rfl N]

/-- the capillary-rise amount of the model, from the state -/
noncomputable def riseOf (t : St ℚ) (N : Nat) : Option ℚ :=
  capRise t.g_DZ_Num t.p_wdt t.g_GRW (vw t.g_CAPS 21) (deepest t N)

/-- **Stage 4** (top6-top9): the capillary rise is the model's `phaseCapillary`. -/
theorem stage4 (m : MathFns ℚ) (hm : MathOK m) (t : St ℚ) (N : Nat) (hN : t.g_N = (N : Int)) (hpos : 1 ≤ N)
    (lW1 : N + 1 ≤ t.v_WATER_1.length) (lQ : N + 1 ≤ t.g_Q1.length) :
    ∃ A Q cl gd gi, top9 m (top8 m (top7 m (top6 m t)))
        = { t with v_caplay := cl, v_capdep := 1, v_GWDIST := gd, v_GWDISTindex := gi, v_WATER_1 := A, g_Q1 := Q } ∧
      A.length = t.v_WATER_1.length ∧ Q.length = t.g_Q1.length ∧
      (vw A N, qsOf Q N) = (match riseOf t N with
        | some c => (addAt (deepest t N - 1) c (vw t.v_WATER_1 N), subFrom (deepest t N - 1) c (qsOf t.g_Q1 N))
        | none => (vw t.v_WATER_1 N, qsOf t.g_Q1 N)) ∧
      rd A (N : Int) = rd t.v_WATER_1 (N : Int) ∧ rd Q 0 = rd t.g_Q1 0 := by
  rw [stage4a m t N hN]
  have h0 : (0.0 : ℚ) = 0 := by norm_num
  have h1 : (1.0 : ℚ) = 1 := by norm_num
  have h21 : (21.0 : ℚ) = 21 := by norm_num
  set D := deepest t N with hD
  have hDle : D ≤ N := deepest_le t N
  by_cases hD0 : D = 0
  · -- no layer below 70 % of the available capacity: nothing rises
    refine ⟨t.v_WATER_1, t.g_Q1, ((D : Nat) : Int), t.v_GWDIST, t.v_GWDISTindex, ?_, rfl, rfl, ?_, rfl, rfl⟩
    · have : ¬ ((0 : Int) < ((D : Nat) : Int)) := by omega
      simp only [top9, this, ↓reduceIte]
    · simp only [riseOf, ← hD, hD0, capRise, ↓reduceIte]
  · have hDpos : 0 < D := Nat.pos_of_ne_zero hD0
    have hcl : (0 : Int) < ((D : Nat) : Int) := by omega
    have eidx : ((D : Nat) : Int) - 1 = ((D - 1 : Nat) : Int) := by omega
    have hnfk : rd t.l_NFK ((D - 1 : Nat) : Int) < 0.7 := by
      have := deepest_pos t N (by rw [← hD]; exact hDpos)
      rwa [← hD] at this
    have hof : m.ofInt ((D : Nat) : Int) = (D : ℚ) := hm.ofInt_nat D
    set g0 := t.g_GRW + 1 - (D : ℚ) with hg0
    have hrise0 : riseOf t N = (if g0 < 21 then
        (if (0.9 : ℚ) < (if g0 < 0 then 0 else g0) then
          some ((vw t.g_CAPS 21).getD (Conv.roundNat (if (if g0 < 0 then 0 else g0) < 1 then 1 else (if g0 < 0 then 0 else g0)) - 1) 0 * t.g_DZ_Num * t.p_wdt)
         else none) else none) := by
      simp only [riseOf, ← hD, capRise, hD0, ↓reduceIte]
      rfl
    by_cases hlt : g0 < 21
    · set g := (if g0 < 0 then 0 else g0) with hg
      by_cases h9 : (0.9 : ℚ) < g
      · -- capillary rise into layer D, the fluxes through all boundaries below it are reduced by the same amount
        set mm := (if g < 1 then 1 else g) with hmm
        have hmm1 : 1 ≤ mm := by rw [hmm]; split <;> linarith
        have hg21 : g < 21 := by rw [hg]; split <;> linarith
        have hmm21 : mm < 21 := by rw [hmm]; split <;> linarith
        obtain ⟨hr1, hr21⟩ := roundNat_bounds mm hmm1 hmm21
        set r := (Conv.roundNat mm : Nat) with hr
        have hidx : m.toInt (m.round (m.max g 1)) - 1 = ((r - 1 : Nat) : Int) := by
          rw [hm.round_idx g h9, ← hmm, ← hr]; omega
        set c := rd t.g_CAPS ((r - 1 : Nat) : Int) * t.g_DZ_Num * t.p_wdt with hc
        have hcm : (vw t.g_CAPS 21).getD (r - 1) 0 * t.g_DZ_Num * t.p_wdt = c := by
          rw [vw_getD _ _ _ (by omega)]
        have hrise : riseOf t N = some c := by
          rw [hrise0]
          simp only [hlt, ↓reduceIte, ← hg, h9, ← hmm, ← hr, hcm]
        -- the state before the Q1 loop
        have hD1 : D - 1 < t.v_WATER_1.length := by omega
        obtain ⟨Q, e10, lQ10, p10⟩ := loop10_spec m
          { t with v_caplay := ((D : Nat) : Int), v_capdep := 1, v_GWDIST := g, v_GWDISTindex := ((r - 1 : Nat) : Int), v_WATER_1 := wr t.v_WATER_1 ((D - 1 : Nat) : Int) (rd t.v_WATER_1 ((D - 1 : Nat) : Int) + c) }
          N D hN lQ
        refine ⟨wr t.v_WATER_1 ((D - 1 : Nat) : Int) (rd t.v_WATER_1 ((D - 1 : Nat) : Int) + c), Q, ((D : Nat) : Int), g,
          ((r - 1 : Nat) : Int), ?_, by simp, by simpa using lQ10, ?_, ?_, ?_⟩
        · simp only [top9, hcl, ↓reduceIte, eidx, h0, h1, h21, hof, ← hg0, hlt, hnfk]
          by_cases hneg : g0 < 0
          · have hgv : g = 0 := by rw [hg, if_pos hneg]
            simp only [hneg, ↓reduceIte]
            rw [hgv] at h9
            norm_num at h9
          · have hgv : g = g0 := by rw [hg, if_neg hneg]
            simp only [hneg, ↓reduceIte]
            rw [← hgv]
            simp only [h9, ↓reduceIte, hidx, ← hc]
            rw [e10]
        · rw [hrise]
          simp only []
          congr 1
          · apply List.ext_getElem
            · simp [addAt_length]
            · intro j hj1 hj2
              have hj : j < N := by simpa using hj1
              rw [vw_getElem, ← getD_of_lt _ _ hj2, addAt_getD, vw_getD _ _ _ hj, vw_length, rd_wr_nat _ (D - 1) j _ hD1]
              by_cases hjd : D - 1 = j
              · subst hjd
                have : D - 1 = D - 1 ∧ D - 1 < N := ⟨rfl, hj⟩
                simp only [if_true, this, and_self]
              · have : ¬ (j = D - 1 ∧ j < N) := fun h => hjd h.1.symm
                simp only [hjd, if_false, this]
          · apply List.ext_getElem
            · simp [subFrom_length]
            · intro j hj1 hj2
              have hj : j < N := by simpa using hj1
              rw [qsOf_getElem, ← getD_of_lt _ _ hj2, subFrom_getD, getD_of_lt _ _ (by simpa using hj), qsOf_getElem, qsOf_length,
                p10 (j + 1)]
              by_cases hjd : D ≤ j + 1 ∧ j + 1 ≤ N
              · have : D - 1 ≤ j ∧ j < N := by omega
                simp only [hjd, and_self, if_true, this]
                rw [hc]
              · have : ¬ (D - 1 ≤ j ∧ j < N) := by omega
                simp only [hjd, if_false, this]
        · rw [rd_wr_nat _ (D - 1) N _ hD1]
          have : ¬ (D - 1 = N) := by omega
          simp [this]
        · have := p10 0
          simp only [Nat.cast_zero] at this
          rw [this]
          have : ¬ (D ≤ 0 ∧ 0 ≤ N) := by omega
          simp only [this, if_false]
      · -- the table reaches the layer (distance at most 0.9 dm): no rise
        have hrise : riseOf t N = none := by
          rw [hrise0]
          simp only [hlt, ↓reduceIte, ← hg, h9]
        refine ⟨t.v_WATER_1, t.g_Q1, ((D : Nat) : Int), g, t.v_GWDISTindex, ?_, rfl, rfl, ?_, rfl, rfl⟩
        · simp only [top9, hcl, ↓reduceIte, eidx, h0, h1, h21, hof, ← hg0, hlt, hnfk]
          by_cases hneg : g0 < 0
          · have hgv : g = 0 := by rw [hg, if_pos hneg]
            simp only [hneg, ↓reduceIte]
            have : ¬ ((0.9 : ℚ) < 0) := by norm_num
            simp only [this, ↓reduceIte, hgv]
          · have hgv : g = g0 := by rw [hg, if_neg hneg]
            simp only [hneg, ↓reduceIte]
            rw [← hgv]
            simp only [h9, ↓reduceIte]
        · rw [hrise]
    · -- groundwater deeper than 2.1 m below the layer: no rise
      have hrise : riseOf t N = none := by
        rw [hrise0]
        simp only [hlt, ↓reduceIte]
      refine ⟨t.v_WATER_1, t.g_Q1, ((D : Nat) : Int), g0, t.v_GWDISTindex, ?_, rfl, rfl, ?_, rfl, rfl⟩
      · simp only [top9, hcl, ↓reduceIte, eidx, h0, h1, h21, hof, ← hg0, hlt]
      · rw [hrise]

end Hermes.ImpWater
