package main

// Shared pieces of the C15 check (soil hydraulic parameters): the harness's own reading of the two
// parameter tables, bracket names for signatures, violation collection with a stable order.

import (
	"bufio"
	"fmt"
	"math"
	"os"
	"path/filepath"
	"regexp"
	"sort"
	"strings"
	"unicode"

	"verifharness/vh"
)

// hyparTextures: texture names (3 characters, upper case) of HYPAR.TRU in file order, first
// occurrence only; parcapTextures the names hermes.Input accepts (soil.go LoadValidSoilTextures).
func readTextureTables(repo string) (hypar []string, parcap map[string]bool, err error) {
	f, err := os.Open(filepath.Join(repo, "examples", "parameter", "HYPAR.TRU"))
	if err != nil {
		return nil, nil, err
	}
	sc := bufio.NewScanner(f)
	first := true
	seen := map[string]bool{}
	for sc.Scan() {
		l := sc.Text()
		if first {
			first = false
			continue
		}
		if len(l) < 33 {
			continue
		}
		n := strings.ToUpper(l[0:3])
		if !seen[n] {
			seen[n] = true
			hypar = append(hypar, n)
		}
	}
	f.Close()
	parcap = map[string]bool{}
	f, err = os.Open(filepath.Join(repo, "examples", "parameter", "PARCAP.TRU"))
	if err != nil {
		return nil, nil, err
	}
	sc = bufio.NewScanner(f)
	for sc.Scan() {
		l := sc.Text()
		if len(l) < 3 || strings.TrimSpace(l[0:3]) == "" {
			continue
		}
		ok := true
		for _, r := range l[0:3] {
			if !unicode.IsLetter(r) && !unicode.IsDigit(r) && !unicode.IsSpace(r) {
				ok = false
			}
		}
		if ok {
			parcap[strings.ToUpper(l[0:3])] = true
		}
	}
	f.Close()
	return hypar, parcap, nil
}

func texCodes(t string) string {
	for len(t) < 3 {
		t += " "
	}
	return fmt.Sprintf("%d %d %d", t[0], t[1], t[2])
}

func pad3(t string) string {
	t = strings.ToUpper(t)
	for len(t) < 3 {
		t += " "
	}
	return t
}

var corgThresholds = []float64{0.58, 1.16, 2.3, 3.5, 4.6, 5.2}
var corgBracketNames = []string{"[0,0.58]", "(0.58,1.16]", "(1.16,2.3]", "(2.3,3.5]", "(3.5,4.6]", "(4.6,5.2]", "(5.2,6]"}

func corgBracket(c float64) int {
	k := 0
	for _, t := range corgThresholds {
		if c > t {
			k++
		}
	}
	return k
}

var gwBracketNames = []string{"<8", "[8,9)", "[9,20)", "[20,30)", "[30,35]", ">35"}

func gwBracket(g float64) int {
	switch {
	case g < 8:
		return 0
	case g < 9:
		return 1
	case g < 20:
		return 2
	case g < 30:
		return 3
	case g <= 35:
		return 4
	}
	return 5
}

func cellSig(kind, tex string, ld int, corg, grw float64) string {
	return fmt.Sprintf("table:%s:tex=%s:ld=%d:corg=%s:gw=%s", kind, strings.TrimSpace(tex), ld, corgBracketNames[corgBracket(corg)], gwBracketNames[gwBracket(grw)])
}

// ---------------------------------------------------------------- violation collection

type pendingViolation struct {
	sig, what string
	replay    interface{}
	order     int
}

// violationSet collects every violation of a run (one per signature) and hands them to the shared
// result record in an order that keeps the record's cap from hiding a new kind of violation:
// signatures that are not listed in known_findings.txt first, then round-robin over the kinds
// (text before the second ':').
type violationSet struct {
	m     map[string]*pendingViolation
	count map[string]int
}

func newViolationSet() *violationSet {
	return &violationSet{m: map[string]*pendingViolation{}, count: map[string]int{}}
}

func (vs *violationSet) add(sig, what string, replay interface{}) {
	vs.count[sig]++
	if _, ok := vs.m[sig]; ok {
		return
	}
	vs.m[sig] = &pendingViolation{sig: sig, what: what, replay: replay, order: len(vs.m)}
}

func sigKind(sig string) string {
	parts := strings.SplitN(sig, ":", 3)
	if len(parts) >= 2 {
		return parts[0] + ":" + parts[1]
	}
	return sig
}

func loadKnownSignatures(verif, prop string) (exact map[string]bool, res []*regexp.Regexp) {
	exact = map[string]bool{}
	f, err := os.Open(filepath.Join(verif, "known_findings.txt"))
	if err != nil {
		return
	}
	defer f.Close()
	re := regexp.MustCompile(`^known:\s+property=(\S+)\s+signature=(\S+)\s`)
	sc := bufio.NewScanner(f)
	sc.Buffer(make([]byte, 1<<20), 1<<20)
	for sc.Scan() {
		m := re.FindStringSubmatch(strings.TrimSpace(sc.Text()) + " ")
		if m == nil || m[1] != prop {
			continue
		}
		if strings.HasPrefix(m[2], "re:") {
			if r, err := regexp.Compile("^(?:" + m[2][3:] + ")$"); err == nil {
				res = append(res, r)
			}
		} else {
			exact[m[2]] = true
		}
	}
	return
}

// flush reports to the context. All distinct signatures with their counts go to Extra.
func (vs *violationSet) flush(c *vh.Ctx) {
	exact, res := loadKnownSignatures(c.Verif, c.Prop)
	isKnown := func(sig string) bool {
		if exact[sig] {
			return true
		}
		for _, r := range res {
			if r.MatchString(sig) {
				return true
			}
		}
		return false
	}
	var unknown, known []*pendingViolation
	for _, v := range vs.m {
		if isKnown(v.sig) {
			known = append(known, v)
		} else {
			unknown = append(unknown, v)
		}
	}
	roundRobin := func(vsl []*pendingViolation) []*pendingViolation {
		sort.Slice(vsl, func(i, j int) bool { return vsl[i].sig < vsl[j].sig })
		byKind := map[string][]*pendingViolation{}
		var kinds []string
		for _, v := range vsl {
			k := sigKind(v.sig)
			if _, ok := byKind[k]; !ok {
				kinds = append(kinds, k)
			}
			byKind[k] = append(byKind[k], v)
		}
		sort.Strings(kinds)
		var out []*pendingViolation
		for len(out) < len(vsl) {
			for _, k := range kinds {
				if len(byKind[k]) > 0 {
					out = append(out, byKind[k][0])
					byKind[k] = byKind[k][1:]
				}
			}
		}
		return out
	}
	// unknown ones first; of the listed ones, one representative per known-findings entry first (that
	// is what produces the KNOWN-FINDING line), then the rest
	entryOf := func(sig string) string {
		if exact[sig] {
			return sig
		}
		for i, r := range res {
			if r.MatchString(sig) {
				return fmt.Sprintf("re#%d", i)
			}
		}
		return ""
	}
	sort.Slice(known, func(i, j int) bool { return known[i].sig < known[j].sig })
	seenEntry := map[string]bool{}
	var knownFirst, knownRest []*pendingViolation
	for _, v := range known {
		e := entryOf(v.sig)
		if !seenEntry[e] {
			seenEntry[e] = true
			knownFirst = append(knownFirst, v)
		} else {
			knownRest = append(knownRest, v)
		}
	}
	all := append(append(roundRobin(unknown), roundRobin(knownFirst)...), roundRobin(knownRest)...)
	for _, v := range all {
		c.Violate("search", v.sig, v.what, v.replay)
	}
	sigs := make([]string, 0, len(vs.m))
	for s := range vs.m {
		sigs = append(sigs, s)
	}
	sort.Strings(sigs)
	byKind := map[string]int{}
	for _, s := range sigs {
		byKind[sigKind(s)]++
	}
	c.Res.Extra["violating_signatures_total"] = len(sigs)
	c.Res.Extra["violating_signatures_not_listed"] = len(unknown)
	c.Res.Extra["violating_signatures_by_kind"] = byKind
	if len(sigs) <= 1200 {
		c.Res.Extra["violating_signatures"] = sigs
	}
}

func finiteHy(xs ...float64) bool {
	for _, x := range xs {
		if math.IsNaN(x) || math.IsInf(x, 0) {
			return false
		}
	}
	return true
}
