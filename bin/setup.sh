#!/bin/sh
# Build the framework from files on disk only (offline): fact extractor, Go harness, Lean library
# (models, lemmas, property theorems) and the model driver.
set -e
DIR="$(cd "$(dirname "$0")/.." && pwd)"
export GOWORK=off GOFLAGS=-mod=mod GOPROXY=off GOSUMDB=off GOTOOLCHAIN=local
cd "$DIR/harness"
REPO="${VERIF_REPO:-/repo}"
cp "$REPO/hermes/go.sum" go.sum
mkdir -p bin "$DIR/evidence" "$DIR/replays"
go build -o bin/extract ./cmd/extract
./bin/extract -repo "$REPO" -out "$DIR/lean/HermesModel/Generated" -facts "$DIR/evidence/facts.json"
go build -tags verif -o bin/check ./cmd/check
cd "$DIR/lean"
VERIF_DIR="$DIR" python3 "$DIR/bin/gen_roots.py"
lake build
echo "setup done"
