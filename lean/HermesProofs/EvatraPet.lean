/-
Lemmas about the model of the potential-ET part of `Evatra` (HermesModel/EvatraPet.lean) over ℚ:
floor and cap after the crop coefficient, the month of the Haude factor, the wind floor, the range
of the day length, the denominators of the five methods, and the positivity chain of `stomat`
(light-use efficiency → assimilation → canopy resistance).  The values of the transcendental calls
are free variables; what is assumed about them is always an explicit hypothesis.
-/
import HermesProofs.Evatra
import HermesModel.EvatraPet
import Mathlib.Tactic.Linarith
import Mathlib.Tactic.Ring
import Mathlib.Tactic.FieldSimp
import Mathlib.Tactic.NormNum
import Mathlib.Tactic.Positivity

namespace Hermes.EvatraPet
open Hermes.Evatra

/-! ### floor and cap -/

theorem capSplit_fst_nonneg (crop : Bool) (v e : ℚ) : 0 ≤ (capSplit crop v e).1 := by
  unfold capSplit
  cases crop <;> simp only [Bool.false_eq_true, if_false, if_true] <;> split_ifs <;> norm_num <;> linarith

/-- the value handed on is the raw value floored at zero and capped (`min cap (max 0 raw)`) -/
theorem capSplit_fst_eq (crop : Bool) (v e : ℚ) :
    (capSplit crop v e).1 = min (if crop then 0.65 else 0.6) (max 0 v) := by
  unfold capSplit
  cases crop <;> simp only [Bool.false_eq_true, if_false, if_true]
  · split_ifs with h1 h2 h2
    · exfalso; norm_num at h2
    · rw [max_eq_left h1.le, min_eq_right (by norm_num)]
    · rw [max_eq_right (not_lt.mp h1), min_eq_left h2.le]
    · rw [max_eq_right (not_lt.mp h1), min_eq_right (not_lt.mp h2)]
  · split_ifs with h1 h2 h2
    · exfalso; norm_num at h2
    · rw [max_eq_left h1.le, min_eq_right (by norm_num)]
    · rw [max_eq_right (not_lt.mp h1), min_eq_left h2.le]
    · rw [max_eq_right (not_lt.mp h1), min_eq_right (not_lt.mp h2)]

theorem floor0_nonneg (x : ℚ) : 0 ≤ floor0 x := by
  unfold floor0; split_ifs <;> linarith

theorem floor0_eq_max (x : ℚ) : floor0 x = max 0 x := by
  unfold floor0; split_ifs with h
  · rw [max_eq_left h.le]
  · rw [max_eq_right (not_lt.mp h)]

/-! ### month of the Haude factor -/

theorem fkm_range (tag : ℕ) : 1 ≤ fkm tag ∧ fkm tag ≤ 12 := by
  unfold fkm
  split_ifs <;> omega

/-! ### wind -/

theorem wind2m_ge (wind windhi logW : ℚ) : 0.5 ≤ wind2m wind windhi logW := by
  unfold wind2m
  simp only
  split_ifs <;> norm_num <;> linarith

/-! ### solar.go -/

theorem limit_range (v : ℚ) : -1 ≤ limit v 1 (-1) ∧ limit v 1 (-1) ≤ 1 := by
  unfold limit
  split_ifs <;> constructor <;> linarith

theorem pi_pos : (0 : ℚ) < pi := by unfold pi; norm_num

theorem dayLength_dl (t : Tr ℚ) : (dayLength t).dl = 12.0 * (pi + 2.0 * t.asDL) / pi := by
  unfold dayLength; simp only; split_ifs <;> rfl

theorem dayLength_dle (t : Tr ℚ) : (dayLength t).dle = 12.0 * (pi + 2.0 * t.asDLE) / pi := by
  unfold dayLength; simp only; split_ifs <;> rfl

/-- 12·(π + 2a)/π lies in [0, 24] when a ∈ [−π/2, π/2] (the range of the arc sine) -/
theorem hours_range (a : ℚ) (h0 : -(pi / 2) ≤ a) (h1 : a ≤ pi / 2) :
    0 ≤ 12.0 * (pi + 2.0 * a) / pi ∧ 12.0 * (pi + 2.0 * a) / pi ≤ 24 := by
  have hp := pi_pos
  constructor
  · apply div_nonneg _ hp.le
    norm_num; linarith
  · rw [div_le_iff₀ hp]
    norm_num; linarith

/-- the later sunrise of the effective day: DLE ≤ DL when the arc sines are ordered -/
theorem dle_le_dl (t : Tr ℚ) (h : t.asDLE ≤ t.asDL) : (dayLength t).dle ≤ (dayLength t).dl := by
  rw [dayLength_dl, dayLength_dle]
  have hp := pi_pos
  apply div_le_div_of_nonneg_right _ hp.le
  norm_num; linarith

/-! ### denominators -/

theorem turcDen_pos (temp : ℚ) (h : -123 < temp) : 0 < turcDen temp := by
  unfold turcDen; norm_num; linarith

theorem turcDenSunCrop_pos (temp : ℚ) (h : -122 < temp) : 0 < turcDenSunCrop temp := by
  unfold turcDenSunCrop; norm_num; linarith

/-- the crop coefficient is a plain factor of the Turc-Wendling value -/
theorem turc_linear (crop : Bool) (rad sund temp kcoa kc : ℚ) (s : Sol ℚ) :
    turc crop rad sund temp kcoa kc s = turc crop rad sund temp kcoa 1 s * kc := by
  unfold turc
  split_ifs <;> simp only [mul_one] <;> exact mul_right_comm _ _ _

theorem deltsat_pos (eT pT2 : ℚ) (he : 0 < eT) (hp : 0 < pT2) : 0 < deltsat eT pT2 := by
  unfold deltsat
  apply div_pos _ hp
  norm_num; exact he

theorem psych_pos (pAtm : ℚ) (h : 0 < pAtm) : 0 < psych pAtm := by
  unfold psych; norm_num; exact h

theorem rs0_pos (alti ext : ℚ) (ha : -37500 < alti) (he : 0 < ext) : 0 < rs0 alti ext := by
  unfold rs0
  apply mul_pos _ he
  norm_num; linarith

theorem penmanDen_pos (d ps rsurf wind : ℚ) (hd : 0 < d) (hps : 0 < ps) (hr : 0 ≤ rsurf) (hw : 0 ≤ wind) :
    0 < penmanDen d ps rsurf wind := by
  unfold penmanDen
  have h1 : 0 ≤ rsurf / 208.0 * wind := mul_nonneg (div_nonneg hr (by norm_num)) hw
  have h2 : 0 < ps * (1 + rsurf / 208.0 * wind) := mul_pos hps (by linarith)
  linarith

theorem satP_pos (a b : ℚ) (ha : 0 < a) (hb : 0 < b) : 0 < satP a b := by
  unfold satP
  apply div_pos _ (by norm_num)
  norm_num
  nlinarith

theorem satdefOf_nonneg (i : PIn ℚ) (t : Tr ℚ) (ha : 0 < t.eTmin) (hb : 0 < t.eTmax) (hr : i.rh ≤ 100) :
    0 ≤ satdefOf i t := by
  unfold satdefOf
  apply mul_nonneg (satP_pos _ _ ha hb).le
  have : i.rh / 100.0 ≤ 1 := by rw [div_le_one (by norm_num)]; norm_num; exact hr
  linarith

/-- the CO2 response factor of method 2: its three denominators are positive for CO2 above 80 ppm
whenever the radiation term is non-negative -/
theorem kco2_denominators_pos (co2 kco1 coco : ℚ) (hk : 220 ≤ kco1) (hc : coco ≤ 80) (h : 80 < co2) :
    0 < kco1 + co2 - coco ∧ 0 < 350.0 - coco ∧ 0 < kco1 + 350.0 - coco ∧
      0 < (350.0 - coco) / (kco1 + 350.0 - coco) := by
  have h1 : (0 : ℚ) < 350.0 - coco := by norm_num; linarith
  have h2 : (0 : ℚ) < kco1 + 350.0 - coco := by norm_num; linarith
  exact ⟨by linarith, h1, h2, div_pos h1 h2⟩

/-! ### stomat -/

theorem floorTenth (a : ℚ) : 0.1 ≤ (if a < 0.1 then 0.1 else a) := by
  split_ifs with h
  · exact le_refl _
  · exact not_lt.mp h

theorem stoAmax_ge (i : PIn ℚ) (t : Tr ℚ) (s : Sol ℚ) : 0.1 ≤ stoAmax i t s := by
  unfold stoAmax
  simp only
  exact floorTenth _

theorem stoEff_pos (co2meth : ℕ) (co2 p2T : ℚ)
    (h : co2meth = 1 → 0 < p2T ∧ 17.5 * p2T < co2) : 0 < stoEff co2meth co2 p2T := by
  unfold stoEff
  split_ifs with h1
  · obtain ⟨hp, hc⟩ := h h1
    simp only
    apply mul_pos _ (by norm_num)
    apply div_pos <;> nlinarith
  · norm_num

/-- what `photo` needs to be positive -/
structure PhotoOk (i : PIn ℚ) (t : Tr ℚ) (s : Sol ℚ) : Prop where
  dle : 0 < s.dle
  dl : 0 < s.dl
  drc : 0 < s.drc
  ssl0 : 0 < t.sSsl
  ssl1 : t.sSsl ≤ 1
  comp : i.co2meth = 1 → 0 < t.p2T ∧ 17.5 * t.p2T < i.co2
  logX : 1 ≤ (photo i t s).xArg → 0 ≤ t.logX
  logY : 1 ≤ (photo i t s).yArg → 0 ≤ t.logY
  eGrass0 : 0 < t.eGrass
  eGrass1 : t.eGrass < 1

theorem photo_effe_pos (i : PIn ℚ) (t : Tr ℚ) (s : Sol ℚ)
    (h : i.co2meth = 1 → 0 < t.p2T ∧ 17.5 * t.p2T < i.co2) : 0 < (photo i t s).effe := by
  have := stoEff_pos i.co2meth i.co2 t.p2T h
  unfold photo
  simp only
  apply mul_pos (by norm_num) this

theorem photo_amax (i : PIn ℚ) (t : Tr ℚ) (s : Sol ℚ) : (photo i t s).amax = stoAmax i t s := by
  unfold photo; rfl

theorem photo_xArg_ge (i : PIn ℚ) (t : Tr ℚ) (s : Sol ℚ) (h : PhotoOk i t s) :
    1 ≤ (photo i t s).xArg ∧ 1 ≤ (photo i t s).yArg := by
  have he := photo_effe_pos i t s h.comp
  have ha := stoAmax_ge i t s
  have ha' : 0 < stoAmax i t s := by linarith
  have hd := h.dle
  have hr := h.drc
  have hs := h.ssl0
  have hs5 : 0 < 5.0 - t.sSsl := by have := h.ssl1; norm_num; linarith
  unfold photo at he ⊢
  simp only at he ⊢
  constructor
  · have : 0 ≤ 0.45 * s.drc / (s.dle * 3600.0) * ((1 - 0.08) * stoEff i.co2meth i.co2 t.p2T) / (t.sSsl * stoAmax i t s) := by
      apply div_nonneg _ (mul_pos hs ha').le
      apply mul_nonneg _ he.le
      apply div_nonneg _ (by positivity)
      positivity
    linarith
  · have : 0 ≤ 0.55 * s.drc / (s.dle * 3600.0) * ((1 - 0.08) * stoEff i.co2meth i.co2 t.p2T) / ((5.0 - t.sSsl) * stoAmax i t s) := by
      apply div_nonneg _ (mul_pos hs5 ha').le
      apply mul_nonneg _ he.le
      apply div_nonneg _ (by positivity)
      positivity
    linarith

theorem photo_pos (i : PIn ℚ) (t : Tr ℚ) (s : Sol ℚ) (h : PhotoOk i t s) :
    0 < (photo i t s).phc3 ∧ 0 < (photo i t s).phc4 ∧ 0 < (photo i t s).pho3 := by
  have hx := photo_xArg_ge i t s h
  have hlx := h.logX hx.1
  have hly := h.logY hx.2
  have he := photo_effe_pos i t s h.comp
  have ha := stoAmax_ge i t s
  have ha' : 0 < stoAmax i t s := by linarith
  have hd := h.dle
  have hl := h.dl
  have hr := h.drc
  have hs := h.ssl0
  have hs5 : 0 < 5.0 - t.sSsl := by have := h.ssl1; norm_num; linarith
  have hg : 0 < 1 - t.eGrass := by have := h.eGrass1; linarith
  unfold photo at he ⊢
  simp only at he ⊢
  refine ⟨?_, ?_, ?_⟩
  · apply mul_pos _ hg
    have h1 : 0 ≤ t.sSsl * stoAmax i t s * s.dle * t.logX / (1 + t.logX) := by
      apply div_nonneg _ (by linarith)
      exact mul_nonneg (mul_nonneg (mul_nonneg hs.le ha'.le) hd.le) hlx
    have h2 : 0 ≤ (5.0 - t.sSsl) * stoAmax i t s * s.dle * t.logY / (1 + t.logY) := by
      apply div_nonneg _ (by linarith)
      exact mul_nonneg (mul_nonneg (mul_nonneg hs5.le ha'.le) hd.le) hly
    nlinarith
  · exact mul_pos (mul_pos hl (by norm_num)) ha'
  · apply mul_pos _ hg
    have hz : 0 ≤ 0.2 * s.drc / (s.dle * 3600.0) * ((1 - 0.08) * stoEff i.co2meth i.co2 t.p2T) / (5.0 * stoAmax i t s) := by
      apply div_nonneg _ (by positivity)
      apply mul_nonneg _ he.le
      apply div_nonneg _ (by positivity)
      positivity
    have h1 : 0 ≤ 5.0 * stoAmax i t s * s.dle *
        (0.2 * s.drc / (s.dle * 3600.0) * ((1 - 0.08) * stoEff i.co2meth i.co2 t.p2T) / (5.0 * stoAmax i t s)) /
        (1 + 0.2 * s.drc / (s.dle * 3600.0) * ((1 - 0.08) * stoEff i.co2meth i.co2 t.p2T) / (5.0 * stoAmax i t s)) := by
      apply div_nonneg _ (by linarith)
      apply mul_nonneg _ hz
      positivity
    nlinarith

theorem photo_z_nonneg (i : PIn ℚ) (t : Tr ℚ) (s : Sol ℚ) (h : PhotoOk i t s) : 0 ≤ (photo i t s).z := by
  have he := photo_effe_pos i t s h.comp
  have ha := stoAmax_ge i t s
  have ha' : 0 < stoAmax i t s := by linarith
  have hd := h.dle
  have hr := h.drc
  unfold photo at he ⊢
  simp only at he ⊢
  apply div_nonneg _ (by positivity)
  apply mul_nonneg _ he.le
  apply div_nonneg _ (by positivity)
  positivity

theorem saturArg_neg (p3 p4 : ℚ) (h3 : 0 < p3) (h4 : 0 < p4) : saturArg p3 p4 < 0 := by
  unfold saturArg
  split_ifs
  · apply div_neg_of_neg_of_pos <;> linarith
  · apply div_neg_of_neg_of_pos <;> linarith

theorem satur_pos (p3 p4 e : ℚ) (h3 : 0 < p3) (h4 : 0 < p4) (he : e < 1) : 0 < satur p3 p4 e := by
  unfold satur
  split_ifs <;> apply mul_pos <;> linarith

theorem convex_pos (a b f : ℚ) (ha : 0 < a) (hb : 0 < b) (h0 : 0 ≤ f) (h1 : f ≤ 1) : 0 < f * b + (1 - f) * a := by
  by_cases hab : a ≤ b
  · nlinarith [mul_nonneg h0 (sub_nonneg.2 hab)]
  · have : b ≤ a := (not_le.mp hab).le
    nlinarith [mul_nonneg (sub_nonneg.2 h1) (sub_nonneg.2 this)]

theorem dtga_pos (i : PIn ℚ) (s : Sol ℚ) (dgac dgao : ℚ) (hc : 0 < dgac) (ho : 0 < dgao) (hd : 0 < s.dle)
    (hs : 0 ≤ i.sund) : 0 < (dtga i s dgac dgao).1 := by
  unfold dtga
  by_cases h : i.rad ≤ 0 ∧ 0 ≤ i.rad
  · rw [if_pos h]
    simp only
    by_cases h2 : s.dle < i.sund
    · rw [if_pos h2, div_self hd.ne']; linarith
    · rw [if_neg h2]
      have hq0 : 0 ≤ i.sund / s.dle := div_nonneg hs hd.le
      have hq1 : i.sund / s.dle ≤ 1 := by rw [div_le_one hd]; exact not_lt.mp h2
      have := convex_pos dgao dgac (i.sund / s.dle) ho hc hq0 hq1
      linarith
  · rw [if_neg h]
    simp only
    split_ifs with h1 h2 h2
    · exfalso; norm_num at h2
    · norm_num; exact ho
    · norm_num; exact hc
    · exact convex_pos dgac dgao _ hc ho (not_lt.mp h2) (not_lt.mp h1)

theorem dtga_sund_le (i : PIn ℚ) (s : Sol ℚ) (dgac dgao : ℚ) : (dtga i s dgac dgao).2.1 ≤ i.sund := by
  unfold dtga
  by_cases h : i.rad ≤ 0 ∧ 0 ≤ i.rad
  · rw [if_pos h]
    simp only
    by_cases h2 : s.dle < i.sund
    · rw [if_pos h2]; exact h2.le
    · rw [if_neg h2]
  · rw [if_neg h]

theorem rstomOf_pos (alph co2 satdef satbeta dtg : ℚ) (ha : 0 < alph) (hc : 0 < co2) (hs : 0 ≤ satdef)
    (hb : 0 < satbeta) (hd : 0 < dtg) : 0 < rstomOf alph co2 satdef satbeta dtg := by
  unfold rstomOf
  simp only
  apply div_pos one_pos
  apply div_pos
  · apply mul_pos ha
    apply mul_pos (div_pos hd (by norm_num)) (by norm_num)
  · apply mul_pos hc
    have : 0 ≤ satdef / satbeta := div_nonneg hs hb.le
    linarith

end Hermes.EvatraPet
