package main

import (
	"fmt"
	"os"
	"path/filepath"
	"regexp"
	"sort"
	"strconv"
	"strings"
	"sync"
	"time"

	"verifharness/vh"
)

func init() { register("C17", checkC17) }

type rng17 struct{ a, b int }

// selCase17: one invocation of `hermes2go -lines …` on a batch of n lines.
type selCase17 struct {
	a, b, n int
	form    string // "" = a-b, "N" = `-lines <b>` (a = 1), "a-end" = `-lines <a>-end`
	got     string
	err     string
}

func parseRanges(s string) ([]rng17, error) {
	var out []rng17
	for _, tok := range strings.Fields(s) {
		p := strings.Split(tok, "-")
		if len(p) != 2 {
			return nil, fmt.Errorf("bad range %q", tok)
		}
		a, e1 := strconv.Atoi(p[0])
		b, e2 := strconv.Atoi(p[1])
		if e1 != nil || e2 != nil {
			return nil, fmt.Errorf("bad range %q", tok)
		}
		out = append(out, rng17{a, b})
	}
	return out, nil
}

func checkC17(c *vh.Ctx) {
	calc, err := c.BuildTool("calcHermesBatch")
	if err != nil {
		c.Violate("correspondence", "build:calcHermesBatch", err.Error(), nil)
		return
	}
	h2g, err := c.BuildTool("hermes2go")
	if err != nil {
		c.Violate("correspondence", "build:hermes2go", err.Error(), nil)
		return
	}
	maxL, maxK := c.N(60, 400), c.N(16, 64)
	c.Res.Rule = fmt.Sprintf("every (lines, nodes) with 1<=lines<=%d, 1<=nodes<=%d through the built calcHermesBatch (-size and -list) against the Lean model and against the property predicate; the calculator's options in both orders; sampled ranges through the built hermes2go -lines option (forms a-b, N, a-end; options in every order); generated batch files (blank lines, LF/CRLF and both in one file, lines of blanks or tabs only, carriage returns inside a line and at the end of the file, with/without final newline, sizes around the 32 KiB read buffer) through the byte-level line counter; end to end on shaped files of near-real lines (also whitespace-only lines, mixed line ends, tabs / several blanks between the tokens); distinct = distinct (lines,nodes) pairs + distinct files + distinct -lines invocations", maxL, maxK)
	c.Res.Exhaustive = true

	// ---------- batch files with exactly L non-empty lines (plain LF), one per line count
	batchDir := filepath.Join(c.Scratch, "batches")
	os.MkdirAll(batchDir, 0o755)
	batchFile := func(l int) string { return filepath.Join(batchDir, fmt.Sprintf("b%d.txt", l)) }
	for l := 1; l <= maxL; l++ {
		var sb strings.Builder
		for i := 0; i < l; i++ {
			fmt.Fprintf(&sb, "x=%d\n", i)
		}
		os.WriteFile(batchFile(l), []byte(sb.String()), 0o644)
	}

	type pair struct{ l, k int }
	var pairs []pair
	for l := 1; l <= maxL; l++ {
		for k := 1; k <= maxK; k++ {
			pairs = append(pairs, pair{l, k})
		}
	}
	sizes := make([]string, len(pairs))
	lists := make([]string, len(pairs))
	errs := make([]string, len(pairs))
	vh.Parallel(len(pairs), 16, func(i int) {
		p := pairs[i]
		// the two options of the calculator in both orders (a job script may write either first)
		so, se, err := vh.RunTool(20*time.Second, c.Scratch, calc, optionOrder(p.l+p.k, []string{"-size", strconv.Itoa(p.k)}, []string{"-batch", batchFile(p.l)})...)
		if err != nil {
			errs[i] = fmt.Sprintf("-size: %v %s", err, se)
		}
		sizes[i] = strings.TrimSpace(so)
		so, se, err = vh.RunTool(20*time.Second, c.Scratch, calc, optionOrder(p.l+p.k/2, []string{"-list", strconv.Itoa(p.k)}, []string{"-batch", batchFile(p.l)})...)
		if err != nil {
			errs[i] += fmt.Sprintf(" -list: %v %s", err, se)
		}
		lists[i] = strings.TrimSpace(so)
	})
	var cases, impl []string
	for i, p := range pairs {
		c.Eval()
		c.Nontrivial(fmt.Sprintf("p%d/%d", p.l, p.k))
		replay := map[string]interface{}{"lines": p.l, "nodes": p.k, "size_out": sizes[i], "list_out": lists[i],
			"how": "calcHermesBatch -size <nodes> -batch <file with `lines` non-empty lines>; calcHermesBatch -list <nodes> -batch <file>"}
		if errs[i] != "" {
			c.Violate("search", "calc:crash", fmt.Sprintf("calcHermesBatch failed for lines=%d nodes=%d: %s", p.l, p.k, errs[i]), replay)
			continue
		}
		cases = append(cases, fmt.Sprintf("part.size %d %d", p.l, p.k))
		impl = append(impl, sizes[i])
		cases = append(cases, fmt.Sprintf("part.list %d %d", p.l, p.k))
		if lists[i] == "" {
			impl = append(impl, "(empty)")
		} else {
			impl = append(impl, lists[i])
		}
		// property predicate directly on the implementation output
		rs, err := parseRanges(lists[i])
		sz, err2 := strconv.Atoi(sizes[i])
		cls := "lines>=nodes"
		if p.l < p.k {
			cls = "lines<nodes"
		}
		if err != nil || err2 != nil {
			c.Violate("search", "calc:unparsable:"+cls, fmt.Sprintf("unparsable output for lines=%d nodes=%d", p.l, p.k), replay)
			continue
		}
		bad := ""
		if len(rs) != sz {
			bad = fmt.Sprintf("%d ranges printed but job-array size %d reported", len(rs), sz)
		} else {
			next := 1
			for _, r := range rs {
				if r.a != next || r.b < r.a {
					bad = fmt.Sprintf("range %d-%d does not continue at line %d", r.a, r.b, next)
					break
				}
				next = r.b + 1
			}
			if bad == "" && next != p.l+1 {
				bad = fmt.Sprintf("ranges end at line %d, batch has %d lines", next-1, p.l)
			}
		}
		if bad != "" {
			c.Violate("search", "ranges:"+cls, fmt.Sprintf("lines=%d nodes=%d: %s", p.l, p.k, bad), replay)
		}
		if i%997 == 0 {
			c.Sample(map[string]interface{}{"lines": p.l, "nodes": p.k, "size": sizes[i], "list": lists[i]})
		}
	}
	savedCases := cases
	c.Correspond("part.size/list", cases, impl, 0, 0, func(i int) interface{} { return savedCases[i] })

	// ---------- hermes2go -lines a-b: which batch lines are executed
	nSel := c.N(120, 1500)
	type selCase = selCase17
	sel := make([]selCase, nSel)
	for i := range sel {
		n := c.Rng.Range(1, maxL)
		var a, b int
		switch c.Rng.Intn(4) {
		case 0: // a range the calculator would print
			k := c.Rng.Range(1, maxK)
			rs, _ := parseRanges(lists[(n-1)*maxK+(k-1)])
			if len(rs) > 0 {
				r := rs[c.Rng.Intn(len(rs))]
				a, b = r.a, r.b
			} else {
				a, b = 1, n
			}
		case 1:
			a = c.Rng.Range(1, n)
			b = c.Rng.Range(a, n)
		case 2:
			a = c.Rng.Range(1, n)
			b = a
		default:
			a = c.Rng.Range(1, n+2)
			b = c.Rng.Range(a, n+5) // beyond the end of the file
		}
		sel[i] = selCase{a: a, b: b, n: n}
		// the other two forms of the option (hermes_main.go:101-127): `-lines N` = the first N lines,
		// `-lines a-end` = line a to the last one
		switch i % 5 {
		case 3:
			sel[i].a, sel[i].form = 1, "N"
		case 4:
			sel[i].form = "a-end"
		}
	}
	idRe := regexp.MustCompile(`^\[(\d+)\] Error`)
	var mu sync.Mutex
	vh.Parallel(nSel, 16, func(i int) {
		s := &sel[i]
		so, se, err := vh.RunTool(60*time.Second, c.Scratch, h2g, optionOrder(i, []string{"-module", "batch"}, []string{"-concurrent", strconv.Itoa(1 + i%5)},
			[]string{"-batch", batchFile(s.n)}, []string{"-lines", s.option()})...)
		if err != nil {
			s.err = fmt.Sprintf("%v %s", err, se)
			return
		}
		var ids []int
		for _, line := range strings.Split(so, "\n") {
			if m := idRe.FindStringSubmatch(line); m != nil {
				v, _ := strconv.Atoi(m[1])
				ids = append(ids, v)
			}
		}
		sort.Ints(ids) // completion order depends on scheduling
		parts := make([]string, len(ids))
		for j, v := range ids {
			parts[j] = strconv.Itoa(v)
		}
		mu.Lock()
		s.got = strings.Join(parts, " ")
		if s.got == "" {
			s.got = "(empty)"
		}
		mu.Unlock()
	})
	cases, impl = nil, nil
	for _, s := range sel {
		c.Eval()
		c.Nontrivial(fmt.Sprintf("s%s/%d", s.option(), s.n))
		c.Count("lines-option:" + map[string]string{"": "a-b", "N": "N", "a-end": "a-end"}[s.form])
		replay := map[string]interface{}{"lines_option": s.option(), "batch_lines": s.n, "executed_ids": s.got,
			"how": "hermes2go -module batch -batch <file of n lines `x=i`> -lines <lines_option> (forms a-b, N, a-end; options in any order); executed ids = `[i] Error` lines of the summary"}
		if s.err != "" {
			c.Violate("search", "hermes2go:crash", "hermes2go failed: "+s.err, replay)
			continue
		}
		// property: exactly the lines a..min(b,n), each once (N: 1..min(N,n); a-end: a..n)
		var want []string
		last := s.b
		if s.form == "a-end" {
			last = s.n
		}
		for i := s.a; i <= last && i <= s.n; i++ {
			want = append(want, strconv.Itoa(i-1))
		}
		w := strings.Join(want, " ")
		if w == "" {
			w = "(empty)"
		}
		if w != s.got {
			sig := "lines-option"
			if s.form != "" {
				sig += ":" + s.form
			}
			c.Violate("search", sig, fmt.Sprintf("-lines %s on %d lines executed ids [%s], expected [%s]", s.option(), s.n, s.got, w), replay)
		}
		if s.form == "a-end" {
			cases = append(cases, fmt.Sprintf("part.sel %d 0 %d", s.a, s.n)) // no end line: the model's endLine <= 0
		} else {
			cases = append(cases, fmt.Sprintf("part.sel %d %d %d", s.a, s.b, s.n))
		}
		impl = append(impl, s.got)
	}
	saved2 := cases
	c.Correspond("part.sel", cases, impl, 0, 0, func(i int) interface{} { return saved2[i] })
	c.Sample(map[string]interface{}{"lines_option": sel[0].option(), "batch_lines": sel[0].n, "executed_ids": sel[0].got})

	// ---------- byte-level line counter vs what hermes2go would execute
	nFiles := c.N(150, 1500)
	type fileCase struct {
		bytes   []byte
		desc    string
		counted string
		err     string
	}
	files := make([]fileCase, nFiles)
	for i := range files {
		r := c.Rng
		crlf := r.Chance(0.5)
		eol := "\n"
		if crlf {
			eol = "\r\n"
		}
		// every third file: the line end drawn per line (LF and CRLF in one file), lines of blanks / tabs only
		// (not empty: the simulator executes them) and lone carriage returns; derived from a forked generator so
		// that the draws of the other files stay as they were
		mixed := i%3 == 2
		var rm *vh.Rng
		cls := fmt.Sprintf("crlf=%v", crlf)
		if mixed {
			rm = vh.NewRng(c.Seed ^ uint64(i)*0x9e3779b97f4a7c15 ^ 0xc17f11e5)
			cls = "eol=mixed"
		}
		lineEnd := func() string {
			if mixed && rm.Chance(0.5) {
				if eol == "\n" {
					return "\r\n"
				}
				return "\n"
			}
			return eol
		}
		var sb strings.Builder
		nl := r.Range(0, 12)
		big := r.Chance(0.25)
		for j := 0; j < nl; j++ {
			if r.Chance(0.3) {
				sb.WriteString(lineEnd()) // blank line
				continue
			}
			ln := r.Range(1, 6)
			if big && j == nl/2 {
				// pad so that a line end falls near the 32 KiB buffer boundary
				target := 32*1024 + r.Range(-3, 3) - sb.Len()
				if target > 1 {
					ln = target
				}
			}
			text := strings.Repeat("a", ln)
			if mixed {
				switch rm.Intn(6) {
				case 0:
					text = strings.Repeat(" ", ln) // whitespace only
				case 1:
					text = "\t"
				case 2:
					text = text + "\r" // a carriage return inside the line (before the line end)
				}
			}
			sb.WriteString(text)
			sb.WriteString(lineEnd())
		}
		final := r.Chance(0.5)
		if !final {
			last := "zz"
			if mixed {
				switch rm.Intn(8) {
				case 0:
					last = "zz\r" // the file ends inside a CRLF
				case 1:
					sb.Reset()
					sb.WriteString(strings.Repeat("b\n", nl))
					last = " " // last line: one blank, no line end
				case 2:
					last = "\r" // nothing but a carriage return after the last line end
					cls += ":lone-cr-at-end-of-file"
				}
			}
			sb.WriteString(last)
		}
		if i == 2 { // one file of every run: a lone carriage return behind the last line end
			sb.Reset()
			sb.WriteString(strings.Repeat("x=1"+eol, nl) + "\r")
			cls, final = "eol=mixed:lone-cr-at-end-of-file", false
		}
		files[i] = fileCase{bytes: []byte(sb.String()), desc: fmt.Sprintf("%s lines=%d big=%v finalNewline=%v", cls, nl, big, final)}
	}
	vh.Parallel(nFiles, 16, func(i int) {
		p := filepath.Join(c.Scratch, fmt.Sprintf("f%d.txt", i))
		os.WriteFile(p, files[i].bytes, 0o644)
		so, se, err := vh.RunTool(20*time.Second, c.Scratch, calc, "-size", "100000000", "-batch", p)
		os.Remove(p)
		if err != nil {
			files[i].err = fmt.Sprintf("%v %s", err, se)
		}
		files[i].counted = strings.TrimSpace(so)
	})
	cases, impl = nil, nil
	for i, f := range files {
		c.Eval()
		c.Nontrivial(fmt.Sprintf("f%d", i))
		// what hermes2go executes: non-empty scanner lines
		exec := len(scannerLines17(string(f.bytes)))
		c.Count("file:" + strings.Fields(f.desc)[0])
		replay := map[string]interface{}{"file_bytes_quoted": strconv.Quote(string(f.bytes[:min(len(f.bytes), 200)])), "len": len(f.bytes), "desc": f.desc, "counted": f.counted, "executed_lines": exec}
		if f.err != "" {
			c.Violate("search", "count:crash", f.err, replay)
			continue
		}
		if f.counted != strconv.Itoa(exec) {
			kind := "over"
			if v, _ := strconv.Atoi(f.counted); v < exec {
				kind = "under"
			}
			c.Violate("search", "linecount:"+kind+":"+strings.Fields(f.desc)[0], fmt.Sprintf("calculator counts %s lines, the simulator executes %d non-empty lines (%s)", f.counted, exec, f.desc), replay)
		}
		if len(f.bytes) < 3000 { // keep driver lines short; large files are covered by the predicate above
			var sb strings.Builder
			sb.WriteString("part.count 32768")
			for _, b := range f.bytes {
				sb.WriteByte(' ')
				sb.WriteString(strconv.Itoa(int(b)))
			}
			cases = append(cases, sb.String())
			impl = append(impl, fmt.Sprintf("%s %d", f.counted, exec))
		}
	}
	saved3 := cases
	c.Correspond("part.count", cases, impl, 0, 0, func(i int) interface{} { return saved3[i] })

	// ---------- end to end on shaped files: calculator ranges -> simulator -lines, lines identified by content
	c17EndToEnd(c, calc, h2g)
}

// option renders the -lines argument of a selection case.
func (s selCase17) option() string {
	switch s.form {
	case "N":
		return strconv.Itoa(s.b)
	case "a-end":
		return fmt.Sprintf("%d-end", s.a)
	}
	return fmt.Sprintf("%d-%d", s.a, s.b)
}

// scannerLines17: the batch lines the simulator executes (hermes_main.go:62-68) — the file cut at every LF,
// one carriage return before the LF (or before the end of the file) removed, lines of length 0 dropped. Written
// from the documentation of bufio.ScanLines, not by calling it.
func scannerLines17(file string) []string {
	var out []string
	parts := strings.Split(file, "\n")
	for _, ln := range parts {
		ln = strings.TrimSuffix(ln, "\r")
		if len(ln) > 0 {
			out = append(out, ln)
		}
	}
	return out
}

func min(a, b int) int {
	if a < b {
		return a
	}
	return b
}

// optionOrder: the command-line options of the simulator in the k-th of their orders (the options are
// independent of each other; a job script may write them in any order)
func optionOrder(k int, groups ...[]string) []string {
	idx := make([]int, len(groups))
	for i := range idx {
		idx[i] = i
	}
	// k-th permutation in factorial number system
	var out []string
	for n := len(groups); n > 0; n-- {
		j := k % n
		k /= n
		out = append(out, groups[idx[j]]...)
		idx = append(idx[:j], idx[j+1:]...)
	}
	return out
}
