/-
Model of `Water` (hermes/water.go:797-987): one call of the capacity-cascade water routine, as a
pure function of the state it reads.  Every Go loop is a structural recursion over the layer list.
Polymorphic in the arithmetic (see Num.lean).
-/
import HermesModel.Num
namespace Hermes.Water

section
variable {α : Type} [Add α] [Sub α] [Mul α] [Div α] [Neg α] [LT α] [DecidableLT α]
  [OfNat α 0] [OfNat α 1] [OfNat α 3] [OfNat α 10] [OfNat α 21] [OfScientific α] [Conv α]

/-- Inputs of one `Water` call. Lists have one entry per layer (length N) unless noted. -/
structure In (α : Type) where
  dz : α
  wdt : α
  first : Bool            -- subd == 1
  fluss0 : α
  wg : List α             -- first: WG[0][i]; otherwise WG[1][i] of the previous sub-step
  tp : List α
  w : List α              -- field capacity W
  wmin : List α
  ev : List α             -- l.EV[0..N-1]
  evTail : α              -- l.EV[N]
  nfk : List α
  caps : List α           -- g.CAPS[0..20]
  grw : α
  draidep : Nat
  draifak : α
  outn : Nat
  gwauf : α
  q0prev : α              -- stale Q1[0] (kept when FLUSS0 = 0)

structure Out (α : Type) where
  wg1 : List α            -- new WG[1][i]
  tp : List α             -- TP after the availability limit
  ev : List α
  evTail : α
  q1 : List α             -- Q1[0..N]  (length N+1)
  qdrain : α
  below : α               -- WATER[1][N]: water pushed below the last layer by the overflow pass
  dSicker : α             -- increments of the accumulators
  dCapsum : α
  dDraisum : α
  dInfilt : α
  dTrans : α              -- Σ TP·wdt added to PFTRANS/TRAY

/-- water.go:815-825: uptake limited to the water above wilting point (first sub-step only). -/
def limitTp (dz : α) : List α → List α → List α → List α
  | tp :: tps, wg :: wgs, wmin :: wmins =>
    (if (wg - wmin) * dz < tp then (if wg < wmin then 0 else (wg - wmin) * dz) else tp)
      :: limitTp dz tps wgs wmins
  | _, _, _ => []

/-- WATER[0][i] = WG[0][i]·dz − TP[i]·wdt -/
def water0 (dz wdt : α) : List α → List α → List α
  | wg :: wgs, tp :: tps => (wg * dz - tp * wdt) :: water0 dz wdt wgs tps
  | _, _ => []

/-- water.go:837-861: infiltration cascade from layer `k` (1-based) with inflow `a`.
Input: (WATER0, W) per layer. Output: WATER1, Q1[k…N], QDRAIN. -/
def infil (dz : α) (draidep : Nat) (draifak : α) : α → Nat → List (α × α) → List α × List α × α
  | _, _, [] => ([], [], 0)
  | a, k, (wa, w) :: rest =>
    let b := a + wa
    let a' := b - w * dz
    if a' < 0 then (b :: rest.map (·.1), 0 :: rest.map (fun _ => 0), 0)
    else
      let aOut := if k = draidep then (1 - draifak) * a' else a'
      let qd := if k = draidep then draifak * a' else 0
      let r := infil dz draidep draifak aOut (k + 1) rest
      (w * dz :: r.1, aOut :: r.2.1, if k = draidep then qd else r.2.2)

/-- water.go:866-872 for one layer: EV including the deficit passed down from above, the dryness
limit (a third of the wilting point), the deficit passed further down, and the water the layer can
give (`vcap`).  Result: (EV', carry to the next EV slot, vcap). -/
def evapLayer (dz wdt : α) (carry : Option α) (wa wmin ev0 : α) : α × Option α × α :=
  let ev := match carry with | some c => ev0 + c | none => ev0
  let lim0 := wa - ev * wdt
  if lim0 < (wmin / 3) * dz then
    (wa - wmin / 3 * dz, some (ev - wa + wmin / 3 * dz), wa - wmin / 3 * dz)
  else (ev, none, wa - lim0)

/-- water.go:864-892: evaporation cascade. Input per layer (WATER0, WMIN, EV). Output WATER1,
Q1[k+1…N], EV', carry into the EV slot after the last layer. `a1` is the demand still to be met. -/
def evap (dz wdt : α) : α → Option α → List (α × α × α) → List α × List α × List α × Option α
  | _, carry, [] => ([], [], [], carry)
  | a1, carry, (wa, wmin, ev0) :: rest =>
    let e := evapLayer dz wdt carry wa wmin ev0
    if a1 < e.2.2 then
      -- break: the rest of the profile is untouched (but EV[k+1] already got the deficit)
      let restEv := match rest, e.2.1 with
        | (_, _, e1) :: more, some c => (e1 + c) :: more.map (·.2.2)
        | rs, _ => rs.map (·.2.2)
      let tailCarry := match rest with | [] => e.2.1 | _ => none
      ((wa - a1) :: rest.map (·.1), 0 :: rest.map (fun _ => 0), e.1 :: restEv, tailCarry)
    else
      let r := evap dz wdt (a1 - e.2.2) e.2.1 rest
      ((wa - e.2.2) :: r.1, (-(a1 - e.2.2)) :: r.2.1, e.1 :: r.2.2.1, r.2.2.2)

/-- water.go:900-907: water above field capacity is pushed to the next layer, top-down.
Input (WATER1, W, Q1[i+1]) per layer; `carry` is what the layer above pushed down. -/
def overflow (dz : α) : Option α → List (α × α × α) → List (α × α) × Option α
  | carry, [] => ([], carry)
  | carry, (wa0, w, q) :: rest =>
    let wa := match carry with | some c => wa0 + c | none => wa0
    if w < wa / dz then
      let sink := wa - w * dz
      let r := overflow dz (some sink) rest
      ((w * dz, q + sink) :: r.1, r.2)
    else
      let r := overflow dz none rest
      ((wa, q) :: r.1, r.2)

/-- water.go:916-924: deepest layer (1-based) with nFK < 0.7, 0 if none. -/
def capLayer (nfk : List α) : Nat :=
  let idx := (nfk.zipIdx.filter fun p => p.1 < (0.7 : α)).map (·.2 + 1)
  idx.foldl Nat.max 0

/-- water.go:925-943: the capillary-rise increment (CAPS[idx]·dz·wdt) for layer `caplay`, if any. -/
def capRise (dz wdt grw : α) (caps : List α) (caplay : Nat) : Option α :=
  if caplay = 0 then none else
  let gwdist0 := grw + 1 - Conv.ofNat caplay
  if gwdist0 < 21 then
    let gwdist := if gwdist0 < 0 then 0 else gwdist0
    if (0.9 : α) < gwdist then
      let m := if gwdist < 1 then 1 else gwdist
      let idx := Conv.roundNat m - 1
      some (caps.getD idx 0 * dz * wdt)
    else none
  else none

def addAt (i : Nat) (c : α) : List α → List α
  | [] => []
  | x :: xs => match i with
    | 0 => (x + c) :: xs
    | j + 1 => x :: addAt j c xs

/-- subtract `c` from all entries at positions ≥ i -/
def subFrom (i : Nat) (c : α) : List α → List α
  | [] => []
  | x :: xs => match i with
    | 0 => (x - c) :: subFrom 0 c xs
    | j + 1 => x :: subFrom j c xs

def zip3 : List α → List α → List α → List (α × α × α)
  | a :: as, b :: bs, c :: cs => (a, b, c) :: zip3 as bs cs
  | _, _, _ => []

/-- result of the surface-flux branch -/
structure Surf (α : Type) where
  wa1 : List α
  qTop : α
  qs : List α
  qdrain : α
  ev : List α
  evTail : α

/-- water.go:815-831: uptake limit (first sub-step) and WATER[0]. -/
def phaseUptake (i : In α) : List α × List α :=
  let tp := if i.first then limitTp i.dz i.tp i.wg i.wmin else i.tp
  (tp, water0 i.dz i.wdt i.wg tp)

/-- water.go:832-898: infiltration / evaporation / no flux. -/
def phaseSurface (i : In α) (wa0 : List α) : Surf α :=
  if 0 < i.fluss0 then
    let a := i.fluss0 * i.wdt
    let r := infil i.dz i.draidep i.draifak a 1 (wa0.zip i.w)
    { wa1 := r.1, qTop := a, qs := r.2.1, qdrain := r.2.2, ev := i.ev, evTail := i.evTail }
  else if i.fluss0 < 0 then
    let a := (-i.fluss0) * i.wdt
    let r := evap i.dz i.wdt a none (zip3 wa0 i.wmin i.ev)
    let tail := match r.2.2.2 with | some c => i.evTail + c | none => i.evTail
    { wa1 := r.1, qTop := 0, qs := r.2.1, qdrain := 0, ev := r.2.2.1, evTail := tail }
  else { wa1 := wa0, qTop := i.q0prev, qs := wa0.map (fun _ => (0 : α)), qdrain := 0, ev := i.ev, evTail := i.evTail }

/-- water.go:900-907 -/
def phaseOverflow (i : In α) (s : Surf α) : List α × List α × α :=
  let o := overflow i.dz none (zip3 s.wa1 i.w s.qs)
  (o.1.map (·.1), o.1.map (·.2), match o.2 with | some c => c | none => 0)

/-- water.go:916-943 -/
def phaseCapillary (i : In α) (wa2 qs2 : List α) : List α × List α :=
  let caplay := capLayer i.nfk
  match capRise i.dz i.wdt i.grw i.caps caplay with
  | some c => (addAt (caplay - 1) c wa2, subFrom (caplay - 1) c qs2)
  | none => (wa2, qs2)

/-- One call of `Water`. -/
def step (i : In α) : Out α :=
  let u := phaseUptake i
  let s := phaseSurface i u.2
  let o := phaseOverflow i s
  let c := phaseCapillary i o.1 o.2.1
  let q1 := s.qTop :: c.2
  let qOut := q1.getD i.outn 0
  { wg1 := c.1.map (· / i.dz), tp := u.1, ev := s.ev, evTail := s.evTail, q1 := q1, qdrain := s.qdrain,
    below := o.2.2,
    dSicker := if 0 < qOut then qOut * 10 else 0,
    dCapsum := (if 0 < qOut then 0 else 0 + qOut * 10) - i.gwauf * 10 * i.wdt,   -- accumulators start at 0
    dDraisum := s.qdrain * 10,
    dInfilt := if 0 < i.fluss0 then i.fluss0 * i.wdt else 0,
    dTrans := sumFrom (0 : α) (u.1.map (· * i.wdt)) }

end
end Hermes.Water
