/-
Refinement: the *translation of the current source* of `vern` (hermes/crop.go → `HermesModel/Generated/Impvern.lean`, regenerated
on every run, one definition per top-level statement) computes the hand-written model `Hermes.Crop.vern` (HermesModel/Crop.lean)
that the C09 theorems about the vernalisation factor speak about.
-/
import HermesModel.Generated.Impvern
import HermesModel.Crop
import Mathlib.Tactic.Ring
import Mathlib.Tactic.SplitIfs
import Mathlib.Tactic.Linarith
import Mathlib.Tactic.NormNum

namespace Hermes.Generated.Imp.vern
open Hermes.Imp

theorem lit0 : ((0.0 : ℚ)) = 0 := by norm_num
theorem lit1 : ((1.0 : ℚ)) = 1 := by norm_num

/-- statement 2 (the temperature cascade) sets the effectiveness of the day to `Crop.vernEff` of the day's mean temperature -/
theorem top2_eq (m : MathFns ℚ) (s : St ℚ) :
    top2 m s = { s with v_veff := Hermes.Crop.vernEff (rd s.g_TEMP s.g_TAG_Index) } := by
  unfold top2 Hermes.Crop.vernEff
  generalize rd s.g_TEMP s.g_TAG_Index = T
  simp only [lit0, lit1]
  split_ifs <;> rfl

/-- statement 5: the clamped vernalisation factor -/
theorem top5_eq (m : MathFns ℚ) (s : St ℚ) :
    top5 m s = { s with l_FV := if 1 ≤ s.v_verschwell then
      (let fv := (s.g_VERNTAGE - s.v_verschwell) / (rd s.g_VSCHWELL s.g_INTWICK_Index - s.v_verschwell); if fv < 0 then 0 else if 1 < fv then 1 else fv) else 1 } := by
  unfold top5
  simp only [lit0, lit1]
  split_ifs <;> rfl

/-- **The translation of the current source of `vern` computes the hand-written model `Crop.vern`.** -/
theorem vern_refines (m : MathFns ℚ) (s : St ℚ) (hmin : ∀ a b : ℚ, m.min a b = Hermes.Crop.fmin a b) :
    (run m s).g_VERNTAGE = (Hermes.Crop.vern s.g_VERNTAGE (rd s.g_VSCHWELL s.g_INTWICK_Index) (rd s.g_TEMP s.g_TAG_Index) s.g_DT_Num).1 ∧
    (run m s).l_FV = (Hermes.Crop.vern s.g_VERNTAGE (rd s.g_VSCHWELL s.g_INTWICK_Index) (rd s.g_TEMP s.g_TAG_Index) s.g_DT_Num).2 := by
  unfold run
  simp only [top5_eq, top2_eq]
  unfold top4 top3 top1 Hermes.Crop.vern
  simp only [hmin, lit1]
  constructor
  · split_ifs <;> rfl
  · split_ifs <;> rfl
end Hermes.Generated.Imp.vern
