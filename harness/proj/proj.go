// Package proj: generated whole-simulation projects for the failing-input search and for the
// run-level correspondence. A Project is a complete input set of one HERMES run (config, soil,
// polygon, rotation, schedules, measurement file, weather); Write puts it on disk in the layout
// hermes.Run expects, Run executes the real code in-process with the verif probes installed.
package proj

import (
	"bytes"
	"fmt"
	"math"
	"os"
	"path/filepath"
	"sort"
	"strings"
	"sync"
	"time"

	"github.com/zalf-rpm/Hermes2Go/hermes"

	"verifharness/vh"
)

// ---------------------------------------------------------------- data

type Horizon struct {
	Texture string  `json:"texture"`
	Lower   int     `json:"lower_dm"` // lower boundary in dm (= number of 10 cm layers down to it)
	LD      int     `json:"ld"`       // bulk density class 1-5
	Bulk    float64 `json:"bulk"`     // measured bulk density (0 = use class)
	Corg    float64 `json:"corg"`
	Stone   int     `json:"stone_pct"`
	FC      int     `json:"fc_pct"` // explicit field capacity (0 = table / PTF)
	WP      int     `json:"wp_pct"`
	PV      int     `json:"pv_pct"`
	Sand    int     `json:"sand"`
	Silt    int     `json:"silt"`
	Clay    int     `json:"clay"`
}

type RotEntry struct {
	Crop    string `json:"crop"`
	Sow     Date   `json:"sow"`
	Harvest Date   `json:"harvest"`
	Rex     int    `json:"rex"`    // exported residues %
	Yld     int    `json:"yld"`    // yield of the pre-crop
	AutOrg  int    `json:"autorg"` // automatic organic fertiliser flag
	Variety string `json:"variety,omitempty"`
}

type FertEv struct {
	Amount int    `json:"amount"`
	Kind   string `json:"kind"`
	Date   Date   `json:"date"`
	Field  string `json:"field,omitempty"` // other field id (noise lines); "" = the project's field
}
type IrrEv struct {
	MM    int    `json:"mm"`
	Conc  int    `json:"conc"`
	Date  Date   `json:"date"`
	Field string `json:"field,omitempty"`
}
type TilEv struct {
	Depth int    `json:"depth_cm"`
	Kind  int    `json:"kind"`
	Date  Date   `json:"date"`
	Field string `json:"field,omitempty"`
}

// Date is a calendar date; Z() is the HERMES day number (days since 31.12.1900).
type Date struct{ Y, M, D int }

func (d Date) Time() time.Time { return time.Date(d.Y, time.Month(d.M), d.D, 0, 0, 0, 0, time.UTC) }
func (d Date) Z() int {
	return int(d.Time().Sub(time.Date(1900, 12, 31, 0, 0, 0, 0, time.UTC)).Hours()/24 + 0.5)
}
func FromZ(z int) Date {
	t := time.Date(1900, 12, 31, 0, 0, 0, 0, time.UTC).AddDate(0, 0, z)
	return Date{t.Year(), int(t.Month()), t.Day()}
}
func (d Date) AddDays(n int) Date { return FromZ(d.Z() + n) }
func (d Date) DOY() int           { return d.Time().YearDay() }
func (d Date) String() string     { return fmt.Sprintf("%04d-%02d-%02d", d.Y, d.M, d.D) }

// Fmt renders the date in one of the four HERMES input formats (0 DEshort, 1 DElong, 2 ENshort, 3 ENlong).
func (d Date) Fmt(format int) string {
	switch format {
	case 0:
		return fmt.Sprintf("%02d%02d%02d", d.D, d.M, d.Y%100)
	case 2:
		return fmt.Sprintf("%02d%02d%02d", d.M, d.D, d.Y%100)
	case 3:
		return fmt.Sprintf("%02d%02d%04d", d.M, d.D, d.Y)
	}
	return fmt.Sprintf("%02d%02d%04d", d.D, d.M, d.Y)
}

type WDay struct {
	Date                                    Date
	Tmin, Tavg, Tmax, Precip, Rad, Wind, RH float64
	Sun, Verd                               float64 // optional columns (NaN = column value is the none-sentinel)
}

type Measure struct {
	Date  Date       `json:"date"`
	Nmin  [6]int     `json:"nmin"`
	Mode  string     `json:"mode"` // "1" fraction of available water, "3" absolute
	Water [6]float64 `json:"water"`
}

type Project struct {
	Name    string            `json:"name"`
	Field   string            `json:"field"`
	Plot    string            `json:"plot"`
	SoilID  string            `json:"soil_id"`
	DateFmt int               `json:"date_fmt"`
	Century int               `json:"century"` // DivideCentury for the short formats
	Cfg     map[string]string `json:"cfg"`     // config.yml key → YAML value text
	Args    []string          `json:"args"`    // extra batch-line arguments key=value

	Soil      []Horizon `json:"soil"`
	RootDepth int       `json:"root_depth"`
	DrainDep  int       `json:"drain_depth"`
	DrainPct  int       `json:"drain_pct"`
	GW        int       `json:"gw_dm"`
	GH, GL    int       // polygon-file min/max groundwater
	Irrigated bool      `json:"irrigated"`

	Rot        []RotEntry `json:"rotation"`
	RotForeign int        `json:"rotation_foreign_lines,omitempty"` // >0: lines of other fields before the first and after every k-th line of this field in the rotation file
	Fert       []FertEv   `json:"fert"`
	Irr        []IrrEv    `json:"irr"`
	Til        []TilEv    `json:"til"`
	Meas       []Measure  `json:"measure"`
	GWSerie    []GWPoint  `json:"gw_series,omitempty"`

	WeatherStart Date    `json:"weather_start"`
	WeatherDays  int     `json:"weather_days"`
	WeatherSeed  uint64  `json:"weather_seed"`
	SunOutage    int     `json:"sunshine_sensor_outages,omitempty"` // the series has a sunshine column; this many 2-3 day outages (sunshine and radiation missing) per growing season
	Climate      Climate `json:"climate"`
	WeatherFmt   int     `json:"weather_fmt"` // 0 one file per year, 1 multi-year csv, 2 cz
	Weather      []WDay  `json:"-"`

	DailyCols []string `json:"-"` // extra daily output columns (defaults used when nil)
}

type GWPoint struct {
	Date  Date    `json:"date"`
	Level float64 `json:"level"`
}

type Climate struct {
	MeanT, AmpT, NoiseT float64
	RainProb, RainMean  float64
	ExtremeProb         float64 // probability that a rain day is extreme
	ExtremeMM           float64
	DrySpell            int // length of an inserted dry spell per year (days)
	WindMean            float64
	Frost               float64 // extra cold offset in winter
}

func (p *Project) N() int { return p.Soil[len(p.Soil)-1].Lower }

func (p *Project) Start() Date { return p.Rot[0].Harvest }
func (p *Project) End() Date {
	s := strings.Trim(p.Cfg["EndDate"], "\"'")
	var d, m, y int
	switch p.DateFmt {
	case 3:
		fmt.Sscanf(s, "%2d%2d%4d", &m, &d, &y)
	default:
		fmt.Sscanf(s, "%2d%2d%4d", &d, &m, &y)
	}
	return Date{y, m, d}
}

// SetEnd stores the end date in the configuration (long formats only are used for EndDate).
func (p *Project) SetEnd(d Date) {
	f := p.DateFmt
	if f == 0 {
		f = 1
	}
	if f == 2 {
		f = 3
	}
	p.Cfg["EndDate"] = "\"" + d.Fmt(f) + "\""
}

// ---------------------------------------------------------------- weather synthesis

func (p *Project) GenWeather() {
	r := vh.NewRng(p.WeatherSeed)
	c := p.Climate
	p.Weather = make([]WDay, 0, p.WeatherDays)
	dryFrom := 150 + r.Intn(60)
	for i := 0; i < p.WeatherDays; i++ {
		d := p.WeatherStart.AddDays(i)
		doy := float64(d.DOY())
		season := -math.Cos((doy - 15) / 365 * 2 * math.Pi)
		tavg := c.MeanT + c.AmpT*season + c.NoiseT*(r.F()+r.F()+r.F()-1.5)
		if season < -0.5 {
			tavg -= c.Frost * r.F()
		}
		dtr := 3 + 8*r.F()
		tmin := tavg - dtr/2
		tmax := tavg + dtr/2
		rain := 0.0
		inDry := c.DrySpell > 0 && int(doy) >= dryFrom && int(doy) < dryFrom+c.DrySpell
		if !inDry && r.Chance(c.RainProb) {
			rain = -c.RainMean * math.Log(1-r.F()*0.999)
			if r.Chance(c.ExtremeProb) {
				rain = c.ExtremeMM * (0.5 + r.F())
			}
		}
		rad := math.Max(0.5, 11+9.5*season+4*(r.F()-0.5)-math.Min(rain, 8)*0.4) // MJ m-2
		wd := WDay{Date: d, Tmin: vh.RoundTo(tmin, 1), Tavg: vh.RoundTo(tavg, 1), Tmax: vh.RoundTo(tmax, 1),
			Precip: vh.RoundTo(rain, 1), Rad: vh.RoundTo(rad, 2), Wind: vh.RoundTo(math.Max(0.1, c.WindMean*(0.3+1.4*r.F())), 1),
			RH:  vh.RoundTo(math.Min(99, math.Max(25, 78-12*season+15*(r.F()-0.5)+math.Min(rain, 10))), 0),
			Sun: math.NaN(), Verd: math.NaN()}
		p.Weather = append(p.Weather, wd)
	}
	if p.SunOutage > 0 && p.WeatherFmt != 2 {
		// sunshine hours for every day (a station with a sunshine recorder); outages of two or three days inside the
		// growing season on which neither sunshine nor radiation was recorded
		for i := range p.Weather {
			d := &p.Weather[i]
			season := -math.Cos((float64(d.Date.DOY()) - 15) / 365 * 2 * math.Pi)
			maxSun := 8 + 7*season
			d.Sun = vh.RoundTo(math.Max(0, math.Min(maxSun, maxSun*(d.Rad/(11+9.5*season+2)))), 1)
		}
		for i := 0; i+3 < len(p.Weather); i++ {
			if d := p.Weather[i].Date; d.M >= 4 && d.M <= 8 && d.D == 1+int(p.WeatherSeed%20) && (int(d.M)+d.Y)%2 == 0 {
				for k := 0; k < 2+int((p.WeatherSeed>>8)%2) && k < p.SunOutage+1; k++ {
					p.Weather[i+k].Sun, p.Weather[i+k].Rad = math.NaN(), math.NaN()
				}
			}
		}
	}
}

// ---------------------------------------------------------------- writing

func ymlQuote(s string) string { return "\"" + s + "\"" }

// DefaultCfg: explicit values for every key the generated projects depend on.
func DefaultCfg() map[string]string {
	return map[string]string{
		"Dateformat": "DateDElong", "DivideCentury": "50", "GroundWaterFrom": "soilfile",
		"ResultFileFormat": "1", "ResultFileExt": ymlQuote("csv"), "OutputIntervall": "1", "ManagementEvents": "1",
		"InitSelection": "1", "SoilFile": "soil", "SoilFileExtension": "csv", "CropFileFormat": "txt",
		"CropParameterFormat": "txt", "MeasurementFileFormat": "txt", "PolygonGridFileName": "poly",
		"WeatherFile": ymlQuote("%s.csv"), "WeatherFileFormat": "1", "WeatherFolder": "gen", "WeatherRootFolder": ymlQuote("./weather/"),
		"WeatherNoneValue": "-99.9", "WeatherNumHeader": "2", "CorrectionPrecipitation": "0", "AnnualAverageTemperature": "8.7",
		"ETpot": "3", "CO2method": "2", "CO2concentration": "360", "CO2StomataInfluence": "1", "NDeposition": "20",
		"StartYear": "1980", "EndDate": ymlQuote("31121982"), "AnnualOutputDate": ymlQuote("3009"),
		"VirtualDateFertilizerPrediction": ymlQuote("--------"), "Latitude": "52.52", "Altitude": "50", "CoastDistance": "300",
		"PTF": "0", "LeachingDepth": "15", "OrganicMatterMineralProportion": "0.13", "KcFactorBareSoil": "0.4",
		"PotMineralisation": "0", "GroundWaterPhase": "80", "Fertilization": "100",
		"AutoSowingHarvest": "0", "AutoFertilization": "0", "AutoIrrigation": "0", "AutoHarvest": "0",
	}
}

func (p *Project) fmtName() string {
	return [...]string{"DateDEshort", "DateDElong", "DateENshort", "DateENlong"}[p.DateFmt]
}

// Write creates root/project/<name>/…, root/weather/gen/…; the parameter folder is referenced
// from /repo/examples/parameter through a symlink root/parameter.
func (p *Project) Write(root, repo string) error {
	dir := filepath.Join(root, "project", p.Name)
	if err := os.MkdirAll(dir, 0o755); err != nil {
		return err
	}
	par := filepath.Join(root, "parameter")
	if _, err := os.Lstat(par); err != nil {
		if err := os.Symlink(filepath.Join(repo, "examples", "parameter"), par); err != nil {
			return err
		}
	}
	w := func(name, content string) error {
		return os.WriteFile(filepath.Join(dir, name), []byte(content), 0o644)
	}
	// config
	p.Cfg["Dateformat"] = p.fmtName()
	p.Cfg["DivideCentury"] = fmt.Sprint(p.Century)
	p.Cfg["StartYear"] = fmt.Sprint(p.Start().Y)
	keys := make([]string, 0, len(p.Cfg))
	for k := range p.Cfg {
		keys = append(keys, k)
	}
	sort.Strings(keys)
	var b strings.Builder
	for _, k := range keys {
		fmt.Fprintf(&b, "%s: %s\n", k, p.Cfg[k])
	}
	if err := w("config.yml", b.String()); err != nil {
		return err
	}
	// soil (csv)
	b.Reset()
	b.WriteString("SID,C_org,Texture,LayerDepth,BulkDensityClass,BulkDensity,Stone,C/N,C/S,RootDepth,NumberHorizon,FieldCapacity,WiltingPoint,PoreVolume,Sand,Silt,Clay,DrainageDepth,Drainage%,GroundWaterLevel\n")
	for i, h := range p.Soil {
		opt := func(v int) string {
			if v == 0 {
				return ""
			}
			return fmt.Sprint(v)
		}
		bulk := ""
		if h.Bulk > 0 {
			bulk = fmt.Sprintf("%.2f", h.Bulk)
		}
		rd, nh, gw := "", "", ""
		if i == 0 {
			rd, nh, gw = fmt.Sprintf("%02d", p.RootDepth), fmt.Sprintf("%02d", len(p.Soil)), fmt.Sprintf("%02d", p.GW)
		}
		fmt.Fprintf(&b, "%s,%.2f,%s,%02d,%d,%s,%02d,10,00,%s,%s,%s,%s,%s,%s,%s,%s,%02d,%.2f,%s\n",
			p.SoilID, h.Corg, h.Texture, h.Lower, h.LD, bulk, h.Stone, rd, nh, opt(h.FC), opt(h.WP), opt(h.PV),
			opt(h.Sand), opt(h.Silt), opt(h.Clay), p.DrainDep, float64(p.DrainPct)/100, gw) // "Drainage%" is read raw as the fraction DRAIFAK (soil.go:227)
	}
	if err := w("soil_"+p.Name+".csv", b.String()); err != nil {
		return err
	}
	// polygon
	irr := 0
	if p.Irrigated {
		irr = 1
	}
	gh, gl := p.GH, p.GL
	if gh == 0 && gl == 0 {
		gh, gl = 99, 99
	}
	if err := w("poly_"+p.Name+".txt", fmt.Sprintf("Polyg SID  Field_ID  GH GL Ir comment\n%s %s %s    %02d %02d %d generated\nend\n", p.Plot, p.SoilID, p.Field, gh, gl, irr)); err != nil {
		return err
	}
	// rotation
	b.Reset()
	b.WriteString("Field_ID    crp  sowing harvst Rex yld autorg variety comment\n")
	for i, r := range p.Rot {
		sow := strings.Repeat("-", len(r.Harvest.Fmt(p.DateFmt)))
		if i > 0 {
			sow = r.Sow.Fmt(p.DateFmt)
		}
		if p.RotForeign > 0 && (i == 0 || i%p.RotForeign == 0) {
			// a multi-field rotation file ordered by year: lines of other fields stand between the lines of this one
			fmt.Fprintf(&b, "%-9s %-3s %s %s %03d %03d %d %s\n", "X"+p.Field, r.Crop, sow, r.Harvest.Fmt(p.DateFmt), r.Rex, r.Yld, r.AutOrg, r.Variety)
		}
		fmt.Fprintf(&b, "%-9s %-3s %s %s %03d %03d %d %s\n", p.Field, r.Crop, sow, r.Harvest.Fmt(p.DateFmt), r.Rex, r.Yld, r.AutOrg, r.Variety)
		if p.RotForeign > 0 && i%p.RotForeign == 0 {
			fmt.Fprintf(&b, "%-9s %-3s %s %s %03d %03d %d %s\n", "Y"+p.Field, r.Crop, sow, r.Harvest.Fmt(p.DateFmt), r.Rex, r.Yld, r.AutOrg, r.Variety)
		}
	}
	if err := w("crop_"+p.Name+".txt", b.String()); err != nil {
		return err
	}
	field := func(f string) string {
		if f == "" {
			return p.Field
		}
		return f
	}
	b.Reset()
	b.WriteString("Field_ID  N   Frt date\n")
	for _, e := range p.Fert {
		fmt.Fprintf(&b, "%-9s %d %s  %s\n", field(e.Field), e.Amount, e.Kind, e.Date.Fmt(p.DateFmt))
	}
	b.WriteString("end\n")
	if err := w("fert_"+p.Name+".txt", b.String()); err != nil {
		return err
	}
	b.Reset()
	b.WriteString("Field_ID  Ir N03 date\n")
	for _, e := range p.Irr {
		fmt.Fprintf(&b, "%-9s %d  %d %s\n", field(e.Field), e.MM, e.Conc, e.Date.Fmt(p.DateFmt))
	}
	b.WriteString("end\n")
	if err := w("irr_"+p.Name+".txt", b.String()); err != nil {
		return err
	}
	b.Reset()
	b.WriteString("Field_ID  Ti Typ date\n          cm\n")
	for _, e := range p.Til {
		fmt.Fprintf(&b, "%-9s %d %d   %s\n", field(e.Field), e.Depth, e.Kind, e.Date.Fmt(p.DateFmt))
	}
	b.WriteString("end\n")
	if err := w("til_"+p.Name+".txt", b.String()); err != nil {
		return err
	}
	// measurements (initial values); the first one carries the initial state
	b.Reset()
	b.WriteString("Plot_ID   Date     Nm03 Nm36 Nm69 M W0_3  W3_6  W6_9  NM9-12 NM12-15 NM15-20  W9-12 W12-15 W15-20\n")
	for _, m := range p.Meas {
		fmt.Fprintf(&b, "ALLE      %s %04d %04d %04d %s %.3f %.3f %.3f %04d   %04d    %04d     %.3f %.3f  %.3f\n",
			m.Date.Fmt(p.DateFmt), m.Nmin[0], m.Nmin[1], m.Nmin[2], m.Mode, m.Water[0], m.Water[1], m.Water[2],
			m.Nmin[3], m.Nmin[4], m.Nmin[5], m.Water[3], m.Water[4], m.Water[5])
	}
	b.WriteString("end\n")
	if err := w("endit_"+p.Name+".txt", b.String()); err != nil {
		return err
	}
	if len(p.GWSerie) > 0 {
		b.Reset()
		b.WriteString("SID,Date,Level\n")
		// the file holds the series of several soils: rows of other ids — among them ids that START WITH this soil's id and an id
		// that is a proper prefix of it — lie between the rows of this soil, on other dates and with other levels
		for i, g := range p.GWSerie {
			if i%2 == 0 {
				fmt.Fprintf(&b, "%s5,%s,%g\n", p.SoilID, g.Date.AddDays(2).Fmt(p.DateFmt), g.Level+7)
			}
			fmt.Fprintf(&b, "%s,%s,%g\n", p.SoilID, g.Date.Fmt(p.DateFmt), g.Level)
			if i%3 == 0 {
				fmt.Fprintf(&b, "%sa,%s,%g\n", p.SoilID, g.Date.AddDays(1).Fmt(p.DateFmt), g.Level+11)
			}
			if i%2 == 1 && len(p.SoilID) > 1 {
				fmt.Fprintf(&b, "%s,%s,%g\n", p.SoilID[:len(p.SoilID)-1], g.Date.AddDays(3).Fmt(p.DateFmt), g.Level+5)
			}
		}
		if err := w("gw_"+p.Name+".csv", b.String()); err != nil {
			return err
		}
	}
	// automatic management table and output configurations from the shipped example
	for _, f := range []string{"automan.txt"} {
		src, err := os.ReadFile(filepath.Join(repo, "examples", "project", "myP", f))
		if err != nil {
			return err
		}
		if _, err := os.Stat(filepath.Join(dir, f)); err != nil {
			if err := w(f, string(src)); err != nil {
				return err
			}
		}
	}
	if err := w("dailyout_conf.yml", OutputConf(p.dailyCols())); err != nil {
		return err
	}
	if err := w("yearlyout_conf.yml", OutputConf([]string{"AKTUELL", "OUTSUM", "SICKER", "AUFNASUM", "PerY"})); err != nil {
		return err
	}
	if err := w("cropout_conf.yml", OutputConf([]string{"Crop", "SowDate", "HarvestYear", "SowDOY", "EmergDOY", "AnthDOY", "MatDOY", "HarvestDOY", "Yield", "Biomass", "Roots", "LAImax", "Nuptake"})); err != nil {
		return err
	}
	mc, err := os.ReadFile(filepath.Join(repo, "examples", "project", "bulk", "managementout_conf.yml"))
	if err != nil {
		return err
	}
	if err := w("managementout_conf.yml", strings.ReplaceAll(string(mc), "enabled: false", "enabled: true")); err != nil {
		return err
	}
	return p.WriteWeather(root)
}

func (p *Project) dailyCols() []string {
	if p.DailyCols != nil {
		return p.DailyCols
	}
	return []string{"AKTUELL", "REGENdaily", "TEMPdaily", "ETA", "SICKER", "LAI", "OBMAS", "GRW"}
}

// OutputConf renders an output configuration: names "VAR", "VAR[i]", "VAR[i][j]", "VAR.Sub".
func OutputConf(cols []string) string {
	var b strings.Builder
	b.WriteString("FillCharacter: ' '\nSeperatorCharacter: ','\nNaValue: n.a.\nDataColumns:\n")
	for _, c := range cols {
		name := c
		idx := []string{}
		for strings.HasSuffix(name, "]") {
			i := strings.LastIndex(name, "[")
			idx = append([]string{name[i+1 : len(name)-1]}, idx...)
			name = name[:i]
		}
		format := "%v"
		fmt.Fprintf(&b, "- Format: '%s'\n  DataAlignment: left\n  Width: 12\n  VariableName: %s\n", format, name)
		if len(idx) > 0 {
			fmt.Fprintf(&b, "  VarIndex1: %s\n", idx[0])
		}
		if len(idx) > 1 {
			fmt.Fprintf(&b, "  VarIndex2: %s\n", idx[1])
		}
	}
	return b.String()
}

func fnum(x float64, none string) string {
	if math.IsNaN(x) {
		return none
	}
	return fmt.Sprintf("%g", x)
}

// WriteWeather writes the series in the project's layout under root/weather/gen.
func (p *Project) WriteWeather(root string) error {
	dir := filepath.Join(root, "weather", "gen")
	if err := os.MkdirAll(dir, 0o755); err != nil {
		return err
	}
	none := strings.Trim(p.Cfg["WeatherNoneValue"], "\"")
	code := p.fcode()
	switch p.WeatherFmt {
	case 1:
		var b strings.Builder
		b.WriteString("iso-date,tmin,tavg,tmax,precip,globrad,wind,relhumid,sunhours\n")
		b.WriteString("[],[°C],[°C],[°C],[mm],[MJ m-2],[m/s],[%],[h]\n")
		for _, d := range p.Weather {
			fmt.Fprintf(&b, "%s,%g,%g,%g,%g,%s,%g,%g,%s\n", d.Date, d.Tmin, d.Tavg, d.Tmax, d.Precip, fnum(d.Rad, none), d.Wind, d.RH, fnum(d.Sun, none))
		}
		return os.WriteFile(filepath.Join(dir, code+".csv"), []byte(b.String()), 0o644)
	case 2:
		var b strings.Builder
		b.WriteString("@YYYYJJJ RAD TMAX TMIN RH WIND PREC\n")
		b.WriteString("units\n")
		for _, d := range p.Weather {
			fmt.Fprintf(&b, "%04d%03d %g %g %g %g %g %g\n", d.Date.Y, d.Date.DOY(), d.Rad, d.Tmax, d.Tmin, d.RH, d.Wind, d.Precip)
		}
		return os.WriteFile(filepath.Join(dir, code+".csv"), []byte(b.String()), 0o644)
	case 0:
		// one file per year: <code>.<ext>, ext from the year (see path.go yearToExtension)
		byYear := map[int][]WDay{}
		for _, d := range p.Weather {
			byYear[d.Date.Y] = append(byYear[d.Date.Y], d)
		}
		for y, days := range byYear {
			var b strings.Builder
			b.WriteString("tavg;tmin;tmax;ET0;relhumid;vapp14;wind;sundu;globrad;precip;jday\n")
			b.WriteString("C_deg;C_deg;C_deg;mm;%;mm_Hg;m/s;hours;MJ m-2 d-1;mm;\n")
			b.WriteString("50;2;-----;-----;-----;-----;-----;-----;------;-- -;-\n")
			for _, d := range days {
				fmt.Fprintf(&b, "%g;%g;%g;%s;%g;%s;%g;%s;%s;%g;%d\n", d.Tavg, d.Tmin, d.Tmax, none, d.RH, fnum(d.Verd, none), d.Wind, fnum(d.Sun, none), fnum(d.Rad, none), d.Precip, d.Date.DOY())
			}
			if err := os.WriteFile(filepath.Join(dir, code+"."+YearExt(y)), []byte(b.String()), 0o644); err != nil {
				return err
			}
		}
		return nil
	}
	return fmt.Errorf("unknown weather format %d", p.WeatherFmt)
}

// YearExt mirrors the file-extension convention of the one-file-per-year layout (path.go:181-196):
// 19yy -> "9yy", 20yy -> "0yy".
func YearExt(y int) string {
	s := fmt.Sprintf("%04d", y)
	if y >= 2000 {
		return "0" + s[2:4]
	}
	return "9" + s[2:4]
}

func (p *Project) fcode() string { return "w" + p.Name }

// BatchArgs is the batch line of the project.
func (p *Project) BatchArgs() []string {
	a := []string{"project=" + p.Name, "plotNr=" + p.Plot, "poligonID=P" + p.Name, "fcode=" + p.fcode()}
	return append(a, p.Args...)
}

// ---------------------------------------------------------------- running

// MemOut captures result files in memory.
type MemOut struct {
	mu    sync.Mutex
	Files map[string]*bytes.Buffer
}

type memWriter struct {
	b *bytes.Buffer
}

func (m *memWriter) Write(s string) (int, error)      { return m.b.WriteString(s) }
func (m *memWriter) WriteBytes(s []byte) (int, error) { return m.b.Write(s) }
func (m *memWriter) WriteRune(r rune) (int, error)    { return m.b.WriteRune(r) }
func (m *memWriter) WriteError(e error) (int, error)  { return m.b.WriteString(e.Error()) }
func (m *memWriter) Close()                           {}
func (o *MemOut) Gen(p string, app bool) (hermes.OutWriter, error) {
	o.mu.Lock()
	defer o.mu.Unlock()
	if o.Files == nil {
		o.Files = map[string]*bytes.Buffer{}
	}
	key := filepath.Base(p)
	b, ok := o.Files[key]
	if !ok || !app {
		b = &bytes.Buffer{}
		o.Files[key] = b
	}
	return &memWriter{b}, nil
}

// File returns the captured file whose base name starts with the prefix letter (V, Y, C, M).
func (o *MemOut) File(prefix string) string {
	for k, b := range o.Files {
		if strings.HasPrefix(k, prefix) {
			return b.String()
		}
	}
	return ""
}

var runMu sync.Mutex

type RunResult struct {
	Err     error
	Out     *MemOut
	Log     []string
	Panic   string
	Elapsed time.Duration
}

// Run executes the project in-process. probes may be nil. Runs are serialised because the probe
// registration is a package-level variable of hermes (verif build only).
func Run(root string, p *Project, probes *hermes.VerifProbes) *RunResult {
	runMu.Lock()
	defer runMu.Unlock()
	vh.Crumb("whole-run", map[string]interface{}{"root": root, "project": p})
	// the run raises the transport-instability flag (nitro.go: "C1 unstable", sticky for the rest of the run) when
	// the explicit convection-dispersion step overshoots: from then on its state is the output of an unstable
	// scheme. Violations reported for such a run are tagged (vh.RunContext) so that this one documented cause is
	// told apart from every other one.
	vh.RunContext = ""
	wrapped := &hermes.VerifProbes{}
	if probes != nil {
		*wrapped = *probes
	}
	userNitro, userEnd := wrapped.AfterNitro, wrapped.DayEnd
	wrapped.AfterNitro = func(g *hermes.GlobalVarsMain, w *hermes.WaterSharedVars, n *hermes.NitroSharedVars, zeit, subd int, wdt, steps float64) {
		if g.C1NotStableErr != "" {
			vh.RunContext = "unstable-transport"
		}
		if userNitro != nil {
			userNitro(g, w, n, zeit, subd, wdt, steps)
		}
	}
	wrapped.DayEnd = func(g *hermes.GlobalVarsMain, w *hermes.WaterSharedVars, n *hermes.NitroSharedVars, c *hermes.CropSharedVars, zeit int) {
		if g.C1NotStableErr != "" {
			vh.RunContext = "unstable-transport"
		}
		if userEnd != nil {
			userEnd(g, w, n, c, zeit)
		}
	}
	hermes.VerifProbe = wrapped
	defer func() { hermes.VerifProbe = nil }()
	session := hermes.NewHermesSession()
	defer session.Close()
	mo := &MemOut{}
	session.HermesOutWriter = mo.Gen
	out := make(chan *hermes.RunReturn, 1)
	logs := make(chan string, 1024)
	res := &RunResult{Out: mo}
	done := make(chan struct{})
	go func() {
		for l := range logs {
			res.Log = append(res.Log, l)
		}
		close(done)
	}()
	t0 := time.Now()
	func() {
		defer func() {
			if r := recover(); r != nil {
				res.Panic = fmt.Sprint(r)
			}
		}()
		session.Run(root, p.BatchArgs(), p.Name, out, logs)
	}()
	res.Elapsed = time.Since(t0)
	close(logs)
	<-done
	select {
	case rr := <-out:
		res.Err = rr.Err
	default:
		if res.Panic == "" {
			res.Panic = "no result returned"
		}
	}
	return res
}
