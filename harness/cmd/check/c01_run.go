package main

import (
	"fmt"
	"math"
	"strings"

	"github.com/zalf-rpm/Hermes2Go/hermes"
	"verifharness/proj"
	"verifharness/vh"
)

// waterRunObserver follows one whole simulation through the verif probes and evaluates the water
// balance of C01 (and, when bounds is set, the bounds of C06) on the implementation, per sub-step
// and per day; it also collects real (reachable) inputs/outputs of hermes.Water and of the
// sub-step selection for the correspondence with the Lean model.
type waterRunObserver struct {
	c      *vh.Ctx
	p      *proj.Project
	tag    string // generator class, part of the violation signatures
	measZ  map[int]bool
	sample *vh.Rng

	// per day
	zeit                       int
	sStart, sPrev              float64
	fluss0                     float64
	sumWdt, sumTP, sumQN, sumQD float64
	nsub                       int
	wdt0                       float64
	lastEnd                    float64
	haveLast                   bool
	lastGRW                    float64
	cSick, cCap, cDrai         float64
	cInf, cTray                float64
	pending                    *waterCase // inputs of the next Water call (captured before it)
	takeDay                    bool

	cases, impl []string
	kept        []waterCase
	subCases    []string
	subImpl     []string
	maxSteps    int
	days        int
	sumGW       float64  // Σ groundwater uptake · wdt of the day
	cSick0, cCap0, cDrai0 float64 // counters at the day-start probe
	akfStart    int      // crop index at the day-start probe
	pub         []pubDay // per simulated day: what the public-terms balance needs besides the daily file (c01_public.go)
}

func profileStorage(g *hermes.GlobalVarsMain, k int) float64 {
	s := 0.0
	for i := 0; i < g.N; i++ {
		s += g.WG[k][i] * g.DZ.Num
	}
	return s
}

func captureWaterIn(g *hermes.GlobalVarsMain, w *hermes.WaterSharedVars, first bool, wdt float64) *waterCase {
	wc := &waterCase{N: g.N, First: first, Draidep: g.DRAIDEP, Outn: g.OUTN, Dz: g.DZ.Num, Wdt: wdt, Fluss0: g.FLUSS0,
		Grw: g.GRW, Draifak: g.DRAIFAK, Gwauf: w.GWAUF, EvTail: w.EV[g.N], Q0prev: g.Q1[0], Branch: "run"}
	k := 1
	if first {
		k = 0
	}
	for i := 0; i < g.N; i++ {
		wc.Wg = append(wc.Wg, g.WG[k][i])
		wc.Tp = append(wc.Tp, g.TP[i])
		wc.W = append(wc.W, g.W[i])
		wc.Wmin = append(wc.Wmin, g.WMIN[i])
		wc.Ev = append(wc.Ev, w.EV[i])
		wc.Nfk = append(wc.Nfk, w.NFK[i])
	}
	wc.Caps = append(wc.Caps, g.CAPS[:21]...)
	return wc
}

func (o *waterRunObserver) tol(terms ...float64) float64 {
	s := 1.0
	for _, t := range terms {
		s += math.Abs(t)
	}
	return 1e-9 * s
}

func (o *waterRunObserver) probes() *hermes.VerifProbes {
	return &hermes.VerifProbes{
		DayStart: func(g *hermes.GlobalVarsMain, w *hermes.WaterSharedVars, n *hermes.NitroSharedVars, cs *hermes.CropSharedVars, zeit int, wdt float64) {
			o.zeit = zeit
			o.days++
			o.sStart = profileStorage(g, 0)
			o.sPrev = o.sStart
			o.fluss0 = g.FLUSS0
			o.sumWdt, o.sumTP, o.sumQN, o.sumQD, o.nsub = 0, 0, 0, 0, 0
			o.sumGW, o.akfStart = 0, g.AKF.Index
			o.cSick0, o.cCap0, o.cDrai0 = g.SICKER, g.CAPSUM, g.DRAISUM
			o.wdt0 = wdt
			o.cSick, o.cCap, o.cDrai = g.SICKER, g.CAPSUM, g.DRAISUM
			o.cInf, o.cTray = g.INFILT, g.TRAY
			o.c.Eval()
			// surface flux = rain + irrigation - actual evaporation
			regen := g.REGEN[g.TAG.Index]
			if d := math.Abs(g.FLUSS0 - (regen - g.ETA)); !(d <= o.tol(regen, g.ETA)) {
				o.c.Violate("search", "water-run:surface-flux:"+o.tag, fmt.Sprintf("day %d: surface flux %.12g differs from rain+irrigation-evaporation %.12g", zeit, g.FLUSS0, regen-g.ETA), o.p)
			}
			if d := math.Abs(regen - (g.REGENdaily + g.EffectiveIRRIG)); !(d <= o.tol(regen)) {
				o.c.Violate("search", "water-run:irrigation-not-in-infiltration:"+o.tag, fmt.Sprintf("day %d: water reaching the surface %.12g is not rain %.12g + irrigation %.12g", zeit, regen, g.REGENdaily, g.EffectiveIRRIG), o.p)
			}
			// continuity between days (no water appears or disappears outside the water routine);
			// excluded: measurement-overwrite days and days on which the groundwater level moved
			gwRests := g.GRW == o.lastGRW
			if _, rests, ok := o.p.GWSeriesLevel(zeit); ok && o.p.Cfg["GroundWaterFrom"] == "gwTimeSeries" {
				// groundwater time series: whether the table moved is read from the INPUT series — on a stretch
				// between two records of the same level the table rests and the day must connect exactly
				gwRests = rests
				if rests {
					o.c.Count("run:gw-series:resting-day")
				} else {
					o.c.Count("run:gw-series:moving-day")
				}
			}
			if o.haveLast && !o.measZ[zeit] && gwRests {
				if d := math.Abs(o.sStart - o.lastEnd); !(d <= o.tol(o.sStart)) {
					o.c.Violate("search", "water-run:day-continuity:"+o.tag, fmt.Sprintf("day %d starts with %.12g cm of water, the previous day ended with %.12g", zeit, o.sStart, o.lastEnd), o.p)
				}
			}
			// sub-step selection: real inputs of run.go:494-524 for the correspondence with Water.substeps
			o.takeDay = o.sample.Chance(0.03) || wdt < 1
			if o.takeDay && len(o.subCases) < 4000 {
				line := fmt.Sprintf("water.substeps %d %s", g.N, vh.FVals(g.DZ.Num, g.FLUSS0, g.REGEN[g.TAG.Index]))
				line += " " + vh.FVals(g.W[:g.N]...) + " " + vh.FVals(g.WG[0][:g.N]...)
				o.subCases = append(o.subCases, line)
				steps := 1.0
				wd := wdt
				if wdt < 1 {
					steps = math.Round(1 / wdt)
				} else {
					wd = 1
				}
				o.subImpl = append(o.subImpl, vh.FVals(wd, steps))
			}
			o.pending = captureWaterIn(g, w, true, math.Min(wdt, 1))
		},
		AfterWater: func(g *hermes.GlobalVarsMain, w *hermes.WaterSharedVars, zeit, subd int, wdt, steps float64) {
			o.nsub++
			if int(steps) > o.maxSteps {
				o.maxSteps = int(steps)
			}
			o.c.Count(fmt.Sprintf("run:steps=%s", stepBucket(int(steps))))
			sAfter := profileStorage(g, 1)
			tp := 0.0
			for i := 0; i < g.N; i++ {
				tp += g.TP[i]
			}
			qn, qd := g.Q1[g.N], g.QDRAIN
			want := o.sPrev - wdt*tp + g.FLUSS0*wdt - qn - qd
			if d := math.Abs(sAfter - want); !(d <= o.tol(o.sPrev, wdt*tp, g.FLUSS0*wdt, qn, qd)) {
				o.c.Violate("search", "water-run:substep-balance:"+o.tag, fmt.Sprintf("day %d sub-step %d/%d: storage %.12g, expected %.12g (residual %.3g)", zeit, subd, int(steps), sAfter, want, sAfter-want), o.p)
			}
			// reported counters
			rep := (g.SICKER - o.cSick) + (g.CAPSUM - o.cCap)
			wantRep := 10*g.Q1[g.OUTN] - 10*w.GWAUF*wdt
			if d := math.Abs(rep - wantRep); !(d <= o.tol(g.SICKER, g.CAPSUM, wantRep)) {
				o.c.Violate("search", "water-run:reported-boundary-flux:"+o.tag, fmt.Sprintf("day %d sub-step %d: percolation+capillary counters grew by %.12g, boundary flux is %.12g", zeit, subd, rep, wantRep), o.p)
			}
			if d := math.Abs((g.DRAISUM - o.cDrai) - 10*qd); !(d <= o.tol(g.DRAISUM, qd)) {
				o.c.Violate("search", "water-run:reported-drain:"+o.tag, fmt.Sprintf("day %d sub-step %d: drain counter grew by %.12g, drain flux is %.12g", zeit, subd, g.DRAISUM-o.cDrai, 10*qd), o.p)
			}
			// infiltration and transpiration counters
			dI, dT := g.INFILT-o.cInf, g.TRAY-o.cTray
			wantI := 0.0
			if g.FLUSS0 > 0 {
				wantI = g.FLUSS0 * wdt
			}
			if d := math.Abs(dI - wantI); !(d <= o.tol(g.INFILT, wantI)) {
				o.c.Violate("search", "water-run:reported-infiltration:"+o.tag, fmt.Sprintf("day %d sub-step %d: infiltration counter grew by %.12g, surface flux*wdt is %.12g", zeit, subd, dI, wantI), o.p)
			}
			if d := math.Abs(dT - wdt*tp); !(d <= o.tol(g.TRAY, wdt*tp)) {
				o.c.Violate("search", "water-run:reported-transpiration:"+o.tag, fmt.Sprintf("day %d sub-step %d: transpiration counter grew by %.12g, uptake*wdt is %.12g", zeit, subd, dT, wdt*tp), o.p)
			}
			o.cSick, o.cCap, o.cDrai = g.SICKER, g.CAPSUM, g.DRAISUM
			o.cInf, o.cTray = g.INFILT, g.TRAY
			o.sumWdt += wdt
			o.sumTP += wdt * tp
			o.sumQN += qn
			o.sumQD += qd
			o.sumGW += w.GWAUF * wdt
			o.sPrev = sAfter
			// correspondence sample: this call of Water on its real input
			if o.pending != nil && o.takeDay && len(o.cases) < 6000 {
				o.pending.Wdt = wdt
				var wo waterOut
				wo.Wg1 = append(wo.Wg1, g.WG[1][:g.N]...)
				wo.Tp = append(wo.Tp, g.TP[:g.N]...)
				wo.Ev = append(wo.Ev, w.EV[:g.N]...)
				wo.EvTail = w.EV[g.N]
				wo.Q1 = append(wo.Q1, g.Q1[:g.N+1]...)
				wo.Qdrain = g.QDRAIN
				o.cases = append(o.cases, "water.stepr"+strings.TrimPrefix(o.pending.line(), "water.step"))
				o.impl = append(o.impl, wo.runLine())
				o.kept = append(o.kept, *o.pending)
			}
			o.pending = captureWaterIn(g, w, false, wdt)
		},
		AfterNitro: func(g *hermes.GlobalVarsMain, w *hermes.WaterSharedVars, n *hermes.NitroSharedVars, zeit, subd int, wdt, steps float64) {
			// nmove rewrites Q1[0] = FLUSS0*wdt (nitro.go:741) after every Water call: the stale value the next Water call
			// meets in its zero-flux branch is the one left here (matters only for a surface flux of exactly ±0)
			if o.pending != nil {
				o.pending.Q0prev = g.Q1[0]
			}
		},
		DayEnd: func(g *hermes.GlobalVarsMain, w *hermes.WaterSharedVars, n *hermes.NitroSharedVars, cs *hermes.CropSharedVars, zeit int) {
			sEnd := profileStorage(g, 1)
			// the sub-steps cover the whole day: nothing of the day's fluxes is dropped or applied twice
			if d := math.Abs(o.sumWdt - 1); !(d <= 1e-9) {
				o.c.Violate("search", fmt.Sprintf("water-run:substeps-do-not-cover-day:%s", o.tag),
					fmt.Sprintf("day %d: %d sub-steps of length %.17g cover %.12g of the day", zeit, o.nsub, o.wdt0, o.sumWdt), o.p)
			}
			want := o.sStart + o.fluss0 - o.sumTP - o.sumQN - o.sumQD
			if d := math.Abs(sEnd - want); !(d <= o.tol(o.sStart, o.fluss0, o.sumTP, o.sumQN, o.sumQD)) {
				k := ""
				if r := sEnd - want; r != 0 && o.fluss0 != 0 {
					k = fmt.Sprintf(" (= surface flux / %.2f)", o.fluss0/r)
				}
				o.c.Violate("search", "water-run:day-balance:"+o.tag, fmt.Sprintf("day %d: storage change %.12g, surface flux %.12g - uptake %.12g - lower boundary %.12g - drain %.12g = %.12g; residual %.3g%s",
					zeit, sEnd-o.sStart, o.fluss0, o.sumTP, o.sumQN, o.sumQD, want-o.sStart, sEnd-want, k), o.p)
			}
			o.c.Nontrivial(fmt.Sprintf("%s/%d", o.p.Name, zeit))
			o.pub = append(o.pub, pubDay{Zeit: zeit, SStart: o.sStart, Gwauf: o.sumGW, Dz: g.DZ.Num, N: g.N, Outn: g.OUTN, Nsub: o.nsub,
				Harvest: g.AKF.Index != o.akfStart, CropAKF: o.akfStart, AutoHarv: g.AUTOHAR, Sick0: o.cSick0, Cap0: o.cCap0, Drai0: o.cDrai0})
			o.lastEnd, o.haveLast, o.lastGRW = sEnd, true, g.GRW
			o.pending = nil
		},
	}
}

func stepBucket(n int) string {
	switch {
	case n <= 1:
		return "1"
	case n <= 2:
		return "2"
	case n <= 4:
		return "3-4"
	case n <= 8:
		return "5-8"
	case n <= 32:
		return "9-32"
	case n <= 92:
		return "33-92"
	}
	return ">=93"
}

// runLine: the outputs of Water observable after a real call inside a run.
func (o *waterOut) runLine() string {
	var all []float64
	all = append(all, o.Wg1...)
	all = append(all, o.Tp...)
	all = append(all, o.Ev...)
	all = append(all, o.EvTail)
	all = append(all, o.Q1...)
	all = append(all, o.Qdrain)
	return vh.FVals(all...)
}

// waterOptClass draws the generator class of one whole-run case.
func waterOptClass(r *vh.Rng, k int) (proj.Opt, string) {
	switch k % 10 {
	case 8:
		return proj.Opt{Management: true}, "auto-irrigation"
	case 9:
		return proj.Opt{Management: true, Drain: r.Chance(0.3)}, "auto-management"
	case 0:
		return proj.Opt{}, "plain"
	case 1:
		return proj.Opt{Extreme: true}, "extreme-rain"
	case 2:
		return proj.Opt{Drain: true, Extreme: r.Chance(0.5)}, "drain"
	case 3:
		return proj.Opt{ShallowGW: true}, "shallow-gw"
	case 4:
		return proj.Opt{NoCrop: true, Extreme: r.Chance(0.5)}, "bare"
	case 5:
		return proj.Opt{Management: true}, "irrigation"
	case 6:
		return proj.Opt{Extreme: true, MaxLayers: 3, Drain: r.Chance(0.5)}, "thin-extreme"
	}
	return proj.Opt{ShallowGW: true, Drain: true, Management: true}, "gw-drain-irrigation"
}

// waterRunStage: whole simulations observed through the probes.
func waterRunStage(c *vh.Ctx, runs int) {
	var cases, impl, subCases, subImpl []string
	var kept []waterCase
	maxSteps, days, failed := 0, 0, 0
	for k := 0; k < runs; k++ {
		r := c.Rng.Fork()
		opt, tag := waterOptClass(r, k)
		if o2, t2, ok := c01Class2(r, k); ok {
			opt, tag = o2, t2 // second decade: groundwater series / sinus inside the profile, automatic harvest by ripeness
		}
		p := proj.Gen(r, fmt.Sprintf("w%d", k), opt)
		p.Cfg["ETpot"] = fmt.Sprint([]int{2, 3, 4}[k%3])
		if k%16 == 7 {
			p.Cfg["ETpot"] = []string{"0", "6"}[(k/16)%2] // no ET method: potential ET stays 0, the balance must still close
		}
		if n := p.N(); n < 20 && (n+k)%9 == 0 {
			p.Cfg["LeachingDepth"] = fmt.Sprint(n + 1 + (k/9)%(20-n)) // below the profile bottom (the shipped default 15 on a short soil)
		}
		class2Rows := c01SetupClass2(r, p, tag)
		p.DailyCols = c01PublicCols(p.N())
		if tag == "extreme-rain" || tag == "thin-extreme" {
			steerManySubsteps(r, p)
		}
		if tag == "auto-irrigation" || tag == "auto-management" {
			p.Cfg["AutoIrrigation"] = "1"
			if tag == "auto-management" {
				p.Cfg["AutoSowingHarvest"], p.Cfg["AutoHarvest"], p.Cfg["AutoFertilization"] = "1", "1", "1"
				p.Til = nil // tillage between moved sowing and harvest dates would reject the run
				if p.N() <= 20 {
					p.Cfg["LeachingDepth"] = fmt.Sprint(p.N()) // counters at the profile bottom: the public-terms balance is evaluated (c01_public.go)
				}
			}
		}
		if err := p.Write(c.Scratch, c.Repo); err != nil {
			c.Violate("search", "harness:write", err.Error(), nil)
			return
		}
		if tag == "auto-irrigation" || tag == "auto-management" {
			// automatic-management table for every crop of the rotation (generator of the C16 check)
			var entries []proj.AutoEntry
			seen := map[string]bool{}
			for _, re := range p.Rot {
				for _, cc := range proj.Crops {
					if cc.Code == re.Crop && !seen[cc.Code] {
						seen[cc.Code] = true
						e := genAutoEntry(r, cc)
						if tag == "auto-management" {
							c01Ripe(&e, cc, 35) // harvest as soon as the crop is ripe (crop.go:182-204), while it still transpires
						}
						entries = append(entries, e)
					}
				}
			}
			if tag == "auto-management" {
				entries = c01Premise(p, entries, true, true)
			}
			if err := p.WriteAutoman(c.Scratch, entries); err != nil {
				c.Violate("search", "harness:write", err.Error(), nil)
				return
			}
		}
		if class2Rows != nil {
			if err := p.WriteAutoman(c.Scratch, class2Rows); err != nil {
				c.Violate("search", "harness:write", err.Error(), nil)
				return
			}
		}
		o := &waterRunObserver{c: c, p: p, tag: tag, measZ: map[int]bool{}, sample: r.Fork()}
		for _, m := range p.Meas {
			o.measZ[m.Date.Z()] = true
		}
		res := proj.Run(c.Scratch, p, o.probes())
		c.Count("run:class=" + tag)
		if res.Panic != "" {
			c.Violate("search", "water-run:panic:"+tag, "run panicked: "+res.Panic, p)
			continue
		}
		if res.Err != nil {
			failed++
			c.Count("run:error")
			c.Note("run %s ended with error: %v", p.Name, res.Err)
			continue
		}
		o.publicBalance(res)
		days += o.days
		if o.maxSteps > maxSteps {
			maxSteps = o.maxSteps
		}
		if k < 1 {
			c.Sample(map[string]interface{}{"whole_run": p.Name, "class": tag, "layers": p.N(), "days": o.days, "max_substeps": o.maxSteps, "soil": p.Soil, "rotation": p.Rot})
		}
		cases = append(cases, o.cases...)
		impl = append(impl, o.impl...)
		kept = append(kept, o.kept...)
		subCases = append(subCases, o.subCases...)
		subImpl = append(subImpl, o.subImpl...)
	}
	c.Res.Extra["whole_runs"] = runs
	c.Res.Extra["whole_run_days"] = days
	c.Res.Extra["whole_run_max_substeps"] = maxSteps
	c.Res.Extra["whole_runs_ended_with_error"] = failed
	if failed*4 > runs {
		c.Violate("search", "water-run:generator", fmt.Sprintf("%d of %d generated runs ended with an error: the whole-run stage does not cover enough", failed, runs), nil)
	}
	saved := kept
	c.Correspond("water.step@run", cases, impl, 1e-9, 1e-12, func(i int) interface{} { return saved[i] })
	c.Correspond("water.substeps@run", subCases, subImpl, 0, 0, func(i int) interface{} { return subCases[i] })
}

// steerManySubsteps: stones and rain depths chosen so that days with many sub-steps occur
// (the sub-step count grows with rain / (field capacity * 10/3)).
func steerManySubsteps(r *vh.Rng, p *proj.Project) {
	for i := range p.Soil {
		if r.Chance(0.7) {
			p.Soil[i].Stone = r.Range(80, 97)
		}
	}
	for i := range p.Weather {
		if r.Chance(0.01) {
			p.Weather[i].Precip = vh.RoundTo(r.Uni(20, 400), 1)
		}
	}
}
