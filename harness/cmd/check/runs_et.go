package main

import (
	"encoding/json"
	"fmt"
	"math"
	"os"
	"path/filepath"
	"reflect"
	"strconv"
	"strings"
	"unsafe"

	"github.com/zalf-rpm/Hermes2Go/hermes"
	"verifharness/proj"
	"verifharness/vh"
)

// Whole generated simulations observed through the verif probes, shared by C08 (ET partition) and
// C06 (bounds of the water content, finiteness of the state).

type etVariant struct {
	Name   string
	Method int
	Setup  func(r *vh.Rng, p *proj.Project) (w *proj.ETWeather) // w == nil: the weather written by p.Write is used
	Opt    proj.Opt
}

func regenClimate(p *proj.Project, f func(c *proj.Climate)) {
	f(&p.Climate)
	p.GenWeather()
}

var etVariants = []etVariant{
	{Name: "penman-constant-gw", Method: 3, Opt: proj.Opt{ShallowGW: true, Management: true}},
	{Name: "turc-sunshine-only", Method: 2, Setup: func(r *vh.Rng, p *proj.Project) *proj.ETWeather {
		p.FillET(r, 0.5, 0)
		return &proj.ETWeather{}
	}},
	{Name: "haude-satdeficit", Method: 1, Setup: func(r *vh.Rng, p *proj.Project) *proj.ETWeather {
		p.FillET(r, 0, 0)
		return &proj.ETWeather{}
	}},
	{Name: "et0-column", Method: 5, Setup: func(r *vh.Rng, p *proj.Project) *proj.ETWeather {
		et0 := p.FillET(r, 0.1, 0)
		p.UseYearFiles()
		return &proj.ETWeather{ET0: et0, YearFiles: true}
	}},
	{Name: "priestley-polar", Method: 4, Setup: func(r *vh.Rng, p *proj.Project) *proj.ETWeather {
		p.Cfg["Latitude"] = fmt.Sprintf("%.2f", []float64{66.6, 69.7, 78.2, 89.5, -67, -75}[r.Intn(6)])
		regenClimate(p, func(c *proj.Climate) { c.MeanT = r.Uni(-2, 6); c.AmpT = r.Uni(8, 14) })
		p.FillET(r, 0.3, 0)
		return &proj.ETWeather{}
	}},
	{Name: "penman-sinus-gw", Method: 3, Setup: func(r *vh.Rng, p *proj.Project) *proj.ETWeather {
		hi := r.Range(1, 8)
		p.SetGroundwaterPolygon(hi, hi+r.Range(0, 14), r.Intn(360))
		return nil
	}, Opt: proj.Opt{MinLayers: 4}},
	{Name: "turc-gw-series", Method: 2, Setup: func(r *vh.Rng, p *proj.Project) *proj.ETWeather {
		p.SetGroundwaterSeries(r, 0.5, float64(r.Range(4, 25)), r.Range(2, 40))
		return nil
	}, Opt: proj.Opt{MinLayers: 4}},
	{Name: "priestley-drought", Method: 4, Setup: func(r *vh.Rng, p *proj.Project) *proj.ETWeather {
		p.Cfg["KcFactorBareSoil"] = fmt.Sprintf("%.2f", r.Uni(0.4, 1.3))
		regenClimate(p, func(c *proj.Climate) {
			c.MeanT = r.Uni(14, 24)
			c.AmpT = r.Uni(6, 12)
			c.RainProb = r.Uni(0.02, 0.15)
			c.DrySpell = r.Range(60, 200)
		})
		return nil
	}},
	{Name: "penman-extreme-rain", Method: 3, Opt: proj.Opt{Extreme: true, Drain: true, Management: true}},
	{Name: "penman-bare-high-demand", Method: 3, Setup: func(r *vh.Rng, p *proj.Project) *proj.ETWeather {
		p.Cfg["KcFactorBareSoil"] = fmt.Sprintf("%.2f", r.Uni(0.9, 1.5))
		regenClimate(p, func(c *proj.Climate) { c.MeanT = r.Uni(16, 26); c.AmpT = r.Uni(4, 10); c.WindMean = r.Uni(3, 7) })
		return nil
	}, Opt: proj.Opt{NoCrop: true}},
	{Name: "turc-cold-continental", Method: 2, Setup: func(r *vh.Rng, p *proj.Project) *proj.ETWeather {
		regenClimate(p, func(c *proj.Climate) { c.MeanT = r.Uni(-6, 3); c.AmpT = r.Uni(14, 22); c.Frost = r.Uni(4, 10) })
		return nil
	}},
	{Name: "haude-sinus-gw-irrigated", Method: 1, Setup: func(r *vh.Rng, p *proj.Project) *proj.ETWeather {
		hi := r.Range(0, 5)
		p.SetGroundwaterPolygon(hi, hi+r.Range(2, 20), r.Intn(360))
		p.FillET(r, 0, 0)
		return &proj.ETWeather{}
	}, Opt: proj.Opt{Management: true, MinLayers: 3}},
	{Name: "stony-gw-sawtooth-heavy-rain", Method: 3, Setup: func(r *vh.Rng, p *proj.Project) *proj.ETWeather {
		// the region excluded by C06_lower_bound_day_partial: layers left above field capacity by a falling
		// groundwater table, stony (small capacities), rooted, on days with many sub-steps
		for h := range p.Soil {
			p.Soil[h].Stone = r.Range(70, 95)
		}
		p.RootDepth = p.N()
		p.Cfg["GroundWaterFrom"] = "gwTimeSeries"
		p.GWSerie = nil
		z, z1 := p.Start().Z()-30, p.End().Z()+30
		high := true
		for z <= z1 {
			lvl := r.Uni(1, 3)
			if !high {
				lvl = r.Uni(float64(p.N())+1, float64(p.N())+8)
			}
			p.GWSerie = append(p.GWSerie, proj.GWPoint{Date: proj.FromZ(z), Level: vh.RoundTo(lvl, 1)})
			if r.Chance(0.5) {
				z += 1 // abrupt change
			} else {
				z += r.Range(3, 40)
			}
			high = !high
		}
		regenClimate(p, func(c *proj.Climate) { c.MeanT = r.Uni(12, 20); c.RainProb = r.Uni(0.2, 0.5); c.ExtremeProb = r.Uni(0.1, 0.3); c.ExtremeMM = r.Uni(20, 80) })
		return nil
	}, Opt: proj.Opt{Extreme: true, MinLayers: 5}},
	{Name: "et0-column-gaps", Method: 5, Setup: func(r *vh.Rng, p *proj.Project) *proj.ETWeather {
		// single days of the ET0 column carry the none-sentinel (the other optional columns are gap-filled by the reader)
		et0 := p.FillET(r, 0, 0.02)
		p.UseYearFiles()
		return &proj.ETWeather{ET0: et0, YearFiles: true}
	}},
	{Name: "et0-gw-series-drain", Method: 5, Setup: func(r *vh.Rng, p *proj.Project) *proj.ETWeather {
		et0 := p.FillET(r, 0, 0)
		p.UseYearFiles()
		p.SetGroundwaterSeries(r, 1, float64(r.Range(3, 30)), r.Range(1, 12))
		return &proj.ETWeather{ET0: et0, YearFiles: true}
	}, Opt: proj.Opt{Drain: true, MinLayers: 3}},
	// ---- method / weather-column combinations in which no potential ET can be computed (appended: the older variants keep their index)
	{Name: "no-method", Method: 0, Setup: func(r *vh.Rng, p *proj.Project) *proj.ETWeather {
		// ETpot outside 1..5: no branch of the method chain is taken (water.go:135-205, 310-385)
		p.Cfg["ETpot"] = []string{"0", "6", "6", "9"}[r.Intn(4)]
		return nil
	}, Opt: proj.Opt{Management: true}},
	{Name: "et0-method-without-et0-column", Method: 5, Opt: proj.Opt{Management: true}}, // the CSV layout written by proj.Write has no ET0 column
	{Name: "haude-without-satdeficit-column", Method: 1},                                // ... and no saturation-deficit column
}

func zeroText(s string) bool {
	f, err := strconv.ParseFloat(strings.Trim(s, "\"'"), 64)
	return err == nil && f == 0
}

// etRunStyle: rendering of config.yml of a generated ET run (proj.WriteConfigStyle), keyed by project.
var etRunStyle = map[*proj.Project]int{}

// etBoundaryConfig: configuration values at the edges of their ranges, drawn from a generator derived
// from the run seed AFTER everything else (the projects of the older variants keep their other values).
func etBoundaryConfig(seed uint64, p *proj.Project, v etVariant) {
	r := vh.NewRng(seed ^ 0x3c6ef372fe94f82b)
	if r.Chance(0.2) {
		p.Cfg["KcFactorBareSoil"] = []string{"0", "0.05", "2.0", "2.0"}[r.Intn(4)]
	}
	if r.Chance(0.35) {
		p.Cfg["CoastDistance"] = []string{"0", "49", "50", "51", "300"}[r.Intn(5)]
	}
	if r.Chance(0.12) {
		p.Cfg["OrganicMatterMineralProportion"] = []string{"0", "1", "0.999"}[r.Intn(3)]
	}
	if r.Chance(0.2) {
		p.Cfg["CO2method"] = []string{"0", "4"}[r.Intn(2)]
	}
	if r.Chance(0.08) {
		p.Cfg["OutputIntervall"] = []string{"400", "5000"}[r.Intn(2)] // longer than the run: a daily file without records
	}
	if r.Chance(0.06) && len(p.GWSerie) == 0 {
		p.SetEnd(p.Start().AddDays(r.Intn(3))) // a run of one to three days (plus the days up to the annual output date)
	}
	if r.Chance(0.2) {
		etRunStyle[p] = r.Range(1, 4)
	}
}

// etDailyCols: the verification output configuration of these runs.
func etDailyCols(n int) []string {
	cols := []string{"AKTUELL", "REGENdaily", "TEMPdaily", "FLUSS0", "ETA", "VERDUNST", "ET0", "TRREL", "ETREL", "REDUK", "LURED",
		"SICKER", "CAPSUM", "DRAISUM", "INFILT", "GRW", "LAI", "OBMAS", "WURZ", "TRAY", "PFTRANS", "QDRAIN"}
	for i := 0; i < n; i++ {
		cols = append(cols, fmt.Sprintf("WG[1][%d]", i), fmt.Sprintf("TP[%d]", i), fmt.Sprintf("Q1[%d]", i+1), fmt.Sprintf("W[%d]", i), fmt.Sprintf("WMIN[%d]", i), fmt.Sprintf("TD[%d]", i))
	}
	return cols
}

// f64span: a run of float64 values inside a struct, found once per type by walking the type.
type f64span struct {
	off  uintptr
	n    int
	path string
}

func spansOf(t reflect.Type, base uintptr, path string, out *[]f64span) {
	switch t.Kind() {
	case reflect.Float64:
		*out = append(*out, f64span{base, 1, path})
	case reflect.Array:
		e := t.Elem()
		switch e.Kind() {
		case reflect.Float64:
			*out = append(*out, f64span{base, t.Len(), path})
		case reflect.Struct, reflect.Array:
			for i := 0; i < t.Len(); i++ {
				spansOf(e, base+uintptr(i)*e.Size(), fmt.Sprintf("%s[%d]", path, i), out)
			}
		}
	case reflect.Struct:
		for i := 0; i < t.NumField(); i++ {
			f := t.Field(i)
			spansOf(f.Type, base+f.Offset, path+"."+f.Name, out)
		}
	}
}

var spanCache = map[reflect.Type][]f64span{}

// nonFiniteIn scans every float64 stored inline in *ptr (fields, nested structs, arrays of any
// depth) and every []float64 field; returns the paths of NaN / ±Inf values (at most limit).
func nonFiniteIn(ptr interface{}, prefix string, out *[]string, limit int) {
	v := reflect.ValueOf(ptr).Elem()
	t := v.Type()
	spans, ok := spanCache[t]
	if !ok {
		spansOf(t, 0, "", &spans)
		spanCache[t] = spans
	}
	base := unsafe.Pointer(v.UnsafeAddr())
	for _, sp := range spans {
		xs := unsafe.Slice((*float64)(unsafe.Add(base, sp.off)), sp.n)
		for i, x := range xs {
			if x != x || x > math.MaxFloat64 || x < -math.MaxFloat64 {
				if len(*out) >= limit {
					return
				}
				if sp.n == 1 {
					*out = append(*out, prefix+sp.path)
				} else {
					*out = append(*out, fmt.Sprintf("%s%s[%d]", prefix, sp.path, i))
				}
			}
		}
	}
	for i := 0; i < t.NumField(); i++ {
		if t.Field(i).Type.Kind() == reflect.Slice && t.Field(i).Type.Elem().Kind() == reflect.Float64 && t.Field(i).PkgPath == "" {
			sl := v.Field(i)
			for k := 0; k < sl.Len(); k++ {
				x := sl.Index(k).Float()
				if math.IsNaN(x) || math.IsInf(x, 0) {
					if len(*out) >= limit {
						return
					}
					*out = append(*out, fmt.Sprintf("%s.%s[%d]", prefix, t.Field(i).Name, k))
				}
			}
		}
	}
}

// baseField strips indices: "GlobalVarsMain.WG[1][3]" -> "WG".
func baseField(path string) string {
	p := strings.TrimPrefix(path, ".")
	if i := strings.IndexAny(p, "[."); i >= 0 {
		p = p[:i]
	}
	return p
}

type etRunStats struct {
	Runs, Days, CropDays, UptakeDays, GwDays, GwChangeDays, MultiStepDays, MultiStepEvapDays, CapRiseDays, RecordsChecked int
	ByVariant                                                                                                            map[string]int
	MaxPet, MinPet                                                                                                       float64
	Errors                                                                                                               []string
}

// buildETProject: the project of one whole run is a function of (variant index, run seed) only, so
// that a replay file identifies it.
func buildETProject(vi int, seed uint64, name string) (*proj.Project, *proj.ETWeather, etVariant) {
	v := etVariants[vi%len(etVariants)]
	r := vh.NewRng(seed)
	opt := v.Opt
	opt.Years = 1 + r.Intn(3)
	if opt.MaxLayers == 0 {
		opt.MaxLayers = 20
	}
	p := proj.Gen(r, name, opt)
	p.Cfg["ETpot"] = fmt.Sprint(v.Method)
	p.Cfg["AutoIrrigation"] = "0"
	if r.Chance(0.3) {
		p.Cfg["CO2StomataInfluence"] = "0"
	}
	if r.Chance(0.3) {
		p.Cfg["Altitude"] = fmt.Sprint(r.Range(0, 2500))
	}
	if r.Chance(0.3) {
		p.Cfg["CoastDistance"] = fmt.Sprint(r.Range(0, 50))
	}
	var w *proj.ETWeather
	if v.Setup != nil {
		w = v.Setup(r, p)
	}
	if (p.Cfg["GroundWaterFrom"] == "gwTimeSeries" || p.Cfg["GroundWaterFrom"] == "polygonfile") && seed%2 == 0 {
		// a moving groundwater table over a profile whose capacities are given in the soil file (every horizon): the bound of
		// the water content against the INPUT's field capacity is then in force for every layer the table has left (derived from the
		// seed: no draw, the other runs are unchanged)
		for i := range p.Soil {
			if h := &p.Soil[i]; h.FC == 0 {
				h.WP = 8 + i%5
				h.FC = h.WP + 14 + i%7
				h.PV = h.FC + 8 + i%6
			}
		}
	}
	etBoundaryConfig(seed, p, v)
	p.DailyCols = etDailyCols(p.N())
	return p, w, v
}

// etReplay reads {"replay":{"variant_index":..,"run_seed":..}} from the file given with --replay.
func etReplay() (vi int, seed uint64, ok bool) {
	f := os.Getenv("VERIF_REPLAY")
	if f == "" {
		return
	}
	b, err := os.ReadFile(f)
	if err != nil {
		return
	}
	var doc struct {
		Replay struct {
			VariantIndex *int    `json:"variant_index"`
			RunSeed      *string `json:"run_seed"`
		} `json:"replay"`
	}
	if json.Unmarshal(b, &doc) != nil || doc.Replay.VariantIndex == nil || doc.Replay.RunSeed == nil {
		return
	}
	s, err := strconv.ParseUint(*doc.Replay.RunSeed, 10, 64)
	if err != nil {
		return
	}
	return *doc.Replay.VariantIndex, s, true
}

// etWholeRuns generates and runs nRuns projects; c08 / c06 select the predicate sets.
func etWholeRuns(c *vh.Ctx, nRuns int, c08, c06 bool) {
	st := &etRunStats{ByVariant: map[string]int{}}
	root := filepath.Join(c.Scratch, "runs")
	type job struct {
		vi   int
		seed uint64
	}
	var jobs []job
	if vi, seed, ok := etReplay(); ok {
		jobs = append(jobs, job{vi, seed})
		c.Note("replaying whole run variant %d seed %d", vi, seed)
	} else {
		only := -1 // VERIF_ET_VARIANT=<name>: every run uses that variant (development aid)
		for vi, v := range etVariants {
			if v.Name == os.Getenv("VERIF_ET_VARIANT") {
				only = vi
			}
		}
		for k := 0; k < nRuns; k++ {
			vi := (k + int(c.Seed)) % len(etVariants)
			if only >= 0 {
				vi = only
			}
			jobs = append(jobs, job{vi, c.Rng.U64()})
		}
	}
	for k, j := range jobs {
		name := fmt.Sprintf("e%d", k)
		p, w, v := buildETProject(j.vi, j.seed, name)
		if err := p.Write(root, c.Repo); err != nil {
			c.Note("cannot write project %s: %v", name, err)
			continue
		}
		if err := p.WriteConfigStyle(root, etRunStyle[p]); err != nil {
			c.Note("cannot rewrite config.yml of %s: %v", name, err)
			continue
		}
		delete(etRunStyle, p)
		if w != nil {
			if err := p.WriteWeatherET(root, *w); err != nil {
				c.Note("cannot write weather %s: %v", name, err)
				continue
			}
		}
		runOneET(c, root, p, v, j.vi, j.seed, st, c08, c06)
		os.RemoveAll(filepath.Join(root, "project", name))
		os.RemoveAll(filepath.Join(root, "weather"))
	}
	c.Res.Extra["whole_runs"] = st
}

func runOneET(c *vh.Ctx, root string, p *proj.Project, v etVariant, vi int, seed uint64, st *etRunStats, c08, c06 bool) {
	method := etMethodName[v.Method]
	if method == "" {
		method = "no-method"
	}
	n := p.N()
	// field capacity per 10 cm layer as given explicitly in the soil file (0 = not explicit / PTF route)
	var inputFC [21]float64
	allExplicit := true
	for _, h := range p.Soil {
		if h.FC <= 0 {
			allExplicit = false // mixed parameter routes: the run re-derives every horizon from the table after a groundwater change (a C15 matter)
		}
	}
	if (p.Cfg["PTF"] == "" || p.Cfg["PTF"] == "0") && allExplicit {
		lo := 0
		for _, h := range p.Soil {
			for z := lo; z < h.Lower && z < 21; z++ {
				if h.FC > 0 {
					inputFC[z] = float64(h.FC) / 100
				}
			}
			lo = h.Lower
		}
	}
	payload := func(zeit int, more map[string]interface{}) interface{} {
		m := map[string]interface{}{"variant": v.Name, "variant_index": vi, "run_seed": fmt.Sprint(seed), "project": p, "day": proj.FromZ(zeit).String(), "zeit": zeit}
		for k, x := range more {
			m[k] = x
		}
		return m
	}
	viol := func(sig, what string, zeit int, more map[string]interface{}) {
		c.Violate("search", "run:"+sig, fmt.Sprintf("%s (variant %s, day %s)", what, v.Name, proj.FromZ(zeit)), payload(zeit, more))
	}
	var (
		prevETC0, prevVerd, prevTray, prevPftrans float64
		startWG                                   [21]float64
		capInc                                    [21]float64
		cropToday                                 bool
		petToday                                  float64
		steps                                     int
		days, cropDays                            int
		sumWdt                                    float64 // Σ wdt over the sub-steps of the day
		grwFirst                                  float64 // groundwater level of the first simulated day
		grwMoved                                  bool    // the level has differed from it since
	)
	probes := &hermes.VerifProbes{
		DayStart: func(g *hermes.GlobalVarsMain, w *hermes.WaterSharedVars, ns *hermes.NitroSharedVars, cs *hermes.CropSharedVars, zeit int, wdt float64) {
			days++
			c.Eval()
			if days == 1 {
				grwFirst, grwMoved = g.GRW, false
			} else if g.GRW != grwFirst {
				grwMoved = true
			}
			cropToday = cropActive(g, zeit)
			veg := "bare"
			capV := 0.6
			if cropToday {
				veg, capV = "crop", 0.65
				cropDays++
			}
			pet := g.ETC0 - prevETC0
			petToday = pet
			for i := 0; i < g.N; i++ {
				startWG[i] = g.WG[0][i]
				capInc[i] = 0
			}
			steps = 0
			if pet > st.MaxPet {
				st.MaxPet = pet
			}
			if pet < st.MinPet {
				st.MinPet = pet
			}
			if g.GRW < float64(g.N) {
				st.GwDays++
			}
			if !c08 {
				return
			}
			tol := 1e-9 * (1 + math.Abs(g.ETC0) + math.Abs(prevETC0))
			vals := map[string]interface{}{"pet_cm": pet, "ETA": g.ETA, "TRREL": g.TRREL, "ETREL": g.ETREL, "WURZ": g.WURZ, "GRW": g.GRW, "TEMP": g.TEMP[g.TAG.Index], "ETNULL": g.ETNULL[g.TAG.Index], "TP": append([]float64{}, g.TP[:g.N]...)}
			if !allFinite(pet, g.ETA, g.TRREL, g.ETREL, g.VERDUNST) || !allFinite(g.TP[:g.N]...) {
				viol("nonfinite:"+method+":"+veg, fmt.Sprintf("non-finite ET quantity after Evatra (potential ET %v, ETA %v, TRREL %v, ETREL %v)", pet, g.ETA, g.TRREL, g.ETREL), zeit, vals)
				return
			}
			// VERDUNST is reset by the annual output after the day-end probe; ETC0 at sowing before it
			dV := g.VERDUNST - prevVerd
			if (g.TRAY < prevTray || g.PFTRANS < prevPftrans) || (math.Abs(dV-pet) > tol && math.Abs(g.VERDUNST-pet) <= tol) {
				dV = g.VERDUNST
			}
			tolV := 1e-9 * (1 + math.Abs(g.VERDUNST) + math.Abs(prevVerd))
			if pet > capV+tol || dV > capV+tolV {
				viol("pet-above-cap:"+veg, fmt.Sprintf("potential ET of the day %.9g cm (VERDUNST increment %.9g) exceeds the cap %.2g cm", pet, dV, capV), zeit, vals)
			}
			if pet < -tol || dV < -tolV {
				viol("pet-negative:"+method, fmt.Sprintf("potential ET of the day is negative: %.6g cm (TEMP %.1f °C, ET0 column %.1f): the floor at zero before the cap is missing", pet, g.TEMP[g.TAG.Index], g.ETNULL[g.TAG.Index]), zeit, vals)
			}
			if g.ETA < -1e-12 && pet >= -tol {
				viol("eta-negative:"+method, fmt.Sprintf("actual evaporation is negative: %.6g cm", g.ETA), zeit, vals)
			}
			tpSum := 0.0
			minv := math.Min(float64(g.WURZ), g.GRW)
			for i := 0; i < g.N; i++ {
				tpSum += g.TP[i]
				if g.TP[i] < 0 {
					viol("tp-negative", fmt.Sprintf("uptake of layer %d is negative: %.6g", i+1, g.TP[i]), zeit, vals)
				}
				if !cropToday && g.TP[i] != 0 {
					viol("tp-on-bare-soil", fmt.Sprintf("uptake %.6g from layer %d on bare soil", g.TP[i], i+1), zeit, vals)
				}
				if cropToday && float64(i+1) > minv && g.TP[i] != 0 {
					where := "below-root-depth"
					if float64(i+1) > g.GRW {
						where = "below-groundwater"
					}
					viol("tp-outside:"+where, fmt.Sprintf("uptake %.6g from layer %d although root depth is %d and groundwater at %.2f dm", g.TP[i], i+1, g.WURZ, g.GRW), zeit, vals)
				}
			}
			if tpSum > 0 {
				st.UptakeDays++
			}
			if pet >= 0 && g.ETA+tpSum > pet+tol {
				viol("eta-above-pet:"+veg, fmt.Sprintf("actual evaporation %.9g + uptake %.9g exceeds potential ET %.9g", g.ETA, tpSum, pet), zeit, vals)
			}
			for name, x := range map[string]float64{"TRREL": g.TRREL, "ETREL": g.ETREL} {
				if x < -1e-9 || x > 1+1e-9 {
					viol("ratio-outside-unit:"+name+":"+veg, fmt.Sprintf("%s = %.9g outside [0,1]", name, x), zeit, vals)
				}
			}
		},
		AfterWater: func(g *hermes.GlobalVarsMain, w *hermes.WaterSharedVars, zeit, subd int, wdt, nsteps float64) {
			steps = subd
			if subd == 1 {
				sumWdt = 0
			}
			sumWdt += wdt
			if c08 && subd == 1 {
				for i := 0; i < g.N; i++ {
					avail := math.Max(0, (startWG[i]-g.WMIN[i])*g.DZ.Num)
					if g.TP[i] > avail+1e-12*(1+avail) {
						viol("tp-above-available", fmt.Sprintf("uptake %.9g of layer %d exceeds the plant-available water %.9g", g.TP[i], i+1, avail), zeit, nil)
					}
				}
			}
			// the capillary-rise increment of this sub-step (water.go:924-951), per layer
			caplay := 0
			for i := g.N; i >= 1; i-- {
				if w.NFK[i-1] < 0.7 {
					caplay = i
					break
				}
			}
			if caplay > 0 {
				gwdist := g.GRW + 1 - float64(caplay)
				if gwdist < 21 {
					if gwdist < 0 {
						gwdist = 0
					}
					if gwdist > .9 {
						idx := int(math.Round(math.Max(gwdist, 1))) - 1
						capInc[caplay-1] += g.CAPS[idx] * wdt
					}
				}
			}
		},
		DayEnd: func(g *hermes.GlobalVarsMain, w *hermes.WaterSharedVars, ns *hermes.NitroSharedVars, cs *hermes.CropSharedVars, zeit int) {
			// the water routine withdraws evaporation and uptake as RATES times the sub-step length: the day's actual
			// evaporation + transpiration is (ETA + ΣTP)·Σwdt, so the sub-steps must add up to exactly one day for
			// "actual ≤ potential" (C08) and for the bounds of C06 to be statements about the day
			if math.Abs(sumWdt-1) > 1e-9 {
				viol("substeps-do-not-cover-day", fmt.Sprintf("the %d sub-steps of the day add up to %.12g days: evaporation and uptake rates are applied for that long (actual ET of the day = %.6g × (ETA + ΣTP))", steps, sumWdt, sumWdt), zeit, nil)
			}
			prevETC0, prevVerd, prevTray, prevPftrans = g.ETC0, g.VERDUNST, g.TRAY, g.PFTRANS
			if steps > 1 {
				st.MultiStepDays++
				if g.FLUSS0 < 0 {
					st.MultiStepEvapDays++
				}
			}
			if !c06 {
				return
			}
			capDay := false
			for i := 0; i < g.N; i++ {
				x := g.WG[1][i]
				more := map[string]interface{}{"layer": i + 1, "wg_start": startWG[i], "wg_end": x, "W": g.W[i], "WMIN": g.WMIN[i], "PORGES": g.PORGES[i], "GRW": g.GRW,
					"FLUSS0": g.FLUSS0, "sub_steps": steps, "capillary_increment": capInc[i], "TP": g.TP[i], "pet_cm": petToday}
				if math.IsNaN(x) || math.IsInf(x, 0) {
					viol("wg-nonfinite", fmt.Sprintf("water content of layer %d is %v", i+1, x), zeit, more)
					continue
				}
				lim := g.WMIN[i] / 3
				if startWG[i] >= lim && x < lim-1e-9*(1+lim) {
					kind := "one-step"
					if steps > 1 {
						kind = "multi-step"
					}
					flux := "infiltration"
					if g.FLUSS0 < 0 {
						flux = "evaporation"
					} else if g.FLUSS0 == 0 {
						flux = "zero-flux"
					}
					viol("wg-below-dryness-limit:"+flux+":"+kind, fmt.Sprintf("layer %d ends at %.9g below a third of the wilting point %.9g although it started at %.9g", i+1, x, lim, startWG[i]), zeit, more)
				}
				if capInc[i] > 0 {
					capDay = true
				}
				if up := g.W[i] + capInc[i]; x > up+1e-9*(1+up) {
					where := "above-groundwater"
					if float64(i+1) >= g.GRW {
						where = "below-groundwater"
					}
					viol("wg-above-capacity:"+where, fmt.Sprintf("layer %d ends at %.9g above field capacity %.9g + capillary increment %.9g", i+1, x, g.W[i], capInc[i]), zeit, more)
				}
				// the same bound against the field capacity the INPUT gives the layer (explicit values of
				// the soil file, no pedotransfer function): a layer whose lower edge lies above the
				// groundwater table keeps the soil file's field capacity, whatever the table did before
				if fcIn := inputFC[i]; fcIn > 0 && float64(i+2) < g.GRW {
					if up := fcIn + capInc[i]; x > up+1e-9*(1+up) {
						more["field_capacity_of_soil_file"] = fcIn
						sig := "wg-above-input-capacity:above-groundwater"
						if !grwMoved && p.Cfg["GroundWaterFrom"] != "soilfile" {
							// finding F8 (C15): before the first change of a moving table the saturated zone is the work of Input
							// (level of the first record / the mean) plus Init (level of the start day)
							sig += ":before-first-groundwater-change"
						}
						viol(sig, fmt.Sprintf("layer %d (above the groundwater table at %.3g dm) ends at %.9g above the soil file's field capacity %.9g + capillary increment %.9g (the run uses W = %.9g)", i+1, g.GRW, x, fcIn, capInc[i], g.W[i]), zeit, more)
					}
				}
			}
			if capDay {
				st.CapRiseDays++
			}
			var bad []string
			nonFiniteIn(g, "", &bad, 8)
			nonFiniteIn(w, ".water", &bad, 8)
			nonFiniteIn(ns, ".nitro", &bad, 8)
			nonFiniteIn(cs, ".crop", &bad, 8)
			if len(bad) > 0 && baseField(bad[0]) == "SOC1" && zeroText(p.Cfg["OrganicMatterMineralProportion"]) {
				// input class of its own: the mineralisable share of the soil organic N is configured as 0
				viol("state-nonfinite:SOC1:OrganicMatterMineralProportion=0", fmt.Sprintf("non-finite state variable(s) at day end: %s — run.go:736 / nitro.go:408 divide the mineralisable organic N by OrganicMatterMineralProportion = 0 (0/0)", strings.Join(bad, ", ")), zeit, map[string]interface{}{"fields": bad})
			} else if len(bad) > 0 {
				viol("state-nonfinite:"+baseField(bad[0])+":"+method, fmt.Sprintf("non-finite state variable(s) at day end: %s", strings.Join(bad, ", ")), zeit, map[string]interface{}{"fields": bad})
			}
		},
	}
	res := proj.Run(root, p, probes)
	st.Runs++
	st.Days += days
	st.CropDays += cropDays
	st.ByVariant[v.Name]++
	c.Count("run:" + v.Name)
	c.Count("run:method=" + method)
	if res.Panic != "" {
		c.Violate("search", "run:panic:"+v.Name, "the simulation panicked: "+res.Panic, payload(0, nil))
		return
	}
	if res.Err != nil {
		// a rejected input is not a violation; it is recorded so that generator problems are visible
		if len(st.Errors) < 5 {
			st.Errors = append(st.Errors, v.Name+": "+res.Err.Error())
		}
		c.Count("run:rejected")
		return
	}
	if days > 0 {
		c.Nontrivial(fmt.Sprintf("run%s-%d", p.Name, days))
	}
	if c06 {
		// every value of every daily record finite and parseable
		lines := strings.Split(strings.TrimSpace(res.Out.File("V")), "\n")
		var header []string
		for li, line := range lines {
			cells := strings.Split(line, ",")
			if li == 0 {
				header = cells
				continue
			}
			st.RecordsChecked++
			for ci, cell := range cells {
				cell = strings.TrimSpace(cell)
				if ci == 0 || cell == "" {
					continue
				}
				f, err := strconv.ParseFloat(cell, 64)
				if err != nil || math.IsNaN(f) || math.IsInf(f, 0) {
					col := "?"
					if ci < len(header) {
						col = strings.TrimSpace(header[ci])
					}
					c.Violate("search", "run:record-nonfinite:"+baseField(col)+":"+method, fmt.Sprintf("daily record %d has the value %q in column %s (variant %s)", li, cell, col, v.Name), payload(0, map[string]interface{}{"record": line}))
					break
				}
			}
		}
		_ = n
	}
}
