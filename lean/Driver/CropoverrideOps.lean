/-
Driver ops `cropoverride.*`:
  cropoverride.apply <fileMatches> <rep> <state line> <n> (<name code> <stage> <organ> <value>)*  → state line
  cropoverride.valid <nrkom> <nrentw> <n> (<name code> <stage> <organ> <value>)*                   → 1 | 0
An entry with stage 0 is a base entry, with organ 0 a per-stage entry (the number of indices in
the key).  Name codes: PName.ofCode.
-/
import HermesModel.Proto
import HermesModel.CropOverride
import Driver.CropparamOps
open Hermes Hermes.Proto Hermes.CropParam Hermes.CropOverride

namespace Hermes.Driver

def popEntries : Nat → Toks → Option (List (Entry Float) × Toks)
  | 0, r => some ([], r)
  | n + 1, r => do
    let (code, r) ← popNat r
    let (st, r) ← popNat r
    let (o, r) ← popNat r
    let (v, r) ← popFloat r
    let name ← PName.ofCode code
    let e : Entry Float := if st == 0 then .base name v else if o == 0 then .stage name st v else .part name st o v
    let (es, r) ← popEntries n r
    pure (e :: es, r)

def cropoverrideOps (toks : List String) : String :=
  match toks with
  | "cropoverride.apply" :: fm :: rep :: rest =>
    (do
      let (s, r) ← popState rest
      let (n, r) ← popNat r
      let (es, _) ← popEntries n r
      pure (fmtState (overwrite (fm == "1") (rep == "1") es s))).getD "bad-op"
  | "cropoverride.valid" :: rest =>
    (do
      let (nrkom, r) ← popNat rest
      let (nrentw, r) ← popNat r
      let (n, r) ← popNat r
      let (es, _) ← popEntries n r
      pure (if isValid nrkom nrentw es then "1" else "0")).getD "bad-op"
  | _ => "bad-op"

end Hermes.Driver
