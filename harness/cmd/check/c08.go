package main

import (
	"encoding/json"
	"os"

	"verifharness/vh"
)

// replayKernelCase: a replay file whose payload is a kernel state (evCase) is re-evaluated alone.
func replayKernelCase(c *vh.Ctx) bool {
	f := os.Getenv("VERIF_REPLAY")
	if f == "" {
		return false
	}
	b, err := os.ReadFile(f)
	if err != nil {
		return false
	}
	var doc struct {
		Replay json.RawMessage `json:"replay"`
	}
	if json.Unmarshal(b, &doc) != nil {
		return false
	}
	var ec evCase
	if json.Unmarshal(doc.Replay, &ec) != nil || ec.N == 0 || len(ec.Wg) != ec.N {
		return false
	}
	v0, o, pan := runEvatraImpl(&ec)
	c.Eval()
	c.Nontrivial("replay")
	c.Sample(ec)
	if pan != "" {
		c.Violate("search", "evatra-kernel:panic", "hermes.Evatra panicked: "+pan, ec)
		return true
	}
	evatraPredicates(&ec, v0, &o, func(sig, what string) { c.Violate("search", "evatra-kernel:"+sig, what, ec) })
	c.Correspond("evatra.part", []string{ec.line(v0)}, []string{o.line()}, 1e-9, 1e-12, func(int) interface{} { return ec })
	c.Note("replayed one kernel state from %s", f)
	return true
}

func init() { register("C08", checkC08) }

func checkC08(c *vh.Ctx) {
	c.Res.Rule = "kernel: generated states of hermes.Evatra (1-20 layers, five ET methods, crop / four kinds of bare soil, radiation or sunshine hours, latitudes incl. poles, LAI 0-8, roots 0-N, groundwater above / at / below the root depth, dry and wet profiles); non-trivial = distinct generated state. whole runs: see extra"
	if replayPetCase(c) || replayKernelCase(c) {
		return
	}
	if _, _, ok := etReplay(); ok {
		etWholeRuns(c, 1, true, false)
		petRunStage(c, 1, 400)
		return
	}
	evatraKernelStage(c, c.N(6000, 80000))
	petStage(c) // c08_pet.go: the five potential-ET methods, stomat, day length; composition evatra.full
	etWholeRuns(c, c.N(60, 600), true, false)
}
