/-
Lemmas for C13 about the measurement, soil, rotation and weather readers
(HermesModel/Measure.lean, HermesModel/InputFormats.lean).
-/
import HermesModel.Measure
import HermesModel.InputFormats
set_option linter.unusedSectionVars false

namespace Hermes.Measure
section
variable {α : Type} [Add α] [Sub α] [Mul α] [Div α] [OfNat α 0] [OfNat α 3] [OfNat α 5]
  [OfNat α 100] [OfNat α 300] [OfScientific α]

/-- the two duplicated routines use the same layer classes -/
theorem wClass_csv_eq_txt (zi : Nat) : wClassCsv zi = wClassTxt zi := rfl
theorem nClass_csv_eq_txt (i : Nat) : nClassCsv i = nClassTxt i := rfl

/-- every layer 1 … 20 has a water class, and the classes are the documented depth brackets -/
theorem wClass_total : ∀ zi, 1 ≤ zi → zi ≤ 20 → ∃ c, wClassTxt zi = some c ∧ c ≤ 5 := by
  intro zi h1 h2
  unfold wClassTxt
  repeat' split
  all_goals first | exact ⟨_, rfl, by omega⟩ | omega

theorem read_csv_eq_txt (c : Csv α) (w wmin : List α) :
    readCsv c w wmin = readTxt c.toTxt w wmin := by
  have e1 : (wClassCsv : Nat → Option Nat) = wClassTxt := rfl
  have e2 : (nClassCsv : Nat → Nat × Nat) = nClassTxt := rfl
  unfold readCsv readTxt Csv.toTxt Csv.opt
  rw [e1, e2]
  cases hd : c.hasDeepHeader <;> simp

end
end Hermes.Measure

namespace Hermes.InputFormats
section
variable {α : Type} [Mul α] [Div α] [BEq α] [OfNat α 0] [OfNat α 10] [OfNat α 100] [OfScientific α]

theorem horizon_csv_eq_txt (h : HorizonTok α) (hb : h.bulk = none) : horizonCsv h = horizonTxt h := by
  simp [horizonCsv, horizonTxt, hb]

end

/-- a header whose recognised names sit at their default positions leaves the defaults -/
theorem headerIdx_shipped : headerIdx shippedHeader 0 {} = {} := by decide
theorem headerIdx_recognised : headerIdx recognisedHeader 0 {} = {} := by decide

theorem rot_csv_eq_txt (toks : List String) :
    rotCsv shippedHeader toks = rotTxt toks ∧ rotCsv recognisedHeader toks = rotTxt toks := by
  simp [rotCsv, rotTxt, headerIdx_shipped, headerIdx_recognised]

section
variable {α : Type} [Add α] [Mul α] [Div α] [LT α] [DecidableLT α] [OfNat α 2] [OfNat α 10] [OfScientific α]

theorem weather_layouts (cor : α) (d : WDay α) (h : d.tavg = (d.tmax + d.tmin) / 2) :
    dayYearFile cor d = dayCsv cor d ∧ dayCsv cor d = dayCz cor d := by
  simp [dayYearFile, dayCsv, dayCz, h]

end
end Hermes.InputFormats
