import HermesModel.Proto
import HermesModel.Calendar
open Hermes Hermes.Proto

namespace Hermes.Driver

def dateOps (toks : List String) : String :=
  open Hermes.Calendar in
  match toks with
  | ["date.kal", m] =>
    match m.toNat? with
    | some m => match kalenderDate m with
      | some (y, mo, d) => s!"{y} {mo} {d}"
      | none => "err"
    | none => "bad-op"
  | ["date.render", f, sep, m] =>
    match f.toNat?, sep.toNat?, m.toNat? with
    | some f, some sep, some m =>
      let sepCs : List Char := if sep == 0 then [] else [Char.ofNat sep]
      match render (DateFormat.ofCode f) sepCs m with
      | some cs => String.ofList cs
      | none => "err"
    | _, _, _ => "bad-op"
  | ["date.parse", f, cent, txt] =>
    match f.toNat?, cent.toNat? with
    | some f, some cent =>
      match parse (DateFormat.ofCode f) cent txt.toList with
      | some (zt, mas) => s!"{zt} {mas}"
      | none => "err"
    | _, _ => "bad-op"
  | _ => "bad-op"

end Hermes.Driver
