package main

import (
	"fmt"
	"math"
	"os"
	"path/filepath"
	"sort"
	"strings"

	"github.com/zalf-rpm/Hermes2Go/hermes"
	"verifharness/proj"
	"verifharness/vh"
)

// ---------------------------------------------------------------------------------------------
// C09, stage "cropday": the parts of a crop day that lean/HermesModel/CropDay.lean models —
//   cropday.radia  : the real radia (photosynthesis / maintenance, crop.go:767-979), every transcendental value
//                    computed here and handed to the model; the arguments of the log / exp calls that depend on
//                    computed values come from the model itself (op cropday.radia.args, two rounds)
//   cropday.nfn    : the N-content functions GEHMIN / GEHMAX (crop.go:317-419)
//   cropday.grow   : LAI floor + radia + GTW + organ loop + ASPOO + GPP / RespDay / WDORG bookkeeping of the real
//                    PhytoOut (crop.go:206-227, 451-517)
//   cropday.uptake : root length density, N demand with its caps, mass flow + diffusion, PE[i], SUMPE, NFIX, WUGEH,
//                    GEHOB of the real PhytoOut (crop.go:542-546, 557-562, 608-763)
// on (a) generated states built from every shipped crop parameter file (classic and YAML) and (b) real
// states sampled from the whole generated simulations of the C09 search (state PhytoOut is called on =
// AfterWater probe of the first sub-step). The real PhytoOut / radia are called on copies of the state.
// The predicates of the new theorems are evaluated directly on the outputs of the real code (search).
// ---------------------------------------------------------------------------------------------

type c09DayState struct {
	radia                      []*radiaCase
	nfnCases, nfnImpl          []string
	nfnDesc                    []string
	growCases                  []*growCase
	uptCases, uptImpl, uptDesc []string
	maxRun                     int // cap of sampled real states
	nRun                       int
}

var c09day *c09DayState

func c09DayGet(c *vh.Ctx) *c09DayState {
	if c09day == nil {
		c09day = &c09DayState{maxRun: c.N(9000, 150000)}
	}
	return c09day
}

type radiaCase struct {
	co2meth, temptyp, vs1 int
	sc                    [19]float64 // dl dle dlp rdn drc co2konz temp mintmp maxamax rad sund lai lured trrel dryswell dt radsum parsum pariOld
	t                     [14]float64 // pow2co ktvmax ktkc ktko t2 t3 cosSC sslae logX logY e8 eC eO teff
	worg, mairt, mantOld  []float64
	impl                  string
	desc                  string
}

func (rc *radiaCase) head(lai float64) string {
	sc := rc.sc
	sc[11] = lai
	return fmt.Sprintf("%d %d %d %s %s", rc.co2meth, rc.temptyp, rc.vs1, vh.FVals(sc[:]...), vh.FVals(rc.t[:]...))
}

type growCase struct {
	rc   *radiaCase
	lai  float64 // LAI before the call (no floor)
	tail string
	impl string
	desc string
}

// c09DayOrigin describes where a state comes from (for signatures and replays).
type c09DayOrigin struct {
	class  string      // "kernel" or "run"
	what   string      // human-readable
	replay interface{} // payload
}

func maxupClassOf(f hermes.CropType) int {
	switch f {
	case hermes.ORH, hermes.WRA, hermes.SE, hermes.LET, hermes.WCA, hermes.ONI, hermes.CEL, hermes.GAR, hermes.CAR, hermes.PMK:
		return 0
	case hermes.SM:
		return 1
	case hermes.ZR:
		return 2
	}
	return 3
}

// c09DayFromState runs the real PhytoOut and the real radia on copies of (g0, l0) — the state PhytoOut is
// about to be called on, not a sowing day — evaluates the predicates on their outputs and queues the
// correspondence cases.
func c09DayFromState(c *vh.Ctx, d *c09DayState, g0 *hermes.GlobalVarsMain, l0 *hermes.CropSharedVars, zeit int, org c09DayOrigin) {
	akf := g0.AKF.Index
	if zeit == g0.SAAT[akf] || g0.INTWICK.Index < 0 {
		return
	}
	frucht := g0.FRUCHT[akf]
	code := strings.TrimSpace(g0.CropTypeToString(frucht, false))
	gA, lA := *g0, *l0
	pan := func() (p string) {
		defer func() {
			if rec := recover(); rec != nil {
				p = fmt.Sprint(rec)
			}
		}()
		hermes.PhytoOut(&gA, &lA, &hermes.HFilePath{}, zeit, &hermes.Config{}, &hermes.CropOutputVars{})
		return ""
	}()
	c.Eval()
	viol := func(sig, what string) {
		c.Violate("search", "cropday:"+org.class+":"+sig, what+" ("+org.what+")", org.replay)
	}
	// violU: findings about the uptake distribution carry one signature whatever the origin of the state
	violU := func(sig, what string) {
		c.Violate("search", "cropday:uptake:"+sig, what+" ("+org.what+")", org.replay)
	}
	if pan != "" {
		viol("panic", "PhytoOut panicked: "+firstLine(pan))
		return
	}
	c.Count("cropday:" + org.class + ":states")
	ki := gA.INTWICK.Index
	emerged := gA.SUM[0] >= gA.TSUM[0]
	regrowth := g0.DAUERKULT && ki < g0.INTWICK.Index
	dt, dz := g0.DT.Num, g0.DZ.Num
	n := g0.N
	nrkom := g0.NRKOM
	priv := l0.VerifPrivate()
	tag := fmt.Sprintf("%s crop %s stage %d->%d emerged=%v T=%g RAD=%g LAI=%g CO2METH=%d N=%d WURZ=%d GRW=%g", org.what, code, g0.INTWICK.Index, ki, emerged,
		g0.TEMP[g0.TAG.Index], g0.RAD[g0.TAG.Index], g0.LAI, g0.CO2METH, n, gA.WURZ, g0.GRW)
	c.Nontrivial(fmt.Sprintf("cropday|%s|%s|stage=%d|co2=%d|emerged=%v", org.class, code, ki, g0.CO2METH, emerged))

	// ------------------------------------------------------------------ radia on a copy, in the situation of the call
	gR, lR := *g0, *l0
	gR.INTWICK.SetByIndex(ki)
	if gR.LAI <= 0 {
		gR.LAI = 0.001
	}
	ti := gR.TAG.Index
	T := gR.TEMP[ti]
	DL, DLE, DLP, _, RDN, DRC, DEC := hermes.CalculateDayLenght(gR.TAG.Num, gR.LAT)
	rc := &radiaCase{co2meth: gR.CO2METH, temptyp: priv.Temptyp, desc: tag}
	if frucht == hermes.SM || frucht == hermes.K || frucht == hermes.WR || frucht == hermes.SG || frucht == hermes.WW || frucht == hermes.WG {
		rc.vs1 = 1
	}
	rc.sc = [19]float64{DL, DLE, DLP, RDN, DRC, gR.CO2KONZ, T, gR.MINTMP, gR.MAXAMAX, gR.RAD[ti], gR.SUND[ti], gR.LAI, gR.LURED, gR.TRREL,
		gR.DRYSWELL[ki], dt, gR.RADSUM, gR.PARSUM, gR.PARi}
	// transcendental values, expressions as in crop.go
	rc.t[0] = math.Pow(2, ((T - 10) / 10))
	rc.t[1] = math.Exp(68800 * ((T + 273) - 298) / (298 * (T + 273) * 8.314))
	rc.t[2] = math.Exp(65800 * ((T + 273) - 298) / (298 * (T + 273) * 8.314))
	rc.t[3] = math.Exp(1400 * ((T + 273) - 298) / (298 * (T + 273) * 8.314))
	rc.t[4] = math.Pow(T, 2)
	rc.t[5] = math.Pow(T, 3)
	rc.t[6] = math.Cos(2 * math.Pi * gR.TAG.Num / 365)
	rc.t[7] = math.Sin((90. + DEC - gR.LAT) * math.Pi / 180.)
	rc.t[10] = math.Exp(-.8 * gR.LAI)
	rc.t[13] = math.Pow(2., (.1*T - 2.5))
	if nrkom >= 0 && nrkom <= 5 {
		rc.worg = append(rc.worg, gR.WORG[:nrkom]...)
		rc.mairt = append(rc.mairt, gR.MAIRT[:nrkom]...)
		rc.mantOld = append(rc.mantOld, lR.MANT[:nrkom]...)
	}
	dle, dlp, gphot, maint := hermes.VerifRadia(&gR, &lR)
	{
		out := []float64{dle, dlp, gphot, maint}
		out = append(out, lR.MANT[:len(rc.worg)]...)
		out = append(out, gR.PARi, gR.PARSUM, gR.RADSUM, gR.SUND[ti])
		rc.impl = vh.FVals(out...)
	}
	d.radia = append(d.radia, rc)
	// ---- predicates on the real radia
	if DL > 0 {
		c.Count("cropday:radia:daylight")
	} else {
		c.Count("cropday:radia:no-daylight")
	}
	maints := 0.0
	for i := 0; i < len(rc.worg); i++ {
		maints += rc.worg[i] * rc.mairt[i]
	}
	if !finite(gphot, maint) {
		viol("radia:nonfinite", fmt.Sprintf("radia returned GPHOT=%v MAINT=%v", gphot, maint))
	} else {
		if gphot < 0 {
			viol("radia:gphot-negative", fmt.Sprintf("GPHOT = %v < 0", gphot))
		}
		if maint < 0 {
			viol("radia:maint-negative", fmt.Sprintf("MAINT = %v < 0", maint))
		}
		if maint > gphot {
			viol("radia:maint-above-gphot", fmt.Sprintf("MAINT = %v exceeds GPHOT = %v", maint, gphot))
		}
	}
	if DL > 0 {
		if !(dle > 0) {
			viol("radia:dle-not-positive", fmt.Sprintf("DLE = %v on a day with DL = %v", dle, DL))
		}
		if maints > 0 {
			s := 0.0
			for i := 0; i < len(rc.worg); i++ {
				m := lR.MANT[i]
				s += m
				if !(m >= 0 && m <= 1+1e-12) {
					viol("radia:mant-range", fmt.Sprintf("maintenance share MANT[%d] = %v outside [0,1]", i, m))
				}
			}
			if math.Abs(s-1) > 1e-9 {
				viol("radia:mant-sum", fmt.Sprintf("maintenance shares sum to %v", s))
			}
		} else {
			c.Count("cropday:radia:MAINTS=0")
		}
		if gR.SUND[ti] > dle && gR.RAD[ti] == 0 {
			viol("radia:sund-above-dle", fmt.Sprintf("sunshine hours %v above DLE %v after the clamp", gR.SUND[ti], dle))
		}
	}

	// ------------------------------------------------------------------ N-content functions
	if emerged && !regrowth {
		P := gA.PHYLLO
		ob, w3 := g0.OBMAS, g0.WORG[3]
		orgv := 0.0
		if g0.SubOrgan > 0 && g0.SubOrgan <= 5 {
			orgv = g0.WORG[g0.SubOrgan-1]
		}
		wrsg := frucht == hermes.WR || frucht == hermes.SG
		tendsum := priv.Tendsum
		var tmin, tmax float64
		switch g0.NGEFKT {
		case 1:
			if wrsg {
				tmin, tmax = math.Exp(-.00165*P), math.Exp(-.0017*P)
			} else {
				tmin, tmax = math.Exp(-.0014*P), math.Exp(-.00147*P)
			}
		case 2:
			tmin = math.Exp(-(P - 152.30391*math.Log(1-math.Sqrt2/2) - 438.63545) / 152.30391)
			tmax = math.Exp(-(P - 201.50354*math.Log(1-math.Sqrt2/2) - 385.8318) / 201.50354)
		case 3, 7:
			tmin = math.Pow((ob / 1000), (-0.25))
			tmax = tmin
		case 4:
			tmin = math.Exp(-0.26 * (ob + w3) / 1000)
			tmax = tmin
		case 5:
			tmin = math.Pow(((ob + orgv) / 1000), g0.RGB)
			tmax = tmin
		case 6:
			tmin = math.Exp(-.0007 * P)
			tmax = tmin
		case 8:
			dvkor := 1 / ((tendsum - 200) / (1260 - 200))
			if wrsg {
				tmin, tmax = math.Exp(-.00165*dvkor*P), math.Exp(-.0017*dvkor*P)
			} else {
				tmin, tmax = math.Exp(-.0014*dvkor*P), math.Exp(-.00147*dvkor*P)
			}
		case 9:
			tmin = math.Exp(-0.26 * ob / 1000)
			tmax = tmin
		}
		d.nfnCases = append(d.nfnCases, fmt.Sprintf("cropday.nfn %d %d %s", g0.NGEFKT, b2i(wrsg),
			vh.FVals(P, ob, w3, orgv, g0.RGA, tendsum, g0.GEHMIN, g0.GEHMAX, tmin, tmax)))
		d.nfnImpl = append(d.nfnImpl, vh.FVals(gA.GEHMIN, gA.GEHMAX))
		d.nfnDesc = append(d.nfnDesc, tag)
		c.Count(fmt.Sprintf("cropday:nfn:NGEFKT=%d", g0.NGEFKT))
		if g0.NGEFKT >= 1 && g0.NGEFKT <= 9 && finite(tmin, tmax) {
			if !(gA.GEHMIN > 0 && gA.GEHMAX > 0) || !finite(gA.GEHMIN, gA.GEHMAX) {
				viol(fmt.Sprintf("nfn:not-positive:NGEFKT=%d", g0.NGEFKT), fmt.Sprintf("GEHMIN = %v GEHMAX = %v (PHYLLO %v, OBMAS %v)", gA.GEHMIN, gA.GEHMAX, P, ob))
			}
			switch g0.NGEFKT {
			case 3, 4, 7, 9:
				if gA.GEHMIN > gA.GEHMAX {
					viol(fmt.Sprintf("nfn:min-above-max:NGEFKT=%d", g0.NGEFKT), fmt.Sprintf("GEHMIN = %v > GEHMAX = %v", gA.GEHMIN, gA.GEHMAX))
				}
			}
		}
		if !(gA.REDUK >= 0 && gA.REDUK <= 1+1e-9) {
			viol("range:REDUK", fmt.Sprintf("REDUK = %v outside [0,1]", gA.REDUK))
		}
	}

	// ------------------------------------------------------------------ growth of the day
	if emerged && !regrowth && ki >= 1 && nrkom >= 1 && nrkom <= 5 {
		last := !(ki+1 < lA.NRENTW)
		var sb strings.Builder
		fmt.Fprintf(&sb, "%d %d %d", nrkom, b2i(last), len(l0.AboveGroundOrgans))
		for _, a := range l0.AboveGroundOrgans {
			fmt.Fprintf(&sb, " %d", a)
		}
		sb.WriteByte(' ')
		sb.WriteString(vh.FVals(gA.REDUK, gA.SUM[ki], g0.TSUM[ki], g0.LAIFKT[ki-1], g0.LAIFKT[ki], g0.LAIFKT[0], g0.GEHOB, g0.LAIMAX, g0.PESUM, g0.ASPOO, g0.GPPsum))
		for i := 0; i < nrkom; i++ {
			sb.WriteByte(' ')
			sb.WriteString(vh.FVals(g0.MAIRT[i], l0.MANT[i], g0.PRO[ki-1][i], g0.PRO[ki][i], g0.DEAD[ki-1][i], g0.DEAD[ki][i], g0.WORG[i], l0.DGORG[i], g0.WDORG[i]))
		}
		var out []float64
		out = append(out, gA.WORG[:nrkom]...)
		out = append(out, lA.GORG[:nrkom]...)
		out = append(out, lA.DGORG[:nrkom]...)
		out = append(out, gA.LAI, gA.LAIMAX, gA.PESUM, gA.ASPOO, gA.OBMAS, gphot, maint, gA.GPPdaily, gA.GPPsum, gA.RespDay)
		out = append(out, gA.WDORG[:nrkom]...)
		d.growCases = append(d.growCases, &growCase{rc: rc, lai: g0.LAI, tail: sb.String(), impl: vh.FVals(out...), desc: tag + fmt.Sprintf(" GPHOT=%g MAINT=%g", gphot, maint)})
		// ---- predicates
		if !finite(gA.ASPOO) || gA.ASPOO < 0 {
			if g0.ASPOO >= 0 && g0.REDUK <= 1 {
				viol("aspoo-negative", fmt.Sprintf("assimilate pool ASPOO = %v after the day (before %v, GPHOT %v, REDUK %v)", gA.ASPOO, g0.ASPOO, gphot, gA.REDUK))
			}
		}
		if !finite(gA.GPPdaily) || gA.GPPdaily < 0 {
			viol("gpp-negative", fmt.Sprintf("GPPdaily = %v", gA.GPPdaily))
		}
		for i := 0; i < nrkom; i++ {
			if !(gA.WORG[i]-gA.WDORG[i] > 0) && finite(gA.WORG[i]) {
				viol(fmt.Sprintf("wdorg-not-below-worg:organ%d", i+1), fmt.Sprintf("dead mass WDORG[%d] = %v not below the organ mass WORG = %v", i, gA.WDORG[i], gA.WORG[i]))
			}
			if i < 3 && !(gA.WORG[i] > 0) {
				viol(fmt.Sprintf("organ-not-positive:organ%d", i+1), fmt.Sprintf("WORG[%d] = %v after the update (organs 1-3 have the floor 0.1)", i, gA.WORG[i]))
			}
		}
	}

	// ------------------------------------------------------------------ N demand and uptake
	wurz := gA.WURZ
	if regrowth || wurz < 0 || wurz > n || wurz > 20 {
		return
	}
	beet := frucht == hermes.ZR || frucht == hermes.K
	m := int(math.Min(float64(wurz), g0.GRW))
	if m < 0 {
		m = 0
	}
	wurm := float64(rootLimit(g0.WURZMAX, g0.WUMAXPF, n))
	qrez, _, _ := hermes.VerifRoot(g0.VELOC, gA.PHYLLO+gA.SUM[0], dz)
	if qrez > .35 {
		qrez = .35
	}
	if qrez < 4.5/(wurm*dz) {
		qrez = 4.5 / (wurm * dz)
	}
	var sb strings.Builder
	fmt.Fprintf(&sb, "cropday.uptake %d %d %d %d %d %d %d ", b2i(beet), b2i(g0.LEGUM), b2i(emerged), maxupClassOf(frucht), wurz, wurz, n)
	wgmax := g0.WGMAX[ki]
	sb.WriteString(vh.FVals(g0.GRW, dt, dz, gA.GEHMAX, gA.OBMAS, gA.WUMAS, gA.WORG[3], wgmax, gA.PESUM, gA.PHYLLO, priv.Tendsum, g0.MASSUM, g0.DIFFSUM,
		g0.WUMAS, g0.OBMAS, g0.GEHOB, g0.WUGEH))
	for i := 1; i <= wurz; i++ {
		Tiefe := float64(i) * dz
		sb.WriteByte(' ')
		sb.WriteString(vh.FVals(math.Exp(-qrez*Tiefe), math.Exp(-qrez*(Tiefe-dz))))
	}
	for i := 0; i < wurz; i++ {
		sb.WriteByte(' ')
		sb.WriteString(vh.FVals(g0.C1[i], g0.TP[i], g0.WG[0][i], g0.AD[i], math.Exp(g0.WG[0][i]*10)))
	}
	for i := 0; i < wurz; i++ {
		sb.WriteByte(' ')
		sb.WriteString(vh.FVals(math.Sqrt(math.Pi * gA.WUDICH[i])))
	}
	if n > 0 {
		sb.WriteByte(' ')
		sb.WriteString(vh.FVals(g0.PE[:n]...))
	}
	// the day's demand cap, recomputed from the outputs of the real code (crop.go:542-546, 557-562, 662-687)
	wulaen := 0.0
	for i := 0; i < wurz; i++ {
		wulaen = wulaen + gA.WUDICH[i]*dz
	}
	dtgesn := 0.0
	if emerged {
		if beet {
			dtgesn = (gA.GEHMAX*gA.OBMAS + (gA.WUMAS+gA.WORG[3])*wgmax - gA.PESUM) * dt
		} else {
			dtgesn = (gA.GEHMAX*gA.OBMAS + gA.WUMAS*wgmax - gA.PESUM) * dt
		}
	}
	if dtgesn > 6*dt {
		dtgesn = 6 * dt
	}
	if dtgesn < 0 {
		dtgesn = 0
	}
	var mx float64
	switch maxupClassOf(frucht) {
	case 0:
		mx = 0.09145 - 0.015725*(gA.PHYLLO/1300)
	case 1:
		mx = 0.074 - 0.01*(gA.PHYLLO/priv.Tendsum)
	case 2:
		mx = 0.05645 - 0.01*(gA.PHYLLO/priv.Tendsum)
	default:
		mx = 0.03145 - 0.015725*(gA.PHYLLO/1300)
	}
	if dtgesn > wulaen*mx*dt && !g0.LEGUM {
		dtgesn = wulaen * mx * dt
	}
	sumpe := 0.0
	for i := 0; i < m; i++ {
		sumpe = sumpe + gA.PE[i]
	}
	{
		var out []float64
		out = append(out, gA.WUDICH[:wurz]...)
		out = append(out, gA.WUANT[:wurz]...)
		out = append(out, wulaen, dtgesn)
		out = append(out, gA.PE[:n]...)
		out = append(out, sumpe, gA.NFIX, gA.MASSUM, gA.DIFFSUM, gA.WUGEH, gA.GEHOB)
		d.uptCases = append(d.uptCases, sb.String())
		d.uptImpl = append(d.uptImpl, vh.FVals(out...))
		d.uptDesc = append(d.uptDesc, tag+fmt.Sprintf(" DTGESN=%g SUMPE=%g", dtgesn, sumpe))
	}
	c.Count(fmt.Sprintf("cropday:uptake:rooted-layers=%02d", m))
	if g0.GRW < float64(wurz) {
		c.Count("cropday:uptake:groundwater-above-root-depth")
	}
	// ---- predicates on the real uptake
	negDiff := false
	for i := 0; i < n; i++ {
		pe := gA.PE[i]
		if !finite(pe) {
			viol("pe-nonfinite", fmt.Sprintf("PE[%d] = %v", i, pe))
			continue
		}
		if pe < 0 {
			viol("pe-negative", fmt.Sprintf("N uptake PE[%d] = %v < 0", i, pe))
		}
		if i >= m {
			if pe != g0.PE[i] {
				viol("pe-changed-outside-rooted-layers", fmt.Sprintf("PE[%d] changed from %v to %v, only %d layers are rooted / above the groundwater", i, g0.PE[i], pe, m))
			}
			continue
		}
		avail := g0.C1[i] - .75
		if avail < 0 {
			avail = 0
		}
		if pe > avail {
			viol("pe-above-available", fmt.Sprintf("PE[%d] = %v exceeds the available mineral N max(0, C1 - 0.75) = %v (C1 = %v)", i, pe, avail, g0.C1[i]))
		}
		if pe > 0 {
			c.Count("cropday:uptake:layer-with-uptake")
		}
		if pe == avail && avail > 0 {
			c.Count("cropday:uptake:layer-limited-by-available-N")
		}
		if i < 10 && g0.C1[i]/1000/g0.WG[0][i]-.000014 < 0 {
			negDiff = true
		}
	}
	if m > 0 {
		cap := math.Max(dtgesn, 0)
		if sumpe > cap+1e-9*(1+cap) {
			cls := "other"
			if negDiff {
				cls = "negative-diffusion-term"
			}
			violU("sum-exceeds-demand:"+cls, fmt.Sprintf("summed uptake SUMPE = %v exceeds the day's demand DTGESN = %v by %v", sumpe, dtgesn, sumpe-dtgesn))
			c.Count("cropday:uptake:sum-exceeds-demand:" + cls)
			c.Count("cropday:" + org.class + ":sum-exceeds-demand")
			if mx, _ := c.Res.Extra["cropday_max_excess_of_sumpe_over_demand_"+org.class].(float64); sumpe-cap > mx {
				c.Res.Extra["cropday_max_excess_of_sumpe_over_demand_"+org.class] = sumpe - cap
			}
		}
		if dtgesn > 0 {
			c.Count("cropday:uptake:demand>0")
		}
	}
	if emerged && dt <= 1 && finite(gA.PESUM, sumpe) {
		var target float64
		if beet {
			target = gA.GEHMAX*gA.OBMAS + (gA.WUMAS+gA.WORG[3])*wgmax
		} else {
			target = gA.GEHMAX*gA.OBMAS + gA.WUMAS*wgmax
		}
		lim := math.Max(gA.PESUM, target)
		if gA.PESUM+sumpe > lim+1e-9*(1+math.Abs(lim)) {
			viol("crop-n-above-maximum", fmt.Sprintf("crop N after the uptake PESUM + SUMPE = %v exceeds max(PESUM, GEHMAX*OBMAS + WUMAS*WGMAX) = %v", gA.PESUM+sumpe, lim))
		}
	}
	if gA.WUMAS > 0 && ((emerged && gA.WUMAS > g0.WUMAS) || !emerged) {
		hi := math.Max(wgmax, 0.005)
		// round-off: ZR / K recompute WUGEH from the balance (PESUM + SUMPE - (OBMAS+WORG[3])*GEHOB) / WUMAS (crop.go:758-762): the
		// difference of two numbers of the size of the crop N divided by the root mass — its round-off grows with crop N / root mass
		// (a generated state with 1e-9 kg/ha of roots showed 5e-9 relative at seed 1 of the thorough tier; magnitude-scaled like
		// every other tolerance of the search)
		tolWU := 0.0
		if beet && finite(gA.PESUM, sumpe, gA.OBMAS, gA.GEHOB) {
			tolWU = 16 * 2.3e-16 * (math.Abs(gA.PESUM) + math.Abs(sumpe) + math.Abs((gA.OBMAS+gA.WORG[3])*gA.GEHOB)) / gA.WUMAS
		}
		if !(gA.WUGEH >= 0.005*(1-1e-9)-tolWU && gA.WUGEH <= hi*(1+1e-9)+tolWU) {
			viol("wugeh-range", fmt.Sprintf("root N concentration WUGEH = %v outside [0.005, max(WGMAX, 0.005) = %v] after a day with root growth", gA.WUGEH, hi))
		}
	}
	for i := 0; i < wurz; i++ {
		if !finite(gA.WUDICH[i]) || gA.WUDICH[i] < 0 {
			viol("wudich-negative", fmt.Sprintf("root length density WUDICH[%d] = %v", i, gA.WUDICH[i]))
		}
	}
	if g0.LEGUM && dtgesn > 0 {
		if gA.NFIX < -1e-9 || gA.NFIX > 0.74*dtgesn+1e-9 {
			viol("nfix-range", fmt.Sprintf("N fixation NFIX = %v outside [0, 0.74*DTGESN = %v]", gA.NFIX, 0.74*dtgesn))
		}
	}
}

// ------------------------------------------------------------------ real states from the whole runs

// c09DaySample is called from the AfterWater probe (first sub-step) of the C09 whole runs with the copy of
// the state PhytoOut is about to be called on and the crop variables as they stood at the start of the day.
func c09DaySample(c *vh.Ctx, g *hermes.GlobalVarsMain, l *hermes.CropSharedVars, zeit int, p *proj.Project, o proj.CropOpt) {
	d := c09DayGet(c)
	replaying := os.Getenv("VERIF_REPLAY") != ""
	if !replaying {
		if d.nRun >= d.maxRun {
			return
		}
		// deterministic thinning: about every 11th crop day, shifted per run
		if (zeit+nameHash(p.Name))%11 != 0 {
			return
		}
	}
	if zeit == g.SAAT[g.AKF.Index] || soilStateInvalid(g) != "" || zeit > g.PROGNOS {
		return
	}
	d.nRun++
	what := fmt.Sprintf("whole run, first crop %s, yml=%v, scenario %s, CO2 method %d, N level %d, day %s zeit=%d", o.Set.String(), o.Yml, o.Scenario, o.CO2, o.NLevel, proj.FromZ(zeit), zeit)
	c09DayFromState(c, d, g, l, zeit, c09DayOrigin{class: "run", what: what,
		replay: jsonSafe(c09Replay{Project: p, Opt: o, Note: fmt.Sprintf("state handed to PhytoOut on day zeit=%d (AfterWater probe, first sub-step)", zeit)})})
}

// ------------------------------------------------------------------ generated states

type c09DayParam struct {
	file string
	code string
	yml  bool
	g    hermes.GlobalVarsMain
	l    hermes.CropSharedVars
}

func c09DayParams(c *vh.Ctx) []c09DayParam {
	dir := filepath.Join(c.Repo, "examples", "parameter")
	ents, err := os.ReadDir(dir)
	if err != nil {
		return nil
	}
	var names []string
	for _, e := range ents {
		if strings.HasPrefix(e.Name(), "PARAM") {
			names = append(names, e.Name())
		}
	}
	sort.Strings(names)
	env := newCropEnv()
	var out []c09DayParam
	for _, nme := range names {
		yml := strings.HasSuffix(nme, ".yml")
		base := strings.TrimSuffix(nme, ".yml")
		code := base[strings.LastIndex(base, ".")+1:]
		g, l := env.newG(nil, false)
		g.AKF.SetByIndex(1)
		g.FRUCHT[1] = g.ToCropType(code)
		if yml {
			hermes.ReadCropParamYml(filepath.Join(dir, nme), l, g)
		} else {
			hermes.ReadCropParamClassic(filepath.Join(dir, nme), l, g)
		}
		env.drain()
		out = append(out, c09DayParam{file: nme, code: code, yml: yml, g: *g, l: *l})
	}
	return out
}

type c09DayKern struct {
	File    string      `json:"crop_parameter_file"`
	Intwick int         `json:"intwick"`
	Doy     int         `json:"doy"`
	Lat     float64     `json:"lat"`
	Temp    float64     `json:"temp"`
	Rad     float64     `json:"rad"`
	Sund    float64     `json:"sund"`
	CO2Meth int         `json:"co2meth"`
	CO2     float64     `json:"co2konz"`
	Lai     float64     `json:"lai"`
	N       int         `json:"n"`
	Wurzmax int         `json:"wurzmax"`
	Grw     float64     `json:"grw"`
	Sum     [10]float64 `json:"sum"`
	Phyllo  float64     `json:"phyllo"`
	Worg    [5]float64  `json:"worg"`
	C1      []float64   `json:"c1"`
	Tp      []float64   `json:"tp"`
	Wg      []float64   `json:"wg"`
	Gehob   float64     `json:"gehob"`
	Wugeh   float64     `json:"wugeh"`
	Pesum   float64     `json:"pesum"`
	Aspoo   float64     `json:"aspoo"`
	Trrel   float64     `json:"trrel"`
	Reduk   float64     `json:"reduk"`
	Lured   float64     `json:"lured"`
}

func c09DayKernel(c *vh.Ctx, d *c09DayState) {
	params := c09DayParams(c)
	if len(params) < 40 {
		c.Violate("search", "cropday:setup:paramfiles", fmt.Sprintf("only %d crop parameter files could be loaded from examples/parameter", len(params)), nil)
		return
	}
	c.Res.Extra["cropday_param_files"] = len(params)
	n := c.N(7000, 150000)
	temps := []float64{-20, -4, 0, 3.9, 4, 5, 8.9, 9, 10, 15, 16, 18, 20, 25, 30, 30.1, 35, 36, 42, 45}
	for it := 0; it < n; it++ {
		r := c.Rng.Fork()
		pr := params[(it+r.Intn(3))%len(params)]
		g, l := pr.g, pr.l
		g.Kalender = hermes.KalenderConverter(g.DATEFORMAT, ".")
		zeit := 36000 + r.Intn(300)
		g.SAAT[1] = zeit - 50
		g.ERNTE[1], g.ERNTE2[1] = zeit+100, zeit+100
		g.PROGNOS = 1 << 30
		g.TAG.SetByIndex(r.Range(0, 364))
		g.LAT = pick(r, -35, 0, 30, 45, 52, 52, 60, 66, 70)
		g.CO2METH = r.Range(1, 3)
		g.CO2KONZ = pick(r, 280, 360, 420, 550, 800, 1200)
		var temp float64
		if r.Chance(0.35) {
			temp = temps[r.Intn(len(temps))]
		} else {
			temp = vh.RoundTo(r.Uni(-20, 45), 1)
		}
		ti := g.TAG.Index
		g.TEMP[ti] = temp
		if r.Chance(0.2) {
			g.RAD[ti] = 0
		} else {
			g.RAD[ti] = vh.RoundTo(r.Uni(0, 35), 1)
		}
		g.SUND[ti] = pick(r, 0, 0, 2.5, 8, 12, 16, 20)
		nl := r.Range(1, 20)
		g.N = nl
		switch r.Intn(4) {
		case 0:
			g.GRW = 99
		case 1:
			g.GRW = float64(r.Range(1, nl))
		case 2:
			g.GRW = vh.RoundTo(r.Uni(0, float64(nl)+1), 1)
		default:
			g.GRW = 99
		}
		nlevel := r.Intn(6)
		for i := 0; i <= nl && i < 21; i++ {
			g.W[i], g.WMIN[i], g.WNOR[i] = 0.30, 0.10, 0.28
			g.WG[0][i] = vh.RoundTo(r.Uni(0.06, 0.30), 3)
			g.WG[1][i] = g.WG[0][i]
			switch nlevel {
			case 0:
				g.C1[i] = 0
			case 1:
				g.C1[i] = pick(r, 0, 0.0005, 0.002, 0.01, 0.3, 0.74, 0.75, 0.76, 2)
			case 2:
				g.C1[i] = vh.RoundTo(r.Uni(0.2, 12), 2)
			case 3:
				g.C1[i] = vh.RoundTo(r.Uni(5, 60), 1)
			case 4: // rich layers next to layers without mineral N
				g.C1[i] = pick(r, 0, 0, 0.002, 25, 60, 120)
			default:
				g.C1[i] = vh.RoundTo(r.Uni(50, 400), 0)
			}
			if i < len(g.AD) {
				g.AD[i] = pick(r, 0.002, 0.004, 0.0006)
			}
			if r.Chance(0.3) {
				g.TP[i] = 0
			} else {
				g.TP[i] = vh.RoundTo(r.Uni(0, 0.08), 3)
			}
			g.PE[i] = 0
		}
		if r.Chance(0.1) {
			// junk left in PE below the roots: the crop model must not touch it
			g.PE[nl-1] = 0.123
		}
		g.WURZMAX = r.Range(1, nl+2)
		if g.WURZMAX > 20 {
			g.WURZMAX = 20
		}
		if r.Chance(0.3) {
			// every variant of the N-content function (the shipped files use 1-6), incl. an unknown number
			g.NGEFKT = r.Range(1, 10)
			g.RGA, g.RGB = pick(r, 0.045, 0.046694, 0.03), pick(r, -0.25, 0.5294, -0.5)
			g.SubOrgan = r.Range(0, g.NRKOM)
			g.GEHMIN, g.GEHMAX = 0.03, 0.05
		}
		nst := l.NRENTW
		if nst < 2 || nst > 10 || g.NRKOM < 1 || g.NRKOM > 5 {
			continue
		}
		ki := r.Range(0, nst-1)
		g.INTWICK.SetByIndex(ki)
		for s := 0; s < 10; s++ {
			g.SUM[s] = 0
		}
		if ki == 0 {
			switch r.Intn(3) {
			case 0: // before emergence
				g.SUM[0] = vh.RoundTo(g.TSUM[0]*r.F()*0.9, 1)
			case 1: // emerges today if warm enough
				g.SUM[0] = g.TSUM[0] - 0.5
			default: // emerged, stage test pending
				g.SUM[0] = g.TSUM[0] + vh.RoundTo(r.Uni(0, 10), 1)
			}
		} else {
			g.SUM[0] = g.TSUM[0] + vh.RoundTo(r.Uni(0, 20), 1)
			for s := 1; s < ki; s++ {
				g.SUM[s] = g.TSUM[s] + 1
			}
			switch r.Intn(4) {
			case 0:
				g.SUM[ki] = g.TSUM[ki]
			case 1:
				g.SUM[ki] = g.TSUM[ki] + vh.RoundTo(r.Uni(0, 30), 1)
			default:
				g.SUM[ki] = vh.RoundTo(g.TSUM[ki]*r.F(), 1)
			}
		}
		g.PHYLLO = vh.RoundTo(r.Uni(0, 2600), 0)
		g.VERNTAGE = vh.RoundTo(r.Uni(0, 60), 1)
		scale := pick(r, 0.01, 1, 1, 30, 100)
		for o := 0; o < g.NRKOM; o++ {
			g.WORG[o] = vh.RoundTo(g.WORG[o]*scale*r.Uni(0.2, 2), 3)
			if r.Chance(0.1) {
				g.WORG[o] = pick(r, 0, 0.1, 1e-9)
			}
			l.DGORG[o] = pick(r, 0, 0, 2, 40)
			l.MANT[o] = 0.2
			g.WDORG[o] = vh.RoundTo(g.WORG[o]*pick(r, 0, 0.1, 0.5), 3)
		}
		if g.WORG[0] <= 0 {
			g.WORG[0] = 0.1
		}
		if g.NRKOM > 1 && g.WORG[1] <= 0 {
			g.WORG[1] = 0.1
		}
		if r.Chance(0.3) {
			g.LAI = pick(r, 0, 0.001, 4.999, 5, 5.001, 8)
		} else {
			g.LAI = vh.RoundTo(r.Uni(0, 8), 2)
		}
		g.LAIMAX = g.LAI
		g.OBMAS = 0
		for _, a := range l.AboveGroundOrgans {
			g.OBMAS += g.WORG[a-1]
		}
		if g.OBMAS <= 0 {
			g.WORG[l.AboveGroundOrgans[0]-1] = 0.1
			g.OBMAS = 0.1
		}
		g.WUMAS = g.WORG[0]
		g.GEHOB = pick(r, 0.003, 0.005, 0.02, 0.045, 0.06)
		g.WUGEH = pick(r, 0.005, 0.01, 0.02)
		g.PESUM = g.OBMAS*g.GEHOB + g.WUMAS*g.WUGEH
		if r.Chance(0.15) {
			g.PESUM = g.PESUM + 50 // more N than the maximum content: demand 0
		}
		g.ASPOO = pick(r, 0, 0, 15, 300)
		g.TRREL = pick(r, 0, 0.3, 0.79, 0.8, 1)
		g.ETREL = g.TRREL
		g.REDUK = pick(r, 0, 0.4, 1)
		g.LURED = pick(r, 1, 1, 0.5)
		g.MASSUM, g.DIFFSUM = vh.RoundTo(r.Uni(0, 50), 1), vh.RoundTo(r.Uni(0, 50), 1)
		g.GPPsum = vh.RoundTo(r.Uni(0, 900), 1)
		g.RADSUM, g.PARSUM = 100, 40
		kc := c09DayKern{File: pr.file, Intwick: ki, Doy: ti + 1, Lat: g.LAT, Temp: temp, Rad: g.RAD[ti], Sund: g.SUND[ti], CO2Meth: g.CO2METH, CO2: g.CO2KONZ,
			Lai: g.LAI, N: nl, Wurzmax: g.WURZMAX, Grw: g.GRW, Sum: g.SUM, Phyllo: g.PHYLLO, Worg: g.WORG, C1: append([]float64{}, g.C1[:nl]...),
			Tp: append([]float64{}, g.TP[:nl]...), Wg: append([]float64{}, g.WG[0][:nl]...), Gehob: g.GEHOB, Wugeh: g.WUGEH, Pesum: g.PESUM, Aspoo: g.ASPOO,
			Trrel: g.TRREL, Reduk: g.REDUK, Lured: g.LURED}
		if it%40 == 7 {
			// excluded region of RadiaRange.co2: CO2 method 1 with a CO2 concentration below the compensation point
			// 17.5*2^((T-10)/10). The real radia is run there and its outcome recorded (not part of the property's
			// quantifier: no atmosphere has 50-180 ppm).
			ge, le := g, l
			ge.CO2METH, ge.CO2KONZ = 1, pick(r, 50, 120, 180)
			ge.TEMP[ti] = pick(r, 30, 40, 45)
			if ge.LAI <= 0 {
				ge.LAI = 0.001
			}
			cocomp := 17.5 * math.Pow(2, ((ge.TEMP[ti]-10)/10))
			_, _, gp, ma := hermes.VerifRadia(&ge, &le)
			c.Eval()
			cls := "above-compensation-point"
			if ge.CO2KONZ < cocomp {
				cls = "below-compensation-point"
			}
			switch {
			case !finite(gp, ma):
				c.Count("cropday:excluded:co2-" + cls + ":radia-nonfinite")
			case gp < 0 || ma < 0:
				c.Count("cropday:excluded:co2-" + cls + ":radia-negative")
			default:
				c.Count("cropday:excluded:co2-" + cls + ":radia-nonnegative")
			}
		}
		if it%40 == 13 && emergedKernel(&g) {
			// excluded region of C09_sumpe_le_demand: an invalid soil state (negative mineral N in a layer that
			// delivers water) — the real PhytoOut is run there and its outcome recorded, not judged.
			ge, le := g, l
			ge.C1[0], ge.TP[0] = -0.5, 0.05
			for i := 1; i < nl; i++ {
				ge.C1[i] = 40
			}
			func() {
				defer func() { recover() }()
				hermes.PhytoOut(&ge, &le, &hermes.HFilePath{}, zeit, &hermes.Config{}, &hermes.CropOutputVars{})
				c.Eval()
				sp, neg := 0.0, false
				for i := 0; i < nl; i++ {
					sp += ge.PE[i]
					neg = neg || ge.PE[i] < 0
				}
				switch {
				case neg || !finite(sp):
					c.Count("cropday:excluded:negative-C1:pe-negative-or-nonfinite")
				case ge.LEGUM && ge.NFIX < -1e-9:
					c.Count("cropday:excluded:negative-C1:nfix-negative(sum-exceeds-demand)")
				default:
					c.Count("cropday:excluded:negative-C1:pe-nonnegative")
				}
			}()
		}
		c.Count("cropday:kernel:file:" + pr.file)
		c09DayFromState(c, d, &g, &l, zeit, c09DayOrigin{class: "kernel", what: "generated state on " + pr.file, replay: jsonSafe(kc)})
		if it < 2 {
			c.Sample(jsonSafe(kc))
		}
	}
}

// ------------------------------------------------------------------ regression state of the repaired finding

// c09DayWitness replays the regression state of HermesProps/C09Day.lean (`failLayers`) on the real PhytoOut — before the
// floor on DIFF (crop.go:696-699) the summed uptake exceeded the demand there: two rooted layers, the
// upper one rich in mineral N, the lower one without (its diffusion term is negative), no transpiration.
func c09DayWitness(c *vh.Ctx, d *c09DayState) {
	params := c09DayParams(c)
	for _, pr := range params {
		if pr.file != "PARAM.WW" {
			continue
		}
		g, l := pr.g, pr.l
		g.Kalender = hermes.KalenderConverter(g.DATEFORMAT, ".")
		zeit := 36100
		g.SAAT[1], g.ERNTE[1], g.ERNTE2[1], g.PROGNOS = zeit-50, zeit+100, zeit+100, 1<<30
		g.TAG.SetByIndex(130)
		g.LAT, g.CO2METH, g.CO2KONZ = 52, 2, 360
		g.TEMP[130], g.RAD[130] = 15, 9
		g.N, g.GRW, g.WURZMAX = 3, 99, 3
		for i := 0; i <= 3; i++ {
			g.W[i], g.WMIN[i], g.WNOR[i], g.WG[0][i], g.WG[1][i], g.AD[i], g.TP[i], g.PE[i] = 0.30, 0.10, 0.28, 0.2, 0.2, 0.002, 0, 0
		}
		g.C1[0], g.C1[1], g.C1[2] = 40, 0, 0
		g.INTWICK.SetByIndex(1)
		g.SUM = [10]float64{}
		g.SUM[0], g.SUM[1] = g.TSUM[0]+1, 50
		g.PHYLLO = 60
		for o := 0; o < g.NRKOM; o++ {
			g.WORG[o] = pick0f(o)
		}
		g.LAI = 1
		g.OBMAS = 0
		for _, a := range l.AboveGroundOrgans {
			g.OBMAS += g.WORG[a-1]
		}
		g.WUMAS = g.WORG[0]
		g.GEHOB, g.WUGEH = 0.02, 0.01
		g.PESUM = g.OBMAS*g.GEHOB + g.WUMAS*g.WUGEH
		g.TRREL, g.ETREL, g.REDUK, g.LURED = 1, 1, 1, 1
		c.Count("cropday:witness:replayed")
		before := c.Res.Distribution["cropday:uptake:sum-exceeds-demand:negative-diffusion-term"]
		defer func() {
			if c.Res.Distribution["cropday:uptake:sum-exceeds-demand:negative-diffusion-term"] == before {
				c.Count("cropday:witness:within-demand")
			} else {
				c.Count("cropday:witness:exceeds-demand") // reported as a violation by c09DayFromState
			}
		}()
		c09DayFromState(c, d, &g, &l, zeit, c09DayOrigin{class: "witness", what: "regression state (failLayers of HermesProps/C09Day.lean) on PARAM.WW: layer 1 with 40 kg N/ha, layers 2-3 with 0, no transpiration",
			replay: map[string]interface{}{"c1": []float64{40, 0, 0}, "wg": 0.2, "tp": 0, "crop": "PARAM.WW", "stage_index": 1}})
	}
}

func emergedKernel(g *hermes.GlobalVarsMain) bool {
	return g.INTWICK.Index >= 1 && g.SUM[0] >= g.TSUM[0]
}

func nameHash(s string) int {
	h := 0
	for _, b := range []byte(s) {
		h = (h*31 + int(b)) % 1009
	}
	return h
}

func pick0f(o int) float64 { return []float64{400, 600, 300, 0, 0}[o%5] }

// ------------------------------------------------------------------ the stage

func parseFloats(line string, want int) ([]float64, bool) {
	f := strings.Fields(line)
	if len(f) != want {
		return nil, false
	}
	out := make([]float64, want)
	for i, tok := range f {
		isF, v, ok := vh.ParseTok(tok)
		if !ok || !isF {
			return nil, false
		}
		out[i] = v
	}
	return out, true
}

// c09DayStage generates the kernel states, resolves the model-dependent arguments of log / exp through the
// driver and runs the correspondences. Called from checkC09 after the whole runs (which queued the sampled states).
func c09DayStage(c *vh.Ctx) {
	d := c09DayGet(c)
	if os.Getenv("VERIF_REPLAY") == "" {
		c09DayKernel(c, d)
		c09DayWitness(c, d)
	}
	// round 1: argX, argY -> logX, logY ; round 2: argC, argO -> eC, eO
	for round := 0; round < 2; round++ {
		lines := make([]string, len(d.radia))
		for i, rc := range d.radia {
			lines[i] = "cropday.radia.args " + rc.head(rc.sc[11])
		}
		out, err := c.RunDriver(lines)
		if err != nil {
			c.Violate("correspondence", "cropday.radia.args:driver", err.Error(), nil)
			return
		}
		for i, rc := range d.radia {
			v, ok := parseFloats(out[i], 4)
			if !ok {
				c.Violate("correspondence", "cropday.radia.args:answer", "unparsable driver answer: "+out[i], lines[i])
				return
			}
			if round == 0 {
				rc.t[8], rc.t[9] = math.Log(v[0]), math.Log(v[1])
			} else {
				rc.t[11], rc.t[12] = math.Exp(v[2]), math.Exp(v[3])
			}
		}
	}
	desc := func(ds []string) func(i int) interface{} {
		return func(i int) interface{} {
			if i < len(ds) {
				return ds[i]
			}
			return nil
		}
	}
	{
		cases := make([]string, len(d.radia))
		impl := make([]string, len(d.radia))
		ds := make([]string, len(d.radia))
		for i, rc := range d.radia {
			cases[i] = fmt.Sprintf("cropday.radia %s %d %s %s %s", rc.head(rc.sc[11]), len(rc.worg), vh.FVals(rc.worg...), vh.FVals(rc.mairt...), vh.FVals(rc.mantOld...))
			cases[i] = strings.Join(strings.Fields(cases[i]), " ")
			impl[i] = rc.impl
			ds[i] = rc.desc
		}
		c.Correspond("cropday.radia", cases, impl, 1e-9, 1e-12, desc(ds))
		c.Res.Extra["corr_cropday_radia_cases"] = len(cases)
	}
	{
		cases := make([]string, len(d.growCases))
		impl := make([]string, len(d.growCases))
		ds := make([]string, len(d.growCases))
		for i, gc := range d.growCases {
			cases[i] = "cropday.grow " + gc.rc.head(gc.lai) + " " + gc.tail
			impl[i] = gc.impl
			ds[i] = gc.desc
		}
		c.Correspond("cropday.grow", cases, impl, 1e-9, 1e-12, desc(ds))
		c.Res.Extra["corr_cropday_grow_cases"] = len(cases)
	}
	c.Correspond("cropday.nfn", d.nfnCases, d.nfnImpl, 1e-9, 1e-12, desc(d.nfnDesc))
	c.Res.Extra["corr_cropday_nfn_cases"] = len(d.nfnCases)
	c.Correspond("cropday.uptake", d.uptCases, d.uptImpl, 1e-9, 1e-12, desc(d.uptDesc))
	c.Res.Extra["corr_cropday_uptake_cases"] = len(d.uptCases)
	c.Res.Extra["cropday_states_from_runs"] = d.nRun
	c.Res.Extra["cropday_rule"] = "stage cropday: one evaluation = one state (generated from a shipped crop parameter file, or sampled from a whole run at the AfterWater probe of the first sub-step) on which the real PhytoOut and the real radia were called on copies and the predicates 0 <= MAINT <= GPHOT, shares MANT in [0,1] summing to 1, DLE > 0, ASPOO / GPP >= 0, WDORG < WORG, organs 1-3 > 0, GEHMIN / GEHMAX > 0, PE[i] >= 0, PE[i] <= max(0, C1[i]-0.75), PE unchanged outside the rooted layers, SUMPE <= max(DTGESN,0), crop N <= maximum content, WUGEH in [0.005, max(WGMAX,0.005)], NFIX in [0, 0.74 DTGESN] were evaluated; the same states feed the kernels cropday.radia / cropday.nfn / cropday.grow / cropday.uptake"
}
