package main

import (
	"fmt"
	"math"
	"strings"

	"github.com/zalf-rpm/Hermes2Go/hermes"
	"verifharness/vh"
)

// waterCase: inputs of one call of hermes.Water (see lean/HermesModel/Water.lean, structure In).
type waterCase struct {
	N       int       `json:"N"`
	First   bool      `json:"first"`
	Draidep int       `json:"draidep"`
	Outn    int       `json:"outn"`
	Dz      float64   `json:"dz"`
	Wdt     float64   `json:"wdt"`
	Fluss0  float64   `json:"fluss0"`
	Grw     float64   `json:"grw"`
	Draifak float64   `json:"draifak"`
	Gwauf   float64   `json:"gwauf"`
	EvTail  float64   `json:"evTail"`
	Q0prev  float64   `json:"q0prev"`
	Wg      []float64 `json:"wg"`
	Tp      []float64 `json:"tp"`
	W       []float64 `json:"w"`
	Wmin    []float64 `json:"wmin"`
	Ev      []float64 `json:"ev"`
	Nfk     []float64 `json:"nfk"`
	Caps    []float64 `json:"caps"`
	Branch  string    `json:"branch"`
}

type waterOut struct {
	Wg1, Tp, Ev, Q1                                                     []float64
	EvTail, Qdrain, Below, DSicker, DCapsum, DDraisum, DInfilt, DTrans float64
}

func genWaterCase(r *vh.Rng) waterCase {
	n := r.Range(1, 20)
	if r.Chance(0.15) {
		n = []int{1, 2, 20}[r.Intn(3)]
	}
	c := waterCase{N: n, Dz: 10, First: r.Chance(0.5)}
	steps := []int{1, 1, 1, 2, 3, 4, 7, 8, 16, 50, 93}[r.Intn(11)]
	c.Wdt = 1 / float64(steps)
	switch r.Intn(10) {
	case 0:
		c.Fluss0 = 0
		c.Branch = "zero"
	case 1, 2, 3, 4:
		c.Fluss0 = vh.RoundTo(r.Uni(0.001, 4), 3)
		if r.Chance(0.3) {
			c.Fluss0 = vh.RoundTo(r.Uni(4, 40), 2) // extreme rain (cm/d)
		}
		c.Branch = "infiltration"
	default:
		c.Fluss0 = -vh.RoundTo(r.Uni(0.001, 0.65), 4)
		c.Branch = "evaporation"
	}
	c.Draidep = 0
	if r.Chance(0.4) {
		c.Draidep = r.Range(1, n)
		c.Draifak = vh.RoundTo(r.F(), 2)
		if r.Chance(0.2) {
			c.Draifak = []float64{0, 1}[r.Intn(2)]
		}
	}
	c.Outn = n
	if r.Chance(0.2) {
		c.Outn = r.Range(1, n)
	}
	c.Grw = 99
	if r.Chance(0.5) {
		c.Grw = vh.RoundTo(r.Uni(1, 25), 1)
	}
	c.Gwauf = 0
	if r.Chance(0.2) {
		c.Gwauf = vh.RoundTo(r.Uni(0, 0.3), 3)
	}
	c.Q0prev = vh.RoundTo(r.Uni(0, 2), 3)
	evTot := math.Abs(c.Fluss0)
	if c.Fluss0 >= 0 {
		evTot = 0
	}
	evLeft := evTot
	for i := 0; i < n; i++ {
		w := vh.RoundTo(r.Uni(0.08, 0.55), 3)
		wmin := vh.RoundTo(r.Uni(0.01, w*0.8), 3)
		var wg float64
		switch r.Intn(8) {
		case 0:
			wg = w // exactly at field capacity
		case 1:
			wg = wmin // exactly at wilting point
		case 2:
			wg = vh.RoundTo(r.Uni(w, w+0.1), 3) // above field capacity
		case 3:
			wg = vh.RoundTo(r.Uni(wmin/3, wmin), 4) // below wilting point, above dryness limit
		case 4:
			wg = wmin / 3 // exactly at the dryness limit
		default:
			wg = vh.RoundTo(r.Uni(wmin, w), 4)
		}
		tp := 0.0
		if r.Chance(0.6) {
			tp = vh.RoundTo(r.Uni(0, 0.12), 4)
			if r.Chance(0.15) {
				tp = vh.RoundTo(r.Uni(0, 3), 3) // more than available: limiter engages
			}
		}
		// evaporation share: decreasing with depth, sums to |FLUSS0|
		ev := 0.0
		if evTot > 0 {
			if i == n-1 || r.Chance(0.1) {
				ev = evLeft
			} else {
				ev = vh.RoundTo(evLeft*r.Uni(0.3, 0.9), 5)
			}
			evLeft -= ev
			if evLeft < 0 {
				evLeft = 0
			}
		}
		nfk := vh.RoundTo((wg-wmin)/(w-wmin), 3)
		if r.Chance(0.1) {
			nfk = 0.7
		}
		c.W = append(c.W, w)
		c.Wmin = append(c.Wmin, wmin)
		c.Wg = append(c.Wg, wg)
		c.Tp = append(c.Tp, tp)
		c.Ev = append(c.Ev, ev)
		c.Nfk = append(c.Nfk, nfk)
	}
	c.EvTail = 0
	base := r.Uni(0.05, 0.6)
	for i := 0; i < 21; i++ {
		c.Caps = append(c.Caps, vh.RoundTo(base*math.Exp(-float64(i)*r.Uni(0.2, 0.4)), 4))
	}
	return c
}

func (c *waterCase) line() string {
	first := 0
	if c.First {
		first = 1
	}
	var sb strings.Builder
	fmt.Fprintf(&sb, "water.step %d %d %d %d %s", c.N, first, c.Draidep, c.Outn,
		vh.FVals(c.Dz, c.Wdt, c.Fluss0, c.Grw, c.Draifak, c.Gwauf, c.EvTail, c.Q0prev))
	for _, l := range [][]float64{c.Wg, c.Tp, c.W, c.Wmin, c.Ev, c.Nfk, c.Caps} {
		sb.WriteByte(' ')
		sb.WriteString(vh.FVals(l...))
	}
	return sb.String()
}

// newWaterState builds the state one call of hermes.Water reads.
func newWaterState(c *waterCase) (gp *hermes.GlobalVarsMain, lp *hermes.WaterSharedVars, subd int) {
	g := hermes.NewGlobalVarsMain()
	var l hermes.WaterSharedVars
	g.N = c.N
	g.DZ = hermes.NewDualType(int(c.Dz), 0)
	g.FLUSS0 = c.Fluss0
	g.GRW = c.Grw
	g.DRAIDEP = c.Draidep
	g.DRAIFAK = c.Draifak
	g.OUTN = c.Outn
	l.GWAUF = c.Gwauf
	g.Q1[0] = c.Q0prev
	subd = 1
	if !c.First {
		subd = 2
	}
	for i := 0; i < c.N; i++ {
		if c.First {
			g.WG[0][i] = c.Wg[i]
			g.WG[1][i] = -7 // must not be read
		} else {
			g.WG[1][i] = c.Wg[i]
			g.WG[0][i] = -7
		}
		g.TP[i] = c.Tp[i]
		g.W[i] = c.W[i]
		g.WMIN[i] = c.Wmin[i]
		l.EV[i] = c.Ev[i]
		l.NFK[i] = c.Nfk[i]
	}
	l.EV[c.N] = c.EvTail
	for i := 0; i < 21; i++ {
		g.CAPS[i] = c.Caps[i]
	}
	g.SAAT[0] = 1 << 30 // zeit > SAAT false: crop accumulators untouched
	return &g, &l, subd
}

// runWaterImpl calls the real hermes.Water on the case.
func runWaterImpl(c *waterCase) (o waterOut, panicked string) {
	defer func() {
		if r := recover(); r != nil {
			panicked = fmt.Sprint(r)
		}
	}()
	gp, lp, subd := newWaterState(c)
	hermes.Water(c.Wdt, subd, 1000, gp, lp)
	g, l := *gp, *lp
	o.Wg1 = append(o.Wg1, g.WG[1][:c.N]...)
	o.Tp = append(o.Tp, g.TP[:c.N]...)
	o.Ev = append(o.Ev, l.EV[:c.N]...)
	o.EvTail = l.EV[c.N]
	o.Q1 = append(o.Q1, g.Q1[:c.N+1]...)
	o.Qdrain = g.QDRAIN
	o.Below = 0 // WATER[1][N] is a local of Water; derived: overflow of the last layer
	o.DSicker = g.SICKER
	o.DCapsum = g.CAPSUM
	o.DDraisum = g.DRAISUM
	o.DInfilt = g.INFILT
	o.DTrans = g.TRAY
	return o, ""
}

func (o *waterOut) line() string {
	var all []float64
	all = append(all, o.Wg1...)
	all = append(all, o.Tp...)
	all = append(all, o.Ev...)
	all = append(all, o.EvTail)
	all = append(all, o.Q1...)
	all = append(all, o.Qdrain, o.DSicker, o.DCapsum, o.DDraisum, o.DInfilt, o.DTrans)
	return vh.FVals(all...)
}

func sum(xs []float64) float64 {
	s := 0.0
	for _, x := range xs {
		s += x
	}
	return s
}

func allFinite(xs ...float64) bool {
	for _, x := range xs {
		if math.IsNaN(x) || math.IsInf(x, 0) {
			return false
		}
	}
	return true
}
