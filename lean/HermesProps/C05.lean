/-
C05 — Output records: one per day, year and harvested crop, complete, in order; every record has
exactly as many fields as the output configuration defines columns.

Property theorems only.  Models: HermesModel/RecordLoop.lean (run.go:131-140, 307-339, 624-631,
650-664, 705-717; nitro.go:286-461), HermesModel/Output.lean (output_fmt.go:2047-2369), calendar
from HermesModel/Calendar.lean (C12).  Lemmas: HermesProofs/RecordLoop.lean, HermesProofs/Output.lean.

Readings (DESIGN §6 C05):
* "end date" is ENDE as the loop uses it: run.go:135-137 moves it to the day after the annual
  output date of the end year when that date is not before the configured end (`setup`).
* the pre-crop harvested on the start date yields no crop record (AKF.Index = 0).
* the annual output date is the calendar date (month, day) of AnnualOutputDate evaluated in the end
  year; a 29.02. is written on 01.03. in years without a 29.02.; when the end year itself has no
  29.02. the date evaluates to 01.03. and is written on 01.03. in every year.
* repaired code (fixes/C05-1, C05-2): every configured column contributes one field; the yearly
  record is keyed by month and day.  The former `…_fails_at` / `…_partial` theorems are gone.
-/
import HermesProofs.RecordLoop
import HermesProofs.Output

namespace Hermes.RecordLoop
open Hermes.Calendar

/-! ### daily records -/

/-- With output interval `k` the daily WriteLine is reached exactly on the days of BEGINN … ENDE
whose day number is a multiple of `k`, each once, in increasing order. -/
theorem C05_daily_records (b e k : Nat) :
    (∀ z, z ∈ dailyWrites k (window b e) ↔ (b ≤ z ∧ z ≤ e ∧ 0 < k ∧ z % k = 0)) ∧
    (dailyWrites k (window b e)).Pairwise (· < ·) := by
  constructor
  · intro z
    unfold dailyWrites
    rw [List.mem_filter, mem_window]
    simp only [Bool.and_eq_true, decide_eq_true_eq, beq_iff_eq]
    constructor
    · rintro ⟨⟨h1, h2⟩, h3, h4⟩; exact ⟨h1, h2, h3, h4⟩
    · rintro ⟨h1, h2, h3, h4⟩; exact ⟨⟨h1, h2⟩, h3, h4⟩
  · exact (window_pairwise b e).sublist List.filter_sublist

/-- Interval 1: one record for every day number from BEGINN to ENDE inclusive, consecutive. -/
theorem C05_daily_every_day (b e : Nat) :
    dailyWrites 1 (window b e) = List.range' b (e + 1 - b) := by
  unfold dailyWrites window
  rw [List.filter_eq_self]
  intro z _; simp [Nat.mod_one]

/-- Interval 0 (daily output off): no daily record. -/
theorem C05_daily_off (zs : List Nat) : dailyWrites 0 zs = [] := by
  unfold dailyWrites
  rw [List.filter_eq_nil_iff]
  intro z _; simp

/-- Consecutive day numbers are rendered as consecutive calendar days (incl. 29 February and the
turn of the year): the date written for ZEIT + 1 is the calendar successor of the date written for
ZEIT.  (AKTUELL = Kalender(ZEIT); rendering of a date is injective by C12.) -/
theorem C05_daily_consecutive_dates (z : Nat) (h1 : 1 ≤ z) (h2 : z < 72684) :
    ∃ yr mon tg, ValidDate yr mon tg ∧ kalenderDate z = some (yr + 1900, mon, tg) ∧
      kalenderDate (z + 1) =
        some ((nextDate (yr, mon, tg)).1 + 1900, (nextDate (yr, mon, tg)).2.1, (nextDate (yr, mon, tg)).2.2) := by
  obtain ⟨yr, mon, tg, hv, hm⟩ := masdat_surj z h1 (by omega)
  have hk : kalenderDate z = some (yr + 1900, mon, tg) := by
    obtain ⟨a, b, c, d, e, f⟩ := hv
    rw [← hm]; exact kalender_masdat_core yr mon tg a b c d e f
  refine ⟨yr, mon, tg, hv, hk, ?_⟩
  have hlast : ¬ (yr = 199 ∧ mon = 12 ∧ tg = 31) := by
    rintro ⟨rfl, rfl, rfl⟩
    simp [masdat, monthOffset, mtStart] at hm; omega
  rcases hn : nextDate (yr, mon, tg) with ⟨a, b, c⟩
  have hv' := nextDate_valid yr mon tg a b c hv hlast hn
  have hm' := masdat_next yr mon tg a b c hv hn
  obtain ⟨p, q, r, s, t, u⟩ := hv'
  have := kalender_masdat_core a b c p q r s t u
  rw [hm', hm] at this
  simpa using this

/-! ### yearly records -/

set_option maxRecDepth 100000

/-- The yearly WriteLine is reached exactly on the days of BEGINN … ENDE that fall on the annual
output date, each once, in increasing order. -/
theorem C05_yearly_records (om od b e : Nat) :
    (∀ z, z ∈ yearlyWrites om od (window b e) ↔
      (b ≤ z ∧ z ≤ e ∧ isAnnualOutputDay z om od = true)) ∧
    (yearlyWrites om od (window b e)).Pairwise (· < ·) :=
  ⟨fun z => mem_yearlyWrites om od b e z, yearlyWrites_pairwise om od b e⟩

/-- run.go:140 recovers month and day of the configured annual output date. -/
theorem C05_yearly_setup_date (sy sm sd ey em ed am ad : Nat) (hve : ValidDate ey am ad) :
    (setup sy sm sd ey em ed am ad).outMonth = am ∧ (setup sy sm sd ey em ed am ad).outDay = ad := by
  obtain ⟨a, b, c, d, e, f⟩ := hve
  simp only [setup, kalender_masdat_core ey am ad a b c d e f, and_self]

/-- The extension of ENDE (run.go:135-137) keeps the configured annual date of the end year
inside the simulated period. -/
theorem C05_yearly_end_year_included (sy sm sd ey em ed am ad : Nat) :
    masdat ey am ad ≤ (setup sy sm sd ey em ed am ad).ende := by
  show masdat ey am ad ≤ (if masdat ey am ad ≥ masdat ey em ed then masdat ey am ad + 1 else masdat ey em ed)
  split <;> omega

/-- Exactly one yearly record per simulated year, on the configured annual output date: for every
year `yr` that has the date `ad.am.`, the yearly writes falling into that year are the day number of
`ad.am.yr` if it lies in BEGINN … ENDE and nothing otherwise — whatever the leap status of `yr` and
of the end year. -/
theorem C05_yearly_on_configured_date (sy sm sd ey em ed am ad : Nat) (hve : ValidDate ey am ad)
    (s : Setup) (hs : s = setup sy sm sd ey em ed am ad) (hb : 1 ≤ s.beginn) (he : s.ende ≤ 72684)
    (yr : Nat) (hv : ValidDate yr am ad) :
    (yearlyWrites s.outMonth s.outDay (window s.beginn s.ende)).filter (fun z => yearOf z == yr + 1900) =
      (if s.beginn ≤ masdat yr am ad ∧ masdat yr am ad ≤ s.ende then [masdat yr am ad] else []) ∧
    kalenderDate (masdat yr am ad) = some (yr + 1900, am, ad) := by
  obtain ⟨hom, hod⟩ := C05_yearly_setup_date sy sm sd ey em ed am ad hve
  rw [← hs] at hom hod
  rw [hom, hod]
  refine ⟨yearly_year_filter am ad s.beginn s.ende yr am ad hb he hv ?_ ?_, ?_⟩
  · rw [isAnnual_masdat yr am ad am ad hv]; simp
  · intro m' d' hv' hh
    rw [isAnnual_masdat yr m' d' am ad hv'] at hh
    simp only [Bool.or_eq_true, Bool.and_eq_true, beq_iff_eq, bne_iff_ne, ne_eq] at hh
    rcases hh with ⟨h1, h2⟩ | ⟨⟨⟨⟨h1, h2⟩, _⟩, _⟩, h5⟩
    · exact ⟨h1, h2⟩
    · -- the 01.03. clause needs a year without 29.02., but `yr` has the configured 29.02.
      exfalso
      subst h1; subst h2
      obtain ⟨_, _, _, _, _, ht⟩ := hv
      simp only [daysInMonth] at ht
      split at ht <;> rename_i hl
      · have : yr % 4 = 0 := by simpa using hl
        omega
      · omega
  · obtain ⟨a, b, c, d, e, f⟩ := hv
    exact kalender_masdat_core yr am ad a b c d e f

/-- Annual output date 29.02. (end year a leap year): in a simulated year without a 29.02. the one
yearly record is written on 01.03. -/
theorem C05_yearly_feb29_other_years (sy sm sd ey em ed : Nat) (hve : ValidDate ey 2 29)
    (s : Setup) (hs : s = setup sy sm sd ey em ed 2 29) (hb : 1 ≤ s.beginn) (he : s.ende ≤ 72684)
    (yr : Nat) (hy1 : 1 ≤ yr) (hy2 : yr ≤ 199) (hnl : yr % 4 ≠ 0) :
    (yearlyWrites s.outMonth s.outDay (window s.beginn s.ende)).filter (fun z => yearOf z == yr + 1900) =
      if s.beginn ≤ masdat yr 3 1 ∧ masdat yr 3 1 ≤ s.ende then [masdat yr 3 1] else [] := by
  obtain ⟨hom, hod⟩ := C05_yearly_setup_date sy sm sd ey em ed 2 29 hve
  rw [← hs] at hom hod
  rw [hom, hod]
  have hv : ValidDate yr 3 1 := ⟨hy1, hy2, by omega, by omega, by omega, by simp [daysInMonth]⟩
  apply yearly_year_filter 2 29 s.beginn s.ende yr 3 1 hb he hv
  · rw [isAnnual_masdat yr 3 1 2 29 hv]
    have : (yr + 1900) % 4 ≠ 0 := by omega
    simp [this]
  · intro m' d' hv' hh
    rw [isAnnual_masdat yr m' d' 2 29 hv'] at hh
    simp only [Bool.or_eq_true, Bool.and_eq_true, beq_iff_eq, bne_iff_ne, ne_eq] at hh
    rcases hh with ⟨h1, h2⟩ | ⟨⟨⟨_, h3⟩, h4⟩, _⟩
    · exfalso
      subst h1; subst h2
      obtain ⟨_, _, _, _, _, ht⟩ := hv'
      simp only [daysInMonth] at ht
      split at ht <;> rename_i hl
      · have : yr % 4 = 0 := by simpa using hl
        exact hnl this
      · omega
    · exact ⟨h3, h4⟩

/-- An annual output date 29.02. with an end year that has no 29.02. is the configuration 01.03.
(Datum adds 29 to the February offset): the same set-up, hence the same records. -/
theorem C05_yearly_feb29_nonleap_end (sy sm sd ey em ed : Nat) (hnl : ey % 4 ≠ 0) :
    setup sy sm sd ey em ed 2 29 = setup sy sm sd ey em ed 3 1 := by
  have : masdat ey 2 29 = masdat ey 3 1 := by
    simp [masdat, monthOffset, mtStart, hnl]
  simp only [setup, this]

/-- Regression witnesses of the two repaired defects (the inputs of the former `_fails_at`
theorems): start 01.09.1980 … 31.12.1981 with annual date 30.09. now gives 30.09.1980 and
30.09.1981; start 01.12.1984 … 31.12.1984 with annual date 31.12. gives 31.12.1984 (and ENDE is
still extended to 01.01.1985). -/
theorem C05_yearly_regression_witnesses :
    (records 80 9 1 81 12 31 9 30 1 [masdat 80 9 1]).2.1 = [masdat 80 9 30, masdat 81 9 30] ∧
    (records 84 12 1 84 12 31 12 31 1 [masdat 84 12 1]).2.1 = [masdat 84 12 31] ∧
    (setup 84 12 1 84 12 31 12 31).ende = masdat 85 1 1 := by
  decide

/-! ### crop records -/

/-- With fixed sowing and harvest dates, harvest days strictly increasing along the rotation and
the initial crop harvested on the start day: one crop record per rotation element whose harvest day
lies in BEGINN … ENDE, in rotation order, numbered by its rotation index, none for the initial
crop (index 0), none for crops harvested after ENDE. -/
theorem C05_crop_records (ernte : List Nat) (b e : Nat) (hb : 1 ≤ b) (hsorted : ernte.Pairwise (· < ·))
    (hstart : ∀ h ∈ ernte, b ≤ h) :
    cropWrites ernte (window b e) 0 =
      ((ernte.takeWhile (fun h => decide (h ≤ e))).zipIdx 0).filter (fun p => decide (p.2 ≥ 1)) := by
  have hz : ∀ z ∈ window b e, 1 ≤ z := by
    intro z hz; rw [mem_window] at hz; omega
  rw [cropWrites_eq_scanL ernte _ 0 hz, List.drop_zero]
  unfold window
  rw [scanL_spec _ ernte b 0 hsorted hstart]
  by_cases hbe : b ≤ e
  · have e1 : b + (e + 1 - b) = e + 1 := by omega
    rw [e1]
    have : (fun h => decide (h < e + 1)) = (fun h => decide (h ≤ e)) := by
      funext h; simp; omega
    rw [this]
  · -- empty window: no harvest day is ≤ e either
    have e1 : b + (e + 1 - b) = b := by omega
    rw [e1]
    have t1 : ernte.takeWhile (fun h => decide (h < b)) = [] := by
      cases ernte with
      | nil => rfl
      | cons h hs =>
        have : ¬ h < b := by have := hstart h (by simp); omega
        simp [this]
    have t2 : ernte.takeWhile (fun h => decide (h ≤ e)) = [] := by
      cases ernte with
      | nil => rfl
      | cons h hs =>
        have : ¬ h ≤ e := by have := hstart h (by simp); omega
        simp [this]
    rw [t1, t2]

/-- Every crop record is written on the harvest day of its rotation element, and the rotation
indices of successive records increase by exactly one (rotation order, nothing skipped). -/
theorem C05_crop_records_in_rotation_order (ernte : List Nat) (b e : Nat) (hb : 1 ≤ b)
    (hsorted : ernte.Pairwise (· < ·)) (hstart : ∀ h ∈ ernte, b ≤ h) :
    (∀ p ∈ cropWrites ernte (window b e) 0, 1 ≤ p.2 ∧ ernte[p.2]? = some p.1 ∧ p.1 ≤ e) := by
  intro p hp
  rw [C05_crop_records ernte b e hb hsorted hstart, List.mem_filter] at hp
  obtain ⟨hmem, hge⟩ := hp
  have hge' : 1 ≤ p.2 := by simpa using hge
  rcases p with ⟨h, i⟩
  rw [List.mem_zipIdx_iff_getElem?] at hmem
  refine ⟨hge', ?_, ?_⟩
  · have hpre : (ernte.takeWhile (fun h => decide (h ≤ e))) <+: ernte := List.takeWhile_prefix _
    obtain ⟨t, ht⟩ := hpre
    have hlt : i < (ernte.takeWhile (fun h => decide (h ≤ e))).length := by
      rcases Nat.lt_or_ge i (ernte.takeWhile (fun h => decide (h ≤ e))).length with h' | h'
      · exact h'
      · rw [List.getElem?_eq_none h'] at hmem; simp at hmem
    show ernte[i]? = some h
    rw [← ht, List.getElem?_append_left hlt]; exact hmem
  · have hm : h ∈ ernte.takeWhile (fun h => decide (h ≤ e)) := List.mem_of_getElem? hmem
    have hall := List.all_takeWhile (l := ernte) (p := fun h => decide (h ≤ e))
    rw [List.all_eq_true] at hall
    have := hall h hm
    simpa using this

end Hermes.RecordLoop

namespace Hermes.Output

/-! ### fields per record -/

/-- In both styles one WriteLine call writes one record with exactly as many fields as the
configuration defines columns — for every non-empty configuration, whatever its columns are bound
to (the call panics only for an index beyond the length of a `[]float64`, see
`C05_fields_cell_kinds`). -/
theorem C05_fields_eq_columns (style : Style) (refs : List Ref) (hne : refs ≠ []) :
    record style refs = some refs.length := by
  have hall : refs.countP emits = refs.length := by
    rw [List.countP_eq_length]; intro r _; rfl
  have hpos : refs.length > 0 := by
    cases refs with
    | nil => exact absurd rfl hne
    | cons _ _ => simp
  cases style with
  | csv => rw [record_csv, hall]; simp [hpos]
  | fixed => rw [record_fixed, hall]; simp [hpos]

/-- A configuration without columns writes no record. -/
theorem C05_fields_empty (style : Style) : record style [] = none := by
  cases style <;> rfl

/-- What the field of a column shows: the value of the variable iff the reference resolves — through
at most one sub-field step and two array index steps — to a variable of a basic kind (int, float64,
bool, string, named integer types, …) or to an element, inside its length, of a slice of such; the
n.a. text otherwise; a panic exactly for a `[]float64` index beyond the length. -/
theorem C05_fields_cell_kinds (r : Ref) (i1 sl : Nat) :
    (cell r i1 sl = .value ↔
      ∃ t, t.isBasic = true ∧ (r = .ptr t ∨ (r = .ptr (.slice t) ∧ i1 < sl))) ∧
    (cell r i1 sl = .panic ↔ (r = .ptr (.slice .float64) ∧ sl ≤ i1)) := by
  cases r with
  | na => simp [cell]
  | ptr t =>
    cases t with
    | slice e =>
      have hs := slice_not_basic e
      by_cases h : i1 ≥ sl
      · have h' : ¬ i1 < sl := by omega
        cases e <;> simp [cell, h, h'] <;> (try rfl) <;> (try simp [Ty.isBasic]) <;> (try exact fun x hx => hs x hx) <;> (try omega)
      · have h' : i1 < sl := by omega
        cases e <;> simp [cell, h, h'] <;>
          first
          | exact ⟨_, rfl, Or.inr rfl⟩
          | (refine ⟨⟨fun hb => ⟨_, hb, Or.inr rfl⟩, fun ⟨t, ht, hor⟩ => ?_⟩, ?_⟩
             · rcases hor with he | he
               · exact absurd he (hs t ht)
               · subst he; exact ht
             · split <;> simp)
    | _ => simp [cell, Ty.isBasic]

/-- Every column that binds to a model variable of a kind the property quantifies over (scalars and
text, directly, as array elements and as nested fields) shows the value of that variable. -/
theorem C05_fields_model_variables_written (ft : FieldTy) (sub : String) (i1 i2 sl : Nat) (t : Ty)
    (hb : bind ft sub i1 i2 = .ptr t) (ht : t.isBasic = true) :
    cell (bind ft sub i1 i2) i1 sl = .value := by
  rw [hb]
  exact ((C05_fields_cell_kinds (.ptr t) i1 sl).1).mpr ⟨t, ht, Or.inl rfl⟩

/-- Regression witnesses of the repaired defect (the inputs of the former `C05_fields_fails_at`):
[AKTUELL, AUTOMAN] (string, bool) and [AKTUELL, FRUCHT[1]] (string, element of [300]CropType) give
two fields in both styles, a single bool column one field. -/
theorem C05_fields_regression_witnesses :
    record .csv [bind (.plain .string) "" 0 0, bind (.plain .bool) "" 0 0] = some 2 ∧
    record .fixed [bind (.plain .string) "" 0 0, bind (.plain .bool) "" 0 0] = some 2 ∧
    record .csv [bind (.plain .string) "" 0 0, bind (.plain (.array 300 .namedInt)) "" 1 0] = some 2 ∧
    record .fixed [bind (.plain .string) "" 0 0, bind (.plain (.array 300 .namedInt)) "" 1 0] = some 2 ∧
    record .csv [bind (.plain .bool) "" 0 0] = some 1 ∧
    cell (bind (.plain (.array 300 .namedInt)) "" 1 0) 1 0 = .value ∧
    cell (bind (.plain (.slice .int)) "" 2 0) 2 3 = .value ∧
    cell (bind (.plain (.slice .int)) "" 3 0) 3 3 = .na ∧
    cell (bind (.plain .opaque) "" 0 0) 0 0 = .na := by
  decide

/-! ### non-vacuity -/

-- a configuration with a scalar, an array element, a 2-dim element, a nested field, text, a bool,
-- an unknown variable: seven columns, seven fields in both styles
def exampleRefs : List Ref :=
  [bind (.plain .float64) "" 0 0, bind (.plain (.array 21 .float64)) "" 20 0,
    bind (.plain (.array 3 (.array 21 .float64))) "" 2 20,
    bind (.struct [("Index", .int), ("Num", .float64), ("Offset", .int)]) "Index" 0 0,
    bind (.plain .string) "" 0 0, bind (.plain .bool) "" 0 0, bind .missing "" 0 0]
example : record .csv exampleRefs = some 7 ∧ record .fixed exampleRefs = some 7 ∧ exampleRefs ≠ [] := by
  decide
-- out-of-range index and struct without sub-field bind to the n.a. text
example : bind (.plain (.array 21 .float64)) "" 21 0 = .na ∧
    bind (.struct [("Index", .int)]) "" 0 0 = .na := by decide
-- the hypothesis of C05_fields_model_variables_written is met by FRUCHT[1]
example : bind (.plain (.array 300 .namedInt)) "" 1 0 = .ptr .namedInt ∧ Ty.namedInt.isBasic = true := by
  decide

end Hermes.Output

namespace Hermes.RecordLoop
open Hermes.Calendar

instance (yr mon tg : Nat) : Decidable (ValidDate yr mon tg) := by
  unfold ValidDate; exact inferInstance

-- the hypotheses of the yearly theorems are met by a concrete run (01.09.1980 … 31.12.1981, 30.09.)
example : ValidDate 81 9 30 ∧ ValidDate 80 9 30 ∧ 1 ≤ (setup 80 9 1 81 12 31 9 30).beginn ∧
    (setup 80 9 1 81 12 31 9 30).ende ≤ 72684 := by decide
-- 29.02. with a leap end year, a year without 29.02.
example : ValidDate 84 2 29 ∧ 83 % 4 ≠ 0 ∧
    (records 83 1 1 84 12 31 2 29 0 [masdat 83 1 1]).2.1 = [masdat 83 3 1, masdat 84 2 29] := by decide
-- a rotation: initial crop harvested on day 10 (= BEGINN), crops harvested on days 30, 70, 120;
-- ENDE = 100: records for rotation elements 1 and 2 only
example : cropWrites [10, 30, 70, 120] (window 10 100) 0 = [(30, 1), (70, 2)] := by decide
example : [10, 30, 70, 120].Pairwise (· < ·) ∧ ∀ h ∈ [10, 30, 70, 120], 10 ≤ h := by decide
-- interval 7 over three weeks
example : dailyWrites 7 (window 29099 29120) = [29099, 29106, 29113, 29120] := by decide
-- leap day: 28.02.2000 → 29.02.2000 → 01.03.2000 are consecutive day numbers
example : kalenderDate (masdat 100 2 28 + 1) = some (2000, 2, 29) ∧
    kalenderDate (masdat 100 2 28 + 2) = some (2000, 3, 1) := by decide

end Hermes.RecordLoop
