#!/bin/bash
# usage: run_tests.sh <worktree of /repo> <outfile>  — runs the pinned suite (all modules) in the worktree with the
# verif guard OFF and writes the sorted list of passing test ids (module|package|test) to <outfile>.
WT="$1"; OUT="$2"
export GOPROXY=off GOSUMDB=off GOTOOLCHAIN=local
TMP=$(mktemp)
for m in $(cat /w/out/gomods.txt); do
  ( cd "$WT/$m" 2>/dev/null || exit 0
    gw=$(go env GOWORK 2>/dev/null); MF=""; if [ -z "$gw" ] || [ "$gw" = off ]; then MF="-mod=mod"; fi
    go test $MF -json -vet=off -count=1 -timeout 25m ./... 2>/dev/null | python3 -c "
import sys, json
for line in sys.stdin:
    try: e = json.loads(line)
    except Exception: continue
    if e.get('Action') == 'pass' and e.get('Test'):
        print('%s|%s|%s' % ('$m', e.get('Package'), e['Test']))
" ) >> "$TMP"
done
sort -u "$TMP" > "$OUT"; rm -f "$TMP"
wc -l < "$OUT"
