/-
Lemmas about the model of the partition part of `Evatra` over ℚ (exact arithmetic): caps and
split, the reduction functions, the air-deficit factor, the first distribution of transpiration
and the deficit redistribution loop (the total never grows, nothing becomes negative, layers
beyond the loop bound are untouched).
-/
import HermesProofs.RatInst
import HermesModel.Evatra
import Mathlib.Tactic.Linarith
import Mathlib.Tactic.Ring
import Mathlib.Tactic.FieldSimp
import Mathlib.Tactic.NormNum
import Mathlib.Tactic.Positivity

namespace Hermes.Evatra

/-! ### caps and split -/

theorem capSplit_le (crop : Bool) (v e : ℚ) :
    (capSplit crop v e).1 ≤ (if crop then 0.65 else 0.6) := by
  unfold capSplit
  cases crop <;> simp only [Bool.false_eq_true, if_false, if_true] <;> split_ifs <;> norm_num <;> linarith

theorem capSplit_sum (crop : Bool) (v e : ℚ) (he0 : 0 ≤ e) (he1 : e ≤ 1) :
    (capSplit crop v e).2.1 + (capSplit crop v e).2.2 = (capSplit crop v e).1 := by
  unfold capSplit
  cases crop <;> simp only [Bool.false_eq_true, if_false, if_true]
  · split_ifs <;> norm_num at * <;> linarith
  · split_ifs <;> norm_num at * <;> nlinarith

/-- with the floor at zero of the repaired code no hypothesis on the method's value is needed -/
theorem capSplit_nonneg (crop : Bool) (v e : ℚ) (he0 : 0 ≤ e) (he1 : e ≤ 1) :
    0 ≤ (capSplit crop v e).1 ∧ 0 ≤ (capSplit crop v e).2.1 ∧ 0 ≤ (capSplit crop v e).2.2 ∧
      (capSplit crop v e).2.1 ≤ (capSplit crop v e).1 := by
  unfold capSplit
  cases crop <;> simp only [Bool.false_eq_true, if_false, if_true]
  · refine ⟨?_, ?_, ?_, ?_⟩ <;> (try split_ifs) <;> norm_num <;> linarith
  · refine ⟨?_, ?_, ?_, ?_⟩ <;> (try split_ifs) <;> norm_num <;> nlinarith

/-! ### reduction functions -/

theorem proz_unit (wg0 regen dz wmin0 w0 : ℚ) (h : wmin0 / 3 < w0) :
    0 ≤ proz wg0 regen dz wmin0 w0 ∧ proz wg0 regen dz wmin0 w0 ≤ 1 := by
  unfold proz
  have hd : 0 < w0 - wmin0 / 3 := by linarith
  simp only
  split_ifs with h1 h2 h2
  · exact ⟨by norm_num, le_refl _⟩
  · simp
  · exact ⟨by norm_num, le_refl _⟩
  · constructor
    · apply div_nonneg _ hd.le; linarith
    · linarith

theorem redev_unit (p : ℚ) (h0 : 0 ≤ p) (h1 : p ≤ 1) : 0 ≤ redev p ∧ redev p ≤ 1 := by
  unfold redev
  split_ifs <;> constructor <;> norm_num <;> linarith

theorem clamp0_nonneg (x : ℚ) : 0 ≤ clamp0 x := by
  unfold clamp0; split_ifs <;> linarith

theorem clamp0_of_nonneg (x : ℚ) (h : 0 ≤ x) : clamp0 x = x := by
  unfold clamp0; split_ifs <;> linarith

theorem trred_unit (x : ℚ) : 0 ≤ trred x ∧ trred x ≤ 1 := by
  refine ⟨clamp0_nonneg _, ?_⟩
  unfold trred clamp0
  split_ifs <;> norm_num at * <;> linarith

theorem wueffRaw_unit (x : ℚ) : 0 ≤ wueffRaw x ∧ wueffRaw x ≤ 1 := by
  refine ⟨clamp0_nonneg _, ?_⟩
  unfold wueffRaw clamp0
  split_ifs <;> norm_num at * <;> linarith

/-! ### air-deficit factor -/

theorem lured_unit (i : In ℚ) : 0 ≤ (lured i).1 ∧ (lured i).1 ≤ 1 := by
  unfold lured
  simp only
  generalize (i.p0 + i.p1 + i.p2 - i.g0 - i.g1 - i.g2) / 3 = lp
  by_cases hc : 0 < i.lukrit ∧ lp < i.lukrit
  · rw [if_pos hc]
    obtain ⟨hk, hl⟩ := hc
    generalize hld : (if 4 < i.lumday + i.dtIdx then 4 else i.lumday + i.dtIdx) = ld
    have hld4 : ld ≤ 4 := by rw [← hld]; split_ifs <;> omega
    have hq0 : (0 : ℚ) ≤ (Conv.ofNat ld : ℚ) / 4 := by
      apply div_nonneg _ (by norm_num); exact Nat.cast_nonneg ld
    have hq1 : (Conv.ofNat ld : ℚ) / 4 ≤ 1 := by
      rw [div_le_one (by norm_num)]
      have : ((ld : ℕ) : ℚ) ≤ ((4 : ℕ) : ℚ) := Nat.cast_le.mpr hld4
      simpa [Conv.ofNat] using this
    generalize (Conv.ofNat ld : ℚ) / 4 = q at hq0 hq1
    have hm0 : 0 ≤ (if lp < 0 then 0 else lp) / i.lukrit := by
      apply div_nonneg _ hk.le; split_ifs <;> linarith
    have hm1 : (if lp < 0 then 0 else lp) / i.lukrit ≤ 1 := by
      rw [div_le_one hk]; split_ifs <;> linarith
    generalize (if lp < 0 then 0 else lp) / i.lukrit = m at hm0 hm1
    simp only
    split_ifs <;> constructor <;> nlinarith
  · rw [if_neg hc]; norm_num

/-! ### lists of layers -/

theorem sumFrom_eq : ∀ (l : List ℚ) (z : ℚ), sumFrom z l = z + l.sum := by
  intro l
  induction l with
  | nil => intro z; simp [sumFrom]
  | cons x xs ih => intro z; simp only [sumFrom, List.sum_cons]; rw [ih]; ring

/-- root activity × root density of a layer -/
def wq (l : Lay ℚ) : ℚ := l.wueff * l.wudich

/-- admissible layer list: uptake, root activity and root density are non-negative -/
def LaysOk (ls : List (Lay ℚ)) : Prop := ∀ l ∈ ls, 0 ≤ l.tp ∧ 0 ≤ l.wueff ∧ 0 ≤ l.wudich

theorem LaysOk.tail {l : Lay ℚ} {ls : List (Lay ℚ)} (h : LaysOk (l :: ls)) : LaysOk ls :=
  fun x hx => h x (List.mem_cons_of_mem _ hx)

theorem LaysOk.head {l : Lay ℚ} {ls : List (Lay ℚ)} (h : LaysOk (l :: ls)) :
    0 ≤ l.tp ∧ 0 ≤ l.wueff ∧ 0 ≤ l.wudich := h l (by simp)

theorem wq_nonneg_of {ls : List (Lay ℚ)} (h : LaysOk ls) : ∀ x ∈ ls.map wq, 0 ≤ x := by
  intro x hx
  obtain ⟨l, hl, rfl⟩ := List.mem_map.mp hx
  obtain ⟨_, h2, h3⟩ := h l hl
  exact mul_nonneg h2 h3

theorem sum_take_nonneg {ls : List (Lay ℚ)} (h : LaysOk ls) (k : ℕ) : 0 ≤ ((ls.take k).map wq).sum := by
  apply List.sum_nonneg
  intro x hx
  obtain ⟨l, hl, rfl⟩ := List.mem_map.mp hx
  obtain ⟨_, h2, h3⟩ := h l (List.mem_of_mem_take hl)
  exact mul_nonneg h2 h3

/-! ### the undeliverable part of a layer's uptake -/

theorem trest_le (dz : ℚ) (l : Lay ℚ) : trest dz l ≤ l.tp := by
  unfold trest
  simp only
  split_ifs <;> linarith

theorem trest_nonneg (dz : ℚ) (l : Lay ℚ) (hdz : 0 < dz) (h : 0 ≤ l.tp) : 0 ≤ trest dz l := by
  unfold trest
  simp only
  have hq : 0 ≤ l.tp / dz := div_nonneg h hdz.le
  split_ifs <;> linarith

/-! ### handing a deficit to the next layers -/

theorem addShare_length (tr w : ℚ) : ∀ (k : ℕ) (ls : List (Lay ℚ)), (addShare tr w k ls).length = ls.length := by
  intro k
  induction k with
  | zero => intro ls; simp [addShare]
  | succ k ih =>
    intro ls
    cases ls with
    | nil => simp [addShare]
    | cons l ls => simp [addShare, ih]

theorem addShare_wq (tr w : ℚ) : ∀ (k : ℕ) (ls : List (Lay ℚ)), (addShare tr w k ls).map wq = ls.map wq := by
  intro k
  induction k with
  | zero => intro ls; simp [addShare]
  | succ k ih =>
    intro ls
    cases ls with
    | nil => simp [addShare]
    | cons l ls =>
      simp only [addShare, List.map_cons, ih]
      split_ifs <;> simp [wq]

theorem addShare_ok (tr w : ℚ) (htr : 0 ≤ tr) : ∀ (k : ℕ) (ls : List (Lay ℚ)), LaysOk ls → LaysOk (addShare tr w k ls) := by
  intro k
  induction k with
  | zero => intro ls h; simpa [addShare] using h
  | succ k ih =>
    intro ls h
    cases ls with
    | nil => simpa [addShare] using h
    | cons l ls =>
      obtain ⟨h1, h2, h3⟩ := h.head
      intro x hx
      simp only [addShare, List.mem_cons] at hx
      rcases hx with rfl | hx
      · split_ifs with hw
        · refine ⟨?_, h2, h3⟩
          have : 0 ≤ tr * l.wueff * l.wudich / w := by positivity
          simp only; linarith
        · exact ⟨h1, h2, h3⟩
      · exact ih ls h.tail x hx

theorem addShare_sum (tr w : ℚ) (hw : 0 < w) : ∀ (k : ℕ) (ls : List (Lay ℚ)),
    ((addShare tr w k ls).map (·.tp)).sum = (ls.map (·.tp)).sum + tr * ((ls.take k).map wq).sum / w := by
  intro k
  induction k with
  | zero => intro ls; simp [addShare]
  | succ k ih =>
    intro ls
    cases ls with
    | nil => simp [addShare]
    | cons l ls =>
      simp only [addShare, if_pos hw, List.map_cons, List.sum_cons, List.take_succ_cons, ih, wq]
      field_simp
      ring

theorem addShare_sum_le (tr w : ℚ) (htr : 0 ≤ tr) (k : ℕ) (ls : List (Lay ℚ)) (hok : LaysOk ls)
    (hinv : ((ls.take k).map wq).sum ≤ w) :
    ((addShare tr w k ls).map (·.tp)).sum ≤ (ls.map (·.tp)).sum + tr := by
  have hs := sum_take_nonneg hok k
  by_cases hw : 0 < w
  · rw [addShare_sum tr w hw]
    have : tr * ((ls.take k).map wq).sum / w ≤ tr := by
      rw [div_le_iff₀ hw]; nlinarith
    linarith
  · -- no share is handed on
    have : addShare tr w k ls = ls := by
      clear hinv hs hok
      induction k generalizing ls with
      | zero => simp [addShare]
      | succ k ih =>
        cases ls with
        | nil => simp [addShare]
        | cons l ls => simp [addShare, hw, ih]
    rw [this]; linarith

theorem addShare_get (tr w : ℚ) : ∀ (k : ℕ) (ls : List (Lay ℚ)) (j : ℕ), k ≤ j →
    (addShare tr w k ls)[j]? = ls[j]? := by
  intro k
  induction k with
  | zero => intro ls j _; simp [addShare]
  | succ k ih =>
    intro ls j hj
    cases ls with
    | nil => simp [addShare]
    | cons l ls =>
      cases j with
      | zero => omega
      | succ j => simp only [addShare, List.getElem?_cons_succ]; exact ih ls j (by omega)

/-! ### the redistribution loop -/

/-- Main invariant of the loop (water.go:597-635): with non-negative uptakes, activities and
densities, and the remaining activity `weffrest` at least the activity of the layers the loop
still visits, the loop (a) keeps every uptake non-negative, (b) does not increase the total,
(c) adds to TPAKT exactly uptakes it leaves in visited layers (so TPAKT grows by at most the
total), (d) keeps the number of layers. -/
theorem redist_spec (dz minv grw : ℚ) (hdz : 0 < dz) :
    ∀ (cnt i : ℕ) (wr tpakt gw : ℚ) (ls : List (Lay ℚ)), LaysOk ls →
      ((ls.take cnt).map wq).sum ≤ wr →
      (∀ t ∈ (redist dz minv grw cnt i wr tpakt gw ls).1, 0 ≤ t) ∧
      (redist dz minv grw cnt i wr tpakt gw ls).1.sum ≤ (ls.map (·.tp)).sum ∧
      tpakt ≤ (redist dz minv grw cnt i wr tpakt gw ls).2.1 ∧
      (redist dz minv grw cnt i wr tpakt gw ls).2.1 - tpakt ≤ (redist dz minv grw cnt i wr tpakt gw ls).1.sum ∧
      (redist dz minv grw cnt i wr tpakt gw ls).1.length = ls.length := by
  intro cnt
  induction cnt with
  | zero =>
    intro i wr tpakt gw ls hok _
    simp only [redist]
    refine ⟨?_, le_refl _, le_refl _, ?_, by simp⟩
    · intro t ht
      obtain ⟨l, hl, rfl⟩ := List.mem_map.mp ht
      exact (hok l hl).1
    · have : 0 ≤ (ls.map (·.tp)).sum := by
        apply List.sum_nonneg
        intro t ht
        obtain ⟨l, hl, rfl⟩ := List.mem_map.mp ht
        exact (hok l hl).1
      linarith
  | succ cnt ih =>
    intro i wr tpakt gw ls hok hinv
    cases ls with
    | nil => simp [redist]
    | cons l ls =>
      obtain ⟨h1, h2, h3⟩ := hok.head
      have htr0 := trest_nonneg dz l hdz h1
      have htr1 := trest_le dz l
      have hinv' : ((ls.take cnt).map wq).sum ≤ wr - l.wueff * l.wudich := by
        simp only [List.take_succ_cons, List.map_cons, List.sum_cons, wq] at hinv
        linarith
      have ht : clamp0 (l.tp - trest dz l) = l.tp - trest dz l := clamp0_of_nonneg _ (by linarith)
      simp only [redist]
      generalize hls' : (if 0 < trest dz l ∧ (Conv.ofNat i : ℚ) < minv then
          addShare (trest dz l) (wr - l.wueff * l.wudich) cnt ls else ls) = ls'
      have hok' : LaysOk ls' := by
        rw [← hls']; split_ifs
        · exact addShare_ok _ _ htr0 _ _ hok.tail
        · exact hok.tail
      have hinv'' : ((ls'.take cnt).map wq).sum ≤ wr - l.wueff * l.wudich := by
        rw [← hls']; split_ifs
        · rw [List.map_take, addShare_wq, ← List.map_take]; exact hinv'
        · exact hinv'
      have hsum' : (ls'.map (·.tp)).sum ≤ (ls.map (·.tp)).sum + trest dz l := by
        rw [← hls']; split_ifs
        · exact addShare_sum_le _ _ htr0 _ _ hok.tail hinv'
        · linarith
      have hlen' : ls'.length = ls.length := by
        rw [← hls']; split_ifs
        · exact addShare_length _ _ _ _
        · rfl
      generalize hgw : (if (Conv.ofNat i : ℚ) < grw ∨ grw < (Conv.ofNat i : ℚ) then gw else clamp0 (l.tp - trest dz l)) = gw'
      obtain ⟨r1, r2, r3, r4, r5⟩ := ih (i + 1) (wr - l.wueff * l.wudich) (tpakt + clamp0 (l.tp - trest dz l)) gw' ls' hok' hinv''
      rw [ht] at r1 r2 r3 r4 r5 ⊢
      refine ⟨?_, ?_, ?_, ?_, ?_⟩
      · intro t hmem
        rcases List.mem_cons.mp hmem with rfl | hmem
        · linarith
        · exact r1 t hmem
      · simp only [List.sum_cons, List.map_cons]; linarith
      · linarith
      · simp only [List.sum_cons]; linarith
      · simp only [List.length_cons, r5, hlen']

/-- layers beyond the loop bound keep their uptake -/
theorem redist_get (dz minv grw : ℚ) :
    ∀ (cnt i : ℕ) (wr tpakt gw : ℚ) (ls : List (Lay ℚ)) (j : ℕ), cnt ≤ j →
      (redist dz minv grw cnt i wr tpakt gw ls).1[j]? = (ls[j]?).map (·.tp) := by
  intro cnt
  induction cnt with
  | zero => intro i wr tpakt gw ls j _; simp [redist]
  | succ cnt ih =>
    intro i wr tpakt gw ls j hj
    cases ls with
    | nil => simp [redist]
    | cons l ls =>
      cases j with
      | zero => omega
      | succ j =>
        simp only [redist, List.getElem?_cons_succ]
        rw [ih _ _ _ _ _ j (by omega)]
        split_ifs
        · rw [addShare_get _ _ _ _ _ (by omega)]
        · rfl

/-! ### first distribution of the potential transpiration -/

/-- root activity and density non-negative (no condition on the uptake) -/
def ActOk (ls : List (Lay ℚ)) : Prop := ∀ l ∈ ls, 0 ≤ l.wueff ∧ 0 ≤ l.wudich

/-- activity of the layers the first distribution serves (1-based layer number `k` with `k ≤ minv`) -/
def inRange (minv : ℚ) : ℕ → List (Lay ℚ) → ℚ
  | _, [] => 0
  | k, l :: ls => (if minv < ((k : ℕ) : ℚ) then 0 else wq l) + inRange minv (k + 1) ls

theorem tpInit_length (tramax weff lr minv : ℚ) : ∀ (ls : List (Lay ℚ)) (k : ℕ),
    (tpInit tramax weff lr minv k ls).length = ls.length := by
  intro ls
  induction ls with
  | nil => intro k; simp [tpInit]
  | cons l ls ih => intro k; simp [tpInit, ih]

theorem tpInit_wq (tramax weff lr minv : ℚ) : ∀ (ls : List (Lay ℚ)) (k : ℕ),
    (tpInit tramax weff lr minv k ls).map wq = ls.map wq := by
  intro ls
  induction ls with
  | nil => intro k; simp [tpInit]
  | cons l ls ih => intro k; simp [tpInit, ih, wq]

theorem tpInit_ok (tramax weff lr minv : ℚ) (ht : 0 ≤ tramax) (hl : 0 ≤ lr) (hw : 0 ≤ weff) :
    ∀ (ls : List (Lay ℚ)) (k : ℕ), ActOk ls → LaysOk (tpInit tramax weff lr minv k ls) := by
  intro ls
  induction ls with
  | nil => intro k _ x hx; simp [tpInit] at hx
  | cons l ls ih =>
    intro k hok x hx
    obtain ⟨h2, h3⟩ := hok l (by simp)
    simp only [tpInit, List.mem_cons] at hx
    rcases hx with rfl | hx
    · refine ⟨?_, h2, h3⟩
      simp only
      split_ifs
      · exact le_refl _
      · positivity
      · exact le_refl _
    · exact ih (k + 1) (fun y hy => hok y (List.mem_cons_of_mem _ hy)) x hx

theorem tpInit_sum (tramax weff lr minv : ℚ) : ∀ (ls : List (Lay ℚ)) (k : ℕ), ActOk ls →
    ((tpInit tramax weff lr minv k ls).map (·.tp)).sum = tramax * lr * inRange minv k ls / weff := by
  intro ls
  induction ls with
  | nil => intro k _; simp [tpInit, inRange]
  | cons l ls ih =>
    intro k hok
    obtain ⟨h2, h3⟩ := hok l (by simp)
    have hq : 0 ≤ l.wueff * l.wudich := mul_nonneg h2 h3
    simp only [tpInit, inRange, List.map_cons, List.sum_cons]
    rw [ih (k + 1) (fun y hy => hok y (List.mem_cons_of_mem _ hy))]
    have hc : (Conv.ofNat k : ℚ) = ((k : ℕ) : ℚ) := rfl
    rw [hc]
    split_ifs with ha hb
    · ring
    · simp only [wq]; ring
    · have : l.wueff * l.wudich = 0 := le_antisymm (not_lt.mp hb) hq
      simp only [wq, this]; ring

theorem tpInit_zero (tramax weff lr minv : ℚ) : ∀ (ls : List (Lay ℚ)) (k j : ℕ) (x : Lay ℚ),
    (tpInit tramax weff lr minv k ls)[j]? = some x → minv < (((k + j : ℕ)) : ℚ) → x.tp = 0 := by
  intro ls
  induction ls with
  | nil => intro k j x h; simp [tpInit] at h
  | cons l ls ih =>
    intro k j x h hm
    cases j with
    | zero =>
      simp only [tpInit, List.getElem?_cons_zero, Option.some.injEq] at h
      rw [← h]
      have hc : (Conv.ofNat k : ℚ) = ((k : ℕ) : ℚ) := rfl
      simp only [hc]
      rw [if_pos (by simpa using hm)]
    | succ j =>
      simp only [tpInit, List.getElem?_cons_succ] at h
      exact ih (k + 1) j x h (by have : k + 1 + j = k + (j + 1) := by omega
                                 rw [this]; exact hm)

theorem inRange_nonneg (minv : ℚ) : ∀ (ls : List (Lay ℚ)) (k : ℕ), ActOk ls → 0 ≤ inRange minv k ls := by
  intro ls
  induction ls with
  | nil => intro k _; simp [inRange]
  | cons l ls ih =>
    intro k hok
    obtain ⟨h2, h3⟩ := hok l (by simp)
    have := ih (k + 1) (fun y hy => hok y (List.mem_cons_of_mem _ hy))
    simp only [inRange]
    split_ifs
    · linarith
    · have : 0 ≤ wq l := mul_nonneg h2 h3
      linarith

theorem inRange_le (minv : ℚ) (wurz : ℕ) (hm : minv ≤ ((wurz : ℕ) : ℚ)) :
    ∀ (ls : List (Lay ℚ)) (k : ℕ), ActOk ls →
      inRange minv k ls ≤ ((ls.take (wurz + 1 - k)).map wq).sum := by
  intro ls
  induction ls with
  | nil => intro k _; simp [inRange]
  | cons l ls ih =>
    intro k hok
    obtain ⟨h2, h3⟩ := hok l (by simp)
    have hq : 0 ≤ wq l := mul_nonneg h2 h3
    have hok' : ActOk ls := fun y hy => hok y (List.mem_cons_of_mem _ hy)
    have hih := ih (k + 1) hok'
    simp only [inRange]
    by_cases hk : k ≤ wurz
    · have he : wurz + 1 - k = (wurz + 1 - (k + 1)) + 1 := by omega
      rw [he, List.take_succ_cons, List.map_cons, List.sum_cons]
      split_ifs <;> linarith
    · have hlt : minv < ((k : ℕ) : ℚ) := by
        have : ((wurz : ℕ) : ℚ) < ((k : ℕ) : ℚ) := Nat.cast_lt.mpr (by omega)
        linarith
      have he : wurz + 1 - k = 0 := by omega
      have he' : wurz + 1 - (k + 1) = 0 := by omega
      rw [he'] at hih
      rw [if_pos hlt, he]
      simpa using hih

theorem sum_take_mono {ls : List (Lay ℚ)} (h : ActOk ls) : ∀ (k k' : ℕ), k ≤ k' →
    ((ls.take k).map wq).sum ≤ ((ls.take k').map wq).sum := by
  induction ls with
  | nil => intro k k' _; simp
  | cons l ls ih =>
    intro k k' hk
    obtain ⟨h2, h3⟩ := h l (by simp)
    have hq : 0 ≤ wq l := mul_nonneg h2 h3
    have h' : ActOk ls := fun y hy => h y (List.mem_cons_of_mem _ hy)
    cases k with
    | zero =>
      simp only [List.take_zero, List.map_nil, List.sum_nil]
      apply List.sum_nonneg
      intro x hx
      obtain ⟨y, hy, rfl⟩ := List.mem_map.mp hx
      obtain ⟨a, b⟩ := h y (List.mem_of_mem_take hy)
      exact mul_nonneg a b
    | succ k =>
      cases k' with
      | zero => omega
      | succ k' =>
        simp only [List.take_succ_cons, List.map_cons, List.sum_cons]
        have := ih h' k k' (by omega)
        linarith

/-! ### the layer table -/

theorem mkLays_ok (wurz : ℕ) (grw : ℚ) : ∀ (gs ms xs ds : List ℚ) (k : ℕ), (∀ d ∈ ds, 0 ≤ d) →
    ActOk (mkLays wurz grw k gs ms xs ds) := by
  intro gs
  induction gs with
  | nil => intro ms xs ds k _ l hl; simp [mkLays] at hl
  | cons g gs ih =>
    intro ms xs ds k hd l hl
    cases ms with
    | nil => simp [mkLays] at hl
    | cons m ms =>
      cases xs with
      | nil => simp [mkLays] at hl
      | cons x xs =>
        cases ds with
        | nil => simp [mkLays] at hl
        | cons d ds =>
          simp only [mkLays, List.mem_cons] at hl
          rcases hl with rfl | hl
          · refine ⟨?_, hd d (by simp)⟩
            simp only
            split_ifs
            · exact le_refl _
            · exact (wueffRaw_unit x).1
            · exact le_refl _
          · exact ih ms xs ds (k + 1) (fun y hy => hd y (List.mem_cons_of_mem _ hy)) l hl

/-! ### the whole uptake computation -/

theorem minRootGw_le (wurz : ℕ) (grw : ℚ) : minRootGw wurz grw ≤ ((wurz : ℕ) : ℚ) := by
  unfold minRootGw
  have hc : (Conv.ofNat wurz : ℚ) = ((wurz : ℕ) : ℚ) := rfl
  rw [hc]
  split_ifs <;> linarith

theorem truncNat_le (x : ℚ) (n : ℕ) (h : x ≤ ((n : ℕ) : ℚ)) : (Conv.truncNat x : ℕ) ≤ n := by
  show (⌊x⌋).toNat ≤ n
  rw [Int.toNat_le]
  have h1 : ((⌊x⌋ : ℤ) : ℚ) ≤ x := Int.floor_le x
  have h2 : ((⌊x⌋ : ℤ) : ℚ) ≤ (((n : ℕ) : ℤ) : ℚ) := by
    rw [Int.cast_natCast]; linarith
  exact Int.cast_le.mp h2

theorem truncNat_le_of_lt (x : ℚ) (j : ℕ) (h : x < (((j + 1 : ℕ)) : ℚ)) : (Conv.truncNat x : ℕ) ≤ j := by
  show (⌊x⌋).toNat ≤ j
  rw [Int.toNat_le]
  have h1 : ((⌊x⌋ : ℤ) : ℚ) ≤ x := Int.floor_le x
  have h2 : ((⌊x⌋ : ℤ) : ℚ) < ((((j + 1 : ℕ)) : ℤ) : ℚ) := by
    rw [Int.cast_natCast]; linarith
  have h3 : ⌊x⌋ < (((j + 1 : ℕ)) : ℤ) := Int.cast_lt.mp h2
  push_cast at h3
  omega

theorem weffSum_eq (wurz : ℕ) (ls : List (Lay ℚ)) : weffSum wurz ls = ((ls.take wurz).map wq).sum := by
  unfold weffSum
  rw [sumFrom_eq, zero_add]
  rfl

/-- The uptake computation of one day (first distribution + redistribution loop) on a layer table
with non-negative activities: nothing negative, the loop does not increase the total, the first
distribution hands out at most `tramax·lured`, and TPAKT lies between 0 and the total. -/
theorem uptake_spec (dz grw tramax lrv : ℚ) (wurz : ℕ) (lays : List (Lay ℚ)) (hact : ActOk lays)
    (hdz : 0 < dz) (ht : 0 ≤ tramax) (hl : 0 ≤ lrv) :
    (∀ t ∈ (redist dz (minRootGw wurz grw) grw (Conv.truncNat (minRootGw wurz grw)) 1 (weffSum wurz lays) 0 0
        (tpInit tramax (weffSum wurz lays) lrv (minRootGw wurz grw) 1 lays)).1, 0 ≤ t) ∧
    (redist dz (minRootGw wurz grw) grw (Conv.truncNat (minRootGw wurz grw)) 1 (weffSum wurz lays) 0 0
        (tpInit tramax (weffSum wurz lays) lrv (minRootGw wurz grw) 1 lays)).1.sum
      ≤ ((tpInit tramax (weffSum wurz lays) lrv (minRootGw wurz grw) 1 lays).map (·.tp)).sum ∧
    ((tpInit tramax (weffSum wurz lays) lrv (minRootGw wurz grw) 1 lays).map (·.tp)).sum ≤ tramax * lrv ∧
    0 ≤ (redist dz (minRootGw wurz grw) grw (Conv.truncNat (minRootGw wurz grw)) 1 (weffSum wurz lays) 0 0
        (tpInit tramax (weffSum wurz lays) lrv (minRootGw wurz grw) 1 lays)).2.1 ∧
    (redist dz (minRootGw wurz grw) grw (Conv.truncNat (minRootGw wurz grw)) 1 (weffSum wurz lays) 0 0
        (tpInit tramax (weffSum wurz lays) lrv (minRootGw wurz grw) 1 lays)).2.1
      ≤ (redist dz (minRootGw wurz grw) grw (Conv.truncNat (minRootGw wurz grw)) 1 (weffSum wurz lays) 0 0
        (tpInit tramax (weffSum wurz lays) lrv (minRootGw wurz grw) 1 lays)).1.sum := by
  have hmin := minRootGw_le wurz grw
  generalize minRootGw wurz grw = minv at hmin ⊢
  have hweff : weffSum wurz lays = ((lays.take wurz).map wq).sum := weffSum_eq wurz lays
  have hw0 : 0 ≤ weffSum wurz lays := by
    rw [hweff]
    apply List.sum_nonneg
    intro x hx
    obtain ⟨y, hy, rfl⟩ := List.mem_map.mp hx
    obtain ⟨a, b⟩ := hact y (List.mem_of_mem_take hy)
    exact mul_nonneg a b
  generalize weffSum wurz lays = weff at hweff hw0 ⊢
  have hok0 : LaysOk (tpInit tramax weff lrv minv 1 lays) := tpInit_ok _ _ _ _ ht hl hw0 _ _ hact
  have hcnt : (Conv.truncNat minv : ℕ) ≤ wurz := truncNat_le minv wurz hmin
  have hinv : (((tpInit tramax weff lrv minv 1 lays).take (Conv.truncNat minv)).map wq).sum ≤ weff := by
    rw [List.map_take, tpInit_wq, ← List.map_take, hweff]
    exact sum_take_mono hact _ _ hcnt
  obtain ⟨r1, r2, r3, r4, _⟩ := redist_spec dz minv grw hdz (Conv.truncNat minv) 1 weff 0 0 _ hok0 hinv
  refine ⟨r1, r2, ?_, r3, by linarith⟩
  rw [tpInit_sum _ _ _ _ _ _ hact]
  have hin := inRange_le minv wurz hmin lays 1 hact
  have hin0 := inRange_nonneg minv lays 1 hact
  simp only [Nat.add_sub_cancel] at hin
  rw [← hweff] at hin
  have hp : 0 ≤ tramax * lrv := mul_nonneg ht hl
  rcases hw0.eq_or_lt with h0 | hpos
  · rw [← h0, div_zero]; exact hp
  · rw [div_le_iff₀ hpos]; nlinarith

end Hermes.Evatra
