package main

// Weather input kernels shared by the checks of C04 (and usable by C13): generated weather
// series written in the three file layouts with a payload that encodes the record (relative
// humidity = 20 + 0.004·id), callers of the real readers / LoadYear / replaceMissingValues /
// transformWeatherData, and the driver lines of the Lean model for the same cases.

import (
	"fmt"
	"math"
	"os"
	"path/filepath"
	"strconv"
	"strings"

	"github.com/zalf-rpm/Hermes2Go/hermes"
	"verifharness/proj"
	"verifharness/vh"
)

const wxNone = -99.9

// wxRec is one data line. The numbers are exactly the float64 values the readers parse from
// the text written by wxSeries.write (shortest round-trip formatting).
type wxRec struct {
	Date                                    proj.Date
	ID                                      int // 1-based line number (multi-year file: in the file; year files: over all files in year order)
	Tmin, Tavg, Tmax, Precip, Rad, Wind, RH float64
	Sun, Verd                               float64 // wxNone = sentinel
	BadDate                                 bool    // the date token of the line is not a date (layouts 1, 2)
	Extra                                   bool    // layout 0: a line numbered ExtraDoy appended to the file of ExtraYear (a day that does not exist)
	ExtraYear, ExtraDoy                     int
}

// fileYear / fileDoy: the year file the line is written to and its jday column (layout 0)
func (d *wxRec) fileYear() int {
	if d.Extra {
		return d.ExtraYear
	}
	return d.Date.Y
}
func (d *wxRec) fileDoy() int {
	if d.Extra {
		return d.ExtraDoy
	}
	return d.Date.DOY()
}

// modelYD: (year, day of year) of the line for the model driver; year 0 = the date token does not
// parse
func (d *wxRec) modelYD() (int, int) {
	if d.BadDate {
		return 0, 0
	}
	return d.Date.Y, d.Date.DOY()
}

type wxSeries struct {
	Layout       int // 0 one file per year, 1 multi-year csv, 2 multi-year yyyyddd
	Recs         []wxRec
	SunCol       bool
	VerdCol      bool
	NumHeader    int
	Sep          string
	MissingYears map[int]bool // layout 0: year file not written
	EmptyYears   map[int]bool // layout 0: header only
	Preco        []float64    // nil = no correction file
}

func idRH(id int) float64 { return float64(20000+4*id) / 1000 }

func ff(x float64) string { return strconv.FormatFloat(x, 'f', -1, 64) }

func isLeap(y int) bool { return y%4 == 0 && (y%100 != 0 || y%400 == 0) }
func daysIn(y int) int {
	if isLeap(y) {
		return 366
	}
	return 365
}

// number the records and set the date code
func (s *wxSeries) renumber() {
	for i := range s.Recs {
		s.Recs[i].ID = i + 1
		s.Recs[i].RH = idRH(i + 1)
	}
}

// write puts the series under dir with file code fcode; returns the files written.
func (s *wxSeries) write(dir, fcode string) error {
	if err := os.MkdirAll(dir, 0o755); err != nil {
		return err
	}
	if s.Preco != nil {
		var b strings.Builder
		b.WriteString("Mo factor\n")
		for m, f := range s.Preco {
			fmt.Fprintf(&b, "%02d %4.2f\n", m+1, f)
		}
		if err := os.WriteFile(filepath.Join(dir, "preco.txt"), []byte(b.String()), 0o644); err != nil {
			return err
		}
	}
	sep := s.Sep
	switch s.Layout {
	case 1:
		var b strings.Builder
		cols := []string{"iso-date", "tmin", "tavg", "tmax", "precip", "globrad", "wind", "relhumid"}
		if s.SunCol {
			cols = append(cols, "sunhours")
		}
		if s.VerdCol {
			cols = append(cols, "verd")
		}
		b.WriteString(strings.Join(cols, sep) + "\n")
		for i := 1; i < s.NumHeader; i++ {
			b.WriteString(strings.Repeat("[x]"+sep, len(cols)-1) + "[x]\n")
		}
		for _, d := range s.Recs {
			dt := d.Date.String()
			if d.BadDate {
				dt = fmt.Sprintf("%04d-13-%02d", d.Date.Y, d.Date.D)
			}
			f := []string{dt, ff(d.Tmin), ff(d.Tavg), ff(d.Tmax), ff(d.Precip), ff(d.Rad), ff(d.Wind), ff(d.RH)}
			if s.SunCol {
				f = append(f, ff(d.Sun))
			}
			if s.VerdCol {
				f = append(f, ff(d.Verd))
			}
			b.WriteString(strings.Join(f, sep) + "\n")
		}
		return os.WriteFile(filepath.Join(dir, fcode+".csv"), []byte(b.String()), 0o644)
	case 2:
		var b strings.Builder
		cols := []string{"@YYYYJJJ", "RAD", "TMAX", "TMIN", "RH", "WIND", "PREC"}
		if s.SunCol {
			cols = append(cols, "SUNH")
		}
		if s.VerdCol {
			cols = append(cols, "VERD")
		}
		b.WriteString(strings.Join(cols, sep) + "\n")
		for i := 1; i < s.NumHeader; i++ {
			b.WriteString("units\n")
		}
		for _, d := range s.Recs {
			dt := fmt.Sprintf("%04d%03d", d.Date.Y, d.Date.DOY())
			if d.BadDate {
				dt = fmt.Sprintf("%04d%03d", d.Date.Y, d.Date.DOY()+400)
			}
			f := []string{dt, ff(d.Rad), ff(d.Tmax), ff(d.Tmin), ff(d.RH), ff(d.Wind), ff(d.Precip)}
			if s.SunCol {
				f = append(f, ff(d.Sun))
			}
			if s.VerdCol {
				f = append(f, ff(d.Verd))
			}
			b.WriteString(strings.Join(f, sep) + "\n")
		}
		return os.WriteFile(filepath.Join(dir, fcode+".csv"), []byte(b.String()), 0o644)
	case 0:
		byYear := map[int][]wxRec{}
		years := []int{}
		for _, d := range s.Recs {
			if _, ok := byYear[d.fileYear()]; !ok {
				years = append(years, d.fileYear())
			}
			byYear[d.fileYear()] = append(byYear[d.fileYear()], d)
		}
		for y := range s.EmptyYears {
			if _, ok := byYear[y]; !ok {
				years = append(years, y)
			}
		}
		for _, y := range years {
			if s.MissingYears[y] {
				continue
			}
			var b strings.Builder
			b.WriteString(strings.Join([]string{"tavg", "tmin", "tmax", "ET0", "relhumid", "vapp14", "wind", "sundu", "globrad", "precip", "jday"}, sep) + "\n")
			if s.NumHeader >= 2 {
				b.WriteString(strings.Join([]string{"C_deg", "C_deg", "C_deg", "mm", "%", "mm_Hg", "m/s", "hours", "MJ", "mm", "d"}, sep) + "\n")
			}
			if s.NumHeader == 3 {
				b.WriteString(strings.Join([]string{"50", "2", "-----", "-----", "-----", "-----", "-----", "-----", "------", "----", "-"}, sep) + "\n")
			}
			if !s.EmptyYears[y] {
				for _, d := range byYear[y] {
					f := []string{ff(d.Tavg), ff(d.Tmin), ff(d.Tmax), ff(wxNone), ff(d.RH), ff(d.Verd), ff(d.Wind), ff(d.Sun), ff(d.Rad), ff(d.Precip), strconv.Itoa(d.fileDoy())}
					b.WriteString(strings.Join(f, sep) + "\n")
				}
			}
			if err := os.WriteFile(filepath.Join(dir, fcode+"."+proj.YearExt(y)), []byte(b.String()), 0o644); err != nil {
				return err
			}
		}
		return nil
	}
	return fmt.Errorf("layout %d", s.Layout)
}

// wxEnv: what the readers need besides the file.
type wxEnv struct {
	g   *hermes.GlobalVarsMain
	hp  hermes.HFilePath
	cfg hermes.Config
}

func newWxEnv(dir string, numHeader int, preco bool) *wxEnv {
	e := &wxEnv{g: &hermes.GlobalVarsMain{}}
	e.g.Session = hermes.NewHermesSession()
	e.g.LOGID = "verif"
	e.g.PRECO = preco
	e.hp = hermes.NewHermesFilePath(dir, "x", "", "", "")
	e.hp.SetPreCorrFolder(dir)
	e.cfg = hermes.NewDefaultConfig()
	e.cfg.WeatherNumHeader = numHeader
	e.cfg.WeatherNoneValue = wxNone
	return e
}

// idsOfStore decodes the record ids from the relative-humidity arrays.
func idOfRH(v float64) int {
	if v == 0 {
		return 0
	}
	id := int(math.Round((v*1000 - 20000) / 4))
	if id > 0 && idRH(id) == v {
		return id
	}
	return -1
}

// ---------------------------------------------------------------- reader kernel cases

// a date sequence for the reader kernels: mostly consecutive days, with the defects of the
// error stream injected by class.
type seqCase struct {
	Class      string      `json:"class"`
	Layout     int         `json:"layout"`
	StartYear  int         `json:"start_year"`
	Cap        int         `json:"cap"`
	Dates      []proj.Date `json:"-"`
	First      string      `json:"first"`
	Last       string      `json:"last"`
	N          int         `json:"n"`
	Dropped    string      `json:"dropped,omitempty"`
	ResumeJan1 bool        `json:"first_day_after_gap_is_1_january"`
}

func genSeq(r *vh.Rng, layout int) *seqCase {
	classes := []string{"valid", "valid", "valid-early-start", "valid-midyear-start", "over-capacity", "gap", "gap-1day", "gap-year-end", "short-last", "year-jump", "starts-late", "dup", "bad-date", "gap-dec31"}
	sc := &seqCase{Layout: layout, Class: classes[r.Intn(len(classes))]}
	y0 := r.Range(1950, 2090)
	if r.Chance(0.3) {
		y0 = []int{1999, 2000, 1996, 2003, 2004}[r.Intn(5)]
	}
	ny := r.Range(1, 4)
	sc.StartYear = y0
	sc.Cap = ny
	start := proj.Date{Y: y0, M: 1, D: 1}
	end := proj.Date{Y: y0 + ny - 1, M: 12, D: 31}
	switch sc.Class {
	case "valid-early-start":
		start = proj.Date{Y: y0 - r.Range(1, 2), M: r.Range(1, 12), D: r.Range(1, 28)}
	case "valid-midyear-start":
		start = proj.Date{Y: y0, M: r.Range(1, 12), D: r.Range(1, 28)}
	case "over-capacity":
		end = proj.Date{Y: y0 + ny - 1 + r.Range(1, 2), M: r.Range(1, 12), D: r.Range(1, 28)}
	case "short-last":
		end = proj.Date{Y: y0 + ny - 1, M: r.Range(1, 12), D: r.Range(1, 28)}
	case "starts-late":
		start = proj.Date{Y: y0 + r.Range(0, 1), M: r.Range(2, 12), D: r.Range(1, 28)}
		if start.Y > end.Y {
			end = proj.Date{Y: start.Y, M: 12, D: 31}
		}
	}
	n := end.Z() - start.Z() + 1
	drop := map[int]bool{}
	switch sc.Class {
	case "gap":
		a := r.Range(1, n-2)
		k := r.Range(1, 40)
		for i := a; i < a+k && i < n-1; i++ {
			drop[i] = true
		}
		sc.Dropped = fmt.Sprintf("%v+%d", start.AddDays(a), k)
	case "gap-1day":
		a := r.Range(1, n-2)
		if r.Chance(0.4) { // at a year boundary
			yb := proj.Date{Y: y0 + r.Intn(ny), M: 12, D: 31}
			if r.Chance(0.5) {
				yb = proj.Date{Y: y0 + r.Intn(ny), M: 1, D: 1}
			}
			if k := yb.Z() - start.Z(); k >= 1 && k <= n-2 {
				a = k
			}
		}
		drop[a] = true
		sc.Dropped = fmt.Sprintf("%v+1", start.AddDays(a))
	case "gap-year-end":
		if ny < 2 {
			ny = 2
			sc.Cap = 2
			end = proj.Date{Y: y0 + 1, M: 12, D: 31}
			n = end.Z() - start.Z() + 1
		}
		ye := proj.Date{Y: y0 + r.Intn(ny-1), M: 12, D: 31}
		k := r.Range(1, 60)
		for i := 0; i < k; i++ {
			drop[ye.Z()-start.Z()-i] = true
		}
		sc.Dropped = fmt.Sprintf("%v-%d", ye, k)
	case "gap-dec31": // exactly the last day of a year (leap years: a year of 365 days is not complete)
		if ny < 2 {
			ny = 2
			sc.Cap = 2
			end = proj.Date{Y: y0 + 1, M: 12, D: 31}
			n = end.Z() - start.Z() + 1
		}
		yy := y0 + r.Intn(ny-1)
		if r.Chance(0.7) { // prefer a leap year inside the series
			for c := y0; c < y0+ny-1; c++ {
				if isLeap(c) {
					yy = c
				}
			}
		}
		ye := proj.Date{Y: yy, M: 12, D: 31}
		drop[ye.Z()-start.Z()] = true
		if isLeap(yy) && r.Chance(0.3) {
			drop[ye.Z()-start.Z()-1] = true
		}
		sc.Dropped = fmt.Sprintf("%v (year of %d days)", ye, daysIn(yy))
	case "year-jump":
		if ny < 3 {
			ny = 3
			sc.Cap = 3
			end = proj.Date{Y: y0 + 2, M: 12, D: 31}
			n = end.Z() - start.Z() + 1
		}
		a := proj.Date{Y: y0 + 1, M: 1, D: 1}.Z() - start.Z()
		for i := 0; i < daysIn(y0+1); i++ {
			drop[a+i] = true
		}
		sc.Dropped = fmt.Sprintf("year %d", y0+1)
	}
	for i := 0; i < n; i++ {
		if drop[i] {
			continue
		}
		d := start.AddDays(i)
		if i > 0 && drop[i-1] && d.M == 1 && d.D == 1 {
			sc.ResumeJan1 = true
		}
		sc.Dates = append(sc.Dates, d)
		if sc.Class == "dup" && i == n/2 {
			sc.Dates = append(sc.Dates, d)
		}
	}
	sc.N = len(sc.Dates)
	sc.First, sc.Last = sc.Dates[0].String(), sc.Dates[len(sc.Dates)-1].String()
	return sc
}

func seriesOfDates(r *vh.Rng, layout int, dates []proj.Date) *wxSeries {
	s := &wxSeries{Layout: layout, NumHeader: r.Range(1, 2), Sep: []string{",", ";", "\t"}[r.Intn(3)], SunCol: r.Chance(0.5), VerdCol: r.Chance(0.3)}
	if layout == 2 {
		s.Sep = []string{" ", ",", "\t", ";"}[r.Intn(4)]
	}
	if layout == 0 {
		s.Sep = []string{",", ";"}[r.Intn(2)]
		s.NumHeader = r.Range(2, 3)
	}
	for _, d := range dates {
		tmin := vh.RoundTo(r.Uni(-20, 20), 1)
		tmax := vh.RoundTo(tmin+r.Uni(0, 15), 1)
		rec := wxRec{Date: d, Tmin: tmin, Tmax: tmax, Tavg: vh.RoundTo((tmin+tmax)/2, 1), Precip: vh.RoundTo(r.Uni(0, 30), 1), Rad: vh.RoundTo(r.Uni(0.5, 30), 2),
			Wind: vh.RoundTo(r.Uni(0, 6), 1), Sun: vh.RoundTo(r.Uni(0, 14), 1), Verd: vh.RoundTo(r.Uni(0.1, 12), 1)}
		if r.Chance(0.1) {
			rec.Sun = wxNone
		}
		if r.Chance(0.1) {
			rec.Verd = wxNone
		}
		s.Recs = append(s.Recs, rec)
	}
	s.renumber()
	return s
}

// storeLine renders (yrz, JAR, MaxYearDays, ids) of a WeatherDataShared like the driver op weather.multi.
func storeLine(s *hermes.WeatherDataShared, yrz, cap int) string {
	var b strings.Builder
	fmt.Fprintf(&b, "%d", yrz)
	for i := 0; i < cap; i++ {
		fmt.Fprintf(&b, " %d", s.JAR[i])
	}
	for i := 0; i < cap; i++ {
		fmt.Fprintf(&b, " %d", s.MaxYearDays[i])
	}
	for i := 0; i < cap; i++ {
		for t := 0; t < 366; t++ {
			fmt.Fprintf(&b, " %d", idOfRH(s.RELF[i][t]))
		}
	}
	return b.String()
}

// yrzOf: number of year slots in use after a multi-year read (the readers do not return it):
// slots with MaxYearDays > 0.
func yrzOf(s *hermes.WeatherDataShared) int {
	n := 0
	for i := range s.MaxYearDays {
		if s.MaxYearDays[i] > 0 {
			n = i + 1
		}
	}
	return n
}

func readerKernelStage(c *vh.Ctx, n int) {
	var cases, impl []string
	var kept []*seqCase
	dir := filepath.Join(c.Scratch, "readers")
	for k := 0; k < n; k++ {
		layout := 1 + c.Rng.Intn(2)
		sc := genSeq(c.Rng, layout)
		ser := seriesOfDates(c.Rng, layout, sc.Dates)
		if sc.Class == "bad-date" && len(ser.Recs) > 4 {
			// one line in the middle (a day from the start year on, not the first kept, not a 1 January) has an unparsable date
			for tries := 0; tries < 50; tries++ {
				i := c.Rng.Range(2, len(ser.Recs)-2)
				d := ser.Recs[i].Date
				if d.Y >= sc.StartYear && ser.Recs[i-1].Date.Y >= sc.StartYear && d.DOY() > 1 {
					ser.Recs[i].BadDate = true
					sc.Dropped = "unparsable date token in the line of " + d.String()
					break
				}
			}
		}
		fcode := fmt.Sprintf("k%d", k)
		if err := ser.write(dir, fcode); err != nil {
			panic(err)
		}
		env := newWxEnv(dir, ser.NumHeader, false)
		sh := hermes.NewWeatherDataShared(sc.Cap, 360)
		file := filepath.Join(dir, fcode+".csv")
		var err error
		if layout == 1 {
			err = hermes.ReadWeatherCSV(file, sc.StartYear, env.g, &sh, &env.hp, &env.cfg)
		} else {
			err = hermes.ReadWeatherCZ(file, sc.StartYear, env.g, &sh, &env.hp, &env.cfg)
		}
		env.g.Session.Close()
		os.Remove(file)
		c.Eval()
		c.Count(fmt.Sprintf("reader:fmt%d:%s", layout, sc.Class))
		c.Nontrivial(fmt.Sprintf("rd%d", k))
		var b strings.Builder
		fmt.Fprintf(&b, "weather.multi %d %d %d", sc.StartYear, sc.Cap, len(ser.Recs))
		for i := range ser.Recs {
			y, t := ser.Recs[i].modelYD()
			fmt.Fprintf(&b, " %d %d", y, t)
		}
		cases = append(cases, b.String())
		kept = append(kept, sc)
		if err != nil {
			impl = append(impl, "err")
		} else {
			impl = append(impl, storeLine(&sh, yrzOf(&sh), sc.Cap))
		}
		// ---- search: the reader-level statements of the property, directly on the implementation
		switch sc.Class {
		case "valid", "valid-early-start", "valid-midyear-start", "over-capacity", "short-last":
			if err != nil {
				violate04(c, "search", fmt.Sprintf("reader:rejects-gap-free:fmt%d:%s", layout, sc.Class), "reader returns an error for a gap-free series: "+err.Error(), sc)
				break
			}
			bad := ""
			firstYear := -1
			for _, d := range ser.Recs {
				if d.Date.Y < sc.StartYear {
					continue
				}
				if firstYear < 0 {
					firstYear = d.Date.Y
				}
				yi := d.Date.Y - firstYear
				if yi >= sc.Cap {
					break
				}
				if got := idOfRH(sh.RELF[yi][d.Date.DOY()-1]); got != d.ID || sh.JAR[yi] != d.Date.Y {
					bad = fmt.Sprintf("record of %v (line %d) is not at [%d][%d] (found line %d, JAR %d)", d.Date, d.ID, yi, d.Date.DOY()-1, got, sh.JAR[yi])
					break
				}
			}
			if bad != "" {
				violate04(c, "search", fmt.Sprintf("reader:misaligned:fmt%d:%s", layout, sc.Class), bad, sc)
			}
		case "bad-date":
			// the record of that day is unusable: the day is not covered, the reader must say so
			if err == nil && sc.Dropped != "" {
				violate04(c, "search", fmt.Sprintf("reader:accepts:bad-date-line:fmt%d", layout), "reader returns no error for a file with an "+sc.Dropped+" (the day of that line is not covered)", sc)
			}
		case "gap", "gap-1day", "gap-year-end", "gap-dec31", "year-jump":
			// a series with missing days must be rejected (a duplicated line is not a gap: not judged)
			if err == nil {
				cls := sc.Class
				if sc.ResumeJan1 {
					cls = "gap-before-jan1"
				}
				violate04(c, "search", fmt.Sprintf("reader:accepts:%s:fmt%d", cls, layout), "reader accepts a series with missing days: dropped "+sc.Dropped, sc)
			}
		}
	}
	saved := kept
	c.Correspond("weather.multi", cases, impl, 0, 0, func(i int) interface{} { return saved[i] })
}

// year-file reader: sequences of WetterK + LoadYear calls on one WeatherDataShared.
func yearFileKernelStage(c *vh.Ctx, n int) {
	var cases, impl []string
	var kept []interface{}
	dir := filepath.Join(c.Scratch, "yearfiles")
	for k := 0; k < n; k++ {
		nf := c.Rng.Range(1, 4)
		y := c.Rng.Range(1950, 2090)
		if c.Rng.Chance(0.3) {
			y = []int{1999, 2000, 1996, 2003}[c.Rng.Intn(4)]
		}
		fcode := fmt.Sprintf("y%d", k)
		sh := hermes.NewWeatherDataShared(1, 360)
		var line, out strings.Builder
		fmt.Fprintf(&line, "weather.years %d", nf)
		desc := []string{}
		base := 0
		numHeader := c.Rng.Range(2, 3)
		for f := 0; f < nf; f++ {
			class := []string{"full", "full", "short", "gap", "missing", "empty", "late-start", "extra-day"}[c.Rng.Intn(8)]
			if class == "extra-day" && isLeap(y) {
				class = "full" // a line 367 runs off the [366] arrays (panic), not judged here
			}
			nd := daysIn(y)
			from := 1
			switch class {
			case "short":
				nd = c.Rng.Range(1, nd-1)
			case "late-start":
				from = c.Rng.Range(2, 300)
			case "empty":
				nd = 0
			}
			var dates []proj.Date
			for t := from; t <= nd; t++ {
				if class == "gap" && t == nd/2 {
					continue
				}
				dates = append(dates, proj.Date{Y: y, M: 1, D: 1}.AddDays(t-1))
			}
			ser := seriesOfDates(c.Rng, 0, dates)
			ser.NumHeader = numHeader
			if class == "extra-day" { // the 365 days of the year and a line numbered 366
				x := ser.Recs[len(ser.Recs)-1]
				x.Extra, x.ExtraYear, x.ExtraDoy = true, y, nd+1
				ser.Recs = append(ser.Recs, x)
			}
			for i := range ser.Recs {
				ser.Recs[i].ID = base + i + 1
				ser.Recs[i].RH = idRH(base + i + 1)
			}
			if class == "empty" {
				ser.EmptyYears = map[int]bool{y: true}
			}
			if class == "missing" {
				ser.MissingYears = map[int]bool{y: true}
			}
			if err := ser.write(dir, fcode); err != nil {
				panic(err)
			}
			env := newWxEnv(dir, numHeader, false)
			file := hermes.VerifVWdat(filepath.Join(dir, fcode+"."), y-1900)
			err := hermes.WetterK(file, y, env.g, &sh, &env.hp, &env.cfg)
			lerr := hermes.LoadYear(env.g, &sh, y)
			env.g.Session.Close()
			os.Remove(file)
			status := "ok"
			if err != nil {
				status = "gap"
				if class == "missing" {
					status = "nofile"
				}
				if class == "empty" {
					status = "empty"
				}
				if class == "extra-day" {
					status = "beyond"
				}
			}
			ld := "Lerr"
			if lerr == nil {
				ld = fmt.Sprintf("L%d", env.g.JTAG)
			}
			fmt.Fprintf(&out, "%s %d %d %s ", status, sh.JAR[0], sh.MaxYearDays[0], ld)
			has := 1
			if class == "missing" {
				has = 0
			}
			fmt.Fprintf(&line, " %d %d %d", y, has, len(ser.Recs))
			for i := range ser.Recs {
				fmt.Fprintf(&line, " %d", ser.Recs[i].fileDoy())
			}
			base += len(ser.Recs)
			desc = append(desc, fmt.Sprintf("%d:%s", y, class))
			c.Count("yearfile:" + class)
			// ---- search: a missing or defective year file must not be reported as loaded
			if class == "extra-day" && err == nil {
				violate04(c, "search", "yearfile:accepts:extra-day", fmt.Sprintf("WetterK returns no error for the file of %d with a line numbered %d (JTAG %d)", y, nd+1, env.g.JTAG), desc)
			}
			if (class == "missing" || class == "gap" || class == "empty" || class == "late-start") && err == nil {
				violate04(c, "search", "yearfile:accepts:"+class, fmt.Sprintf("WetterK returns no error for a %s year file", class), desc)
			}
			if class == "full" && err == nil && lerr == nil {
				for i, d := range ser.Recs {
					if idOfRH(env.g.RH[d.Date.DOY()-1]) != d.ID {
						violate04(c, "search", "yearfile:misaligned", fmt.Sprintf("line %d of the year file of %d is not in slot %d after LoadYear", i+1, y, d.Date.DOY()-1), desc)
						break
					}
				}
				if env.g.JTAG != daysIn(y) {
					violate04(c, "search", "yearfile:jtag", fmt.Sprintf("JTAG = %d after loading the complete year %d", env.g.JTAG, y), desc)
				}
			}
			y += c.Rng.Range(0, 2)
		}
		for t := 0; t < 366; t++ {
			fmt.Fprintf(&out, "%d ", idOfRH(sh.RELF[0][t]))
		}
		c.Eval()
		c.Nontrivial(fmt.Sprintf("yf%d", k))
		cases = append(cases, line.String())
		impl = append(impl, strings.TrimSpace(out.String()))
		kept = append(kept, desc)
	}
	c.Correspond("weather.years", cases, impl, 0, 0, func(i int) interface{} { return kept[i] })
}

// LoadYear on hand-made JAR / MaxYearDays tables.
func loadYearKernelStage(c *vh.Ctx, n int) {
	var cases, impl []string
	for k := 0; k < n; k++ {
		cap := c.Rng.Range(1, 6)
		sh := hermes.NewWeatherDataShared(cap, 360)
		y0 := c.Rng.Range(1950, 2090)
		jar := make([]int, cap)
		for i := 0; i < cap; i++ {
			jar[i] = y0 + i
			if c.Rng.Chance(0.15) {
				jar[i] = 0
			}
			if c.Rng.Chance(0.1) {
				jar[i] = y0 + c.Rng.Intn(cap)
			}
			sh.JAR[i] = jar[i]
			sh.MaxYearDays[i] = c.Rng.Range(0, 366)
			if c.Rng.Chance(0.6) {
				sh.MaxYearDays[i] = daysIn(jar[i])
			}
			for t := 0; t < 366; t++ {
				sh.RELF[i][t] = idRH(i*366 + t + 1)
			}
		}
		year := y0 + c.Rng.Range(-1, cap)
		g := &hermes.GlobalVarsMain{}
		g.LOGID = "verif"
		for t := 0; t < 366; t++ {
			g.RH[t] = -1
		}
		g.JTAG = -7
		err := hermes.LoadYear(g, &sh, year)
		c.Eval()
		line := fmt.Sprintf("weather.load %d %d", cap, year)
		for _, v := range jar {
			line += fmt.Sprintf(" %d", v)
		}
		for i := 0; i < cap; i++ {
			line += fmt.Sprintf(" %d", sh.MaxYearDays[i])
		}
		cases = append(cases, line)
		if err != nil {
			impl = append(impl, "err")
			c.Count("loadyear:err")
			if g.JTAG != -7 {
				violate04(c, "search", "loadyear:error-changes-state", "LoadYear returns an error but changed JTAG", line)
			}
			found := false
			for _, v := range jar {
				found = found || v == year
			}
			if found {
				violate04(c, "search", "loadyear:error-for-loaded-year", "LoadYear returns an error for a loaded year", line)
			}
			continue
		}
		c.Count("loadyear:ok")
		idx := -1
		if id := idOfRH(g.RH[0]); id > 0 {
			idx = (id - 1) / 366
		} else { // nothing copied (MaxYearDays = 0): the slot is identified by JAR
			for i, v := range jar {
				if v == year {
					idx = i
					break
				}
			}
		}
		impl = append(impl, fmt.Sprintf("%d %d", idx, g.JTAG))
		// ---- search: the loaded year is the requested one, day t of it in slot t, nothing else touched
		if jar[idx] != year {
			violate04(c, "search", "loadyear:wrong-year", fmt.Sprintf("LoadYear(%d) loaded the slot of year %d", year, jar[idx]), line)
		}
		for t := 0; t < 366; t++ {
			want := -1.0
			if t < sh.MaxYearDays[idx] {
				want = idRH(idx*366 + t + 1)
			}
			if g.RH[t] != want {
				violate04(c, "search", "loadyear:misaligned", fmt.Sprintf("LoadYear(%d): slot %d holds %v, expected %v", year, t, g.RH[t], want), line)
				break
			}
		}
	}
	saved := cases
	c.Correspond("weather.load", cases, impl, 0, 0, func(i int) interface{} { return saved[i] })
}

// ---------------------------------------------------------------- numeric kernels

type gridCase struct {
	Yrz  int            `json:"yrz"`
	Jar  []int          `json:"jar"`
	Maxd []int          `json:"max_year_days"`
	Len  int            `json:"row_len"`
	Corr []float64      `json:"corr"`
	Rows [][][6]float64 `json:"rows"` // tmp verd sund radi reg win
}

func genGrid(r *vh.Rng) *gridCase {
	ny := r.Range(1, 4)
	gc := &gridCase{Yrz: ny}
	if r.Chance(0.15) {
		gc.Yrz = r.Range(0, ny)
	}
	realistic := r.Chance(0.25)
	maxLen := 0
	for y := 0; y < ny; y++ {
		t := r.Range(1, 12)
		if realistic {
			t = 365 + r.Intn(2)
			if r.Chance(0.3) {
				t = r.Range(1, 366)
			}
		}
		gc.Maxd = append(gc.Maxd, t)
		gc.Jar = append(gc.Jar, []int{1996, 2000, 2001, 1999, 2100, r.Range(1950, 2090)}[r.Intn(6)])
		if t > maxLen {
			maxLen = t
		}
	}
	gc.Len = maxLen + 2
	if gc.Len > 366 {
		gc.Len = 366
	}
	for m := 0; m < 12; m++ {
		gc.Corr = append(gc.Corr, vh.RoundTo(r.Uni(0.9, 1.4), 2))
	}
	val := func(lo, hi float64, pNone float64) float64 {
		if r.Chance(pNone) {
			return wxNone
		}
		return vh.RoundTo(r.Uni(lo, hi), 1)
	}
	pn := []float64{0.05, 0.25, 0.6}[r.Intn(3)]
	for y := 0; y < ny; y++ {
		row := make([][6]float64, gc.Len)
		for i := range row {
			row[i] = [6]float64{val(-20, 30, pn), val(0, 12, pn), val(0, 14, pn), val(0, 30, pn/2), val(0, 40, pn/2), vh.RoundTo(r.Uni(0, 3), 1)}
			if r.Chance(0.1) {
				row[i][5] = 0.5
			}
		}
		gc.Rows = append(gc.Rows, row)
	}
	return gc
}

func (gc *gridCase) shared() hermes.WeatherDataShared {
	sh := hermes.NewWeatherDataShared(len(gc.Maxd), 360)
	for y := range gc.Maxd {
		sh.MaxYearDays[y] = gc.Maxd[y]
		sh.JAR[y] = gc.Jar[y]
		for i := 0; i < gc.Len; i++ {
			v := gc.Rows[y][i]
			sh.TMP[y][i], sh.VERD[y][i], sh.SUND[y][i], sh.RADI[y][i], sh.REG[y][i], sh.WIN[y][i] = v[0], v[1], v[2], v[3], v[4], v[5]
		}
	}
	return sh
}

func (gc *gridCase) gridTokens() string {
	var b strings.Builder
	for y := range gc.Maxd {
		for i := 0; i < gc.Len; i++ {
			b.WriteByte(' ')
			b.WriteString(vh.FVals(gc.Rows[y][i][:]...))
		}
	}
	return b.String()
}

func gridOut(sh *hermes.WeatherDataShared, ny, n int) string {
	var parts []string
	for y := 0; y < ny; y++ {
		for i := 0; i < n; i++ {
			parts = append(parts, vh.FVals(sh.TMP[y][i], sh.VERD[y][i], sh.SUND[y][i], sh.RADI[y][i], sh.REG[y][i], sh.WIN[y][i]))
		}
	}
	return strings.Join(parts, " ")
}

func intsTok(xs []int) string {
	var b strings.Builder
	for _, x := range xs {
		fmt.Fprintf(&b, " %d", x)
	}
	return b.String()
}

func numericKernelStage(c *vh.Ctx, n int) {
	var cases, impl []string
	var kept []*gridCase
	for k := 0; k < n; k++ {
		gc := genGrid(c.Rng)
		ny := len(gc.Maxd)
		// replaceMissingValues
		sh := gc.shared()
		pan := ""
		func() {
			defer func() {
				if r := recover(); r != nil {
					pan = fmt.Sprint(r)
				}
			}()
			sh.VerifReplaceMissingValues(gc.Yrz, wxNone)
		}()
		c.Eval()
		if pan != "" {
			c.Count("replace:panic")
		} else {
			cases = append(cases, fmt.Sprintf("weather.replace %s %d %d%s %d%s", vh.FHex(wxNone), gc.Yrz, ny, intsTok(gc.Maxd), gc.Len, gc.gridTokens()))
			impl = append(impl, gridOut(&sh, ny, gc.Len))
			kept = append(kept, gc)
			c.Count("replace:ok")
			// ---- search: an isolated sentinel in an optional column between two valid days of the
			// loaded years becomes their mean; everything that is not a sentinel is unchanged
			checkReplace(c, gc, &sh)
		}
		// transformWeatherData
		sh2 := gc.shared()
		pan = ""
		func() {
			defer func() {
				if r := recover(); r != nil {
					pan = fmt.Sprint(r)
				}
			}()
			sh2.VerifTransformWeatherData(gc.Yrz, gc.Corr)
		}()
		c.Eval()
		c.Nontrivial(fmt.Sprintf("num%d", k))
		if pan != "" {
			c.Count("transform:panic")
			continue
		}
		c.Count("transform:ok")
		cases = append(cases, fmt.Sprintf("weather.transform %d %d%s%s %d %s%s", gc.Yrz, ny, intsTok(gc.Jar), intsTok(gc.Maxd), gc.Len, vh.FVals(gc.Corr...), gc.gridTokens()))
		impl = append(impl, gridOut(&sh2, ny, gc.Len))
		kept = append(kept, gc)
		checkTransform(c, gc, &sh2)
	}
	saved := kept
	c.Correspond("weather.replace/transform", cases, impl, 1e-9, 1e-12, func(i int) interface{} { return saved[i] })
}

// flat (year, index) list of the loaded days in calendar order
func (gc *gridCase) flat() [][2]int {
	var out [][2]int
	for y := 0; y < gc.Yrz && y < len(gc.Maxd); y++ {
		for i := 0; i < gc.Maxd[y]; i++ {
			out = append(out, [2]int{y, i})
		}
	}
	return out
}

func checkReplace(c *vh.Ctx, gc *gridCase, sh *hermes.WeatherDataShared) {
	fl := gc.flat()
	get := func(col int, p [2]int) float64 { return gc.Rows[p[0]][p[1]][col] }
	outv := func(col int, p [2]int) float64 {
		switch col {
		case 0:
			return sh.TMP[p[0]][p[1]]
		case 1:
			return sh.VERD[p[0]][p[1]]
		}
		return sh.SUND[p[0]][p[1]]
	}
	names := []string{"TMP", "VERD", "SUND"}
	for k, p := range fl {
		for col := 0; col < 3; col++ {
			v := get(col, p)
			if v != wxNone {
				if outv(col, p) != v {
					violate04(c, "search", "replace:changes-valid:"+names[col], fmt.Sprintf("a valid value %v at year %d day %d became %v", v, p[0], p[1]+1, outv(col, p)), gc)
				}
				continue
			}
			if k == 0 || k == len(fl)-1 {
				continue // no adjacent day on one side
			}
			pv, nx := fl[k-1], fl[k+1]
			// the previous day may itself have been filled; the property speaks about adjacent records:
			// only isolated sentinels are judged
			if get(col, pv) == wxNone || get(col, nx) == wxNone {
				continue
			}
			want := (get(col, pv) + get(col, nx)) / 2
			if got := outv(col, p); math.Abs(got-want) > 1e-12*(1+math.Abs(want)) {
				pos := "mid-year"
				if p[1] == gc.Maxd[p[0]]-1 {
					pos = "year-end"
				} else if p[1] == 0 {
					pos = "year-start"
				}
				violate04(c, "search", "replace:mean:"+pos, fmt.Sprintf("%s sentinel at year %d day %d (%s): got %v, mean of the adjacent days is %v", names[col], p[0], p[1]+1, pos, got, want), gc)
			}
		}
	}
}

func checkTransform(c *vh.Ctx, gc *gridCase, sh *hermes.WeatherDataShared) {
	for _, p := range gc.flat() {
		y, i := p[0], p[1]
		in := gc.Rows[y][i]
		if i < daysIn(gc.Jar[y]) { // day i+1 exists in that year: the factor is that of the month of the date
			date := proj.Date{Y: gc.Jar[y], M: 1, D: 1}.AddDays(i)
			cor := gc.Corr[date.M-1]
			if want := in[4] / 10 * cor; sh.REG[y][i] != want {
				cls := "month"
				if isLeap(date.Y) && near(sh.REG[y][i], in[4]/10*hermes.VerifCorrValue(gc.Corr, i+1)) {
					cls = "preco-month-of-nonleap-calendar"
				}
				violate04(c, "search", "transform:precip:"+cls, fmt.Sprintf("%v: precipitation %v mm became %v, expected %v (factor %v of month %d)", date, in[4], sh.REG[y][i], want, cor, date.M), gc)
			}
		}
		if want := in[3] / 2; sh.RADI[y][i] != want {
			violate04(c, "search", "transform:par", fmt.Sprintf("radiation %v became %v, expected %v", in[3], sh.RADI[y][i], want), gc)
		}
		if got := sh.WIN[y][i]; got != in[5] && got != math.Max(in[5], 0.5) {
			violate04(c, "search", "transform:wind", fmt.Sprintf("wind %v became %v", in[5], got), gc)
		}
	}
}
