/-
Pool bookkeeping of the *translation of the current source* of `mineral` (hermes/nitro.go →
`HermesModel/Generated/Impmineral.lean`, regenerated on every run): per layer, what the decay takes from an organic pool
is what the mineralised-amount counter gains.

The loop body has about fifty intermediate states behind a dozen sequential `if`s; the proof walks them in program order
(`walk_states`, HermesProofs/WalkStates.lean) through three phases per pool:
  0  pool and counter untouched,
  1  the pool has lost `D = DTOTALN[z]` (resp. `DMINFOS[z]`), the counter has not gained it yet,
  2  the counter has gained `D`,
and the frozen branch stays in phase 0.
-/
import HermesModel.Generated.Impmineral
import HermesProofs.WalkStates
import Mathlib.Tactic.Ring
import Mathlib.Tactic.SplitIfs
import Mathlib.Tactic.Linarith

namespace Hermes.Generated.Imp.mineral
open Hermes.Imp
variable (m : MathFns ℚ)

/-! ### slowly decomposable pool: NAOS / MINAOS / DTOTALN -/

def A0 (s t : St ℚ) : Prop := t.g_NAOS = s.g_NAOS ∧ t.g_MINAOS = s.g_MINAOS
def A1 (s : St ℚ) (zi : Int) (t : St ℚ) : Prop :=
  t.g_NAOS = wr s.g_NAOS zi (rd s.g_NAOS zi - rd t.v_DTOTALN zi) ∧ t.g_MINAOS = s.g_MINAOS
def A2 (s : St ℚ) (zi : Int) (t : St ℚ) : Prop :=
  t.g_NAOS = wr s.g_NAOS zi (rd s.g_NAOS zi - rd t.v_DTOTALN zi) ∧ t.g_MINAOS = wr s.g_MINAOS zi (rd s.g_MINAOS zi + rd t.v_DTOTALN zi)
/-- after the body: the warm branch ends in phase 2, the frozen branch in phase 0 -/
def AFin (s : St ℚ) (zi : Int) (t : St ℚ) : Prop := A2 s zi t ∨ A0 s t

/-! ### quickly decomposable pool: NFOS / MINFOS / DMINFOS -/

def F0 (s t : St ℚ) : Prop := t.g_NFOS = s.g_NFOS ∧ t.g_MINFOS = s.g_MINFOS
def F1 (s : St ℚ) (zi : Int) (t : St ℚ) : Prop :=
  t.g_NFOS = wr s.g_NFOS zi (rd s.g_NFOS zi - rd t.v_DMINFOS zi) ∧ t.g_MINFOS = s.g_MINFOS
def F2 (s : St ℚ) (zi : Int) (t : St ℚ) : Prop :=
  t.g_NFOS = wr s.g_NFOS zi (rd s.g_NFOS zi - rd t.v_DMINFOS zi) ∧ t.g_MINFOS = wr s.g_MINFOS zi (rd s.g_MINFOS zi + rd t.v_DMINFOS zi)
def FFin (s : St ℚ) (zi : Int) (t : St ℚ) : Prop := F2 s zi t ∨ F0 s t

section
variable {s a b t : St ℚ} {zi : Int} {c : Prop} [Decidable c]
theorem afin_ite (ha : A2 s zi a) (hb : A0 s b) : AFin s zi (if c then a else b) := by
  split_ifs
  · exact Or.inl ha
  · exact Or.inr hb
theorem a1_step (h : A0 s t) : A1 s zi { t with g_NAOS := wr t.g_NAOS zi (rd t.g_NAOS zi - rd t.v_DTOTALN zi) } := by
  unfold A0 at h; unfold A1; dsimp only; rw [h.1]; exact ⟨rfl, h.2⟩
theorem a2_step (h : A1 s zi t) : A2 s zi { t with g_MINAOS := wr t.g_MINAOS zi (rd t.g_MINAOS zi + rd t.v_DTOTALN zi) } := by
  unfold A1 at h; unfold A2; dsimp only; rw [h.2]; exact ⟨h.1, rfl⟩
theorem ffin_ite (ha : F2 s zi a) (hb : F0 s b) : FFin s zi (if c then a else b) := by
  split_ifs
  · exact Or.inl ha
  · exact Or.inr hb
theorem f1_step (h : F0 s t) : F1 s zi { t with g_NFOS := wr t.g_NFOS zi (rd t.g_NFOS zi - rd t.v_DMINFOS zi) } := by
  unfold F0 at h; unfold F1; dsimp only; rw [h.1]; exact ⟨rfl, h.2⟩
theorem f2_step (h : F1 s zi t) : F2 s zi { t with g_MINFOS := wr t.g_MINFOS zi (rd t.g_MINFOS zi + rd t.v_DMINFOS zi) } := by
  unfold F1 at h; unfold F2; dsimp only; rw [h.2]; exact ⟨h.1, rfl⟩
end

/-- one iteration of the layer loop, slowly decomposable pool -/
theorem loop1_A (z : Int) (s : St ℚ) : AFin s (z - 1) (loop1 m z s) := by
  unfold loop1
  extract_lets zi
  have h0 : A0 s s := ⟨rfl, rfl⟩
  walk_states [A0 s, A1 s zi, A2 s zi, AFin s zi] by
    first | assumption | (apply a1_step; assumption) | (apply a2_step; assumption) | (apply afin_ite <;> assumption)
  assumption

/-- one iteration of the layer loop, quickly decomposable pool -/
theorem loop1_F (z : Int) (s : St ℚ) : FFin s (z - 1) (loop1 m z s) := by
  unfold loop1
  extract_lets zi
  have h0 : F0 s s := ⟨rfl, rfl⟩
  walk_states [F0 s, F1 s zi, F2 s zi, FFin s zi] by
    first | assumption | (apply f1_step; assumption) | (apply f2_step; assumption) | (apply ffin_ite <;> assumption)
  assumption

/-- what the loop reads besides the pools stays what it was (the loop bound in particular) -/
theorem loop1_num (z : Int) (s : St ℚ) : (loop1 m z s).v_num = s.v_num := by
  unfold loop1
  extract_lets zi
  have h0 : (fun t : St ℚ => t.v_num = s.v_num) s := rfl
  walk_states [fun t : St ℚ => t.v_num = s.v_num] by assumption
  assumption

/-- pool + counter of every layer, and the array lengths -/
def PoolInv (s t : St ℚ) : Prop :=
  t.g_NAOS.length = s.g_NAOS.length ∧ t.g_MINAOS.length = s.g_MINAOS.length ∧
  t.g_NFOS.length = s.g_NFOS.length ∧ t.g_MINFOS.length = s.g_MINFOS.length ∧
  (∀ j : Int, rd t.g_NAOS j + rd t.g_MINAOS j = rd s.g_NAOS j + rd s.g_MINAOS j) ∧
  (∀ j : Int, rd t.g_NFOS j + rd t.g_MINFOS j = rd s.g_NFOS j + rd s.g_MINFOS j)

theorem pair_step (l1 l2 : List ℚ) (zi : Int) (d : ℚ) (h0 : 0 ≤ zi) (h1 : zi.toNat < l1.length) (h2 : zi.toNat < l2.length)
    (j : Int) : rd (wr l1 zi (rd l1 zi - d)) j + rd (wr l2 zi (rd l2 zi + d)) j = rd l1 j + rd l2 j := by
  rw [rd_wr _ _ _ _ h0 h1, rd_wr _ _ _ _ h0 h2]
  split_ifs with h
  · subst h; ring
  · rfl

/-- one iteration preserves pool + counter of every layer when the layer index is inside the four arrays (no Go panic) -/
theorem loop1_pool (z : Int) (s0 t : St ℚ) (h : PoolInv s0 t) (hz : 1 ≤ z)
    (hb : (z - 1).toNat < s0.g_NAOS.length ∧ (z - 1).toNat < s0.g_MINAOS.length ∧
          (z - 1).toNat < s0.g_NFOS.length ∧ (z - 1).toNat < s0.g_MINFOS.length) :
    PoolInv s0 (loop1 m z t) := by
  obtain ⟨l1, l2, l3, l4, pa, pf⟩ := h
  have h0 : (0 : Int) ≤ z - 1 := by omega
  have hA := loop1_A m z t
  have hF := loop1_F m z t
  unfold PoolInv
  refine ⟨?_, ?_, ?_, ?_, ?_, ?_⟩
  · rcases hA with h | h <;> rw [h.1] <;> first | (simp only [length_wr]; exact l1) | exact l1
  · rcases hA with h | h <;> rw [h.2] <;> first | (simp only [length_wr]; exact l2) | exact l2
  · rcases hF with h | h <;> rw [h.1] <;> first | (simp only [length_wr]; exact l3) | exact l3
  · rcases hF with h | h <;> rw [h.2] <;> first | (simp only [length_wr]; exact l4) | exact l4
  · intro j
    rcases hA with h | h
    · rw [h.1, h.2, pair_step _ _ _ _ h0 (by rw [l1]; exact hb.1) (by rw [l2]; exact hb.2.1)]; exact pa j
    · rw [h.1, h.2]; exact pa j
  · intro j
    rcases hF with h | h
    · rw [h.1, h.2, pair_step _ _ _ _ h0 (by rw [l3]; exact hb.2.2.1) (by rw [l4]; exact hb.2.2.2)]; exact pf j
    · rw [h.1, h.2]; exact pf j

/-- the layers `mineral` works on (IZM / DZ of them) lie inside the four pool arrays: the Go code does not panic -/
def InRange (s : St ℚ) : Prop :=
  (Int.tdiv s.g_IZM s.g_DZ_Index).toNat ≤ s.g_NAOS.length ∧ (Int.tdiv s.g_IZM s.g_DZ_Index).toNat ≤ s.g_MINAOS.length ∧
  (Int.tdiv s.g_IZM s.g_DZ_Index).toNat ≤ s.g_NFOS.length ∧ (Int.tdiv s.g_IZM s.g_DZ_Index).toNat ≤ s.g_MINFOS.length

/-- **`mineral`, whole call, any number of layers: pool + mineralised-amount counter of every layer is unchanged.** -/
theorem run_pool (s : St ℚ) (h : InRange s) : PoolInv s (run m s) := by
  unfold run
  extract_lets s1 s2 s3 s4 s5
  have e1 : s4.g_NAOS = s.g_NAOS ∧ s4.g_MINAOS = s.g_MINAOS ∧ s4.g_NFOS = s.g_NFOS ∧ s4.g_MINFOS = s.g_MINFOS := ⟨rfl, rfl, rfl, rfl⟩
  have hn : s4.v_num = Int.tdiv s.g_IZM s.g_DZ_Index := rfl
  have base : PoolInv s s4 := ⟨rfl, rfl, rfl, rfl, fun _ => rfl, fun _ => rfl⟩
  have key := loopUp_noBrk_ind (loop1 m) (fun _ t => PoolInv s t) 1 (s4.v_num + 1) s4 base
    (fun k hk t ht => by
      have hk' : k < (Int.tdiv s.g_IZM s.g_DZ_Index).toNat := by rw [hn] at hk; omega
      have hz : ((1 : Int) + k - 1).toNat = k := by omega
      exact loop1_pool m (1 + k) s t ht (by omega)
        ⟨by rw [hz]; exact lt_of_lt_of_le hk' h.1, by rw [hz]; exact lt_of_lt_of_le hk' h.2.1,
         by rw [hz]; exact lt_of_lt_of_le hk' h.2.2.1, by rw [hz]; exact lt_of_lt_of_le hk' h.2.2.2⟩)
  exact key

end Hermes.Generated.Imp.mineral
