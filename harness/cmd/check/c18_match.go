package main

// C18, which crop file an override applies to, and session sequences.
//
// c18FileMatch: rotations that grow several crops whose parameter file names are prefixes or
// extensions of one another (PARAM.WR / PARAM.WRA / PARAM.WRC; PARAM.SOY / PARAM_0.SOY /
// PARAM_00.SOY; PARAM.X / PARAM.X.yml) and a permanent crop sown in three consecutive rotation
// entries. The override names exactly one file; the run must equal the run on a private parameter
// folder in which exactly that file carries the value (every season of that file, no other file),
// and names that match no file of the run (other case, a common prefix, the name of the other
// encoding) must leave the run identical to the one without overrides.
// c18Session: lines of one session without override / with different overrides must each give the
// files of their solo run.

import (
	"fmt"
	"os"
	"path/filepath"
	"strings"

	"github.com/zalf-rpm/Hermes2Go/hermes"
	"verifharness/proj"
	"verifharness/vh"
)

type rotSpec struct {
	crop, variety  string
	sowM, sowD     int
	harM, harD     int
	overWinter     bool
	sowAfterHarDay int // > 0: sown this many days after the previous harvest (regrowth of a permanent crop)
}

func (r rotSpec) file() string {
	if r.variety != "" {
		return "PARAM_" + r.variety + "." + r.crop
	}
	return "PARAM." + r.crop
}

// seqProject: pre-crop harvested at the start date, then the given crops one after the other.
func seqProject(seed uint64, name string, specs []rotSpec) *proj.Project {
	p := proj.Gen(vh.NewRng(seed), name, proj.Opt{Years: len(specs) + 2, NoCrop: true, MinLayers: 6, Management: true})
	cur := p.Start()
	p.Rot = p.Rot[:1]
	for _, s := range specs {
		var sow proj.Date
		if s.sowAfterHarDay > 0 && len(p.Rot) > 1 {
			sow = cur.AddDays(s.sowAfterHarDay)
		} else {
			sow = proj.Date{Y: cur.Y, M: s.sowM, D: s.sowD}
			for sow.Z() <= cur.Z()+5 {
				sow.Y++
			}
		}
		har := proj.Date{Y: sow.Y, M: s.harM, D: s.harD}
		if s.overWinter || har.Z() <= sow.Z()+20 {
			har.Y++
		}
		p.Rot = append(p.Rot, proj.RotEntry{Crop: s.crop, Variety: s.variety, Sow: sow, Harvest: har, Rex: 50})
		cur = har
	}
	// schedules only inside the simulated period are kept as generated; tillage is dropped
	p.Til = nil
	p.DailyCols = c18DailyCols
	return p
}

type matchScenario struct {
	name    string
	specs   []rotSpec
	preCrop string // "" = the generated pre-crop; else the crop of rotation entry 1 (harvested at the start, never sown)
}

func c18Scenarios() []matchScenario {
	return []matchScenario{
		{"WR+WRA+WRC", []rotSpec{
			{crop: "WR", sowM: 9, sowD: 28, harM: 8, harD: 1, overWinter: true},
			{crop: "WRA", sowM: 8, sowD: 28, harM: 7, harD: 20, overWinter: true},
			{crop: "WRC", sowM: 8, sowD: 28, harM: 7, harD: 20, overWinter: true}}, ""},
		{"SOY+varieties", []rotSpec{
			{crop: "SOY", sowM: 5, sowD: 5, harM: 9, harD: 28},
			{crop: "SOY", variety: "0", sowM: 5, sowD: 5, harM: 9, harD: 28},
			{crop: "SOY", variety: "00", sowM: 5, sowD: 5, harM: 9, harD: 28}}, ""},
		{"permanent-GR-x3", []rotSpec{
			{crop: "GR", sowM: 4, sowD: 1, harM: 6, harD: 15},
			{crop: "GR", sowM: 4, sowD: 1, harM: 8, harD: 10, sowAfterHarDay: 1},
			{crop: "GR", sowM: 4, sowD: 1, harM: 10, harD: 5, sowAfterHarDay: 1}}, ""},
		{"permanent-AA-x3", []rotSpec{
			{crop: "AA", sowM: 4, sowD: 1, harM: 6, harD: 20},
			{crop: "AA", sowM: 4, sowD: 1, harM: 8, harD: 15, sowAfterHarDay: 1},
			{crop: "AA", sowM: 4, sowD: 1, harM: 10, harD: 1, sowAfterHarDay: 1}}, ""},
		// a standing sward: the preceding crop is the same permanent crop, the first sown entry is a real sowing all the
		// same (the readers and PhytoOut take the initial N concentrations from the file for it)
		{"standing-AA-x2", []rotSpec{
			{crop: "AA", sowM: 4, sowD: 1, harM: 6, harD: 20},
			{crop: "AA", sowM: 4, sowD: 1, harM: 8, harD: 15, sowAfterHarDay: 1}}, "AA"},
		{"standing-GR-x2", []rotSpec{
			{crop: "GR", sowM: 4, sowD: 1, harM: 6, harD: 15},
			{crop: "GR", sowM: 4, sowD: 1, harM: 8, harD: 10, sowAfterHarDay: 1}}, "GR"},
	}
}

func distinctFiles(specs []rotSpec) []string {
	seen := map[string]bool{}
	var out []string
	for _, s := range specs {
		if !seen[s.file()] {
			seen[s.file()] = true
			out = append(out, s.file())
		}
	}
	return out
}

func c18FileMatch(c *vh.Ctx) {
	runs := 0
	pdir := filepath.Join(c.Repo, "examples", "parameter")
	for si, sc := range c18Scenarios() {
		seed := c.Rng.U64()
		name := fmt.Sprintf("m%d", si)
		for _, yml := range []bool{false, true} {
			if yml && !c.Thorough() && si >= 2 {
				continue
			}
			mk := func() *proj.Project {
				p := seqProject(seed, name, sc.specs)
				if sc.preCrop != "" {
					p.Rot[0].Crop = sc.preCrop
				}
				if yml {
					p.Cfg["CropParameterFormat"] = "yml"
				}
				return p
			}
			enc := "classic"
			ext := ""
			if yml {
				enc, ext = "yml", ".yml"
			}
			root := func(tag string) string {
				return filepath.Join(c.Scratch, fmt.Sprintf("match%d_%s_%s", si, enc, tag))
			}
			base := runProject(c, root("base"), mk(), nil)
			runs++
			if base.Err != "" || base.Panic != "" {
				c.Note("file-match scenario %s (%s) does not run: %s %s", sc.name, enc, base.Err, base.Panic)
				continue
			}
			replayBase := map[string]interface{}{"scenario": sc.name, "generator_seed": seed, "crop_parameter_format": enc,
				"how": "seqProject(seed, name, specs): proj.Gen(Opt{Years:len+2,NoCrop:true,MinLayers:6,Management:true}) + the crops of the scenario in sequence"}
			// parameters: one strong base parameter and one per-stage parameter (TSUM of stage 2)
			type ovr struct {
				p     owParam
				stage int
				value func(t classicTok) float64
			}
			ovrs := []ovr{
				{owParams[owIndex("MAXAMAX")], 0, func(t classicTok) float64 { return vh.RoundTo(t.MAXAMAX*0.55, 1) }},
				{owParams[owIndex("TSUM")], 2, func(t classicTok) float64 { return vh.RoundTo(t.Stages[1].TSUM*1.4, 0) }},
			}
			if sc.preCrop != "" {
				// the initial N concentrations: applied at a real sowing, not at the regrowth of a permanent crop
				ovrs = append(ovrs,
					ovr{owParams[owIndex("INITCONCNBIOM")], 0, func(t classicTok) float64 { return vh.RoundTo(t.INITB*0.6+0.3, 2) }},
					ovr{owParams[owIndex("INITCONCNROOT")], 0, func(t classicTok) float64 { return vh.RoundTo(t.INITR*1.5+0.2, 2) }})
			}
			for _, target := range distinctFiles(sc.specs) {
				lines, err := readLines(filepath.Join(pdir, target))
				if err != nil {
					c.Note("no shipped file %s", target)
					continue
				}
				tok, err := tokeniseClassic(lines)
				if err != nil {
					continue
				}
				for _, ov := range ovrs {
					v := ov.value(tok)
					e := owEntry{ov.p, ov.stage, 0, v, ov.p.text(v)}
					po := mk()
					po.Args = append(po.Args, "CropFile="+target+ext, e.P.key(e.Stage, 0)+"="+e.Text)
					ro := runProject(c, root("ov"), po, nil)
					pe := mk()
					pe.Args = append(pe.Args, "parameter=par_edit")
					re := runProject(c, root("ed"), pe, func(rt string) error {
						if err := proj.CopyParameterFolderAs(rt, c.Repo, "par_edit"); err != nil {
							return err
						}
						f := filepath.Join(rt, "par_edit", target+ext)
						if yml {
							y, err := hermes.ReadCropParamFromFile(f)
							if err != nil {
								return err
							}
							if err := editYml(&y, ov.p.Name, ov.stage, 0, v); err != nil {
								return err
							}
							return hermes.WriteCropParam(f, y)
						}
						el, err := editClassic(lines, ov.p.Name, ov.stage, 0, e.Text)
						if err != nil {
							return err
						}
						return os.WriteFile(f, []byte(strings.Join(el, "\n")+"\n"), 0o644)
					})
					runs += 2
					c.Eval()
					c.Nontrivial(fmt.Sprintf("match/%s/%s/%s/%s", sc.name, enc, target, ov.p.Name))
					c.Count("match:" + sc.name + ":" + enc)
					rp := map[string]interface{}{"batch_line_extra": "CropFile=" + target + ext + " " + e.String(), "edited_file": target + ext + " in a private parameter folder (parameter=par_edit)"}
					for k, vv := range replayBase {
						rp[k] = vv
					}
					if ro.V == base.V && ro.C == base.C {
						c.Count("match:override-without-effect:" + sc.name)
					}
					compareRuns(c, fmt.Sprintf("override-file-match:%s:%s:%s:%s", sc.name, enc, target, ov.p.Name),
						fmt.Sprintf("rotation %s (%s files): %s for %s on the batch line vs that value edited into exactly that file", sc.name, enc, e, target+ext), ro, re, "VYCM", rp)
				}
			}
			// names that match no file of this run: identical to the run without overrides
			first := distinctFiles(sc.specs)[0]
			var noMatch []string
			noMatch = append(noMatch, strings.ToLower(first)+ext, "PARAM", first[:len(first)-1]+ext, first+ext+"x")
			if yml {
				noMatch = append(noMatch, first) // the classic name while YAML files are read
			} else {
				noMatch = append(noMatch, first+".yml") // the YAML name while classic files are read
			}
			for ni, nm := range noMatch {
				if !c.Thorough() && yml && ni != 0 && ni != 4 {
					continue
				}
				pn := mk()
				pn.Args = append(pn.Args, "CropFile="+nm, "c_MAXAMAX=9")
				rn := runProject(c, root("nm"), pn, nil)
				runs++
				c.Eval()
				c.Nontrivial(fmt.Sprintf("nomatch/%s/%s/%s", sc.name, enc, nm))
				rp := map[string]interface{}{"batch_line_extra": "CropFile=" + nm + " c_MAXAMAX=9", "files_read_by_the_run": distinctFiles(sc.specs)}
				for k, vv := range replayBase {
					rp[k] = vv
				}
				cls := []string{"other-case", "common-prefix", "name-minus-last-character", "name-plus-character", "name-of-the-other-encoding"}[ni]
				compareRuns(c, "override-file-match:no-such-file:"+cls, fmt.Sprintf("rotation %s (%s files): override for %q, a name no crop of the run reads, vs no override", sc.name, enc, nm), base, rn, "VYCM", rp)
			}
		}
	}
	c.Res.Extra["file_match_runs"] = runs
}

func c18Session(c *vh.Ctx) {
	n := c.N(2, 8)
	for k := 0; k < n; k++ {
		cc := proj.Crops[c.Rng.Intn(len(proj.Crops))]
		seed := c.Rng.U64()
		p := cropProject(seed, fmt.Sprintf("os%d", k), cc)
		root := filepath.Join(c.Scratch, fmt.Sprintf("owsess%d", k))
		if err := p.Write(root, c.Repo); err != nil {
			panic(err)
		}
		if err := p.WriteAlt(root); err != nil {
			panic(err)
		}
		f := "PARAM." + cc.Code
		lines := []sessionLine{
			{"no-override", nil},
			{"override-A", []string{"CropFile=" + f, "c_MAXAMAX=" + fmt.Sprint(20+c.Rng.Intn(20))}},
			{"override-B", []string{"CropFile=" + f, "c_MAXAMAX=" + fmt.Sprint(60+c.Rng.Intn(30)), "c_BAS_2=" + fmt.Sprint(1+c.Rng.Intn(5))}},
			{"override-other-file", []string{"CropFile=PARAM.other", "c_MAXAMAX=9"}},
			{"override-out-of-range", []string{"CropFile=" + f, "c_VELOC=" + fmt.Sprint(2+c.Rng.Intn(190)), "c_MINTMP=6"}},
			{"override-yml-file", []string{"CropParameterFormat=yml", "CropFile=" + f + ".yml", "c_WUMAXPF=" + fmt.Sprint(5+c.Rng.Intn(10))}},
		}
		replay := map[string]interface{}{"crop": cc.Code, "generator_seed": seed, "how": "cropProject(seed, name, crop); Write; proj.RunSession(root, lines, concurrent)"}
		runSessionLines(c, root, "session:override", p, lines, replay)
		p.Forget()
	}
}
