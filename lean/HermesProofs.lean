import HermesProofs.Calendar
import HermesProofs.Config
import HermesProofs.GroundWater
import HermesProofs.Partition
import HermesProofs.RatInst
import HermesProofs.SoilTemp
import HermesProofs.Substeps
import HermesProofs.Water
