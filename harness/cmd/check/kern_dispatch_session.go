package main

// Mixed-session scenario shared by the C03 and C11 checks.
//
// One session (one hermes2go process) runs lines that differ in everything a run reads per
// parameter folder or per project, so that anything derived from such a table and kept for the
// session (a cache keyed by too little, a value computed once) changes the outcome of a later line:
//
//   * parameter folders (batch argument parameter=<folder>) next to the standard one:
//       parameter2     other HYPAR.TRU values, other CROP_N.TXT, other PARAM.<crop>, an extra fertiliser XKA
//       parameterAdd   ADDS the soil texture SL5 (HYPAR.TRU + PARCAP.TRU) and the fertiliser XKB
//       parameterAdd3  ADDS the soil texture SL6
//       parameterLack  LACKS the soil texture TS3 (both tables)
//     with soils that use SL5 / SL6 / TS3: the same project is a valid line with one folder and a
//     reported per-line error ("… not listed …") with another;
//   * a fertiliser that exists only in some FERTILIZ.TXT; automan.txt tables that differ between two
//     otherwise identical projects (automatic harvest); a different daily output configuration for
//     every project, with and without the optional pfout_conf.yml; ManagementEvents off without
//     managementout_conf.yml;
//   * projects WITHOUT optional input files: no tillage file (input.go:668, ContinueOnError), no
//     irrigation file for a plot that is not irrigated.
//
// Every distinct line is first run alone (cold process): that fixes its files (sha256) and whether it
// succeeds or fails with which message. Then batches: every conflict pair in both orders at
// concurrency 1 and 2, triples, and random permutations / draws of all lines at concurrency 1…8.
// Required of every batch: the process ends normally; the summary lists exactly the lines that fail
// alone, with their own message; every file equals the solo run of its line; no other file appears.

import (
	"encoding/json"
	"fmt"
	"math"
	"os"
	"path/filepath"
	"sort"
	"strconv"
	"strings"
	"sync"
	"time"

	"verifharness/proj"
	"verifharness/vh"
)

type scLine struct {
	*batchLine
	Group      string // input class of the line (signature component)
	ExpectFail string // "" = expected to succeed alone; else substring of the expected error
}

type scBatch struct {
	kind  string
	lines []*scLine
	conc  int
	procs int
	race  bool
	out   *batchOutcome
}

type sessionScenario struct {
	Projects []*proj.Project
	Lines    []*scLine
	Pairs    [][]*scLine // conflict groups: run in every order
	setup    []func(root string) error
	Notes    []string
	Equiv    []scEquiv // lines that describe the same run by different means (kern_dispatch_keys.go)
}

func cloneProject(p *proj.Project, name string) *proj.Project {
	b, _ := json.Marshal(p)
	q := &proj.Project{}
	json.Unmarshal(b, q)
	q.Name = name
	q.DailyCols = append([]string{}, p.DailyCols...)
	q.GenWeather()
	return q
}

func lineOf(p *proj.Project, id string, extra ...string) []string {
	a := append([]string{}, p.BatchArgs()...)
	for k := range a {
		if strings.HasPrefix(a[k], "poligonID=") {
			a[k] = "poligonID=" + id
		}
	}
	return append(a, extra...)
}

// ---- parameter folder edits

func addTextureRows(file string, b []byte, newName, from string) []byte {
	if file != "HYPAR.TRU" && file != "PARCAP.TRU" {
		return b
	}
	lines := strings.Split(string(b), "\n")
	out := append([]string{}, lines...)
	for len(out) > 0 && strings.TrimSpace(out[len(out)-1]) == "" {
		out = out[:len(out)-1]
	}
	for i, ln := range lines {
		if !strings.HasPrefix(ln, from) || len(ln) <= 3 {
			continue
		}
		out = append(out, newName+ln[3:])
		if file == "PARCAP.TRU" && i+1 < len(lines) {
			out = append(out, lines[i+1]) // continuation line of the two-line entry
		}
		return []byte(strings.Join(out, "\n") + "\n")
	}
	return b
}

func dropTextureRows(file string, b []byte, name string) []byte {
	lines := strings.Split(string(b), "\n")
	var out []string
	switch file {
	case "HYPAR.TRU":
		for _, ln := range lines {
			if !strings.HasPrefix(ln, name) {
				out = append(out, ln)
			}
		}
		return []byte(strings.Join(out, "\n"))
	case "PARCAP.TRU":
		for i := 0; i < len(lines); i++ {
			if strings.HasPrefix(lines[i], name) {
				i++ // continuation line
				continue
			}
			out = append(out, lines[i])
		}
		return []byte(strings.Join(out, "\n"))
	}
	return b
}

func addFertiliser(b []byte, code string, nh4, loss float64) []byte {
	s := strings.TrimRight(string(b), "\r\n ")
	return []byte(s + fmt.Sprintf("\n%s 01.00 1.00 0.00 0.00 %.2f %.2f kg N/ha generated fertiliser\n", code, nh4, loss))
}

// parameter2: other values in every table a run reads from the folder.
func scParameter2Edit(file string, b []byte) []byte {
	switch {
	case file == "HYPAR.TRU":
		return parameter2Edit(file, b)
	case file == "FERTILIZ.TXT":
		return addFertiliser(b, "XKA", 0.30, 0.05)
	case file == "CROP_N.TXT":
		lines := strings.Split(string(b), "\n")
		for i, ln := range lines {
			if i == 0 || len(ln) < 45 {
				continue
			}
			if v, err := strconv.ParseFloat(strings.TrimSpace(ln[13:18]), 64); err == nil && v > 0 && v < 80 {
				lines[i] = ln[:13] + fmt.Sprintf("%05.2f", v*1.2) + ln[18:]
			}
		}
		return []byte(strings.Join(lines, "\n"))
	case strings.HasPrefix(file, "PARAM.") && !strings.HasSuffix(file, ".yml"):
		lines := strings.Split(string(b), "\n")
		for i, ln := range lines {
			if strings.HasPrefix(ln, "AMAX") {
				t := strings.TrimRight(ln, " \r")
				k := strings.LastIndexAny(t, " .")
				if v, err := strconv.Atoi(t[k+1:]); err == nil && v > 10 {
					lines[i] = t[:k+1] + strconv.Itoa(v-6)
				}
			}
		}
		return []byte(strings.Join(lines, "\n"))
	}
	return b
}

func shiftAutomanHarvest(table string, days int) string {
	lines := strings.Split(table, "\n")
	for i, ln := range lines {
		if i == 0 || len(ln) < 18 {
			continue
		}
		d, e1 := strconv.Atoi(ln[14:16])
		m, e2 := strconv.Atoi(ln[16:18])
		if e1 != nil || e2 != nil || m < 1 || m > 12 {
			continue
		}
		t := proj.Date{Y: 2001, M: m, D: d}.AddDays(days)
		lines[i] = ln[:14] + fmt.Sprintf("%02d%02d", t.D, t.M) + ln[18:]
	}
	return strings.Join(lines, "\n")
}

var scDailyColPool = []string{"REGENdaily", "TEMPdaily", "ETA", "SICKER", "LAI", "OBMAS", "GRW", "WG[1][0]", "OUTSUM", "AUFNASUM"}

func tableSoil(p *proj.Project) {
	for i := range p.Soil {
		p.Soil[i].FC, p.Soil[i].WP, p.Soil[i].PV = 0, 0, 0
	}
	p.Cfg["PTF"] = "0"
}

// buildSessionScenario draws the projects and lines. small = fewer plain projects (C11 uses its own).
func buildSessionScenario(r *vh.Rng, nPlain int) *sessionScenario {
	sc := &sessionScenario{}
	add := func(p *proj.Project) *proj.Project {
		// a different daily output configuration for every project
		cols := []string{"AKTUELL"}
		for _, c := range scDailyColPool {
			if r.Chance(0.5) {
				cols = append(cols, c)
			}
		}
		p.DailyCols = cols
		sc.Projects = append(sc.Projects, p)
		return p
	}
	line := func(p *proj.Project, key, group, expectFail string, extra ...string) *scLine {
		id := strings.ToUpper(strings.NewReplacer("/", "", "-", "").Replace(key))
		l := &scLine{batchLine: &batchLine{Key: key, Args: lineOf(p, id, extra...), Class: "valid"}, Group: group, ExpectFail: expectFail}
		if expectFail != "" {
			l.Class = "fail"
		}
		sc.Lines = append(sc.Lines, l)
		return l
	}
	after := func(f func(root string) error) { sc.setup = append(sc.setup, f) }

	// ---- textures that exist only in some folders
	t5 := add(genWithCrop(r, "t5"))
	tableSoil(t5)
	t5.Soil[r.Intn(len(t5.Soil))].Texture = "SL5"
	t5add := line(t5, "t5/add", "texture-added-by-folder", "", "parameter=parameterAdd")
	t5std := line(t5, "t5/std", "texture-only-in-other-folder", "not listed")
	t5add3 := line(t5, "t5/add3", "texture-only-in-other-folder", "not listed", "parameter=parameterAdd3")
	t6 := add(genWithCrop(r, "t6"))
	tableSoil(t6)
	t6.Soil[len(t6.Soil)-1].Texture = "SL6"
	t6add3 := line(t6, "t6/add3", "texture-added-by-folder", "", "parameter=parameterAdd3")
	t6add := line(t6, "t6/add", "texture-only-in-other-folder", "not listed", "parameter=parameterAdd")
	t3 := add(genWithCrop(r, "t3"))
	tableSoil(t3)
	t3.Soil[0].Texture = "TS3"
	t3std := line(t3, "t3/std", "texture-removed-by-other-folder", "")
	t3lack := line(t3, "t3/lack", "texture-removed-by-folder", "not listed", "parameter=parameterLack")
	t3par2 := line(t3, "t3/par2", "parameter-folder-values", "", "parameter=parameter2")
	sc.Pairs = append(sc.Pairs, []*scLine{t5std, t5add}, []*scLine{t5add, t5add3}, []*scLine{t6add3, t6add}, []*scLine{t3std, t3lack},
		[]*scLine{t3std, t3par2}, []*scLine{t5add, t6add3, t3std}, []*scLine{t5std, t6add, t3lack, t5add})

	// ---- a fertiliser that exists only in parameter2 / parameterAdd
	fx := add(genWithCrop(r, "fx"))
	d0 := fx.Start().AddDays(r.Range(20, 60))
	fx.Fert = []proj.FertEv{{Amount: r.Range(40, 120), Kind: "XKA", Date: d0}, {Amount: r.Range(30, 90), Kind: "KAS", Date: d0.AddDays(r.Range(20, 90))},
		{Amount: r.Range(40, 120), Kind: "XKB", Date: d0.AddDays(r.Range(120, 220))}}
	fxstd := line(fx, "fx/std", "fertiliser-table", "")
	fxp2 := line(fx, "fx/par2", "fertiliser-table", "", "parameter=parameter2")
	fxadd := line(fx, "fx/add", "fertiliser-table", "", "parameter=parameterAdd")
	sc.Pairs = append(sc.Pairs, []*scLine{fxstd, fxp2}, []*scLine{fxp2, fxadd, fxstd})

	// ---- automatic harvest with automan tables that differ between two otherwise identical projects
	var au1 *proj.Project
	for try := 0; try < 50 && au1 == nil; try++ {
		p := genWithCrop(r, "a1")
		p.Cfg["AutoHarvest"] = "1"
		p.Til = nil
		au1 = p
	}
	add(au1)
	au2 := cloneProject(au1, "a2")
	sc.Projects = append(sc.Projects, au2)
	a1 := line(au1, "a1", "automan-table", "")
	a2 := line(au2, "a2", "automan-table", "")
	after(func(root string) error {
		t := au1.AutomanTable()
		if err := os.WriteFile(filepath.Join(root, "project", "a1", "automan.txt"), []byte(t), 0o644); err != nil {
			return err
		}
		return os.WriteFile(filepath.Join(root, "project", "a2", "automan.txt"), []byte(shiftAutomanHarvest(t, -25)), 0o644)
	})
	sc.Pairs = append(sc.Pairs, []*scLine{a1, a2})

	// ---- optional input files absent
	nt := add(genWithCrop(r, "nt")) // no tillage file
	nt.Til = nil
	ntl := line(nt, "nt", "no-tillage-file", "")
	wt := add(cloneProject(nt, "wt")) // the same project with a tillage file
	if len(wt.Rot) >= 2 && wt.Rot[1].Sow.Z()-wt.Rot[0].Harvest.Z() > 5 {
		wt.Til = []proj.TilEv{{Depth: r.Range(10, 30), Kind: 1, Date: wt.Rot[0].Harvest.AddDays(r.Range(1, 3))}}
	}
	wtl := line(wt, "wt", "with-tillage-file", "")
	ni := add(genWithCrop(r, "ni")) // not irrigated, no irrigation file; management events off, no managementout_conf.yml
	ni.Irrigated = false
	ni.Irr = nil
	ni.Cfg["ManagementEvents"] = "0"
	nil_ := line(ni, "ni", "no-irrigation-file", "")
	after(func(root string) error {
		os.Remove(filepath.Join(root, "project", "nt", "til_nt.txt"))
		os.Remove(filepath.Join(root, "project", "ni", "irr_ni.txt"))
		os.Remove(filepath.Join(root, "project", "ni", "managementout_conf.yml"))
		// optional second daily output (pfout_conf.yml) for one project only
		return os.WriteFile(filepath.Join(root, "project", "wt", "pfout_conf.yml"), []byte(proj.OutputConf([]string{"AKTUELL", "ETA", "SICKER"})), 0o644)
	})
	sc.Pairs = append(sc.Pairs, []*scLine{ntl, wtl}, []*scLine{nil_, wtl, ntl})

	// ---- plain projects, each with the standard folder and with parameter2 (other crop / N / hydraulic tables),
	// every third one without its (optional) tillage file
	for i := 0; i < nPlain; i++ {
		p := add(genShortProject(r.Fork(), fmt.Sprintf("q%d", i)))
		drop := i%3 == 1
		a := line(p, p.Name, "plain", "")
		b := line(p, p.Name+"/par2", "parameter-folder-values", "", "parameter=parameter2")
		if drop {
			a.Group, b.Group = "no-tillage-file", "no-tillage-file"
			name := p.Name
			after(func(root string) error {
				os.Remove(filepath.Join(root, "project", name, "til_"+name+".txt"))
				return nil
			})
		}
		sc.Pairs = append(sc.Pairs, []*scLine{a, b})
	}
	// ---- batch-line keys that select another input or output of the same project (resultfolder=, gwId=,
	// soilId=, fileExtension=, no poligonID): kern_dispatch_keys.go
	sc.addKeyLines(r, add, line, after)
	return sc
}

func (sc *sessionScenario) write(c *vh.Ctx, root string) error {
	for _, p := range sc.Projects {
		if err := p.Write(root, c.Repo); err != nil {
			return err
		}
	}
	for _, f := range sc.setup {
		if err := f(root); err != nil {
			return err
		}
	}
	folders := map[string]func(file string, b []byte) []byte{
		"parameter2": scParameter2Edit,
		"parameterAdd": func(file string, b []byte) []byte {
			if file == "FERTILIZ.TXT" {
				return addFertiliser(b, "XKB", 0.60, 0.10)
			}
			return addTextureRows(file, b, "SL5", "LT3")
		},
		"parameterAdd3": func(file string, b []byte) []byte { return addTextureRows(file, b, "SL6", "UT3") },
		"parameterLack": func(file string, b []byte) []byte { return dropTextureRows(file, b, "TS3") },
	}
	for name, ed := range folders {
		if err := variantParameterFolder(root, c.Repo, name, ed); err != nil {
			return err
		}
	}
	return nil
}

func scTexts(ls []*scLine) []string {
	out := make([]string, len(ls))
	for i, l := range ls {
		out[i] = l.Text()
	}
	return out
}

func permutations(ls []*scLine) [][]*scLine {
	if len(ls) <= 1 {
		return [][]*scLine{append([]*scLine{}, ls...)}
	}
	var out [][]*scLine
	for i := range ls {
		rest := append(append([]*scLine{}, ls[:i]...), ls[i+1:]...)
		for _, p := range permutations(rest) {
			out = append(out, append([]*scLine{ls[i]}, p...))
		}
	}
	return out
}

// runSessionScenario generates, runs and evaluates the scenario. sigPrefix: "session" — the
// signatures are session:<kind>:<input class>. Returns the dispatcher correspondence cases.
func runSessionScenario(c *vh.Ctx, bin, raceBin string, nPlain, nRandom int) (cases, impl []string) {
	batchStyleSeed = c.Seed
	r := c.Rng.Fork()
	sc := buildSessionScenario(r, nPlain)
	nRoots := 8
	roots := make([]string, nRoots)
	for i := range roots {
		roots[i] = filepath.Join(c.Scratch, fmt.Sprintf("sroot%d", i))
		if err := sc.write(c, roots[i]); err != nil {
			c.Violate("correspondence", "harness:scenario-write", err.Error(), nil)
			return
		}
	}
	inputs0 := inputSnapshot(roots[0])
	replayBase := func() map[string]interface{} {
		return map[string]interface{}{"projects": sc.Projects,
			"how": "harness/cmd/check/kern_dispatch_session.go: buildSessionScenario draws the projects (replay.projects), sessionScenario.write puts them and the parameter folders parameter2 / parameterAdd (adds texture SL5, fertiliser XKB) / parameterAdd3 (adds SL6) / parameterLack (lacks TS3) into one root and removes the optional files; the setup functions of kern_dispatch_keys.go add the second soil profile S02, the groundwater series GX1, the crop_/poly_/automan files of extension alt; write batch_lines to a file in the root (replay.batch_file_quoted is the file as it was written) and run replay.command (`hermes2go -module batch -batch <file> [-workingdir <root>] -concurrent <n>`, options in any order) started in the root; every line alone in the canonical form (one line, one blank between the tokens, LF, `-module batch -batch <file> -workingdir <root> -concurrent 1`) gives the reference"}
	}
	// ---- solo runs
	t0 := time.Now()
	{
		parts := make([][]*batchLine, nRoots)
		for i, l := range sc.Lines {
			parts[i%nRoots] = append(parts[i%nRoots], l.batchLine)
		}
		vh.Parallel(nRoots, nRoots, func(i int) { soloRuns(bin, roots[i], parts[i], 60*time.Second) })
	}
	c.Res.Extra["session_solo_wall_s"] = math.Round(time.Since(t0).Seconds()*100) / 100
	usable := true
	for _, l := range sc.Lines {
		c.Eval()
		c.Nontrivial("session-solo:" + l.Key)
		payload := replayBase()
		payload["batch_lines"] = []string{l.Text()}
		payload["solo_outcome"] = l.SoloErr
		payload["solo_run"] = l.SoloHow
		payload["stderr_tail"] = l.SoloStderr
		switch {
		case l.SoloErr == "TIMEOUT":
			c.Violate("search", "session:hang:"+l.Group, fmt.Sprintf("line %q does not terminate alone", l.Text()), payload)
			usable = false
		case strings.HasPrefix(l.SoloErr, "DIED"):
			c.Violate("search", "session:died:"+l.Group, fmt.Sprintf("a single line of input class %s ends the process without a summary: %s", l.Group, l.SoloErr), payload)
			usable = false
		case strings.HasPrefix(l.SoloErr, "BADSUMMARY"):
			c.Violate("search", "session:summary-count", fmt.Sprintf("a batch of one line ends without a consistent summary (%s)", l.SoloErr), payload)
			usable = false
		case l.ExpectFail == "" && l.SoloErr != "":
			// e.g. an optional file treated as required, a folder's extra texture not accepted
			c.Violate("search", "session:valid-line-fails-alone:"+l.Group, fmt.Sprintf("a valid line of input class %s fails when run alone: %s — line %q", l.Group, l.SoloErr, l.Text()), payload)
			usable = false
		case l.ExpectFail != "" && l.SoloErr == "":
			c.Violate("correspondence", "session:expected-error-not-reported:"+l.Group, fmt.Sprintf("line %q was built to fail (%s) but runs without error", l.Text(), l.ExpectFail), payload)
			usable = false
		case l.ExpectFail != "" && !strings.Contains(l.SoloErr, l.ExpectFail):
			c.Note("scenario line %s fails with another message than expected: %s", l.Key, l.SoloErr)
		}
		if l.SoloErr == "" {
			c.Count("session-solo:succeeds:" + l.Group)
		} else {
			c.Count("session-solo:fails:" + l.Group)
		}
	}
	if !usable {
		return
	}
	// the variants must really differ (otherwise a shared cache could not be seen)
	differ := func(a, b string) bool {
		var la, lb *scLine
		for _, l := range sc.Lines {
			if l.Key == a {
				la = l
			}
			if l.Key == b {
				lb = l
			}
		}
		if la == nil || lb == nil {
			return false
		}
		ha := map[string]bool{}
		for _, h := range la.Solo {
			ha[h] = true
		}
		n := 0
		for _, h := range lb.Solo {
			if !ha[h] {
				n++
			}
		}
		return n > 0
	}
	for _, pr := range [][2]string{{"fx/std", "fx/par2"}, {"fx/par2", "fx/add"}, {"a1", "a2"}, {"t3/std", "t3/par2"}, {"nt", "wt"}} {
		if differ(pr[0], pr[1]) {
			c.Count("session-variants-differ:" + pr[0] + "~" + pr[1])
		} else {
			c.Note("scenario variants %s and %s give identical result files (this pair cannot reveal a shared table)", pr[0], pr[1])
		}
	}

	sc.checkEquivalences(c, replayBase)

	// ---- batches
	var batches []*scBatch
	for _, grp := range sc.Pairs {
		perms := permutations(grp)
		if len(grp) > 3 {
			perms = perms[:0]
			for k := 0; k < 6; k++ { // a few orders of the larger groups
				p := append([]*scLine{}, grp...)
				for i := len(p) - 1; i > 0; i-- {
					j := r.Intn(i + 1)
					p[i], p[j] = p[j], p[i]
				}
				perms = append(perms, p)
			}
		}
		for pi, p := range perms {
			for _, conc := range []int{1, 2} {
				if len(grp) > 2 && conc == 2 && pi%2 == 1 {
					continue
				}
				batches = append(batches, &scBatch{kind: "orders", lines: p, conc: conc, procs: []int{1, 2, 16}[len(batches)%3]})
			}
		}
	}
	for k := 0; k < nRandom; k++ {
		var ls []*scLine
		if k%2 == 0 { // a permutation of all lines
			ls = append(ls, sc.Lines...)
		} else { // a draw with repetition (exact duplicates included)
			n := r.Range(3, 14)
			for i := 0; i < n; i++ {
				ls = append(ls, sc.Lines[r.Intn(len(sc.Lines))])
			}
		}
		for i := len(ls) - 1; i > 0; i-- {
			j := r.Intn(i + 1)
			ls[i], ls[j] = ls[j], ls[i]
		}
		conc := r.Range(1, 8)
		if k < 3 {
			conc = 1
		}
		batches = append(batches, &scBatch{kind: "mixed", lines: ls, conc: conc, procs: []int{1, 2, 16}[k%3], race: raceBin != "" && k%2 == 0})
	}
	rootFree := make(chan string, nRoots)
	for _, rt := range roots {
		rootFree <- rt
	}
	t0 = time.Now()
	var mu sync.Mutex
	vh.Parallel(len(batches), nRoots, func(i int) {
		b := batches[i]
		root := <-rootFree
		defer func() { rootFree <- root }()
		cleanResults(root)
		ls := make([]*batchLine, len(b.lines))
		for k, l := range b.lines {
			ls[k] = l.batchLine
		}
		use, to := bin, 90*time.Second
		var env []string
		if b.race {
			use, to = raceBin, 400*time.Second
			env = []string{"GORACE=halt_on_error=0"}
		}
		o := runBatch(use, root, ls, b.conc, b.procs, env, to, fmt.Sprintf("s%d", i))
		mu.Lock()
		b.out = o
		mu.Unlock()
	})
	c.Res.Extra["session_batches"] = len(batches)
	c.Res.Extra["session_batch_wall_s"] = math.Round(time.Since(t0).Seconds()*100) / 100

	for _, b := range batches {
		o := b.out
		c.Count("session-batch:" + b.kind)
		countBatchShape(c, o)
		c.Count(fmt.Sprintf("session-conc:%d", b.conc))
		keys := make([]string, len(b.lines))
		ls := make([]*batchLine, len(b.lines))
		for i, l := range b.lines {
			c.Eval()
			keys[i] = l.Key
			ls[i] = l.batchLine
		}
		if b.kind == "orders" {
			c.Nontrivial(fmt.Sprintf("session:%s|c%d", strings.Join(keys, ">"), b.conc))
		} else {
			c.Nontrivial(fmt.Sprintf("session:mixed%d|c%d|p%d", len(keys), b.conc, b.procs))
		}
		payload := replayBase()
		payload["batch_lines"] = scTexts(b.lines)
		payload["line_keys"] = keys
		payload["concurrent"] = b.conc
		payload["GOMAXPROCS"] = b.procs
		payload["stdout_tail"] = tail(o.Stdout, 1500)
		payload["stderr_tail"] = tail(o.Stderr, 2500)
		payload["command"], payload["batch_file_quoted"], payload["batch_file_shape"] = o.Cmd, strconv.Quote(o.BatchText), o.BatchShape
		if strings.Contains(o.Stderr, "DATA RACE") {
			c.Violate("search", "race:"+raceSignature(o.Stderr), "the race detector reports a data race in a session mixing parameter folders: "+raceSummary(o.Stderr), payload)
		}
		if o.TimedOut {
			c.Violate("search", "session:timeout", fmt.Sprintf("batch [%s] at concurrency %d did not terminate in time", strings.Join(keys, " "), b.conc), payload)
			continue
		}
		if !o.SummaryOK || !o.Finished || !o.HeaderSeen {
			// which line classes are in the batch: the signature names the classes whose solo run is fine
			grp := map[string]bool{}
			for _, l := range b.lines {
				grp[l.Group] = true
			}
			gs := make([]string, 0, len(grp))
			for g := range grp {
				gs = append(gs, g)
			}
			sort.Strings(gs)
			sig := "session:died"
			if len(gs) <= 2 {
				sig += ":" + strings.Join(gs, "+")
			}
			missing, _, _ := compareWithSolo(o, ls, nil)
			payload["lost_result_files"] = missing
			c.Violate("search", sig, fmt.Sprintf("the process ends without a complete summary (%v: %s) although every line of the batch [%s] terminates with a summary when run alone; %d result file(s) lost", o.Err, firstLineDsp(o.Stderr), strings.Join(keys, " "), len(missing)), payload)
			continue
		}
		// which lines fail: exactly those that fail alone
		var want []int
		for i, l := range b.lines {
			if l.SoloErr != "" {
				want = append(want, i)
			}
		}
		got := append([]int{}, o.ErrIDs...)
		sort.Ints(got)
		if fmt.Sprint(got) != fmt.Sprint(want) && !(len(got) == 0 && len(want) == 0) {
			inGot, inWant := map[int]bool{}, map[int]bool{}
			for _, g := range got {
				inGot[g] = true
			}
			for _, w := range want {
				inWant[w] = true
			}
			for i, l := range b.lines {
				if inGot[i] && !inWant[i] {
					c.Violate("search", "session:valid-line-fails-in-session:"+l.Group, fmt.Sprintf("line %d (%s) succeeds alone but fails in the session [%s] at concurrency %d: %s", i, l.Key, strings.Join(keys, " "), b.conc, o.ErrMsg[i]), payload)
				}
				if !inGot[i] && inWant[i] {
					c.Violate("search", "session:failing-line-not-reported:"+l.Group, fmt.Sprintf("line %d (%s) fails alone (%s) but is not reported in the session [%s] at concurrency %d", i, l.Key, l.SoloErr, strings.Join(keys, " "), b.conc), payload)
				}
			}
			for _, g := range got {
				if g < 0 || g >= len(b.lines) {
					c.Violate("search", "session:summary-unknown-id", fmt.Sprintf("the summary lists id %d, the batch has %d lines", g, len(b.lines)), payload)
				}
			}
		}
		if o.Count != len(o.ErrIDs) {
			c.Violate("search", "session:summary-count", fmt.Sprintf("`Number of errors: %d` but %d error lines printed", o.Count, len(o.ErrIDs)), payload)
		}
		for _, id := range o.ErrIDs {
			if id >= 0 && id < len(b.lines) && b.lines[id].SoloErr != "" && stripIDs(o.ErrMsg[id]) != stripIDs(b.lines[id].SoloErr) {
				c.Violate("search", "session:wrong-message:"+b.lines[id].Group, fmt.Sprintf("line %d is reported with %q, alone it fails with %q", id, o.ErrMsg[id], b.lines[id].SoloErr), payload)
			}
		}
		// files: every file equals the solo run of its line. Lines whose outcome differs from solo are
		// already reported; their files are skipped here.
		skip := map[string]bool{}
		gotSet := map[int]bool{}
		for _, g := range got {
			gotSet[g] = true
		}
		for i, l := range b.lines {
			if gotSet[i] != (l.SoloErr != "") {
				skip[l.Key] = true
			}
		}
		owner := func(f string) string {
			for _, l := range b.lines {
				if _, ok := l.Solo[f]; ok {
					return l.Group
				}
			}
			return "?"
		}
		missing, differs, foreign := compareWithSolo(o, ls, skip)
		if len(differs) > 0 {
			payload["differing_files"] = differs
			c.Violate("search", "session:result-differs-from-solo:"+owner(differs[0]), fmt.Sprintf("%d result file(s) differ from the solo run of the same line in the session [%s] (concurrency %d), first %s", len(differs), strings.Join(keys, " "), b.conc, differs[0]), payload)
		}
		if len(missing) > 0 {
			payload["missing_files"] = missing
			c.Violate("search", "session:result-missing:"+owner(missing[0]), fmt.Sprintf("%d result file(s) of the solo run are missing after the session [%s], first %s", len(missing), strings.Join(keys, " "), missing[0]), payload)
		}
		if len(foreign) > 0 {
			payload["foreign_files"] = foreign
			c.Violate("search", "session:foreign-file", fmt.Sprintf("the session wrote %d file(s) none of its lines writes alone, first %s", len(foreign), foreign[0]), payload)
		}
		// dispatcher correspondence
		cases = append(cases, dispatchCase(c.Rng, len(b.lines), b.conc, 0, 0, want))
		ids := make([]string, len(got))
		for i, v := range got {
			ids[i] = strconv.Itoa(v)
		}
		impl = append(impl, fmt.Sprintf("finished %d errors [%s] count %d", len(b.lines), strings.Join(ids, ","), o.Count))
	}
	for i, root := range roots {
		now := inputSnapshot(root)
		for f, h := range inputs0 {
			if now[f] != h {
				c.Violate("search", "inputs:modified", fmt.Sprintf("input file %s of scenario root %d changed during the runs", f, i), map[string]interface{}{"file": f})
				break
			}
		}
	}
	if len(batches) > 0 {
		b := batches[0]
		c.Sample(map[string]interface{}{"session": scTexts(b.lines), "concurrent": b.conc, "summary_ids": b.out.ErrIDs, "files_compared": len(b.out.Files)})
	}
	return cases, impl
}
