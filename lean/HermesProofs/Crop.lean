/-
Lemmas about the crop model over ℚ (exact arithmetic): list helpers, the factors of the thermal
increment, the stage machine's invariant, the organ loop's invariants, REDUK, rooting depth.
-/
import HermesProofs.RatInst
import HermesModel.Crop
import Mathlib.Tactic.Linarith
import Mathlib.Tactic.Ring
import Mathlib.Tactic.Positivity
import Mathlib.Tactic.NormNum.Basic
import Mathlib.Tactic.NormNum.OfScientific
import Mathlib.Tactic.SplitIfs
import Mathlib.Tactic.FieldSimp

namespace Hermes.Crop

/-! ### list helpers -/

theorem length_setAt {β : Type} (v : β) : ∀ (l : List β) (k : ℕ), (setAt k v l).length = l.length := by
  intro l
  induction l with
  | nil => intro k; simp [setAt]
  | cons x xs ih =>
    intro k
    cases k with
    | zero => simp [setAt]
    | succ j => simp [setAt, ih j]

theorem getD_setAt_eq {β : Type} (v d : β) : ∀ (l : List β) (k : ℕ), k < l.length → (setAt k v l).getD k d = v := by
  intro l
  induction l with
  | nil => intro k h; simp at h
  | cons x xs ih =>
    intro k h
    cases k with
    | zero => simp [setAt]
    | succ j =>
      simp only [setAt, List.getD_cons_succ]
      exact ih j (by simpa using h)

theorem getD_setAt_ne {β : Type} (v d : β) : ∀ (l : List β) (k i : ℕ), i ≠ k → (setAt k v l).getD i d = l.getD i d := by
  intro l
  induction l with
  | nil => intro k i _; simp [setAt]
  | cons x xs ih =>
    intro k i h
    cases k with
    | zero =>
      cases i with
      | zero => exact absurd rfl h
      | succ j => simp [setAt]
    | succ j =>
      cases i with
      | zero => simp [setAt]
      | succ m =>
        simp only [setAt, List.getD_cons_succ]
        exact ih j m (by omega)

theorem setAt0 {β : Type} (v x : β) (xs : List β) : setAt 0 v (x :: xs) = v :: xs := rfl
theorem setAt1 {β : Type} (v x y : β) (xs : List β) : setAt 1 v (x :: y :: xs) = x :: v :: xs := rfl
theorem setAt2 {β : Type} (v x y z : β) (xs : List β) : setAt 2 v (x :: y :: z :: xs) = x :: y :: v :: xs := rfl

/-! ### factors of the increment -/

theorem clamp01_unit (x : ℚ) : 0 ≤ clamp01 x ∧ clamp01 x ≤ 1 := by
  simp only [clamp01]
  constructor <;> split_ifs <;> linarith

theorem fpFactor_unit (dlp dayl dlbas : ℚ) : 0 ≤ fpFactor dlp dayl dlbas ∧ fpFactor dlp dayl dlbas ≤ 1 := by
  simp only [fpFactor]
  exact clamp01_unit _

theorem vern_unit (vt vs temp dt : ℚ) : 0 ≤ (vern vt vs temp dt).2 ∧ (vern vt vs temp dt).2 ≤ 1 := by
  simp only [vern]
  split_ifs <;> constructor <;> simp <;> linarith

theorem vernFactor_unit (vt vs temp dt : ℚ) : 0 ≤ (vernFactor vt vs temp dt).2 ∧ (vernFactor vt vs temp dt).2 ≤ 1 := by
  simp only [vernFactor]
  split_ifs
  · exact vern_unit _ _ _ _
  · simp

theorem fmax_ge_left (a b : ℚ) : a ≤ fmax a b := by
  simp only [fmax]; split_ifs <;> linarith

theorem fmax_ge_right (a b : ℚ) : b ≤ fmax a b := by
  simp only [fmax]; split_ifs <;> linarith

theorem devProg_ge_one (f : Bool) (reduk trrel dryswell lured : ℚ) : 1 ≤ devProg f reduk trrel dryswell lured := by
  simp only [devProg]
  refine le_trans ?_ (fmax_ge_left _ _)
  split_ifs
  · exact le_refl _
  · nlinarith [mul_self_nonneg (1 - reduk)]

theorem thermalInc_nonneg (temp bas fv fp dp dt : ℚ) (ht : bas ≤ temp) (hfv : 0 ≤ fv) (hfp : 0 ≤ fp) (hdp : 1 ≤ dp)
    (hdt : 0 ≤ dt) : 0 ≤ thermalInc temp bas fv fp dp dt := by
  unfold thermalInc
  have h1 : 0 ≤ temp - bas := by linarith
  have h2 : (0 : ℚ) ≤ dp := by linarith
  positivity

theorem emergInc_nonneg (temp bas wg0 w0 wmin0 dt x : ℚ) (hwg : 0 ≤ wg0) (hthr : 0 ≤ 0.3 * (w0 - wmin0) + wmin0)
    (hdt : 0 ≤ dt) (h : emergInc temp bas wg0 w0 wmin0 dt = some x) : 0 ≤ x := by
  simp only [emergInc] at h
  split_ifs at h with h1 h2
  · have : 0 ≤ temp - bas := by linarith
    simp only [Option.some.injEq] at h
    rw [← h]; positivity
  · have : 0 ≤ temp - bas := by linarith
    simp only [Option.some.injEq] at h
    rw [← h]
    have : 0 ≤ wg0 / (0.3 * (w0 - wmin0) + wmin0) := div_nonneg hwg hthr
    positivity

/-! ### the stage machine -/

/-- what one day does to the stage index and the recorded days: nothing, or exactly one step forward
with the day written into the slot of the new stage. -/
theorem stageStep_cases (nrentw day : ℕ) (tsum : List ℚ) (e : Option ℚ) (d : ℕ → Option ℚ) (s : Stage ℚ) :
    ((stageStep nrentw day tsum e d s).1.intwick = s.intwick ∧ (stageStep nrentw day tsum e d s).1.dev = s.dev
        ∧ (stageStep nrentw day tsum e d s).2 = false) ∨
    (s.intwick + 1 < nrentw ∧ (stageStep nrentw day tsum e d s).1.intwick = s.intwick + 1
        ∧ (stageStep nrentw day tsum e d s).1.dev = setAt (s.intwick + 1) day s.dev
        ∧ (stageStep nrentw day tsum e d s).2 = true) := by
  simp only [stageStep, advance]
  by_cases h0 : s.intwick = 0
  · simp only [h0, if_true]
    split_ifs with h1 h2
    · right; exact ⟨h2.2, rfl, rfl, rfl⟩
    · left; exact ⟨rfl, rfl, rfl⟩
    · left; exact ⟨rfl, rfl, rfl⟩
  · simp only [h0, if_false]
    split_ifs with h1 h2
    · right; exact ⟨h2.2, rfl, rfl, rfl⟩
    · left; exact ⟨rfl, rfl, rfl⟩
    · left; exact ⟨rfl, rfl, rfl⟩

/-- `Recorded s lo hi`: the recorded days of the stages reached so far (1 … INTWICK) lie in [lo, hi]
and increase strictly with the stage. -/
def Recorded (s : Stage ℚ) (lo hi : ℕ) : Prop :=
  (∀ i, 1 ≤ i → i ≤ s.intwick → lo ≤ s.dev.getD i 0 ∧ s.dev.getD i 0 ≤ hi) ∧
  (∀ i j, 1 ≤ i → i < j → j ≤ s.intwick → s.dev.getD i 0 < s.dev.getD j 0)

theorem Recorded.mono {s : Stage ℚ} {lo hi hi' : ℕ} (h : Recorded s lo hi) (hh : hi ≤ hi') : Recorded s lo hi' :=
  ⟨fun i h1 h2 => ⟨(h.1 i h1 h2).1, le_trans (h.1 i h1 h2).2 hh⟩, h.2⟩

theorem stageStep_recorded (nrentw day lo hi : ℕ) (tsum : List ℚ) (e : Option ℚ) (d : ℕ → Option ℚ) (s : Stage ℚ)
    (hlen : nrentw ≤ s.dev.length) (hrec : Recorded s lo hi) (hday : hi < day) (hlo : lo ≤ day) :
    Recorded (stageStep nrentw day tsum e d s).1 lo day ∧ (stageStep nrentw day tsum e d s).1.dev.length = s.dev.length := by
  rcases stageStep_cases nrentw day tsum e d s with ⟨hi1, hd1, _⟩ | ⟨hlt, hi1, hd1, _⟩
  · rw [Recorded, hi1, hd1]
    exact ⟨(hrec.mono (Nat.le_of_lt hday)), rfl⟩
  · have hk : s.intwick + 1 < s.dev.length := lt_of_lt_of_le hlt hlen
    refine ⟨⟨?_, ?_⟩, ?_⟩
    · intro i h1 h2
      rw [hi1] at h2
      rw [hd1]
      by_cases hik : i = s.intwick + 1
      · subst hik
        rw [getD_setAt_eq _ _ _ _ hk]
        exact ⟨hlo, le_refl _⟩
      · rw [getD_setAt_ne _ _ _ _ _ hik]
        have := hrec.1 i h1 (by omega)
        exact ⟨this.1, by omega⟩
    · intro i j h1 hij hj
      rw [hi1] at hj
      rw [hd1]
      have hik : i ≠ s.intwick + 1 := by omega
      rw [getD_setAt_ne _ _ _ _ _ hik]
      by_cases hjk : j = s.intwick + 1
      · subst hjk
        rw [getD_setAt_eq _ _ _ _ hk]
        have := (hrec.1 i h1 (by omega)).2
        omega
      · rw [getD_setAt_ne _ _ _ _ _ hjk]
        exact hrec.2 i j h1 hij (by omega)
    · rw [hd1, length_setAt]

theorem run_recorded (nrentw lo top : ℕ) (tsum : List ℚ) :
    ∀ (days : List (ℕ × Option ℚ × (ℕ → Option ℚ))) (s : Stage ℚ) (hi : ℕ),
      nrentw ≤ s.dev.length → Recorded s lo hi → hi ≤ top →
      (∀ x ∈ days, hi < x.1 ∧ lo ≤ x.1 ∧ x.1 ≤ top) → days.Pairwise (fun a b => a.1 < b.1) →
      Recorded (run nrentw tsum days s) lo top := by
  intro days
  induction days with
  | nil => intro s hi _ hrec hle _ _; exact hrec.mono hle
  | cons x rest ih =>
    intro s hi hlen hrec _ hall hpw
    obtain ⟨day, e, d⟩ := x
    have hx := hall (day, e, d) (by simp)
    obtain ⟨hr, hl⟩ := stageStep_recorded nrentw day lo hi tsum e d s hlen hrec hx.1 hx.2.1
    simp only [run]
    rw [List.pairwise_cons] at hpw
    apply ih _ day (by rw [hl]; exact hlen) hr hx.2.2
    · intro y hy
      have := hall y (by simp [hy])
      exact ⟨hpw.1 y hy, this.2.1, this.2.2⟩
    · exact hpw.2

theorem run_intwick_ge (nrentw : ℕ) (tsum : List ℚ) :
    ∀ (days : List (ℕ × Option ℚ × (ℕ → Option ℚ))) (s : Stage ℚ),
      s.intwick ≤ (run nrentw tsum days s).intwick ∧ (run nrentw tsum days s).intwick ≤ s.intwick + days.length := by
  intro days
  induction days with
  | nil => intro s; simp [run]
  | cons x rest ih =>
    intro s
    obtain ⟨day, e, d⟩ := x
    simp only [run, List.length_cons]
    have := ih (stageStep nrentw day tsum e d s).1
    rcases stageStep_cases nrentw day tsum e d s with ⟨h1, _, _⟩ | ⟨_, h1, _, _⟩ <;> omega

/-! ### organ loop -/

theorem updLow_nonneg (dt w g d : ℚ) : 0 ≤ (updLow dt w g d).1 := by
  simp only [updLow]
  split_ifs with h
  · have : w + g * dt - d * dt = w + (g - d) * dt := by ring
    simp only [this]
    have : (0 : ℚ) < 1e-13 := by norm_num
    linarith
  · norm_num

theorem updHigh_nonneg (dt : ℚ) (b : Bool) (w g d d1 d2 d3 : ℚ) : 0 ≤ (updHigh dt b w g d d1 d2 d3).1 := by
  simp only [updHigh]
  split_ifs <;> simp_all

theorem updLai_nonneg (e : OrganEnv ℚ) (lai laimax g d : ℚ) : 0 ≤ (updLai e lai laimax g d).1 := by
  simp only [updLai]
  split_ifs <;> simp_all

theorem laiFloor_pos (lai : ℚ) : 0 < laiFloor lai := by
  simp only [laiFloor]
  split_ifs with h
  · norm_num
  · linarith

/-- invariant of the organ loop: every organ mass written so far is ≥ 0 and LAI ≥ 0 -/
def OrgOk (st : OrgState ℚ) : Prop := (∀ w ∈ st.worg, (0 : ℚ) ≤ w) ∧ 0 ≤ st.lai

theorem organStep_ok (e : OrganEnv ℚ) (gehalt : ℚ) (st : OrgState ℚ) (i : ℕ) (p : OrganPar ℚ) (w dOld : ℚ)
    (h : OrgOk st) : OrgOk (organStep e gehalt st i p w dOld) := by
  simp only [organStep, OrgOk]
  constructor
  · intro x hx
    rcases List.mem_append.mp hx with hx | hx
    · exact h.1 x hx
    · simp only [List.mem_singleton] at hx
      rw [hx]
      split_ifs
      · exact updLow_nonneg _ _ _ _
      · exact updHigh_nonneg _ _ _ _ _ _ _ _
  · by_cases hi : i = 1
    · rw [if_pos hi]; exact updLai_nonneg _ _ _ _ _
    · rw [if_neg hi]; exact h.2

theorem organLoop_ok (e : OrganEnv ℚ) (gehalt : ℚ) :
    ∀ (orgs : List (OrganPar ℚ × ℚ × ℚ)) (i : ℕ) (st : OrgState ℚ), OrgOk st → OrgOk (organLoop e gehalt i orgs st) := by
  intro orgs
  induction orgs with
  | nil => intro i st h; simpa [organLoop] using h
  | cons x rest ih =>
    intro i st h
    obtain ⟨p, w, d⟩ := x
    simp only [organLoop]
    exact ih (i + 1) _ (organStep_ok e gehalt st i p w d h)

theorem organLoop_length (e : OrganEnv ℚ) (gehalt : ℚ) :
    ∀ (orgs : List (OrganPar ℚ × ℚ × ℚ)) (i : ℕ) (st : OrgState ℚ),
      (organLoop e gehalt i orgs st).worg.length = st.worg.length + orgs.length := by
  intro orgs
  induction orgs with
  | nil => intro i st; simp [organLoop]
  | cons x rest ih =>
    intro i st
    obtain ⟨p, w, d⟩ := x
    simp only [organLoop, List.length_cons]
    rw [ih]
    simp [organStep]
    omega

theorem getD_nonneg_of_all : ∀ (l : List ℚ), (∀ w ∈ l, (0 : ℚ) ≤ w) → ∀ k : ℕ, 0 ≤ l.getD k 0 := by
  intro l
  induction l with
  | nil => intro _ k; simp
  | cons x xs ih =>
    intro h k
    cases k with
    | zero => simpa using h x (by simp)
    | succ j =>
      simp only [List.getD_cons_succ]
      exact ih (fun w hw => h w (by simp [hw])) j

theorem obmas_nonneg (above : List ℕ) (worg : List ℚ) (h : ∀ w ∈ worg, (0 : ℚ) ≤ w) : 0 ≤ obmas above worg := by
  unfold obmas
  suffices ∀ (l : List ℕ) (z : ℚ), 0 ≤ z → 0 ≤ l.foldl (fun s k => s + worg.getD (k - 1) 0) z from this above 0 (le_refl _)
  intro l
  induction l with
  | nil => intro z hz; simpa using hz
  | cons k ks ih =>
    intro z hz
    simp only [List.foldl_cons]
    exact ih _ (add_nonneg hz (getD_nonneg_of_all worg h _))

/-! ### N concentrations -/

theorem fmin_le_left (a b : ℚ) : fmin a b ≤ a := by
  simp only [fmin]; split_ifs <;> linarith

theorem fmin_le_right (a b : ℚ) : fmin a b ≤ b := by
  simp only [fmin]; split_ifs <;> linarith

/-- root N after the day (WUMAS·WUGEH') is covered by crop N after the day (P + U). -/
theorem wugehCore_rootN_le (wumalt wumas guardv denom wugeh uptake wgmax P : ℚ)
    (hw : 0 < wumas) (hg : 0 ≤ wugeh) (hu : 0 ≤ uptake) (hroot : wumalt * wugeh ≤ P)
    (hfloor : 0.005 * wumas ≤ P + uptake)
    (hstall : wumalt < wumas → ¬ 0 < guardv → wumas * wugeh ≤ P + uptake) :
    wumas * wugehCore wumalt wumas guardv denom wugeh uptake wgmax ≤ P + uptake := by
  simp only [wugehCore]
  split_ifs with h1 h2 h3 h3
  · linarith
  · -- guard holds: w2 = fmin w1 wgmax ≤ w1, wumas·w1 = R + s·U with s ≤ 1
    have hs : fmin 1 ((wumas - wumalt) / denom) * uptake ≤ uptake := by
      have := fmin_le_left 1 ((wumas - wumalt) / denom)
      nlinarith
    have hw1 : wumas * ((wumalt * wugeh + fmin 1 ((wumas - wumalt) / denom) * uptake) / wumas)
        = wumalt * wugeh + fmin 1 ((wumas - wumalt) / denom) * uptake := by
      field_simp
    have hle := fmin_le_left ((wumalt * wugeh + fmin 1 ((wumas - wumalt) / denom) * uptake) / wumas) wgmax
    have : wumas * fmin ((wumalt * wugeh + fmin 1 ((wumas - wumalt) / denom) * uptake) / wumas) wgmax
        ≤ wumas * ((wumalt * wugeh + fmin 1 ((wumas - wumalt) / denom) * uptake) / wumas) :=
      mul_le_mul_of_nonneg_left hle (le_of_lt hw)
    linarith
  · linarith
  · have hle := fmin_le_left wugeh wgmax
    have : wumas * fmin wugeh wgmax ≤ wumas * wugeh := mul_le_mul_of_nonneg_left hle (le_of_lt hw)
    have := hstall h1 h2
    linarith
  · have : wumas * wugeh ≤ wumalt * wugeh := by
      apply mul_le_mul_of_nonneg_right (by linarith) hg
    linarith

/-! ### rooting depth -/

theorem rootLimit_ge_one (wurzmax n : ℕ) (wumaxpf : ℚ) : 1 ≤ rootLimit wurzmax n wumaxpf := by
  simp only [rootLimit]
  split_ifs <;> linarith

theorem rootLimit_le (wurzmax n : ℕ) (wumaxpf : ℚ) (hn : 1 ≤ n) : rootLimit wurzmax n wumaxpf ≤ (n : ℚ) := by
  have h1 : (1 : ℚ) ≤ (n : ℚ) := by exact_mod_cast hn
  simp only [rootLimit, Conv.ofNat]
  split_ifs <;> linarith

theorem rootLimit_le_round (wurzmax n : ℕ) (wumaxpf : ℚ) :
    rootLimit wurzmax n wumaxpf ≤ max 1 ((Conv.roundNat ((wurzmax : ℚ) * (wumaxpf / 11.0)) : ℕ) : ℚ) := by
  simp only [rootLimit, Conv.ofNat]
  split_ifs with h1 h2 h3
  · exact le_max_left _ _
  · exact le_trans (le_of_lt h1) (le_max_right _ _)
  · exact le_max_left _ _
  · exact le_max_right _ _

theorem qrezClamp_bounds (qrez wurm dz : ℚ) (hw : 1 ≤ wurm) (hdz : 0 < dz) (hdz2 : dz ≤ 12) :
    1 ≤ 4.5 / qrezClamp qrez wurm dz / dz ∧ 4.5 / qrezClamp qrez wurm dz / dz ≤ wurm := by
  have hwd : 0 < wurm * dz := by positivity
  have hlow : 0 < 4.5 / (wurm * dz) := by positivity
  have hq : 4.5 / (wurm * dz) ≤ qrezClamp qrez wurm dz := by
    simp only [qrezClamp]; split_ifs <;> linarith
  have hq2 : qrezClamp qrez wurm dz ≤ max 0.35 (4.5 / (wurm * dz)) := by
    simp only [qrezClamp]; split_ifs <;> simp <;> (left; linarith)
  have hpos : 0 < qrezClamp qrez wurm dz := lt_of_lt_of_le hlow hq
  constructor
  · rw [div_div, le_div_iff₀ (by positivity)]
    rcases max_cases (0.35 : ℚ) (4.5 / (wurm * dz)) with ⟨hm, _⟩ | ⟨hm, _⟩
    · rw [hm] at hq2
      have : qrezClamp qrez wurm dz * dz ≤ 0.35 * 12 := by
        apply mul_le_mul hq2 hdz2 (le_of_lt hdz) (by norm_num)
      norm_num at this ⊢; linarith
    · rw [hm] at hq2
      have : qrezClamp qrez wurm dz * dz ≤ 4.5 / (wurm * dz) * dz := by
        apply mul_le_mul_of_nonneg_right hq2 (le_of_lt hdz)
      have h2 : 4.5 / (wurm * dz) * dz = 4.5 / wurm := by field_simp
      rw [h2] at this
      have h3 : (4.5 : ℚ) / wurm ≤ 4.5 := by
        rw [div_le_iff₀ (by linarith)]; nlinarith
      linarith
  · rw [div_div, div_le_iff₀ (by positivity)]
    have : 4.5 / (wurm * dz) * dz ≤ qrezClamp qrez wurm dz * dz := mul_le_mul_of_nonneg_right hq (le_of_lt hdz)
    have h2 : 4.5 / (wurm * dz) * dz = 4.5 / wurm := by field_simp
    rw [h2] at this
    have h3 : wurm * (4.5 / wurm) = 4.5 := by field_simp
    nlinarith

end Hermes.Crop
