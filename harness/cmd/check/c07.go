package main

import (
	"fmt"
	"math"
	"strings"

	"verifharness/proj"
	"verifharness/vh"
)

func init() { register("C07", checkC07) }

// Signatures:
//   tillage:index-out-of-range:depth>=45cm   mixing over more than the four slots of MINAOS/MINFOS
//   tillage:sum:<pool>                       mixing changes the profile sum of a pool
//   fixation:credited-in-every-substep       PESUM gains the day's N fixation in every sub-step
//   mineral:pool-conservation:… / mineral:dissolved-exceeds-applied:… / mineral:negative-pool
//   nmove:uptake-credit:… / nmove:negative / nmove:nonfinite
//   run:negative:<var> / run:nonfinite:<var> / run:pool-conservation:… / run:uptake-credit:…

const sigTillagePanic = "tillage:index-out-of-range:depth>=45cm"

func tillKernelStage(c *vh.Ctx, n int) {
	var cases, impl []string
	var kept []tillCase
	for k := 0; k < n; k++ {
		tc := genTillCase(c.Rng)
		o := runTillImpl(&tc)
		c.Eval()
		c.Count("tillage:" + tc.Class)
		c.Nontrivial(fmt.Sprintf("t%d", k))
		cases = append(cases, tc.line())
		impl = append(impl, o.line(&tc))
		kept = append(kept, tc)
		if o.Panic != "" {
			sig := "tillage:panic:" + tc.Class
			if strings.Contains(o.Panic, "index out of range [4] with length 4") && tc.Eint >= 45 {
				sig = sigTillagePanic
			}
			c.Violate("search", sig, fmt.Sprintf("tillage of %g cm: the tillage branch of Nitro panics (%s) — the run dies instead of mixing the pools", tc.Eint, o.Panic), tc)
			continue
		}
		chk := func(name string, before, after []float64, clampAdds bool) {
			b, a := sum(before), sum(after)
			d := a - b
			if clampAdds && d > 0 {
				return
			}
			if math.Abs(d) > relTol(b, a) {
				c.Violate("search", "tillage:sum:"+name, fmt.Sprintf("tillage of %g cm changes the profile sum of %s by %.6g", tc.Eint, name, d), tc)
			}
			for _, x := range after {
				if x < 0 || !allFinite(x) {
					c.Violate("search", "tillage:negative-or-nonfinite:"+name, "negative or non-finite pool after tillage", tc)
					break
				}
			}
		}
		chk("NFOS", tc.Nfos, o.Nfos, false)
		chk("NAOS", tc.Naos, o.Naos, false)
		chk("MINFOS", tc.Minfos, o.Minfos, false)
		chk("MINAOS", tc.Minaos, o.Minaos, false)
		chk("C1", tc.C1, o.C1, true)
	}
	saved := kept
	c.Correspond("nitro.tillage", cases, impl, 1e-9, 1e-12, func(i int) interface{} { return saved[i] })
}

func c07Day(c *vh.Ctx, run *nRun, i int) {
	d := run.Days[i]
	if !d.HaveEnd {
		return
	}
	c.Eval()
	n := run.N
	s, e := d.Start, d.End
	payload := func() interface{} {
		return map[string]interface{}{"project": run.P, "date": d.Date, "zeit": d.Zeit, "substeps": len(d.Subs), "layers": n}
	}
	// ---- finite, non-negative
	bad := func(kind, name string) {
		c.Violate("search", "run:"+kind+":"+name, fmt.Sprintf("%s: %s is %s at day end", d.Date, name, kind), payload())
	}
	chkv := func(name string, x float64, nonneg bool) {
		if math.IsNaN(x) || math.IsInf(x, 0) {
			bad("nonfinite", name)
		} else if nonneg && x < -1e-8*(1+math.Abs(x)) { // round-off level negatives (e.g. NFIX = −5e-17) are not violations
			bad("negative", name)
		}
	}
	for z := 0; z < n; z++ {
		chkv("C1", e.C1[z], true)
	}
	for z := 0; z < 21; z++ {
		chkv("NAOS", e.Naos[z], true)
		chkv("NFOS", e.Nfos[z], true)
	}
	for z := 0; z < 4; z++ {
		chkv("MINAOS", e.Minaos[z], true)
		chkv("MINFOS", e.Minfos[z], true)
	}
	for _, sb := range d.Subs {
		if sb.NegC1 {
			bad("negative", "C1(sub-step)")
		}
	}
	chkv("AUFNASUM", e.Aufnasum, true)
	chkv("CUMDENIT", e.Cumdenit, true)
	chkv("N2onitsum", e.N2onitsum, true)
	chkv("N2Odencum", e.N2odencum, false) // diagnostic share of CUMDENIT, not a flux of its own: finiteness only
	chkv("UMS", e.Ums, true)
	chkv("DSUMM", e.Dsumm, true)
	chkv("NH4Sum", e.Nh4sum, true)
	chkv("NH4UMS", e.Nh4ums, true)
	if d.Nfix < -1e-8 || e.Nfixsum < -1e-8*(1+math.Abs(e.Nfixsum)) {
		c.Violate("search", "fixation:negative-amount", fmt.Sprintf("%s: N fixation of the day is %.6g kg N/ha (NFIXSUM = %.9g): the uptake of the layers exceeds the crop demand it was derived from", d.Date, d.Nfix, e.Nfixsum), payload())
	}
	chkv("NFIXSUM", e.Nfixsum, false)
	chkv("DRAINLOSS", e.Drainloss, true)
	chkv("PESUM", e.Pesum, false)
	chkv("OUTSUM", e.Outsum, false)
	// ---- counters monotone within the day
	mono := func(name string, a, b float64) {
		if b < a-1e-8*(1+math.Abs(a)) {
			c.Violate("search", "run:counter-decreases:"+name, fmt.Sprintf("%s: %s decreases from %.9g to %.9g within the day", d.Date, name, a, b), payload())
		}
	}
	mono("AUFNASUM", s.Aufnasum, e.Aufnasum)
	mono("CUMDENIT", s.Cumdenit, e.Cumdenit)
	mono("UMS", s.Ums, e.Ums)
	mono("NH4UMS", s.Nh4ums, e.Nh4ums)
	mono("DRAINLOSS", s.Drainloss, e.Drainloss)
	// ---- dissolved ≤ applied
	if e.Ums > e.Dsumm+relTol(e.Dsumm) {
		c.Violate("search", "run:dissolved-exceeds-applied", fmt.Sprintf("%s: UMS = %.9g exceeds DSUMM = %.9g", d.Date, e.Ums, e.Dsumm), payload())
	}
	if e.Nh4ums > e.Nh4sum+relTol(e.Nh4sum) {
		c.Violate("search", "run:nitrified-exceeds-applied", fmt.Sprintf("%s: NH4UMS = %.9g exceeds NH4Sum = %.9g", d.Date, e.Nh4ums, e.Nh4sum), payload())
	}
	// ---- organic pools + mineralised counters
	fert := s.NDG != e.NDG
	till := s.NTIL != e.NTIL
	harvest := s.AKF != e.AKF
	totSlow := func(x nSnap) float64 { return sum(x.Naos[:]) + sum(x.Minaos[:]) }
	totFast := func(x nSnap) float64 { return sum(x.Nfos[:]) + sum(x.Minfos[:]) }
	// automatic organic fertiliser due today (automan table + rotation file + FERTILIZ.TXT): what one application adds to the top layer
	manF, manA := 0.0, 0.0
	if !fert && !harvest && !d.CropDay {
		manF, manA = c07ManureDay(c, run, d, totFast(e)-totFast(s), totSlow(e)-totSlow(s), payload)
	}
	c07LaterSubsteps(c, d, payload)
	switch {
	case !fert && !till && !harvest && !d.CropDay:
		c.Count("run:day-without-organic-input")
		for z := 0; z < 21; z++ {
			a0, a1 := s.Naos[z], e.Naos[z]
			f0, f1 := s.Nfos[z], e.Nfos[z]
			if z == 0 {
				a0, f0 = a0+manA, f0+manF
			}
			if z < 4 {
				a0 += s.Minaos[z]
				a1 += e.Minaos[z]
				f0 += s.Minfos[z]
				f1 += e.Minfos[z]
				if e.Minaos[z] < s.Minaos[z] || e.Minfos[z] < s.Minfos[z] {
					c.Violate("search", "run:counter-decreases:MINAOS/MINFOS", fmt.Sprintf("%s: mineralised-amount counter of layer %d decreases", d.Date, z+1), payload())
				}
			}
			if math.Abs(a1-a0) > relTol(a0, a1) {
				c.Violate("search", "run:pool-conservation:slow", fmt.Sprintf("%s: NAOS+MINAOS of layer %d changes by %.6g on a day without organic input", d.Date, z+1, a1-a0), payload())
			}
			if math.Abs(f1-f0) > relTol(f0, f1) {
				c.Violate("search", "run:pool-conservation:fast", fmt.Sprintf("%s: NFOS+MINFOS of layer %d changes by %.6g on a day without organic input", d.Date, z+1, f1-f0), payload())
			}
		}
	case till && !fert && !harvest && !d.CropDay:
		c.Count("run:tillage-day")
		if dd := totSlow(e) - totSlow(s) - manA; math.Abs(dd) > relTol(totSlow(s), totSlow(e)) {
			c.Violate("search", "run:pool-conservation:tillage:slow", fmt.Sprintf("%s: tillage day changes Σ(NAOS+MINAOS) by %.6g", d.Date, dd), payload())
		}
		if dd := totFast(e) - totFast(s) - manF; math.Abs(dd) > relTol(totFast(s), totFast(e)) {
			c.Violate("search", "run:pool-conservation:tillage:fast", fmt.Sprintf("%s: tillage day changes Σ(NFOS+MINFOS) by %.6g", d.Date, dd), payload())
		}
	default:
		// inputs (residues, manure, dead roots and leaves) only add
		if dd := totSlow(e) - totSlow(s); dd < -relTol(totSlow(s), totSlow(e)) {
			c.Violate("search", "run:pool-conservation:input-day:slow", fmt.Sprintf("%s: Σ(NAOS+MINAOS) decreases by %.6g", d.Date, -dd), payload())
		}
		if dd := totFast(e) - totFast(s); dd < -relTol(totFast(s), totFast(e)) {
			c.Violate("search", "run:pool-conservation:input-day:fast", fmt.Sprintf("%s: Σ(NFOS+MINFOS) decreases by %.6g", d.Date, -dd), payload())
		}
	}
	// ---- crop side of the crediting, days without a crop, sums across reset dates
	c07CreditDay(c, run, i, payload)
	// ---- uptake and fixation credited once per day
	if len(d.Subs) == 0 {
		return
	}
	first := d.Subs[0]
	dA := e.Aufnasum - s.Aufnasum
	if math.Abs(dA-first.SumPE) > relTol(s.Aufnasum, e.Aufnasum, first.SumPE) {
		c.Violate("search", "run:uptake-credit:day", fmt.Sprintf("%s: AUFNASUM grows by %.9g over the day (%d sub-steps), the uptake of the layers is %.9g", d.Date, dA, len(d.Subs), first.SumPE), payload())
	}
	wantFix := 0.0
	if d.CropDay {
		wantFix = d.Nfix
	}
	if dF := e.Nfixsum - s.Nfixsum; math.Abs(dF-wantFix) > relTol(s.Nfixsum, wantFix) {
		c.Violate("search", "run:fixation-counter:day", fmt.Sprintf("%s: NFIXSUM grows by %.9g, fixation of the day is %.9g", d.Date, dF, wantFix), payload())
	}
	if len(d.Subs) > 1 {
		c.Nontrivial(fmt.Sprintf("%s:%d", run.P.Name, d.Zeit))
		c.Count("run:multi-substep-day")
		if d.CropDay {
			c.Count("run:multi-substep-crop-day")
			if d.Legume && d.Nfix > 0 {
				c.Count("run:multi-substep-day-with-fixation")
			}
		}
	}
	for k := 1; k < len(d.Subs); k++ {
		a, b := d.Subs[k-1], d.Subs[k]
		if b.Aufnasum != a.Aufnasum {
			c.Violate("search", "run:uptake-credit:later-substep", fmt.Sprintf("%s: AUFNASUM grows by %.9g in sub-step %d", d.Date, b.Aufnasum-a.Aufnasum, b.Subd), payload())
		}
		if b.SumPE != a.SumPE {
			c.Violate("search", "run:uptake-changed:later-substep", fmt.Sprintf("%s: the uptake of the layers changes in sub-step %d", d.Date, b.Subd), payload())
		}
		if dp := b.Pesum - a.Pesum; dp != 0 {
			sig := "run:cropN-credit:later-substep"
			if math.Abs(dp-b.Schnorr) <= relTol(a.Pesum, b.Schnorr) {
				sig = "fixation:credited-in-every-substep"
			}
			c.Violate("search", sig, fmt.Sprintf("%s: crop N (PESUM) grows by %.9g kg N/ha in sub-step %d of %d; the N fixation of the day (%.9g) is credited again in every sub-step while NFIXSUM counts it once", d.Date, dp, b.Subd, len(d.Subs), b.Schnorr), payload())
		}
	}
}

// deepTillageRuns: whole simulations with a tillage event of 45-60 cm (any depth is in the
// property's quantifier).
func deepTillageRuns(c *vh.Ctx, runs int, day func(c *vh.Ctx, run *nRun, i int)) {
	for k := 0; k < runs; k++ {
		r := c.Rng.Fork()
		p := proj.Gen(r, fmt.Sprintf("dt%d", k), proj.Opt{Management: true, MinLayers: 7, NoCrop: true, Years: 1})
		steerNitroProject(p, true)
		depth := r.Range(45, 60)
		p.Til = []proj.TilEv{{Depth: depth, Kind: 1, Date: p.Start().AddDays(r.Range(5, 60))}}
		run := runNitroObserved(c, p)
		c.Eval()
		c.Count("run:deep-tillage-simulations")
		if run.Res.Panic != "" {
			sig := panicSignature(run.Res.Panic)
			if strings.Contains(run.Res.Panic, "index out of range [4] with length 4") {
				sig = sigTillagePanic
			}
			c.Violate("search", sig, fmt.Sprintf("simulation with a tillage event of %d cm panics: %s", depth, run.Res.Panic), map[string]interface{}{"project": p})
			continue
		}
		if run.Res.Err != nil {
			c.Count("run:input-rejected")
			continue
		}
		for i := range run.Days {
			day(c, run, i)
		}
	}
}

func checkC07(c *vh.Ctx) {
	c.Res.Rule = "kernel: generated states of mineral (frozen / warm, dry … saturated), of the tillage branch of Nitro (depth 1-60 cm, both types), of nmove as first and as later sub-step, of Denitr/Denitmo; whole runs (legumes, extreme rain, management, deep tillage, peat, legumes cut green followed by other crops, silage maize with long fallow tails, first measurement after ammonium dressings): every simulated day — pools, counters, crediting on the crop side (ΔPESUM vs ΔAUFNASUM + ΔNFIXSUM), no uptake without a crop, sums across reset dates; non-trivial = distinct kernel state or simulated multi-sub-step day"
	mineralKernelStage(c, c.N(2000, 30000), "C07")
	tillKernelStage(c, c.N(800, 10000))
	nmoveKernelStage(c, c.N(2000, 30000), "C07")
	denitKernelStage(c, c.N(600, 8000), "C07")
	wholeRunStage(c, c.N(40, 500), true, c07Day)
	peatRuns(c, c.N(4, 40), true, c07Day)
	deepTillageRuns(c, c.N(3, 20), c07Day)
	creditRuns(c, c.N(12, 120))
	lateMeasureRuns(c, c.N(8, 80), c07Day)
	// fertiliser bookkeeping over a run (c07_fertpool.go); after the older stages so that their random streams are unchanged
	fertPoolKernelStage(c, c.N(1500, 20000))
	fertPoolRunStage(c, c.N(10, 100))
	// harvest branch of Nitro, resid, pinit (c07_harvest.go)
	harvestStages(c)
	// after the older stages (their random streams are unchanged)
	risingTableRuns(c, c.N(6, 60))
}
