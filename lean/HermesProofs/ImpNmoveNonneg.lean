/-
Non-negativity of the mineral N for the *translation of the current source* of `nmove` (hermes/nitro.go →
`HermesModel/Generated/Impnmove.lean`, regenerated on every run): whatever the explicit transport step produced, the last loop adds
half of the source term and clamps every layer of the profile at 0, and the crediting statement behind it does not touch C1.
Loop invariant over the clamping loop (`loopUp_noBrk_ind`), frame lemmas (`loopUp_inv`) for the number of layers and the array length
through the nine statements before it.
-/
import HermesProofs.ImpNmoveCredit
import Mathlib.Tactic.Linarith
import Mathlib.Tactic.NormNum

namespace Hermes.Generated.Imp.nmove
open Hermes.Imp

variable (m : MathFns ℚ)

/-- the last loop of `nmove` (nitro.go:850): adds half of the source term to a layer and clamps it at 0; other layers untouched -/
theorem loop5_spec (z : Int) (t : St ℚ) (h0 : 0 ≤ z) (hz : z.toNat < t.g_C1.length) :
    0 ≤ rd (loop5 m z t).g_C1 z ∧ (∀ j : Int, j ≠ z → rd (loop5 m z t).g_C1 j = rd t.g_C1 j) ∧
    (loop5 m z t).g_C1.length = t.g_C1.length ∧ (loop5 m z t).g_N = t.g_N := by
  unfold loop5
  dsimp only
  have hl : z.toNat < (wr t.g_C1 z (rd t.g_C1 z + rd t.g_DN z * t.p_wdt / 2.0)).length := by simp only [length_wr]; exact hz
  split_ifs with hc
  · refine ⟨?_, ?_, by simp only [length_wr], rfl⟩
    · show 0 ≤ rd (wr _ z 0.0) z
      rw [rd_wr_same _ _ _ h0 hl]; norm_num
    · intro j hj
      show rd (wr (wr t.g_C1 z _) z 0.0) j = _
      rw [rd_wr_ne _ _ _ _ (Ne.symm hj), rd_wr_ne _ _ _ _ (Ne.symm hj)]
  · refine ⟨?_, ?_, by simp only [length_wr], rfl⟩
    · have e0 : ((0.0 : ℚ)) = 0 := by norm_num
      rw [e0] at hc
      exact not_lt.mp hc
    · intro j hj
      show rd (wr t.g_C1 z _) j = _
      rw [rd_wr_ne _ _ _ _ (Ne.symm hj)]

/-- statement 10 (the clamping loop over all layers): every layer of the profile ends ≥ 0 -/
theorem top10_nonneg (t : St ℚ) (hN : t.g_N.toNat ≤ t.g_C1.length) :
    ∀ j : Int, 0 ≤ j → j < t.g_N → 0 ≤ rd (top10 m t).g_C1 j := by
  unfold top10
  have key := loopUp_noBrk_ind (loop5 m)
    (fun k u => u.g_C1.length = t.g_C1.length ∧ u.g_N = t.g_N ∧ ∀ j : Int, 0 ≤ j → j < (k : Int) → 0 ≤ rd u.g_C1 j)
    0 t.g_N t ⟨rfl, rfl, fun j h0 h1 => absurd h1 (by omega)⟩
    (fun k hk u hu => by
      obtain ⟨l1, l2, hj⟩ := hu
      have hz : ((0 : Int) + k).toNat < u.g_C1.length := by rw [l1]; omega
      obtain ⟨s1, s2, s3, s4⟩ := loop5_spec m (0 + k) u (by omega) hz
      refine ⟨s3.trans l1, s4.trans l2, ?_⟩
      intro j h0 h1
      by_cases hjk : j = 0 + k
      · subst hjk; exact s1
      · rw [s2 j hjk]; exact hj j h0 (by push_cast at h1; omega))
  intro j h0 h1
  exact key.2.2 j h0 (by omega)

/-- the crediting statement does not touch the mineral N -/
theorem top11_C1 (t : St ℚ) : (top11 m t).g_C1 = t.g_C1 := by
  unfold top11; dsimp only; split_ifs <;> rfl

/-- number of layers and length of the mineral-N array -/
def lenkey (t : St ℚ) : Int × Nat := (t.g_N, t.g_C1.length)

theorem loop1_lenkey (z : Int) (t : St ℚ) : lenkey (loop1 m z t) = lenkey t := by
  unfold loop1 lenkey; dsimp only; split_ifs <;> simp only [length_wr]
theorem loop2_lenkey (z : Int) (t : St ℚ) : lenkey (loop2 m z t) = lenkey t := by
  unfold loop2 lenkey; dsimp only; split_ifs <;> rfl
theorem loop3_lenkey (z : Int) (t : St ℚ) : lenkey (loop3 m z t) = lenkey t := by
  unfold loop3 lenkey; dsimp only; split_ifs <;> rfl
theorem loop4_lenkey (z : Int) (t : St ℚ) : lenkey (loop4 m z t) = lenkey t := by
  unfold loop4 lenkey; dsimp only; split_ifs <;> simp only [length_wr]

theorem top2_lenkey (t : St ℚ) : lenkey (top2 m t) = lenkey t :=
  loopUp_inv noBrk (loop1 m) (fun u => lenkey u = lenkey t) (fun i u h => (loop1_lenkey m i u).trans h) _ _ t rfl
theorem top4_lenkey (t : St ℚ) : lenkey (top4 m t) = lenkey t :=
  loopUp_inv noBrk (loop2 m) (fun u => lenkey u = lenkey t) (fun i u h => (loop2_lenkey m i u).trans h) _ _ t rfl
theorem top5_lenkey (t : St ℚ) : lenkey (top5 m t) = lenkey t :=
  loopUp_inv noBrk (loop3 m) (fun u => lenkey u = lenkey t) (fun i u h => (loop3_lenkey m i u).trans h) _ _ t rfl
theorem top8_lenkey (t : St ℚ) : lenkey (top8 m t) = lenkey t :=
  loopUp_inv noBrk (loop4 m) (fun u => lenkey u = lenkey t) (fun i u h => (loop4_lenkey m i u).trans h) _ _ t rfl
theorem top9_lenkey (t : St ℚ) : lenkey (top9 m t) = lenkey t := by
  unfold top9 lenkey; dsimp only; split_ifs <;> rfl

/-- statements 1-9 -/
def before9 (s : St ℚ) : St ℚ := top9 m (top8 m (top7 m (top6 m (top5 m (top4 m (top3 m (top2 m (top1 m s))))))))

theorem run_eq9 (s : St ℚ) : run m s = top11 m (top10 m (before9 m s)) := rfl

theorem before9_lenkey (s : St ℚ) : lenkey (before9 m s) = lenkey s := by
  unfold before9
  rw [top9_lenkey, top8_lenkey]
  show lenkey (top6 m _) = _
  show lenkey (top5 m _) = _
  rw [top5_lenkey, top4_lenkey]
  show lenkey (top2 m _) = _
  rw [top2_lenkey]
  rfl

/-- **`nmove`, whole call: the mineral N of every layer of the profile ends ≥ 0**, whatever the fluxes, the uptake and the source
terms were (the clamp of the last loop), for any number of layers inside the array. -/
theorem run_C1_nonneg (s : St ℚ) (hN : s.g_N.toNat ≤ s.g_C1.length) :
    ∀ j : Int, 0 ≤ j → j < s.g_N → 0 ≤ rd (run m s).g_C1 j := by
  have hk := before9_lenkey m s
  unfold lenkey at hk
  simp only [Prod.mk.injEq] at hk
  intro j h0 h1
  rw [run_eq9, top11_C1]
  exact top10_nonneg m (before9 m s) (by rw [hk.1, hk.2]; exact hN) j h0 (by rw [hk.1]; exact h1)

end Hermes.Generated.Imp.nmove
