/-
C08 — Actual ET never exceeds potential ET, which never exceeds the daily cap; root uptake only
from rooted layers above the groundwater table, never negative; stress ratios in [0,1].
Model: HermesModel/Evatra.lean (the partition part of `Evatra`, hermes/water.go:17-656 including
the floor of the potential ET at zero; the raw value of the chosen method and every
transcendental coefficient are inputs) and, for the
availability limit, HermesModel/Water.lean (`limitTp`, first loop of `Water`).  Exact-arithmetic
statements over ℚ for every number of layers and every state; round-off is measured by the search
stage.  The model is tied to the code by bit-exact differential correspondence (`evatra.part`).
-/
import HermesProofs.Evatra
import HermesProofs.Water
namespace Hermes.Evatra

/-- Admissible input of the partition: positive layer thickness, `elai = exp(-.5·LAI) ∈ [0,1]`,
non-negative root length densities, and a third of the top layer's wilting point below its field
capacity (C15's ordering gives much more). No condition on lengths, water contents or weather. -/
structure WF (i : In ℚ) : Prop where
  dz : 0 < i.dz
  elai0 : 0 ≤ i.elai
  elai1 : i.elai ≤ 1
  wudich : ∀ d ∈ i.wudich, 0 ≤ d
  top : i.wmin.headD 0 / 3 < i.w0

/-- **Cap.** Whatever the potential ET of the chosen method is, the value used for the day is at
most 6.5 mm under a crop and 6 mm on bare soil (no hypothesis at all). -/
theorem C08_pet_le_cap (i : In ℚ) :
    (partition i).verdu ≤ (if i.crop then 0.65 else 0.6) := by
  unfold partition
  cases hc : i.crop <;> simp only [Bool.false_eq_true, if_false, if_true] <;>
    simpa [hc] using capSplit_le i.crop i.verdu0 i.elai

/-- **Split.** Maximum evaporation and maximum transpiration add up to the potential ET. -/
theorem C08_ev_plus_tr_eq_pet (i : In ℚ) (h : WF i) :
    (partition i).evmax + (partition i).tramax = (partition i).verdu := by
  unfold partition
  cases hc : i.crop <;> simp only [Bool.false_eq_true, if_false, if_true] <;>
    exact capSplit_sum _ i.verdu0 i.elai h.elai0 h.elai1

/-- **Reduction factor.** The soil-dryness factor of evaporation lies in [0,1]. -/
theorem C08_redev_in_unit (i : In ℚ) (h : WF i) :
    0 ≤ (partition i).redev ∧ (partition i).redev ≤ 1 := by
  have hp := proz_unit (i.wg.headD 0) i.regen i.dz (i.wmin.headD 0) i.w0 h.top
  have := redev_unit _ hp.1 hp.2
  unfold partition
  cases hc : i.crop <;> simp only [Bool.false_eq_true, if_false, if_true] <;> exact this

/-- **Potential ET non-negative.** Whatever the formula of the chosen method returns (negative
for Turc-Wendling below −22 °C, negative with a missing-value sentinel in the ET0 column), the
potential ET of the day, its evaporation share and its transpiration share are non-negative:
the value is floored at zero before the cap. No hypothesis on the method's value. -/
theorem C08_pet_nonneg (i : In ℚ) (h : WF i) :
    0 ≤ (partition i).verdu ∧ 0 ≤ (partition i).evmax ∧ 0 ≤ (partition i).tramax := by
  have := capSplit_nonneg i.crop i.verdu0 i.elai h.elai0 h.elai1
  unfold partition
  cases hc : i.crop <;> simp only [Bool.false_eq_true, if_false, if_true] <;>
    exact ⟨by simpa [hc] using this.1, by simpa [hc] using this.2.1, by simpa [hc] using this.2.2.1⟩

/-- **Actual evaporation** is non-negative and at most its maximum, which is at most the potential ET. -/
theorem C08_eta_le_evmax (i : In ℚ) (h : WF i) :
    0 ≤ (partition i).eta ∧ (partition i).eta ≤ (partition i).evmax ∧
      (partition i).evmax ≤ (partition i).verdu := by
  have hc := capSplit_nonneg i.crop i.verdu0 i.elai h.elai0 h.elai1
  have hp := proz_unit (i.wg.headD 0) i.regen i.dz (i.wmin.headD 0) i.w0 h.top
  have hr := redev_unit _ hp.1 hp.2
  unfold partition
  cases hcr : i.crop <;> simp only [Bool.false_eq_true, if_false, if_true] <;> rw [hcr] at hc <;>
    exact ⟨mul_nonneg hc.2.1 hr.1, by nlinarith [hc.2.1, hr.2], hc.2.2.2⟩

/-- **Redistribution.** Under a crop: the deficit loop does not increase the total uptake, the
first distribution hands out at most TRAMAX·LURED ≤ TRAMAX (the shares of the remaining root
activity sum to at most one; what cannot be placed is dropped). -/
theorem C08_redistribution_total_le (i : In ℚ) (h : WF i) (hc : i.crop = true) :
    (partition i).tp.sum ≤ (partition i).tp0.sum ∧
    (partition i).tp0.sum ≤ (partition i).tramax * (partition i).lured ∧
    (partition i).tramax * (partition i).lured ≤ (partition i).tramax := by
  have hcs := capSplit_nonneg true i.verdu0 i.elai h.elai0 h.elai1
  have hl := lured_unit i
  have hact := mkLays_ok i.wurz i.grw i.wg i.wmin (nfk i.regen i.dz i.wg i.wmin i.wnor) i.wudich 1 h.wudich
  have hu := uptake_spec i.dz i.grw (capSplit true i.verdu0 i.elai).2.2 (lured i).1 i.wurz _ hact h.dz hcs.2.2.1 hl.1
  unfold partition
  simp only [hc, if_true]
  exact ⟨hu.2.1, hu.2.2.1, by nlinarith [hcs.2.2.1, hl.2]⟩

/-- **Uptake non-negative** in every layer (crop or bare soil). -/
theorem C08_tp_nonneg (i : In ℚ) (h : WF i) : ∀ t ∈ (partition i).tp, 0 ≤ t := by
  cases hc : i.crop
  · unfold partition
    simp only [hc, Bool.false_eq_true, if_false]
    intro t ht
    rw [List.eq_of_mem_replicate ht]
  · have hcs := capSplit_nonneg true i.verdu0 i.elai h.elai0 h.elai1
    have hl := lured_unit i
    have hact := mkLays_ok i.wurz i.grw i.wg i.wmin (nfk i.regen i.dz i.wg i.wmin i.wnor) i.wudich 1 h.wudich
    have hu := uptake_spec i.dz i.grw (capSplit true i.verdu0 i.elai).2.2 (lured i).1 i.wurz _ hact h.dz hcs.2.2.1 hl.1
    unfold partition
    simp only [hc, if_true]
    exact hu.1

/-- **Uptake only from rooted layers above groundwater.** Layer `j+1` (1-based) with
`j+1 > min(WURZ, GRW)` takes up nothing; on bare soil no layer does. No hypothesis on signs. -/
theorem C08_tp_zero_outside (i : In ℚ) (j : ℕ) (t : ℚ) (ht : (partition i).tp[j]? = some t)
    (hout : i.crop = false ∨ minRootGw i.wurz i.grw < (((j + 1 : ℕ)) : ℚ)) : t = 0 := by
  cases hc : i.crop
  · unfold partition at ht
    simp only [hc, Bool.false_eq_true, if_false] at ht
    have : t ∈ List.replicate i.wg.length (0 : ℚ) := List.mem_of_getElem? ht
    exact List.eq_of_mem_replicate this
  · rcases hout with hb | hout
    · rw [hc] at hb; cases hb
    · unfold partition at ht
      simp only [hc, if_true] at ht
      rw [redist_get _ _ _ _ _ _ _ _ _ j (truncNat_le_of_lt _ j hout)] at ht
      cases hx : (tpInit (capSplit true i.verdu0 i.elai).2.2
          (weffSum i.wurz (mkLays i.wurz i.grw 1 i.wg i.wmin (nfk i.regen i.dz i.wg i.wmin i.wnor) i.wudich))
          (lured i).1 (minRootGw i.wurz i.grw) 1
          (mkLays i.wurz i.grw 1 i.wg i.wmin (nfk i.regen i.dz i.wg i.wmin i.wnor) i.wudich))[j]? with
      | none => rw [hx] at ht; simp at ht
      | some x =>
        rw [hx] at ht
        simp only [Option.map_some, Option.some.injEq] at ht
        rw [← ht]
        exact tpInit_zero _ _ _ _ _ 1 j x hx (by rw [Nat.add_comm]; exact hout)

/-- **Actual ≤ potential.** Actual evaporation plus the uptake of all layers (and the uptake
total TPAKT handed to the ratios) is at most the potential ET of the day. -/
theorem C08_actual_le_potential (i : In ℚ) (h : WF i) :
    (partition i).eta + (partition i).tp.sum ≤ (partition i).verdu ∧
    0 ≤ (partition i).tpakt ∧ (partition i).tpakt ≤ (partition i).tp.sum := by
  have hsplit := C08_ev_plus_tr_eq_pet i h
  have heta := C08_eta_le_evmax i h
  cases hc : i.crop
  · have h0 : (partition i).tp.sum = 0 ∧ (partition i).tpakt = 0 := by
      unfold partition
      simp only [hc, Bool.false_eq_true, if_false]
      exact ⟨by simp, trivial⟩
    have hpn := C08_pet_nonneg i h
    rw [h0.1, h0.2]
    exact ⟨by linarith [heta.2.1, heta.2.2], le_refl _, le_refl _⟩
  · have htot := C08_redistribution_total_le i h hc
    have hcs := capSplit_nonneg true i.verdu0 i.elai h.elai0 h.elai1
    have hl := lured_unit i
    have hact := mkLays_ok i.wurz i.grw i.wg i.wmin (nfk i.regen i.dz i.wg i.wmin i.wnor) i.wudich 1 h.wudich
    have hu := uptake_spec i.dz i.grw (capSplit true i.verdu0 i.elai).2.2 (lured i).1 i.wurz _ hact h.dz hcs.2.2.1 hl.1
    have hak : 0 ≤ (partition i).tpakt ∧ (partition i).tpakt ≤ (partition i).tp.sum := by
      unfold partition
      simp only [hc, if_true]
      exact ⟨hu.2.2.2.1, hu.2.2.2.2⟩
    exact ⟨by linarith [htot.1, htot.2.1, htot.2.2, heta.2.1], hak.1, hak.2⟩

/-- **Stress ratios in [0,1].** TRREL and ETREL handed to the crop model lie in [0,1] (where the
code keeps the previous value, provided that one did). -/
theorem C08_trrel_etrel_unit (i : In ℚ) (h : WF i)
    (ht : 0 ≤ i.trrelPrev ∧ i.trrelPrev ≤ 1) (he : 0 ≤ i.etrelPrev ∧ i.etrelPrev ≤ 1) :
    (0 ≤ (partition i).trrel ∧ (partition i).trrel ≤ 1) ∧
    (0 ≤ (partition i).etrel ∧ (partition i).etrel ≤ 1) := by
  have hact := C08_actual_le_potential i h
  have htot := C08_redistribution_total_le i h
  have heta := C08_eta_le_evmax i h
  have hpn := C08_pet_nonneg i h
  cases hc : i.crop
  · unfold partition
    simp only [hc, Bool.false_eq_true, if_false]
    exact ⟨⟨by norm_num, le_refl _⟩, he⟩
  · have htot' := htot hc
    -- name the quantities, then unfold the two ratio definitions
    have e1 : (partition i).trrel = if 0 < (partition i).tramax then (partition i).tpakt / (partition i).tramax else i.trrelPrev := by
      unfold partition; simp only [hc, if_true]
    have e2 : (partition i).etrel =
        if 1 < (if 0 < (partition i).verdu then ((partition i).tpakt + (partition i).eta) / (partition i).verdu else 1) then 1
        else (if 0 < (partition i).verdu then ((partition i).tpakt + (partition i).eta) / (partition i).verdu else 1) := by
      unfold partition; simp only [hc, if_true]
    rw [e1, e2]
    constructor
    · split_ifs with hp
      · refine ⟨div_nonneg hact.2.1 hp.le, ?_⟩
        rw [div_le_one hp]
        linarith [hact.2.2, htot'.1, htot'.2.1, htot'.2.2]
      · exact ht
    · have hx : 0 ≤ (if 0 < (partition i).verdu then ((partition i).tpakt + (partition i).eta) / (partition i).verdu else 1) := by
        split_ifs with hp
        · exact div_nonneg (by linarith [hact.2.1, heta.1]) hp.le
        · norm_num
      generalize (if 0 < (partition i).verdu then ((partition i).tpakt + (partition i).eta) / (partition i).verdu else 1) = x at hx
      split_ifs with h1
      · exact ⟨by norm_num, le_refl _⟩
      · exact ⟨hx, not_lt.mp h1⟩

/-- **Uptake ≤ plant-available water.** After the limit applied by the water routine in the first
sub-step of the day (water.go:815-825) the uptake of a layer is at most the water above the
wilting point, and zero when the layer is drier than that. -/
theorem C08_tp_le_available (dz : ℚ) : ∀ (tp wg wmin : List ℚ) (j : ℕ) (t g m : ℚ),
    (Water.limitTp dz tp wg wmin)[j]? = some t → wg[j]? = some g → wmin[j]? = some m →
    t ≤ max 0 ((g - m) * dz) := by
  intro tp
  induction tp with
  | nil => intro wg wmin j t g m h; simp [Water.limitTp] at h
  | cons x xs ih =>
    intro wg wmin j t g m h hg hm
    cases wg with
    | nil => simp [Water.limitTp] at h
    | cons g0 gs =>
      cases wmin with
      | nil => simp [Water.limitTp] at h
      | cons m0 ms =>
        cases j with
        | zero =>
          simp only [Water.limitTp, List.getElem?_cons_zero, Option.some.injEq] at h hg hm
          subst hg hm
          rw [← h]
          split_ifs with h1 h2
          · exact le_max_left _ _
          · exact le_max_right _ _
          · exact le_trans (not_lt.mp h1) (le_max_right _ _)
        | succ j =>
          simp only [Water.limitTp, List.getElem?_cons_succ] at h hg hm
          exact ih gs ms j t g m h hg hm

/-! ### the floor engaged: a bare-soil day on which the method's formula is negative -/

/-- A bare-soil day on which the formula of the chosen method returns −0.1 mm (Turc-Wendling at
an air temperature below −22 °C, or an ET0 column carrying a negative sentinel). Before the
repair (no floor) this day had a negative potential ET, a negative actual evaporation and a
positive surface flux. -/
def frostDay : In ℚ :=
  { dz := 10, dt := 1, dtIdx := 1, crop := false, verdu0 := -1 / 100, elai := 1, regen := 0,
    wg := [0.25, 0.25], w0 := 0.3, wmin := [0.1, 0.1], wnor := [0.3, 0.3], expc := [0.7, 0.4],
    wudich := [0, 0], wurz := 0, grw := 99, p0 := 0.4, p1 := 0.4, p2 := 0, g0 := 0.25, g1 := 0.25, g2 := 0,
    lukrit := 0, lumday := 0, trrelPrev := 1, etrelPrev := 1 }

example : WF frostDay ∧ frostDay.verdu0 < 0 ∧ (partition frostDay).verdu = 0 ∧ (partition frostDay).eta = 0 ∧
    (partition frostDay).fluss0 = 0 := by
  refine ⟨⟨by norm_num [frostDay], by norm_num [frostDay], by norm_num [frostDay], ?_, by norm_num [frostDay]⟩,
    by norm_num [frostDay], ?_, ?_, ?_⟩
  · intro d hd; simp [frostDay] at hd; rcases hd with rfl | rfl <;> norm_num
  all_goals
    simp only [partition, frostDay, capSplit, proz, redev, List.headD_cons, Bool.false_eq_true, if_false]
    norm_num

/-! ### non-vacuity: a concrete day under a crop satisfying every hypothesis used above -/

def cropDay : In ℚ :=
  { dz := 10, dt := 1, dtIdx := 1, crop := true, verdu0 := 0.5, elai := 0.4, regen := 0,
    wg := [0.12, 0.25, 0.28], w0 := 0.3, wmin := [0.1, 0.1, 0.1], wnor := [0.3, 0.3, 0.3], expc := [0.7, 0.4, 0.2],
    wudich := [2, 1, 0.5], wurz := 3, grw := 2, p0 := 0.4, p1 := 0.4, p2 := 0.4, g0 := 0.12, g1 := 0.25, g2 := 0.28,
    lukrit := 0.08, lumday := 1, trrelPrev := 1, etrelPrev := 1 }

example : WF cropDay ∧ cropDay.crop = true ∧
    (0 ≤ cropDay.trrelPrev ∧ cropDay.trrelPrev ≤ 1) ∧ (0 ≤ cropDay.etrelPrev ∧ cropDay.etrelPrev ≤ 1) := by
  refine ⟨⟨by norm_num [cropDay], by norm_num [cropDay], by norm_num [cropDay], ?_, by norm_num [cropDay]⟩,
    rfl, by norm_num [cropDay], by norm_num [cropDay]⟩
  intro d hd; simp [cropDay] at hd; rcases hd with rfl | rfl | rfl <;> norm_num

/-- the third layer of `cropDay` lies below the groundwater table (GRW = 2 < 3 = WURZ) -/
example : minRootGw cropDay.wurz cropDay.grw < (((2 + 1 : ℕ)) : ℚ) := by
  have h3 : (Conv.ofNat cropDay.wurz : ℚ) = 3 := by show ((3 : ℕ) : ℚ) = 3; norm_num
  have hg : cropDay.grw = 2 := rfl
  unfold minRootGw
  rw [h3, hg]
  norm_num

/-- hypotheses of `C08_tp_le_available` are satisfiable with the limiter engaged -/
example : (Water.limitTp (10 : ℚ) [0.5] [0.12] [0.1])[0]? = some (((0.12 : ℚ) - 0.1) * 10) := by
  simp only [Water.limitTp]; norm_num

end Hermes.Evatra
