/-
Model of the weather bookkeeping of the day loop of `Run` (hermes/run.go: initial load of the first
year, day counter / year roll-over / reload at the top of the loop body, init.go:10 start index),
as the code is: the errors of `WetterK` and `LoadYear` end the run, and the year counter leaves a
year only when its weather reaches the last day of that calendar year.

`tagNum` is `g.TAG.Num` = `g.TAG.Index + 1` (day of the year, 1-based), `j` is `g.J` (year − 1900),
`jtag` is `g.JTAG`, `g` the global day arrays (`g.TEMP[0..365]` … as one payload per slot).
`none` = the run ends with an error. Core Lean only; executable (driver ops `dayloop.*`).
-/
import HermesModel.Weather
import HermesModel.Calendar
namespace Hermes.DayLoop
open Hermes.Weather

/-- where the weather comes from -/
inductive Source (π : Type) where
  /-- layouts 1 and 2: one file read once into `cap` year slots -/
  | multi (cap : Nat)
  /-- layout 0: one file per year, read into slot 0 at every year start (`none` = no such file) -/
  | perYear (files : Nat → Option (List (Nat × π)))

structure DState (π : Type) where
  zeit : Nat
  tagNum : Nat
  j : Nat
  jtag : Nat
  g : List (Option π)
  store : Store π

/-- `LoadYear` as called by `Run`: on success `JTAG` and the first `days` entries of the global
arrays change; its error is returned by `Run`. -/
def applyLoad {π : Type} (st : DState π) (cap : Nat) : Option (DState π) :=
  match loadYear st.store cap (1900 + st.j) with
  | some (i, days) => some { st with jtag := days, g := gLoad st.g st.store i days }
  | none => none

/-- get the weather of year `1900 + J` (first year before the loop, later years on day 1) -/
def reload {π : Type} (src : Source π) (st : DState π) : Option (DState π) :=
  match src with
  | .multi cap => applyLoad st cap
  | .perYear files =>
    let r := readYearFile (1900 + st.j) st.store (files (1900 + st.j))
    if r.2 = YStatus.ok then applyLoad { st with store := r.1 } 1 else none   -- WetterK's error is returned

/-- top of the loop body: advance the day counter; leave the year only if its weather is complete,
else error; reload on day 1. -/
def advanceDay {π : Type} (src : Source π) (st : DState π) : Option (DState π) :=
  let t := st.tagNum + 1
  if t > st.jtag then
    if st.jtag < daysInYear (1900 + st.j) then none
    else reload src { st with j := st.j + 1, tagNum := 1 }
  else if t = 1 then reload src { st with tagNum := t }
  else some { st with tagNum := t }

/-- what a simulated day sees: ZEIT, J, TAG.Num, JTAG and the payload in slot TAG.Index -/
structure DayOut (π : Type) where
  zeit : Nat
  j : Nat
  tagNum : Nat
  jtag : Nat
  val : Option π

def dayOut {π : Type} (st : DState π) : DayOut π :=
  { zeit := st.zeit, j := st.j, tagNum := st.tagNum, jtag := st.jtag, val := st.g.getD (st.tagNum - 1) none }

/-- `n` passes of the loop body from the state before the pass of day `st.zeit`;
`none` = one of them returned an error. -/
def runDays {π : Type} (src : Source π) : Nat → DState π → Option (List (DayOut π))
  | 0, _ => some []
  | n + 1, st =>
    match advanceDay src st with
    | none => none
    | some st1 =>
      match runDays src n { st1 with zeit := st1.zeit + 1 } with
      | none => none
      | some ds => some (dayOut st1 :: ds)

/-- State before the first pass: `J = ANJAHR − 1900`, first year loaded (an error ends the run),
`TAG.Index = ITAG − 2` (init.go:10), i.e. `tagNum = ITAG − 1`. -/
def initState {π : Type} (src : Source π) (store : Store π) (anjahr beginn itag : Nat) : Option (DState π) :=
  let st0 : DState π := { zeit := beginn, tagNum := 0, j := anjahr - 1900, jtag := 0, g := List.replicate 366 none, store := store }
  match reload src st0 with
  | none => none
  | some st1 => some { st1 with tagNum := itag - 1 }

/-- First statement of the loop body on the first simulated day (run.go "verify start year matches
beginn year"): the year of the calendar date of BEGINN must be the year `1900 + J` the arrays were
loaded for (`J = StartYear − 1900` at that point); otherwise the run returns an error. -/
def startYearOk {π : Type} (st : DState π) : Bool :=
  match Hermes.Calendar.kalenderDate st.zeit with
  | some (y, _, _) => y == 1900 + st.j
  | none => false          -- KalenderDate runs off its month table (day numbers below 1): panic

/-- The loop from the state `initState` built: no pass for an empty window, else the start-year
test, then the passes. -/
def runLoop {π : Type} (src : Source π) (ndays : Nat) (st : DState π) : Option (List (DayOut π)) :=
  if ndays = 0 then some [] else if startYearOk st then runDays src ndays st else none

/-- Whole run with a multi-year file (layouts 1, 2). -/
def runMulti {π : Type} (recs : List (Rec π)) (anjahr cap beginn itag ndays : Nat) : Option (List (DayOut π)) :=
  match readMulti anjahr cap recs with
  | none => none
  | some ms =>
    match initState (.multi cap) ms.store anjahr beginn itag with
    | none => none
    | some st => runLoop (.multi cap) ndays st

/-- Whole run with one file per year (layout 0). -/
def runPerYear {π : Type} (files : Nat → Option (List (Nat × π))) (anjahr beginn itag ndays : Nat) : Option (List (DayOut π)) :=
  match initState (.perYear files) {} anjahr beginn itag with
  | none => none
  | some st => runLoop (.perYear files) ndays st

end Hermes.DayLoop
