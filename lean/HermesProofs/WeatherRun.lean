/-
Composition of reader alignment, `LoadYear` and the day loop over a whole run (lemmas for
`C04_weather_of_day` in HermesProps/C04.lean): for a source that delivers, at every (re)load of a
covered year, the records of that year in the slots of their day of the year, every simulated day
consumes the record of the calendar date of ZEIT.  Induction over the simulated days, across year
changes.  Core Lean only.
-/
import HermesProofs.Weather
import HermesProofs.WeatherReaders
namespace Hermes.Weather
open Hermes.Calendar Hermes.DayLoop

variable {π : Type}

/-! ### day numbers and (year, day of year) -/

/-- day `doy` of year `1900 + j` has day number `z` (1901 … 2099) -/
def IsDay (z j doy : Nat) : Prop :=
  1 ≤ j ∧ j ≤ 199 ∧ 1 ≤ doy ∧ doy ≤ diy j ∧ z + 1 = masdat j 1 1 + doy

theorem diy_ge (j : Nat) : 365 ≤ diy j := by unfold diy; split <;> omega
theorem diy_le (j : Nat) : diy j ≤ 366 := by unfold diy; split <;> omega
theorem daysInYear_le (y : Nat) : daysInYear y ≤ 366 := by unfold daysInYear; split <;> omega

/-- `KalenderDate` of a day number in terms of (year, day of year) -/
theorem isDay_kalender {z j doy : Nat} (h : IsDay z j doy) :
    ∃ mon tg, ValidDate j mon tg ∧ kalenderDate z = some (j + 1900, mon, tg) ∧ ztdat j mon tg = doy := by
  obtain ⟨h1, h2, h3, h4, h5⟩ := h
  obtain ⟨mon, tg, hv, hzt, hm⟩ := date_of_doy j doy h1 h2 h3 h4
  refine ⟨mon, tg, hv, ?_, hzt⟩
  have e : masdat j mon tg = z := by omega
  rw [← e]
  obtain ⟨a, b, c, d', e', f⟩ := hv
  exact kalender_masdat_core j mon tg a b c d' e' f

/-- a valid date as (year, day of year) of its day number -/
theorem isDay_of_date {yr mon tg : Nat} (h : ValidDate yr mon tg) : IsDay (masdat yr mon tg) yr (ztdat yr mon tg) := by
  obtain ⟨hy1, hy2, hm1, hm2, ht1, ht2⟩ := h
  obtain ⟨b1, b2⟩ := doy_bound yr mon tg hm1 hm2 ht1 ht2
  refine ⟨hy1, hy2, b1, ?_, ?_⟩
  · unfold ztdat diy; split at b2 <;> rename_i hl <;> simp [hl] <;> omega
  · rw [masdat_jan1]; unfold masdat ztdat; omega

/-- a day number has one (year, day of year) -/
theorem isDay_unique {z j doy j' doy' : Nat} (h : IsDay z j doy) (h' : IsDay z j' doy') : j = j' ∧ doy = doy' := by
  obtain ⟨mon, tg, _, hk, hz⟩ := isDay_kalender h
  obtain ⟨mon', tg', _, hk', hz'⟩ := isDay_kalender h'
  rw [hk] at hk'
  simp only [Option.some.injEq, Prod.mk.injEq] at hk'
  obtain ⟨a, b, c⟩ := hk'
  have : j = j' := by omega
  subst this; subst b; subst c
  exact ⟨rfl, by rw [← hz, ← hz']⟩

/-- later day number, not an earlier year -/
theorem isDay_year_mono {z j doy z' j' doy' : Nat} (h : IsDay z j doy) (h' : IsDay z' j' doy') (hz : z ≤ z') : j ≤ j' := by
  obtain ⟨a1, a2, a3, a4, a5⟩ := h
  obtain ⟨b1, b2, b3, b4, b5⟩ := h'
  rw [masdat_jan1] at a5 b5
  unfold diy at a4 b4
  split at a4 <;> split at b4 <;> omega

/-! ### what a weather source has to deliver, and the day loop on such a source -/

/-- One (re)load of year `y`: no error, `JTAG = len y`, slot `t` of the day arrays holds `W y (t + 1)`
for every day the input has; `Inv` is what stays true of the per-year arrays. -/
def ReloadOk (src : Source π) (Inv : Store π → Prop) (len : Nat → Nat) (W : Nat → Nat → Option π) (y : Nat) : Prop :=
  ∀ st : DState π, Inv st.store → 1900 + st.j = y →
    ∃ st', reload src st = some st' ∧ Inv st'.store ∧ st'.jtag = len y ∧
      ∀ t, t < len y → st'.g.getD t none = W y (t + 1)

/-- state before a pass of the loop body: yesterday was day `tagNum` of the loaded year -/
structure Good (Inv : Store π → Prop) (len : Nat → Nat) (W : Nat → Nat → Option π) (st : DState π) : Prop where
  inv : Inv st.store
  zeit : st.zeit = masdat st.j 1 1 + st.tagNum
  j1 : 1 ≤ st.j
  j2 : st.j ≤ 199
  jtag : st.jtag = len (1900 + st.j)
  tag : st.tagNum ≤ st.jtag
  lenle : st.jtag ≤ diy st.j
  g : ∀ t, t < st.jtag → st.g.getD t none = W (1900 + st.j) (t + 1)

/-- the input has every simulated day: its year is available (`Y`) and the day lies within the days
the input holds for that year -/
def Covered (Y : Nat → Prop) (len : Nat → Nat) (z0 n : Nat) : Prop :=
  ∀ k, k < n → ∀ j doy, IsDay (z0 + k) j doy → Y (1900 + j) ∧ doy ≤ len (1900 + j)

/-- one pass of the loop body on a covered day -/
theorem advanceDay_good (src : Source π) (Inv : Store π → Prop) (len : Nat → Nat) (W : Nat → Nat → Option π)
    (Y : Nat → Prop) (hsrc : ∀ y, Y y → ReloadOk src Inv len W y)
    (hlen : ∀ j, 1 ≤ j → j ≤ 199 → Y (1900 + j) → len (1900 + j) ≤ diy j)
    (st : DState π) (hg : Good Inv len W st)
    (hcov : ∀ j doy, IsDay st.zeit j doy → Y (1900 + j) ∧ doy ≤ len (1900 + j))
    (hend : st.zeit + 1 ≤ 72685) :
    ∃ st1, advanceDay src st = some st1 ∧ st1.zeit = st.zeit ∧ IsDay st.zeit st1.j st1.tagNum ∧
      Good Inv len W { st1 with zeit := st1.zeit + 1 } ∧
      (dayOut st1).val = W (1900 + st1.j) st1.tagNum := by
  obtain ⟨hinv, hz, hj1, hj2, hjt, htag, hle, hgW⟩ := hg
  unfold advanceDay
  simp only
  by_cases h1 : st.tagNum + 1 > st.jtag
  · -- the day counter leaves the year
    have hfull : st.tagNum = diy st.j ∧ st.jtag = diy st.j := by
      by_cases hle' : st.tagNum + 1 ≤ diy st.j
      · have hd : IsDay st.zeit st.j (st.tagNum + 1) := ⟨hj1, hj2, by omega, hle', by omega⟩
        have := (hcov _ _ hd).2
        omega
      · omega
    have h2 : ¬ st.jtag < daysInYear (1900 + st.j) := by rw [daysInYear_eq_diy st.j hj1 hj2]; omega
    rw [if_pos h1, if_neg h2]
    have hjn : st.j + 1 ≤ 199 := by
      have := masdat_jan1 st.j
      have := diy_ge st.j
      omega
    have hd : IsDay st.zeit (st.j + 1) 1 :=
      ⟨by omega, hjn, Nat.le_refl _, diy_pos _, by rw [masdat_next_year st.j hj1]; omega⟩
    obtain ⟨hY, hl1⟩ := hcov _ _ hd
    obtain ⟨st', hr, hinv', hjt', hgW'⟩ := hsrc _ hY { st with j := st.j + 1, tagNum := 1 } hinv rfl
    obtain ⟨ez, et, ej⟩ := reload_some hr
    simp only at ez et ej
    refine ⟨st', hr, ez, by rw [ej, et]; exact hd, ?_, ?_⟩
    · refine ⟨hinv', ?_, ?_, ?_, ?_, ?_, ?_, ?_⟩
      · show st'.zeit + 1 = masdat st'.j 1 1 + st'.tagNum
        rw [ez, ej, et]; exact hd.2.2.2.2
      · show 1 ≤ st'.j
        omega
      · show st'.j ≤ 199
        omega
      · show st'.jtag = len (1900 + st'.j)
        rw [ej]; exact hjt'
      · show st'.tagNum ≤ st'.jtag
        rw [et, hjt']; exact hl1
      · show st'.jtag ≤ diy st'.j
        rw [ej, hjt']; exact hlen _ (by omega) hjn hY
      · show ∀ t, t < st'.jtag → st'.g.getD t none = W (1900 + st'.j) (t + 1)
        intro t ht
        rw [ej]; exact hgW' t (by rw [← hjt']; exact ht)
    · show st'.g.getD (st'.tagNum - 1) none = W (1900 + st'.j) st'.tagNum
      rw [et, ej]
      exact hgW' 0 (by omega)
  · rw [if_neg h1]
    by_cases h3 : st.tagNum + 1 = 1
    · -- day 1 of the loaded year: the year is loaded again
      rw [if_pos h3]
      have hd : IsDay st.zeit st.j 1 := ⟨hj1, hj2, Nat.le_refl _, diy_pos _, by omega⟩
      obtain ⟨hY, hl1⟩ := hcov _ _ hd
      obtain ⟨st', hr, hinv', hjt', hgW'⟩ := hsrc _ hY { st with tagNum := st.tagNum + 1 } hinv rfl
      obtain ⟨ez, et, ej⟩ := reload_some hr
      simp only at ez et ej
      have et1 : st'.tagNum = 1 := by omega
      refine ⟨st', hr, ez, by rw [ej, et1]; exact hd, ?_, ?_⟩
      · refine ⟨hinv', ?_, ?_, ?_, ?_, ?_, ?_, ?_⟩
        · show st'.zeit + 1 = masdat st'.j 1 1 + st'.tagNum
          rw [ez, ej, et1]; exact hd.2.2.2.2
        · show 1 ≤ st'.j
          omega
        · show st'.j ≤ 199
          omega
        · show st'.jtag = len (1900 + st'.j)
          rw [ej]; exact hjt'
        · show st'.tagNum ≤ st'.jtag
          rw [et1, hjt']; exact hl1
        · show st'.jtag ≤ diy st'.j
          rw [ej, hjt']; exact hlen _ hj1 hj2 hY
        · show ∀ t, t < st'.jtag → st'.g.getD t none = W (1900 + st'.j) (t + 1)
          intro t ht
          rw [ej]; exact hgW' t (by rw [← hjt']; exact ht)
      · show st'.g.getD (st'.tagNum - 1) none = W (1900 + st'.j) st'.tagNum
        rw [et1, ej]
        exact hgW' 0 (by omega)
    · -- the next day of the loaded year
      rw [if_neg h3]
      have hd : IsDay st.zeit st.j (st.tagNum + 1) := ⟨hj1, hj2, by omega, by omega, by omega⟩
      refine ⟨{ st with tagNum := st.tagNum + 1 }, rfl, rfl, hd, ?_, ?_⟩
      · refine ⟨hinv, ?_, hj1, hj2, hjt, ?_, hle, hgW⟩
        · show st.zeit + 1 = masdat st.j 1 1 + (st.tagNum + 1)
          omega
        · show st.tagNum + 1 ≤ st.jtag
          omega
      · show st.g.getD (st.tagNum + 1 - 1) none = W (1900 + st.j) (st.tagNum + 1)
        have := hgW st.tagNum (by omega)
        simpa using this

/-- **The day loop on a covered period.** From a state in step with the calendar whose day arrays
hold the loaded year, `n` passes return no error, visit the day numbers ZEIT, ZEIT+1, … and each
consumes `W (year) (day of year)` of its own date. -/
theorem runDays_good (src : Source π) (Inv : Store π → Prop) (len : Nat → Nat) (W : Nat → Nat → Option π)
    (Y : Nat → Prop) (hsrc : ∀ y, Y y → ReloadOk src Inv len W y)
    (hlen : ∀ j, 1 ≤ j → j ≤ 199 → Y (1900 + j) → len (1900 + j) ≤ diy j) :
    ∀ (n : Nat) (st : DState π), Good Inv len W st → Covered Y len st.zeit n → st.zeit + n ≤ 72685 →
      ∃ days, runDays src n st = some days ∧ days.map (·.zeit) = List.range' st.zeit n ∧
        ∀ d ∈ days, IsDay d.zeit d.j d.tagNum ∧ d.val = W (1900 + d.j) d.tagNum ∧
          d.tagNum ≤ len (1900 + d.j) ∧ d.jtag = len (1900 + d.j) := by
  intro n
  induction n with
  | zero => intro st _ _ _; exact ⟨[], rfl, rfl, by simp⟩
  | succ k ih =>
    intro st hg hcov hend
    have hc0 : ∀ j doy, IsDay st.zeit j doy → Y (1900 + j) ∧ doy ≤ len (1900 + j) := by
      intro j doy hd
      exact hcov 0 (by omega) j doy (by simpa using hd)
    obtain ⟨st1, hadv, hz1, hday, hg1, hval⟩ := advanceDay_good src Inv len W Y hsrc hlen st hg hc0 (by omega)
    have hcov' : Covered Y len ({ st1 with zeit := st1.zeit + 1 } : DState π).zeit k := by
      intro i hi j doy hd
      refine hcov (i + 1) (by omega) j doy ?_
      have e : st.zeit + (i + 1) = st1.zeit + 1 + i := by omega
      rw [e]; exact hd
    obtain ⟨ds, hrest, hzs, hall⟩ := ih { st1 with zeit := st1.zeit + 1 } hg1 hcov' (by show st1.zeit + 1 + k ≤ 72685; omega)
    refine ⟨dayOut st1 :: ds, by simp only [runDays, hadv, hrest], ?_, ?_⟩
    · simp only [List.map_cons, List.range'_succ]
      rw [hzs]
      show st1.zeit :: List.range' (st1.zeit + 1) k = st.zeit :: List.range' (st.zeit + 1) k
      rw [hz1]
    · intro d hd
      rcases List.mem_cons.mp hd with rfl | hd'
      · refine ⟨by show IsDay st1.zeit st1.j st1.tagNum; rw [hz1]; exact hday, hval, ?_, ?_⟩
        · show st1.tagNum ≤ len (1900 + st1.j)
          have := hg1.tag; have := hg1.jtag
          simp only at *
          omega
        · exact hg1.jtag
      · exact hall d hd'

/-! ### gap-free series: years, uniqueness -/

/-- a gap-free series has a record of every year between two of its records -/
theorem gapFree_year_between_head (rest : List (Rec π)) :
    ∀ (l : Rec π), gapFreeB (l :: rest) = true → ∀ q ∈ l :: rest, ∀ y, l.year ≤ y → y ≤ q.year →
      ∃ r ∈ l :: rest, r.year = y := by
  induction rest with
  | nil =>
    intro l _ q hq y h1 h2
    simp only [List.mem_singleton] at hq
    subst hq
    exact ⟨q, List.mem_cons_self .., by omega⟩
  | cons r rest' ih =>
    intro l hgf q hq y h1 h2
    simp only [gapFreeB, Bool.and_eq_true] at hgf
    obtain ⟨hn, hg'⟩ := hgf
    have hc := nextDayB_cases l r hn
    by_cases hy : y = l.year
    · exact ⟨l, List.mem_cons_self .., hy.symm⟩
    · have hry : r.year ≤ y := by rcases hc with ⟨a, _⟩ | ⟨a, _, _⟩ <;> omega
      rcases List.mem_cons.mp hq with hql | hq'
      · subst hql; omega
      · obtain ⟨r', hr', e⟩ := ih r hg' q hq' y hry h2
        exact ⟨r', List.mem_cons_of_mem _ hr', e⟩

theorem gapFree_tail {l : Rec π} {rest : List (Rec π)} (h : gapFreeB (l :: rest) = true) : gapFreeB rest = true := by
  cases rest with
  | nil => rfl
  | cons b rest' => simp only [gapFreeB, Bool.and_eq_true] at h; exact h.2

theorem gapFree_year_between (recs : List (Rec π)) (hg : gapFreeB recs = true) :
    ∀ a ∈ recs, ∀ b ∈ recs, ∀ y, a.year ≤ y → y ≤ b.year → ∃ r ∈ recs, r.year = y := by
  induction recs with
  | nil => intro a ha; simp at ha
  | cons l rest ih =>
    intro a ha b hb y h1 h2
    rcases List.mem_cons.mp ha with hal | ha'
    · subst hal; exact gapFree_year_between_head rest a hg b hb y h1 h2
    · rcases List.mem_cons.mp hb with hbl | hb'
      · subst hbl
        have := gapFree_later b rest hg a ha'
        exact ⟨b, List.mem_cons_self .., by omega⟩
      · obtain ⟨r, hr, e⟩ := ih (gapFree_tail hg) a ha' b hb' y h1 h2
        exact ⟨r, List.mem_cons_of_mem _ hr, e⟩

/-- in a gap-free series a date occurs once: two records with the same date are the same line -/
theorem gapFree_date_unique (recs : List (Rec π)) (hg : gapFreeB recs = true) :
    ∀ a ∈ recs, ∀ b ∈ recs, a.year = b.year → a.doy = b.doy → a = b := by
  induction recs with
  | nil => intro a ha; simp at ha
  | cons l rest ih =>
    intro a ha b hb hy hd
    rcases List.mem_cons.mp ha with hal | ha' <;> rcases List.mem_cons.mp hb with hbl | hb'
    · rw [hal, hbl]
    · subst hal; have := gapFree_later a rest hg b hb'; omega
    · subst hbl; have := gapFree_later b rest hg a ha'; omega
    · exact ih (gapFree_tail hg) a ha' b hb' hy hd

/-- the slot-0 year of the multi-year readers is the start year as soon as the series has a record
of the start year -/
theorem firstYear_eq (sy : Nat) (recs : List (Rec π)) (hg : gapFreeB recs = true)
    (h : ∃ r ∈ recs, r.year = sy) : firstYear sy recs = sy := by
  induction recs with
  | nil => obtain ⟨r, hr, _⟩ := h; simp at hr
  | cons f rest ih =>
    obtain ⟨r, hr, hy⟩ := h
    by_cases hs : f.year < sy
    · simp only [firstYear, hs, if_true]
      rcases List.mem_cons.mp hr with hrf | hr'
      · subst hrf; omega
      · exact ih (gapFree_tail hg) ⟨r, hr', hy⟩
    · simp only [firstYear, hs, if_false]
      rcases List.mem_cons.mp hr with hrf | hr'
      · subst hrf; exact hy
      · have := gapFree_later f rest hg r hr'; omega

/-! ### `LoadYear` finds the slot of the year -/

theorem findYear_first (s : Store π) (year i0 : Nat) (hj : s.jarAt i0 = year) :
    ∀ (n a : Nat), a ≤ i0 → i0 < a + n → (∀ i, a ≤ i → i < i0 → s.jarAt i ≠ year) →
      findYear s year (List.range' a n) = some (i0, s.maxAt i0) := by
  intro n
  induction n with
  | zero => intro a h1 h2 _; omega
  | succ k ih =>
    intro a h1 h2 hf
    rw [List.range'_succ]
    simp only [findYear]
    by_cases he : s.jarAt a = year
    · have : a = i0 := by
        by_cases hne : a = i0
        · exact hne
        · exact absurd he (hf a (Nat.le_refl _) (by omega))
      subst this
      simp [he]
    · have hne : a ≠ i0 := by intro e; subst e; exact he hj
      rw [if_neg he]
      exact ih (a + 1) (by omega) (by omega) (fun i hi1 hi2 => hf i (by omega) hi2)

theorem loadYear_first (s : Store π) (cap year i0 : Nat) (hj : s.jarAt i0 = year) (hc : i0 < cap)
    (hf : ∀ i, i < i0 → s.jarAt i ≠ year) : loadYear s cap year = some (i0, s.maxAt i0) := by
  unfold loadYear
  rw [List.range_eq_range']
  exact findYear_first s year i0 hj cap 0 (by omega) (by omega) (fun i _ hi => hf i hi)

theorem gLoad_getD (g : List (Option π)) (s : Store π) (i days t : Nat) (ht : t < days) (ht2 : t < 366) :
    (gLoad g s i days).getD t none = s.get i t := by
  simp [gLoad, List.getD_eq_getElem?_getD, ht, ht2]

/-! ### the two kinds of source -/

/-- what the alignment theorem says about the arrays the multi-year readers return -/
def AlignedStore (recs : List (Rec π)) (sy cap : Nat) (s : Store π) : Prop :=
  ∀ r ∈ recs, sy ≤ r.year → r.year < sy + cap →
    s.get (r.year - sy) (r.doy - 1) = some r.val ∧ s.jarAt (r.year - sy) = r.year ∧
    r.doy ≤ s.maxAt (r.year - sy) ∧ ∃ q ∈ recs, q.year = r.year ∧ s.maxAt (r.year - sy) = q.doy

/-- the part of the alignment that `LoadYear` and the day counter use: `JAR` and `MaxYearDays` -/
def JarMax (recs : List (Rec π)) (sy cap : Nat) (s : Store π) : Prop :=
  ∀ r ∈ recs, sy ≤ r.year → r.year < sy + cap →
    s.jarAt (r.year - sy) = r.year ∧ r.doy ≤ s.maxAt (r.year - sy) ∧
    ∃ q ∈ recs, q.year = r.year ∧ s.maxAt (r.year - sy) = q.doy

theorem AlignedStore.jarMax {recs : List (Rec π)} {sy cap : Nat} {s : Store π} (h : AlignedStore recs sy cap s) :
    JarMax recs sy cap s := fun r hr h1 h2 => (h r hr h1 h2).2

/-- a year of the multi-year layouts that `LoadYear` can deliver -/
def MultiYear (recs : List (Rec π)) (sy cap : Nat) (y : Nat) : Prop :=
  sy ≤ y ∧ y < sy + cap ∧ ∃ r ∈ recs, r.year = y

/-- layouts 1 and 2: `LoadYear` on the aligned arrays -/
theorem reloadOk_multi (recs : List (Rec π)) (sy cap : Nat) (s : Store π)
    (hv : ∀ r ∈ recs, ValidRec r) (hg : gapFreeB recs = true) (hs : ∃ r ∈ recs, r.year = sy)
    (hA : JarMax recs sy cap s) (y : Nat) (hY : MultiYear recs sy cap y) :
    ReloadOk (.multi cap) (fun st => st = s) (fun y => s.maxAt (y - sy)) (fun y d => s.get (y - sy) (d - 1)) y := by
  obtain ⟨hy1, hy2, r, hr, hry⟩ := hY
  obtain ⟨r0, hr0, hr0y⟩ := hs
  intro st hst hyst
  obtain ⟨hjar, _, q, hq, hqy, hqm⟩ := hA r hr (by omega) (by omega)
  rw [hry] at hjar hqm
  have hfirst : ∀ i, i < y - sy → s.jarAt i ≠ y := by
    intro i hi
    obtain ⟨ri, hri, hriy⟩ := gapFree_year_between recs hg r0 hr0 r hr (sy + i) (by omega) (by omega)
    have := (hA ri hri (by omega) (by omega)).1
    rw [hriy] at this
    have e : sy + i - sy = i := by omega
    rw [e] at this
    omega
  have hload := loadYear_first s cap y (y - sy) hjar (by omega) hfirst
  have h366 : s.maxAt (y - sy) ≤ 366 := by
    rw [hqm]
    have := (hv q hq).2.2
    have := daysInYear_le q.year
    omega
  refine ⟨{ st with jtag := s.maxAt (y - sy), g := gLoad st.g st.store (y - sy) (s.maxAt (y - sy)) }, ?_, hst, rfl, ?_⟩
  · simp only [reload, applyLoad, hyst, hst, hload]
  · intro t ht
    have ht : t < s.maxAt (y - sy) := ht
    show (gLoad st.g st.store (y - sy) (s.maxAt (y - sy))).getD t none = s.get (y - sy) (t + 1 - 1)
    rw [gLoad_getD _ _ _ _ _ ht (by omega), hst]
    simp

/-- layout 0: `WetterK` on the year file with the lines of days 1 … n, then `LoadYear` of slot 0 -/
theorem reloadOk_perYear (files : Nat → Option (List (Nat × π))) (vals : Nat → List π) (y : Nat)
    (hf : files y = some (numberFrom 1 (vals y))) (hne : vals y ≠ []) (hn : (vals y).length ≤ daysInYear y) :
    ReloadOk (.perYear files) (fun _ => True) (fun y => (vals y).length) (fun y d => (vals y)[d - 1]?) y := by
  intro st _ hyst
  obtain ⟨a, b, c, d⟩ := readYearFile_aligned y st.store (vals y) hne hn
  have c' := c hne
  have hload : loadYear (readYearFile y st.store (some (numberFrom 1 (vals y)))).1 1 y = some (0, (vals y).length) := by
    rw [loadYear_first _ 1 y 0 b (by omega) (fun i hi => by omega), c']
  have h366 := daysInYear_le y
  let st1 : DState π := { st with store := (readYearFile y st.store (some (numberFrom 1 (vals y)))).1 }
  refine ⟨{ st1 with jtag := (vals y).length, g := gLoad st1.g st1.store 0 (vals y).length }, ?_, trivial, rfl, ?_⟩
  · simp only [reload, hyst, hf, a, if_true, applyLoad, hload]
    rfl
  · intro t ht
    have ht : t < (vals y).length := ht
    show (gLoad st.g _ 0 (vals y).length).getD t none = (vals y)[t + 1 - 1]?
    rw [gLoad_getD _ _ _ _ _ ht (by omega), d t ht]
    simp [ht]

/-! ### records and calendar dates -/

/-- `r` is a line of the series whose date is the calendar date (`KalenderDate`) of day number `z` -/
def RecordOfDay (recs : List (Rec π)) (z : Nat) (r : Rec π) : Prop :=
  r ∈ recs ∧ ∃ mon tg, kalenderDate z = some (r.year, mon, tg) ∧ ztdat (r.year - 1900) mon tg = r.doy

theorem recordOfDay_isDay {recs : List (Rec π)} {z : Nat} {r : Rec π} {j doy : Nat}
    (h : RecordOfDay recs z r) (hd : IsDay z j doy) : r.year = 1900 + j ∧ r.doy = doy := by
  obtain ⟨_, mon, tg, hk, hz⟩ := h
  obtain ⟨mon', tg', _, hk', hz'⟩ := isDay_kalender hd
  rw [hk] at hk'
  simp only [Option.some.injEq, Prod.mk.injEq] at hk'
  obtain ⟨a, b, c⟩ := hk'
  subst b; subst c
  have e : r.year - 1900 = j := by omega
  rw [e] at hz
  exact ⟨by omega, by rw [← hz, hz']⟩

/-- the calendar date of a day number in 1901 … 2099 is a valid date with that day number -/
theorem kalender_inv {z y mon tg : Nat} (h1 : 1 ≤ z) (h2 : z ≤ 72684) (hk : kalenderDate z = some (y, mon, tg)) :
    ValidDate (y - 1900) mon tg ∧ masdat (y - 1900) mon tg = z ∧ 1901 ≤ y := by
  obtain ⟨yr, mon', tg', hv, hm⟩ := masdat_surj z h1 h2
  have := kalender_masdat_core yr mon' tg' hv.1 hv.2.1 hv.2.2.1 hv.2.2.2.1 hv.2.2.2.2.1 hv.2.2.2.2.2
  rw [hm, hk] at this
  simp only [Option.some.injEq, Prod.mk.injEq] at this
  obtain ⟨a, b, c⟩ := this
  subst b; subst c
  have e : y - 1900 = yr := by omega
  rw [e]
  exact ⟨hv, hm, by have := hv.1; omega⟩

/-- day number of the date of a record -/
def dayNo (r : Rec π) : Nat := masdat (r.year - 1900) 1 1 + r.doy - 1

theorem isDay_dayNo (r : Rec π) (hv : ValidRec r) (h1 : 1901 ≤ r.year) (h2 : r.year ≤ 2099) :
    IsDay (dayNo r) (r.year - 1900) r.doy := by
  obtain ⟨_, a, b⟩ := hv
  have e : 1900 + (r.year - 1900) = r.year := by omega
  have := daysInYear_eq_diy (r.year - 1900) (by omega) (by omega)
  rw [e] at this
  refine ⟨by omega, by omega, a, by omega, ?_⟩
  unfold dayNo; omega

theorem recordOfDay_dayNo {recs : List (Rec π)} {z : Nat} {r : Rec π} (h1 : 1 ≤ z) (h2 : z ≤ 72684)
    (h : RecordOfDay recs z r) : dayNo r = z ∧ 1901 ≤ r.year := by
  obtain ⟨_, mon, tg, hk, hz⟩ := h
  obtain ⟨hv, hm, hy⟩ := kalender_inv h1 h2 hk
  have := (isDay_of_date hv).2.2.2.2
  rw [hm, hz] at this
  exact ⟨by unfold dayNo; omega, hy⟩

/-- a gap-free series has a record for every day between two of its records (head version) -/
theorem gapFree_day_between_head (rest : List (Rec π)) :
    ∀ (l : Rec π), gapFreeB (l :: rest) = true → (∀ r ∈ l :: rest, ValidRec r) → 1901 ≤ l.year →
      ∀ q ∈ l :: rest, q.year ≤ 2099 → ∀ z, dayNo l ≤ z → z ≤ dayNo q →
        ∃ r ∈ l :: rest, dayNo r = z ∧ 1901 ≤ r.year ∧ r.year ≤ q.year := by
  induction rest with
  | nil =>
    intro l _ _ hl q hq _ z h1 h2
    simp only [List.mem_singleton] at hq
    subst hq
    exact ⟨q, List.mem_cons_self .., by omega, hl, Nat.le_refl _⟩
  | cons r rest' ih =>
    intro l hgf hv hl q hq hq2 z h1 h2
    have hlater := gapFree_later l (r :: rest') hgf
    simp only [gapFreeB, Bool.and_eq_true] at hgf
    obtain ⟨hn, hg'⟩ := hgf
    have hc := nextDayB_cases l r hn
    have hlq : l.year ≤ q.year := by
      rcases List.mem_cons.mp hq with e | hq'
      · rw [e]; exact Nat.le_refl _
      · have := hlater q hq'; omega
    by_cases hz : z = dayNo l
    · exact ⟨l, List.mem_cons_self .., hz.symm, hl, hlq⟩
    · rcases List.mem_cons.mp hq with e | hq'
      · subst e; omega
      · have hrq : r.year ≤ q.year := by
          rcases List.mem_cons.mp hq' with e | hq''
          · rw [e]; exact Nat.le_refl _
          · have := gapFree_later r rest' hg' q hq''; omega
        have hnext : dayNo r = dayNo l + 1 := by
          have hvl := hv l (List.mem_cons_self ..)
          have hvr := hv r (List.mem_cons_of_mem _ (List.mem_cons_self ..))
          rcases hc with ⟨a, b⟩ | ⟨a, b, c⟩
          · unfold dayNo; rw [a, b]; have := hvl.2.1; omega
          · have e1 : r.year - 1900 = (l.year - 1900) + 1 := by omega
            have e2 : 1900 + (l.year - 1900) = l.year := by omega
            have hd := daysInYear_eq_diy (l.year - 1900) (by omega) (by omega)
            rw [e2] at hd
            unfold dayNo
            rw [e1, masdat_next_year (l.year - 1900) (by omega), b, c, hd]
            have := diy_pos (l.year - 1900)
            omega
        obtain ⟨r', hr', e, y1, y2⟩ := ih r hg' (fun x hx => hv x (List.mem_cons_of_mem _ hx))
          (by rcases hc with ⟨a, _⟩ | ⟨a, _, _⟩ <;> omega) q hq' hq2 z (by omega) h2
        exact ⟨r', List.mem_cons_of_mem _ hr', e, y1, y2⟩

theorem gapFree_day_between (recs : List (Rec π)) (hg : gapFreeB recs = true) (hv : ∀ r ∈ recs, ValidRec r) :
    ∀ a ∈ recs, ∀ b ∈ recs, 1901 ≤ a.year → a.year ≤ 2099 → 1901 ≤ b.year → b.year ≤ 2099 →
      ∀ z, dayNo a ≤ z → z ≤ dayNo b → ∃ r ∈ recs, dayNo r = z ∧ 1901 ≤ r.year ∧ r.year ≤ b.year := by
  induction recs with
  | nil => intro a ha; simp at ha
  | cons l rest ih =>
    intro a ha b hb ha1 ha2 hb1 hb2 z h1 h2
    rcases List.mem_cons.mp ha with hal | ha'
    · subst hal; exact gapFree_day_between_head rest a hg hv ha1 b hb hb2 z h1 h2
    · rcases List.mem_cons.mp hb with hbl | hb'
      · subst hbl
        -- b is the head and a a later line: its day number is larger
        exfalso
        have hl := gapFree_later b rest hg a ha'
        have da := isDay_dayNo a (hv a ha) ha1 ha2
        have db := isDay_dayNo b (hv b hb) hb1 hb2
        rcases hl with hy | ⟨hy, hd⟩
        · have := isDay_year_mono da db (by omega)
          omega
        · have e1 := da.2.2.2.2
          have e2 := db.2.2.2.2
          rw [hy] at e1
          omega
      · obtain ⟨r, hr, e, y1, y2⟩ := ih (gapFree_tail hg) (fun x hx => hv x (List.mem_cons_of_mem _ hx)) a ha' b hb'
          ha1 ha2 hb1 hb2 z h1 h2
        exact ⟨r, List.mem_cons_of_mem _ hr, e, y1, y2⟩

/-- **Covering by the end points.** A valid gap-free series that has the record of the first and of
the last simulated day has the record of every simulated day (years up to the last day's year). -/
theorem covered_of_endpoints (recs : List (Rec π)) (hv : ∀ r ∈ recs, ValidRec r) (hg : gapFreeB recs = true)
    (b n : Nat) (hb : 1 ≤ b) (hn : 0 < n) (hend : b + n ≤ 72685) (r0 rL : Rec π)
    (h0 : RecordOfDay recs b r0) (hL : RecordOfDay recs (b + (n - 1)) rL) :
    ∀ k, k < n → ∃ r, RecordOfDay recs (b + k) r ∧ r.year ≤ rL.year := by
  intro k hk
  obtain ⟨e0, y0⟩ := recordOfDay_dayNo hb (by omega) h0
  obtain ⟨eL, yL⟩ := recordOfDay_dayNo (by omega) (by omega) hL
  have hL2 : rL.year ≤ 2099 := by
    obtain ⟨_, mon, tg, hkk, _⟩ := hL
    have := (kalender_inv (by omega) (by omega) hkk).1.2.1
    omega
  have h02 : r0.year ≤ 2099 := by
    obtain ⟨_, mon, tg, hkk, _⟩ := h0
    have := (kalender_inv hb (by omega) hkk).1.2.1
    omega
  obtain ⟨r, hr, e, y1, y2⟩ := gapFree_day_between recs hg hv r0 h0.1 rL hL.1 y0 h02 yL hL2 (b + k) (by omega) (by omega)
  have hd := isDay_dayNo r (hv r hr) y1 (by omega)
  rw [e] at hd
  obtain ⟨mon, tg, _, hkal, hz⟩ := isDay_kalender hd
  have e2 : r.year - 1900 + 1900 = r.year := by omega
  rw [e2] at hkal
  exact ⟨r, ⟨hr, mon, tg, hkal, hz⟩, y2⟩

/-! ### the whole run -/

/-- the record of a covered day (year inside the allocated slots, not before the start year) -/
theorem covered_record (recs : List (Rec π)) (anjahr cap b it ndays : Nat) (hd0 : IsDay b (anjahr - 1900) it)
    (hcov : ∀ k, k < ndays → ∃ r, RecordOfDay recs (b + k) r ∧ r.year < anjahr + cap) :
    ∀ k, k < ndays → ∀ j doy, IsDay (b + k) j doy →
      ∃ r, RecordOfDay recs (b + k) r ∧ r.year = 1900 + j ∧ r.doy = doy ∧ r.year < anjahr + cap ∧ anjahr ≤ r.year := by
  intro k hk j doy hd
  obtain ⟨r, hr, hc⟩ := hcov k hk
  obtain ⟨e1, e2⟩ := recordOfDay_isDay hr hd
  have := isDay_year_mono hd0 hd (by omega)
  exact ⟨r, hr, e1, e2, hc, by omega⟩

/-- **The day loop of a multi-year layout on any per-year arrays with the aligned `JAR` /
`MaxYearDays`** (the arrays as read, or as rewritten in place by the normalisation passes): first
load, `ndays` passes; every day consumes slot `[year − StartYear][day of year − 1]` of the record of
its calendar date. -/
theorem multi_loop_on_store (recs : List (Rec π)) (anjahr cap smon stg ndays : Nat) (s : Store π)
    (hv : ∀ r ∈ recs, ValidRec r) (hg : GapFree recs)
    (hstart : ValidDate (anjahr - 1900) smon stg) (hn : 0 < ndays)
    (hend : masdat (anjahr - 1900) smon stg + ndays ≤ 72685)
    (hcov : ∀ k, k < ndays → ∃ r, RecordOfDay recs (masdat (anjahr - 1900) smon stg + k) r ∧ r.year < anjahr + cap)
    (hJ : JarMax recs anjahr cap s) :
    ∃ st days, initState (.multi cap) s anjahr (masdat (anjahr - 1900) smon stg) (ztdat (anjahr - 1900) smon stg) = some st ∧
      runLoop (.multi cap) ndays st = some days ∧
      days.map (·.zeit) = List.range' (masdat (anjahr - 1900) smon stg) ndays ∧
      ∀ d ∈ days, ∃ r, RecordOfDay recs d.zeit r ∧ r.year = 1900 + d.j ∧ r.doy = d.tagNum ∧ anjahr ≤ r.year ∧
        r.year < anjahr + cap ∧ d.val = s.get (r.year - anjahr) (r.doy - 1) := by
  have hd0 := isDay_of_date hstart
  generalize hbdef : masdat (anjahr - 1900) smon stg = b at *
  generalize hitdef : ztdat (anjahr - 1900) smon stg = it at *
  have hj0 : 1900 + (anjahr - 1900) = anjahr := by have := hstart.1; omega
  have hrec := covered_record recs anjahr cap b it ndays hd0 hcov
  obtain ⟨r0, hr0, hr0y, hr0d, _, _⟩ := hrec 0 hn (anjahr - 1900) it (by simpa using hd0)
  have hs : ∃ r ∈ recs, r.year = anjahr := ⟨r0, hr0.1, by omega⟩
  have hsrc := reloadOk_multi recs anjahr cap s hv hg hs hJ
  have hlen : ∀ j, 1 ≤ j → j ≤ 199 → MultiYear recs anjahr cap (1900 + j) → s.maxAt (1900 + j - anjahr) ≤ diy j := by
    intro j h1 h2 ⟨a1, a2, r, hr, hry⟩
    obtain ⟨_, _, q, hq, hqy, hqm⟩ := hJ r hr (by omega) (by omega)
    rw [hry] at hqm
    rw [hqm]
    have := (hv q hq).2.2
    rw [hqy, hry, daysInYear_eq_diy j h1 h2] at this
    exact this
  have hcovG : Covered (MultiYear recs anjahr cap) (fun y => s.maxAt (y - anjahr)) b ndays := by
    intro k hk j doy hd
    obtain ⟨r, hr, e1, e2, c1, c2⟩ := hrec k hk j doy hd
    refine ⟨⟨by omega, by omega, r, hr.1, e1⟩, ?_⟩
    have := (hJ r hr.1 c2 c1).2.1
    rw [e1, e2] at this
    exact this
  -- the first load
  have hY0 : MultiYear recs anjahr cap anjahr := by
    have := (hcovG 0 hn (anjahr - 1900) it (by simpa using hd0)).1
    rw [hj0] at this; exact this
  let st0 : DState π := { zeit := b, tagNum := 0, j := anjahr - 1900, jtag := 0, g := List.replicate 366 none, store := s }
  obtain ⟨st1, hr1, hinv1, hjt1, hg1⟩ := hsrc anjahr hY0 st0 rfl hj0
  have hjt1 : st1.jtag = s.maxAt (anjahr - anjahr) := hjt1
  obtain ⟨ez, et, ej⟩ := reload_some hr1
  have ez : st1.zeit = b := ez
  have ej : st1.j = anjahr - 1900 := ej
  have hinit : initState (.multi cap) s anjahr b it = some { st1 with tagNum := it - 1 } := by
    simp only [initState]
    rw [show reload (.multi cap) st0 = some st1 from hr1]
  have hit : it ≤ s.maxAt (anjahr - anjahr) := by
    have := (hcovG 0 hn (anjahr - 1900) it (by simpa using hd0)).2
    rw [hj0] at this; exact this
  have hgood : Good (fun st => st = s) (fun y => s.maxAt (y - anjahr))
      (fun y d => s.get (y - anjahr) (d - 1)) ({ st1 with tagNum := it - 1 } : DState π) := by
    obtain ⟨a1, a2, a3, a4, a5⟩ := hd0
    refine ⟨hinv1, ?_, ?_, ?_, ?_, ?_, ?_, ?_⟩
    · show st1.zeit = masdat st1.j 1 1 + (it - 1)
      rw [ez, ej]; omega
    · show 1 ≤ st1.j
      omega
    · show st1.j ≤ 199
      omega
    · show st1.jtag = s.maxAt (1900 + st1.j - anjahr)
      rw [ej, hj0]; exact hjt1
    · show it - 1 ≤ st1.jtag
      rw [hjt1]; omega
    · show st1.jtag ≤ diy st1.j
      rw [ej, hjt1]
      have := hlen (anjahr - 1900) a1 a2 (by rw [hj0]; exact hY0)
      rw [hj0] at this; exact this
    · show ∀ t, t < st1.jtag → st1.g.getD t none = s.get (1900 + st1.j - anjahr) (t + 1 - 1)
      intro t ht
      rw [ej, hj0]
      exact hg1 t (by show t < s.maxAt (anjahr - anjahr); rw [← hjt1]; exact ht)
  obtain ⟨days, hrun, hzs, hall⟩ := runDays_good (.multi cap) _ _ _ _ hsrc hlen ndays _ hgood
    (by show Covered _ _ st1.zeit ndays; rw [ez]; exact hcovG) (by show st1.zeit + ndays ≤ 72685; rw [ez]; exact hend)
  have hsy : startYearOk ({ st1 with tagNum := it - 1 } : DState π) = true := by
    obtain ⟨mon, tg, _, hk, _⟩ := isDay_kalender hd0
    unfold startYearOk
    show (match kalenderDate st1.zeit with | some (y, _, _) => y == 1900 + st1.j | none => false) = true
    rw [ez, hk, ej]
    simp; omega
  refine ⟨_, days, hinit, ?_, by rw [hzs]; show List.range' st1.zeit ndays = _; rw [ez], ?_⟩
  · have hnz : ¬ ndays = 0 := by omega
    simp only [runLoop, hnz, if_false, hsy, if_true]
    exact hrun
  · intro d hd
    obtain ⟨hday, hval, _, _⟩ := hall d hd
    have hmem : d.zeit ∈ List.range' b ndays := by
      have : d.zeit ∈ days.map (·.zeit) := List.mem_map_of_mem hd
      rw [hzs] at this
      have e : ({ st1 with tagNum := it - 1 } : DState π).zeit = b := ez
      rw [e] at this; exact this
    rw [List.mem_range'_1] at hmem
    obtain ⟨k, hk, e⟩ : ∃ k, k < ndays ∧ d.zeit = b + k := ⟨d.zeit - b, by omega, by omega⟩
    rw [e] at hday
    obtain ⟨r, hr, e1, e2, c1, c2⟩ := hrec k hk d.j d.tagNum hday
    rw [← e] at hr
    refine ⟨r, hr, e1, e2, c2, c1, ?_⟩
    rw [hval, e1, e2]

/-- **Multi-year layouts, whole run**: see `C04_weather_of_day`. -/
theorem runMulti_weather_of_day (recs : List (Rec π)) (anjahr cap smon stg ndays : Nat)
    (hv : ∀ r ∈ recs, ValidRec r) (hg : GapFree recs)
    (hstart : ValidDate (anjahr - 1900) smon stg) (hn : 0 < ndays)
    (hend : masdat (anjahr - 1900) smon stg + ndays ≤ 72685)
    (hcov : ∀ k, k < ndays → ∃ r, RecordOfDay recs (masdat (anjahr - 1900) smon stg + k) r ∧ r.year < anjahr + cap) :
    ∃ days, runMulti recs anjahr cap (masdat (anjahr - 1900) smon stg) (ztdat (anjahr - 1900) smon stg) ndays = some days ∧
      days.map (·.zeit) = List.range' (masdat (anjahr - 1900) smon stg) ndays ∧
      ∀ d ∈ days, ∃ r, RecordOfDay recs d.zeit r ∧ d.val = some r.val ∧ r.year = 1900 + d.j ∧ r.doy = d.tagNum := by
  have hd0 := isDay_of_date hstart
  obtain ⟨r0, hr0, hr0y, _⟩ := covered_record recs anjahr cap _ _ ndays hd0 hcov 0 hn (anjahr - 1900) _ (by simpa using hd0)
  have hj0 : 1900 + (anjahr - 1900) = anjahr := by have := hstart.1; omega
  have hfy : firstYear anjahr recs = anjahr := firstYear_eq anjahr recs hg ⟨r0, hr0.1, by omega⟩
  obtain ⟨ms, hread, hA⟩ := readMulti_aligned anjahr cap recs hv hg
  rw [hfy] at hA
  have hAl : AlignedStore recs anjahr cap ms.store := hA
  obtain ⟨st, days, hinit, hrun, hz, hall⟩ := multi_loop_on_store recs anjahr cap smon stg ndays ms.store hv hg hstart hn hend hcov hAl.jarMax
  refine ⟨days, by simp only [runMulti, hread, hinit]; exact hrun, hz, ?_⟩
  intro d hd
  obtain ⟨r, hr, e1, e2, c1, c2, hval⟩ := hall d hd
  exact ⟨r, hr, by rw [hval]; exact (hAl r hr.1 c1 c2).1, e1, e2⟩

/-- **One file per year, whole run**: see `C04_weather_of_day_yearfiles`. -/
theorem runPerYear_weather_of_day (files : Nat → Option (List (Nat × π))) (vals : Nat → List π)
    (anjahr smon stg ndays : Nat)
    (hstart : ValidDate (anjahr - 1900) smon stg) (hn : 0 < ndays)
    (hend : masdat (anjahr - 1900) smon stg + ndays ≤ 72685)
    (hcov : ∀ k, k < ndays → ∃ y mon tg, kalenderDate (masdat (anjahr - 1900) smon stg + k) = some (y, mon, tg) ∧
      files y = some (numberFrom 1 (vals y)) ∧ (vals y).length ≤ daysInYear y ∧ ztdat (y - 1900) mon tg ≤ (vals y).length) :
    ∃ days, runPerYear files anjahr (masdat (anjahr - 1900) smon stg) (ztdat (anjahr - 1900) smon stg) ndays = some days ∧
      days.map (·.zeit) = List.range' (masdat (anjahr - 1900) smon stg) ndays ∧
      ∀ d ∈ days, ∃ mon tg, kalenderDate d.zeit = some (1900 + d.j, mon, tg) ∧ ztdat d.j mon tg = d.tagNum ∧
        ∃ h : d.tagNum - 1 < (vals (1900 + d.j)).length, d.val = some (vals (1900 + d.j))[d.tagNum - 1] := by
  have hd0 := isDay_of_date hstart
  generalize hbdef : masdat (anjahr - 1900) smon stg = b at *
  generalize hitdef : ztdat (anjahr - 1900) smon stg = it at *
  have hj0 : 1900 + (anjahr - 1900) = anjahr := by have := hstart.1; omega
  let Y : Nat → Prop := fun y => files y = some (numberFrom 1 (vals y)) ∧ vals y ≠ [] ∧ (vals y).length ≤ daysInYear y
  have hcovG : Covered Y (fun y => (vals y).length) b ndays := by
    intro k hk j doy hd
    obtain ⟨y, mon, tg, hkal, hf, hl, hz⟩ := hcov k hk
    obtain ⟨mon', tg', _, hk', hz'⟩ := isDay_kalender hd
    rw [hkal] at hk'
    simp only [Option.some.injEq, Prod.mk.injEq] at hk'
    obtain ⟨a, bb, c⟩ := hk'
    subst bb; subst c
    have e : y = 1900 + j := by omega
    subst e
    have e2 : 1900 + j - 1900 = j := by omega
    rw [e2, hz'] at hz
    refine ⟨⟨hf, ?_, hl⟩, hz⟩
    intro hnil
    rw [hnil] at hz
    have := hd.2.2.1
    simp at hz; omega
  have hsrc : ∀ y, Y y → ReloadOk (.perYear files) (fun _ => True) (fun y => (vals y).length) (fun y d => (vals y)[d - 1]?) y :=
    fun y hY => reloadOk_perYear files vals y hY.1 hY.2.1 hY.2.2
  have hlen : ∀ j, 1 ≤ j → j ≤ 199 → Y (1900 + j) → (vals (1900 + j)).length ≤ diy j := by
    intro j h1 h2 hY
    have := hY.2.2
    rw [daysInYear_eq_diy j h1 h2] at this; exact this
  have hY0 : Y anjahr := by
    have := (hcovG 0 hn (anjahr - 1900) it (by simpa using hd0)).1
    rw [hj0] at this; exact this
  let st0 : DState π := { zeit := b, tagNum := 0, j := anjahr - 1900, jtag := 0, g := List.replicate 366 none, store := {} }
  obtain ⟨st1, hr1, hinv1, hjt1, hg1⟩ := hsrc anjahr hY0 st0 trivial hj0
  have hjt1 : st1.jtag = (vals anjahr).length := hjt1
  obtain ⟨ez, et, ej⟩ := reload_some hr1
  have ez : st1.zeit = b := ez
  have ej : st1.j = anjahr - 1900 := ej
  have hinit : initState (.perYear files) {} anjahr b it = some { st1 with tagNum := it - 1 } := by
    simp only [initState]
    rw [show reload (.perYear files) st0 = some st1 from hr1]
  have hit : it ≤ (vals anjahr).length := by
    have := (hcovG 0 hn (anjahr - 1900) it (by simpa using hd0)).2
    rw [hj0] at this; exact this
  have hgood : Good (fun _ => True) (fun y => (vals y).length) (fun y d => (vals y)[d - 1]?)
      ({ st1 with tagNum := it - 1 } : DState π) := by
    obtain ⟨a1, a2, a3, a4, a5⟩ := hd0
    refine ⟨trivial, ?_, ?_, ?_, ?_, ?_, ?_, ?_⟩
    · show st1.zeit = masdat st1.j 1 1 + (it - 1)
      rw [ez, ej]; omega
    · show 1 ≤ st1.j
      omega
    · show st1.j ≤ 199
      omega
    · show st1.jtag = (vals (1900 + st1.j)).length
      rw [ej, hj0]; exact hjt1
    · show it - 1 ≤ st1.jtag
      rw [hjt1]; omega
    · show st1.jtag ≤ diy st1.j
      rw [ej, hjt1]
      have := hlen (anjahr - 1900) a1 a2 (by rw [hj0]; exact hY0)
      rw [hj0] at this; exact this
    · show ∀ t, t < st1.jtag → st1.g.getD t none = (vals (1900 + st1.j))[t + 1 - 1]?
      intro t ht
      rw [ej, hj0]
      exact hg1 t (by show t < (vals anjahr).length; rw [← hjt1]; exact ht)
  obtain ⟨days, hrun, hzs, hall⟩ := runDays_good (.perYear files) _ _ _ Y hsrc hlen ndays _ hgood
    (by show Covered _ _ st1.zeit ndays; rw [ez]; exact hcovG) (by show st1.zeit + ndays ≤ 72685; rw [ez]; exact hend)
  have hsy : startYearOk ({ st1 with tagNum := it - 1 } : DState π) = true := by
    obtain ⟨mon, tg, _, hk, _⟩ := isDay_kalender hd0
    unfold startYearOk
    show (match kalenderDate st1.zeit with | some (y, _, _) => y == 1900 + st1.j | none => false) = true
    rw [ez, hk, ej]
    simp; omega
  refine ⟨days, ?_, by rw [hzs]; show List.range' st1.zeit ndays = _; rw [ez], ?_⟩
  · have hnz : ¬ ndays = 0 := by omega
    simp only [runPerYear, hinit, runLoop, hnz, if_false, hsy, if_true]
    exact hrun
  · intro d hd
    obtain ⟨hday, hval, hle, _⟩ := hall d hd
    obtain ⟨mon, tg, _, hk, hz⟩ := isDay_kalender hday
    have e : d.j + 1900 = 1900 + d.j := by omega
    rw [e] at hk
    have h1 := hday.2.2.1
    have hlt : d.tagNum - 1 < (vals (1900 + d.j)).length := by
      have hle : d.tagNum ≤ (vals (1900 + d.j)).length := hle
      omega
    refine ⟨mon, tg, hk, hz, hlt, ?_⟩
    rw [hval]
    show (vals (1900 + d.j))[d.tagNum - 1]? = _
    simp [hlt]

/-- two records of a series for the same day number have the same date; in a gap-free series they
are the same line -/
theorem recordOfDay_unique {recs : List (Rec π)} (hg : gapFreeB recs = true) {z : Nat} {r r' : Rec π}
    (h : RecordOfDay recs z r) (h' : RecordOfDay recs z r') : r' = r := by
  obtain ⟨hm, mon, tg, hk, hz⟩ := h
  obtain ⟨hm', mon', tg', hk', hz'⟩ := h'
  rw [hk] at hk'
  simp only [Option.some.injEq, Prod.mk.injEq] at hk'
  obtain ⟨a, b, c⟩ := hk'
  subst b; subst c
  rw [← a] at hz'
  exact gapFree_date_unique recs hg r' hm' r hm a.symm (by rw [← hz, ← hz'])

/-- **One file per year: covering stated per year.** Every year from the start year to the year of
the last simulated day has a file with the lines of days 1 … n; the years before the last one are
complete, the last one reaches the last simulated day. Then every simulated day is covered. -/
theorem yearfiles_covered (files : Nat → Option (List (Nat × π))) (vals : Nat → List π)
    (anjahr smon stg ndays yL monL tgL : Nat)
    (hstart : ValidDate (anjahr - 1900) smon stg) (hn : 0 < ndays)
    (hend : masdat (anjahr - 1900) smon stg + ndays ≤ 72685)
    (hlast : kalenderDate (masdat (anjahr - 1900) smon stg + (ndays - 1)) = some (yL, monL, tgL))
    (hfiles : ∀ y, anjahr ≤ y → y ≤ yL → files y = some (numberFrom 1 (vals y)) ∧ (vals y).length ≤ daysInYear y)
    (hfull : ∀ y, anjahr ≤ y → y < yL → (vals y).length = daysInYear y)
    (hreach : ztdat (yL - 1900) monL tgL ≤ (vals yL).length) :
    ∀ k, k < ndays → ∃ y mon tg, kalenderDate (masdat (anjahr - 1900) smon stg + k) = some (y, mon, tg) ∧
      files y = some (numberFrom 1 (vals y)) ∧ (vals y).length ≤ daysInYear y ∧ ztdat (y - 1900) mon tg ≤ (vals y).length := by
  have hd0 := isDay_of_date hstart
  generalize masdat (anjahr - 1900) smon stg = b at *
  have hb1 : 1 ≤ b := by have := hd0.2.2.2.2; have := masdat_jan1 (anjahr - 1900); have := hd0.2.2.1; omega
  obtain ⟨hvL, hmL, hyL⟩ := kalender_inv (by omega) (by omega) hlast
  have hdL := isDay_of_date hvL
  rw [hmL] at hdL
  intro k hk
  obtain ⟨yr, mon, tg, hv, hm⟩ := masdat_surj (b + k) (by omega) (by omega)
  have hd := isDay_of_date hv
  rw [hm] at hd
  have hkal := kalender_masdat_core yr mon tg hv.1 hv.2.1 hv.2.2.1 hv.2.2.2.1 hv.2.2.2.2.1 hv.2.2.2.2.2
  rw [hm] at hkal
  have m1 := isDay_year_mono hd0 hd (by omega)
  have m2 := isDay_year_mono hd hdL (by omega)
  have hj0 := hstart.1
  have e : yr + 1900 - 1900 = yr := by omega
  obtain ⟨f1, f2⟩ := hfiles (yr + 1900) (by omega) (by omega)
  refine ⟨yr + 1900, mon, tg, hkal, f1, f2, ?_⟩
  rw [e]
  by_cases hlt : yr + 1900 < yL
  · rw [hfull (yr + 1900) (by omega) hlt]
    have e2 : yr + 1900 = 1900 + yr := by omega
    rw [e2, daysInYear_eq_diy yr hv.1 hv.2.1]
    exact hd.2.2.2.1
  · have e3 : yr + 1900 = yL := by omega
    subst e3
    rw [e] at hdL hreach
    have a := hd.2.2.2.2
    have c := hdL.2.2.2.2
    omega

end Hermes.Weather
