/-
Model of the day-length searches of hermes/longday.go (`LangTag`, used by the fertiliser
prediction, run.go:170-175) with the day-length function as an *input* (`dl : Nat → α`, day of the
search ↦ astronomical day length of solar.go:18-23).  Core Lean only.

`firstDayLongerThan` / `langTag` follow the repaired code (bounded to the 365 days after the
start, fallback: the longest day of that year).  `searchPinned` / `langTagPinned` are the two
unbounded loops of the pinned commit, kept for the regression witness.
-/
namespace Hermes.LangTag

variable {α : Type} [LT α] [DecidableLT α]

/-- The loop of `firstDayLongerThan` (longday.go:54-66): `tag` is the day inspected next, `fuel`
the number of days still to inspect, `longest`/`longestDay` the running maximum. -/
def scan (dl : Nat → α) (thr : α) : Nat → Nat → α → Nat → Nat
  | 0, _, _, longestDay => longestDay                       -- loop ran to `from+365`: `return longestDay`
  | fuel + 1, tag, longest, longestDay =>
    if thr < dl tag then tag                                 -- `if DL > hours { return tag }`
    else if longest < dl tag then scan dl thr fuel (tag + 1) (dl tag) tag
    else scan dl thr fuel (tag + 1) longest longestDay

/-- longday.go:54-66; `zero` is the literal `0.0` the maximum starts from. -/
def firstDayLongerThan (dl : Nat → α) (thr zero : α) (frm : Nat) : Nat :=
  scan dl thr 365 (frm + 1) zero (frm + 1)

/-- longday.go:16-18: (TAG, P1, P2) before the year offsets are added. -/
def langTag (dl : Nat → α) (thr14 thr16 zero : α) : Nat × Nat × Nat :=
  let p1 := firstDayLongerThan dl thr14 zero 0
  let p2 := firstDayLongerThan dl thr16 zero p1
  (p2, p1, p2)

/-- longday.go:39-45: year offsets (`yr` = `progja` resp. `anjahr`). -/
def offsets (yr p1 p2 : Nat) : Nat × Nat :=
  ((yr - 1) * 365 + yr / 4 + (p1 + 20), (yr - 1) * 365 + yr / 4 + p2)

/-! ### the pinned commit: two loops without bound -/

/-- `for ok := true; ok; ok = P == 0 { TAG++; if DL(TAG) > thr { P = TAG } }` (pinned
longday.go:19-25 with thr = 14, 26-32 with thr = 16). `none` when the fuel runs out. -/
def searchPinned (dl : Nat → α) (thr : α) : Nat → Nat → Option Nat
  | 0, _ => none
  | fuel + 1, tag => if thr < dl (tag + 1) then some (tag + 1) else searchPinned dl thr fuel (tag + 1)

def langTagPinned (dl : Nat → α) (thr14 thr16 : α) (fuel : Nat) : Option (Nat × Nat × Nat) :=
  match searchPinned dl thr14 fuel 0 with
  | none => none
  | some p1 =>
    match searchPinned dl thr16 fuel p1 with
    | none => none
    | some p2 => some (p2, p1, p2)

/-- A day-length function given by one period: day `t` (1-based) ↦ `seq[(t-1) mod |seq|]`.
solar.go:18: the declination is `0.409·sin(2π/365·tag − 1.39)`, period 365 days. -/
def periodic (seq : List α) (dflt : α) (t : Nat) : α := seq.getD ((t - 1) % seq.length) dflt

/-- Witness table: `⌈100 · DL⌉` for day 1…365 at latitude 45° as computed by the real
`CalculateDayLenght` (compared with the real function by the C11 check, kernel langtag.table45).
The longest day is 15.43 h. -/
def dl45 : List Nat := [866, 867, 869, 871, 872, 874, 876, 878, 881, 883, 885, 888, 890, 893, 896, 899, 902, 905, 908, 911, 915, 918, 922, 925, 929, 933, 936, 940, 944, 948, 952, 956, 961, 965, 969, 974, 978, 982, 987, 991, 996, 1001, 1005, 1010, 1015, 1020, 1025, 1029, 1034, 1039, 1044, 1049, 1054, 1059, 1064, 1069, 1075, 1080, 1085, 1090, 1095, 1101, 1106, 1111, 1116, 1122, 1127, 1132, 1138, 1143, 1148, 1154, 1159, 1164, 1170, 1175, 1180, 1186, 1191, 1196, 1202, 1207, 1213, 1218, 1223, 1229, 1234, 1239, 1245, 1250, 1256, 1261, 1266, 1271, 1277, 1282, 1287, 1293, 1298, 1303, 1308, 1313, 1319, 1324, 1329, 1334, 1339, 1344, 1349, 1354, 1359, 1364, 1369, 1374, 1379, 1384, 1389, 1393, 1398, 1403, 1407, 1412, 1416, 1421, 1425, 1430, 1434, 1438, 1443, 1447, 1451, 1455, 1459, 1463, 1467, 1470, 1474, 1478, 1481, 1485, 1488, 1491, 1494, 1498, 1501, 1504, 1506, 1509, 1512, 1514, 1517, 1519, 1521, 1524, 1526, 1528, 1529, 1531, 1533, 1534, 1536, 1537, 1538, 1539, 1540, 1541, 1541, 1542, 1542, 1543, 1543, 1543, 1543, 1543, 1542, 1542, 1541, 1541, 1540, 1539, 1538, 1537, 1536, 1534, 1533, 1531, 1529, 1528, 1526, 1524, 1521, 1519, 1517, 1514, 1512, 1509, 1506, 1504, 1501, 1498, 1494, 1491, 1488, 1485, 1481, 1478, 1474, 1470, 1466, 1463, 1459, 1455, 1451, 1447, 1442, 1438, 1434, 1430, 1425, 1421, 1416, 1412, 1407, 1403, 1398, 1393, 1389, 1384, 1379, 1374, 1369, 1364, 1359, 1354, 1349, 1344, 1339, 1334, 1329, 1324, 1319, 1313, 1308, 1303, 1298, 1293, 1287, 1282, 1277, 1271, 1266, 1261, 1255, 1250, 1245, 1239, 1234, 1229, 1223, 1218, 1213, 1207, 1202, 1196, 1191, 1186, 1180, 1175, 1170, 1164, 1159, 1154, 1148, 1143, 1138, 1132, 1127, 1122, 1116, 1111, 1106, 1101, 1095, 1090, 1085, 1080, 1075, 1069, 1064, 1059, 1054, 1049, 1044, 1039, 1034, 1029, 1025, 1020, 1015, 1010, 1005, 1001, 996, 991, 987, 982, 978, 973, 969, 965, 961, 956, 952, 948, 944, 940, 936, 933, 929, 925, 922, 918, 915, 911, 908, 905, 902, 899, 896, 893, 890, 888, 885, 883, 881, 878, 876, 874, 872, 871, 869, 867, 866, 865, 863, 862, 861, 861, 860, 859, 859, 858, 858, 858, 858, 858, 858, 859, 859, 860, 861, 861, 862, 863, 865]

end Hermes.LangTag
