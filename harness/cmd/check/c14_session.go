package main

import (
	"fmt"
	"os"
	"path/filepath"
	"strings"

	"github.com/zalf-rpm/Hermes2Go/hermes"
	"verifharness/vh"
)

// c14SessionSequences: several batch lines of ONE session that use the same project configuration
// file (the situation of a batch file with several lines per project). The effective configuration
// of every line must be line > file > default for THAT line, whatever earlier lines of the session
// carried (no value may leak from one run into the next through the session's caches).
func c14SessionSequences(c *vh.Ctx, metas []cfgMeta) {
	n := c.N(400, 6000)
	for k := 0; k < n; k++ {
		r := c.Rng
		base := genCfgCase(r, metas, false)
		fixDates(r, base, metas)
		if ex := expect(base, metas); ex.fatal {
			continue
		}
		path := filepath.Join(c.Scratch, fmt.Sprintf("cfg-seq-%d.yml", k%8))
		if base.NoFile {
			path = filepath.Join(c.Scratch, "absent-seq.yml")
		} else if err := os.WriteFile(path, []byte(base.yamlText()), 0o644); err != nil {
			panic(err)
		}
		// the lines of the session: the generated line, then lines with other subsets of keys
		lines := [][]string{base.Tokens}
		// later lines keep the date-related keys of the first line (so that the end date stays readable in
		// the effective date format), drop a random part of its other keys and add other keys
		dateKey := map[string]bool{"Dateformat": true, "DivideCentury": true, "EndDate": true}
		keyOf := func(t string) string {
			if i := strings.Index(t, "="); i >= 0 {
				return t[:i]
			}
			return t
		}
		for j := 0; j < 1+r.Intn(3); j++ {
			var toks []string
			for _, t := range base.Tokens {
				if dateKey[keyOf(t)] || r.Chance(0.5) {
					toks = append(toks, t)
				}
			}
			if r.Chance(0.7) {
				extra := genCfgCase(r, metas, false)
				for _, t := range extra.Tokens {
					if !dateKey[keyOf(t)] && strings.Count(t, "=") == 1 {
						toks = append(toks, t)
					}
				}
			}
			lines = append(lines, toks)
		}
		s := hermes.NewHermesSession()
		ok := true
		for li, toks := range lines {
			cs := &cfgCase{Root: base.Root, File: base.File, NoFile: base.NoFile, Tokens: toks}
			ex := expect(cs, metas)
			if ex.fatal {
				break
			}
			var cfg hermes.Config
			pan := func() (p string) {
				defer func() {
					if rr := recover(); rr != nil {
						p = fmt.Sprint(rr)
					}
				}()
				vh.Crumb("readConfig-session-sequence", map[string]interface{}{"config_yml": base.yamlText(), "no_file": base.NoFile, "lines_of_the_session": lines, "line": li + 1})
				cfg, _ = hermes.VerifReadConfig(s, path, cs.Root, argMapOf(toks))
				return ""
			}()
			c.Eval()
			if pan != "" {
				c.Violate("search", "session-sequence:panic", "readConfig panics on line "+fmt.Sprint(li+1)+" of a session: "+pan, map[string]interface{}{"file": base.yamlText(), "lines": lines})
				ok = false
				break
			}
			evalCfgProperty(c, fmt.Sprintf("session-line%d", minICfg(li+1, 2)), cs, ex, cfg, metas)
			c.Count("kernel:session-sequence-line")
		}
		s.Close()
		if ok {
			c.Nontrivial(fmt.Sprintf("session-seq:%d", k))
		}
		if !base.NoFile {
			os.Remove(path)
		}
	}
}
