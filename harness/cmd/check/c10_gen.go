package main

// Schedule-file generator of the C10 check: the own schedule (walkDates) with unusual but valid lines
// (amount 0, 0 mm, depth 0), laid out in one of three file shapes — lines of other fields sprinkled at
// random, a chronological merge of several fields' schedules (not grouped by field), or grouped blocks.

import (
	"sort"

	"verifharness/proj"
	"verifharness/vh"
)

type c10Sched struct {
	FertAll, IrrAll, TilAll []schedEv // file order, all fields
	FertOwn, IrrOwn, TilOwn []schedEv // lines of the simulated field, file order
	Layout                  [3]string
	Style                   int // 0 as proj.Write renders it, 1 tab separated, 2 wide blanks + trailing comment token
}

// layoutLines arranges the own lines (order kept) with lines of two other fields.
// mode 0: random sprinkling (any dates), 1: chronological merge of the fields' schedules (ties in random
// order), 2: grouped by field (block before and block after the own lines).
func layoutLines(r *vh.Rng, mode int, own []schedEv, start, last int, fields [2]string, mk func(z int, field string) schedEv) []schedEv {
	switch mode {
	case 1:
		// the other fields' schedules, sorted by date, merged with the own lines; lines of the same date in random order
		var oth []schedEv
		for _, f := range fields {
			for _, z := range walkDates(r, start, last, 2, false, r.Intn(3), r.Intn(2), r.Range(1, 14), r.Range(2, 30)) {
				oth = append(oth, mk(z, f))
			}
		}
		sort.SliceStable(oth, func(a, b int) bool { return oth[a].Z < oth[b].Z })
		var out []schedEv
		i, j := 0, 0
		for i < len(own) || j < len(oth) {
			switch {
			case j >= len(oth) || (i < len(own) && own[i].Z < oth[j].Z):
				out = append(out, own[i])
				i++
			case i >= len(own) || oth[j].Z < own[i].Z:
				out = append(out, oth[j])
				j++
			case r.Chance(0.5):
				out = append(out, own[i])
				i++
			default:
				out = append(out, oth[j])
				j++
			}
		}
		return out
	case 2:
		var out []schedEv
		for j := r.Intn(4); j > 0; j-- {
			out = append(out, mk(start-60+r.Intn(last-start+120), fields[0]))
		}
		out = append(out, own...)
		for j := r.Intn(4); j > 0; j-- {
			out = append(out, mk(start-60+r.Intn(last-start+120), fields[1]))
		}
		return out
	}
	var out []schedEv
	noise := r.Chance(0.7)
	for _, e := range own {
		for noise && r.Chance(0.3) {
			out = append(out, mk(start-60+r.Intn(last-start+120), fields[r.Intn(2)]))
		}
		out = append(out, e)
	}
	for noise && r.Chance(0.4) {
		out = append(out, mk(start-60+r.Intn(last-start+120), fields[r.Intn(2)]))
	}
	return out
}

// genC10Schedules draws the three schedule files of a run and stores them in the project.
// k < 12 are fixed shapes (Lean counter-witnesses of the known finding, zero lines, chronological merges);
// clean: no schedules of the known-finding classes (used by the session stage, which predicts the
// executions without the probes).
func genC10Schedules(r *vh.Rng, p *proj.Project, k int, table []fertRow, s0, last int, clean bool) *c10Sched {
	iso := func(z int) string { return proj.FromZ(z).String() }
	s := &c10Sched{Style: r.Intn(3)}
	forced := map[string][]int{}
	zero := map[string]map[int]bool{"fert": {}, "irr": {}, "til": {}}
	mode := [3]int{r.Intn(3), r.Intn(3), r.Intn(3)}
	if !clean {
		switch k {
		case 0:
			forced["fert"] = []int{s0}
		case 1:
			forced["fert"] = []int{s0 + 10, s0 + 10, s0 + 11}
		case 2:
			forced["fert"] = []int{s0 + 10, s0 + 10, s0 + 11, s0 + 11, s0 + 20}
		case 3:
			forced["irr"] = []int{s0 - 5, s0 + 5}
		case 4:
			forced["til"] = []int{s0 - 1}
		case 5:
			forced["til"] = []int{s0 + 10, s0 + 10, s0 + 11, s0 + 11, s0 + 20}
		case 6: // a tillage of depth 0 followed by further tillages
			forced["til"] = []int{s0 + 5, s0 + 9, s0 + 15, s0 + 15}
			zero["til"][0] = true
		case 7: // a fertiliser line with amount 0 followed by others
			forced["fert"] = []int{s0 + 4, s0 + 8, s0 + 13}
			zero["fert"][0] = true
		case 8: // an irrigation line with 0 mm followed by others
			forced["irr"] = []int{s0 + 3, s0 + 7, s0 + 12}
			zero["irr"][0] = true
		case 9, 10, 11: // chronological merge of three fields in all three files
			mode = [3]int{1, 1, 1}
		}
	}
	pick := func(kind string, gen []int) []int {
		if f, ok := forced[kind]; ok {
			return f
		}
		return gen
	}
	isZero := func(kind string, j int) bool { return zero[kind][j] || (len(forced[kind]) == 0 && r.Chance(0.12)) }
	names := [3]string{"random-noise", "chronological-merge", "grouped"}
	others := [2]string{"OTHER1", p.Field + "x"}

	// ---- fertiliser
	cleanF := clean || r.Chance(0.6)
	for j, z := range pick("fert", walkDates(r, s0, last, 2, cleanF, r.Intn(4)*r.Intn(2), r.Intn(3), r.Range(0, 24), r.Range(2, 40))) {
		row := table[(k*5+j*3+r.Intn(2))%len(table)]
		a := 10 + 4*j + r.Intn(4)
		if isZero("fert", j) {
			a = 0
		}
		s.FertOwn = append(s.FertOwn, schedEv{Z: z, Date: iso(z), Own: true, A: a, Kind: row.Code})
	}
	s.FertAll = layoutLines(r, mode[0], s.FertOwn, s0, last, others, func(z int, f string) schedEv {
		return schedEv{Z: z, Date: iso(z), A: r.Range(0, 150), Kind: table[r.Intn(len(table))].Code, Field: f}
	})
	p.Fert = nil
	for _, e := range s.FertAll {
		p.Fert = append(p.Fert, proj.FertEv{Amount: e.A, Kind: e.Kind, Date: proj.FromZ(e.Z), Field: e.Field})
	}
	// ---- irrigation (at most one per day)
	preIrr := 0
	if r.Chance(0.35) {
		preIrr = 1 + r.Intn(2)
	}
	for j, z := range pick("irr", walkDates(r, s0, last, 1, false, preIrr, r.Intn(3), r.Range(0, 14), r.Range(2, 40))) {
		a := 3 + 2*j + r.Intn(2)
		if isZero("irr", j) {
			a = 0
		}
		s.IrrOwn = append(s.IrrOwn, schedEv{Z: z, Date: iso(z), Own: true, A: a, B: r.Intn(40) * r.Intn(2)})
	}
	s.IrrAll = layoutLines(r, mode[1], s.IrrOwn, s0, last, [2]string{p.Field + "x", "ZZ9"}, func(z int, f string) schedEv {
		return schedEv{Z: z, Date: iso(z), A: r.Range(0, 60), B: r.Intn(30), Field: f}
	})
	p.Irr = nil
	for _, e := range s.IrrAll {
		p.Irr = append(p.Irr, proj.IrrEv{MM: e.A, Conc: e.B, Date: proj.FromZ(e.Z), Field: e.Field})
	}
	p.Irrigated = true
	// ---- tillage (never between sowing and harvest of a crop: the run would be rejected, nitro.go)
	cleanT := clean || r.Chance(0.6)
	allowed := func(z int) bool {
		for i := 1; i < len(p.Rot); i++ {
			if !(z <= p.Rot[i].Sow.Z() || z > p.Rot[i].Harvest.Z()) {
				return false
			}
		}
		return true
	}
	for j, z := range pick("til", walkDates(r, s0, last, 2, cleanT, r.Intn(3)*r.Intn(2), r.Intn(3), r.Range(0, 16), r.Range(2, 30))) {
		if allowed(z) {
			a := r.Range(3, 44)
			if isZero("til", j) || (len(forced["til"]) == 0 && r.Chance(0.06)) {
				a = 0
			}
			s.TilOwn = append(s.TilOwn, schedEv{Z: z, Date: iso(z), Own: true, A: a, B: r.Range(1, 2)})
		}
	}
	// the slot dates after the same-day shift must stay outside the crops as well
	for changed := true; changed; {
		changed = false
		prev := 0
		for j, e := range s.TilOwn {
			if e.Z < s0 {
				continue
			}
			sd := e.Z
			if prev > 0 && sd <= prev {
				sd = prev + 1
			}
			if !allowed(sd) || !allowed(sd+1) {
				s.TilOwn = append(s.TilOwn[:j:j], s.TilOwn[j+1:]...)
				changed = true
				break
			}
			prev = sd
		}
	}
	s.TilAll = layoutLines(r, mode[2], s.TilOwn, s0, last, [2]string{"ZZ9", "OTHER1"}, func(z int, f string) schedEv {
		return schedEv{Z: z, Date: iso(z), A: r.Range(0, 40), B: r.Range(1, 2), Field: f}
	})
	p.Til = nil
	for _, e := range s.TilAll {
		p.Til = append(p.Til, proj.TilEv{Depth: e.A, Kind: e.B, Date: proj.FromZ(e.Z), Field: e.Field})
	}
	for i := range s.Layout {
		s.Layout[i] = names[mode[i]]
	}
	return s
}
