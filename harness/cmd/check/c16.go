package main

// C16 — crop rotation is followed and automatic management respects its windows.
//
// Whole generated simulations over all 16 on/off combinations of AutoSowingHarvest, AutoHarvest,
// AutoIrrigation, AutoFertilization with a generated automan.txt (one line per shipped crop used).
//   correspondence: the rotation day step (automatic sowing trigger / forced sowing, sowing event,
//     automatic / forced harvest, crop switch) of HermesModel/Rotation.lean against the state the probes
//     see before and after the first sub-step, the weather-dependent trigger recomputed on the Go side;
//   search: AKF order, crop records (code, harvest year, sowing date), fixed dates exact, window
//     arrays = configured windows, sowing inside the window and after the previous harvest, harvest not
//     after the latest date, automatic irrigation only between the stages / <= max per day / >= 0,
//     automatic N never negative.

import (
	"fmt"
	"os"
	"path/filepath"
	"strconv"
	"strings"

	"verifharness/proj"
	"verifharness/vh"
)

func init() { register("C16", checkC16) }

func genAutoEntry(r *vh.Rng, cc proj.CropCal) proj.AutoEntry {
	ts := proj.Date{Y: 2001, M: cc.SowM, D: cc.SowD}
	s1 := ts.AddDays(-r.Range(0, 15))
	s2 := ts.AddDays(r.Range(3, 25))
	th := proj.Date{Y: 2001, M: cc.HarM, D: cc.HarD}
	h2 := th.AddDays(r.Range(-5, 25))
	a := proj.AutoEntry{Crop: cc.Code, Sow1M: s1.M, Sow1D: s1.D, Sow2M: s2.M, Sow2D: s2.D, Har2M: h2.M, Har2D: h2.D}
	if r.Chance(0.15) {
		a.Sow1M, a.Sow1D = 0, 0
	}
	if r.Chance(0.15) {
		a.Har2M, a.Har2D = 0, 0
	}
	if cc.Winter {
		a.TSoilIsMax = true
		a.TSoil = float64(r.Range(12, 24))
		a.TAccu = r.Range(0, 500)
	} else {
		a.TSoil = float64(r.Range(3, 11))
		a.TAccu = r.Range(0, 300)
	}
	a.SMoMin, a.SMoMax = float64(r.Range(0, 30)), float64(r.Range(70, 100))
	a.HMoMin, a.HMoMax = 0, float64(r.Range(60, 99))
	a.RainAv, a.RainAct = vh.RoundTo(r.Uni(0.5, 6), 1), vh.RoundTo(r.Uni(0.1, 1), 1)
	a.TBase = r.Range(0, 5)
	a.IrrSt1 = r.Range(1, 3)
	a.IrrSt2 = r.Range(a.IrrSt1, 6)
	a.NDem1, a.NDem2, a.NDem3 = r.Range(40, 160), r.Range(0, 120), r.Range(0, 60)
	a.NStage1 = []string{"0", "S2", "S3", "060", "075", "100", "120"}[r.Intn(7)]
	a.NStage2 = []string{"0", "S3", "S4", "100", "130", "150"}[r.Intn(6)]
	a.NStage3 = []string{"0", "S4", "S5", "140", "160"}[r.Intn(5)]
	a.TWindow = r.Range(3, 7)
	a.OrgF = []string{"RM", "SG", "RG", "SM"}[r.Intn(4)]
	a.OrgAmount = r.Range(100, 300)
	a.OrgTime = []string{"H", "S"}[r.Intn(2)]
	a.OrgDoy = r.Range(1, 20)
	a.IrrLow, a.IrrDep, a.IrrMax = r.Range(30, 80), r.Range(30, 90), r.Range(10, 50)
	if r.Chance(0.15) {
		a.IrrMax = []int{0, 0, 1, 3}[r.Intn(4)] // a daily maximum of 0 mm: irrigation switched off for the crop (shipped row AA)
	}
	autoEntryBoundaries(&a)
	return a
}

// c16Spell: one of the four spellings of an on/off value.
func c16Spell(b bool, i int) string {
	if b {
		return []string{"1", "on", "yes", "true"}[((i%4)+4)%4]
	}
	return []string{"0", "off", "no", "false"}[((i%4)+4)%4]
}

func onOffSch(b bool) string {
	if b {
		return "1"
	}
	return "0"
}

func checkC16(c *vh.Ctx) {
	root := filepath.Join(c.Scratch, "runs")
	os.MkdirAll(root, 0o755)
	nRuns := c.N(320, 4800)
	c.Res.Rule = fmt.Sprintf("%d generated whole simulations (2-3 years, rotations of the 12 shipped annual crops, generated automan.txt, all 16 combinations of the four automation switches in turn, four date formats); evaluations = simulated days and rotation entries judged; plus triples of projects with different automan.txt for the same crops in one session (sequential in two orders and overlapping) compared with their solo runs; non-trivial = distinct (run, rotation entry) that was sown or harvested", nRuns)
	var cases, impl []string
	inputs := map[string]interface{}{}
	for k := 0; k < nRuns; k++ {
		c16Run(c, c.Rng.Fork(), k, root, &cases, &impl, inputs)
	}
	c.Correspond("rotation.day", cases, impl, 0, 0, func(i int) interface{} { return inputs[cases[i]] })
	c16SessionStage(c)
	c16AutoFertStage(c)
}

func c16Run(c *vh.Ctx, r *vh.Rng, k int, root string, cases, impl *[]string, inputs map[string]interface{}) {
	name := fmt.Sprintf("r%d", k)
	p := proj.Gen(r, name, proj.Opt{Years: r.Range(2, 3), MaxLayers: 10})
	if r.Chance(0.3) {
		p.RotForeign = r.Range(1, 3) // rotation file shared with other fields, ordered by year
	}
	switch k % 7 {
	case 5:
		p.UseYearFiles() // one weather file per year: the file of the next year is loaded at the turn of the year (rain forecast of automatic irrigation / fertilisation on 30 and 31 December)
	case 6:
		p.WeatherFmt = 2 // day-of-year layout
		p.Cfg["WeatherFileFormat"] = "2"
	}
	cs := c16Prepare(r, p, k, (k/16)%4)
	// a scenario selected with fileExtension=<ext> on the batch line: rotation, polygon and automan table of the run are the files
	// with that extension; the .txt files beside them belong to another scenario (the automan table with other windows and limits)
	scenarioExt := k%5 == 3 && strings.Trim(p.Cfg["CropFileFormat"], "\"") == "txt"
	if scenarioExt {
		p.Args = append(p.Args, "fileExtension=alt")
	}
	autoMan, autoHar, autoIrr, autoFert, sw, format, table, entries, s0 := cs.AutoMan, cs.AutoHar, cs.AutoIrr, cs.AutoFert, cs.Sw, cs.Format, cs.Table, cs.Entries, cs.S0
	replay := map[string]interface{}{"project": p, "automan": entries, "switches": sw, "date_format": format,
		"how": "proj.Project JSON + automan entries: Project.Write, WriteManagementConf, WriteAutoman, proj.Run (harness/cmd/check/c16.go c16Run)"}
	nRot := len(p.Rot)
	ex := c16Expect(p, cs)
	expS, expS1, expS2, expE, expE2, premise, lastBase := ex.S, ex.S1, ex.S2, ex.E, ex.E2, ex.Premise, ex.LastBase

	premiseAll := true
	for i := 1; i < nRot; i++ {
		premiseAll = premiseAll && premise[i]
	}
	tr, err := runTraced(c, root, p, len(p.Rot)+4, func(root string) error {
		if err := p.WriteAutoman(root, entries); err != nil {
			return err
		}
		if err := c16TrimAutoman(root, p, cs, k); err != nil {
			return err
		}
		if scenarioExt {
			return c16ScenarioFiles(root, p, entries)
		}
		return nil
	})
	if err != nil {
		c.Violate("search", "harness:write", err.Error(), replay)
		return
	}
	if (tr.Res.Panic != "" || tr.Res.Err != nil) && !premiseAll {
		// e.g. a fixed sowing date on / before the (automatic) harvest day of the predecessor: PhytoOut runs with
		// INTWICK = -1 (crop.go:151) — outside this property's premise, a robustness matter (C11)
		c.Count("run:failed-outside-premise")
		c.Note("run %s (%s) outside the premise failed: err=%v panic=%q", name, sw, tr.Res.Err, tr.Res.Panic)
		return
	}
	if tr.Res.Panic != "" || tr.Res.Err != nil || tr.Snap == nil || len(tr.Days) == 0 {
		c.Violate("search", "run:failed:"+sw, fmt.Sprintf("generated run did not complete: err=%v panic=%q", tr.Res.Err, tr.Res.Panic), replay)
		return
	}
	c.Count("switches:" + sw)
	days, snap := tr.Days, tr.Snap
	if snap.AutoMan != autoMan || snap.AutoHar != autoHar || snap.AutoIrr != autoIrr || snap.AutoFert != autoFert {
		c.Violate("search", "switches:not-effective", fmt.Sprintf("config.yml says AutoSowingHarvest: %s AutoHarvest: %s AutoIrrigation: %s AutoFertilization: %s, the run works with %v %v %v %v",
			p.Cfg["AutoSowingHarvest"], p.Cfg["AutoHarvest"], p.Cfg["AutoIrrigation"], p.Cfg["AutoFertilization"], snap.AutoMan, snap.AutoHar, snap.AutoIrr, snap.AutoFert), replay)
		return
	}
	lastDay := days[len(days)-1].Zeit

	// ---------------------------------------------------------------- configured windows vs arrays after Input
	for i := 0; i < nRot; i++ {
		c.Eval()
		if snap.SAAT[i] != expS[i] || snap.ERNTE[i] != expE[i] || snap.ERNTE2[i] != expE2[i] || (autoMan && i > 0 && (snap.SAAT1[i] != expS1[i] || snap.SAAT2[i] != expS2[i])) {
			c.Violate("search", "rotation:arrays:"+sw, fmt.Sprintf("rotation entry %d (%s): after Input SAAT=%d SAAT1=%d SAAT2=%d ERNTE=%d ERNTE2=%d, the rotation file and automan.txt give SAAT=%d window %d..%d ERNTE=%d latest %d",
				i, p.Rot[i].Crop, snap.SAAT[i], snap.SAAT1[i], snap.SAAT2[i], snap.ERNTE[i], snap.ERNTE2[i], expS[i], expS1[i], expS2[i], expE[i], expE2[i]), replay)
		}
		if snap.FRUCHT[i] != p.Rot[i].Crop {
			c.Violate("search", "rotation:crop-code", fmt.Sprintf("rotation entry %d: crop %q in the arrays, %q in the file", i, snap.FRUCHT[i], p.Rot[i].Crop), replay)
		}
	}
	if nRot >= 2 {
		c.Eval()
		line := fmt.Sprintf("rotation.placeholder %d %d", snap.SAAT[nRot-1], snap.SAAT2[nRot-1])
		*cases = append(*cases, line)
		*impl = append(*impl, strconv.Itoa(snap.SAAT2[nRot]))
		inputs[line] = map[string]interface{}{"run": name, "switches": sw, "project": p, "automan": entries}
		_ = lastBase // the window itself is the model's business (correspondence above); the property speaks about its effect
	}
	// ---------------------------------------------------------------- management event file, crop file
	zOf := map[string]int{}
	for z := s0; z <= lastDay; z++ {
		zOf[dotted(z, format)] = z
	}
	mev := proj.ParseMEvents(tr.Res.Out.File("M"))
	sowEvent := map[int]string{}
	var sowDays []int
	for _, e := range mev {
		if e.Kind == "sowing" {
			sowEvent[zOf[e.Date]] = strings.TrimSpace(e.Attrs["Crop"])
			sowDays = append(sowDays, zOf[e.Date])
		}
		if e.Kind == "fertilization" && autoFert {
			for _, key := range []string{"Ndirect", "NH4"} {
				if v, ok := e.Attrs[key]; ok {
					x, err := strconv.ParseFloat(v, 64)
					if err == nil && x < 0 {
						c.Violate("search", "auto-n:negative", fmt.Sprintf("automatic N application of %g kg/ha on %s", x, e.Date), replay)
					}
				}
			}
			c.Count("auto-n:events")
		}
	}

	// ---------------------------------------------------------------- walk the days
	sowDay := make([]int, nRot+3) // observed sowing day per entry
	harDay := make([]int, nRot+3) // observed harvest day per entry
	prevAKF := 0
	for i, d := range days {
		c.Eval()
		if d.AKF != prevAKF && i > 0 {
			c.Violate("search", "rotation:akf-moved-outside-substep1", fmt.Sprintf("day %d: current crop index changed from %d to %d outside the harvest step", d.Zeit, prevAKF, d.AKF), replay)
		}
		// sowing of the current entry
		if d.AKF >= 1 && d.AKF < len(sowDay) && d.Saat == d.Zeit && sowDay[d.AKF] == 0 {
			sowDay[d.AKF] = d.Zeit
		}
		// harvest / crop switch
		if d.AKF1 != d.AKF {
			if d.AKF < len(harDay) {
				harDay[d.AKF] = d.Zeit
			}
			if d.AKF1 != d.AKF+1 {
				sig := "rotation:skipped-entry:in-rotation"
				if d.AKF+1 >= nRot {
					// the entry after the last one is the reader's placeholder (input.go:569-576)
					sig = "rotation:skipped-entry:placeholder-after-last-entry"
				}
				if d.AKF+1 < nRot && !premise[d.AKF+1] {
					sig = "" // outside the premise (window of the successor already closed at harvest)
					c.Count("rotation:skip-outside-premise")
				}
				if sig != "" {
					c.Violate("search", sig, fmt.Sprintf("day %d: current crop index jumped from %d to %d", d.Zeit, d.AKF, d.AKF1), replay)
				}
			}
		}
		prevAKF = d.AKF1
		// automatic irrigation
		if autoIrr && d.EffIrr != 0 {
			c.Count("auto-irrigation:days")
			mm := d.EffIrr * 10
			a := table[cropOf(p, d.AKF)]
			cls := "in-rotation"
			if d.AKF >= nRot {
				cls = "after-last-entry"
			}
			if mm < 0 {
				c.Violate("search", "auto-irrigation:negative:"+cls, fmt.Sprintf("day %d: automatic irrigation of %g mm", d.Zeit, mm), replay)
			}
			if d.AKF >= 1 && d.AKF < nRot {
				if !(d.Saat > 0 && d.Zeit > d.Saat) {
					c.Violate("search", "auto-irrigation:no-crop", fmt.Sprintf("day %d: automatic irrigation of %g mm without a sown crop (SAAT=%d)", d.Zeit, mm, d.Saat), replay)
				}
				if !(d.Intwick >= float64(a.IrrSt1) && d.Intwick <= float64(a.IrrSt2)) {
					c.Violate("search", "auto-irrigation:outside-stages", fmt.Sprintf("day %d: automatic irrigation of %g mm in development stage %g, configured stages %d..%d (%s)", d.Zeit, mm, d.Intwick, a.IrrSt1, a.IrrSt2, a.Crop), replay)
				}
				if mm > float64(a.IrrMax)+1e-9 {
					c.Violate("search", "auto-irrigation:above-max", fmt.Sprintf("day %d: automatic irrigation of %g mm, configured maximum %d mm/day (%s)", d.Zeit, mm, a.IrrMax, a.Crop), replay)
				}
			} else if mm > 1e-9 {
				c.Violate("search", "auto-irrigation:outside-rotation:"+cls, fmt.Sprintf("day %d: automatic irrigation of %g mm while no rotation entry is grown (index %d of %d)", d.Zeit, mm, d.AKF, nRot), replay)
			}
		}
		// automatic N never negative: the mineral fertiliser sum never decreases in the nitrogen step
		if autoFert && d.AKF1 == d.AKF && d.DSUMM1 < d.DSUMM-1e-12 {
			c.Violate("search", "auto-n:negative", fmt.Sprintf("day %d: mineral fertiliser sum decreased by %g kg N/ha in the automatic fertilisation step", d.Zeit, d.DSUMM-d.DSUMM1), replay)
		}

		// ---- correspondence of the rotation day step on the days around the windows
		interesting := d.AKF1 != d.AKF || d.Saat == d.Zeit ||
			(d.Saat1 > 0 && d.Zeit >= d.Saat1-1 && d.Zeit <= d.Saat2+1) || (d.Ernte2 > 0 && d.Zeit >= d.Ernte2-2 && d.Zeit <= d.Ernte2+1) || r.Chance(0.02)
		if interesting && d.AKF1 <= d.AKF+1 {
			saatBefore, saat2Before := snap.SAAT[minISch(d.AKF, len(snap.SAAT)-1)], d.Saat2
			if i > 0 {
				y := days[i-1]
				if d.AKF == y.AKF {
					saatBefore = y.Saat
				} else {
					saatBefore, saat2Before = y.SaatNext1, y.Saat2Next1
				}
			}
			harTrig := d.Ernte == 0 && d.ErnteCur1 == d.Zeit
			emerged := d.Emerged || harTrig
			_, sowEv := sowEvent[d.Zeit]
			line := fmt.Sprintf("rotation.day %d %d %d %d %d %d %d %d %d %d %d %d %d %d %d %d", b2iSch(autoMan), b2iSch(autoHar), d.Zeit, d.AKF, saatBefore, d.Saat1, saat2Before,
				d.ErntePrev, d.Ernte, d.Ernte2, d.SaatNext, d.Saat2Next, b2iSch(d.SowTrig), b2iSch(emerged), b2iSch(harTrig), b2iSch(d.OrgH))
			*cases = append(*cases, line)
			*impl = append(*impl, fmt.Sprintf("%d %d %d %d %d %d %d %d", d.Saat, d.ErnteCur1, d.Ernte2Cur1, d.SaatNext1, d.Saat2Next1, d.AKF1, b2iSch(sowEv), b2iSch(d.AKF1 != d.AKF)))
			inputs[line] = map[string]interface{}{"run": name, "day": d.Zeit, "switches": sw, "project": p, "automan": entries}
		}
	}

	// ---------------------------------------------------------------- per rotation entry
	var recs []string
	for _, ln := range strings.Split(strings.TrimSpace(tr.Res.Out.File("C")), "\n") {
		if f := strings.Split(ln, ","); len(f) >= 3 {
			if _, err := strconv.Atoi(strings.TrimSpace(f[2])); err == nil {
				recs = append(recs, ln)
			}
		}
	}
	dayOf := map[int]*dayRec{}
	for i := range days {
		dayOf[days[i].Zeit] = &days[i]
	}
	// how the harvest of entry i came / should have come about: fixed (date of the rotation file), trigger
	// (automatic harvest conditions met), forced (emerged crop on the eve of its latest harvest date), not-emerged
	harvestClass := func(i int) string {
		if !autoHar {
			return "fixed"
		}
		eve := expE2i(expE[i], expE2[i]) - 1
		if z := harDay[i]; z > 0 {
			if d := dayOf[z]; d != nil && d.Ernte == 0 && d.ErnteCur1 == z {
				return "trigger"
			}
			eve = z - 1
		}
		if d := dayOf[eve]; d != nil && d.AKF == i {
			if d.Emerged {
				return "forced"
			}
			return "not-emerged"
		}
		return "unknown"
	}
	nHarv := 0
	chain := true // every earlier entry inside the premise, sown and harvested: entry i gets its turn
	for i := 1; i < nRot; i++ {
		c.Eval()
		crop := p.Rot[i].Crop
		a := table[crop]
		pos := "middle"
		if i == nRot-1 {
			pos = "last"
		}
		if sowDay[i] > 0 || harDay[i] > 0 {
			c.Nontrivial(fmt.Sprintf("%s/%d", name, i))
		}
		// ---- sowing
		if z := sowDay[i]; z > 0 {
			if got, ok := sowEvent[z]; !ok || got != crop {
				c.Violate("search", "sowing:event-missing-or-wrong-crop", fmt.Sprintf("entry %d (%s) sown on day %d, management event file shows %q", i, crop, z, got), replay)
			}
			fixed := !autoMan || a.Sow1M == 0
			switch {
			case !premise[i]:
				c.Count("sowing:outside-premise")
			case fixed:
				if z != p.Rot[i].Sow.Z() {
					c.Violate("search", "sowing:fixed-date:"+sw, fmt.Sprintf("entry %d (%s): sown on day %d, the rotation file says day %d (%s)", i, crop, z, p.Rot[i].Sow.Z(), p.Rot[i].Sow), replay)
				}
				c.Count("sowing:fixed")
			default:
				cls := "triggered"
				if z == expS2[i] {
					cls = "forced-at-window-end"
				}
				c.Count("sowing:auto:" + cls)
				if z < expS1[i] || z > expS2[i] {
					c.Violate("search", "sowing:outside-window:"+cls, fmt.Sprintf("entry %d (%s): automatic sowing on day %d, configured window %d..%d", i, crop, z, expS1[i], expS2[i]), replay)
				}
			}
			if premise[i] && harDay[i-1] > 0 && z <= harDay[i-1] {
				c.Violate("search", "sowing:not-after-previous-harvest", fmt.Sprintf("entry %d (%s): sown on day %d, previous crop harvested on day %d", i, crop, z, harDay[i-1]), replay)
			}
		} else if premise[i] && harDay[i-1] > 0 {
			// became current before its window: must be sown by the end of the window / on its date
			latest := expS2[i]
			if !autoMan || a.Sow1M == 0 {
				latest = p.Rot[i].Sow.Z()
			}
			if latest <= lastDay && latest <= expE2i(expE[i], expE2[i]) {
				c.Violate("search", "sowing:missed:"+sw, fmt.Sprintf("entry %d (%s) was never sown although its sowing date / window end (day %d) lies in the simulated period", i, crop, latest), replay)
			}
		}
		// ---- harvest
		if z := harDay[i]; z > 0 {
			nHarv++
			latest := expE2i(expE[i], expE2[i])
			if !autoHar {
				if z != p.Rot[i].Harvest.Z() {
					c.Violate("search", "harvest:fixed-date:"+sw, fmt.Sprintf("entry %d (%s): harvested on day %d, the rotation file says day %d", i, crop, z, p.Rot[i].Harvest.Z()), replay)
				}
				c.Count("harvest:fixed")
			} else {
				cls := "triggered"
				if z == latest {
					cls = "forced-at-latest-date"
				}
				c.Count("harvest:auto:" + cls)
				if z > latest {
					c.Violate("search", "harvest:after-latest-date", fmt.Sprintf("entry %d (%s): harvested on day %d, configured latest harvest day %d", i, crop, z, latest), replay)
				}
			}
			c.Count("harvested:" + harvestClass(i))
			if c16IsLate(p.Rot[i]) {
				c.Count("late-sown-entry:harvested:" + harvestClass(i) + ":" + pos)
			}
			// crop record (one per harvested rotation entry, in rotation order — also C05's statement, which has no
			// automatic management in its own generator)
			if nHarv > len(recs) {
				c.Violate("search", "record:missing:"+harvestClass(i), fmt.Sprintf("rotation entry %d (%s) harvested on day %d (%s harvest) has no record in the crop file: %d records for %d harvested entries so far", i, crop, z, harvestClass(i), len(recs), nHarv), replay)
			}
			if nHarv <= len(recs) {
				f := strings.Split(recs[nHarv-1], ",")
				code, hy := strings.TrimSpace(f[0]), strings.TrimSpace(f[2])
				if code == "000" && i == nRot-1 {
					c.Violate("search", "record:skipped-replaces-harvested:last-entry", fmt.Sprintf("crop record %d of the harvested last rotation entry %d (%s) is a SKIPPED record (crop 000, year %s)", nHarv, i, crop, hy), replay)
				} else if code != crop || hy != strconv.Itoa(p.Rot[i].Harvest.Y) {
					c.Violate("search", "record:code-or-harvest-year", fmt.Sprintf("crop record %d: crop %q harvest year %s; rotation entry %d is %q with harvest year %d", nHarv, code, hy, i, crop, p.Rot[i].Harvest.Y), replay)
				}
				if sowDay[i] > 0 && code != "000" && strings.TrimSpace(f[1]) != dotted(sowDay[i], format) {
					c.Violate("search", "record:sowing-date", fmt.Sprintf("crop record %d: sowing date %q, sown on %s", nHarv, f[1], dotted(sowDay[i], format)), replay)
				}
			}
		} else if sowDay[i] > 0 && premise[i] && chain {
			// sown inside the simulated period, latest harvest date inside it: the entry must be harvested, the
			// rotation must move on and the crop file must get its record
			latest := expE2i(expE[i], expE2[i])
			if latest <= lastDay && sowDay[i] < latest-1 {
				cls := harvestClass(i)
				c.Violate("search", "rotation:entry-never-harvested:"+cls, fmt.Sprintf("entry %d (%s, %s of the rotation) sown on day %d was not harvested by its latest harvest day %d (%s on the eve; run lasts until %d): no crop record, the rotation never moves on, %d later entries are lost", i, crop, pos, sowDay[i], latest, cls, lastDay, nRot-1-i), replay)
				c.Violate("search", "record:missing:"+cls, fmt.Sprintf("rotation entry %d (%s) sown on day %d with latest harvest day %d inside the simulated period has no record in the crop file (%d records)", i, crop, sowDay[i], latest, len(recs)), replay)
			}
		}
		chain = chain && premise[i] && sowDay[i] > 0 && harDay[i] > 0
	}
	skipped := 0
	for _, rl := range recs {
		if strings.Contains(rl, "SKIPPED") || strings.HasPrefix(strings.TrimSpace(rl), "000") {
			skipped++
		}
	}
	if len(recs)-skipped > nHarv && skipped == 0 {
		c.Violate("search", "record:extra", fmt.Sprintf("%d crop records for %d harvested rotation entries", len(recs), nHarv), replay)
	}
	if k < 2 {
		c.Sample(map[string]interface{}{"run": name, "switches": sw, "rotation": p.Rot, "sown_on": sowDay[:nRot], "harvested_on": harDay[:nRot], "windows_from": expS1, "windows_to": expS2, "latest_harvest": expE2, "records": recs})
	}
}

// c16Case: one generated C16 project: automation switches, date format, generated automan table.
type c16Case struct {
	AutoMan, AutoHar, AutoIrr, AutoFert bool
	Sw                                  string
	Format, S0                          int
	Table                               map[string]proj.AutoEntry
	Entries                             []proj.AutoEntry
}

// c16Prepare sets the switches (bits of k), the date format, schedules free of the C10 known findings and
// draws an automan.txt line for every shipped crop.
func c16Prepare(r *vh.Rng, p *proj.Project, k, format int) *c16Case {
	start, end := p.Start(), p.End()
	autoMan, autoHar, autoIrr, autoFert := k&1 != 0, k&2 != 0, k&4 != 0, k&8 != 0
	// the four switches in the spellings config.yml accepts (1/0, on/off, yes/no, true/false), rotating with the run number
	p.Cfg["AutoSowingHarvest"], p.Cfg["AutoHarvest"], p.Cfg["AutoIrrigation"], p.Cfg["AutoFertilization"] = c16Spell(autoMan, k/16), c16Spell(autoHar, k/16+1), c16Spell(autoIrr, k/16+2), c16Spell(autoFert, k/16+3)
	sw := fmt.Sprintf("man%s-har%s-irr%s-fert%s", onOffSch(autoMan), onOffSch(autoHar), onOffSch(autoIrr), onOffSch(autoFert))
	annD, annM := r.Range(1, 28), r.Range(1, 12)
	s0 := start.Z()
	if autoMan || autoHar {
		p.Til = nil // tillage between (moved) sowing and harvest dates would reject the run
	}
	// schedules free of the C10 findings (they are not this property's subject)
	var fert []proj.FertEv
	for _, e := range p.Fert {
		if e.Date.Z() > s0+1 && (len(fert) == 0 || e.Date.Z() > fert[len(fert)-1].Date.Z()+2) {
			fert = append(fert, e)
		}
	}
	p.Fert = fert
	var irr []proj.IrrEv
	for _, e := range p.Irr {
		if e.Date.Z() >= s0 {
			irr = append(irr, e)
		}
	}
	p.Irr = irr
	table := map[string]proj.AutoEntry{}
	var entries []proj.AutoEntry
	for _, cc := range proj.Crops {
		a := genAutoEntry(r, cc)
		table[cc.Code] = a
		entries = append(entries, a)
	}
	end = c16InsertLateEntries(r, p, end, table, autoMan, autoHar)
	entries = c16LateRows(r, p, table, entries)
	// tillage of the generator may now lie under an inserted crop (the run would be rejected, nitro.go)
	var til []proj.TilEv
	for _, e := range p.Til {
		ok := true
		for i := 1; i < len(p.Rot); i++ {
			if z := e.Date.Z(); z+2 > p.Rot[i].Sow.Z() && z <= p.Rot[i].Harvest.Z() {
				ok = false
			}
		}
		if ok {
			til = append(til, e)
		}
	}
	p.Til = til
	p.SetFormat(format, end, annD, annM)
	if autoFert {
		for i := range p.Rot {
			if r.Chance(0.2) {
				p.Rot[i].AutOrg = 1
			}
		}
	} else {
		// `autorg` = 1 in the rotation file without automatic fertilisation (the flag is read, nothing is applied);
		// decided from values already drawn
		for i := range p.Rot {
			if (p.Rot[i].Rex+3*i+k)%6 == 0 {
				p.Rot[i].AutOrg = 1
			}
		}
	}
	return &c16Case{AutoMan: autoMan, AutoHar: autoHar, AutoIrr: autoIrr, AutoFert: autoFert, Sw: sw, Format: format, S0: s0, Table: table, Entries: entries}
}

// catch crops with shipped parameter files (PARAM.OEL/ORH/SE) besides the main crops of proj.Crops
var c16CatchCrops = []string{"OEL", "ORH", "SE"}

func c16Cold(d proj.Date) bool { return d.M >= 11 || d.M <= 2 }

// c16IsLate: a rotation entry sown only a few weeks before its (latest) harvest date.
func c16IsLate(e proj.RotEntry) bool { return e.Harvest.Z()-e.Sow.Z() <= 30 }

// c16InsertLateEntries puts entries into the rotation that are sown 5-25 days before their latest harvest
// date in the cold season (a catch crop or a main crop not used elsewhere in the rotation, each with its
// own crop code): in gaps in the middle of the rotation and behind its last entry (the end date is moved
// if necessary). Such a crop has usually not emerged on the eve of its latest harvest date. The windows
// of the neighbours stay outside the new entry (the property's premise).
func c16InsertLateEntries(r *vh.Rng, p *proj.Project, end proj.Date, table map[string]proj.AutoEntry, autoMan, autoHar bool) proj.Date {
	used := map[string]bool{}
	for _, e := range p.Rot {
		used[e.Crop] = true
	}
	var codes []string
	for _, cd := range c16CatchCrops {
		codes = append(codes, cd)
	}
	for _, cc := range proj.Crops {
		if !used[cc.Code] && r.Chance(0.3) {
			codes = append(codes, cc.Code)
		}
	}
	for i := len(codes) - 1; i > 0; i-- {
		j := r.Intn(i + 1)
		codes[i], codes[j] = codes[j], codes[i]
	}
	latestOf := func(e proj.RotEntry, first bool) int { // latest harvest day of an existing entry
		z := e.Harvest.Z()
		if first || !autoHar {
			return z
		}
		if a := table[e.Crop]; a.Har2M != 0 {
			if l := (proj.Date{Y: e.Harvest.Y, M: a.Har2M, D: a.Har2D}).Z(); l > z {
				return l
			}
		}
		return z
	}
	openOf := func(e proj.RotEntry) int { // first day of the sowing window of an existing entry
		z := e.Sow.Z()
		if autoMan {
			if a := table[e.Crop]; a.Sow1M != 0 {
				if o := (proj.Date{Y: e.Sow.Y, M: a.Sow1M, D: a.Sow1D}).Z(); o < z {
					return o
				}
			}
		}
		return z
	}
	weatherEnd := proj.Date{Y: end.Y + 1, M: 11, D: 30}.Z()
	var out []proj.RotEntry
	n := len(p.Rot)
	for i := 0; i < n; i++ {
		out = append(out, p.Rot[i])
		if len(codes) == 0 || !r.Chance(0.45) {
			continue
		}
		lo := latestOf(p.Rot[i], i == 0) + 7
		hi := weatherEnd
		if i+1 < n {
			hi = openOf(p.Rot[i+1]) - 7
		}
		// the cold days of the gap that leave room for 5..25 days of growth
		var cand []int
		for z := lo; z+6 <= hi && z < lo+400; z++ {
			if d := proj.FromZ(z); c16Cold(d) && !(d.M == 2 && d.D > 20) && !(d.M == 12 && d.D > 26) && !(d.M == 1 && d.D < 6) {
				cand = append(cand, z)
			}
		}
		if len(cand) == 0 {
			continue
		}
		s := cand[r.Intn(len(cand))]
		l := s + r.Range(5, 25)
		if l > hi {
			l = hi
		}
		out = append(out, proj.RotEntry{Crop: codes[0], Sow: proj.FromZ(s), Harvest: proj.FromZ(l), Rex: r.Intn(100)})
		codes = codes[1:]
		if i+1 == n && l+3 > end.Z() {
			end = proj.FromZ(l + r.Range(3, 30))
		}
	}
	p.Rot = out
	return end
}

// c16LateRows writes the automan.txt rows of the late-sown entries: sowing fixed ("0000") or a window of a
// few days around the sowing date that ends at least five days before the latest harvest date; latest
// harvest date = the harvest date of the rotation file ("0000" or its day and month).
func c16LateRows(r *vh.Rng, p *proj.Project, table map[string]proj.AutoEntry, entries []proj.AutoEntry) []proj.AutoEntry {
	for i := 1; i < len(p.Rot); i++ {
		e := p.Rot[i]
		if !c16IsLate(e) {
			continue
		}
		a := genAutoEntry(r, proj.CropCal{Code: e.Crop, SowM: e.Sow.M, SowD: e.Sow.D, HarM: e.Harvest.M, HarD: e.Harvest.D, Winter: true})
		a.TAccu = 0
		a.Sow1M, a.Sow1D, a.Sow2M, a.Sow2D = 0, 0, 0, 0
		if r.Chance(0.5) {
			s1, s2 := e.Sow.AddDays(-r.Intn(5)), e.Sow.AddDays(r.Intn(3))
			if s1.Y == e.Sow.Y && s2.Y == e.Sow.Y && s2.Z()+5 <= e.Harvest.Z() {
				a.Sow1M, a.Sow1D, a.Sow2M, a.Sow2D = s1.M, s1.D, s2.M, s2.D
			}
		}
		a.Har2M, a.Har2D = 0, 0
		if r.Chance(0.5) {
			a.Har2M, a.Har2D = e.Harvest.M, e.Harvest.D
		}
		if _, ok := table[e.Crop]; ok {
			for j := range entries {
				if entries[j].Crop == e.Crop {
					entries[j] = a
				}
			}
		} else {
			entries = append(entries, a)
		}
		table[e.Crop] = a
	}
	return entries
}

// c16Exp: the rotation arrays the rotation file and automan.txt configure, and the property's premise per entry.
type c16Exp struct {
	S, S1, S2, E, E2 []int
	Premise          []bool
	LastBase         int
}

func c16Expect(p *proj.Project, cs *c16Case) *c16Exp {
	autoMan, autoHar, table, s0 := cs.AutoMan, cs.AutoHar, cs.Table, cs.S0
	nRot := len(p.Rot)
	expS, expS1, expS2, expE, expE2 := make([]int, nRot), make([]int, nRot), make([]int, nRot), make([]int, nRot), make([]int, nRot)
	expE[0], expE2[0] = s0, s0
	if autoHar {
		expE2[0] = 0 // input.go:419-426 is skipped for every entry with AutoHarvest, the start entry gets ERNTE only (:548)
	}
	for i := 1; i < nRot; i++ {
		a := table[p.Rot[i].Crop]
		sow, har := p.Rot[i].Sow, p.Rot[i].Harvest
		if autoMan {
			if a.Sow1M == 0 {
				expS[i], expS1[i], expS2[i] = sow.Z(), sow.Z()-1, sow.Z()
			} else {
				expS1[i] = proj.Date{Y: sow.Y, M: a.Sow1M, D: a.Sow1D}.Z()
				expS2[i] = proj.Date{Y: sow.Y, M: a.Sow2M, D: a.Sow2D}.Z()
			}
		} else {
			expS[i] = sow.Z()
		}
		if autoHar {
			if a.Har2M == 0 {
				expE2[i] = har.Z()
			} else {
				expE2[i] = proj.Date{Y: har.Y, M: a.Har2M, D: a.Har2D}.Z()
			}
		} else {
			expE[i], expE2[i] = har.Z(), har.Z()
		}
	}
	// placeholder entry behind the last rotation entry (input.go, `if SCHLAG != g.PKT`): window one year after the
	// last sowing date / the end of the last sowing window
	lastBase := expS[nRot-1]
	if lastBase == 0 {
		lastBase = expS2[nRot-1]
	}
	// the property's premise per entry: the sowing window opens after the latest harvest date of the predecessor
	premise := make([]bool, nRot+2)
	for i := 1; i < nRot; i++ {
		prevLatest := expE2[i-1]
		if expE[i-1] > prevLatest {
			prevLatest = expE[i-1]
		}
		open := expS1[i]
		if !autoMan {
			open = expS[i]
		} else if expS[i] > 0 {
			open = expS[i]
		}
		premise[i] = open > prevLatest
		if autoMan && expS[i] == 0 && !(expS1[i] <= expS2[i] && expS2[i] < expE2i(expE[i], expE2[i])-1) {
			premise[i] = false // window not before the latest harvest date: configuration outside the property
		}
	}

	return &c16Exp{S: expS, S1: expS1, S2: expS2, E: expE, E2: expE2, Premise: premise, LastBase: lastBase}
}

func expE2i(e, e2 int) int {
	if e2 > 0 {
		return e2
	}
	return e
}

func cropOf(p *proj.Project, i int) string {
	if i >= 0 && i < len(p.Rot) {
		return p.Rot[i].Crop
	}
	return ""
}

func minISch(a, b int) int {
	if a < b {
		return a
	}
	return b
}

// c16ScenarioFiles: the files the run reads become crop_<p>.alt / poly_<p>.alt / automan.alt; automan.txt is rewritten as the
// table of ANOTHER scenario (sowing windows a month earlier, latest harvest later, other irrigation maximum, other N demand).
func c16ScenarioFiles(root string, p *proj.Project, entries []proj.AutoEntry) error {
	d := filepath.Join(root, "project", p.Name)
	for _, f := range []string{"crop_" + p.Name, "poly_" + p.Name, "automan"} {
		b, err := os.ReadFile(filepath.Join(d, f+".txt"))
		if err != nil {
			return err
		}
		if err := os.WriteFile(filepath.Join(d, f+".alt"), b, 0o644); err != nil {
			return err
		}
	}
	other := make([]proj.AutoEntry, len(entries))
	for i, e := range entries {
		shift := func(m, dd, by int) (int, int) {
			z := proj.Date{Y: 2001, M: m, D: dd}.AddDays(by)
			return z.M, z.D
		}
		e.Sow1M, e.Sow1D = shift(e.Sow1M, e.Sow1D, -35)
		e.Sow2M, e.Sow2D = shift(e.Sow2M, e.Sow2D, -35)
		e.Har2M, e.Har2D = shift(e.Har2M, e.Har2D, 25)
		e.IrrMax = e.IrrMax/2 + 7
		e.NDem1 += 40
		other[i] = e
	}
	return p.WriteAutoman(root, other)
}
