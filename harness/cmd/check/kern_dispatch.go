package main

// Shared machinery of the C03 / C11 checks: project roots for the built hermes2go binary, batch
// runs in a subprocess with a wall-time limit, result-file hashing, summary parsing.

import (
	"bytes"
	"crypto/sha256"
	"encoding/hex"
	"fmt"
	"os"
	"os/exec"
	"path/filepath"
	"regexp"
	"sort"
	"strconv"
	"strings"
	"time"

	"verifharness/proj"
	"verifharness/vh"
)

// batchLine is one line of a batch file together with the files it is expected to own.
type batchLine struct {
	Key        string            // identity of the line (distinct lines have distinct keys)
	Args       []string          // the tokens of the line
	Class      string            // "valid" or the error class the line is built to fail in
	Solo       map[string]string // relative path -> sha256 of the solo run (filled by soloRuns)
	SoloErr    string            // error text of the solo run's summary ("" = success)
	SoloStderr string            // stderr of the solo run (tail)
	SoloHow    string            // command line and batch-file shape of the solo run
}

func (l *batchLine) Text() string { return strings.Join(l.Args, " ") }

// batchOutcome is everything observable of one process run.
type batchOutcome struct {
	Stdout, Stderr string
	Err            error
	TimedOut       bool
	Wall           time.Duration
	Files          map[string]string // relative path -> sha256 of every file below a RESULT folder
	SummaryOK      bool              // "Number of errors:" found
	HeaderSeen     bool              // "Error Summary:" printed (it is, as soon as one result was collected)
	ErrIDs         []int             // ids listed in the summary, in printed order
	ErrMsg         map[int]string
	Count          int      // the number printed after "Number of errors:"
	Finished       bool     // "Execution time:" printed (main returned normally)
	Cmd            []string // the command line
	BatchText      string   // the batch file as written
	BatchShape     string   // its shape in words
}

var logStampRe = regexp.MustCompile(`^\d{4}/\d\d/\d\d \d\d:\d\d:\d\d `)
var sumLineRe = regexp.MustCompile(`^\[(\d+)\] Error: (.*)$`)
var numErrRe = regexp.MustCompile(`^Number of errors: (-?\d+)`)

func parseSummary(o *batchOutcome) {
	o.ErrMsg = map[int]string{}
	in := false
	for _, ln := range strings.Split(o.Stdout, "\n") {
		ln = strings.TrimRight(ln, "\r ")
		if ln == "Error Summary:" {
			in = true
			o.HeaderSeen = true
			continue
		}
		if m := numErrRe.FindStringSubmatch(ln); m != nil {
			o.Count, _ = strconv.Atoi(m[1])
			o.SummaryOK = true
			in = false
			continue
		}
		if strings.HasPrefix(ln, "Execution time:") {
			o.Finished = true
		}
		if in {
			if m := sumLineRe.FindStringSubmatch(ln); m != nil {
				id, _ := strconv.Atoi(m[1])
				o.ErrIDs = append(o.ErrIDs, id)
				o.ErrMsg[id] = m[2]
			}
		}
	}
}

// hashResults returns sha256 of every regular file below any directory named RESULT (and below
// root/out, the target of resultfolder= overrides) of the root.
func hashResults(root string) map[string]string {
	out := map[string]string{}
	filepath.Walk(root, func(p string, info os.FileInfo, err error) error {
		if err != nil || info.IsDir() {
			return nil
		}
		rel, _ := filepath.Rel(root, p)
		parts := strings.Split(rel, string(filepath.Separator))
		inRes := false
		for _, s := range parts[:len(parts)-1] {
			if s == "RESULT" || s == "out" {
				inRes = true
			}
		}
		if !inRes {
			return nil
		}
		b, err := os.ReadFile(p)
		if err != nil {
			return nil
		}
		h := sha256.Sum256(b)
		out[rel] = hex.EncodeToString(h[:])
		return nil
	})
	return out
}

// inputSnapshot hashes every file of the root that is NOT a result file (inputs must never change).
func inputSnapshot(root string) map[string]string {
	out := map[string]string{}
	filepath.Walk(root, func(p string, info os.FileInfo, err error) error {
		if err != nil || info.IsDir() || info.Mode()&os.ModeSymlink != 0 {
			return nil
		}
		rel, _ := filepath.Rel(root, p)
		if strings.Contains(rel, "RESULT"+string(filepath.Separator)) || strings.HasPrefix(rel, "out"+string(filepath.Separator)) || strings.HasPrefix(rel, "batch-") {
			return nil
		}
		b, err := os.ReadFile(p)
		if err != nil {
			return nil
		}
		h := sha256.Sum256(b)
		out[rel] = hex.EncodeToString(h[:])
		return nil
	})
	return out
}

func cleanResults(root string) {
	ds, _ := filepath.Glob(filepath.Join(root, "project", "*", "RESULT"))
	for _, d := range ds {
		os.RemoveAll(d)
	}
	os.RemoveAll(filepath.Join(root, "out"))
}

var batchSeq int64

// runBatch writes the lines to a batch file in the root and runs the binary on it. The shape of the
// file (separators, line ends, empty lines, final newline) and of the command line (option order,
// -workingdir given or implied by the batch file's folder, relative batch path, -logoutput) is drawn per
// batch from the check's seed: kern_dispatch_cmdline.go.
func runBatch(bin, root string, lines []*batchLine, conc int, gomaxprocs int, extraEnv []string, timeout time.Duration, tag string, extraArgs ...string) *batchOutcome {
	texts := make([]string, 0, len(lines)+3)
	for _, l := range lines {
		texts = append(texts, l.Text())
	}
	r := styleRng(append(texts, tag, strconv.Itoa(conc), strings.Join(extraArgs, " "))...)
	content, shape := renderBatchFile(r, lines)
	bf := filepath.Join(root, "batch-"+tag+".txt")
	os.WriteFile(bf, []byte(content), 0o644)
	defer os.Remove(bf)
	o := execOutcome(bin, root, batchCommand(r, root, bf, conc, extraArgs), gomaxprocs, extraEnv, timeout)
	o.BatchText, o.BatchShape = content, shape
	return o
}

// runBatchCanonical is the reference form of a run — the batch file with one blank between the tokens, LF line
// ends, a final newline and no empty line; `hermes2go -module batch -batch <file> -workingdir <root>
// -concurrent 1 [extra arguments]`. The solo baseline of every line is taken in this form, so that a batch in
// any other shape (tabs, several blanks, CRLF, another option order) is compared with what the line means.
func runBatchCanonical(bin, root string, lines []*batchLine, timeout time.Duration, tag string, extraArgs ...string) *batchOutcome {
	var sb strings.Builder
	for _, l := range lines {
		sb.WriteString(l.Text())
		sb.WriteByte('\n')
	}
	bf := filepath.Join(root, "batch-"+tag+".txt")
	os.WriteFile(bf, []byte(sb.String()), 0o644)
	defer os.Remove(bf)
	o := execOutcome(bin, root, append([]string{"-module", "batch", "-batch", bf, "-workingdir", root, "-concurrent", "1"}, extraArgs...), 0, nil, timeout)
	o.BatchText, o.BatchShape = sb.String(), "canonical"
	return o
}

// execOutcome starts the binary in the root with the given arguments and collects everything observable.
func execOutcome(bin, root string, args []string, gomaxprocs int, extraEnv []string, timeout time.Duration) *batchOutcome {
	cmd := exec.Command(bin, args...)
	cmd.Dir = root
	env := []string{}
	for _, e := range os.Environ() {
		if strings.HasPrefix(e, "GOMAXPROCS=") || strings.HasPrefix(e, "GORACE=") {
			continue
		}
		env = append(env, e)
	}
	if gomaxprocs > 0 {
		env = append(env, "GOMAXPROCS="+strconv.Itoa(gomaxprocs))
	}
	env = append(env, extraEnv...)
	cmd.Env = env
	var so, se bytes.Buffer
	cmd.Stdout = &so
	cmd.Stderr = &se
	o := &batchOutcome{Cmd: append([]string{"hermes2go"}, args...)}
	t0 := time.Now()
	if err := cmd.Start(); err != nil {
		o.Err = err
		return o
	}
	done := make(chan error, 1)
	go func() { done <- cmd.Wait() }()
	select {
	case err := <-done:
		o.Err = err
	case <-time.After(timeout):
		cmd.Process.Kill()
		<-done
		o.TimedOut = true
		o.Err = fmt.Errorf("timeout after %v", timeout)
	}
	o.Wall = time.Since(t0)
	o.Stdout, o.Stderr = so.String(), se.String()
	parseSummary(o)
	o.Files = hashResults(root)
	return o
}

// soloRuns executes every line alone (its own process, concurrency 1, cold cache, canonical form of the
// batch file and of the command line) in the given root and records the files it writes and its summary.
// Lines must own disjoint files.
func soloRuns(bin, root string, lines []*batchLine, timeout time.Duration) {
	cleanResults(root)
	seen := map[string]bool{}
	for i, l := range lines {
		o := runBatchCanonical(bin, root, []*batchLine{l}, timeout, fmt.Sprintf("solo%d", i))
		l.Solo = map[string]string{}
		for f, h := range o.Files {
			if !seen[f] {
				l.Solo[f] = h
				seen[f] = true
			}
		}
		l.SoloErr = ""
		l.SoloStderr = tail(o.Stderr, 4000)
		l.SoloHow = strings.Join(o.Cmd, " ") + " | batch file: " + o.BatchShape + " " + strconv.Quote(o.BatchText)
		switch {
		case o.TimedOut:
			l.SoloErr = "TIMEOUT"
		case !o.SummaryOK:
			l.SoloErr = "DIED: " + firstLineDsp(o.Stderr)
		case !o.HeaderSeen || o.Count != len(o.ErrIDs) || !o.Finished:
			// one line was executed, so exactly one result must have been collected before the summary
			l.SoloErr = fmt.Sprintf("BADSUMMARY: header printed=%v, `Number of errors: %d`, %d error line(s), finished=%v", o.HeaderSeen, o.Count, len(o.ErrIDs), o.Finished)
		case len(o.ErrIDs) > 0:
			l.SoloErr = o.ErrMsg[o.ErrIDs[0]]
		}
	}
	cleanResults(root)
}

func lastLine(s string) string {
	s = strings.TrimSpace(s)
	if i := strings.LastIndex(s, "\n"); i >= 0 {
		s = s[i+1:]
	}
	if len(s) > 300 {
		s = s[:300]
	}
	return s
}

// firstLine: the first non-empty line of the process's stderr (the log.Fatal text or `panic: …`).
func firstLineDsp(s string) string {
	for _, ln := range strings.Split(s, "\n") {
		ln = strings.TrimSpace(logStampRe.ReplaceAllString(ln, ""))
		if ln != "" {
			if len(ln) > 300 {
				ln = ln[:300]
			}
			return ln
		}
	}
	return ""
}

func tail(s string, n int) string {
	if len(s) > n {
		return s[len(s)-n:]
	}
	return s
}

// variantParameterFolder creates root/<name> as a copy of the shipped parameter folder with the
// given edit applied to one file (same base names, different content).
func variantParameterFolder(root, repo, name string, edit func(file string, content []byte) []byte) error {
	src := filepath.Join(repo, "examples", "parameter")
	dst := filepath.Join(root, name)
	if err := os.MkdirAll(dst, 0o755); err != nil {
		return err
	}
	es, err := os.ReadDir(src)
	if err != nil {
		return err
	}
	for _, e := range es {
		if e.IsDir() {
			continue
		}
		b, err := os.ReadFile(filepath.Join(src, e.Name()))
		if err != nil {
			return err
		}
		if edit != nil {
			b = edit(e.Name(), b)
		}
		if b == nil {
			continue
		}
		if err := os.WriteFile(filepath.Join(dst, e.Name()), b, 0o644); err != nil {
			return err
		}
	}
	return nil
}

// genShortProject draws a small valid project (2 simulated years, few layers) so that one run
// takes a few ten milliseconds.
func genShortProject(r *vh.Rng, name string) *proj.Project {
	p := proj.Gen(r, name, proj.Opt{Years: 2, MaxLayers: 12, MinLayers: 3, Management: r.Chance(0.5)})
	// every optional input source a run can read appears in the batches: a groundwater time series (several
	// dates, read into a map), a sinusoidal groundwater regime from the polygon file
	switch r.Intn(4) {
	case 0:
		p.SetGroundwaterSeries(r, 4, 18, r.Range(4, 10))
	case 1:
		p.SetGroundwaterPolygon(r.Range(3, 8), r.Range(9, 20), r.Range(0, 360))
	}
	// the result files of these projects are written by the real file writer of the binary: every style and
	// extension it has (path.go:108-134; an empty extension is resolved by the style: csv / RES)
	switch r.Intn(8) {
	case 0:
		p.Cfg["ResultFileFormat"], p.Cfg["ResultFileExt"] = "0", "\"RES\""
	case 1:
		p.Cfg["ResultFileFormat"], p.Cfg["ResultFileExt"] = "0", "\"\""
	case 2:
		p.Cfg["ResultFileExt"] = "\"out\""
	case 3:
		p.Cfg["ResultFileExt"] = "\"\""
	}
	return p
}

func sortedKeysS(m map[string]string) []string {
	ks := make([]string, 0, len(m))
	for k := range m {
		ks = append(ks, k)
	}
	sort.Strings(ks)
	return ks
}

// compareWithSolo checks the files of a batch outcome against the solo files of its lines.
// It returns human-readable discrepancies keyed by kind: "missing", "differs", "foreign".
func compareWithSolo(o *batchOutcome, lines []*batchLine, skipKeys map[string]bool) (missing, differs, foreign []string) {
	want := map[string]string{}
	for _, l := range lines {
		if skipKeys[l.Key] {
			continue
		}
		for f, h := range l.Solo {
			want[f] = h
		}
	}
	skipFiles := map[string]bool{}
	for _, l := range lines {
		if skipKeys[l.Key] {
			for f := range l.Solo {
				skipFiles[f] = true
			}
		}
	}
	for _, f := range sortedKeysS(want) {
		got, ok := o.Files[f]
		if !ok {
			missing = append(missing, f)
		} else if got != want[f] {
			differs = append(differs, f)
		}
	}
	for _, f := range sortedKeysS(o.Files) {
		if _, ok := want[f]; !ok && !skipFiles[f] {
			foreign = append(foreign, f)
		}
	}
	return
}
