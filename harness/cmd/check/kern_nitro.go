package main

import (
	"fmt"
	"math"
	"strings"

	"github.com/zalf-rpm/Hermes2Go/hermes"
	"verifharness/vh"
)

// ---------------------------------------------------------------- nmove

// nmoveCase: inputs of one call of the unexported hermes.nmove (through hermes.VerifNmove);
// see lean/HermesModel/Nitro.lean, structure In.
type nmoveCase struct {
	N        int       `json:"N"`
	First    bool      `json:"first"`
	Draidep  int       `json:"draidep"`
	Outn     int       `json:"outn"`
	InSeason bool      `json:"in_season"`
	AfterSow bool      `json:"after_sowing"`
	NotSown  bool      `json:"not_sown_yet,omitempty"` // automatic sowing, next crop not sown: SAAT = 0, inside its harvest window
	Dz       float64   `json:"dz"`
	Wdt      float64   `json:"wdt"`
	Dv       float64   `json:"dv"`
	Fluss0   float64   `json:"fluss0"`
	Qdrain   float64   `json:"qdrain"`
	Stab     float64   `json:"c1_stability_val"`
	Schnorr  float64   `json:"schnorr"`
	Pesum    float64   `json:"pesum"`
	Aufnasum float64   `json:"aufnasum"`
	Outsum   float64   `json:"outsum"`
	Nleag    float64   `json:"nleag"`
	Drainl   float64   `json:"drainloss"`
	Q        []float64 `json:"q1"`  // Q1[1..N]
	Wg       []float64 `json:"wg"`  // N+1
	W        []float64 `json:"w"`   // N+1
	Ad       []float64 `json:"ad"`  // N
	C1       []float64 `json:"c1"`  // N
	Pe       []float64 `json:"pe"`  // N
	Dn       []float64 `json:"dn"`  // N
	Class    string    `json:"class"`
	D        []float64 `json:"d_from_impl,omitempty"` // l.D as computed by the implementation
}

type nmoveOut struct {
	C1, Pe, V, Db, Disp, Konv                []float64
	Pesum, Aufnasum, Outsum, Nleag, Drainl   float64
	Unstable                                 bool
	D                                        []float64
}

func flowClass(fluss0 float64, q []float64) string {
	up, down := false, false
	for _, x := range q {
		if x < 0 {
			up = true
		}
		if x > 0 {
			down = true
		}
	}
	s := "still"
	switch {
	case up && down:
		s = "mixed"
	case up:
		s = "upward"
	case down:
		s = "downward"
	}
	switch {
	case fluss0 > 0:
		return "infiltration/" + s
	case fluss0 < 0:
		return "evaporation/" + s
	}
	return "noflux/" + s
}

// genNmoveCase draws a transport state. Drain flux is only generated where the water routine can
// produce it (infiltration reaching the drain layer, Q1[DRAIDEP] ≥ 0); the combination drain flux +
// upward flux at the drain layer is produced by the chained Water→nmove generator instead.
func genNmoveCase(r *vh.Rng, balanceOnly bool) nmoveCase {
	n := r.Range(2, 20)
	if r.Chance(0.15) {
		n = []int{2, 3, 20}[r.Intn(3)]
	}
	if !balanceOnly && r.Chance(0.05) {
		n = 1
	}
	c := nmoveCase{N: n, Dz: 10, Dv: 4.9, First: r.Chance(0.5), Stab: -1.5}
	if r.Chance(0.2) {
		c.Stab = -vh.RoundTo(r.Uni(0.001, 5), 3)
	}
	steps := []int{1, 1, 1, 2, 3, 4, 8, 16, 50}[r.Intn(9)]
	c.Wdt = 1 / float64(steps)
	calm := r.Chance(0.6) // small fluxes: no clamp expected
	scale := 1.0
	if calm {
		scale = 0.15
	}
	switch r.Intn(6) {
	case 0:
		c.Fluss0 = 0
	case 1, 2, 3:
		c.Fluss0 = vh.RoundTo(r.Uni(0.001, 6)*scale, 4)
	default:
		c.Fluss0 = -vh.RoundTo(r.Uni(0.001, 0.65), 4)
	}
	// flux pattern
	pat := r.Intn(5)
	turn := r.Range(1, n)
	a := math.Abs(c.Fluss0) * c.Wdt
	if c.Fluss0 <= 0 {
		a = r.Uni(0, 0.4) * c.Wdt
	}
	for z := 1; z <= n; z++ {
		var q float64
		switch pat {
		case 0: // downward, decreasing
			a *= r.Uni(0.5, 1)
			q = a
			if c.Fluss0 <= 0 {
				q = 0
			}
		case 1: // downward above `turn`, capillary rise below
			if z < turn && c.Fluss0 > 0 {
				a *= r.Uni(0.5, 1)
				q = a
			} else {
				q = -r.Uni(0, 0.5) * c.Wdt * scale
			}
		case 2: // evaporation pull near the surface, nothing below
			if z < turn && c.Fluss0 < 0 {
				q = -r.Uni(0, -c.Fluss0) * c.Wdt
			}
		case 3: // arbitrary signs
			q = r.Uni(-1, 1) * c.Wdt * scale
			if r.Chance(0.2) {
				q = 0
			}
		default: // upward everywhere
			q = -r.Uni(0, 0.4) * c.Wdt * scale
		}
		c.Q = append(c.Q, vh.RoundTo(q, 6))
	}
	if r.Chance(0.35) {
		c.Draidep = r.Range(1, n)
		if c.Fluss0 > 0 && c.Q[c.Draidep-1] >= 0 && r.Chance(0.8) {
			ok := true
			for z := 0; z < c.Draidep-1; z++ {
				if c.Q[z] <= 0 {
					ok = false
				}
			}
			if ok {
				c.Qdrain = vh.RoundTo(r.Uni(0, 1)*c.Wdt*scale, 6)
			}
		}
	}
	c.Outn = n
	if !balanceOnly && r.Chance(0.3) {
		c.Outn = r.Range(1, n)
	}
	for z := 0; z <= n; z++ {
		w := vh.RoundTo(r.Uni(0.1, 0.5), 3)
		wg := vh.RoundTo(r.Uni(0.05, w+0.05), 4)
		c.W = append(c.W, w)
		c.Wg = append(c.Wg, wg)
	}
	for z := 0; z < n; z++ {
		c.Ad = append(c.Ad, vh.RoundTo(r.Uni(0.0005, 0.008), 4))
		c1 := vh.RoundTo(r.Uni(0, 80), 3)
		switch r.Intn(8) {
		case 0:
			c1 = 0
		case 1:
			c1 = vh.RoundTo(r.Uni(0, 0.6), 3)
		case 2:
			c1 = 0.5
		}
		pe := 0.0
		if r.Chance(0.5) {
			pe = vh.RoundTo(r.Uni(0, 4), 3)
			if r.Chance(0.2) {
				pe = vh.RoundTo(c1+r.Uni(-1, 1), 3)
			}
			if pe < 0 {
				pe = 0
			}
		}
		dn := 0.0
		if z < 4 && r.Chance(0.8) {
			dn = vh.RoundTo(r.Uni(0, 1.5), 4)
			if r.Chance(0.05) {
				dn = -vh.RoundTo(r.Uni(0, 0.01), 5)
			}
		}
		c.C1 = append(c.C1, c1)
		c.Pe = append(c.Pe, pe)
		c.Dn = append(c.Dn, dn)
	}
	switch r.Intn(5) {
	case 0:
		c.InSeason, c.AfterSow = true, true
	case 1:
		c.InSeason, c.AfterSow = true, false // the sowing day itself
	case 2:
		c.InSeason, c.AfterSow = false, true // after the latest harvest date
	case 3:
		c.InSeason, c.AfterSow, c.NotSown = false, true, true // automatic sowing: no sowing date yet (SAAT = 0)
	}
	// SCHNORR keeps the fixation of the last crop day until the crop routine runs again (crop.go:742): it is non-zero
	// outside the season too
	if r.Chance(0.6) {
		c.Schnorr = vh.RoundTo(r.Uni(0, 4), 3)
	}
	c.Pesum = vh.RoundTo(r.Uni(0, 200), 2)
	c.Aufnasum = vh.RoundTo(r.Uni(0, 900), 2)
	c.Outsum = vh.RoundTo(r.Uni(0, 90), 3)
	c.Nleag = vh.RoundTo(r.Uni(0, 90), 3)
	c.Drainl = vh.RoundTo(r.Uni(0, 30), 3)
	c.Class = flowClass(c.Fluss0, c.Q)
	return c
}

func b01(b bool) int {
	if b {
		return 1
	}
	return 0
}

// line needs c.D (from the implementation run).
func (c *nmoveCase) line() string {
	var sb strings.Builder
	fmt.Fprintf(&sb, "nitro.nmove %d %d %d %d %d %d %s", c.N, b01(c.First), c.Draidep, c.Outn, b01(c.InSeason), b01(c.AfterSow),
		vh.FVals(c.Dz, c.Wdt, c.Dv, c.Fluss0, c.Qdrain, c.Stab, c.Schnorr, c.Pesum, c.Aufnasum, c.Outsum, c.Nleag, c.Drainl))
	for _, l := range [][]float64{c.Q, c.Wg, c.W, c.D, c.C1, c.Pe, c.Dn} {
		sb.WriteByte(' ')
		sb.WriteString(vh.FVals(l...))
	}
	return sb.String()
}

const nmoveZeit = 1000

// runNmoveImpl calls the real nmove on the case.
// newNmoveState builds the state one call of nmove reads.
func newNmoveState(c *nmoveCase) (gp *hermes.GlobalVarsMain, lp *hermes.NitroSharedVars, subd int) {
	g := hermes.NewGlobalVarsMain()
	var l hermes.NitroSharedVars
	g.N = c.N
	g.DZ = hermes.NewDualType(int(c.Dz), 0)
	g.DV = c.Dv
	g.FLUSS0 = c.Fluss0
	g.QDRAIN = c.Qdrain
	g.DRAIDEP = c.Draidep
	g.OUTN = c.Outn
	g.C1stabilityVal = c.Stab
	g.SCHNORR = c.Schnorr
	g.PESUM, g.AUFNASUM, g.OUTSUM, g.NLEAG, g.DRAINLOSS = c.Pesum, c.Aufnasum, c.Outsum, c.Nleag, c.Drainl
	g.Q1[0] = -77 // overwritten by nmove
	for z := 0; z <= c.N; z++ {
		g.WG[0][z] = c.Wg[z]
		g.W[z] = c.W[z]
	}
	for z := 0; z < c.N; z++ {
		g.Q1[z+1] = c.Q[z]
		g.AD[z] = c.Ad[z]
		g.C1[z] = c.C1[z]
		g.PE[z] = c.Pe[z]
		g.DN[z] = c.Dn[z]
	}
	switch {
	case c.NotSown:
		g.SAAT[0], g.ERNTE2[0] = 0, nmoveZeit+100
	case c.InSeason && c.AfterSow:
		g.SAAT[0], g.ERNTE2[0] = nmoveZeit-100, nmoveZeit+100
	case c.InSeason:
		g.SAAT[0], g.ERNTE2[0] = nmoveZeit, nmoveZeit+100
	case c.AfterSow:
		g.SAAT[0], g.ERNTE2[0] = nmoveZeit-100, nmoveZeit-10
	default:
		g.SAAT[0], g.ERNTE2[0] = nmoveZeit+100, nmoveZeit+200
	}
	subd = 1
	if !c.First {
		subd = 2
	}
	return &g, &l, subd
}

func runNmoveImpl(c *nmoveCase) (o nmoveOut, panicked string) {
	defer func() {
		if r := recover(); r != nil {
			panicked = fmt.Sprint(r)
		}
	}()
	gp, lp, subd := newNmoveState(c)
	hermes.VerifNmove(c.Wdt, subd, nmoveZeit, gp, lp)
	g, l := *gp, *lp
	o.C1 = append(o.C1, g.C1[:c.N]...)
	o.Pe = append(o.Pe, g.PE[:c.N]...)
	o.V = append(o.V, l.V[:c.N]...)
	o.Db = append(o.Db, l.DB[:c.N]...)
	o.Disp = append(o.Disp, l.DISP[:c.N]...)
	o.Konv = append(o.Konv, l.KONV[:c.N]...)
	o.D = append(o.D, l.D[:c.N]...)
	o.Pesum, o.Aufnasum, o.Outsum, o.Nleag, o.Drainl = g.PESUM, g.AUFNASUM, g.OUTSUM, g.NLEAG, g.DRAINLOSS
	o.Unstable = g.C1NotStable != ""
	return o, ""
}

// carr recomputes Carray[1..N] from the implementation's post-uptake state (nitro.go:728-731).
func (c *nmoveCase) carr(c1u []float64) []float64 {
	out := make([]float64, c.N)
	for z := 0; z < c.N; z++ {
		v := (c1u[z] + c.Dn[z]*c.Wdt/2) / (c.Wg[z] * c.Dz * 100)
		if v < 0 {
			v = 0
		}
		out[z] = v
	}
	return out
}

func (o *nmoveOut) line(c *nmoveCase, carr []float64) string {
	var all []float64
	all = append(all, o.C1...)
	all = append(all, o.Pe...)
	all = append(all, carr...)
	all = append(all, o.V...)
	all = append(all, o.Db...)
	all = append(all, o.Disp...)
	all = append(all, o.Konv...)
	all = append(all, o.Pesum, o.Aufnasum, o.Outsum, o.Nleag, o.Drainl)
	return vh.FVals(all...) + fmt.Sprintf(" %d", b01(o.Unstable))
}

// nmoveVerdict: the C02 / C07 predicates of one nmove call, evaluated on the implementation's answer.
type nmoveVerdict struct {
	Residual   float64 // Σ C1 after − (Σ C1 − Σ PE' + wdt·Σ DN − ΔOUTSUM − ΔDRAINLOSS)
	Tol        float64
	Clamp      bool // some non-negativity clamp engaged (tolerated source of N)
	BelowStab  bool // some pre-clamp value below the instability threshold
	DispSum    float64
	DispScale  float64
	UptakeSum  float64 // Σ PE' (first sub-step) else 0
	NegAfter   bool
	NonFinite  bool
	DrainUp    bool // QDRAIN > 0 with Q1[DRAIDEP] < 0
}

func evalNmove(c *nmoveCase, o *nmoveOut) nmoveVerdict {
	var v nmoveVerdict
	c1u := make([]float64, c.N)
	before, after, peSum, dnSum := 0.0, 0.0, 0.0, 0.0
	scale := 1.0
	for z := 0; z < c.N; z++ {
		c1u[z] = c.C1[z]
		if c.First {
			peSum += o.Pe[z]
			if c.C1[z]-o.Pe[z] < 0 {
				c1u[z] = 0
				v.Clamp = true
			} else {
				c1u[z] = c.C1[z] - o.Pe[z]
			}
		}
		before += c.C1[z]
		after += o.C1[z]
		dnSum += c.Dn[z]
		scale += math.Abs(c.C1[z]) + math.Abs(o.C1[z]) + math.Abs(c.Dn[z]*c.Wdt)
		if o.C1[z] < 0 || o.Pe[z] < 0 {
			v.NegAfter = true
		}
		if !allFinite(o.C1[z], o.Pe[z], o.Disp[z], o.Konv[z]) {
			v.NonFinite = true
		}
	}
	if !allFinite(o.Pesum, o.Aufnasum, o.Outsum, o.Nleag, o.Drainl) {
		v.NonFinite = true
	}
	carr := c.carr(c1u)
	for z := 0; z < c.N; z++ {
		s := c1u[z] + c.Dn[z]*c.Wdt/2
		if s < 0 {
			v.Clamp = true
		}
		ck := (carr[z]*c.Wg[z] + o.Disp[z] - o.Konv[z]) * c.Dz * 100
		if ck < 0 {
			v.Clamp = true
			if ck < c.Stab {
				v.BelowStab = true
			}
			ck = 0
		}
		if ck+c.Dn[z]*c.Wdt/2 < 0 {
			v.Clamp = true
		}
		v.DispSum += o.Disp[z]
		v.DispScale += math.Abs(o.Disp[z])
		// the convective terms can be large compared with the storage: include them in the scale
		scale += math.Abs(o.Konv[z]*c.Dz*100) + math.Abs(o.Disp[z]*c.Dz*100)
	}
	dOut := o.Outsum - c.Outsum
	dDrain := o.Drainl - c.Drainl
	scale += math.Abs(dOut) + math.Abs(dDrain) + math.Abs(c.Outsum) + math.Abs(c.Drainl)
	v.UptakeSum = peSum
	v.Residual = after - (before - peSum + c.Wdt*dnSum - dOut - dDrain)
	v.Tol = 1e-9 * scale
	if c.Draidep >= 1 && c.Draidep <= c.N && c.Qdrain > 0 && c.Q[c.Draidep-1] < 0 {
		v.DrainUp = true
	}
	return v
}

// ---------------------------------------------------------------- mineral

type minLayer struct {
	TdUp, TdLo, Kt0, Kt1, Wg, Wnor, Wmin, Porges, W, Naos, Nfos, Minaos, Minfos float64
}

type mineralCase struct {
	Num       int        `json:"layers"`
	Dsumm     float64    `json:"dsumm"`
	Nh4sum    float64    `json:"nh4sum"`
	Wred      float64    `json:"wred"`
	Ums       float64    `json:"ums"`
	Nh4ums    float64    `json:"nh4ums"`
	N2onitsum float64    `json:"n2onitsum"`
	Minsum    float64    `json:"minsum"`
	Td        []float64  `json:"td"` // TD[0..num]
	L         []minLayer `json:"layer_state"`
	Class     string     `json:"class"`
}

type mineralOut struct {
	Naos, Nfos, Minaos, Minfos, Dn, Dums, Dnh4 []float64
	Ums, Nh4ums, N2onitsum, Minsum             float64
}

func genMineralCase(r *vh.Rng) mineralCase {
	c := mineralCase{Num: r.Range(1, 4)}
	if r.Chance(0.6) {
		c.Num = 3
	}
	c.Dsumm = vh.RoundTo(r.Uni(0, 400), 2)
	if r.Chance(0.15) {
		c.Dsumm = 0
	}
	c.Ums = vh.RoundTo(c.Dsumm*r.F(), 3)
	if r.Chance(0.2) {
		c.Ums = c.Dsumm
	}
	c.Nh4sum = vh.RoundTo(c.Dsumm*r.F(), 2)
	c.Nh4ums = vh.RoundTo(c.Nh4sum*r.F(), 3)
	c.N2onitsum = vh.RoundTo(r.Uni(0, 3), 4)
	c.Minsum = vh.RoundTo(r.Uni(0, 150), 3)
	frozenTop := r.Chance(0.3)
	temp := r.Uni(-12, 38)
	if frozenTop {
		temp = r.Uni(-15, 0.5)
	}
	c.Td = append(c.Td, vh.RoundTo(temp, 2))
	c.Class = "warm"
	if frozenTop {
		c.Class = "frozen-top"
	}
	for z := 0; z < c.Num; z++ {
		t := c.Td[z] + r.Uni(-3, 3)
		if r.Chance(0.1) {
			t = -c.Td[z] // mean exactly 0
		}
		c.Td = append(c.Td, vh.RoundTo(t, 2))
		var l minLayer
		l.TdUp, l.TdLo = c.Td[z], c.Td[z+1]
		l.Wmin = vh.RoundTo(r.Uni(0.02, 0.25), 3)
		l.W = vh.RoundTo(l.Wmin+r.Uni(0.05, 0.25), 3)
		l.Wnor = l.W
		if r.Chance(0.3) {
			l.Wnor = vh.RoundTo(l.W-r.Uni(0, 0.04), 3)
		}
		l.Porges = vh.RoundTo(l.W+r.Uni(0.02, 0.15), 3)
		switch r.Intn(7) {
		case 0:
			l.Wg = l.Wnor
		case 1:
			l.Wg = vh.RoundTo(r.Uni(l.Wmin/3, l.Wmin), 4) // drier than the wilting point
		case 2:
			l.Wg = vh.RoundTo(r.Uni(l.Wnor, l.Porges), 4) // wetter than field capacity
		case 3:
			l.Wg = l.Porges
		default:
			l.Wg = vh.RoundTo(r.Uni(l.Wmin, l.W), 4)
		}
		l.Naos = vh.RoundTo(r.Uni(0, 1500), 2)
		l.Nfos = vh.RoundTo(r.Uni(0, 120), 3)
		if r.Chance(0.15) {
			l.Nfos = 0
		}
		l.Minaos = vh.RoundTo(r.Uni(0, 80), 3)
		l.Minfos = vh.RoundTo(r.Uni(0, 80), 3)
		c.L = append(c.L, l)
	}
	// WRED: between wilting point and field capacity of the top layer (what calcWRed intends), or
	// two orders of magnitude smaller (what the two call sites that pass fractions produce)
	top := c.L[0]
	c.Wred = vh.RoundTo(top.Wmin+r.Uni(0.5, 0.7)*(top.W-top.Wmin), 4)
	if r.Chance(0.25) {
		c.Wred = vh.RoundTo(c.Wred/100, 6)
		c.Class += "/wred-small"
	}
	if r.Chance(0.1) {
		c.L[0].Wg = c.Wred
	}
	return c
}

func setupMineral(c *mineralCase) (hermes.GlobalVarsMain, hermes.NitroSharedVars) {
	g := hermes.NewGlobalVarsMain()
	var l hermes.NitroSharedVars
	g.IZM = c.Num * 10
	g.DSUMM, g.NH4Sum, g.WRED, g.UMS, g.NH4UMS, g.N2onitsum, g.MINSUM = c.Dsumm, c.Nh4sum, c.Wred, c.Ums, c.Nh4ums, c.N2onitsum, c.Minsum
	for z := 0; z <= c.Num; z++ {
		g.TD[z] = c.Td[z]
	}
	for z := 0; z < c.Num; z++ {
		x := c.L[z]
		g.WG[0][z], g.WNOR[z], g.WMIN[z], g.PORGES[z], g.W[z] = x.Wg, x.Wnor, x.Wmin, x.Porges, x.W
		g.NAOS[z], g.NFOS[z], g.MINAOS[z], g.MINFOS[z] = x.Naos, x.Nfos, x.Minaos, x.Minfos
	}
	return g, l
}

// mineralRates reads the two rate constants of every layer off the implementation: with unit pools,
// optimal moisture and empty counters `mineral` books exactly kt0·1·1 and kt1·1·1.
func mineralRates(c *mineralCase) {
	p := *c
	p.L = append([]minLayer(nil), c.L...)
	for z := range p.L {
		p.L[z].Naos, p.L[z].Nfos, p.L[z].Minaos, p.L[z].Minfos = 1, 1, 0, 0
		p.L[z].Wg = p.L[z].Wnor
	}
	p.Wred = 0
	g, l := setupMineral(&p)
	hermes.VerifMineral(&g, &l)
	for z := range c.L {
		c.L[z].Kt0, c.L[z].Kt1 = g.MINAOS[z], g.MINFOS[z]
	}
}

func runMineralImpl(c *mineralCase) (o mineralOut, panicked string) {
	defer func() {
		if r := recover(); r != nil {
			panicked = fmt.Sprint(r)
		}
	}()
	mineralRates(c)
	g, l := setupMineral(c)
	for z := 0; z < 4; z++ {
		g.DN[z] = -55 // stale values must be overwritten for z < num
	}
	hermes.VerifMineral(&g, &l)
	for z := 0; z < c.Num; z++ {
		o.Naos = append(o.Naos, g.NAOS[z])
		o.Nfos = append(o.Nfos, g.NFOS[z])
		o.Minaos = append(o.Minaos, g.MINAOS[z])
		o.Minfos = append(o.Minfos, g.MINFOS[z])
		o.Dn = append(o.Dn, g.DN[z])
		o.Dums = append(o.Dums, l.DUMS[z])
		o.Dnh4 = append(o.Dnh4, l.DNH4UMS[z])
	}
	o.Ums, o.Nh4ums, o.N2onitsum, o.Minsum = g.UMS, g.NH4UMS, g.N2onitsum, g.MINSUM
	return o, ""
}

func (c *mineralCase) line() string {
	var sb strings.Builder
	fmt.Fprintf(&sb, "nitro.mineral %d %s", c.Num, vh.FVals(c.Dsumm, c.Nh4sum, c.Wred, c.Ums, c.Nh4ums, c.N2onitsum, c.Minsum))
	for _, x := range c.L {
		sb.WriteByte(' ')
		sb.WriteString(vh.FVals(x.TdUp, x.TdLo, x.Kt0, x.Kt1, x.Wg, x.Wnor, x.Wmin, x.Porges, x.W, x.Naos, x.Nfos, x.Minaos, x.Minfos))
	}
	return sb.String()
}

func (o *mineralOut) line() string {
	var all []float64
	for z := range o.Naos {
		all = append(all, o.Naos[z], o.Nfos[z], o.Minaos[z], o.Minfos[z], o.Dn[z], o.Dums[z], o.Dnh4[z])
	}
	all = append(all, o.Ums, o.Nh4ums, o.N2onitsum, o.Minsum)
	return vh.FVals(all...)
}

// ---------------------------------------------------------------- tillage (branch of hermes.Nitro)

type tillCase struct {
	Eint   float64   `json:"depth_cm"`
	Mix    bool      `json:"mixing_type"`
	Nfos   []float64 `json:"nfos"`
	Naos   []float64 `json:"naos"`
	C1     []float64 `json:"c1"`
	Minfos []float64 `json:"minfos"`
	Minaos []float64 `json:"minaos"`
	Class  string    `json:"class"`
}

type tillOut struct {
	Panic                          string
	Nfos, Naos, C1, Minfos, Minaos []float64
}

func genTillCase(r *vh.Rng) tillCase {
	c := tillCase{Mix: r.Chance(0.8)}
	c.Eint = float64(r.Range(1, 44))
	switch r.Intn(8) {
	case 0:
		c.Eint = []float64{4, 5, 14, 15, 24, 25, 34, 35, 44}[r.Intn(9)] // rounding boundaries of round(depth/10)
	case 1:
		c.Eint = float64(r.Range(45, 200)) // deeper than the four slots of MINAOS/MINFOS, down to the deepest profile
	case 2:
		c.Eint = vh.RoundTo(r.Uni(1, 44), 1)
	}
	m := int(math.Round(c.Eint / 10))
	c.Class = fmt.Sprintf("layers=%d", m)
	if m > 4 {
		c.Class = "layers>4"
	}
	for z := 0; z < 21; z++ {
		c.Nfos = append(c.Nfos, vh.RoundTo(r.Uni(0, 80), 3))
		c.Naos = append(c.Naos, vh.RoundTo(r.Uni(0, 900), 2))
		c.C1 = append(c.C1, vh.RoundTo(r.Uni(0, 70), 3))
	}
	for z := 0; z < 4; z++ {
		c.Minfos = append(c.Minfos, vh.RoundTo(r.Uni(0, 60), 3))
		c.Minaos = append(c.Minaos, vh.RoundTo(r.Uni(0, 60), 3))
	}
	return c
}

// runTillImpl drives the tillage branch of the real hermes.Nitro: no layers for the transport
// (N = 0), no mineralisation layers (IZM = 0), no fertiliser / harvest event on that day.
func runTillImpl(c *tillCase) (o tillOut) {
	defer func() {
		if r := recover(); r != nil {
			o.Panic = fmt.Sprint(r)
		}
	}()
	g := hermes.NewGlobalVarsMain()
	var l hermes.NitroSharedVars
	var ln hermes.NitroBBBSharedVars
	var out hermes.CropOutputVars
	g.Kalender = hermes.KalenderConverter(hermes.DateDElong, ".")
	g.N = 0
	g.IZM = 0
	g.FLUSS0 = 0
	zeit := 1000
	g.EINTE[1] = zeit - 1
	g.EINT[0] = c.Eint
	g.TILART[0] = 2
	if c.Mix {
		g.TILART[0] = 1
	}
	g.ZTDG[0] = 5
	g.ERNTE[0] = 5
	g.SAAT[0] = 0
	copy(g.NFOS[:], c.Nfos)
	copy(g.NAOS[:], c.Naos)
	copy(g.C1[:], c.C1)
	copy(g.MINFOS[:], c.Minfos)
	copy(g.MINAOS[:], c.Minaos)
	_, err := hermes.Nitro(1, 1, zeit, &g, &l, &ln, nil, &out)
	if err != nil {
		o.Panic = "error: " + err.Error()
		return
	}
	o.Nfos = append(o.Nfos, g.NFOS[:]...)
	o.Naos = append(o.Naos, g.NAOS[:]...)
	o.C1 = append(o.C1, g.C1[:]...)
	o.Minfos = append(o.Minfos, g.MINFOS[:]...)
	o.Minaos = append(o.Minaos, g.MINAOS[:]...)
	return o
}

func (c *tillCase) line() string {
	return fmt.Sprintf("nitro.tillage 21 4 %d %s %s %s %s %s %s", b01(c.Mix), vh.FVals(c.Eint, 10),
		vh.FVals(c.Nfos...), vh.FVals(c.Naos...), vh.FVals(c.C1...), vh.FVals(c.Minfos...), vh.FVals(c.Minaos...))
}

func (o *tillOut) line(c *tillCase) string {
	m := int(math.Round(c.Eint / 10))
	if o.Panic != "" {
		return fmt.Sprintf("panic %d", m)
	}
	var all []float64
	all = append(all, o.Nfos...)
	all = append(all, o.Naos...)
	all = append(all, o.C1...)
	all = append(all, o.Minfos...)
	all = append(all, o.Minaos...)
	return fmt.Sprintf("ok %d %s", m, vh.FVals(all...))
}

// ---------------------------------------------------------------- denitrification

type denitCase struct {
	Marsh    bool      `json:"marsh_soil"`
	C        []float64 `json:"c1"`   // 3 or 9 layers
	Wg       []float64 `json:"wg"`   // same
	Porges   []float64 `json:"porges"`
	Tsoil    []float64 `json:"tsoil"` // TSOIL[0][0..3]
	Temp     float64   `json:"air_temp"`
	Cumdenit float64   `json:"cumdenit"`
	Class    string    `json:"class"`
}

type denitOut struct {
	C        []float64
	Cumdenit float64
}

func genDenitCase(r *vh.Rng, marsh bool) denitCase {
	c := denitCase{Marsh: marsh, Cumdenit: vh.RoundTo(r.Uni(0, 40), 4)}
	n := 3
	if marsh {
		n = 9
	}
	wet := r.Chance(0.5)
	for z := 0; z < n; z++ {
		v := vh.RoundTo(r.Uni(0, 90), 3)
		switch r.Intn(6) {
		case 0:
			v = 0
		case 1:
			v = vh.RoundTo(r.Uni(0, 0.3), 4)
		}
		c.C = append(c.C, v)
		p := vh.RoundTo(r.Uni(0.3, 0.6), 3)
		wg := vh.RoundTo(r.Uni(0.08, p), 3)
		if wet {
			wg = vh.RoundTo(r.Uni(0.7*p, p), 3)
		}
		c.Porges = append(c.Porges, p)
		c.Wg = append(c.Wg, wg)
	}
	t := r.Uni(-8, 32)
	for z := 0; z < 4; z++ {
		c.Tsoil = append(c.Tsoil, vh.RoundTo(t+r.Uni(-2, 2), 2))
	}
	c.Temp = vh.RoundTo(t, 1)
	c.Class = "denitr"
	if marsh {
		c.Class = "denitmo"
	}
	if wet {
		c.Class += "/wet"
	}
	return c
}

// denitFactors: the moisture and temperature factors as the implementation computes them
// (denit.go:47-48, 145-146 …); they are inputs of the model.
func (c *denitCase) factors() (ftheta, ftemp []float64) {
	const Tkrt, Okrt = 15.5, 0.766
	blocks := len(c.C) / 3
	for b := 0; b < blocks; b++ {
		th := (c.Wg[3*b] + c.Wg[3*b+1] + c.Wg[3*b+2]) / 3
		var sat float64
		if c.Marsh {
			sat = (c.Porges[3*b] + c.Porges[3*b+1] + c.Porges[3*b+2]) / 3
		} else {
			sat = 1 - (1.45 / 2.65)
		}
		rel := th / sat
		var temp float64
		if c.Marsh {
			temp = c.Temp
			if temp < 0 {
				temp = 0
			}
			if b == 2 {
				temp = 8
			}
		} else {
			temp = (c.Tsoil[0] + c.Tsoil[1] + c.Tsoil[2] + c.Tsoil[3]) / 4
			if temp < 0 {
				temp = 0
			}
		}
		ftheta = append(ftheta, 1-math.Exp(-1*math.Pow(rel/Okrt, 6)))
		ftemp = append(ftemp, 1-math.Exp(-1*math.Pow(temp/Tkrt, 4.6)))
	}
	return
}

func runDenitImpl(c *denitCase) (o denitOut, panicked string) {
	defer func() {
		if r := recover(); r != nil {
			panicked = fmt.Sprint(r)
		}
	}()
	g := hermes.NewGlobalVarsMain()
	for z := range c.C {
		g.C1[z] = c.C[z]
		g.WG[1][z] = c.Wg[z]
		g.PORGES[z] = c.Porges[z]
	}
	for z := 0; z < 4; z++ {
		g.TSOIL[0][z] = c.Tsoil[z]
	}
	g.TEMP[g.TAG.Index] = c.Temp
	g.CUMDENIT = c.Cumdenit
	if c.Marsh {
		hermes.Denitmo(&g)
	} else {
		hermes.Denitr(&g, false)
	}
	o.C = append(o.C, g.C1[:len(c.C)]...)
	o.Cumdenit = g.CUMDENIT
	return o, ""
}

func (c *denitCase) line() string {
	ft, fm := c.factors()
	if c.Marsh {
		return "nitro.denitmo " + vh.FVals(c.C...) + " " + vh.FVals(ft...) + " " + vh.FVals(fm...) + " " + vh.FVals(c.Cumdenit)
	}
	return "nitro.denitr " + vh.FVals(c.C...) + " " + vh.FVals(ft[0], fm[0], c.Cumdenit)
}

func (o *denitOut) line() string {
	return vh.FVals(append(append([]float64{}, o.C...), o.Cumdenit)...)
}
