#!/bin/sh
# usage: bin/run_check.sh Cxx quick|thorough [--replay file]
DIR="$(cd "$(dirname "$0")/.." && pwd)"
export VERIF_DIR="$DIR"
exec python3 "$DIR/bin/run_check.py" "$@"
