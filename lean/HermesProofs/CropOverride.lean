/-
Lemmas for C18: the stage loop of the classic reader written as independent folds per array, and
the effect of changing one token of the record on those folds.
-/
import HermesProofs.CropParam
import HermesModel.CropOverride
set_option linter.unusedSectionVars false
namespace Hermes.CropOverride
open Hermes.CropParam

/-- `a[i] = x₀, a[i+1] = x₁, …` -/
def foldSet {β : Type} : List β → Nat → List β → List β
  | [], _, a => a
  | x :: xs, i, a => foldSet xs (i + 1) (a.set i x)

theorem foldSet_frame {β : Type} (xs : List β) : ∀ (i j : Nat) (a : List β) (v : β), j < i →
    foldSet xs i (a.set j v) = (foldSet xs i a).set j v := by
  induction xs with
  | nil => intros; rfl
  | cons x xs ih =>
    intro i j a v h
    simp only [foldSet]
    rw [List.set_comm _ _ (by omega : j ≠ i)]
    exact ih (i + 1) j _ v (by omega)

theorem foldSet_set {β : Type} (xs : List β) : ∀ (k i : Nat) (a : List β) (v : β), k < xs.length →
    foldSet (xs.set k v) i a = (foldSet xs i a).set (i + k) v := by
  induction xs with
  | nil => intro k i a v h; simp at h
  | cons x xs ih =>
    intro k i a v h
    cases k with
    | zero =>
      simp only [List.set_cons_zero, foldSet, Nat.add_zero]
      rw [← foldSet_frame xs (i + 1) i _ v (by omega), List.set_set]
    | succ k =>
      simp only [List.set_cons_succ, foldSet]
      rw [ih k (i + 1) _ v (by simpa using h)]
      congr 1; omega

theorem foldSet_length' {β : Type} (xs : List β) : ∀ (i : Nat) (a : List β), (foldSet xs i a).length = a.length := by
  induction xs with
  | nil => intros; rfl
  | cons x xs ih => intro i a; simp [foldSet, ih]

/-- the written cells hold the written values -/
theorem foldSet_take {β : Type} (xs : List β) : ∀ (i : Nat) (a : List β), i + xs.length ≤ a.length →
    ((foldSet xs i a).drop i).take xs.length = xs := by
  induction xs with
  | nil => intros; simp
  | cons x xs ih =>
    intro i a h
    simp only [foldSet, List.length_cons] at h ⊢
    rw [foldSet_frame xs (i + 1) i a x (by omega)]
    have hl : i < (foldSet xs (i + 1) a).length := by rw [foldSet_length']; omega
    rw [List.drop_eq_getElem_cons (by simpa using hl)]
    simp only [List.getElem_set_self, List.take_succ_cons]
    congr 1
    rw [List.drop_set]
    simp only [if_pos (Nat.lt_succ_self i)]
    exact ih (i + 1) a (by omega)

section
variable {α : Type}

/-- `m[i][L] = p₀[L] (L < n), m[i+1][L] = p₁[L], …` -/
def foldOv (n : Nat) : List (List α) → Nat → List (List α) → List (List α)
  | [], _, a => a
  | p :: ps, i, a => foldOv n ps (i + 1) (a.set i (overlay n p (a.getD i [])))

theorem getD_set_ne {β : Type} (a : List β) (i j : Nat) (v d : β) (h : j ≠ i) :
    (a.set j v).getD i d = a.getD i d := by
  simp [List.getD_eq_getElem?_getD, List.getElem?_set_ne h]

theorem foldOv_frame (n : Nat) (ps : List (List α)) : ∀ (i j : Nat) (a : List (List α)) (r : List α),
    j < i → foldOv n ps i (a.set j r) = (foldOv n ps i a).set j r := by
  induction ps with
  | nil => intros; rfl
  | cons p ps ih =>
    intro i j a r h
    simp only [foldOv]
    rw [getD_set_ne a i j r [] (by omega), List.set_comm _ _ (by omega : j ≠ i)]
    exact ih (i + 1) j _ r (by omega)

theorem overlay_set (n o : Nat) (p old : List α) (v : α) (ho : o < n) (hn : n ≤ p.length) :
    overlay n (p.set o v) old = (overlay n p old).set o v := by
  unfold overlay
  rw [List.take_set, List.set_append_left _ _ (by simp; omega)]

theorem foldOv_set (n : Nat) (ps : List (List α)) : ∀ (k i o : Nat) (a : List (List α)) (v : α),
    k < ps.length → o < n → (∀ p ∈ ps, n ≤ p.length) →
    foldOv n (ps.set k ((ps.getD k []).set o v)) i a = setCell (foldOv n ps i a) (i + k) o v := by
  induction ps with
  | nil => intro k i o a v h; simp at h
  | cons p ps ih =>
    intro k i o a v h ho hp
    cases k with
    | zero =>
      simp only [List.set_cons_zero, foldOv, Nat.add_zero, List.getD_cons_zero]
      rw [overlay_set n o p _ v ho (hp p (List.mem_cons_self ..))]
      rw [foldOv_frame n ps (i + 1) i a _ (by omega), foldOv_frame n ps (i + 1) i a _ (by omega)]
      unfold setCell
      rw [List.set_set]
      by_cases hl : i < (foldOv n ps (i + 1) a).length
      · congr 2
        simp [List.getD_eq_getElem?_getD, List.getElem?_set_self hl]
      · rw [List.set_eq_of_length_le (by omega), List.set_eq_of_length_le (by omega)]
    | succ k =>
      simp only [List.set_cons_succ, foldOv, List.getD_cons_succ]
      rw [ih k (i + 1) o _ v (by simpa using h) ho (fun q hq => hp q (List.mem_cons_of_mem _ hq))]
      congr 1; omega

variable [Add α] [Div α] [LT α] [LE α] [DecidableLT α] [DecidableLE α]
  [OfNat α 0] [OfNat α 100] [OfNat α 200] [TruncInt α]

def orB : List Bool → Bool → Bool
  | [], b => b
  | x :: xs, b => orB xs (b || x)

/-- The stage loop of the classic reader as independent folds over the token columns. -/
theorem stagesClassic_char (n : Nat) (l : List (StageTok α)) : ∀ (i : Nat) (s : State α),
    stagesClassic n l i s =
      { s with
        endbbch := foldSet (l.map fun st => (TruncInt.ofInt (bbchClassic st.bbch) : α)) i s.endbbch,
        useBBCH := orB (l.map fun st => decide ((0 : α) < TruncInt.ofInt (bbchClassic st.bbch))) s.useBBCH,
        tsum := foldSet (l.map (·.tsum)) i s.tsum,
        bas := foldSet (l.map (·.bas)) i s.bas,
        vschwell := foldSet (l.map (·.vschwell)) i s.vschwell,
        dayl := foldSet (l.map (·.dayl)) i s.dayl,
        dlbas := foldSet (l.map (·.dlbas)) i s.dlbas,
        dryswell := foldSet (l.map (·.dryswell)) i s.dryswell,
        lukrit := foldSet (l.map (·.lukrit)) i s.lukrit,
        laifkt := foldSet (l.map (·.laifkt)) i s.laifkt,
        wgmax := foldSet (l.map (·.wgmax)) i s.wgmax,
        pro := foldOv n (l.map (·.pro)) i s.pro,
        dead := foldOv n (l.map (·.dead)) i s.dead,
        tendsum := sumFrom s.tendsum (l.map (·.tsum)),
        kc := foldSet (l.map (·.kc)) i s.kc } := by
  induction l with
  | nil => intro i s; rfl
  | cons st rest ih =>
    intro i s
    simp only [stagesClassic, ih, List.map_cons, foldSet, foldOv, sumFrom, orB, stageClassic]

theorem modifyAt_length {β : Type} (l : List β) (k : Nat) (f : β → β) : (modifyAt l k f).length = l.length := by
  unfold modifyAt; split <;> simp

/-- a column the edit does not touch -/
theorem modifyAt_map_same {β γ : Type} (l : List β) (k : Nat) (f : β → β) (g : β → γ)
    (h : ∀ x, g (f x) = g x) : (modifyAt l k f).map g = l.map g := by
  unfold modifyAt
  split
  · rename_i x hx
    rw [List.map_set, h x]
    obtain ⟨hlt, hxe⟩ := List.getElem?_eq_some_iff.mp hx
    apply List.ext_getElem?
    intro j
    by_cases hj : k = j
    · subst hj
      rw [List.getElem?_set_self (by simpa using hlt)]
      simp [hxe, hlt]
    · simp [List.getElem?_set_ne hj]
  · rfl

/-- the column the edit writes -/
theorem modifyAt_map_set {β γ : Type} (l : List β) (k : Nat) (f : β → β) (g : β → γ) (v : γ)
    (h : ∀ x, g (f x) = v) (hk : k < l.length) : (modifyAt l k f).map g = (l.map g).set k v := by
  unfold modifyAt
  have : l[k]? = some l[k] := List.getElem?_eq_getElem hk
  rw [this]
  simp only [List.map_set, h]

end
end Hermes.CropOverride

namespace Hermes.CropOverride
open Hermes.CropParam
section
variable {α : Type} [Add α] [Div α] [Neg α] [LT α] [LE α] [DecidableLT α] [DecidableLE α]
  [OfNat α 0] [OfNat α 1] [OfNat α 10] [OfNat α 20] [OfNat α 24] [OfNat α 30] [OfNat α 40] [OfNat α 50]
  [OfNat α 100] [OfNat α 200] [OfNat α 10000] [TruncInt α]

theorem reset_dauer (d : Bool) (s : State α) : (reset d s).dauer = s.dauer := by
  unfold reset; cases d <;> rfl

theorem applyClassicCore_dauer (t : Classic α) (rep : Bool) (s : State α) :
    (applyClassicCore t rep s).dauer = t.dauer := by
  simp only [applyClassicCore, stagesClassic_char]
  show (reset t.dauer _).dauer = _
  rw [reset_dauer]

/-- base parameters: the override stores what the reader stores for the edited record -/
theorem override_base_eq_edit (t : Classic α) (rep : Bool) (s : State α) (n : PName) (v : α)
    (hov : (Entry.base n v).overridable = true) :
    applyEntry rep (applyClassicCore t rep s) (.base n v) = applyClassicCore (edit t (.base n v)) rep s := by
  cases n <;> simp [Entry.overridable] at hov
  case MAXAMAX | MINTMP | WUMAXPF | VELOC | YIFAK =>
    all_goals
      by_cases hd : t.dauer = true <;>
        simp [applyEntry, edit, applyClassicCore, stagesClassic_char, reset, hd]
  case INITCONCNBIOM | INITCONCNROOT =>
    all_goals
      simp only [applyEntry, applyClassicCore_dauer]
      by_cases hd : t.dauer = true <;> cases rep <;>
        simp [edit, applyClassicCore, stagesClassic_char, reset, hd]

theorem foldSet_length {β : Type} (xs : List β) : ∀ (i : Nat) (a : List β), (foldSet xs i a).length = a.length := by
  induction xs with
  | nil => intros; rfl
  | cons x xs ih => intro i a; simp [foldSet, ih]

/-- per-stage parameters other than TSUM -/
theorem override_stage_eq_edit (t : Classic α) (rep : Bool) (s : State α) (n : PName) (st : Nat) (v : α)
    (hlen : t.stages.length = t.nrentw) (hs : t.nrentw ≤ s.tsum.length)
    (hov : (Entry.stage n st v).overridable = true) (hst : 1 ≤ st ∧ st ≤ t.nrentw) :
    applyEntry rep (applyClassicCore t rep s) (.stage n st v) =
      applyClassicCore (edit t (.stage n st v)) rep s := by
  have hk : st - 1 < t.stages.length := by omega
  have htake : t.stages.take t.nrentw = t.stages := List.take_of_length_le (by omega)
  have htake' : ∀ f, (modifyAt t.stages (st - 1) f).take t.nrentw = modifyAt t.stages (st - 1) f :=
    fun f => List.take_of_length_le (by rw [modifyAt_length]; omega)
  cases n <;> simp [Entry.overridable] at hov
  case TSUM =>
    have hnr : (applyClassicCore t rep s).nrentw = t.nrentw := by
      simp only [applyClassicCore, stagesClassic_char]
    have hts : (applyClassicCore t rep s).tsum = foldSet (t.stages.map (·.tsum)) 0 s.tsum := by
      simp only [applyClassicCore, stagesClassic_char, htake]
      show foldSet _ 0 (reset t.dauer _).tsum = _
      congr 1
      by_cases hd : t.dauer = true <;> simp [reset, hd]
    have htk : ((foldSet (t.stages.map (·.tsum)) 0 s.tsum).set (st - 1) v).take t.nrentw =
        (t.stages.map (·.tsum)).set (st - 1) v := by
      rw [List.take_set]
      have := foldSet_take (t.stages.map (·.tsum)) 0 s.tsum (by simp; omega)
      simp only [List.drop_zero, List.length_map, hlen] at this
      rw [this]
    simp only [applyEntry, hnr, hts, htk]
    simp only [edit, applyClassicCore, htake, htake', stagesClassic_char]
    rw [modifyAt_map_set t.stages (st - 1) _ (·.tsum) v (fun _ => rfl) hk]
    rw [foldSet_set _ _ _ _ _ (by simpa using hk)]
    simp [modifyAt_map_same]
    by_cases hd : t.dauer = true <;> simp [reset, hd]
  case BAS =>
    simp only [applyEntry, edit, applyClassicCore, htake, htake', stagesClassic_char]
    rw [modifyAt_map_set t.stages (st - 1) _ (·.bas) v (fun _ => rfl) hk]
    rw [foldSet_set _ _ _ _ _ (by simpa using hk)]
    simp [modifyAt_map_same]
  case VSCHWELL =>
    simp only [applyEntry, edit, applyClassicCore, htake, htake', stagesClassic_char]
    rw [modifyAt_map_set t.stages (st - 1) _ (·.vschwell) v (fun _ => rfl) hk]
    rw [foldSet_set _ _ _ _ _ (by simpa using hk)]
    simp [modifyAt_map_same]
  case DAYL =>
    simp only [applyEntry, edit, applyClassicCore, htake, htake', stagesClassic_char]
    rw [modifyAt_map_set t.stages (st - 1) _ (·.dayl) v (fun _ => rfl) hk]
    rw [foldSet_set _ _ _ _ _ (by simpa using hk)]
    simp [modifyAt_map_same]
  case DLBAS =>
    simp only [applyEntry, edit, applyClassicCore, htake, htake', stagesClassic_char]
    rw [modifyAt_map_set t.stages (st - 1) _ (·.dlbas) v (fun _ => rfl) hk]
    rw [foldSet_set _ _ _ _ _ (by simpa using hk)]
    simp [modifyAt_map_same]
  case DRYSWELL =>
    simp only [applyEntry, edit, applyClassicCore, htake, htake', stagesClassic_char]
    rw [modifyAt_map_set t.stages (st - 1) _ (·.dryswell) v (fun _ => rfl) hk]
    rw [foldSet_set _ _ _ _ _ (by simpa using hk)]
    simp [modifyAt_map_same]
  case LUKRIT =>
    simp only [applyEntry, edit, applyClassicCore, htake, htake', stagesClassic_char]
    rw [modifyAt_map_set t.stages (st - 1) _ (·.lukrit) v (fun _ => rfl) hk]
    rw [foldSet_set _ _ _ _ _ (by simpa using hk)]
    simp [modifyAt_map_same]
  case LAIFKT =>
    simp only [applyEntry, edit, applyClassicCore, htake, htake', stagesClassic_char]
    rw [modifyAt_map_set t.stages (st - 1) _ (·.laifkt) v (fun _ => rfl) hk]
    rw [foldSet_set _ _ _ _ _ (by simpa using hk)]
    simp [modifyAt_map_same]
  case WGMAX =>
    simp only [applyEntry, edit, applyClassicCore, htake, htake', stagesClassic_char]
    rw [modifyAt_map_set t.stages (st - 1) _ (·.wgmax) v (fun _ => rfl) hk]
    rw [foldSet_set _ _ _ _ _ (by simpa using hk)]
    simp [modifyAt_map_same]
  case KC =>
    simp only [applyEntry, edit, applyClassicCore, htake, htake', stagesClassic_char]
    rw [modifyAt_map_set t.stages (st - 1) _ (·.kc) v (fun _ => rfl) hk]
    rw [foldSet_set _ _ _ _ _ (by simpa using hk)]
    simp [modifyAt_map_same]

theorem modifyAt_map_upd {β γ : Type} (l : List β) (k : Nat) (f : β → β) (g : β → γ) (h : γ → γ) (d : γ)
    (hh : ∀ x, g (f x) = h (g x)) (hk : k < l.length) :
    (modifyAt l k f).map g = (l.map g).set k (h ((l.map g).getD k d)) := by
  unfold modifyAt
  have : l[k]? = some l[k] := List.getElem?_eq_getElem hk
  rw [this]
  simp only [List.map_set, hh]
  congr 2
  simp [List.getD_eq_getElem?_getD, hk]

/-- per-organ parameters -/
theorem override_part_eq_edit (t : Classic α) (rep : Bool) (s : State α) (n : PName) (st o : Nat) (v : α)
    (hlen : t.stages.length = t.nrentw)
    (hslots : ∀ x ∈ t.stages, t.nrkom ≤ x.pro.length ∧ t.nrkom ≤ x.dead.length)
    (hov : (Entry.part n st o v).overridable = true)
    (hst : 1 ≤ st ∧ st ≤ t.nrentw) (ho : 1 ≤ o ∧ o ≤ t.nrkom) :
    applyEntry rep (applyClassicCore t rep s) (.part n st o v) =
      applyClassicCore (edit t (.part n st o v)) rep s := by
  have hk : st - 1 < t.stages.length := by omega
  have htake : t.stages.take t.nrentw = t.stages := List.take_of_length_le (by omega)
  have htake' : ∀ f, (modifyAt t.stages (st - 1) f).take t.nrentw = modifyAt t.stages (st - 1) f :=
    fun f => List.take_of_length_le (by rw [modifyAt_length]; omega)
  cases n <;> simp [Entry.overridable] at hov
  case PRO =>
    simp only [applyEntry, edit, applyClassicCore, htake, htake', stagesClassic_char]
    rw [modifyAt_map_upd t.stages (st - 1) _ (·.pro) (fun p => p.set (o - 1) v) [] (fun _ => rfl) hk]
    rw [foldOv_set _ _ _ _ _ _ _ (by simpa using hk) (by omega)
      (by intro p hp; obtain ⟨x, hx, rfl⟩ := List.mem_map.mp hp; exact (hslots x hx).1)]
    simp [modifyAt_map_same]
  case DEAD =>
    simp only [applyEntry, edit, applyClassicCore, htake, htake', stagesClassic_char]
    rw [modifyAt_map_upd t.stages (st - 1) _ (·.dead) (fun p => p.set (o - 1) v) [] (fun _ => rfl) hk]
    rw [foldOv_set _ _ _ _ _ _ _ (by simpa using hk) (by omega)
      (by intro p hp; obtain ⟨x, hx, rfl⟩ := List.mem_map.mp hp; exact (hslots x hx).2)]
    simp [modifyAt_map_same]

end
end Hermes.CropOverride
