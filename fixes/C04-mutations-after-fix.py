import sys
repo='/tmp/rw-weather/hermes/'
muts={
 'N1':('weather_input.go','''		d.tavg = (d.tmax + d.tmin) / 2

		if first {
			// failsave if the first date is not 1.Jan
			first = false
			T = d.datetime.YearDay()
			yrz = 1
		} else if d.datetime.Day() == 1 && d.datetime.Month() == time.January {
			// year switch only directly after 31 December of the previous year
			if prev := d.datetime.AddDate(0, 0, -1); s.JAR[yrz-1] != prev.Year() || s.MaxYearDays[yrz-1] != prev.YearDay() {''','''		d.tavg = (d.tmax + d.tmin) / 2

		if first {
			// failsave if the first date is not 1.Jan
			first = false
			T = d.datetime.YearDay()
			yrz = 1
		} else if d.datetime.Day() == 1 && d.datetime.Month() == time.January {
			// year switch only directly after 31 December of the previous year
			if prev := d.datetime.AddDate(0, 0, -1); s.JAR[yrz-1] != prev.Year() {'''),
 'N2':('run.go','				if g.JTAG < daysInYear(1900+g.J) {','				if g.JTAG < 300 {'),
 'N3':('weather_input.go','			if leapYear && doy > 59 {','			if leapYear && doy > 60 {'),
 'N4':('run.go','''					if err := LoadYear(&g, &bbbShared, 1900+g.J); err != nil {
						return err
					}
				} else if driConfig.WeatherFileFormat == 0 {''','''					LoadYear(&g, &bbbShared, 1900+g.J)
				} else if driConfig.WeatherFileFormat == 0 {'''),
}
f,old,new=muts[sys.argv[1]]
s=open(repo+f).read()
assert s.count(old)==1,(sys.argv[1],s.count(old))
open(repo+f,'w').write(s.replace(old,new))
