/-
Regenerated-model tie: the hand-written models of the pure scalar functions equal the Lean translation of
their Go source, which harness/cmd/extract/translate_facts.go regenerates from /repo on every run
(lean/HermesModel/Generated/PureKernels.lean).  The equalities are proved over ℚ by `ring` after unfolding, so a
harmless re-association or a hoisted sub-expression in the source still checks, while a changed coefficient,
term, sign or argument makes these theorems — and with them the property theorems restated about the source in
HermesProps — fail.
-/
import HermesProofs.RatInst
import HermesModel.SoilParams
import HermesModel.EvatraPet
import HermesModel.Generated.PureKernels
import Mathlib.Tactic.Ring
import Mathlib.Tactic.NormNum

namespace Hermes.SourceTie
open Hermes.SoilParams Hermes.Generated

theorem ptf1_eq_source (c ton sluf : ℚ) : ptf1 c ton sluf = Src.PTF1 c ton sluf := by
  unfold ptf1 Src.PTF1
  ext <;> first | (norm_num; done) | (norm_num; ring)

theorem ptf2_eq_source (c ton sluf : ℚ) : ptf2 c ton sluf = Src.PTF2 c ton sluf := by
  unfold ptf2 Src.PTF2
  ext <;> first | (norm_num; done) | (norm_num; ring)

theorem ptf3_eq_source (c ton sluf : ℚ) : ptf3 c ton sluf = Src.PTF3 c ton sluf := by
  unfold ptf3 Src.PTF3
  ext <;> first | (norm_num; done) | (norm_num; ring)

theorem ptf4_eq_source (c ton ssand : ℚ) : ptf4 c ton ssand = Src.PTF4 c ton ssand := by
  unfold ptf4 Src.PTF4 ptf4FcPoly ptf4WpPoly pow2 pow3 Src.pow2 Src.pow3
  ext <;> first | (norm_num; done) | (norm_num; ring)

/-- `Limit` (solar.go) as used by the day-length model -/
theorem limit_eq_source (v up lo : ℚ) : EvatraPet.limit v up lo = Src.Limit v up lo := by
  unfold EvatraPet.limit Src.Limit
  rfl

end Hermes.SourceTie
