/-
Fertiliser bookkeeping of the *translation of the current source* of `mineral` (hermes/nitro.go →
`HermesModel/Generated/Impmineral.lean`, regenerated on every run): on warm layers (the branch with both clamps of the
moisture factor) the dissolved sum UMS moves towards, and never beyond, the applied sum DSUMM, and likewise the nitrified
ammonium NH4UMS and the ammonium applied NH4Sum.

Phases of one loop iteration (walked by `walk_states`): `U0` nothing of the bookkeeping touched; `M0` moisture factor ≥ 0
(after the lower clamp); `M1` … and ≤ 1 (after the upper clamp); `D` the amount of the layer lies in [0, remainder];
`F` booked: old sum ≤ new sum ≤ applied. The frozen branch (`else` of `0 < TEMPBO`) has no upper clamp; it is excluded by
the hypothesis (the hand model's theorem `C07_dissolved_le_applied` covers it under `FrozenOrd`).
-/
import HermesModel.Generated.Impmineral
import HermesProofs.WalkStates
import Mathlib.Tactic.Ring
import Mathlib.Tactic.SplitIfs
import Mathlib.Tactic.Linarith
import Mathlib.Tactic.Positivity

namespace Hermes.Generated.Imp.mineral
open Hermes.Imp

/-- the layers `mineral` works on are inside the scratch arrays, and every one of them is warm (mean of the two node
temperatures above 0 °C: the branch of `mineral` with both clamps of the moisture factor) -/
def WarmInRange (s : St ℚ) : Prop :=
  (Int.tdiv s.g_IZM s.g_DZ_Index).toNat ≤ 4 ∧ (Int.tdiv s.g_IZM s.g_DZ_Index).toNat ≤ s.l_DUMS.length ∧
  (Int.tdiv s.g_IZM s.g_DZ_Index).toNat ≤ s.l_DNH4UMS.length ∧
  ∀ k : Nat, k < (Int.tdiv s.g_IZM s.g_DZ_Index).toNat → 0.0 < (rd s.g_TD (1 + (k : Int)) + rd s.g_TD (1 + (k : Int) - 1)) / 2.0

namespace Ums
variable (m : MathFns ℚ)
/-- what the dissolution bookkeeping of one layer reads, unchanged so far -/
def U0 (s t : St ℚ) : Prop :=
  t.g_UMS = s.g_UMS ∧ t.g_DSUMM = s.g_DSUMM ∧ t.v_MIRED.length = s.v_MIRED.length ∧ t.l_DUMS.length = s.l_DUMS.length ∧ t.g_TD = s.g_TD
/-- after the lower clamp of the moisture reduction factor -/
def M0 (s : St ℚ) (zi : Int) (t : St ℚ) : Prop := U0 s t ∧ 0 ≤ rd t.v_MIRED zi
/-- after the upper clamp -/
def M1 (s : St ℚ) (zi : Int) (t : St ℚ) : Prop := U0 s t ∧ 0 ≤ rd t.v_MIRED zi ∧ rd t.v_MIRED zi ≤ 1
/-- the amount dissolved in this layer lies between 0 and the undissolved remainder -/
def D (s : St ℚ) (zi : Int) (t : St ℚ) : Prop := U0 s t ∧ 0 ≤ rd t.l_DUMS zi ∧ rd t.l_DUMS zi ≤ s.g_DSUMM - s.g_UMS
/-- after the booking -/
def F (s t : St ℚ) : Prop :=
  t.g_DSUMM = s.g_DSUMM ∧ s.g_UMS ≤ t.g_UMS ∧ t.g_UMS ≤ s.g_DSUMM ∧ t.v_MIRED.length = s.v_MIRED.length ∧ t.l_DUMS.length = s.l_DUMS.length ∧ t.g_TD = s.g_TD

section
variable {s t a b : St ℚ} {zi : Int}

theorem u0_mired (h : U0 s t) (v : ℚ) : U0 s { t with v_MIRED := wr t.v_MIRED zi v } := by
  unfold U0 at *; simp only [length_wr]; exact h

theorem m0_clamp (h : U0 s t) (h0 : 0 ≤ zi) (h1 : zi.toNat < s.v_MIRED.length) :
    M0 s zi (if rd t.v_MIRED zi < 0.0 then { t with v_MIRED := wr t.v_MIRED zi 0.0 } else t) := by
  have hl : zi.toNat < t.v_MIRED.length := by rw [h.2.2.1]; exact h1
  split_ifs with hc
  · refine ⟨u0_mired h _, ?_⟩
    show 0 ≤ rd (wr t.v_MIRED zi 0.0) zi
    rw [rd_wr_same _ _ _ h0 hl]; norm_num
  · refine ⟨h, ?_⟩
    have : ((0.0 : ℚ)) = 0 := by norm_num
    rw [this] at hc; exact not_lt.mp hc

theorem m1_clamp (h : M0 s zi t) (h0 : 0 ≤ zi) (h1 : zi.toNat < s.v_MIRED.length) :
    M1 s zi (if 1.0 < rd t.v_MIRED zi then { t with v_MIRED := wr t.v_MIRED zi 1.0 } else t) := by
  have hl : zi.toNat < t.v_MIRED.length := by rw [h.1.2.2.1]; exact h1
  split_ifs with hc
  · refine ⟨u0_mired h.1 _, ?_, ?_⟩
    · show 0 ≤ rd (wr t.v_MIRED zi 1.0) zi
      rw [rd_wr_same _ _ _ h0 hl]; norm_num
    · show rd (wr t.v_MIRED zi 1.0) zi ≤ 1
      rw [rd_wr_same _ _ _ h0 hl]; norm_num
  · refine ⟨h.1, h.2, ?_⟩
    have : ((1.0 : ℚ)) = 1 := by norm_num
    rw [this] at hc; exact not_lt.mp hc

theorem d_step (h : M1 s zi t) (hle : s.g_UMS ≤ s.g_DSUMM) (h0 : 0 ≤ zi) (h1 : zi.toNat < s.l_DUMS.length) :
    D s zi { t with l_DUMS := wr t.l_DUMS zi (0.4 * rd t.v_MIRED zi * (t.g_DSUMM - t.g_UMS)) } := by
  obtain ⟨hu, m0, m1⟩ := h
  have hl : zi.toNat < t.l_DUMS.length := by rw [hu.2.2.2.1]; exact h1
  refine ⟨?_, ?_, ?_⟩
  · unfold U0 at *; simp only [length_wr]; exact hu
  · show 0 ≤ rd (wr t.l_DUMS zi _) zi
    rw [rd_wr_same _ _ _ h0 hl, hu.1, hu.2.1]
    have : 0 ≤ s.g_DSUMM - s.g_UMS := by linarith
    positivity
  · show rd (wr t.l_DUMS zi _) zi ≤ _
    rw [rd_wr_same _ _ _ h0 hl, hu.1, hu.2.1]
    have hx : 0 ≤ s.g_DSUMM - s.g_UMS := by linarith
    have : (0.4 : ℚ) * rd t.v_MIRED zi ≤ 1 := by norm_num; linarith
    calc (0.4 : ℚ) * rd t.v_MIRED zi * (s.g_DSUMM - s.g_UMS) ≤ 1 * (s.g_DSUMM - s.g_UMS) := mul_le_mul_of_nonneg_right this hx
      _ = _ := one_mul _

theorem d_zero (h : M1 s zi t) (hle : s.g_UMS ≤ s.g_DSUMM) (h0 : 0 ≤ zi) (h1 : zi.toNat < s.l_DUMS.length) :
    D s zi { t with l_DUMS := wr t.l_DUMS zi 0.0 } := by
  obtain ⟨hu, _, _⟩ := h
  have hl : zi.toNat < t.l_DUMS.length := by rw [hu.2.2.2.1]; exact h1
  refine ⟨?_, ?_, ?_⟩
  · unfold U0 at *; simp only [length_wr]; exact hu
  · show 0 ≤ rd (wr t.l_DUMS zi _) zi
    rw [rd_wr_same _ _ _ h0 hl]; norm_num
  · show rd (wr t.l_DUMS zi _) zi ≤ _
    rw [rd_wr_same _ _ _ h0 hl]; norm_num; linarith

theorem f_step (h : D s zi t) (_hle : s.g_UMS ≤ s.g_DSUMM) : F s { t with g_UMS := t.g_UMS + rd t.l_DUMS zi } := by
  obtain ⟨hu, d0, d1⟩ := h
  refine ⟨hu.2.1, ?_, ?_, hu.2.2.1, hu.2.2.2.1, hu.2.2.2.2⟩
  · show s.g_UMS ≤ t.g_UMS + rd t.l_DUMS zi
    rw [hu.1]; linarith
  · show t.g_UMS + rd t.l_DUMS zi ≤ s.g_DSUMM
    rw [hu.1]; linarith

theorem f_warm {c : Prop} [Decidable c] (hc : c) (ha : F s a) : F s (if c then a else b) := by rw [if_pos hc]; exact ha
end

/-- one iteration of the layer loop on a warm layer: the dissolved sum stays between its old value and the applied sum -/
theorem loop1_U (z : Int) (s : St ℚ) (hle : s.g_UMS ≤ s.g_DSUMM) (hz : 1 ≤ z) (h1 : (z - 1).toNat < s.v_MIRED.length)
    (h2 : (z - 1).toNat < s.l_DUMS.length) (hw : 0.0 < (rd s.g_TD z + rd s.g_TD (z - 1)) / 2.0) : F s (loop1 m z s) := by
  have h0 : (0 : Int) ≤ z - 1 := by omega
  unfold loop1
  extract_lets zi tempbo
  have hw' : 0.0 < tempbo := hw
  have hu0 : U0 s s := ⟨rfl, rfl, rfl, rfl, rfl⟩
  walk_states [F s, D s zi, M1 s zi, M0 s zi, U0 s] by
    first | exact hu0 | exact f_step hprev hle | exact d_step hprev hle h0 h2 | exact d_zero hprev hle h0 h2
          | exact m1_clamp hprev h0 h1 | exact m0_clamp hprev h0 h1 | exact u0_mired hprev _ | exact u0_mired hprev.1 _
  assumption

/-- `F` composes over iterations -/
theorem F_trans {s0 t u : St ℚ} (h1 : F s0 t) (h2 : F t u) : F s0 u := by
  obtain ⟨a1, a2, a3, a4, a5, a6⟩ := h1
  obtain ⟨b1, b2, b3, b4, b5, b6⟩ := h2
  refine ⟨b1.trans a1, le_trans a2 b2, ?_, b4.trans a4, b5.trans a5, b6.trans a6⟩
  rw [a1] at b3; exact b3

/-- **`mineral`, whole call on warm layers: the dissolved sum stays between its old value and the applied sum.** -/
theorem run_dissolved (s : St ℚ) (h : WarmInRange s) (hle : s.g_UMS ≤ s.g_DSUMM) :
    (run m s).g_DSUMM = s.g_DSUMM ∧ s.g_UMS ≤ (run m s).g_UMS ∧ (run m s).g_UMS ≤ s.g_DSUMM := by
  unfold run
  extract_lets s1 s2 s3 s4 s5
  have hn : s4.v_num = Int.tdiv s.g_IZM s.g_DZ_Index := rfl
  have hm : s4.v_MIRED.length = 4 := by show (List.replicate 4 (0.0 : ℚ)).length = 4; simp
  have hd : s4.l_DUMS.length = s.l_DUMS.length := rfl
  have htd : s4.g_TD = s.g_TD := rfl
  have base : F s4 s4 := ⟨rfl, le_refl _, hle, rfl, rfl, rfl⟩
  have key := loopUp_noBrk_ind (loop1 m) (fun _ t => F s4 t) 1 (s4.v_num + 1) s4 base
    (fun k hk t ht => by
      have hk' : k < (Int.tdiv s.g_IZM s.g_DZ_Index).toNat := by rw [hn] at hk; omega
      have hz : ((1 : Int) + k - 1).toNat = k := by omega
      obtain ⟨t1, t2, t3, t4, t5, t6⟩ := ht
      refine F_trans ⟨t1, t2, t3, t4, t5, t6⟩ (loop1_U m (1 + k) t (by rw [t1]; exact t3) (by omega) ?_ ?_ ?_)
      · rw [hz, t4, hm]; exact lt_of_lt_of_le hk' h.1
      · rw [hz, t5, hd]; exact lt_of_lt_of_le hk' h.2.1
      · rw [t6, htd]; exact h.2.2.2 k hk')
  obtain ⟨k1, k2, k3, _, _, _⟩ := key
  exact ⟨k1, k2, k3⟩

end Ums

namespace Nh4
variable (m : MathFns ℚ)
/-- what the nitrification bookkeeping (ammonium applied / ammonium nitrified) of one layer reads, unchanged so far -/
def U0 (s t : St ℚ) : Prop :=
  t.g_NH4UMS = s.g_NH4UMS ∧ t.g_NH4Sum = s.g_NH4Sum ∧ t.v_MIRED.length = s.v_MIRED.length ∧ t.l_DNH4UMS.length = s.l_DNH4UMS.length ∧ t.g_TD = s.g_TD
/-- after the lower clamp of the moisture reduction factor -/
def M0 (s : St ℚ) (zi : Int) (t : St ℚ) : Prop := U0 s t ∧ 0 ≤ rd t.v_MIRED zi
/-- after the upper clamp -/
def M1 (s : St ℚ) (zi : Int) (t : St ℚ) : Prop := U0 s t ∧ 0 ≤ rd t.v_MIRED zi ∧ rd t.v_MIRED zi ≤ 1
/-- the amount dissolved in this layer lies between 0 and the undissolved remainder -/
def D (s : St ℚ) (zi : Int) (t : St ℚ) : Prop := U0 s t ∧ 0 ≤ rd t.l_DNH4UMS zi ∧ rd t.l_DNH4UMS zi ≤ s.g_NH4Sum - s.g_NH4UMS
/-- after the booking -/
def F (s t : St ℚ) : Prop :=
  t.g_NH4Sum = s.g_NH4Sum ∧ s.g_NH4UMS ≤ t.g_NH4UMS ∧ t.g_NH4UMS ≤ s.g_NH4Sum ∧ t.v_MIRED.length = s.v_MIRED.length ∧ t.l_DNH4UMS.length = s.l_DNH4UMS.length ∧ t.g_TD = s.g_TD

section
variable {s t a b : St ℚ} {zi : Int}

theorem u0_mired (h : U0 s t) (v : ℚ) : U0 s { t with v_MIRED := wr t.v_MIRED zi v } := by
  unfold U0 at *; simp only [length_wr]; exact h

theorem m0_clamp (h : U0 s t) (h0 : 0 ≤ zi) (h1 : zi.toNat < s.v_MIRED.length) :
    M0 s zi (if rd t.v_MIRED zi < 0.0 then { t with v_MIRED := wr t.v_MIRED zi 0.0 } else t) := by
  have hl : zi.toNat < t.v_MIRED.length := by rw [h.2.2.1]; exact h1
  split_ifs with hc
  · refine ⟨u0_mired h _, ?_⟩
    show 0 ≤ rd (wr t.v_MIRED zi 0.0) zi
    rw [rd_wr_same _ _ _ h0 hl]; norm_num
  · refine ⟨h, ?_⟩
    have : ((0.0 : ℚ)) = 0 := by norm_num
    rw [this] at hc; exact not_lt.mp hc

theorem m1_clamp (h : M0 s zi t) (h0 : 0 ≤ zi) (h1 : zi.toNat < s.v_MIRED.length) :
    M1 s zi (if 1.0 < rd t.v_MIRED zi then { t with v_MIRED := wr t.v_MIRED zi 1.0 } else t) := by
  have hl : zi.toNat < t.v_MIRED.length := by rw [h.1.2.2.1]; exact h1
  split_ifs with hc
  · refine ⟨u0_mired h.1 _, ?_, ?_⟩
    · show 0 ≤ rd (wr t.v_MIRED zi 1.0) zi
      rw [rd_wr_same _ _ _ h0 hl]; norm_num
    · show rd (wr t.v_MIRED zi 1.0) zi ≤ 1
      rw [rd_wr_same _ _ _ h0 hl]; norm_num
  · refine ⟨h.1, h.2, ?_⟩
    have : ((1.0 : ℚ)) = 1 := by norm_num
    rw [this] at hc; exact not_lt.mp hc

theorem d_step (h : M1 s zi t) (hle : s.g_NH4UMS ≤ s.g_NH4Sum) (h0 : 0 ≤ zi) (h1 : zi.toNat < s.l_DNH4UMS.length) :
    D s zi { t with l_DNH4UMS := wr t.l_DNH4UMS zi (0.4 * rd t.v_MIRED zi * (t.g_NH4Sum - t.g_NH4UMS)) } := by
  obtain ⟨hu, m0, m1⟩ := h
  have hl : zi.toNat < t.l_DNH4UMS.length := by rw [hu.2.2.2.1]; exact h1
  refine ⟨?_, ?_, ?_⟩
  · unfold U0 at *; simp only [length_wr]; exact hu
  · show 0 ≤ rd (wr t.l_DNH4UMS zi _) zi
    rw [rd_wr_same _ _ _ h0 hl, hu.1, hu.2.1]
    have : 0 ≤ s.g_NH4Sum - s.g_NH4UMS := by linarith
    positivity
  · show rd (wr t.l_DNH4UMS zi _) zi ≤ _
    rw [rd_wr_same _ _ _ h0 hl, hu.1, hu.2.1]
    have hx : 0 ≤ s.g_NH4Sum - s.g_NH4UMS := by linarith
    have : (0.4 : ℚ) * rd t.v_MIRED zi ≤ 1 := by norm_num; linarith
    calc (0.4 : ℚ) * rd t.v_MIRED zi * (s.g_NH4Sum - s.g_NH4UMS) ≤ 1 * (s.g_NH4Sum - s.g_NH4UMS) := mul_le_mul_of_nonneg_right this hx
      _ = _ := one_mul _

theorem d_zero (h : M1 s zi t) (hle : s.g_NH4UMS ≤ s.g_NH4Sum) (h0 : 0 ≤ zi) (h1 : zi.toNat < s.l_DNH4UMS.length) :
    D s zi { t with l_DNH4UMS := wr t.l_DNH4UMS zi 0.0 } := by
  obtain ⟨hu, _, _⟩ := h
  have hl : zi.toNat < t.l_DNH4UMS.length := by rw [hu.2.2.2.1]; exact h1
  refine ⟨?_, ?_, ?_⟩
  · unfold U0 at *; simp only [length_wr]; exact hu
  · show 0 ≤ rd (wr t.l_DNH4UMS zi _) zi
    rw [rd_wr_same _ _ _ h0 hl]; norm_num
  · show rd (wr t.l_DNH4UMS zi _) zi ≤ _
    rw [rd_wr_same _ _ _ h0 hl]; norm_num; linarith

theorem f_step (h : D s zi t) (_hle : s.g_NH4UMS ≤ s.g_NH4Sum) : F s { t with g_NH4UMS := t.g_NH4UMS + rd t.l_DNH4UMS zi } := by
  obtain ⟨hu, d0, d1⟩ := h
  refine ⟨hu.2.1, ?_, ?_, hu.2.2.1, hu.2.2.2.1, hu.2.2.2.2⟩
  · show s.g_NH4UMS ≤ t.g_NH4UMS + rd t.l_DNH4UMS zi
    rw [hu.1]; linarith
  · show t.g_NH4UMS + rd t.l_DNH4UMS zi ≤ s.g_NH4Sum
    rw [hu.1]; linarith

theorem f_warm {c : Prop} [Decidable c] (hc : c) (ha : F s a) : F s (if c then a else b) := by rw [if_pos hc]; exact ha
end

/-- one iteration of the layer loop on a warm layer: the nitrified ammonium sum stays between its old value and the ammonium applied -/
theorem loop1_U (z : Int) (s : St ℚ) (hle : s.g_NH4UMS ≤ s.g_NH4Sum) (hz : 1 ≤ z) (h1 : (z - 1).toNat < s.v_MIRED.length)
    (h2 : (z - 1).toNat < s.l_DNH4UMS.length) (hw : 0.0 < (rd s.g_TD z + rd s.g_TD (z - 1)) / 2.0) : F s (loop1 m z s) := by
  have h0 : (0 : Int) ≤ z - 1 := by omega
  unfold loop1
  extract_lets zi tempbo
  have hw' : 0.0 < tempbo := hw
  have hu0 : U0 s s := ⟨rfl, rfl, rfl, rfl, rfl⟩
  walk_states [F s, D s zi, M1 s zi, M0 s zi, U0 s] by
    first | exact hu0 | exact f_step hprev hle | exact d_step hprev hle h0 h2 | exact d_zero hprev hle h0 h2
          | exact m1_clamp hprev h0 h1 | exact m0_clamp hprev h0 h1 | exact u0_mired hprev _ | exact u0_mired hprev.1 _
  assumption

/-- `F` composes over iterations -/
theorem F_trans {s0 t u : St ℚ} (h1 : F s0 t) (h2 : F t u) : F s0 u := by
  obtain ⟨a1, a2, a3, a4, a5, a6⟩ := h1
  obtain ⟨b1, b2, b3, b4, b5, b6⟩ := h2
  refine ⟨b1.trans a1, le_trans a2 b2, ?_, b4.trans a4, b5.trans a5, b6.trans a6⟩
  rw [a1] at b3; exact b3

/-- **`mineral`, whole call on warm layers: the nitrified ammonium sum stays between its old value and the ammonium applied.** -/
theorem run_dissolved (s : St ℚ) (h : WarmInRange s) (hle : s.g_NH4UMS ≤ s.g_NH4Sum) :
    (run m s).g_NH4Sum = s.g_NH4Sum ∧ s.g_NH4UMS ≤ (run m s).g_NH4UMS ∧ (run m s).g_NH4UMS ≤ s.g_NH4Sum := by
  unfold run
  extract_lets s1 s2 s3 s4 s5
  have hn : s4.v_num = Int.tdiv s.g_IZM s.g_DZ_Index := rfl
  have hm : s4.v_MIRED.length = 4 := by show (List.replicate 4 (0.0 : ℚ)).length = 4; simp
  have hd : s4.l_DNH4UMS.length = s.l_DNH4UMS.length := rfl
  have htd : s4.g_TD = s.g_TD := rfl
  have base : F s4 s4 := ⟨rfl, le_refl _, hle, rfl, rfl, rfl⟩
  have key := loopUp_noBrk_ind (loop1 m) (fun _ t => F s4 t) 1 (s4.v_num + 1) s4 base
    (fun k hk t ht => by
      have hk' : k < (Int.tdiv s.g_IZM s.g_DZ_Index).toNat := by rw [hn] at hk; omega
      have hz : ((1 : Int) + k - 1).toNat = k := by omega
      obtain ⟨t1, t2, t3, t4, t5, t6⟩ := ht
      refine F_trans ⟨t1, t2, t3, t4, t5, t6⟩ (loop1_U m (1 + k) t (by rw [t1]; exact t3) (by omega) ?_ ?_ ?_)
      · rw [hz, t4, hm]; exact lt_of_lt_of_le hk' h.1
      · rw [hz, t5, hd]; exact lt_of_lt_of_le hk' h.2.2.1
      · rw [t6, htd]; exact h.2.2.2 k hk')
  obtain ⟨k1, k2, k3, _, _, _⟩ := key
  exact ⟨k1, k2, k3⟩

end Nh4

end Hermes.Generated.Imp.mineral
