/-
Lemmas about the rotation model (HermesModel/Rotation.lean): what each helper of the day step leaves
untouched, the latest-harvest invariant, the sowing window.
-/
import HermesModel.Rotation
import Mathlib.Tactic.Linarith

namespace Hermes.Rotation

@[simp] theorem upd_same (a : Arr) (i v : Nat) : upd a i v i = v := by simp [upd]
theorem upd_other (a : Arr) (i v j : Nat) (h : j ≠ i) : upd a i v j = a j := by simp [upd, h]

/-- the part of the state no helper of the sowing block or of `PhytoOut` touches -/
def Core (s t : St) : Prop := t.akf = s.akf ∧ t.records = s.records ∧ t.saat1 = s.saat1

theorem Core.refl (s : St) : Core s s := ⟨rfl, rfl, rfl⟩
theorem Core.trans {s t u : St} (h1 : Core s t) (h2 : Core t u) : Core s u :=
  ⟨h2.1.trans h1.1, h2.2.1.trans h1.2.1, h2.2.2.trans h1.2.2⟩

theorem core_setSaat (s : St) (z : Nat) : Core s (setSaat s z) := ⟨rfl, rfl, rfl⟩
theorem core_setErnte (s : St) (z : Nat) : Core s (setErnte s z) := ⟨rfl, rfl, rfl⟩
theorem core_setErnteBoth (s : St) (z : Nat) : Core s (setErnteBoth s z) := ⟨rfl, rfl, rfl⟩

theorem core_trigSow (zeit : Nat) (trig : Bool) (s : St) : Core s (trigSow zeit trig s) := by
  unfold trigSow; split
  · exact core_setSaat s zeit
  · exact Core.refl s
theorem core_forcedSow (zeit : Nat) (s : St) : Core s (forcedSow zeit s) := by
  unfold forcedSow; split
  · exact core_setSaat s zeit
  · exact Core.refl s
theorem core_sowingBlock (c : Cfg) (zeit : Nat) (trig : Bool) (s : St) : Core s (sowingBlock c zeit trig s) := by
  unfold sowingBlock; split
  · exact (core_trigSow zeit trig s).trans (core_forcedSow zeit _)
  · exact Core.refl s
theorem core_sowEvent (zeit : Nat) (s : St) : Core s (sowEvent zeit s) := by
  unfold sowEvent; split
  · exact ⟨rfl, rfl, rfl⟩
  · exact Core.refl s
theorem core_pushNextSowing (zeit base : Nat) (s : St) : Core s (pushNextSowing zeit base s) := by
  unfold pushNextSowing; split
  · exact ⟨rfl, rfl, rfl⟩
  · exact Core.refl s
theorem core_autoHarvest (zeit : Nat) (ht : Bool) (s : St) : Core s (autoHarvest zeit ht s) := by
  unfold autoHarvest; split
  · exact (core_setErnteBoth s zeit).trans (core_pushNextSowing zeit zeit _)
  · exact Core.refl s
theorem core_forcedHarvest1 (zeit : Nat) (s : St) : Core s (forcedHarvest1 zeit s) := by
  unfold forcedHarvest1; split
  · exact core_setErnte s _
  · exact Core.refl s
theorem core_harvestBlock (zeit : Nat) (em ht : Bool) (s : St) : Core s (harvestBlock zeit em ht s) := by
  unfold harvestBlock; split
  · exact (core_autoHarvest zeit ht s).trans (core_forcedHarvest1 zeit _)
  · exact Core.refl s
theorem core_forcedHarvest2 (zeit : Nat) (s : St) : Core s (forcedHarvest2 zeit s) := by
  unfold forcedHarvest2; split
  · exact (core_setErnte s _).trans (core_pushNextSowing zeit _ _)
  · exact Core.refl s
theorem core_phyto (zeit : Nat) (em ht : Bool) (s : St) : Core s (phyto zeit em ht s) := by
  unfold phyto; split
  · exact ((core_sowEvent zeit s).trans (core_harvestBlock zeit em ht _)).trans (core_forcedHarvest2 zeit _)
  · exact Core.refl s

/-! ### latest-harvest invariant -/

/-- `ERNTE[AKF] = 0 ∨ ERNTE[AKF] ≤ ERNTE2[AKF]` -/
def HarvInv (s : St) : Prop := s.ernte s.akf = 0 ∨ s.ernte s.akf ≤ s.ernte2 s.akf

theorem harvInv_sowEvent (zeit : Nat) (s : St) (h : HarvInv s) : HarvInv (sowEvent zeit s) := by
  unfold sowEvent; split
  · exact h
  · exact h
theorem harvInv_pushNextSowing (zeit base : Nat) (s : St) (h : HarvInv s) : HarvInv (pushNextSowing zeit base s) := by
  unfold pushNextSowing; split
  · exact h
  · exact h
theorem harvInv_autoHarvest (zeit : Nat) (ht : Bool) (s : St) (h : HarvInv s) : HarvInv (autoHarvest zeit ht s) := by
  unfold autoHarvest; split
  · apply harvInv_pushNextSowing
    right; simp [setErnteBoth]
  · exact h
theorem harvInv_forcedHarvest1 (zeit : Nat) (s : St) (h : HarvInv s) : HarvInv (forcedHarvest1 zeit s) := by
  unfold forcedHarvest1; split
  · rename_i hc
    simp only [Bool.and_eq_true, decide_eq_true_eq] at hc
    right; simp [setErnte, hc.1]
  · exact h
theorem harvInv_harvestBlock (zeit : Nat) (em ht : Bool) (s : St) (h : HarvInv s) : HarvInv (harvestBlock zeit em ht s) := by
  unfold harvestBlock; split
  · exact harvInv_forcedHarvest1 zeit _ (harvInv_autoHarvest zeit ht s h)
  · exact h
theorem harvInv_forcedHarvest2 (zeit : Nat) (s : St) (h : HarvInv s) : HarvInv (forcedHarvest2 zeit s) := by
  unfold forcedHarvest2; split
  · rename_i hc
    simp only [Bool.and_eq_true, decide_eq_true_eq] at hc
    apply harvInv_pushNextSowing
    right; simp [setErnte, hc.1]
  · exact h
theorem harvInv_phyto (zeit : Nat) (em ht : Bool) (s : St) (h : HarvInv s) : HarvInv (phyto zeit em ht s) := by
  unfold phyto; split
  · exact harvInv_forcedHarvest2 zeit _ (harvInv_harvestBlock zeit em ht _ (harvInv_sowEvent zeit s h))
  · exact h

end Hermes.Rotation
