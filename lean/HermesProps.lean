import HermesProps.AuditCmd
import HermesProps.C12
import HermesProps.C17
import HermesProps.C01
