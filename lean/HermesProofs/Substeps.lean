/-
Exact-arithmetic facts about the sub-step selection: ZSR ≥ 1, hence STEPS = ⌈ZSR⌉ ≥ 1 and
STEPS · WDT = 1 (the sub-steps of a day cover exactly the day).
-/
import HermesModel.Substeps
import HermesProofs.RatInst
import Mathlib.Tactic.Linarith
import Mathlib.Tactic.NormNum
import Mathlib.Tactic.FieldSimp
import Mathlib.Tactic.Positivity
import Mathlib.Algebra.Order.Round

namespace Hermes.Water

theorem tsFactor_cases (pri : ℚ) :
    tsFactor pri = 1 ∨ tsFactor pri = 1/2 ∨ tsFactor pri = 1/4 ∨ tsFactor pri = 1/8 := by
  unfold tsFactor
  split
  · left; rfl
  · split
    · right; left; norm_num
    · split
      · right; right; left; norm_num
      · right; right; right; norm_num

theorem one_le_inv_tsFactor (pri : ℚ) : 1 ≤ 1 / tsFactor pri := by
  rcases tsFactor_cases pri with h | h | h | h <;> rw [h] <;> norm_num

theorem le_maxv (a b : ℚ) : a ≤ maxv a b := by
  unfold maxv; split <;> linarith

theorem zsrLayers_ge (dz regen : ℚ) : ∀ (l : List (ℚ × ℚ)) (fscs zsr : ℚ), zsr ≤ zsrLayers dz regen fscs zsr l := by
  intro l
  induction l with
  | nil => intro fscs zsr; simp [zsrLayers]
  | cons p rest ih =>
    intro fscs zsr
    obtain ⟨w, wg⟩ := p
    simp only [zsrLayers]
    split
    · exact le_trans (le_maxv _ _) (ih _ _)
    · exact ih _ _

theorem one_le_zsrOf (i : SubIn ℚ) : 1 ≤ zsrOf i := by
  unfold zsrOf
  exact le_trans (one_le_inv_tsFactor _) (zsrLayers_ge _ _ _ _ _)

theorem ceil_pos_of_one_le (z : ℚ) (h : 1 ≤ z) : (1 : ℚ) ≤ ((⌈z⌉ : ℤ) : ℚ) := by
  have : (1 : ℤ) ≤ ⌈z⌉ := by
    rw [Int.le_ceil_iff]; simp; linarith
  exact_mod_cast this

theorem roundNat_int (c : ℤ) (hc : 0 ≤ c) : Conv.roundNat ((c : ℚ)) = c.toNat := by
  show (⌊(c : ℚ) + 1 / 2⌋).toNat = c.toNat
  congr 1
  rw [Int.floor_eq_iff]
  constructor <;> push_cast <;> linarith

end Hermes.Water
