// check — the implementation side of every property check: generates cases from VERIF_SEED,
// calls the real Hermes2Go code in-process (or its built binaries), runs the Lean model driver on
// the same cases, compares, evaluates the property directly on the implementation and writes a
// result record that bin/run_check.py merges with the proof stage.
package main

import (
	"bytes"
	"encoding/json"
	"flag"
	"fmt"
	"io"
	"os"
	"os/exec"
	"sort"

	"verifharness/vh"
)

var checks = map[string]func(c *vh.Ctx){}

func register(id string, f func(c *vh.Ctx)) { checks[id] = f }

func main() {
	prop := flag.String("prop", "", "property id")
	tier := flag.String("tier", "quick", "quick|thorough")
	seed := flag.Uint64("seed", 1, "seed")
	out := flag.String("out", "", "result json path")
	replay := flag.String("replay", "", "replay file (optional)")
	flag.Parse()
	f, ok := checks[*prop]
	if !ok {
		ids := []string{}
		for k := range checks {
			ids = append(ids, k)
		}
		sort.Strings(ids)
		fmt.Fprintln(os.Stderr, "unknown property; have", ids)
		os.Exit(2)
	}
	if os.Getenv("VERIF_CHILD") == "" && os.Getenv("VERIF_NOCHILD") == "" {
		os.Exit(superviseChild(*prop, *tier, *seed, *out))
	}
	c := vh.NewCtx(*prop, *tier, *seed)
	if *replay != "" {
		os.Setenv("VERIF_REPLAY", *replay)
	}
	func() {
		defer func() {
			if r := recover(); r != nil {
				c.Violate("search", "harness:panic", fmt.Sprintf("panic while checking: %v", r), nil)
			}
		}()
		f(c)
		if *prop != "C03" && *prop != "C11" {
			checkKernelPurityFacts(c)
			checkSessionFacts(c) // a run is a function of its own line and files: no state kept in the session between runs
		}
	}()
	c.Finish(*out)
}

// superviseChild runs the check in a child process. The implementation under test may end the
// process (log.Fatal, fatal runtime errors such as concurrent map writes); then the child leaves no
// result file and the parent reports the last case the child announced (vh.Crumb) as the input on
// which the run died — as a correspondence-stage failure with that concrete case in the replay.
func superviseChild(prop, tier string, seed uint64, out string) int {
	crumb := out + ".crumb"
	os.Remove(crumb)
	os.Remove(out)
	var tail bytes.Buffer
	var err error
	defer os.Remove(crumb)
	// The check is deterministic (one PRNG state): a kill caused by the implementation on a generated case repeats at the
	// same case. A child that dies once and completes when it is started again was ended by the environment (no thread
	// or memory left while other jobs load the machine) — it is not evidence about the implementation.
	for attempt := 1; attempt <= 2; attempt++ {
		tail.Reset()
		os.Remove(out)
		cmd := exec.Command(os.Args[0], os.Args[1:]...)
		cmd.Env = append(os.Environ(), "VERIF_CHILD=1", "VERIF_CRUMB="+crumb)
		cmd.Stdout = os.Stdout
		cmd.Stderr = io.MultiWriter(os.Stderr, &tail)
		err = cmd.Run()
		if _, statErr := os.Stat(out); statErr == nil {
			if err != nil {
				return 1
			}
			return 0
		}
		if attempt == 1 {
			fmt.Fprintln(os.Stderr, "check child ended without a result; starting it once more to tell an environment failure from a kill by the implementation")
		}
	}
	res := &vh.Result{Property: prop, Tier: tier, Seed: seed, Distribution: map[string]int{}, Extra: map[string]interface{}{}}
	var last map[string]interface{}
	if b, e := os.ReadFile(crumb); e == nil {
		json.Unmarshal(bytes.TrimRight(b, "\x00"), &last)
	}
	class := "unknown-case"
	if last != nil {
		if s, ok := last["class"].(string); ok {
			class = s
		}
	}
	t := tail.String()
	if len(t) > 3000 {
		t = t[len(t)-3000:]
	}
	res.Evaluations = 1
	res.Rule = "the check process was ended by the implementation before the check finished"
	res.Samples = []interface{}{last}
	res.Violations = []vh.Violation{{Stage: "correspondence", Signature: "process-killed:" + class,
		What:   fmt.Sprintf("the implementation ended the process (log.Fatal / fatal runtime error: %v) while the check executed the case in the replay: %s", err, t),
		Replay: map[string]interface{}{"last_case": last, "stderr_tail": t}}}
	b, _ := json.MarshalIndent(res, "", " ")
	os.WriteFile(out, b, 0o644)
	return 0
}
