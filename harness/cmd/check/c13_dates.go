package main

// C13, date formats at the century split of the SHORT formats, and session sequences.
//
// c13DateSplit: paired whole runs "all dates in format f" vs DElong in which DivideCentury is chosen
// so that the two-digit years of the project's dates sit exactly on the split, one above it and one
// below it (all still unambiguous): a project lying in 19xx whose start year equals the split or
// the split + 1, a project lying in 20xx whose end year equals the split − 1 or − 2, and a project
// crossing 1999/2000 with the split on its start year resp. just above its end year. The projects
// are generated ones moved by a multiple of four years (ShiftYears), so the three classes occur in
// every run of the quick tier.
// c13LangTag: the day-length date converter used for the virtual fertiliser-prediction date
// (LangTagConverter, longday.go:11-49) on the same date written in the four formats, over every
// split and the years on / next to it.
// c13Session: batch lines of ONE session that differ only in the encoding they select must each give
// the files of their solo run.

import (
	"fmt"
	"path/filepath"
	"sort"
	"strings"

	"github.com/zalf-rpm/Hermes2Go/hermes"
	"verifharness/proj"
	"verifharness/vh"
)

type splitCase struct {
	cent int
	cls  string
}

// admissible splits that put a date of the span [yS, yE] on or next to the split
func splitCases(yS, yE int) []splitCase {
	var out []splitCase
	add := func(cent int, cls string) {
		if cent < 0 || cent > 100 {
			return
		}
		// unambiguous: every year y of the span reads back as y
		for y := yS; y <= yE; y++ {
			yy := y % 100
			got := 1900 + yy
			if yy < cent {
				got = 2000 + yy
			}
			if got != y {
				return
			}
		}
		out = append(out, splitCase{cent, cls})
	}
	if yS < 2000 {
		add(yS%100, "start-year==split")
		add(yS%100-1, "start-year==split+1")
	}
	if yE >= 2000 {
		add(yE%100+1, "end-year==split-1")
		add(yE%100+2, "end-year==split-2")
	}
	return out
}

func c13DateSplit(c *vh.Ctx) {
	type target struct {
		name   string
		accept func(yS, yE int) bool
		aim    func(r *vh.Rng) int // wanted start year
	}
	targets := []target{
		{"within-19xx", func(yS, yE int) bool { return yE < 2000 && yS >= 1902 }, func(r *vh.Rng) int { return r.Range(1950, 1992) }},
		{"within-20xx", func(yS, yE int) bool { return yS >= 2000 && yE <= 2090 }, func(r *vh.Rng) int { return r.Range(2001, 2060) }},
		{"crossing-1999/2000", func(yS, yE int) bool { return yS <= 1999 && yE >= 2000 }, func(r *vh.Rng) int { return 1999 }},
	}
	reps := c.N(1, 6)
	runs := 0
	for ti, tg := range targets {
		for rep := 0; rep < reps; rep++ {
			// find a generated project that lands in the class after a shift by a multiple of 4 years
			var seed uint64
			dy := 0
			found := false
			for try := 0; try < 60 && !found; try++ {
				seed = c.Rng.U64()
				p := proj.Gen(vh.NewRng(seed), "x", proj.Opt{Management: true, MinLayers: 5, Years: 2})
				aim := tg.aim(c.Rng)
				dy = (aim - p.Start().Y) / 4 * 4
				for _, d := range []int{dy, dy + 4, dy - 4} {
					if tg.accept(p.Start().Y+d, p.End().Y+d) {
						dy, found = d, true
						break
					}
				}
				p.Forget()
			}
			if !found {
				c.Note("date split: no project for class %s", tg.name)
				continue
			}
			name := fmt.Sprintf("ds%d_%d", ti, rep)
			mk := func() *proj.Project {
				p := proj.Gen(vh.NewRng(seed), name, proj.Opt{Management: true, MinLayers: 5, Years: 2})
				p.ShiftYears(dy)
				p.DailyCols = c13DailyCols
				p.DeriveMeanTemperature()
				p.UseWeatherLayout(1, false, 0, 2)
				p.NumericOutputs()
				return p
			}
			b := mk()
			yS, yE := b.Start().Y, b.End().Y
			// dates before the start (events the readers drop) must be readable too
			for _, e := range b.Fert {
				if e.Date.Y < yS {
					yS = e.Date.Y
				}
			}
			for _, e := range b.Irr {
				if e.Date.Y < yS {
					yS = e.Date.Y
				}
			}
			base := runProject(c, filepath.Join(c.Scratch, name+"_base"), b, nil)
			runs++
			if base.Err != "" || base.Panic != "" {
				c.Note("date split: base project of class %s fails: %s %s", tg.name, base.Err, base.Panic)
				continue
			}
			// the same with a virtual fertiliser-prediction date (read by Datum and by LangTagConverter)
			pred := b.Start().AddDays(200 + int(seed%60))
			withPred := func(p *proj.Project) *proj.Project {
				p.Cfg["VirtualDateFertilizerPrediction"] = "\"" + pred.Fmt(p.DateFmt) + "\""
				return p
			}
			predBase := runProject(c, filepath.Join(c.Scratch, name+"_predbase"), withPred(mk()), nil)
			runs++
			predOK := predBase.Err == "" && predBase.Panic == ""
			if !predOK {
				c.Count("datesplit:prediction-run-not-usable")
			}
			cases := splitCases(yS, yE)
			if len(cases) == 0 {
				c.Note("date split: no admissible split for %d..%d", yS, yE)
			}
			for _, sc := range cases {
				for _, f := range []int{0, 2, 3} {
					if f == 3 && sc.cls != cases[0].cls {
						continue // the long formats ignore the split: once per project
					}
					p := mk()
					p.Century = sc.cent
					p.SetDateFormat(f)
					v := runProject(c, filepath.Join(c.Scratch, fmt.Sprintf("%s_f%d_c%d", name, f, sc.cent)), p, nil)
					runs++
					c.Eval()
					c.Nontrivial(fmt.Sprintf("datesplit/%s/%s/f%d/%d", tg.name, sc.cls, f, rep))
					c.Count("datesplit:" + tg.name + ":" + sc.cls)
					compareRuns(c, fmt.Sprintf("run:dateformat-%d-vs-DElong:%s", f, sc.cls),
						fmt.Sprintf("all dates in format %d with DivideCentury %d (project %d..%d, %s) vs DElong", f, sc.cent, yS, yE, sc.cls), base, v, "VYC",
						map[string]interface{}{"generator_seed": seed, "shift_years": dy, "date_format": f, "divide_century": sc.cent, "first_year": yS, "last_year": yE,
							"how": "proj.Gen(vh.NewRng(seed), name, Opt{Management:true,MinLayers:5,Years:2}); ShiftYears(shift); NumericOutputs; Century=divide_century; SetDateFormat(f); run vs the same project in DElong"})
					if predOK && f != 3 {
						q := mk()
						q.Century = sc.cent
						q.SetDateFormat(f)
						w := runProject(c, filepath.Join(c.Scratch, fmt.Sprintf("%s_pf%d_c%d", name, f, sc.cent)), withPred(q), nil)
						runs++
						c.Eval()
						c.Nontrivial(fmt.Sprintf("datesplit-pred/%s/%s/f%d/%d", tg.name, sc.cls, f, rep))
						c.Count("datesplit:with-prediction-date:" + sc.cls)
						compareRuns(c, fmt.Sprintf("run:dateformat-%d-vs-DElong:prediction-date:%s", f, sc.cls),
							fmt.Sprintf("virtual prediction date %s, all dates in format %d with DivideCentury %d (project %d..%d) vs DElong", pred, f, sc.cent, yS, yE), predBase, w, "VYC",
							map[string]interface{}{"generator_seed": seed, "shift_years": dy, "date_format": f, "divide_century": sc.cent, "prediction_date": pred.String()})
					}
				}
			}
		}
	}
	c.Res.Extra["date_split_runs"] = runs
}

// c13LangTag: the same prediction date in the four formats gives the same (day, P1, P2).
func c13LangTag(c *vh.Ctx) {
	step := c.N(7, 1)
	for cent := 1; cent <= 99; cent += step {
		for _, yr := range []int{1900 + cent, 1901 + cent, 1999 + cent, 1998 + cent} {
			if yr < 1902 || yr > 2098 {
				continue
			}
			d := proj.Date{Y: yr, M: 1 + (cent*7)%12, D: 1 + (cent*13)%28}
			lat := 35 + float64((cent*11)%30)
			t0, p10, p20 := hermes.LangTagConverter(cent, hermes.DateDElong)(lat, d.Fmt(1), yr-1900)
			for _, f := range []int{0, 2, 3} {
				format := []hermes.DateFormat{hermes.DateDEshort, hermes.DateDElong, hermes.DateENshort, hermes.DateENlong}[f]
				t, p1, p2 := hermes.LangTagConverter(cent, format)(lat, d.Fmt(f), yr-1900)
				c.Eval()
				cls := "inside"
				switch yr {
				case 1900 + cent:
					cls = "year==split"
				case 1901 + cent:
					cls = "year==split+1"
				case 1999 + cent:
					cls = "year==split-1"
				case 1998 + cent:
					cls = "year==split-2"
				}
				c.Nontrivial(fmt.Sprintf("langtag/%d/%d/%d", cent, yr, f))
				if t != t0 || p1 != p10 || p2 != p20 {
					c.Violate("search", fmt.Sprintf("langtag:format-%d-vs-DElong:%s", f, cls),
						fmt.Sprintf("LangTagConverter(split %d) reads %s (format %d) as (%d,%d,%d) but %s (DElong) as (%d,%d,%d)", cent, d.Fmt(f), f, t, p1, p2, d.Fmt(1), t0, p10, p20),
						map[string]interface{}{"divide_century": cent, "date": d.String(), "format": f, "latitude": lat})
				}
			}
		}
	}
}

// ---------------------------------------------------------------- session sequences

// sessionFiles returns the captured result files of one line (identified by its poligonID+plotNr).
func sessionFiles(mo *proj.MemOut, id string) runOutFmt {
	var o runOutFmt
	for k, b := range mo.Files {
		switch {
		case strings.HasPrefix(k, "V"+id+"."):
			o.V = b.String()
		case strings.HasPrefix(k, "Y"+id+"."):
			o.Y = b.String()
		case strings.HasPrefix(k, "C"+id+"."):
			o.C = b.String()
		case strings.HasPrefix(k, "M"+id+"."):
			o.M = b.String()
		}
	}
	return o
}

type sessionLine struct {
	tag  string
	args []string
}

// runSessionLines runs the lines solo (one session each), then together in one session in the given
// order sequentially and, once more, overlapping in time; every line must give its solo files.
func runSessionLines(c *vh.Ctx, root, sigPrefix string, p *proj.Project, lines []sessionLine, replay map[string]interface{}) {
	mkArgs := func(i int) []string {
		return append(append(append([]string{}, p.BatchArgs()...), lines[i].args...), fmt.Sprintf("poligonID=L%d", i))
	}
	id := func(i int) string { return fmt.Sprintf("L%d%s", i, p.Plot) }
	solo := make([]runOutFmt, len(lines))
	for i := range lines {
		mo, rs := proj.RunSession(root, [][]string{mkArgs(i)}, false)
		solo[i] = sessionFiles(mo, id(i))
		if rs[0].Err != nil {
			solo[i].Err = rs[0].Err.Error()
		}
		solo[i].Panic = rs[0].Panic
	}
	orders := [][]int{}
	fwd := make([]int, len(lines))
	rev := make([]int, len(lines))
	for i := range lines {
		fwd[i], rev[i] = i, len(lines)-1-i
	}
	orders = append(orders, fwd, rev)
	if c.Thorough() {
		sh := append([]int{}, fwd...)
		for i := len(sh) - 1; i > 0; i-- {
			j := c.Rng.Intn(i + 1)
			sh[i], sh[j] = sh[j], sh[i]
		}
		orders = append(orders, sh)
	}
	for oi, ord := range orders {
		for _, conc := range []bool{false, true} {
			if conc && oi > 0 {
				continue
			}
			var batch [][]string
			for _, i := range ord {
				batch = append(batch, mkArgs(i))
			}
			mo, rs := proj.RunSession(root, batch, conc)
			for k, i := range ord {
				got := sessionFiles(mo, id(i))
				if rs[k].Err != nil {
					got.Err = rs[k].Err.Error()
				}
				got.Panic = rs[k].Panic
				c.Eval()
				mode := "sequential"
				if conc {
					mode = "concurrent"
				}
				c.Nontrivial(fmt.Sprintf("%s/%s/order%d/%s/%s", sigPrefix, p.Name, oi, mode, lines[i].tag))
				rp := map[string]interface{}{}
				for kk, vv := range replay {
					rp[kk] = vv
				}
				var tags []string
				for _, j := range ord {
					tags = append(tags, lines[j].tag+": "+strings.Join(lines[j].args, " "))
				}
				rp["session_lines_in_order"], rp["mode"], rp["line"] = tags, mode, lines[i].tag
				compareRuns(c, fmt.Sprintf("%s:%s:%s", sigPrefix, mode, lines[i].tag),
					fmt.Sprintf("line %q in a %s session of %d lines vs its solo run", lines[i].tag, mode, len(ord)), solo[i], got, "VYCM", rp)
			}
		}
	}
	// equivalent encodings: every line must also equal line 0 (the caller decides through sigPrefix)
}

func c13Session(c *vh.Ctx) {
	n := c.N(2, 12)
	for k := 0; k < n; k++ {
		seed := c.Rng.U64()
		name := fmt.Sprintf("ss%d", k)
		p := proj.Gen(vh.NewRng(seed), name, proj.Opt{Management: true, MinLayers: 5, Years: 2})
		p.DailyCols = c13DailyCols
		p.DeriveMeanTemperature()
		if !p.SoilTxtOK() {
			p.Forget()
			continue
		}
		p.UseWeatherLayout(1, false, 0, 2)
		root := filepath.Join(c.Scratch, "sess_"+name)
		if err := p.Write(root, c.Repo); err != nil {
			panic(err)
		}
		if err := p.WriteAlt(root); err != nil {
			panic(err)
		}
		if err := p.WriteAllEncodings(root); err != nil {
			panic(err)
		}
		lines := []sessionLine{
			{"base", nil},
			{"soil-txt", []string{"SoilFileExtension=txt"}},
			{"rotation-csv", []string{"CropFileFormat=csv"}},
			{"measurement-csv", []string{"MeasurementFileFormat=csv"}},
			{"cropparam-yml", []string{"CropParameterFormat=yml"}},
			{"weather-yearfiles", []string{"WeatherFileFormat=0", "WeatherFolder=gen0", "WeatherFile=%s."}},
			{"weather-dayofyear", []string{"WeatherFileFormat=2", "WeatherFolder=gen2"}},
		}
		replay := map[string]interface{}{"generator_seed": seed, "how": "proj.Gen(vh.NewRng(seed), name, Opt{Management:true,MinLayers:5,Years:2}); DeriveMeanTemperature; Write; WriteAllEncodings; proj.RunSession(root, lines, concurrent)"}
		runSessionLines(c, root, "session:format-switch", p, lines, replay)
		// all lines select equivalent encodings: each solo run equals the base line too
		mo, rs := proj.RunSession(root, func() [][]string {
			var b [][]string
			for i := range lines {
				b = append(b, append(append(append([]string{}, p.BatchArgs()...), lines[i].args...), fmt.Sprintf("poligonID=L%d", i)))
			}
			return b
		}(), false)
		base := sessionFiles(mo, fmt.Sprintf("L0%s", p.Plot))
		for i := 1; i < len(lines); i++ {
			got := sessionFiles(mo, fmt.Sprintf("L%d%s", i, p.Plot))
			if rs[i].Err != nil {
				got.Err = rs[i].Err.Error()
			}
			got.Panic = rs[i].Panic
			c.Eval()
			compareRuns(c, "session:format-switch:equals-base:"+lines[i].tag, "line "+lines[i].tag+" of a session vs the base encoding line of the same session", base, got, "VYCM", replay)
		}
		p.Forget()
	}
	_ = sort.Strings
}
