/-
Line protocol helpers for the model driver (core Lean only).
Floats travel as `x` + 16 hex digits (IEEE-754 binary64 bit pattern), integers in decimal,
lists as `n e1 … en`.
-/
namespace Hermes.Proto

def hexDigitVal (c : Char) : Option Nat :=
  if '0' ≤ c ∧ c ≤ '9' then some (c.toNat - 48)
  else if 'a' ≤ c ∧ c ≤ 'f' then some (c.toNat - 87)
  else if 'A' ≤ c ∧ c ≤ 'F' then some (c.toNat - 55)
  else none

def parseHex (s : String) : Option Nat :=
  s.toList.foldl (fun acc c => match acc, hexDigitVal c with
    | some a, some d => some (a * 16 + d)
    | _, _ => none) (some 0)

def parseFloat (tok : String) : Option Float :=
  if tok.startsWith "x" then
    match parseHex (tok.drop 1).toString with
    | some n => some (Float.ofBits n.toUInt64)
    | none => none
  else none

def hexChar (n : Nat) : Char := if n < 10 then Char.ofNat (48 + n) else Char.ofNat (87 + n)

def fmtFloat (f : Float) : String :=
  let b := f.toBits.toNat
  let ds := (List.range 16).map fun i => hexChar ((b >>> (4 * (15 - i))) % 16)
  "x" ++ String.ofList ds

def parseInt (tok : String) : Option Int := tok.toInt?
def parseNat (tok : String) : Option Nat := tok.toNat?

/-- a token stream reader -/
abbrev Toks := List String

def popNat : Toks → Option (Nat × Toks)
  | t :: r => (parseNat t).map (·, r)
  | [] => none
def popInt : Toks → Option (Int × Toks)
  | t :: r => (parseInt t).map (·, r)
  | [] => none
def popFloat : Toks → Option (Float × Toks)
  | t :: r => (parseFloat t).map (·, r)
  | [] => none

def popFloats : Nat → Toks → Option (List Float × Toks)
  | 0, r => some ([], r)
  | n + 1, r => do
    let (x, r) ← popFloat r
    let (xs, r) ← popFloats n r
    pure (x :: xs, r)

/-- length-prefixed float list -/
def popFloatList (r : Toks) : Option (List Float × Toks) := do
  let (n, r) ← popNat r
  popFloats n r

def fmtFloats (xs : List Float) : String := " ".intercalate (xs.map fmtFloat)

def popBool : Toks → Option (Bool × Toks)
  | "1" :: r => some (true, r)
  | "0" :: r => some (false, r)
  | _ => none

def popInts : Nat → Toks → Option (List Int × Toks)
  | 0, r => some ([], r)
  | n + 1, r => do
    let (x, r) ← popInt r
    let (xs, r) ← popInts n r
    pure (x :: xs, r)

/-- length-prefixed int list -/
def popIntList (r : Toks) : Option (List Int × Toks) := do
  let (n, r) ← popNat r
  popInts n r

/-- length-prefixed lists -/
def fmtFloatList (xs : List Float) : String := " ".intercalate (toString xs.length :: xs.map fmtFloat)
def fmtIntList (xs : List Int) : String := " ".intercalate (toString xs.length :: xs.map toString)

end Hermes.Proto
