/-
Non-negativity of the organic pools and monotonicity of the mineralised-amount counters for the *translation of the current
source* of `mineral` (hermes/nitro.go → `HermesModel/Generated/Impmineral.lean`, regenerated on every run).

Per layer the loop body computes the decay `D = clamp₀(k · pool · MIRED)` with the moisture factor `MIRED` clamped to [0,1] (warm
branch), subtracts it from the pool and adds it to the counter; with a rate constant `k ∈ [0,1]` (a named hypothesis about
`math.Exp`: `k = A·exp(−E/(T+273.16))`, ≤ 1 below about 60 °C) `0 ≤ D ≤ pool`.  Phases (walked by `walk_states`): `P0` untouched,
`PM0`/`PM1` moisture factor clamped below / above, `PD0`/`PD` decay computed / clamped, `PA1` pool reduced, `PA2` counter raised;
the frozen branch stays in `P0`.
-/
import HermesModel.Generated.Impmineral
import HermesProofs.WalkStates
import HermesProofs.ImpMineralPools
import Mathlib.Tactic.Ring
import Mathlib.Tactic.SplitIfs
import Mathlib.Tactic.Linarith
import Mathlib.Tactic.Positivity

namespace Hermes.Generated.Imp.mineral
open Hermes.Imp

/-- what the rate constants and the scratch arrays of `mineral` need: temperature profile and array lengths -/
def Fr (s t : St ℚ) : Prop :=
  t.g_TD = s.g_TD ∧ t.v_MIRED.length = s.v_MIRED.length ∧ t.v_DTOTALN.length = s.v_DTOTALN.length ∧ t.v_DMINFOS.length = s.v_DMINFOS.length

theorem Fr_trans {s t u : St ℚ} (h1 : Fr s t) (h2 : Fr t u) : Fr s u :=
  ⟨h2.1.trans h1.1, h2.2.1.trans h1.2.1, h2.2.2.1.trans h1.2.2.1, h2.2.2.2.trans h1.2.2.2⟩

section
variable {s t : St ℚ} {zi : Int}
theorem fr_mired (h : Fr s t) (v : ℚ) : Fr s { t with v_MIRED := wr t.v_MIRED zi v } := by
  unfold Fr at *; simp only [length_wr]; exact h
theorem fr_dt (h : Fr s t) (v : ℚ) : Fr s { t with v_DTOTALN := wr t.v_DTOTALN zi v } := by
  unfold Fr at *; simp only [length_wr]; exact h
theorem fr_dm (h : Fr s t) (v : ℚ) : Fr s { t with v_DMINFOS := wr t.v_DMINFOS zi v } := by
  unfold Fr at *; simp only [length_wr]; exact h
end

theorem loop1_Fr (m : MathFns ℚ) (z : Int) (s : St ℚ) : Fr s (loop1 m z s) := by
  unfold loop1
  extract_lets zi
  have hf0 : Fr s s := ⟨rfl, rfl, rfl, rfl⟩
  walk_states [Fr s] by first | exact hf0 | exact fr_mired hprev _ | exact fr_dt hprev _ | exact fr_dm hprev _
  assumption

namespace PoolA
variable (m : MathFns ℚ)

/-- nothing of the pool bookkeeping touched -/
def P0 (s t : St ℚ) : Prop :=
  t.g_NAOS = s.g_NAOS ∧ t.g_MINAOS = s.g_MINAOS ∧ t.v_MIRED.length = s.v_MIRED.length ∧ t.v_DTOTALN.length = s.v_DTOTALN.length
def PM0 (s : St ℚ) (zi : Int) (t : St ℚ) : Prop := P0 s t ∧ 0 ≤ rd t.v_MIRED zi
def PM1 (s : St ℚ) (zi : Int) (t : St ℚ) : Prop := P0 s t ∧ 0 ≤ rd t.v_MIRED zi ∧ rd t.v_MIRED zi ≤ 1
/-- the decay of the layer is computed: before the clamp it is at most the pool -/
def PD0 (s : St ℚ) (zi : Int) (t : St ℚ) : Prop := P0 s t ∧ rd t.v_DTOTALN zi ≤ rd s.g_NAOS zi
/-- … and after the clamp also non-negative -/
def PD (s : St ℚ) (zi : Int) (t : St ℚ) : Prop := P0 s t ∧ 0 ≤ rd t.v_DTOTALN zi ∧ rd t.v_DTOTALN zi ≤ rd s.g_NAOS zi
/-- the pool has lost the decay -/
def PA1 (s : St ℚ) (zi : Int) (t : St ℚ) : Prop :=
  t.g_NAOS = wr s.g_NAOS zi (rd s.g_NAOS zi - rd t.v_DTOTALN zi) ∧ t.g_MINAOS = s.g_MINAOS ∧
  0 ≤ rd t.v_DTOTALN zi ∧ rd t.v_DTOTALN zi ≤ rd s.g_NAOS zi
/-- the counter has gained it -/
def PA2 (s : St ℚ) (zi : Int) (t : St ℚ) : Prop :=
  t.g_NAOS = wr s.g_NAOS zi (rd s.g_NAOS zi - rd t.v_DTOTALN zi) ∧ t.g_MINAOS = wr s.g_MINAOS zi (rd s.g_MINAOS zi + rd t.v_DTOTALN zi) ∧
  0 ≤ rd t.v_DTOTALN zi ∧ rd t.v_DTOTALN zi ≤ rd s.g_NAOS zi
/-- end of the body: warm branch in phase 2, frozen branch untouched -/
def PFin (s : St ℚ) (zi : Int) (t : St ℚ) : Prop := PA2 s zi t ∨ (t.g_NAOS = s.g_NAOS ∧ t.g_MINAOS = s.g_MINAOS)

section
variable {s t a b : St ℚ} {zi : Int}

theorem p0_mired (h : P0 s t) (v : ℚ) : P0 s { t with v_MIRED := wr t.v_MIRED zi v } := by
  unfold P0 at *; simp only [length_wr]; exact h

theorem pm0_clamp (h : P0 s t) (h0 : 0 ≤ zi) (h1 : zi.toNat < s.v_MIRED.length) :
    PM0 s zi (if rd t.v_MIRED zi < 0.0 then { t with v_MIRED := wr t.v_MIRED zi 0.0 } else t) := by
  have hl : zi.toNat < t.v_MIRED.length := by rw [h.2.2.1]; exact h1
  split_ifs with hc
  · refine ⟨p0_mired h _, ?_⟩
    show 0 ≤ rd (wr t.v_MIRED zi 0.0) zi
    rw [rd_wr_same _ _ _ h0 hl]; norm_num
  · refine ⟨h, ?_⟩
    have : ((0.0 : ℚ)) = 0 := by norm_num
    rw [this] at hc; exact not_lt.mp hc

theorem pm1_clamp (h : PM0 s zi t) (h0 : 0 ≤ zi) (h1 : zi.toNat < s.v_MIRED.length) :
    PM1 s zi (if 1.0 < rd t.v_MIRED zi then { t with v_MIRED := wr t.v_MIRED zi 1.0 } else t) := by
  have hl : zi.toNat < t.v_MIRED.length := by rw [h.1.2.2.1]; exact h1
  split_ifs with hc
  · refine ⟨p0_mired h.1 _, ?_, ?_⟩
    · show 0 ≤ rd (wr t.v_MIRED zi 1.0) zi
      rw [rd_wr_same _ _ _ h0 hl]; norm_num
    · show rd (wr t.v_MIRED zi 1.0) zi ≤ 1
      rw [rd_wr_same _ _ _ h0 hl]; norm_num
  · refine ⟨h.1, h.2, ?_⟩
    have : ((1.0 : ℚ)) = 1 := by norm_num
    rw [this] at hc; exact not_lt.mp hc

theorem pd0_step (h : PM1 s zi t) (k : ℚ) (hk0 : 0 ≤ k) (hk1 : k ≤ 1) (hN : 0 ≤ rd s.g_NAOS zi) (h0 : 0 ≤ zi)
    (h2 : zi.toNat < s.v_DTOTALN.length) :
    PD0 s zi { t with v_DTOTALN := wr t.v_DTOTALN zi (k * rd t.g_NAOS zi * rd t.v_MIRED zi) } := by
  obtain ⟨hp, m0, m1⟩ := h
  have hl : zi.toNat < t.v_DTOTALN.length := by rw [hp.2.2.2]; exact h2
  refine ⟨?_, ?_⟩
  · unfold P0 at *; simp only [length_wr]; exact hp
  · show rd (wr t.v_DTOTALN zi _) zi ≤ _
    rw [rd_wr_same _ _ _ h0 hl, hp.1]
    have : k * rd t.v_MIRED zi ≤ 1 := by nlinarith
    calc k * rd s.g_NAOS zi * rd t.v_MIRED zi = (k * rd t.v_MIRED zi) * rd s.g_NAOS zi := by ring
      _ ≤ 1 * rd s.g_NAOS zi := mul_le_mul_of_nonneg_right this hN
      _ = _ := one_mul _

theorem pd_clamp (h : PD0 s zi t) (hN : 0 ≤ rd s.g_NAOS zi) (h0 : 0 ≤ zi) (h2 : zi.toNat < s.v_DTOTALN.length) :
    PD s zi (if rd t.v_DTOTALN zi < 0.0 then { t with v_DTOTALN := wr t.v_DTOTALN zi 0.0 } else t) := by
  obtain ⟨hp, d1⟩ := h
  have hl : zi.toNat < t.v_DTOTALN.length := by rw [hp.2.2.2]; exact h2
  split_ifs with hc
  · refine ⟨?_, ?_, ?_⟩
    · unfold P0 at *; simp only [length_wr]; exact hp
    · show 0 ≤ rd (wr t.v_DTOTALN zi 0.0) zi
      rw [rd_wr_same _ _ _ h0 hl]; norm_num
    · show rd (wr t.v_DTOTALN zi 0.0) zi ≤ _
      rw [rd_wr_same _ _ _ h0 hl]; norm_num; exact hN
  · refine ⟨hp, ?_, d1⟩
    have : ((0.0 : ℚ)) = 0 := by norm_num
    rw [this] at hc; exact not_lt.mp hc

theorem pa1_step (h : PD s zi t) : PA1 s zi { t with g_NAOS := wr t.g_NAOS zi (rd t.g_NAOS zi - rd t.v_DTOTALN zi) } := by
  obtain ⟨hp, d0, d1⟩ := h
  refine ⟨?_, hp.2.1, d0, d1⟩
  show wr t.g_NAOS zi (rd t.g_NAOS zi - rd t.v_DTOTALN zi) = _
  rw [hp.1]

theorem pa2_step (h : PA1 s zi t) : PA2 s zi { t with g_MINAOS := wr t.g_MINAOS zi (rd t.g_MINAOS zi + rd t.v_DTOTALN zi) } := by
  obtain ⟨h1, h2, d0, d1⟩ := h
  refine ⟨h1, ?_, d0, d1⟩
  show wr t.g_MINAOS zi (rd t.g_MINAOS zi + rd t.v_DTOTALN zi) = _
  rw [h2]

theorem p0_join {c : Prop} [Decidable c] (ha : PM0 s zi a) (hb : P0 s b) : P0 s (if c then a else b) := by
  split_ifs
  · exact ha.1
  · exact hb

theorem pfin_ite {c : Prop} [Decidable c] (ha : PA2 s zi a) (hb : P0 s b) : PFin s zi (if c then a else b) := by
  split_ifs
  · exact Or.inl ha
  · exact Or.inr ⟨hb.1, hb.2.1⟩
end

/-- one iteration of the layer loop: the pool loses an amount between 0 and its content, the counter gains it
(hypotheses: the rate constant of the layer lies in [0,1], the pool of the layer is not negative, indices inside the arrays) -/
theorem loop1_pool (z : Int) (s : St ℚ) (hz : 1 ≤ z) (h1 : (z - 1).toNat < s.v_MIRED.length) (h2 : (z - 1).toNat < s.v_DTOTALN.length)
    (hN : 0 ≤ rd s.g_NAOS (z - 1))
    (hk : 0 ≤ 4000000000.0 * m.exp ((-8400.0) / ((rd s.g_TD z + rd s.g_TD (z - 1)) / 2.0 + 273.16)) ∧
          4000000000.0 * m.exp ((-8400.0) / ((rd s.g_TD z + rd s.g_TD (z - 1)) / 2.0 + 273.16)) ≤ 1) :
    PFin s (z - 1) (loop1 m z s) := by
  have h0 : (0 : Int) ≤ z - 1 := by omega
  unfold loop1
  extract_lets zi tempbo ktd kt0
  have hk0 : 0 ≤ kt0 := hk.1
  have hk1 : kt0 ≤ 1 := hk.2
  have hp0 : P0 s s := ⟨rfl, rfl, rfl, rfl⟩
  walk_states [PFin s zi, PA2 s zi, PA1 s zi, PD s zi, PD0 s zi, PM1 s zi, PM0 s zi, P0 s] by
    first | exact hp0 | exact pfin_ite (by assumption) hprev | exact pa2_step hprev | exact pa1_step hprev | exact pd_clamp hprev hN h0 h2
          | exact pd0_step hprev kt0 hk0 hk1 hN h0 h2 | exact pm1_clamp hprev h0 h1 | exact pm0_clamp hprev h0 h1
          | exact p0_mired hprev _ | exact p0_mired hprev.1 _ | exact p0_join (by assumption) hprev
  assumption

/-- over the iterations: array lengths, the temperature profile, pool ≥ 0 and counter ≥ its start value in every layer -/
def Inv (s t : St ℚ) : Prop :=
  t.g_NAOS.length = s.g_NAOS.length ∧ t.g_MINAOS.length = s.g_MINAOS.length ∧ Fr s t ∧
  (∀ j : Int, 0 ≤ rd t.g_NAOS j) ∧ (∀ j : Int, rd s.g_MINAOS j ≤ rd t.g_MINAOS j)

theorem step_inv (z : Int) (s0 t : St ℚ) (h : Inv s0 t) (hz : 1 ≤ z) (hm : s0.v_MIRED.length = 4) (hd : s0.v_DTOTALN.length = 4) (hz4 : (z - 1).toNat < 4)
    (hb : (z - 1).toNat < s0.g_NAOS.length ∧ (z - 1).toNat < s0.g_MINAOS.length)
    (hk : 0 ≤ 4000000000.0 * m.exp ((-8400.0) / ((rd s0.g_TD z + rd s0.g_TD (z - 1)) / 2.0 + 273.16)) ∧
          4000000000.0 * m.exp ((-8400.0) / ((rd s0.g_TD z + rd s0.g_TD (z - 1)) / 2.0 + 273.16)) ≤ 1) :
    Inv s0 (loop1 m z t) := by
  obtain ⟨l1, l2, fr, nn, mo⟩ := h
  have h0 : (0 : Int) ≤ z - 1 := by omega
  have hfr := loop1_Fr m z t
  have hp := loop1_pool m z t hz (by rw [fr.2.1, hm]; exact hz4) (by rw [fr.2.2.1, hd]; exact hz4) (nn _) (by rw [fr.1]; exact hk)
  have i1 : (z - 1).toNat < t.g_NAOS.length := by rw [l1]; exact hb.1
  have i2 : (z - 1).toNat < t.g_MINAOS.length := by rw [l2]; exact hb.2
  refine ⟨?_, ?_, Fr_trans fr hfr, ?_, ?_⟩
  · rcases hp with h | h <;> rw [h.1] <;> first | (simp only [length_wr]; exact l1) | exact l1
  · rcases hp with h | h
    · rw [h.2.1]; simp only [length_wr]; exact l2
    · rw [h.2]; exact l2
  · intro j
    rcases hp with h | h
    · rw [h.1, rd_wr _ _ _ _ h0 i1]
      split_ifs with hj
      · linarith [h.2.2.1, h.2.2.2]
      · exact nn j
    · rw [h.1]; exact nn j
  · intro j
    rcases hp with h | h
    · rw [h.2.1, rd_wr _ _ _ _ h0 i2]
      split_ifs with hj
      · subst hj; linarith [mo (z - 1), h.2.2.1]
      · exact mo j
    · rw [h.2]; exact mo j

/-- **`mineral`, whole call: the pool stays ≥ 0 and its mineralised-amount counter never decreases, in every layer.** -/
theorem run_nonneg (s : St ℚ) (h : InRange s) (h4 : (Int.tdiv s.g_IZM s.g_DZ_Index).toNat ≤ 4)
    (hk : ∀ k : Nat, k < (Int.tdiv s.g_IZM s.g_DZ_Index).toNat →
      0 ≤ 4000000000.0 * m.exp ((-8400.0) / ((rd s.g_TD (1 + (k : Int)) + rd s.g_TD (1 + (k : Int) - 1)) / 2.0 + 273.16)) ∧
      4000000000.0 * m.exp ((-8400.0) / ((rd s.g_TD (1 + (k : Int)) + rd s.g_TD (1 + (k : Int) - 1)) / 2.0 + 273.16)) ≤ 1)
    (hN : ∀ j : Int, 0 ≤ rd s.g_NAOS j) :
    (∀ j : Int, 0 ≤ rd (run m s).g_NAOS j) ∧ (∀ j : Int, rd s.g_MINAOS j ≤ rd (run m s).g_MINAOS j) := by
  unfold run
  extract_lets s1 s2 s3 s4 s5
  have hn : s4.v_num = Int.tdiv s.g_IZM s.g_DZ_Index := rfl
  have hm : s4.v_MIRED.length = 4 := by show (List.replicate 4 (0.0 : ℚ)).length = 4; simp
  have hdt : s4.v_DTOTALN.length = 4 := by show (List.replicate 4 (0.0 : ℚ)).length = 4; simp
  have hdm : s4.v_DMINFOS.length = 4 := by show (List.replicate 4 (0.0 : ℚ)).length = 4; simp
  have e1 : s4.g_NAOS = s.g_NAOS := rfl
  have e2 : s4.g_MINAOS = s.g_MINAOS := rfl
  have htd : s4.g_TD = s.g_TD := rfl
  have base : Inv s4 s4 := ⟨rfl, rfl, ⟨rfl, rfl, rfl, rfl⟩, by rw [e1]; exact hN, fun _ => le_refl _⟩
  have key := loopUp_noBrk_ind (loop1 m) (fun _ t => Inv s4 t) 1 (s4.v_num + 1) s4 base
    (fun k hk' t ht => by
      have hk2 : k < (Int.tdiv s.g_IZM s.g_DZ_Index).toNat := by rw [hn] at hk'; omega
      have hz : ((1 : Int) + k - 1).toNat = k := by omega
      refine step_inv m (1 + k) s4 t ht (by omega) hm hdt (by rw [hz]; omega) ⟨?_, ?_⟩ (by rw [htd]; exact hk k hk2)
      · rw [hz, e1]; exact lt_of_lt_of_le hk2 h.1
      · rw [hz, e2]; exact lt_of_lt_of_le hk2 h.2.1)
  obtain ⟨_, _, _, k4, k5⟩ := key
  exact ⟨k4, fun j => by have := k5 j; rw [e2] at this; exact this⟩

end PoolA

namespace PoolF
variable (m : MathFns ℚ)

/-- nothing of the pool bookkeeping touched -/
def P0 (s t : St ℚ) : Prop :=
  t.g_NFOS = s.g_NFOS ∧ t.g_MINFOS = s.g_MINFOS ∧ t.v_MIRED.length = s.v_MIRED.length ∧ t.v_DMINFOS.length = s.v_DMINFOS.length
def PM0 (s : St ℚ) (zi : Int) (t : St ℚ) : Prop := P0 s t ∧ 0 ≤ rd t.v_MIRED zi
def PM1 (s : St ℚ) (zi : Int) (t : St ℚ) : Prop := P0 s t ∧ 0 ≤ rd t.v_MIRED zi ∧ rd t.v_MIRED zi ≤ 1
/-- the decay of the layer is computed: before the clamp it is at most the pool -/
def PD0 (s : St ℚ) (zi : Int) (t : St ℚ) : Prop := P0 s t ∧ rd t.v_DMINFOS zi ≤ rd s.g_NFOS zi
/-- … and after the clamp also non-negative -/
def PD (s : St ℚ) (zi : Int) (t : St ℚ) : Prop := P0 s t ∧ 0 ≤ rd t.v_DMINFOS zi ∧ rd t.v_DMINFOS zi ≤ rd s.g_NFOS zi
/-- the pool has lost the decay -/
def PA1 (s : St ℚ) (zi : Int) (t : St ℚ) : Prop :=
  t.g_NFOS = wr s.g_NFOS zi (rd s.g_NFOS zi - rd t.v_DMINFOS zi) ∧ t.g_MINFOS = s.g_MINFOS ∧
  0 ≤ rd t.v_DMINFOS zi ∧ rd t.v_DMINFOS zi ≤ rd s.g_NFOS zi
/-- the counter has gained it -/
def PA2 (s : St ℚ) (zi : Int) (t : St ℚ) : Prop :=
  t.g_NFOS = wr s.g_NFOS zi (rd s.g_NFOS zi - rd t.v_DMINFOS zi) ∧ t.g_MINFOS = wr s.g_MINFOS zi (rd s.g_MINFOS zi + rd t.v_DMINFOS zi) ∧
  0 ≤ rd t.v_DMINFOS zi ∧ rd t.v_DMINFOS zi ≤ rd s.g_NFOS zi
/-- end of the body: warm branch in phase 2, frozen branch untouched -/
def PFin (s : St ℚ) (zi : Int) (t : St ℚ) : Prop := PA2 s zi t ∨ (t.g_NFOS = s.g_NFOS ∧ t.g_MINFOS = s.g_MINFOS)

section
variable {s t a b : St ℚ} {zi : Int}

theorem p0_mired (h : P0 s t) (v : ℚ) : P0 s { t with v_MIRED := wr t.v_MIRED zi v } := by
  unfold P0 at *; simp only [length_wr]; exact h

theorem pm0_clamp (h : P0 s t) (h0 : 0 ≤ zi) (h1 : zi.toNat < s.v_MIRED.length) :
    PM0 s zi (if rd t.v_MIRED zi < 0.0 then { t with v_MIRED := wr t.v_MIRED zi 0.0 } else t) := by
  have hl : zi.toNat < t.v_MIRED.length := by rw [h.2.2.1]; exact h1
  split_ifs with hc
  · refine ⟨p0_mired h _, ?_⟩
    show 0 ≤ rd (wr t.v_MIRED zi 0.0) zi
    rw [rd_wr_same _ _ _ h0 hl]; norm_num
  · refine ⟨h, ?_⟩
    have : ((0.0 : ℚ)) = 0 := by norm_num
    rw [this] at hc; exact not_lt.mp hc

theorem pm1_clamp (h : PM0 s zi t) (h0 : 0 ≤ zi) (h1 : zi.toNat < s.v_MIRED.length) :
    PM1 s zi (if 1.0 < rd t.v_MIRED zi then { t with v_MIRED := wr t.v_MIRED zi 1.0 } else t) := by
  have hl : zi.toNat < t.v_MIRED.length := by rw [h.1.2.2.1]; exact h1
  split_ifs with hc
  · refine ⟨p0_mired h.1 _, ?_, ?_⟩
    · show 0 ≤ rd (wr t.v_MIRED zi 1.0) zi
      rw [rd_wr_same _ _ _ h0 hl]; norm_num
    · show rd (wr t.v_MIRED zi 1.0) zi ≤ 1
      rw [rd_wr_same _ _ _ h0 hl]; norm_num
  · refine ⟨h.1, h.2, ?_⟩
    have : ((1.0 : ℚ)) = 1 := by norm_num
    rw [this] at hc; exact not_lt.mp hc

theorem pd0_step (h : PM1 s zi t) (k : ℚ) (hk0 : 0 ≤ k) (hk1 : k ≤ 1) (hN : 0 ≤ rd s.g_NFOS zi) (h0 : 0 ≤ zi)
    (h2 : zi.toNat < s.v_DMINFOS.length) :
    PD0 s zi { t with v_DMINFOS := wr t.v_DMINFOS zi (k * rd t.g_NFOS zi * rd t.v_MIRED zi) } := by
  obtain ⟨hp, m0, m1⟩ := h
  have hl : zi.toNat < t.v_DMINFOS.length := by rw [hp.2.2.2]; exact h2
  refine ⟨?_, ?_⟩
  · unfold P0 at *; simp only [length_wr]; exact hp
  · show rd (wr t.v_DMINFOS zi _) zi ≤ _
    rw [rd_wr_same _ _ _ h0 hl, hp.1]
    have : k * rd t.v_MIRED zi ≤ 1 := by nlinarith
    calc k * rd s.g_NFOS zi * rd t.v_MIRED zi = (k * rd t.v_MIRED zi) * rd s.g_NFOS zi := by ring
      _ ≤ 1 * rd s.g_NFOS zi := mul_le_mul_of_nonneg_right this hN
      _ = _ := one_mul _

theorem pd_clamp (h : PD0 s zi t) (hN : 0 ≤ rd s.g_NFOS zi) (h0 : 0 ≤ zi) (h2 : zi.toNat < s.v_DMINFOS.length) :
    PD s zi (if rd t.v_DMINFOS zi < 0.0 then { t with v_DMINFOS := wr t.v_DMINFOS zi 0.0 } else t) := by
  obtain ⟨hp, d1⟩ := h
  have hl : zi.toNat < t.v_DMINFOS.length := by rw [hp.2.2.2]; exact h2
  split_ifs with hc
  · refine ⟨?_, ?_, ?_⟩
    · unfold P0 at *; simp only [length_wr]; exact hp
    · show 0 ≤ rd (wr t.v_DMINFOS zi 0.0) zi
      rw [rd_wr_same _ _ _ h0 hl]; norm_num
    · show rd (wr t.v_DMINFOS zi 0.0) zi ≤ _
      rw [rd_wr_same _ _ _ h0 hl]; norm_num; exact hN
  · refine ⟨hp, ?_, d1⟩
    have : ((0.0 : ℚ)) = 0 := by norm_num
    rw [this] at hc; exact not_lt.mp hc

theorem pa1_step (h : PD s zi t) : PA1 s zi { t with g_NFOS := wr t.g_NFOS zi (rd t.g_NFOS zi - rd t.v_DMINFOS zi) } := by
  obtain ⟨hp, d0, d1⟩ := h
  refine ⟨?_, hp.2.1, d0, d1⟩
  show wr t.g_NFOS zi (rd t.g_NFOS zi - rd t.v_DMINFOS zi) = _
  rw [hp.1]

theorem pa2_step (h : PA1 s zi t) : PA2 s zi { t with g_MINFOS := wr t.g_MINFOS zi (rd t.g_MINFOS zi + rd t.v_DMINFOS zi) } := by
  obtain ⟨h1, h2, d0, d1⟩ := h
  refine ⟨h1, ?_, d0, d1⟩
  show wr t.g_MINFOS zi (rd t.g_MINFOS zi + rd t.v_DMINFOS zi) = _
  rw [h2]

theorem p0_join {c : Prop} [Decidable c] (ha : PM0 s zi a) (hb : P0 s b) : P0 s (if c then a else b) := by
  split_ifs
  · exact ha.1
  · exact hb

theorem pfin_ite {c : Prop} [Decidable c] (ha : PA2 s zi a) (hb : P0 s b) : PFin s zi (if c then a else b) := by
  split_ifs
  · exact Or.inl ha
  · exact Or.inr ⟨hb.1, hb.2.1⟩
end

/-- one iteration of the layer loop: the pool loses an amount between 0 and its content, the counter gains it
(hypotheses: the rate constant of the layer lies in [0,1], the pool of the layer is not negative, indices inside the arrays) -/
theorem loop1_pool (z : Int) (s : St ℚ) (hz : 1 ≤ z) (h1 : (z - 1).toNat < s.v_MIRED.length) (h2 : (z - 1).toNat < s.v_DMINFOS.length)
    (hN : 0 ≤ rd s.g_NFOS (z - 1))
    (hk : 0 ≤ 5600000000000.0 * m.exp ((-9800.0) / ((rd s.g_TD z + rd s.g_TD (z - 1)) / 2.0 + 273.16)) ∧
          5600000000000.0 * m.exp ((-9800.0) / ((rd s.g_TD z + rd s.g_TD (z - 1)) / 2.0 + 273.16)) ≤ 1) :
    PFin s (z - 1) (loop1 m z s) := by
  have h0 : (0 : Int) ≤ z - 1 := by omega
  unfold loop1
  extract_lets zi tempbo ktd kt0x kt0
  have hk0 : 0 ≤ kt0 := hk.1
  have hk1 : kt0 ≤ 1 := hk.2
  have hp0 : P0 s s := ⟨rfl, rfl, rfl, rfl⟩
  walk_states [PFin s zi, PA2 s zi, PA1 s zi, PD s zi, PD0 s zi, PM1 s zi, PM0 s zi, P0 s] by
    first | exact hp0 | exact pfin_ite (by assumption) hprev | exact pa2_step hprev | exact pa1_step hprev | exact pd_clamp hprev hN h0 h2
          | exact pd0_step hprev kt0 hk0 hk1 hN h0 h2 | exact pm1_clamp hprev h0 h1 | exact pm0_clamp hprev h0 h1
          | exact p0_mired hprev _ | exact p0_mired hprev.1 _ | exact p0_join (by assumption) hprev
  assumption

/-- over the iterations: array lengths, the temperature profile, pool ≥ 0 and counter ≥ its start value in every layer -/
def Inv (s t : St ℚ) : Prop :=
  t.g_NFOS.length = s.g_NFOS.length ∧ t.g_MINFOS.length = s.g_MINFOS.length ∧ Fr s t ∧
  (∀ j : Int, 0 ≤ rd t.g_NFOS j) ∧ (∀ j : Int, rd s.g_MINFOS j ≤ rd t.g_MINFOS j)

theorem step_inv (z : Int) (s0 t : St ℚ) (h : Inv s0 t) (hz : 1 ≤ z) (hm : s0.v_MIRED.length = 4) (hd : s0.v_DMINFOS.length = 4) (hz4 : (z - 1).toNat < 4)
    (hb : (z - 1).toNat < s0.g_NFOS.length ∧ (z - 1).toNat < s0.g_MINFOS.length)
    (hk : 0 ≤ 5600000000000.0 * m.exp ((-9800.0) / ((rd s0.g_TD z + rd s0.g_TD (z - 1)) / 2.0 + 273.16)) ∧
          5600000000000.0 * m.exp ((-9800.0) / ((rd s0.g_TD z + rd s0.g_TD (z - 1)) / 2.0 + 273.16)) ≤ 1) :
    Inv s0 (loop1 m z t) := by
  obtain ⟨l1, l2, fr, nn, mo⟩ := h
  have h0 : (0 : Int) ≤ z - 1 := by omega
  have hfr := loop1_Fr m z t
  have hp := loop1_pool m z t hz (by rw [fr.2.1, hm]; exact hz4) (by rw [fr.2.2.2, hd]; exact hz4) (nn _) (by rw [fr.1]; exact hk)
  have i1 : (z - 1).toNat < t.g_NFOS.length := by rw [l1]; exact hb.1
  have i2 : (z - 1).toNat < t.g_MINFOS.length := by rw [l2]; exact hb.2
  refine ⟨?_, ?_, Fr_trans fr hfr, ?_, ?_⟩
  · rcases hp with h | h <;> rw [h.1] <;> first | (simp only [length_wr]; exact l1) | exact l1
  · rcases hp with h | h
    · rw [h.2.1]; simp only [length_wr]; exact l2
    · rw [h.2]; exact l2
  · intro j
    rcases hp with h | h
    · rw [h.1, rd_wr _ _ _ _ h0 i1]
      split_ifs with hj
      · linarith [h.2.2.1, h.2.2.2]
      · exact nn j
    · rw [h.1]; exact nn j
  · intro j
    rcases hp with h | h
    · rw [h.2.1, rd_wr _ _ _ _ h0 i2]
      split_ifs with hj
      · subst hj; linarith [mo (z - 1), h.2.2.1]
      · exact mo j
    · rw [h.2]; exact mo j

/-- **`mineral`, whole call: the pool stays ≥ 0 and its mineralised-amount counter never decreases, in every layer.** -/
theorem run_nonneg (s : St ℚ) (h : InRange s) (h4 : (Int.tdiv s.g_IZM s.g_DZ_Index).toNat ≤ 4)
    (hk : ∀ k : Nat, k < (Int.tdiv s.g_IZM s.g_DZ_Index).toNat →
      0 ≤ 5600000000000.0 * m.exp ((-9800.0) / ((rd s.g_TD (1 + (k : Int)) + rd s.g_TD (1 + (k : Int) - 1)) / 2.0 + 273.16)) ∧
      5600000000000.0 * m.exp ((-9800.0) / ((rd s.g_TD (1 + (k : Int)) + rd s.g_TD (1 + (k : Int) - 1)) / 2.0 + 273.16)) ≤ 1)
    (hN : ∀ j : Int, 0 ≤ rd s.g_NFOS j) :
    (∀ j : Int, 0 ≤ rd (run m s).g_NFOS j) ∧ (∀ j : Int, rd s.g_MINFOS j ≤ rd (run m s).g_MINFOS j) := by
  unfold run
  extract_lets s1 s2 s3 s4 s5
  have hn : s4.v_num = Int.tdiv s.g_IZM s.g_DZ_Index := rfl
  have hm : s4.v_MIRED.length = 4 := by show (List.replicate 4 (0.0 : ℚ)).length = 4; simp
  have hdt : s4.v_DMINFOS.length = 4 := by show (List.replicate 4 (0.0 : ℚ)).length = 4; simp
  have hdm : s4.v_DMINFOS.length = 4 := by show (List.replicate 4 (0.0 : ℚ)).length = 4; simp
  have e1 : s4.g_NFOS = s.g_NFOS := rfl
  have e2 : s4.g_MINFOS = s.g_MINFOS := rfl
  have htd : s4.g_TD = s.g_TD := rfl
  have base : Inv s4 s4 := ⟨rfl, rfl, ⟨rfl, rfl, rfl, rfl⟩, by rw [e1]; exact hN, fun _ => le_refl _⟩
  have key := loopUp_noBrk_ind (loop1 m) (fun _ t => Inv s4 t) 1 (s4.v_num + 1) s4 base
    (fun k hk' t ht => by
      have hk2 : k < (Int.tdiv s.g_IZM s.g_DZ_Index).toNat := by rw [hn] at hk'; omega
      have hz : ((1 : Int) + k - 1).toNat = k := by omega
      refine step_inv m (1 + k) s4 t ht (by omega) hm hdm (by rw [hz]; omega) ⟨?_, ?_⟩ (by rw [htd]; exact hk k hk2)
      · rw [hz, e1]; exact lt_of_lt_of_le hk2 h.2.2.1
      · rw [hz, e2]; exact lt_of_lt_of_le hk2 h.2.2.2)
  obtain ⟨_, _, _, k4, k5⟩ := key
  exact ⟨k4, fun j => by have := k5 j; rw [e2] at this; exact this⟩

end PoolF

end Hermes.Generated.Imp.mineral
