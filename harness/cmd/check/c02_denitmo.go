package main

// C02, `Denitmo` (peat soils): the whole-array model HermesModel/Denitmo.lean (driver op
// `denitmo.run`) against the real hermes.Denitmo, and the predicates of the `C02_denitmo_…` theorems
// evaluated on the implementation's answers:
//   * the profile never loses more than ΔCUMDENIT (the clamp only adds),
//   * without clamp engagement it loses exactly ΔCUMDENIT,
//   * every block layer ends in [0, old content], the entries from 9 on are untouched,
//   * ΔCUMDENIT ≥ 0 and ≤ the nitrate of the nine block layers.
// Kernel level: generated arrays of 21 entries for profiles of 9 … 20 layers (nitrate below the
// profile bottom in C1[N], zeros and near-zeros, layers 8 / 9 unequal so that the exchanged shares
// engage the clamp); run level: the state before / after the real Denitmo call of every simulated
// day of peat simulations (probes), as correspondence cases and as search points.
//
// Signatures:
//   denitmo:balance:removes-more-than-booked:<class>   denitmo:balance:books-more-than-removed:no-clamp:<class>
//   denitmo:layer-out-of-range   denitmo:touches-below-90cm   denitmo:negative-rate   denitmo:books-more-than-present
//   run:denitmo:…  (the same on real states)

import (
	"fmt"
	"math"

	"github.com/zalf-rpm/Hermes2Go/hermes"
	"verifharness/proj"
	"verifharness/vh"
)

type denitmoCase struct {
	N        int       `json:"profile_layers"`
	C        []float64 `json:"c1"`     // 21 entries
	Wg       []float64 `json:"wg"`     // 9
	Porges   []float64 `json:"porges"` // 9
	Temp     float64   `json:"air_temp"`
	Cumdenit float64   `json:"cumdenit"`
	Class    string    `json:"class"`
}

type denitmoOut struct {
	C        []float64
	Cumdenit float64
}

func genDenitmoCase(r *vh.Rng) denitmoCase {
	c := denitmoCase{N: r.Range(9, 20), Cumdenit: vh.RoundTo(r.Uni(0, 40), 4)}
	shallow := r.Chance(0.12)
	if shallow {
		c.N = r.Range(2, 8) // the three blocks reach below the profile bottom
	}
	wet := r.Chance(0.6)
	c.Class = "dry"
	if wet {
		c.Class = "wet"
	}
	if shallow {
		c.Class = "layers<9"
	}
	c.C = make([]float64, 21)
	for z := 0; z < c.N; z++ {
		v := vh.RoundTo(r.Uni(0, 90), 3)
		switch r.Intn(6) {
		case 0:
			v = 0
		case 1:
			v = vh.RoundTo(r.Uni(0, 0.3), 4)
		}
		c.C[z] = v
	}
	if r.Chance(0.5) {
		c.C[c.N] = vh.RoundTo(r.Uni(0, 30), 3) // the slot below the profile bottom
	}
	// layers 8 and 9 (entries 7, 8): unequal, one of them empty — the exchanged shares
	sw := r.Intn(5)
	if shallow {
		sw = 4
	}
	switch sw {
	case 0:
		c.C[7], c.C[8] = vh.RoundTo(r.Uni(1, 60), 2), 0
		c.Class += "/layer9-empty"
	case 1:
		c.C[7], c.C[8] = 0, vh.RoundTo(r.Uni(1, 60), 2)
		c.Class += "/layer8-empty"
	case 2:
		c.C[7] = vh.RoundTo(r.Uni(20, 60), 2)
		c.C[8] = vh.RoundTo(r.Uni(0, 0.05), 4)
		c.C[6] = vh.RoundTo(r.Uni(0, 2), 3)
		c.Class += "/layer9-small"
	}
	for z := 0; z < 9; z++ {
		p := vh.RoundTo(r.Uni(0.3, 0.9), 3)
		wg := vh.RoundTo(r.Uni(0.08, p), 3)
		if wet {
			wg = vh.RoundTo(r.Uni(0.8*p, p), 3)
		}
		c.Porges = append(c.Porges, p)
		c.Wg = append(c.Wg, wg)
	}
	c.Temp = vh.RoundTo(r.Uni(-8, 32), 1)
	if wet && r.Chance(0.5) {
		c.Temp = vh.RoundTo(r.Uni(18, 35), 1)
	}
	return c
}

// denitmoFactors: the moisture and temperature factors as the implementation computes them
// (denit.go:141-158); inputs of the model.
func denitmoFactors(wg, porges []float64, temp float64) (ft, fm [3]float64) {
	const Tkrt, Okrt = 15.5, 0.766
	t := temp
	if t < 0 {
		t = 0
	}
	for b := 0; b < 3; b++ {
		th := (wg[3*b] + wg[3*b+1] + wg[3*b+2]) / 3
		sat := (porges[3*b] + porges[3*b+1] + porges[3*b+2]) / 3
		rel := th / sat
		tb := t
		if b == 2 {
			tb = 8
		}
		ft[b] = 1 - math.Exp(-1*math.Pow(rel/Okrt, 6))
		fm[b] = 1 - math.Exp(-1*math.Pow(tb/Tkrt, 4.6))
	}
	return
}

func denitmoLine(c []float64, ft, fm [3]float64, cum float64) string {
	return fmt.Sprintf("denitmo.run %d %s %s %s %s", len(c), vh.FVals(c...), vh.FVals(ft[:]...), vh.FVals(fm[:]...), vh.FVals(cum))
}

func denitmoImplLine(o *denitmoOut) string {
	all := append([]float64{}, o.C...)
	all = append(all, o.Cumdenit)
	all = append(all, o.C[:9]...)
	return vh.FVals(all...)
}

func runDenitmoImpl(c *denitmoCase) (o denitmoOut, panicked string) {
	defer func() {
		if r := recover(); r != nil {
			panicked = fmt.Sprint(r)
		}
	}()
	g := hermes.NewGlobalVarsMain()
	g.N = c.N
	for z := range c.C {
		g.C1[z] = c.C[z]
	}
	for z := 0; z < 9; z++ {
		g.WG[1][z] = c.Wg[z]
		g.PORGES[z] = c.Porges[z]
	}
	g.TEMP[g.TAG.Index] = c.Temp
	g.CUMDENIT = c.Cumdenit
	hermes.Denitmo(&g)
	o.C = append(o.C, g.C1[:len(c.C)]...)
	o.Cumdenit = g.CUMDENIT
	return o, ""
}

// denitmoPreGo: the nine values the code compares with 0, recomputed from the inputs (the shares of
// layers 8 / 9 exchanged as in denit.go:120-121) — decides "no clamp engaged".
func denitmoPreGo(c []float64, ft, fm [3]float64) (pre [9]float64) {
	for b := 0; b < 3; b++ {
		n := c[3*b] + c[3*b+1] + c[3*b+2]
		var f [3]float64
		d := 0.0
		if n > 0 {
			f[0], f[1], f[2] = c[3*b]/n, c[3*b+1]/n, c[3*b+2]/n
			if b == 2 {
				f[1], f[2] = f[2], f[1]
			}
			d = (4242. * math.Pow(n, 2)) / (math.Pow(n, 2) + 74) * ft[b] * fm[b] / 1000
		}
		for k := 0; k < 3; k++ {
			pre[3*b+k] = c[3*b+k] - d*f[k]
		}
	}
	return
}

// evalDenitmo evaluates the predicates of the C02_denitmo theorems on one real Denitmo call.
func evalDenitmo(c *vh.Ctx, prefix, class string, n int, before, after []float64, cum0, cum1 float64, ft, fm [3]float64, payload interface{}) {
	c.Eval()
	booked := cum1 - cum0
	sb, sa := 0.0, 0.0
	for z := 0; z < n && z < len(before); z++ {
		sb += before[z]
		sa += after[z]
	}
	removed := sb - sa
	tol := relTol(sb, sa, cum0, cum1)
	pre := denitmoPreGo(before, ft, fm)
	clamp := false // a clamp engaged in a layer of the profile
	for z, p := range pre {
		if p < 0 && z < n {
			clamp = true
		}
	}
	switch {
	case removed > booked+tol:
		c.Violate("search", prefix+":balance:removes-more-than-booked:"+class, fmt.Sprintf("Denitmo removes %.9g kg N/ha from the %d-layer profile but books %.9g", removed, n, booked), payload)
	case removed < booked-tol && !clamp && n < 9:
		// the blocks reach below the profile bottom: C1[N] … C1[8] are charged and booked too
		below := 0.0
		for z := n; z < 9; z++ {
			below += before[z]
		}
		c.Violate("search", prefix+":books-nitrate-below-profile-bottom:layers<9", fmt.Sprintf("profile of %d layers: Denitmo books %.9g kg N/ha as denitrified, the profile loses %.9g; the difference is charged to the array entries below the profile bottom (C1[%d..8] hold %.6g kg N/ha), no clamp engaged inside the profile", n, booked, removed, n, below), payload)
	case removed < booked-tol && !clamp:
		c.Violate("search", prefix+":balance:books-more-than-removed:no-clamp:"+class, fmt.Sprintf("Denitmo books %.9g kg N/ha but the %d-layer profile loses %.9g although no clamp engaged", booked, n, removed), payload)
	case removed < booked-tol:
		c.Count(prefix + ":clamp-added")
	default:
		if !clamp {
			c.Count(prefix + ":exact")
		}
	}
	if booked < 0 || math.IsNaN(booked) || math.IsInf(booked, 0) {
		c.Violate("search", prefix+":negative-rate", fmt.Sprintf("Denitmo books %v", booked), payload)
	}
	s9 := 0.0
	for z := 0; z < 9; z++ {
		s9 += before[z]
		if !(after[z] >= 0 && after[z] <= before[z]) {
			c.Violate("search", prefix+":layer-out-of-range", fmt.Sprintf("layer %d: %.9g → %.9g (must stay in [0, old content])", z+1, before[z], after[z]), payload)
		}
	}
	if booked > s9+relTol(s9) {
		c.Violate("search", prefix+":books-more-than-present", fmt.Sprintf("Denitmo books %.9g kg N/ha, the nine block layers hold %.9g", booked, s9), payload)
	}
	for z := 9; z < len(before); z++ {
		if after[z] != before[z] {
			c.Violate("search", prefix+":touches-below-90cm", fmt.Sprintf("entry %d changes from %.9g to %.9g", z, before[z], after[z]), payload)
			break
		}
	}
}

func denitmoKernelStage(c *vh.Ctx, n int) {
	var cases, impl []string
	var kept []denitmoCase
	for k := 0; k < n; k++ {
		dc := genDenitmoCase(c.Rng)
		o, pan := runDenitmoImpl(&dc)
		c.Count("denitmo:" + dc.Class)
		if pan != "" {
			c.Violate("search", "denitmo:panic", "Denitmo panicked: "+pan, dc)
			continue
		}
		c.Nontrivial(fmt.Sprintf("dm%d", k))
		ft, fm := denitmoFactors(dc.Wg, dc.Porges, dc.Temp)
		evalDenitmo(c, "denitmo-array", dc.Class, dc.N, dc.C, o.C, dc.Cumdenit, o.Cumdenit, ft, fm, dc)
		cases = append(cases, denitmoLine(dc.C, ft, fm, dc.Cumdenit))
		impl = append(impl, denitmoImplLine(&o))
		kept = append(kept, dc)
	}
	saved := kept
	c.Correspond("denitmo.run", cases, impl, 1e-9, 1e-12, func(i int) interface{} { return saved[i] })
}

// ---------------------------------------------------------------- real states of peat simulations

type denitmoObs struct {
	Date             string
	N                int
	Before, After    []float64
	Wg, Porges       []float64
	Temp, Cum0, Cum1 float64
	N2Odencum        float64
	Have             bool
}

func peatProject(c *vh.Ctx, k int, minLayers, maxLayers int) *proj.Project {
	r := c.Rng.Fork()
	p := proj.Gen(r, fmt.Sprintf("dm%d", k), proj.Opt{Management: true, MinLayers: minLayers, MaxLayers: maxLayers, ShallowGW: k%2 == 0, Years: r.Range(1, 2)})
	for i := range p.Soil {
		h := &p.Soil[i]
		h.Texture = proj.PeatTextures[r.Intn(len(proj.PeatTextures))]
		h.FC, h.WP, h.PV = 0, 0, 0
		h.Stone = 0
		h.Bulk = 0
		h.Corg = vh.RoundTo(r.Uni(8, 30)/float64(i+1), 2)
	}
	p.Cfg["PTF"] = "0"
	steerNitroProject(p, false)
	return p
}

func observeDenitmo(c *vh.Ctx, p *proj.Project) (obs []*denitmoObs, res *proj.RunResult) {
	root := c.Scratch + "/dm-" + p.Name
	if err := p.Write(root, c.Repo); err != nil {
		return nil, &proj.RunResult{Err: err}
	}
	var cur *denitmoObs
	probes := &hermes.VerifProbes{
		DayStart: func(g *hermes.GlobalVarsMain, w *hermes.WaterSharedVars, n *hermes.NitroSharedVars, cs *hermes.CropSharedVars, zeit int, wdt float64) {
			cur = &denitmoObs{Date: g.AKTUELL, N: g.N}
			obs = append(obs, cur)
		},
		AfterNitro: func(g *hermes.GlobalVarsMain, w *hermes.WaterSharedVars, n *hermes.NitroSharedVars, zeit, subd int, wdt, steps float64) {
			if cur == nil || g.BART[0][0] != 'H' {
				return
			}
			// the state the Denitmo call of this day starts from (overwritten by every later sub-step)
			cur.Before = append(cur.Before[:0], g.C1[:21]...)
			cur.Wg = append(cur.Wg[:0], g.WG[1][:9]...)
			cur.Porges = append(cur.Porges[:0], g.PORGES[:9]...)
			cur.Temp = g.TEMP[g.TAG.Index]
			cur.Cum0 = g.CUMDENIT
			cur.Have = true
		},
		DayEnd: func(g *hermes.GlobalVarsMain, w *hermes.WaterSharedVars, n *hermes.NitroSharedVars, cs *hermes.CropSharedVars, zeit int) {
			if cur == nil || !cur.Have {
				return
			}
			cur.After = append(cur.After[:0], g.C1[:21]...)
			cur.Cum1 = g.CUMDENIT
			cur.N2Odencum = g.N2Odencum
		},
	}
	res = proj.Run(root, p, probes)
	return obs, res
}

func denitmoRunStage(c *vh.Ctx, runs int, minLayers, maxLayers int) {
	var cases, impl []string
	var kept []interface{}
	for k := 0; k < runs; k++ {
		p := peatProject(c, k, minLayers, maxLayers)
		obs, res := observeDenitmo(c, p)
		c.Count("run:denitmo-simulations")
		if res.Panic != "" {
			c.Violate("search", panicSignature(res.Panic), "simulation on a peat soil panicked: "+res.Panic, map[string]interface{}{"project": p})
			continue
		}
		if res.Err != nil {
			c.Count("run:denitmo-simulations:rejected")
			continue
		}
		taken := 0
		for i, o := range obs {
			if !o.Have || o.After == nil {
				continue
			}
			ft, fm := denitmoFactors(o.Wg, o.Porges, o.Temp)
			payload := map[string]interface{}{"project": p, "date": o.Date, "layers": o.N}
			if math.IsNaN(o.N2Odencum) || math.IsInf(o.N2Odencum, 0) {
				// not a term of the C02 balance (diagnostic share of CUMDENIT; finiteness is C07's): recorded only
				c.Count(fmt.Sprintf("run:denitmo:N2Odencum-nonfinite:layers=%d", o.N))
			}
			neg := false
			for z := 0; z < 9; z++ {
				if o.Before[z] < 0 {
					neg = true
				}
			}
			if neg {
				c.Count("run:denitmo:negative-nitrate-at-entry") // outside the theorem's hypotheses (C07 reports it)
				continue
			}
			evalDenitmo(c, "run:denitmo", "peat", o.N, o.Before, o.After, o.Cum0, o.Cum1, ft, fm, payload)
			// a sample of the days as correspondence cases (every 7th day, plus every day with a clamp)
			pre := denitmoPreGo(o.Before, ft, fm)
			cl := false
			for _, x := range pre {
				if x < 0 {
					cl = true
				}
			}
			if (i%7 == 0 || cl) && taken < 120 {
				taken++
				c.Nontrivial(fmt.Sprintf("%s:%d", p.Name, i))
				cases = append(cases, denitmoLine(o.Before, ft, fm, o.Cum0))
				oo := denitmoOut{C: o.After, Cumdenit: o.Cum1}
				impl = append(impl, denitmoImplLine(&oo))
				kept = append(kept, payload)
			}
		}
	}
	saved := kept
	c.Correspond("denitmo.run@run", cases, impl, 1e-9, 1e-12, func(i int) interface{} { return saved[i] })
}

