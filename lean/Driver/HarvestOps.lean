import HermesModel.Proto
import HermesModel.Harvest
open Hermes Hermes.Proto

namespace Hermes.Driver
open Hermes.Harvest

def b2sH (b : Bool) : String := if b then "1" else "0"

def residFloats (r : Resid Float) : List Float :=
  [r.nagb, r.dgm, r.dgu, r.ndi, r.nsa, r.nla, r.nusa, r.nula, r.nresid]

/-- `harvest.resid dauerkult isAA  jn pesum obmas gehob kostro nernt nkopp nwura nfast`
→ `nagb dgm dgu ndi nsa nla nusa nula nresid` -/
def harvestResid (toks : List String) : Option String := do
  let (dk, r) ← popNat toks
  let (aa, r) ← popNat r
  let (x, _) ← popFloats 9 r
  match x with
  | [jn, pesum, obmas, gehob, kostro, nernt, nkopp, nwura, nfast] =>
    let i : ResidIn Float := { dauerkult := dk == 1, isAA := aa == 1, jn, pesum, obmas, gehob,
                               row := { kostro, nernt, nkopp, nwura, nfast } }
    some (fmtFloats (residFloats (resid i)))
  | _ => none

/-- `harvest.residc dauerkult isAA  jn pesum obmas gehob  n c1 … cn` — as `harvest.resid`, the row of the crop with the
code characters `c1 … cn` taken from the table regenerated from examples/parameter/CROP_N.TXT -/
def harvestResidC (toks : List String) : Option String := do
  let (dk, r) ← popNat toks
  let (aa, r) ← popNat r
  let (x, r) ← popFloats 4 r
  let (n, r) ← popNat r
  let rec popNats : Nat → Toks → Option (List Nat × Toks)
    | 0, r => some ([], r)
    | k + 1, r => do
      let (a, r) ← popNat r
      let (as, r) ← popNats k r
      pure (a :: as, r)
  let (code, _) ← popNats n r
  match x with
  | [jn, pesum, obmas, gehob] =>
    let row : CropNRow Float := rowOfHundredths (lookupRow Hermes.Generated.cropNRows code)
    let i : ResidIn Float := { dauerkult := dk == 1, isAA := aa == 1, jn, pesum, obmas, gehob, row }
    some (fmtFloats (residFloats (resid i)))
  | _ => none

/-- `harvest.pinit dauerkult wurz standing  pesum obmas wumas lai` → `wurz standing pesum obmas wumas lai` -/
def harvestPinit (toks : List String) : Option String := do
  let (dk, r) ← popNat toks
  let (wurz, r) ← popNat r
  let (st, r) ← popNat r
  let (x, _) ← popFloats 4 r
  match x with
  | [pesum, obmas, wumas, lai] =>
    let s : CropSt Float := { pesum, obmas, wumas, lai, wurz, worg := [], standing := st == 1 }
    let o := pinit (dk == 1) s
    some (s!"{o.wurz} {b2sH o.standing} " ++ fmtFloats [o.pesum, o.obmas, o.wumas, o.lai])
  | _ => none

/-- `harvest.step first dauerkult isAA yorgan wurz standing windowPassed automan orgH nextPerennialCode
  jn pesum obmas gehob kostro nernt nkopp nwura nfast nagbOld dsumm yifak wugeh wumas lai naltos nakt domeng1 nsas nlas ndir
  worg[] wuant[] nfos[] naos[]` (lists length-prefixed)
→ `panic` | `record skipped akfInc wurz standing  res[9] nfos[] naos[] dsumm yield nuptake rec[8] pesum obmas wumas lai worg[]` -/
def harvestStep (toks : List String) : Option String := do
  let (first, r) ← popNat toks
  let (dk, r) ← popNat r
  let (aa, r) ← popNat r
  let (yorgan, r) ← popNat r
  let (wurz, r) ← popNat r
  let (st, r) ← popNat r
  let (wp, r) ← popNat r
  let (am, r) ← popNat r
  let (oh, r) ← popNat r
  let (np, r) ← popNat r
  let (x, r) ← popFloats 21 r
  let (worg, r) ← popFloatList r
  let (wuant, r) ← popFloatList r
  let (nfos, r) ← popFloatList r
  let (naos, _) ← popFloatList r
  match x with
  | [jn, pesum, obmas, gehob, kostro, nernt, nkopp, nwura, nfast, nagbOld, dsumm, yifak, wugeh, wumas, lai,
     naltos, nakt, domeng1, nsas, nlas, ndir] =>
    let i : In Float :=
      { first := first == 1,
        r := { dauerkult := dk == 1, isAA := aa == 1, jn, pesum, obmas, gehob, row := { kostro, nernt, nkopp, nwura, nfast } },
        nagbOld, wuant, nfos, naos, dsumm, yorgan, yifak, wugeh,
        crop := { pesum, obmas, wumas, lai, wurz, worg, standing := st == 1 },
        naltos, nakt, domeng1, windowPassed := wp == 1, automan := am == 1, orgH := oh == 1, nsas, nlas, ndir,
        nextPerennialCode := np == 1 }
    let o := step i
    if o.panics then some "panic"
    else
      let v := o.recv
      some (s!"{b2sH o.record} {b2sH o.skipped} {o.akfInc} {o.crop.wurz} {b2sH o.crop.standing} " ++
        fmtFloats (residFloats o.res ++ o.nfos ++ o.naos ++ [o.dsumm, o.yield, o.nuptake] ++
          [v.yield, v.biomass, v.roots, v.nuptake, v.nagb, v.nresid, v.soilN1, v.orgN] ++
          [o.crop.pesum, o.crop.obmas, o.crop.wumas, o.crop.lai] ++ o.crop.worg))
  | _ => none

def harvestOps (toks : List String) : String :=
  match toks with
  | "harvest.resid" :: rest => (harvestResid rest).getD "bad-op"
  | "harvest.residc" :: rest => (harvestResidC rest).getD "bad-op"
  | "harvest.pinit" :: rest => (harvestPinit rest).getD "bad-op"
  | "harvest.step" :: rest => (harvestStep rest).getD "bad-op"
  | _ => "bad-op"

end Hermes.Driver
