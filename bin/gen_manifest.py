#!/usr/bin/env python3
"""Regenerates MANIFEST.json from bin/props/Cxx.json (one file per claimed property) and
bin/manifest_base.json. A property without a props file, or whose props file has "manifest": null,
is listed under not_applicable with the reason given in bin/not_applicable.json (or a default)."""
import json, os, subprocess
V = os.path.dirname(os.path.dirname(os.path.abspath(__file__)))
base = json.load(open(os.path.join(V, "bin", "manifest_base.json")))
na_reasons = json.load(open(os.path.join(V, "bin", "not_applicable.json")))
ids = [json.loads(l)["id"] for l in open(os.path.join(V, "properties.jsonl"))]
checks, na, served = [], [], []
for pid in ids:
    p = os.path.join(V, "bin", "props", pid + ".json")
    cfg = json.load(open(p)) if os.path.exists(p) else None
    if cfg and cfg.get("manifest"):
        m = cfg["manifest"]
        served.append(pid)
        checks.append({
            "property_id": pid,
            "quick_cmd": "bin/run_check.sh %s quick" % pid,
            "thorough_cmd": "bin/run_check.sh %s thorough" % pid,
            "evidence_file": "/verif/evidence/%s.json" % pid,
            "replay_cmd_template": "bin/run_check.sh %s quick --replay {path}" % pid,
            "engine": base["engines"][0]["name"],
            "level_claimed": {"category": m.get("category", "proof"), "text": m["level_text"], "design_ref": m.get("design_ref", "§6 " + pid)},
            "level_note": m["level_note"],
            "technique": m["technique"],
        })
    else:
        na.append({"property_id": pid, "reason": na_reasons.get(pid, "no check is registered for this property yet (Lean 4 model + proof + correspondence planned, DESIGN.md §6); nothing is claimed")})
base["engines"][0]["serves_properties"] = served
base["checks"] = checks
base["not_applicable"] = na
hooks = subprocess.run(["git", "-C", "/repo", "log", "--format=%h", "--grep=^verif hooks"], stdout=subprocess.PIPE, text=True).stdout.split()
if hooks:
    base["hooks"]["source_commits"] = hooks[::-1]
json.dump(base, open(os.path.join(V, "MANIFEST.json"), "w"), indent=1, ensure_ascii=False)
print("MANIFEST.json: %d checks, %d not_applicable" % (len(checks), len(na)))
