import HermesModel.Calendar
import HermesModel.Generated.Facts
import HermesModel.Num
import HermesModel.Partition
import HermesModel.Proto
import HermesModel.Substeps
import HermesModel.Water
