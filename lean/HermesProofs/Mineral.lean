/-
Lemmas over ℚ about the models of tillage mixing and denitrification (HermesModel/Mineral.lean).
-/
import HermesProofs.Nitro
import HermesModel.Mineral

namespace Hermes.Mineral
open Hermes.Nitro

theorem setFirst_sum (v : ℚ) : ∀ (l : List ℚ) (m : ℕ), m ≤ l.length →
    (setFirst m v l).sum = m * v + (l.drop m).sum := by
  intro l
  induction l with
  | nil => intro m h; simp at h; subst h; simp [setFirst]
  | cons x xs ih =>
    intro m h
    cases m with
    | zero => simp [setFirst]
    | succ k =>
      simp only [setFirst, List.sum_cons, List.drop_succ_cons]
      rw [ih k (by simpa using h)]
      push_cast; ring

theorem mix_sum (l : List ℚ) (m : ℕ) (h : m ≤ l.length) (hm : 0 < m) :
    (setFirst m (sumFrom 0 (l.take m) / (m : ℚ)) l).sum = l.sum := by
  rw [setFirst_sum _ _ _ h, sumFrom_eq]
  have hm' : (m : ℚ) ≠ 0 := by exact_mod_cast (Nat.pos_iff_ne_zero.mp hm)
  have : l.sum = (l.take m).sum + (l.drop m).sum := by
    conv_lhs => rw [← List.take_append_drop m l]
    rw [List.sum_append]
  rw [this]; field_simp; ring

/-- mixing over `m` layers with the clamp of `C1`: never less than before -/
theorem mix_sum_clamp (l : List ℚ) (m : ℕ) (h : m ≤ l.length) :
    l.sum ≤ (setFirst m (clamp0 (sumFrom 0 (l.take m) / (m : ℚ))) l).sum := by
  rw [setFirst_sum _ _ _ h, sumFrom_eq]
  have hs : l.sum = (l.take m).sum + (l.drop m).sum := by
    conv_lhs => rw [← List.take_append_drop m l]
    rw [List.sum_append]
  by_cases hm : m = 0
  · subst hm; simp
  · have hm' : (0 : ℚ) < m := by exact_mod_cast Nat.pos_of_ne_zero hm
    have h1 := clamp0_ge ((0 + (l.take m).sum) / (m : ℚ))
    have h2 : (m : ℚ) * ((0 + (l.take m).sum) / (m : ℚ)) = (l.take m).sum := by field_simp; ring
    have h3 := mul_le_mul_of_nonneg_left h1 (le_of_lt hm')
    linarith

/-- mixing over `m` layers (any `m` inside the array, also 0) preserves the sum -/
theorem mix_sum' (l : List ℚ) (m : ℕ) (h : m ≤ l.length) :
    (setFirst m (sumFrom 0 (l.take m) / (m : ℚ)) l).sum = l.sum := by
  by_cases hm : m = 0
  · subst hm; simp [setFirst_sum]
  · exact mix_sum l m h (Nat.pos_of_ne_zero hm)

/-- the Michaelis-Menten rate never exceeds the nitrate present -/
theorem denitRate_le (vmax n ft fm : ℚ) (hn : 0 < n) (hv0 : 0 ≤ vmax) (hv : vmax ≤ 4242)
    (h1 : 0 ≤ ft) (h2 : ft ≤ 1) (h3 : 0 ≤ fm) (h4 : fm ≤ 1) :
    denitRate vmax n ft fm ≤ n ∧ 0 ≤ denitRate vmax n ft fm := by
  unfold denitRate
  have hd : 0 < n * n + 74 := by positivity
  have hm : vmax * (n * n) / (n * n + 74) ≤ 1000 * n := by
    rw [div_le_iff₀ hd]
    nlinarith [sq_nonneg (n - 3), mul_pos hn hn, mul_pos (mul_pos hn hn) hn]
  have hm0 : 0 ≤ vmax * (n * n) / (n * n + 74) := by positivity
  have hf : ft * fm ≤ 1 := by nlinarith
  have hf0 : 0 ≤ ft * fm := mul_nonneg h1 h3
  constructor
  · have : vmax * (n * n) / (n * n + 74) * ft * fm / 1000 = (vmax * (n * n) / (n * n + 74)) * (ft * fm) / 1000 := by ring
    rw [this]
    have : vmax * (n * n) / (n * n + 74) * (ft * fm) ≤ 1000 * n := by nlinarith
    linarith
  · positivity

theorem miredWarm_unit (wg wnor wred wmin porges : ℚ) :
    0 ≤ miredWarm wg wnor wred wmin porges ∧ miredWarm wg wnor wred wmin porges ≤ 1 := by
  unfold miredWarm
  generalize (if ¬ (wnor < wg) ∧ ¬ (wg < wred) then (1 : ℚ)
           else if wg < wred ∧ wmin < wg then (wg - wmin) / (wred - wmin)
           else if wnor < wg then (porges - wg) / (porges - wnor)
           else 0) = m
  simp only
  split_ifs <;> constructor <;> linarith

theorem denitLayer_eq (c n d : ℚ) (hc : 0 ≤ c) (hn : 0 < n) (hcn : c ≤ n) (hd0 : 0 ≤ d) (hd : d ≤ n) :
    denitLayer c (c / n) d = c - d * (c / n) := by
  unfold denitLayer
  by_cases h0 : c = 0
  · subst h0; simp
  · have hcpos : 0 < c := lt_of_le_of_ne hc (Ne.symm h0)
    have : 0 < c / n := div_pos hcpos hn
    simp only [this, if_true]
    apply clamp0_of_nonneg
    have h1 : d * (c / n) ≤ c := by
      have : d * (c / n) = c * (d / n) := by ring
      rw [this]
      have : d / n ≤ 1 := by rw [div_le_one hn]; exact hd
      nlinarith
    linarith

theorem drainSum_zero (dd : ℕ) : ∀ (l : List (ℚ × ℚ)) (z : ℕ) (qTop : ℚ), drainSum 0 dd z qTop l = 0 := by
  intro l
  induction l with
  | nil => intro z qTop; rfl
  | cons hd tl ih =>
    intro z qTop
    obtain ⟨c, q⟩ := hd
    simp only [drainSum, ih, drainTerm]
    split_ifs <;> simp

end Hermes.Mineral
