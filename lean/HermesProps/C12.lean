/-
C12 — Date conversion is a calendar-correct, order-preserving bijection.
Property theorems only; helper lemmas are in HermesProofs/Calendar.lean, the model (a transcription
of hermes/helper.go:113-299) in HermesModel/Calendar.lean.  Core Lean, no Mathlib.
-/
import HermesProofs.Calendar
import HermesModel.Generated.Facts
namespace Hermes.Calendar

/-- Day of the year counted from the month lengths of the true calendar. -/
def trueDoy (yr mon tg : Nat) : Nat :=
  ((List.range (mon - 1)).map fun k => daysInMonth yr (k + 1)).sum + tg

/-- Gregorian leap rule. -/
def gregorianLeap (year : Nat) : Prop := year % 4 = 0 ∧ (year % 100 ≠ 0 ∨ year % 400 = 0)

/-- date → day number → date, for every date 1901-01-01 … 2099-12-31. -/
theorem C12_kalender_masdat (yr mon tg : Nat) (h : ValidDate yr mon tg) :
    kalenderDate (masdat yr mon tg) = some (yr + 1900, mon, tg) := by
  obtain ⟨hy1, hy2, hm1, hm2, ht1, ht2⟩ := h
  exact kalender_masdat_core yr mon tg hy1 hy2 hm1 hm2 ht1 ht2

/-- The range of day numbers is exactly 1 … 72 684 (199·365 + 49 leap days). -/
theorem C12_range_ends : masdat 1 1 1 = 1 ∧ masdat 199 12 31 = 72684 := by
  simp [masdat, monthOffset, mtStart]

/-- day number → date → day number: every day number of the range is hit by exactly the date
`kalenderDate` returns, so the conversion is a bijection between valid dates and 1 … 72 684. -/
theorem C12_masdat_kalender (m : Nat) (h1 : 1 ≤ m) (h2 : m ≤ 72684) :
    ∃ yr mon tg, ValidDate yr mon tg ∧ kalenderDate m = some (yr + 1900, mon, tg) ∧
      masdat yr mon tg = m := by
  obtain ⟨yr, mon, tg, hv, hm⟩ := masdat_surj m h1 h2
  exact ⟨yr, mon, tg, hv, by rw [← hm]; exact C12_kalender_masdat yr mon tg hv, hm⟩

/-- Injectivity on valid dates (consequence of the round trip). -/
theorem C12_masdat_injective (y1 m1 t1 y2 m2 t2 : Nat) (h1 : ValidDate y1 m1 t1)
    (h2 : ValidDate y2 m2 t2) (h : masdat y1 m1 t1 = masdat y2 m2 t2) :
    (y1, m1, t1) = (y2, m2, t2) := by
  have e1 := C12_kalender_masdat y1 m1 t1 h1
  have e2 := C12_kalender_masdat y2 m2 t2 h2
  rw [h, e2] at e1
  simp only [Option.some.injEq, Prod.mk.injEq] at e1
  simp only [Prod.mk.injEq]; omega

/-- Consecutive calendar days map to consecutive day numbers. -/
theorem C12_masdat_succ (yr mon tg a b c : Nat) (h : ValidDate yr mon tg)
    (hn : nextDate (yr, mon, tg) = (a, b, c)) : masdat a b c = masdat yr mon tg + 1 :=
  masdat_next yr mon tg a b c h hn

/-- Order preservation: the later date (lexicographically by year, month, day) has the larger
day number. -/
theorem C12_masdat_strict_mono (y1 m1 t1 y2 m2 t2 : Nat) (h1 : ValidDate y1 m1 t1)
    (h2 : ValidDate y2 m2 t2)
    (hlt : y1 < y2 ∨ (y1 = y2 ∧ (m1 < m2 ∨ (m1 = m2 ∧ t1 < t2)))) :
    masdat y1 m1 t1 < masdat y2 m2 t2 := by
  obtain ⟨ha1, ha2, hb1, hb2, hc1, hc2⟩ := h1
  obtain ⟨hd1, hd2, he1, he2, hf1, hf2⟩ := h2
  have hb := doy_bound y1 m1 t1 hb1 hb2 hc1 hc2
  have hb' := doy_bound y2 m2 t2 he1 he2 hf1 hf2
  rcases hlt with h | ⟨rfl, h | ⟨rfl, h⟩⟩
  · unfold masdat
    by_cases hl : y1 % 4 = 0 <;> simp [hl] at hb <;> omega
  · -- same year, earlier month: offsets are increasing by the month lengths
    have key : ∀ k, m1 + k ≤ 12 → monthOffset y1 m1 + daysInMonth y1 m1 ≤ monthOffset y1 (m1 + k + 1) ∨ m1 + k + 1 > 12 := by
      intro k
      induction k with
      | zero =>
        intro hk
        by_cases h12 : m1 < 12
        · left; rw [Nat.add_zero, monthOffset_succ y1 m1 hb1 h12]; exact Nat.le_refl _
        · right; omega
      | succ j ih =>
        intro hk
        by_cases h12 : m1 + j + 1 < 12
        · left
          rcases ih (by omega) with h' | h'
          · have := monthOffset_succ y1 (m1 + j + 1) (by omega) h12
            have e : m1 + (j + 1) + 1 = m1 + j + 1 + 1 := by omega
            rw [e, this]; omega
          · omega
        · right; omega
    obtain ⟨k, rfl⟩ : ∃ k, m2 = m1 + k + 1 := ⟨m2 - m1 - 1, by omega⟩
    rcases key k (by omega) with h' | h'
    · unfold masdat; omega
    · omega
  · unfold masdat; omega

/-- The derived day-of-year equals the true day of the year. -/
theorem C12_doy_correct (yr mon tg : Nat) (h : ValidDate yr mon tg) :
    ztdat yr mon tg = trueDoy yr mon tg := by
  obtain ⟨hy1, hy2, hm1, hm2, ht1, ht2⟩ := h
  have hmon : mon = 1 ∨ mon = 2 ∨ mon = 3 ∨ mon = 4 ∨ mon = 5 ∨ mon = 6 ∨ mon = 7 ∨ mon = 8 ∨
      mon = 9 ∨ mon = 10 ∨ mon = 11 ∨ mon = 12 := by omega
  by_cases hl : yr % 4 = 0 <;>
  rcases hmon with h | h | h | h | h | h | h | h | h | h | h | h <;>
  subst h <;>
  simp [ztdat, trueDoy, monthOffset, mtStart, daysInMonth, hl, List.range, List.range.loop]

/-- and the day number of a date is the day number of 1 January plus day-of-year minus one. -/
theorem C12_doy_is_offset (yr mon tg : Nat) :
    masdat yr mon tg + 1 = masdat yr 1 1 + ztdat yr mon tg := by
  simp [masdat, ztdat, monthOffset_jan]; omega

/-- Leap years of the model (years with 366 day numbers) are exactly the years divisible by
four, which in 1901 … 2099 are exactly the Gregorian leap years. -/
theorem C12_leap_iff_div4 (yr : Nat) (hy1 : 1 ≤ yr) (hy2 : yr ≤ 199) :
    (masdat (yr + 1) 1 1 - masdat yr 1 1 = 366 ↔ yr % 4 = 0) ∧
    (masdat (yr + 1) 1 1 - masdat yr 1 1 = 365 ↔ yr % 4 ≠ 0) ∧
    (yr % 4 = 0 ↔ gregorianLeap (1900 + yr)) := by
  unfold gregorianLeap
  simp only [masdat, monthOffset_jan]
  omega

/-- Tie to the source: the month tables the model uses are the ones `harness/cmd/extract` reads
out of hermes/helper.go on every run. -/
theorem C12_tables_match_source :
    Generated.dateConverterMT = mtStart ∧ Generated.kalenderDateMT = mtEnd := by decide

/-! ### text formats -/

/-- The century split `cent` keeps the two-digit year of `year = 1900 + yr` unambiguous. -/
def SplitOk (cent yr : Nat) : Prop := cent ≤ yr ∧ yr ≤ 99 + cent

/-- Rendering a day number and parsing the text again gives the day number and its day of the
year — for each of the four formats, without separator or with any one-character separator,
and for the short formats with every century split that keeps the year unambiguous. -/
theorem C12_parse_render (f : DateFormat) (sep : List Char) (hsep : sep.length ≤ 1) (cent : Nat)
    (yr mon tg : Nat) (h : ValidDate yr mon tg) (hc : f.isShort = true → SplitOk cent yr) :
    ∃ txt, render f sep (masdat yr mon tg) = some txt ∧
      parse f cent txt = some (ztdat yr mon tg, masdat yr mon tg) := by
  have hk := C12_kalender_masdat yr mon tg h
  obtain ⟨hy1, hy2, hm1, hm2, ht1, ht2⟩ := h
  have ht31 : tg ≤ 31 := by
    have : daysInMonth yr mon ≤ 31 := by unfold daysInMonth; split <;> (try split) <;> omega
    omega
  have hsep' : sep = [] ∨ ∃ c, sep = [c] := by
    match sep, hsep with
    | [], _ => exact Or.inl rfl
    | [c], _ => exact Or.inr ⟨c, rfl⟩
  have p2 : ∀ n, n < 100 → parseNat? [digit (n / 10), digit n] = some n := fun n hn => parse_d2 n hn
  have p4 : ∀ n, n < 10000 →
      parseNat? [digit (n / 1000), digit (n / 100), digit (n / 10), digit n] = some n :=
    fun n hn => parse_d4 n hn
  have hyy : (if 99 < yr then yr - 100 else yr) < 100 := by split <;> omega
  have pyy := p2 _ hyy
  have hm0 : ¬ mon = 0 := by omega
  have hy0 : ¬ yr = 0 := by omega
  have hlong : ¬ (yr + 1900 < 1901) := by omega
  refine ⟨_, by rw [render, hk], ?_⟩
  by_cases hs : f.isShort = true
  · obtain ⟨hc1, hc2⟩ := hc hs
    by_cases h99 : 99 < yr
    · have e1 : yr - 100 < cent := by omega
      have e2 : yr - 100 + 100 = yr := by omega
      have q := p2 (yr - 100) (by omega)
      rcases hsep' with rfl | ⟨c, rfl⟩ <;> cases f <;> simp [DateFormat.isShort] at hs <;>
        simp [parse, extractDate, slice, d2, DateFormat.isShort, p2, q, h99, e1, e2, hm0, hm2, hy0,
          show tg < 100 by omega, show mon < 100 by omega]
    · have e1 : ¬ yr < cent := by omega
      have q := p2 yr (by omega)
      rcases hsep' with rfl | ⟨c, rfl⟩ <;> cases f <;> simp [DateFormat.isShort] at hs <;>
        simp [parse, extractDate, slice, d2, DateFormat.isShort, p2, q, h99, e1, hm0, hm2, hy0,
          show tg < 100 by omega, show mon < 100 by omega]
  · rcases hsep' with rfl | ⟨c, rfl⟩ <;> cases f <;> simp [DateFormat.isShort] at hs <;>
      simp [parse, extractDate, slice, d2, d4, DateFormat.isShort, p2, p4, hlong, hm0, hm2, hy0,
        show tg < 100 by omega, show mon < 100 by omega, show yr + 1900 < 10000 by omega]

/-! ### non-vacuity: the hypotheses are met by concrete dates -/

example : ValidDate 100 2 29 := by simp [ValidDate, daysInMonth]          -- 29 February 2000
example : ValidDate 199 12 31 := by simp [ValidDate, daysInMonth]         -- 31 December 2099
example : SplitOk 50 149 ∧ SplitOk 50 50 := by simp [SplitOk]       -- split 50: 1950 … 2049
example : kalenderDate 72684 = some (2099, 12, 31) := by decide
example : nextDate (100, 2, 28) = (100, 2, 29) ∧ nextDate (101, 2, 28) = (101, 3, 1) := by decide

end Hermes.Calendar
