package main

// C07, harvest: what the harvest branch of Nitro (nitro.go:293-569), resid (863-948) and pinit (951-962) do to
// the crop N, the organic pools and the crop state — against the Lean model HermesModel/Harvest.lean
// (driver ops `harvest.resid`, `harvest.pinit`, `harvest.step`; theorems HermesProps/C07Harvest.lean).
//
//   harvestResidKernel   the real resid (hermes.VerifResid, reading the crop's row of CROP_N.TXT through the
//                        session's file pool) on generated crop states × every shipped crop parameter file ×
//                        residue-export values, with the shipped CROP_N.TXT and with generated tables.
//   harvestStepKernel    the real hermes.Nitro on the harvest day (no transport layers, no mineralisation layers,
//                        no fertiliser / tillage event): residues into NFOS/NAOS, crop record, state after a cut
//                        of a permanent crop, skipped-crop branch, pinit, final reset.
//   harvestWitnesses     the witnesses of the two `…_fails_at` theorems and the regression state of the repaired skipped-crop
//                        branch replayed on the real code.
//   harvestRunStage      whole generated simulations (fixed dates with residue-export values 0 / 100 / 200 / fractions, legumes cut
//                        green; every third run with automatic sowing ± harvest ± fertilisation and the harvest of one entry moved
//                        behind the sowing window of its successor: skipped-crop branch): on every harvest day the state handed to Nitro is rebuilt
//                        (real PhytoOut on a copy of the AfterWater state of sub-step 1), the real harvest branch
//                        is run on a copy of it in isolation and compared with the model; the run's own state
//                        after Nitro (AfterNitro probe) and its crop-file record (all numbers written with %v)
//                        are compared with both.
//
// Signatures (search stage):
//   resid:negative:<field> / resid:nonfinite / resid:split:<above-ground|roots> / resid:residues-exceed-crop-N:<class>
//   harvest:pool-gain:<class>              Σ(NFOS+NAOS) does not grow by NRESID + DGU·ΣWUANT[0..WURZ)
//   harvest:crop-N-balance:<class> / harvest:negative-export:<class>   record Nuptake ≠ (Nagb − Nresid) + pool jump + (Nuptake − Nagb)(1 − ΣWUANT)
//   harvest:pool-decreases / harvest:negative-pool / harvest:nonfinite / harvest:layer-below-roots-changed
//   harvest:not-reset:<field>:<class>      crop state not cleared after the harvest of a non-permanent crop / before a non-grass entry
//   harvest:record:<field>                 a number of the crop record differs from the state at harvest
//   harvest:record:negative:<field>
//   harvest:skipped-crop:fast-manure-N-recorded-not-applied   skipped-crop branch books NSAS in OrgN but does not add it to NFOS (repaired defect)
// Observations (counted, residuals in Extra, NOT violations — C07 does not claim that all crop N returns to the soil):
//   harvest:observed:root-residue-N-not-distributed(root-shares-sum-below-1)   the root shares WUANT[0..WURZ) sum to 1 − exp(−Qrez·WURZ·DZ) < 1
//   harvest:observed:permanent-crop-floor-exceeds-crop-N                       the N floor of a cut permanent crop exceeds what the cut left
//   harvest:panic:<class>
//   run:harvest:pool-jump:<fast|slow> / run:harvest:pool-jump:sum / run:harvest:state:<field> / run:harvest:record:<field>
//   run:harvest:record-count

import (
	"bufio"
	"fmt"
	"math"
	"os"
	"path/filepath"
	"sort"
	"strconv"
	"strings"

	"github.com/zalf-rpm/Hermes2Go/hermes"
	"verifharness/proj"
	"verifharness/vh"
)

const (
	// observations, counted (Distribution) with their residuals in Extra — not violations of C07
	obsRootLoss = "harvest:observed:root-residue-N-not-distributed(root-shares-sum-below-1)"
	obsFloor    = "harvest:observed:permanent-crop-floor-exceeds-crop-N"
	// repaired defect (fix "skipped-crop branch adds the fast organic N of the dressing to NFOS"): a revert is a violation
	sigSkipManure = "harvest:skipped-crop:fast-manure-N-recorded-not-applied"
	cntSkipManure = "harvest:skipped-crop:fast-manure-N-not-applied"
)

// ------------------------------------------------------------------ CROP_N.TXT

type cropNRow struct {
	Kostro float64 `json:"kostro"`
	Nernt  float64 `json:"nernt"`
	Nkopp  float64 `json:"nkopp"`
	Nwura  float64 `json:"nwura"`
	Nfast  float64 `json:"nfast"`
	Found  bool    `json:"row_found"`
}

func (r cropNRow) denom() float64 { return r.Nernt + r.Kostro*r.Nkopp }

// inRange: the ranges the theorems assume for a row (shares in [0,1], contents ≥ 0, positive denominator).
func (r cropNRow) inRange() bool {
	return r.Found && r.Nwura >= 0 && r.Nwura <= 1 && r.Nfast >= 0 && r.Nfast <= 1 && r.Kostro >= 0 && r.Nernt >= 0 && r.Nkopp >= 0 && r.denom() > 0
}

// readCropN reads the table with the column slices of resid (nitro.go:876-891): first line whose code matches.
func readCropN(path string) (map[string]cropNRow, []string, error) {
	f, err := os.Open(path)
	if err != nil {
		return nil, nil, err
	}
	defer f.Close()
	rows := map[string]cropNRow{}
	var order []string
	sc := bufio.NewScanner(f)
	for sc.Scan() {
		ln := sc.Text()
		if len(ln) < 45 {
			continue
		}
		code := strings.TrimSpace(ln[0:3])
		if _, dup := rows[code]; dup || code == "" {
			continue
		}
		var v [5]float64
		ok := true
		for i, s := range [][2]int{{4, 7}, {13, 18}, {25, 30}, {36, 40}, {41, 45}} {
			x, err := strconv.ParseFloat(strings.TrimSpace(ln[s[0]:s[1]]), 64)
			if err != nil {
				ok = false
				break
			}
			v[i] = x
		}
		if !ok {
			continue // header line
		}
		rows[code] = cropNRow{Kostro: v[0], Nernt: v[1], Nkopp: v[2], Nwura: v[3], Nfast: v[4], Found: true}
		order = append(order, code)
	}
	return rows, order, nil
}

// writeCropN writes a table in the fixed-column layout of the shipped file.
func writeCropN(path string, codes []string, rows map[string]cropNRow) error {
	var b strings.Builder
	b.WriteString("KuA K_S TM_  N_HEG S_HEG N_NEG SNEG SWur Nfas Sfas \n")
	f3 := func(x float64) string { // 3 characters
		s := strconv.FormatFloat(x, 'f', -1, 64)
		if len(s) > 3 && strings.HasPrefix(s, "0.") {
			s = s[1:]
		}
		if len(s) > 3 {
			s = s[:3]
		}
		return fmt.Sprintf("%3s", s)
	}
	for _, c := range codes {
		r := rows[c]
		fmt.Fprintf(&b, "%-3s %s 0.50 %05.2f 00.10 %05.2f 0.05 %04.2f %04.2f 0.50 generated\n", c, f3(r.Kostro), r.Nernt, r.Nkopp, r.Nwura, r.Nfast)
	}
	return os.WriteFile(path, []byte(b.String()), 0o644)
}

func genCropNRow(r *vh.Rng) cropNRow {
	row := cropNRow{Found: true}
	row.Kostro = []float64{0, 0.5, 0.7, 1, 1.2, 2, 999, 0.2}[r.Intn(8)]
	row.Nernt = vh.RoundTo(r.Uni(0.1, 5), 2)
	row.Nkopp = vh.RoundTo(r.Uni(0, 3), 2)
	row.Nwura = vh.RoundTo(r.Uni(0, 0.4), 2)
	row.Nfast = vh.RoundTo(r.Uni(0, 1), 2)
	switch r.Intn(12) {
	case 0:
		row.Nwura = 0
	case 1:
		row.Nwura = 1
	case 2:
		row.Nfast = 0
	case 3:
		row.Nfast = 1
	case 4:
		row.Nkopp = 0
	case 5:
		row.Nernt, row.Nkopp = 0, 0 // denominator 0: outside the hypothesis of the theorems
	case 6:
		if r.Chance(0.3) {
			row.Nfast = 1.5 // shares above 1: outside the hypothesis of the theorems
		}
	case 7:
		if r.Chance(0.3) {
			row.Nwura = 1.2
		}
	}
	return row
}

// ------------------------------------------------------------------ environment

type hvTable struct {
	Name string
	Path string
	Rows map[string]cropNRow
}

type hvEnv struct {
	env    *cropEnv
	params []c09DayParam
	tables []hvTable // [0] = the shipped CROP_N.TXT
}

func newHvEnv(c *vh.Ctx, generatedTables int) *hvEnv {
	e := &hvEnv{env: newCropEnv(), params: c09DayParams(c)}
	shipped := filepath.Join(c.Repo, "examples", "parameter", "CROP_N.TXT")
	rows, order, err := readCropN(shipped)
	if err != nil || len(rows) == 0 {
		c.Violate("correspondence", "harvest:crop-n-table-unreadable", fmt.Sprintf("examples/parameter/CROP_N.TXT cannot be read with the column slices of resid: %v", err), nil)
		return e
	}
	e.tables = append(e.tables, hvTable{Name: "shipped", Path: shipped, Rows: rows})
	// every crop with a shipped parameter file has a row with values in range
	for _, p := range e.params {
		row, ok := rows[p.code]
		c.Eval()
		if !ok {
			c.Violate("search", "harvest:crop-n-table:no-row:"+p.code, fmt.Sprintf("crop %s has a shipped parameter file (%s) but no row in CROP_N.TXT: resid divides 0 by 0 and the organic pools become NaN at its harvest", p.code, p.file), nil)
		} else if !row.inRange() {
			c.Violate("search", "harvest:crop-n-table:out-of-range:"+p.code, fmt.Sprintf("row of %s in CROP_N.TXT outside the ranges the harvest theorems assume: %+v", p.code, row), nil)
		}
	}
	for k := 0; k < generatedTables; k++ {
		g := map[string]cropNRow{}
		for _, code := range order {
			g[code] = genCropNRow(c.Rng)
		}
		path := filepath.Join(c.Scratch, fmt.Sprintf("CROP_N_gen%d.TXT", k))
		if err := writeCropN(path, order, g); err != nil {
			continue
		}
		// the values as the reader sees them (two decimals, three characters for the first column)
		back, _, err := readCropN(path)
		if err != nil {
			continue
		}
		e.tables = append(e.tables, hvTable{Name: fmt.Sprintf("generated-%d", k), Path: path, Rows: back})
	}
	return e
}

func (e *hvEnv) newG() hermes.GlobalVarsMain {
	g := hermes.NewGlobalVarsMain()
	g.Session = e.env.session
	g.DEBUGCHANNEL = e.env.logs
	g.Kalender = hermes.KalenderConverter(hermes.DateDElong, ".")
	return g
}

func isPerennialCode(t hermes.CropType) bool { return t == hermes.GRE || t == hermes.GR || t == hermes.AA }

// ------------------------------------------------------------------ the case

type hvCase struct {
	File      string      `json:"crop_parameter_file"`
	Code      string      `json:"crop"`
	Table     string      `json:"crop_n_table"`
	Row       cropNRow    `json:"crop_n_row"`
	First     bool        `json:"first_entry"`
	Dauerkult bool        `json:"dauerkult"`
	IsAA      bool        `json:"is_alfalfa"`
	Yorgan    int         `json:"yorgan"`
	Yifak     float64     `json:"yifak"`
	Gehob     float64     `json:"gehob"`
	Wugeh     float64     `json:"wugeh"`
	Jn        float64     `json:"jn"`
	Pesum     float64     `json:"pesum"`
	Obmas     float64     `json:"obmas"`
	Wumas     float64     `json:"wumas"`
	Lai       float64     `json:"lai"`
	Worg      [5]float64  `json:"worg"`
	Wurz      int         `json:"wurz"`
	Standing  bool        `json:"standing"`
	Wuant     [20]float64 `json:"wuant"`
	Nfos      [21]float64 `json:"nfos"`
	Naos      [21]float64 `json:"naos"`
	Dsumm     float64     `json:"dsumm"`
	NagbOld   float64     `json:"nagb_old"`
	Naltos    float64     `json:"naltos"`
	Nakt      float64     `json:"nakt"`
	Domeng1   float64     `json:"domeng1"`
	Window    bool        `json:"window_of_next_entry_passed"`
	Automan   bool        `json:"automan"`
	Odu       float64     `json:"odu"`
	Orgtime   string      `json:"orgtime"`
	Nsas      float64     `json:"nsas"`
	Nlas      float64     `json:"nlas"`
	Ndir      float64     `json:"ndir"`
	NextPer   bool        `json:"next_entry_is_grass_or_alfalfa"`
	RootLaw   bool        `json:"wuant_from_root_function"` // WUANT as PhytoOut computes it (1 − exp(−Qrez·depth) differences)
	Plausible bool        `json:"plausible_crop_state"`     // permanent-crop flag of the crop's own parameter file, crop N = OBMAS·GEHOB + WUMAS·WUGEH
	Class     string      `json:"class"`
	Origin    string      `json:"origin,omitempty"`
}

func (c *hvCase) orgH() bool { return c.Odu == 1 && c.Orgtime == "H" }
func (c *hvCase) skip() bool { return c.Window && c.Automan && c.orgH() }

func (c *hvCase) residLine() string {
	return fmt.Sprintf("harvest.resid %d %d %s", b01(c.Dauerkult), b01(c.IsAA),
		vh.FVals(c.Jn, c.Pesum, c.Obmas, c.Gehob, c.Row.Kostro, c.Row.Nernt, c.Row.Nkopp, c.Row.Nwura, c.Row.Nfast))
}

func (c *hvCase) stepLine() string {
	var sb strings.Builder
	fmt.Fprintf(&sb, "harvest.step %d %d %d %d %d %d %d %d %d %d ", b01(c.First), b01(c.Dauerkult), b01(c.IsAA), c.Yorgan, c.Wurz, b01(c.Standing),
		b01(c.Window), b01(c.Automan), b01(c.orgH()), b01(c.NextPer))
	sb.WriteString(vh.FVals(c.Jn, c.Pesum, c.Obmas, c.Gehob, c.Row.Kostro, c.Row.Nernt, c.Row.Nkopp, c.Row.Nwura, c.Row.Nfast,
		c.NagbOld, c.Dsumm, c.Yifak, c.Wugeh, c.Wumas, c.Lai, c.Naltos, c.Nakt, c.Domeng1, c.Nsas, c.Nlas, c.Ndir))
	fmt.Fprintf(&sb, " 5 %s 20 %s 21 %s 21 %s", vh.FVals(c.Worg[:]...), vh.FVals(c.Wuant[:]...), vh.FVals(c.Nfos[:]...), vh.FVals(c.Naos[:]...))
	return sb.String()
}

type hvResid struct{ Nagb, Ndi, Nsa, Nla, Nusa, Nula, Nresid float64 }

type hvOut struct {
	Panic                     string
	Err                       string
	Record                    bool
	Res                       hvResid // what can be observed of resid through Nitro: NAGB, NRESID (record); the rest from the pools
	Nfos, Naos                [21]float64
	Dsumm, Yield, Nuptake     float64
	Rec                       [8]float64 // Yield Biomass Roots Nuptake Nagb Nresid SoilN1 OrgN
	RecCrop                   string
	Pesum, Obmas, Wumas, Lai  float64
	Worg                      [5]float64
	Wurz                      int
	Standing                  bool
	AkfInc                    int
}

// setupHarvestG loads the case into a fresh state in which nothing but the harvest branch of Nitro acts.
func (e *hvEnv) setupHarvestG(c *hvCase, zeit int) (hermes.GlobalVarsMain, hermes.NitroBBBSharedVars, *hermes.HFilePath) {
	g := e.newG()
	g.N, g.IZM, g.FLUSS0 = 0, 0, 0
	k := 2
	if c.First {
		k = 0
	}
	g.AKF.SetByIndex(k)
	g.ZTDG[0] = 5
	g.SAAT[k] = zeit - 120
	g.ERNTE[k] = zeit
	g.ERNTE2[k] = zeit
	g.FRUCHT[k] = g.ToCropType(c.Code)
	next := hermes.WW
	if c.NextPer {
		next = hermes.GR
	}
	g.FRUCHT[k+1], g.FRUCHT[k+2] = next, next
	g.JN[k] = c.Jn
	g.DAUERKULT = c.Dauerkult
	g.YORGAN, g.YIFAK, g.GEHOB, g.WUGEH = c.Yorgan, c.Yifak, c.Gehob, c.Wugeh
	g.PESUM, g.OBMAS, g.WUMAS, g.LAI, g.WORG, g.WURZ = c.Pesum, c.Obmas, c.Wumas, c.Lai, c.Worg, c.Wurz
	if c.Standing {
		g.INTWICK.SetByIndex(3)
	}
	g.WUANT, g.NFOS, g.NAOS = c.Wuant, c.Nfos, c.Naos
	g.DSUMM, g.NALTOS, g.NAKT = c.Dsumm, c.Naltos, c.Nakt
	g.AUTOMAN = c.Automan
	if c.Window {
		g.SAAT2[k+1] = zeit - 3
	} else {
		g.SAAT2[k+1] = zeit + 30
	}
	g.ODU[k], g.ORGTIME[k], g.NSAS[k], g.NLAS[k], g.NDIR[k] = c.Odu, c.Orgtime, c.Nsas, c.Nlas, c.Ndir
	g.DGART[k] = "RG"
	ln := hermes.NitroBBBSharedVars{NAGB: c.NagbOld, DOMENG1: c.Domeng1}
	table := e.tables[0]
	for _, t := range e.tables {
		if t.Name == c.Table {
			table = t
		}
	}
	return g, ln, hermes.VerifCropNPath(table.Path)
}

func (e *hvEnv) runResidImpl(c *hvCase) (o [9]float64, panicked string) {
	defer func() {
		if r := recover(); r != nil {
			panicked = fmt.Sprint(r)
		}
	}()
	g, ln, hp := e.setupHarvestG(c, 1000)
	ndi, nsa, nla, nusa, nula, nresid := hermes.VerifResid(&g, &ln, hp)
	// DGM = NRESID; DGU is not returned: NUSA + NULA (the model's dgu is compared through its two parts)
	o = [9]float64{ln.NAGB, nresid, math.NaN(), ndi, nsa, nla, nusa, nula, nresid}
	return o, ""
}

func (e *hvEnv) runHarvestImpl(c *hvCase) (o hvOut) {
	defer func() {
		if r := recover(); r != nil {
			o.Panic = fmt.Sprint(r)
		}
	}()
	zeit := 36000 + 200
	g, ln, hp := e.setupHarvestG(c, zeit)
	k := g.AKF.Index
	var l hermes.NitroSharedVars
	var out hermes.CropOutputVars
	fin, err := hermes.Nitro(1, 1, zeit, &g, &l, &ln, hp, &out)
	e.env.drain()
	if err != nil {
		o.Err = err.Error()
		return o
	}
	o.Record = fin
	o.Nfos, o.Naos = g.NFOS, g.NAOS
	o.Dsumm, o.Yield, o.Nuptake = g.DSUMM, g.YIELD, ln.NUPTAKE
	o.Res.Nagb = ln.NAGB
	o.Rec = [8]float64{out.Yield, out.Biomass, out.Roots, out.Nuptake, out.Nagb, out.Nresid, out.SoilN1, out.OrgN}
	o.RecCrop = strings.TrimSpace(out.Crop)
	o.Pesum, o.Obmas, o.Wumas, o.Lai, o.Worg, o.Wurz = g.PESUM, g.OBMAS, g.WUMAS, g.LAI, g.WORG, g.WURZ
	o.Standing = g.INTWICK.Index >= 0
	o.AkfInc = g.AKF.Index - k
	return o
}

// implLine renders what the real Nitro shows of the model's answer; the parts of resid that Nitro does not
// expose (DGM, DGU, NDI, NSA, NLA, NUSA, NULA) are taken from the model line (they are compared by the resid kernel).
func (o *hvOut) line(c *hvCase, model string) string {
	if o.Panic != "" {
		return "panic"
	}
	mt := strings.Fields(model)
	res := make([]string, 9)
	for i := range res {
		if 5+i < len(mt) {
			res[i] = mt[5+i]
		} else {
			res[i] = "missing"
		}
	}
	res[0] = vh.FHex(o.Res.Nagb) // ln.NAGB (untouched when resid is not called)
	rec := o.Rec
	if !o.Record {
		// no record is written: the model's record numbers are not observable
		for i := 0; i < 8; i++ {
			if 5+9+42+3+i < len(mt) {
				_, v, _ := vh.ParseTok(mt[5+9+42+3+i])
				rec[i] = v
			}
		}
	}
	var all []float64
	all = append(all, o.Nfos[:]...)
	all = append(all, o.Naos[:]...)
	all = append(all, o.Dsumm, o.Yield, o.Nuptake)
	all = append(all, rec[:]...)
	all = append(all, o.Pesum, o.Obmas, o.Wumas, o.Lai)
	all = append(all, o.Worg[:]...)
	skipped := o.Record && o.RecCrop == "000"
	return fmt.Sprintf("%d %d %d %d %d %s %s", b01(o.Record), b01(skipped), o.AkfInc, o.Wurz, b01(o.Standing), strings.Join(res, " "), vh.FVals(all...))
}

// ------------------------------------------------------------------ generation

func genWuant(r *vh.Rng, wurz int) (w [20]float64, law bool) {
	if r.Chance(0.75) {
		// as PhytoOut: share of layer i = exp(−q·(i−1)·dz) − exp(−q·i·dz), q chosen so that int(4.5/q/dz) = wurz
		law = true
		q := 0.35
		if wurz >= 1 {
			lo, hi := 4.5/(float64(wurz+1)*10), 4.5/(float64(wurz)*10)
			q = lo + (hi-lo)*r.Uni(0.02, 1)
			if q > 0.35 {
				q = 0.35
			}
		}
		for i := 1; i <= 20; i++ {
			t := float64(i) * 10
			if i > 1 {
				w[i-1] = (1 - math.Exp(-q*t)) - (1 - math.Exp(-q*(t-10)))
			} else {
				w[i-1] = 1 - math.Exp(-q*t)
			}
		}
		return w, true
	}
	for i := range w {
		w[i] = vh.RoundTo(r.Uni(0, 0.3), 4)
		if r.Chance(0.1) {
			w[i] = 0
		}
	}
	return w, false
}

func genJn(r *vh.Rng) (float64, string) {
	switch r.Intn(10) {
	case 0, 1, 2:
		return 0, "jn=0"
	case 3, 4:
		return 1, "jn=1"
	case 5:
		return 2, "jn=2"
	case 6:
		return []float64{1.5, 3, 1.01, 2.5}[r.Intn(4)], "jn>1"
	default:
		return float64(r.Range(1, 99)) / 100, "jn=fraction"
	}
}

func (e *hvEnv) genCase(r *vh.Rng) hvCase {
	p := e.params[r.Intn(len(e.params))]
	t := e.tables[0]
	if len(e.tables) > 1 && r.Chance(0.35) {
		t = e.tables[1+r.Intn(len(e.tables)-1)]
	}
	c := hvCase{File: p.file, Code: p.code, Table: t.Name, Row: t.Rows[p.code], Dauerkult: p.g.DAUERKULT, IsAA: p.code == "AA",
		Yorgan: p.g.YORGAN, Yifak: p.g.YIFAK}
	c.Plausible = true
	if r.Chance(0.15) {
		c.Dauerkult = !c.Dauerkult // the flag is that of the parameter file read at the last sowing
		c.Plausible = false
	}
	switch r.Intn(8) {
	case 0:
		c.Yifak = 0.99
	case 1:
		c.Yifak = vh.RoundTo(r.Uni(0, 1), 2)
	case 2:
		c.Yorgan = r.Intn(6)
	}
	var cls string
	c.Jn, cls = genJn(r)
	c.Gehob = vh.RoundTo(r.Uni(0.005, 0.06), 4)
	c.Wugeh = vh.RoundTo(r.Uni(0.005, 0.03), 4)
	for i := range c.Worg {
		c.Worg[i] = vh.RoundTo(r.Uni(0, 6000), 1)
		if r.Chance(0.15) {
			c.Worg[i] = 0
		}
	}
	if r.Chance(0.3) { // thin sward / young crop: below the floors of the permanent-crop branch
		c.Worg[1], c.Worg[2] = vh.RoundTo(r.Uni(0, 900), 1), vh.RoundTo(r.Uni(0, 150), 1)
	}
	c.Obmas = c.Worg[1] + c.Worg[2] + c.Worg[3] + c.Worg[4]
	if r.Chance(0.2) {
		c.Obmas = vh.RoundTo(r.Uni(0, 1200), 1)
		c.Plausible = false
	}
	c.Wumas = c.Worg[0]
	c.Pesum = c.Obmas*c.Gehob + c.Wumas*c.Wugeh
	switch r.Intn(6) {
	case 0:
		c.Pesum = 0
		c.Plausible = false
	case 1:
		c.Pesum = vh.RoundTo(r.Uni(0, 400), 2)
		c.Plausible = false
	}
	c.Lai = vh.RoundTo(r.Uni(0, 7), 2)
	c.Wurz = r.Range(1, 20)
	switch r.Intn(12) {
	case 0:
		c.Wurz = 0
	case 1:
		c.Wurz = 20
	}
	c.Standing = r.Chance(0.85)
	c.Wuant, c.RootLaw = genWuant(r, c.Wurz)
	for i := range c.Nfos {
		c.Nfos[i] = vh.RoundTo(r.Uni(0, 60), 3)
		c.Naos[i] = vh.RoundTo(r.Uni(0, 900), 2)
		if r.Chance(0.2) {
			c.Nfos[i], c.Naos[i] = 0, 0
		}
	}
	c.Dsumm = vh.RoundTo(r.Uni(0, 200), 2)
	c.NagbOld = vh.RoundTo(r.Uni(0, 200), 2)
	c.Naltos = vh.RoundTo(r.Uni(500, 9000), 1)
	c.Nakt = []float64{0.13, 0.2, 0.5, 1}[r.Intn(4)]
	c.Domeng1 = vh.RoundTo(r.Uni(0, 120), 1) * float64(r.Intn(2))
	c.First = r.Chance(0.06)
	c.NextPer = r.Chance(0.3)
	// skipped-crop branch
	c.Automan = r.Chance(0.5)
	c.Window = r.Chance(0.5)
	c.Odu = float64(r.Intn(2))
	c.Orgtime = []string{"H", "H", "S", "0"}[r.Intn(4)]
	c.Nsas, c.Nlas, c.Ndir = vh.RoundTo(r.Uni(0, 60), 2), vh.RoundTo(r.Uni(0, 90), 2), vh.RoundTo(r.Uni(0, 40), 2)
	kind := "annual"
	if c.Dauerkult {
		kind = "permanent"
	}
	c.Class = kind + ":" + cls
	if c.skip() {
		c.Class += ":skipped-crop"
	}
	if c.First {
		c.Class += ":first-entry"
	}
	return c
}

// ------------------------------------------------------------------ predicates on the real outputs

func (c *hvCase) valid() bool {
	return c.Row.inRange() && c.Pesum >= 0 && c.Gehob >= 0 && c.Obmas >= 0
}

// evalResid: o = nagb dgm _ ndi nsa nla nusa nula nresid of the real resid
func evalResid(c *vh.Ctx, hc *hvCase, o [9]float64) {
	nagb, dgm, ndi, nsa, nla, nusa, nula := o[0], o[1], o[3], o[4], o[5], o[6], o[7]
	dgu := nusa + nula
	if !hc.valid() {
		c.Count("resid:excluded:row-or-state-out-of-range")
		if !allFinite(o[0], o[1], o[4], o[5], o[6], o[7]) {
			c.Count("resid:excluded:nonfinite-result")
		}
		return
	}
	if !allFinite(o[0], o[1], o[3], o[4], o[5], o[6], o[7]) {
		c.Violate("search", "resid:nonfinite", fmt.Sprintf("resid returns a non-finite value (%v) for a crop row with a positive denominator", o), hc)
		return
	}
	for _, f := range []struct {
		n string
		x float64
	}{{"NAGB", nagb}, {"NRESID", dgm}, {"NDI", ndi}, {"NSA", nsa}, {"NLA", nla}, {"NUSA", nusa}, {"NULA", nula}} {
		if f.x < -relTol(hc.Pesum) {
			c.Violate("search", "resid:negative:"+f.n, fmt.Sprintf("%s = %.9g < 0 (crop N %.9g, JN %g, row %+v)", f.n, f.x, hc.Pesum, hc.Jn, hc.Row), hc)
		}
	}
	if math.Abs(nsa+nla-dgm) > relTol(dgm) {
		c.Violate("search", "resid:split:above-ground", fmt.Sprintf("NSA + NLA = %.9g differs from NRESID = %.9g", nsa+nla, dgm), hc)
	}
	// non-permanent crops: the soil receives at most the N the crop holds, above-ground residues at most the above-ground N
	if !hc.Dauerkult && (hc.Jn <= 1 || hc.Jn == 2) {
		if dgm+dgu > hc.Pesum+relTol(hc.Pesum) {
			c.Violate("search", "resid:residues-exceed-crop-N:"+hc.Class, fmt.Sprintf("residues above ground %.9g + roots %.9g exceed the crop N %.9g", dgm, dgu, hc.Pesum), hc)
		}
		if dgm > nagb+relTol(nagb) {
			c.Violate("search", "resid:residues-exceed-crop-N:above-ground:"+hc.Class, fmt.Sprintf("above-ground residues %.9g exceed the above-ground crop N %.9g", dgm, nagb), hc)
		}
		if math.Abs(dgu-hc.Pesum*hc.Row.Nwura) > relTol(hc.Pesum) {
			c.Violate("search", "resid:split:roots", fmt.Sprintf("NUSA + NULA = %.9g differs from the root N PESUM·NWURA = %.9g", dgu, hc.Pesum*hc.Row.Nwura), hc)
		}
	}
}

func sumN(xs []float64) float64 {
	s := 0.0
	for _, x := range xs {
		s += x
	}
	return s
}

// evalHarvest: the search predicates on what the real harvest branch did. res = the real resid values of the
// same state (nil when resid is not called).
func evalHarvest(c *vh.Ctx, hc *hvCase, o *hvOut, res *[9]float64, prefix string) {
	viol := func(sig, what string) { c.Violate("search", prefix+sig, what+" ["+hc.Class+"]", hc) }
	poolsBefore := sumN(hc.Nfos[:]) + sumN(hc.Naos[:])
	poolsAfter := sumN(o.Nfos[:]) + sumN(o.Naos[:])
	finiteState := allFinite(poolsAfter, o.Pesum, o.Obmas, o.Wumas, o.Lai, o.Dsumm)
	if !hc.valid() {
		c.Count(prefix + "harvest:excluded:row-or-state-out-of-range")
		if !finiteState {
			c.Count(prefix + "harvest:excluded:nonfinite-pools-after-harvest")
		}
		return
	}
	if !finiteState {
		viol("harvest:nonfinite", "non-finite pool or crop state after the harvest")
		return
	}
	sw := 0.0
	for i := 0; i < hc.Wurz && i < 20; i++ {
		sw += hc.Wuant[i]
	}
	var dgm, dgu float64
	if res != nil {
		dgm, dgu = res[1], res[6]+res[7]
	}
	want := dgm + dgu*sw
	if hc.skip() {
		want += hc.Nsas + hc.Nlas // the organic dressing after harvest, applied at once in the skipped-crop branch
	}
	gain := poolsAfter - poolsBefore
	if math.Abs(gain-want) > relTol(poolsBefore, poolsAfter, want) {
		viol("harvest:pool-gain:"+hc.Class, fmt.Sprintf("Σ(NFOS+NAOS) grows by %.9g at harvest; above-ground residues NRESID = %.9g, root residues %.9g × Σ WUANT[0..%d) = %.9g", gain, dgm, dgu, hc.Wurz, sw))
	}
	for z := 0; z < 21; z++ {
		if o.Nfos[z] < hc.Nfos[z]-relTol(hc.Nfos[z]) || o.Naos[z] < hc.Naos[z]-relTol(hc.Naos[z]) {
			viol("harvest:pool-decreases", fmt.Sprintf("organic pool of layer %d decreases at harvest", z+1))
		}
		if o.Nfos[z] < 0 || o.Naos[z] < 0 {
			viol("harvest:negative-pool", fmt.Sprintf("organic pool of layer %d negative after the harvest", z+1))
		}
		if z >= hc.Wurz && z >= 1 && (o.Nfos[z] != hc.Nfos[z] || o.Naos[z] != hc.Naos[z]) {
			viol("harvest:layer-below-roots-changed", fmt.Sprintf("organic pool of layer %d changes although only %d layers are rooted", z+1, hc.Wurz))
		}
	}
	// ---- reset of the crop state
	if !hc.Dauerkult || !hc.NextPer {
		cls := "next-entry-not-grass"
		if !hc.Dauerkult {
			cls = "non-permanent-crop"
		}
		chk := func(name string, x float64) {
			if x != 0 {
				viol("harvest:not-reset:"+name+":"+cls, fmt.Sprintf("%s = %.9g after the harvest", name, x))
			}
		}
		chk("PESUM", o.Pesum)
		chk("OBMAS", o.Obmas)
		chk("WUMAS", o.Wumas)
		chk("WURZ", float64(o.Wurz))
		if !hc.NextPer {
			chk("LAI", o.Lai)
		}
		if o.Standing {
			viol("harvest:not-reset:INTWICK:"+cls, "the development stage is not cleared after the harvest")
		}
	}
	if !hc.Dauerkult || !(hc.Jn == 0 || hc.Jn == 1) {
		for i, x := range o.Worg {
			if x != 0 {
				viol("harvest:not-reset:WORG", fmt.Sprintf("WORG[%d] = %.9g after the harvest", i, x))
			}
		}
	}
	// ---- record
	if o.Record && o.RecCrop != "000" {
		names := []string{"Yield", "Biomass", "Roots", "Nuptake", "Nagb", "Nresid", "SoilN1", "OrgN"}
		if o.Rec[3] != hc.Pesum {
			viol("harvest:record:Nuptake", fmt.Sprintf("record Nuptake = %.9g, crop N at harvest %.9g", o.Rec[3], hc.Pesum))
		}
		if o.Rec[1] != hc.Obmas || o.Rec[2] != hc.Worg[0] {
			viol("harvest:record:Biomass/Roots", fmt.Sprintf("record Biomass %.9g / Roots %.9g, state at harvest %.9g / %.9g", o.Rec[1], o.Rec[2], hc.Obmas, hc.Worg[0]))
		}
		if res != nil && (o.Rec[5] != res[8] || o.Rec[4] != res[0]) {
			viol("harvest:record:Nresid/Nagb", fmt.Sprintf("record Nresid %.9g / Nagb %.9g, resid returned %.9g / %.9g", o.Rec[5], o.Rec[4], res[8], res[0]))
		}
		for _, i := range []int{3, 4, 5, 6} {
			if o.Rec[i] < -relTol(hc.Pesum) {
				viol("harvest:record:negative:"+names[i], fmt.Sprintf("record %s = %.9g", names[i], o.Rec[i]))
			}
		}
	}
	// ---- the identity of C07_harvest_crop_N_balance on the record and the pools of the real code
	if o.Record && o.RecCrop != "000" && !hc.Dauerkult && !hc.skip() && hc.Jn >= 0 && hc.Jn <= 1 {
		nup, nagb, nres := o.Rec[3], o.Rec[4], o.Rec[5]
		exported := nagb - nres
		if exported < -relTol(nagb, nres) {
			viol("harvest:negative-export:"+hc.Class, fmt.Sprintf("N leaving the field Nagb − Nresid = %.9g − %.9g < 0", nagb, nres))
		}
		if bal := nup - (exported + gain + (nup-nagb)*(1-sw)); math.Abs(bal) > relTol(nup, gain, poolsBefore) {
			viol("harvest:crop-N-balance:"+hc.Class, fmt.Sprintf("crop N %.9g ≠ N leaving the field %.9g + jump of the pools %.9g + root N not distributed %.9g (difference %.6g)", nup, exported, gain, (nup-nagb)*(1-sw), bal))
		}
		c.Count(prefix + "harvest:crop-N-balance-checked")
	}
	// ---- observations (not violations of C07: the property does not claim that all crop N returns to the soil):
	// where the harvest loses or creates N — counted, the observed residuals go into the evidence
	origin := "kernel"
	if prefix != "" {
		origin = "run"
	}
	maxExtra := func(key string, x float64) {
		if old, ok := c.Res.Extra[key].(float64); !ok || x > old {
			c.Res.Extra[key] = x
		}
	}
	if res != nil && hc.RootLaw && !hc.Dauerkult && dgu > 0 && sw < 1-1e-9 && hc.Wurz >= 1 {
		// C07_harvest_crop_N_balance: residual (Nuptake − Nagb)·(1 − Σ WUANT[0..WURZ)), witness C07_harvest_root_N_lost_fails_at
		c.Count(prefix + obsRootLoss)
		maxExtra("harvest_root_N_not_distributed_max_kgN_ha:"+origin, dgu*(1-sw))
		maxExtra("harvest_root_N_not_distributed_max_share_of_root_N:"+origin, 1-sw)
	}
	if hc.Dauerkult && (hc.Jn == 0 || hc.Jn == 1) && hc.NextPer && res != nil && !hc.skip() {
		// C07_harvest_perennial_no_creation_partial / C07_harvest_perennial_floor_creates_N_fails_at
		left := (hc.Pesum - (res[4] + res[5] + res[3]) - hc.Worg[0]*hc.Wugeh) * (1 - hc.Yifak)
		floor := 820*hc.Gehob + hc.Worg[0]*hc.Wugeh
		if floor > left && o.Pesum+gain > hc.Pesum+relTol(hc.Pesum, gain) {
			c.Count(prefix + obsFloor)
			if hc.Plausible {
				c.Count(prefix + obsFloor + ":plausible-crop-state")
				maxExtra("harvest_permanent_crop_floor_created_N_max_kgN_ha:"+origin, o.Pesum+gain-hc.Pesum)
			}
		}
	}
	if hc.skip() && o.Record && o.RecCrop == "000" && hc.Nsas > 0 {
		applied := (o.Naos[0] - hc.Naos[0]) + (o.Nfos[0] - hc.Nfos[0]) - (func() float64 {
			if res == nil {
				return 0
			}
			w0 := 0.0
			if hc.Wurz > 0 {
				w0 = hc.Wuant[0]
			}
			return res[1] + (res[6]+res[7])*w0
		}()) + (o.Dsumm - hc.Dsumm)
		c.Count(prefix + "harvest:skipped-crop:booked-vs-applied-checked")
		if math.Abs(o.Rec[7]-applied) > relTol(o.Rec[7], applied, hc.Naos[0], hc.Nfos[0]) {
			c.Count(prefix + cntSkipManure)
			c.Violate("search", sigSkipManure, fmt.Sprintf("skipped-crop branch: the SKIPPED record reports OrgN = %.6g kg N/ha (NSAS %.6g + NLAS %.6g + NDIR %.6g), the pools and DSUMM receive %.6g: the fast organic part NSAS is booked but not added to NFOS",
				o.Rec[7], hc.Nsas, hc.Nlas, hc.Ndir, applied), hc)
		}
	}
}

// ------------------------------------------------------------------ kernel stages

func harvestResidKernel(c *vh.Ctx, e *hvEnv, n int) {
	var cases, impl []string
	var kept []hvCase
	for k := 0; k < n; k++ {
		hc := e.genCase(c.Rng)
		hc.First = false
		hc.Class = strings.TrimSuffix(hc.Class, ":first-entry")
		o, pan := e.runResidImpl(&hc)
		c.Eval()
		c.Count("resid:" + hc.Class)
		c.Count("resid:file:" + hc.File)
		c.Nontrivial(fmt.Sprintf("rs%d", k))
		if pan != "" {
			c.Violate("search", "harvest:panic:resid", "resid panics: "+firstLine(pan), hc)
			continue
		}
		evalResid(c, &hc, o)
		cases = append(cases, hc.residLine())
		impl = append(impl, vh.FVals(o[0], o[1])+" DGU "+vh.FVals(o[3:]...))
		kept = append(kept, hc)
		if hc.Table == "shipped" {
			// the same case with the row looked up in the table regenerated from CROP_N.TXT into Lean
			var sb strings.Builder
			fmt.Fprintf(&sb, "harvest.residc %d %d %s %d", b01(hc.Dauerkult), b01(hc.IsAA), vh.FVals(hc.Jn, hc.Pesum, hc.Obmas, hc.Gehob), len(hc.Code))
			for i := 0; i < len(hc.Code); i++ {
				fmt.Fprintf(&sb, " %d", hc.Code[i])
			}
			cases = append(cases, sb.String())
			impl = append(impl, impl[len(impl)-1])
			kept = append(kept, hc)
			c.Count("resid:row-from-regenerated-table")
		}
	}
	// DGU is not returned by resid: the model's value is checked through NUSA + NULA by the predicates; the
	// token is taken over from the model line
	model, err := c.RunDriver(cases)
	if err == nil {
		for i := range impl {
			mt := strings.Fields(model[i])
			if len(mt) == 9 {
				impl[i] = strings.Replace(impl[i], "DGU", mt[2], 1)
			}
		}
	}
	saved := kept
	c.Correspond("harvest.resid", cases, impl, 1e-9, 1e-12, func(i int) interface{} { return saved[i] })
}

func harvestStepKernel(c *vh.Ctx, e *hvEnv, n int) {
	var cases []string
	var outs []hvOut
	var kept []hvCase
	for k := 0; k < n; k++ {
		hc := e.genCase(c.Rng)
		if k%97 == 13 {
			hc.Wurz = 21 + c.Rng.Intn(3) // beyond the 20 cells of WUANT
			hc.Class += ":wurz>20"
		}
		o := e.runHarvestImpl(&hc)
		c.Eval()
		c.Count("harvest:" + hc.Class)
		c.Nontrivial(fmt.Sprintf("hv%d", k))
		if o.Err != "" {
			c.Violate("search", "harvest:error", "Nitro returns an error on the harvest day: "+o.Err, hc)
			continue
		}
		if o.Panic != "" {
			if hc.Wurz > 20 && strings.Contains(o.Panic, "index out of range") {
				c.Count("harvest:panic:wurz>20(array bound of WUANT)")
			} else {
				c.Violate("search", "harvest:panic:"+hc.Class, "the harvest branch of Nitro panics: "+firstLine(o.Panic), hc)
				continue
			}
		} else {
			var res *[9]float64
			if !hc.First {
				r, pan := e.runResidImpl(&hc)
				if pan == "" {
					res = &r
				}
			}
			evalHarvest(c, &hc, &o, res, "")
		}
		cases = append(cases, hc.stepLine())
		outs = append(outs, o)
		kept = append(kept, hc)
	}
	harvestCorrespond(c, "harvest.step", cases, outs, kept)
}

func harvestCorrespond(c *vh.Ctx, kernel string, cases []string, outs []hvOut, kept []hvCase) {
	if len(cases) == 0 {
		return
	}
	model, err := c.RunDriver(cases)
	if err != nil {
		c.Violate("correspondence", kernel+":driver", err.Error(), nil)
		return
	}
	impl := make([]string, len(cases))
	for i := range cases {
		impl[i] = outs[i].line(&kept[i], model[i])
		if impl[i] != model[i] {
			// expected only where the result is NaN (a table row with a zero denominator): the payload bits of a NaN are not compared
			if strings.Contains(impl[i], "x7ff8") || strings.Contains(impl[i], "xfff8") {
				c.Count(kernel + ":not-bit-exact:nan-result")
			} else {
				c.Count(kernel + ":not-bit-exact:other")
			}
		}
	}
	c.Correspond(kernel, cases, impl, 1e-9, 1e-12, func(i int) interface{} { return kept[i] })
}

func harvestPinitKernel(c *vh.Ctx, n int) {
	var cases, impl []string
	for k := 0; k < n; k++ {
		r := c.Rng
		g := hermes.NewGlobalVarsMain()
		g.DAUERKULT = r.Chance(0.4)
		g.PESUM, g.OBMAS, g.WUMAS, g.LAI = vh.RoundTo(r.Uni(0, 300), 2), vh.RoundTo(r.Uni(0, 12000), 1), vh.RoundTo(r.Uni(0, 3000), 1), vh.RoundTo(r.Uni(0, 7), 2)
		g.WURZ = r.Intn(21)
		standing := r.Chance(0.8)
		if standing {
			g.INTWICK.SetByIndex(r.Intn(6))
		}
		g.VERNTAGE, g.PHYLLO = 12, 700
		cases = append(cases, fmt.Sprintf("harvest.pinit %d %d %d %s", b01(g.DAUERKULT), g.WURZ, b01(standing), vh.FVals(g.PESUM, g.OBMAS, g.WUMAS, g.LAI)))
		dk := g.DAUERKULT
		hermes.VerifPinit(&g)
		c.Eval()
		impl = append(impl, fmt.Sprintf("%d %d %s", g.WURZ, b01(g.INTWICK.Index >= 0), vh.FVals(g.PESUM, g.OBMAS, g.WUMAS, g.LAI)))
		if !dk && (g.PESUM != 0 || g.OBMAS != 0 || g.WUMAS != 0 || g.WURZ != 0 || g.VERNTAGE != 0 || g.PHYLLO != 0 || g.INTWICK.Index != -1) {
			c.Violate("search", "harvest:not-reset:pinit", "pinit leaves crop state of a non-permanent crop", nil)
		}
	}
	c.Correspond("harvest.pinit", cases, impl, 1e-9, 1e-12, nil)
}

// harvestWitnesses replays the witnesses of HermesProps/C07Harvest.lean on the real code.
func harvestWitnesses(c *vh.Ctx, e *hvEnv) {
	base := func(code string) hvCase {
		hc := hvCase{Code: code, File: "PARAM." + code, Table: "shipped", Row: e.tables[0].Rows[code], Standing: true, Plausible: true, Nakt: 0.13, Naltos: 3000, Orgtime: "0"}
		for i := range hc.Nfos {
			hc.Nfos[i], hc.Naos[i] = 10, 100
		}
		return hc
	}
	var cases []string
	var outs []hvOut
	var kept []hvCase
	// bucket = the counter evalHarvest increments when the state shows the behaviour; wantIt = the behaviour is expected
	// (witness of a `…_fails_at` theorem) or must be absent (regression state of a repaired defect: evalHarvest reports it)
	run := func(hc hvCase, bucket string, wantIt bool) {
		o := e.runHarvestImpl(&hc)
		c.Eval()
		if o.Panic != "" || o.Err != "" {
			c.Violate("search", "harvest:panic:witness", "witness state: "+o.Panic+o.Err, hc)
			return
		}
		var res *[9]float64
		if r, pan := e.runResidImpl(&hc); pan == "" {
			res = &r
		}
		before := c.Res.Distribution[bucket]
		evalHarvest(c, &hc, &o, res, "")
		found := c.Res.Distribution[bucket] > before
		switch {
		case wantIt && found:
			c.Count("harvest:witness-reproduced:" + bucket)
		case wantIt && !found:
			c.Note("%s: the implementation no longer shows %s", hc.Origin, bucket)
			c.Count("harvest:witness-not-reproduced:" + bucket)
		case !wantIt && !found:
			c.Count("harvest:regression-state-ok:" + bucket)
		}
		cases = append(cases, hc.stepLine())
		outs = append(outs, o)
		kept = append(kept, hc)
	}
	// C07_harvest_root_N_lost_fails_at: winter wheat, crop N 200, all residues removed, one rooted layer with share 0.9
	{
		hc := base("WW")
		hc.Class, hc.Origin = "annual:jn=1", "witness C07_harvest_root_N_lost_fails_at"
		hc.Jn, hc.Pesum, hc.Obmas, hc.Gehob, hc.Wugeh = 1, 200, 9000, 0.02, 0.01
		hc.Worg = [5]float64{2000, 1000, 3000, 5000, 0}
		hc.Wumas, hc.Wurz, hc.Yorgan, hc.Yifak = 2000, 1, 4, 0.85
		hc.Wuant[0], hc.RootLaw = 0.9, true
		run(hc, obsRootLoss, true)
	}
	// C07_harvest_perennial_floor_creates_N_fails_at: thin grass sward
	{
		hc := base("GR")
		hc.Class, hc.Origin = "permanent:jn=1", "witness C07_harvest_perennial_floor_creates_N_fails_at"
		hc.Dauerkult, hc.NextPer = true, true
		hc.Jn, hc.Pesum, hc.Obmas, hc.Gehob, hc.Wugeh = 1, 10, 400, 0.02, 0.01
		hc.Worg = [5]float64{200, 300, 100, 0, 0}
		hc.Wumas, hc.Wurz, hc.Yorgan, hc.Yifak = 200, 2, 0, 0.8
		hc.Wuant[0], hc.Wuant[1] = 0.6, 0.3
		run(hc, obsFloor, true)
	}
	// regression state of the repaired skipped-crop branch (`skipWitness` of HermesProps/C07Harvest.lean)
	{
		hc := base("WW")
		hc.Class, hc.Origin = "annual:jn=1:skipped-crop", "regression state skipWitness (fix: skipped-crop branch adds NSAS to NFOS)"
		hc.Jn, hc.Pesum, hc.Obmas, hc.Gehob, hc.Wugeh = 1, 0, 0, 0.02, 0.01
		hc.Automan, hc.Window, hc.Odu, hc.Orgtime = true, true, 1, "H"
		hc.Nsas, hc.Nlas, hc.Ndir = 30, 50, 20
		run(hc, cntSkipManure, false)
	}
	harvestCorrespond(c, "harvest.step@witness", cases, outs, kept)
}

// ------------------------------------------------------------------ whole runs

type hvRunDay struct {
	Zeit       int
	Akf        int
	Date       string
	Case       hvCase
	Iso        hvOut
	Resid      *[9]float64
	PreMinfos  [4]float64
	PreMinaos  [4]float64
	EventDay   bool // fertiliser / tillage / automatic organic dressing on the same day: the pool jump is not the harvest alone
	SumPE      float64
	Schnorr    float64
	HaveAfter  bool
	Nfos, Naos [21]float64
	Minfos     [4]float64
	Minaos     [4]float64
	Pesum      float64
	Obmas      float64
	Wumas      float64
	Lai        float64
	Worg       [5]float64
	Wurz       int
	Standing   bool
	AkfInc     int
	Naltos     float64
	Nakt       float64
	Unstable   bool
}

var hvCropCols = []string{"Crop", "HarvestYear", "HarvestDOY", "Yield", "Biomass", "Roots", "Nuptake", "Nagb", "Nresid", "SoilN1", "OrgN"}

func harvestObserve(c *vh.Ctx, e *hvEnv, p *proj.Project, automan []proj.AutoEntry) (days []*hvRunDay, res *proj.RunResult) {
	root := filepath.Join(c.Scratch, "hv-"+p.Name)
	os.MkdirAll(root, 0o755)
	defer os.RemoveAll(root)
	if err := p.Write(root, c.Repo); err != nil {
		return nil, &proj.RunResult{Err: err}
	}
	// the crop record with the N fields, every number written with %v (round-trips exactly)
	if err := os.WriteFile(filepath.Join(root, "project", p.Name, "cropout_conf.yml"), []byte(proj.OutputConf(hvCropCols)), 0o644); err != nil {
		return nil, &proj.RunResult{Err: err}
	}
	if automan != nil {
		if err := p.WriteManagementConf(root); err != nil {
			return nil, &proj.RunResult{Err: err}
		}
		if err := p.WriteAutoman(root, automan); err != nil {
			return nil, &proj.RunResult{Err: err}
		}
	}
	cropn := filepath.Join(root, "parameter", "CROP_N.TXT")
	rows := e.tables[0].Rows
	var curL *hermes.CropSharedVars
	var cur *hvRunDay
	probes := &hermes.VerifProbes{
		DayStart: func(g *hermes.GlobalVarsMain, w *hermes.WaterSharedVars, n *hermes.NitroSharedVars, cs *hermes.CropSharedVars, zeit int, wdt float64) {
			curL = cs
			cur = nil
		},
		AfterWater: func(g *hermes.GlobalVarsMain, w *hermes.WaterSharedVars, zeit, subd int, wdt, steps float64) {
			if subd != 1 || curL == nil {
				return
			}
			akf := g.AKF.Index
			gA, lA := *g, *curL
			gA.VerifDetachOutputs()
			if g.AKF.Num > 1 && g.SAAT[akf] > 0 && zeit >= g.SAAT[akf] && zeit <= g.ERNTE2[akf] {
				if zeit == g.SAAT[akf] {
					return // sowing day: PhytoOut reads the parameter file
				}
				if g.ERNTE[akf] != zeit && g.ERNTE[akf] != 0 {
					return // cannot become a harvest day (PhytoOut sets ERNTE to today only when it is still 0: automatic harvest)
				}
				pan := func() (p string) {
					defer func() {
						if rec := recover(); rec != nil {
							p = fmt.Sprint(rec)
						}
					}()
					hermes.PhytoOut(&gA, &lA, &hermes.HFilePath{}, zeit, &hermes.Config{}, &hermes.CropOutputVars{})
					return ""
				}()
				if pan != "" {
					return
				}
			}
			if zeit != gA.ERNTE[akf] {
				return
			}
			code := strings.TrimSpace(gA.CropTypeToString(gA.FRUCHT[akf], false))
			d := &hvRunDay{Zeit: zeit, Akf: akf, Date: proj.FromZ(zeit).String()}
			hc := hvCase{File: "(run)", Code: code, Table: "shipped", Row: rows[code], First: gA.AKF.Num == 1, Dauerkult: gA.DAUERKULT, IsAA: gA.FRUCHT[akf] == hermes.AA,
				Yorgan: gA.YORGAN, Yifak: gA.YIFAK, Gehob: gA.GEHOB, Wugeh: gA.WUGEH, Jn: gA.JN[akf], Pesum: gA.PESUM, Obmas: gA.OBMAS, Wumas: gA.WUMAS,
				Lai: gA.LAI, Worg: gA.WORG, Wurz: gA.WURZ, Standing: gA.INTWICK.Index >= 0, Wuant: gA.WUANT, Nfos: gA.NFOS, Naos: gA.NAOS, Dsumm: gA.DSUMM,
				Naltos: gA.NALTOS, Nakt: gA.NAKT, Automan: gA.AUTOMAN, Window: gA.SAAT2[akf+1] <= zeit, Odu: gA.ODU[akf], Orgtime: gA.ORGTIME[akf],
				Nsas: gA.NSAS[akf], Nlas: gA.NLAS[akf], Ndir: gA.NDIR[akf], RootLaw: true, Plausible: true, Origin: "whole run " + p.Name + " " + d.Date}
			inc := 1
			if hc.skip() {
				inc = 2
			}
			hc.NextPer = isPerennialCode(gA.FRUCHT[akf+inc])
			kind := "annual"
			if hc.Dauerkult {
				kind = "permanent"
			}
			switch {
			case hc.Jn == 0 || hc.Jn == 1 || hc.Jn == 2:
				hc.Class = fmt.Sprintf("%s:jn=%g", kind, hc.Jn)
			case hc.Jn > 1:
				hc.Class = kind + ":jn>1"
			default:
				hc.Class = kind + ":jn=fraction"
			}
			if hc.First {
				hc.Class += ":first-entry"
			}
			d.Case = hc
			d.PreMinfos, d.PreMinaos = gA.MINFOS, gA.MINAOS
			d.Naltos, d.Nakt = gA.NALTOS, gA.NAKT
			for z := 0; z < gA.N; z++ {
				d.SumPE += gA.PE[z]
			}
			d.Schnorr = gA.SCHNORR
			ti := gA.NTIL.Index + 1
			d.EventDay = (!gA.AUTOFERT && zeit == gA.ZTDG[gA.NDG.Index]+1) || zeit == gA.EINTE[ti]+1 || zeit == gA.EINTE[ti]
			if gA.AUTOFERT { // automatic organic dressing of the day (nitro.go:75-78, 92-98)
				if akf >= 1 && gA.ODU[akf-1] == 1 && gA.ORGTIME[akf-1] == "H" && zeit == gA.ZTDG[akf-1] {
					d.EventDay = true
				}
				// organic dressing "at sowing" of the entry being grown (nitro.go:92-106, time code of THIS entry since the
				// repair 6a0c122): applied ORGDOY days after sowing
				if gA.SAAT[akf] > 0 && zeit >= gA.SAAT[akf] && gA.ODU[akf] == 1 && gA.ORGTIME[akf] == "S" &&
					((zeit == gA.SAAT[akf] && gA.ORGDOY[akf] == 0) || (zeit > gA.SAAT[akf] && zeit == gA.ZTDG[akf])) {
					d.EventDay = true
				}
			}
			// ---- the real harvest branch in isolation on a copy of this state
			gI := gA
			gI.N, gI.IZM = 0, 0
			gI.AUTOFERT = false
			gI.ZTDG[gI.NDG.Index] = -10
			if zeit == gI.EINTE[ti]+1 || zeit == gI.EINTE[ti] {
				gI.EINTE[ti] = zeit + 1000
			}
			gI.SCHNORR = 0
			hp := hermes.VerifCropNPath(cropn)
			if !hc.First {
				gR := gA
				lnR := hermes.NitroBBBSharedVars{}
				func() {
					defer func() { recover() }()
					ndi, nsa, nla, nusa, nula, nresid := hermes.VerifResid(&gR, &lnR, hp)
					d.Resid = &[9]float64{lnR.NAGB, nresid, math.NaN(), ndi, nsa, nla, nusa, nula, nresid}
				}()
			}
			func() {
				defer func() {
					if rec := recover(); rec != nil {
						d.Iso.Panic = fmt.Sprint(rec)
					}
				}()
				var l hermes.NitroSharedVars
				var ln hermes.NitroBBBSharedVars
				var out hermes.CropOutputVars
				fin, err := hermes.Nitro(wdt, 1, zeit, &gI, &l, &ln, hp, &out)
				if err != nil {
					d.Iso.Err = err.Error()
					return
				}
				o := &d.Iso
				o.Record = fin
				o.Nfos, o.Naos = gI.NFOS, gI.NAOS
				o.Dsumm, o.Yield, o.Nuptake = gI.DSUMM, gI.YIELD, ln.NUPTAKE
				o.Res.Nagb = ln.NAGB
				o.Rec = [8]float64{out.Yield, out.Biomass, out.Roots, out.Nuptake, out.Nagb, out.Nresid, out.SoilN1, out.OrgN}
				o.RecCrop = strings.TrimSpace(out.Crop)
				o.Pesum, o.Obmas, o.Wumas, o.Lai, o.Worg, o.Wurz = gI.PESUM, gI.OBMAS, gI.WUMAS, gI.LAI, gI.WORG, gI.WURZ
				o.Standing = gI.INTWICK.Index >= 0
				o.AkfInc = gI.AKF.Index - akf
			}()
			cur = d
			days = append(days, d)
		},
		AfterNitro: func(g *hermes.GlobalVarsMain, w *hermes.WaterSharedVars, n *hermes.NitroSharedVars, zeit, subd int, wdt, steps float64) {
			if cur == nil || subd != 1 || cur.Zeit != zeit {
				return
			}
			d := cur
			d.HaveAfter = true
			d.Nfos, d.Naos, d.Minfos, d.Minaos = g.NFOS, g.NAOS, g.MINFOS, g.MINAOS
			d.Pesum, d.Obmas, d.Wumas, d.Lai, d.Worg, d.Wurz = g.PESUM, g.OBMAS, g.WUMAS, g.LAI, g.WORG, g.WURZ
			d.Standing = g.INTWICK.Index >= 0
			d.AkfInc = g.AKF.Index - d.Akf
			d.Unstable = g.C1NotStableErr != ""
		},
	}
	res = proj.Run(root, p, probes)
	return days, res
}

// harvestRotation sets the residue-export values the property quantifies over and cuts some crops green.
func harvestRotation(p *proj.Project, r *vh.Rng) {
	for i := range p.Rot {
		switch r.Intn(8) {
		case 0, 1:
			p.Rot[i].Rex = 0
		case 2, 3:
			p.Rot[i].Rex = 100
		case 4:
			p.Rot[i].Rex = 200
		default:
			p.Rot[i].Rex = r.Range(1, 99)
		}
	}
}

func harvestRunStage(c *vh.Ctx, e *hvEnv, runs int) {
	var cases []string
	var outs []hvOut
	var kept []hvCase
	for k := 0; k < runs; k++ {
		r := c.Rng.Fork()
		p := proj.Gen(r, fmt.Sprintf("hv%d", k), proj.Opt{Management: k%2 == 0, MinLayers: 3, Legumes: k%3 == 0, Years: r.Range(2, 4)})
		if k%4 == 3 {
			proj.CreditRotation(p, r, k)
		}
		var automan []proj.AutoEntry
		if k%3 == 2 {
			// automatic sowing (and fertilisation): organic dressing after harvest configured, and for one entry the
			// harvest moved behind the sowing window of its successor (skipped-crop branch, nitro.go:470-535)
			sw := []int{9, 1, 11, 15, 13, 3}[(k/3)%6]
			cs := c16Prepare(r, p, sw, 0)
			automan = cs.Entries
			for i := range automan {
				if r.Chance(0.7) {
					automan[i].OrgTime = "H"
				}
			}
			for i := range p.Rot {
				p.Rot[i].AutOrg = 1
			}
			if n := len(p.Rot); n >= 3 && sw&2 == 0 {
				i := r.Range(1, n-2)
				var next *proj.AutoEntry
				for j := range automan {
					if automan[j].Crop == p.Rot[i+1].Crop {
						next = &automan[j]
					}
				}
				if next != nil && next.Sow1M != 0 {
					w2 := proj.Date{Y: p.Rot[i+1].Sow.Y, M: next.Sow2M, D: next.Sow2D}
					if h := w2.AddDays(r.Range(0, 6)); h.Z() > p.Rot[i].Sow.Z()+40 && h.Z() < p.Rot[i+1].Harvest.Z()-60 {
						p.Rot[i].Harvest = h
						if p.Rot[i+1].Sow.Z() <= h.Z() {
							p.Rot[i+1].Sow = h.AddDays(r.Range(1, 5)) // the rotation file must stay ordered; the window decides
						}
						c.Count("run:harvest-simulations:harvest-moved-behind-next-window")
					}
				}
			}
			c.Count("run:harvest-simulations:automatic:" + cs.Sw)
		}
		harvestRotation(p, r)
		steerNitroProject(p, false)
		days, res := harvestObserve(c, e, p, automan)
		c.Count("run:harvest-simulations")
		if res.Panic != "" {
			c.Violate("search", panicSignature(res.Panic), "simulation panicked: "+res.Panic, map[string]interface{}{"project": p})
			continue
		}
		if res.Err != nil {
			c.Count("run:harvest-simulations:rejected")
			c.Note("harvest run %s rejected: %v", p.Name, res.Err)
			continue
		}
		// crop-file records, in harvest order
		var recs [][]string
		for _, ln := range strings.Split(strings.TrimSpace(res.Out.File("C")), "\n") {
			f := strings.Split(strings.TrimRight(ln, "\r"), ",")
			if len(f) < len(hvCropCols) {
				continue
			}
			for i := range f {
				f[i] = strings.TrimSpace(f[i])
			}
			recs = append(recs, f)
		}
		ri := 0
		for _, d := range days {
			hc := d.Case
			c.Eval()
			c.Count("run:harvest-day:" + hc.Class)
			payload := map[string]interface{}{"project": p, "date": d.Date, "zeit": d.Zeit, "state_handed_to_nitro": hc}
			if d.Iso.Panic != "" || d.Iso.Err != "" {
				c.Violate("search", "harvest:panic:run-state", "the harvest branch fails on the state of a run: "+d.Iso.Panic+d.Iso.Err, payload)
				continue
			}
			if d.Unstable {
				c.Count("run:harvest-day:after-transport-instability")
				if d.Iso.Record {
					ri++
				}
				continue
			}
			c.Nontrivial(fmt.Sprintf("%s:%d", p.Name, d.Zeit))
			evalHarvest(c, &hc, &d.Iso, d.Resid, "run:")
			cases = append(cases, hc.stepLine())
			outs = append(outs, d.Iso)
			kept = append(kept, hc)
			var rec []string
			if d.Iso.Record {
				if ri < len(recs) {
					rec = recs[ri]
				}
				ri++
			}
			if !d.HaveAfter {
				continue
			}
			viol := func(sig, what string) {
				c.Violate("search", "run:harvest:"+sig, d.Date+" ("+hc.Code+", "+hc.Class+"): "+what, payload)
			}
			// ---- the run's own state after Nitro vs the isolated harvest branch
			iso := &d.Iso
			if d.Obmas != iso.Obmas || d.Wumas != iso.Wumas || d.Lai != iso.Lai || d.Wurz != iso.Wurz || d.Worg != iso.Worg || d.Standing != iso.Standing || d.AkfInc != iso.AkfInc {
				viol("state:crop", fmt.Sprintf("crop state after Nitro (OBMAS %.9g WUMAS %.9g LAI %.9g WURZ %d) differs from the harvest branch run on the same state (%.9g %.9g %.9g %d)",
					d.Obmas, d.Wumas, d.Lai, d.Wurz, iso.Obmas, iso.Wumas, iso.Lai, iso.Wurz))
			}
			if pe := d.Pesum - iso.Pesum; math.Abs(pe-d.SumPE) > relTol(d.Pesum, d.SumPE) && math.Abs(pe-d.SumPE-d.Schnorr) > relTol(d.Pesum, d.SumPE, d.Schnorr) {
				viol("state:PESUM", fmt.Sprintf("crop N after Nitro %.9g; harvest branch leaves %.9g, uptake of the day %.9g, fixation %.9g", d.Pesum, iso.Pesum, d.SumPE, d.Schnorr))
			}
			if !d.EventDay {
				c.Count("run:harvest-day:pool-jump-checked")
				totPre, totPost, totWant := 0.0, 0.0, 0.0
				for z := 0; z < 21; z++ {
					f0, a0 := hc.Nfos[z], hc.Naos[z]
					f1, a1 := d.Nfos[z], d.Naos[z]
					if z < 4 {
						f0 += d.PreMinfos[z]
						a0 += d.PreMinaos[z]
						f1 += d.Minfos[z]
						a1 += d.Minaos[z]
					}
					wf, wa := iso.Nfos[z]-hc.Nfos[z], iso.Naos[z]-hc.Naos[z]
					if math.Abs(f1-f0-wf) > relTol(f0, f1, wf) {
						viol("pool-jump:fast", fmt.Sprintf("NFOS+MINFOS of layer %d changes by %.9g over Nitro, the harvest adds %.9g", z+1, f1-f0, wf))
					}
					if math.Abs(a1-a0-wa) > relTol(a0, a1, wa) {
						viol("pool-jump:slow", fmt.Sprintf("NAOS+MINAOS of layer %d changes by %.9g over Nitro, the harvest adds %.9g", z+1, a1-a0, wa))
					}
					totPre += f0 + a0
					totPost += f1 + a1
					totWant += wf + wa
				}
				// crop-file record vs pool jump
				if rec != nil && rec[0] != "000" && d.Resid != nil && hc.valid() {
					nres, err := strconv.ParseFloat(rec[8], 64)
					if err == nil {
						sw := 0.0
						for i := 0; i < hc.Wurz && i < 20; i++ {
							sw += hc.Wuant[i]
						}
						dgu := d.Resid[6] + d.Resid[7]
						if jump := totPost - totPre; math.Abs(jump-(nres+dgu*sw)) > relTol(totPre, totPost, nres) {
							viol("pool-jump:sum", fmt.Sprintf("Σ(NFOS+NAOS+MINFOS+MINAOS) changes by %.9g over Nitro of the harvest day; the crop file reports Nresid = %.9g, root residues add %.9g", jump, nres, dgu*sw))
						}
						c.Count("run:harvest-day:record-vs-pool-jump-checked")
					}
				}
			}
			// ---- crop-file record vs the state at harvest
			if d.Iso.Record {
				if rec == nil {
					viol("record-count", "no record in the crop file for this harvest")
					continue
				}
				if rec[0] == "000" {
					c.Count("run:harvest-day:skipped-record")
					continue
				}
				if rec[0] != hc.Code {
					viol("record:Crop", fmt.Sprintf("record names crop %s", rec[0]))
					continue
				}
				hd := proj.FromZ(d.Zeit)
				if rec[1] != fmt.Sprint(hd.Y) {
					viol("record:HarvestYear", fmt.Sprintf("record harvest year %s", rec[1]))
				}
				want := []float64{iso.Rec[0], iso.Rec[1], iso.Rec[2], iso.Rec[3], iso.Rec[4], iso.Rec[5]}
				names := []string{"Yield", "Biomass", "Roots", "Nuptake", "Nagb", "Nresid"}
				for i, w := range want {
					x, err := strconv.ParseFloat(rec[3+i], 64)
					if err != nil || (x != w && !(math.IsNaN(x) && math.IsNaN(w))) {
						viol("record:"+names[i], fmt.Sprintf("crop file %s = %s, the harvest branch on the state of the day gives %v", names[i], rec[3+i], w))
					}
				}
				if x, err := strconv.ParseFloat(rec[9], 64); err == nil && !hc.skip() {
					s3 := d.Naltos/d.Nakt*(1-d.Nakt) + (d.Naos[0] + d.Naos[1] + d.Naos[2]) + (d.Nfos[0] + d.Nfos[1] + d.Nfos[2])
					if math.Abs(x-s3) > relTol(x, s3) {
						viol("record:SoilN1", fmt.Sprintf("crop file SoilN1 = %.9g, pools after the harvest give %.9g", x, s3))
					}
				}
				c.Count("run:harvest-day:record-checked")
			}
		}
		if nrec := len(recs); nrec != ri {
			c.Violate("search", "run:harvest:record-count", fmt.Sprintf("%d records in the crop file, %d harvests with a record observed", nrec, ri), map[string]interface{}{"project": p})
		}
	}
	harvestCorrespond(c, "harvest.step@run", cases, outs, kept)
}

func harvestStages(c *vh.Ctx) {
	e := newHvEnv(c, c.N(4, 12))
	if len(e.tables) == 0 || len(e.params) == 0 {
		return
	}
	files := map[string]bool{}
	for _, p := range e.params {
		files[p.file] = true
	}
	names := make([]string, 0, len(files))
	for f := range files {
		names = append(names, f)
	}
	sort.Strings(names)
	c.Res.Extra["harvest_crop_parameter_files"] = names
	harvestResidKernel(c, e, c.N(1500, 20000))
	harvestStepKernel(c, e, c.N(1500, 20000))
	harvestPinitKernel(c, c.N(200, 2000))
	harvestWitnesses(c, e)
	harvestRunStage(c, e, c.N(10, 100))
}
