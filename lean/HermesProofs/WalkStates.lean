/-
`walk_states` — forward ("symbolic execution") reasoning over a translated kernel.

After `unfold <kernel>; extract_lets` the goal's context holds every intermediate state of the Go function as a let-bound
local (`s✝ : St ℚ := { t with … }` or `:= if c then a else b`).  Zeta-reducing them into one term is exponential in the
number of sequential `if`s; `walk_states [P₁, …, Pₙ] by tac` instead visits the states in program order and adds, for each
state `x`, one fact `Pᵢ x` — the first `i` (list the strongest / latest phase first) for which one of these works:

* `x := { t with … }` and `Pᵢ t` is known: `Pᵢ x` by the same proof when the statement does not touch what `Pᵢ` speaks
  about (definitional unfolding of `x`);
* `x := if c then a else b` and `Pᵢ a`, `Pᵢ b` are known for the same `i`: `Pᵢ x` by `ite_pred`; if the context has a hypothesis
  that is syntactically `c` (or `¬ c`), `Pᵢ a` (or `Pᵢ b`) is enough (`ite_pos_pred`, `ite_neg_pred`);
* otherwise the first `Pᵢ x` that `tac` proves (a step lemma for the statement that changes the phase, a join lemma); the
  fact known about the predecessor state (for a join: about the unchanged branch) is in `tac`'s context as `hprev`.

All unification happens at *reducible* transparency, and the predicates are ordinary (not reducible) definitions: two facts with
different predicates, or two different states compared field by field, must fail to unify at once instead of unfolding the
arithmetic of `ℚ` (a numeral against `a - b` sends `whnf` into `Rat.sub`). Only the frame rule unfolds the predicates, explicitly.
States for which nothing is provable are skipped.  This is proof *search*: everything it adds is an ordinary proof term
checked by the kernel; nothing here is trusted.
-/
import Lean

namespace Hermes

theorem ite_pred {σ : Type} (P : σ → Prop) {c : Prop} [Decidable c] {a b : σ} (ha : P a) (hb : P b) :
    P (if c then a else b) := by
  split <;> assumption

theorem ite_pos_pred {σ : Type} (P : σ → Prop) {c : Prop} [Decidable c] {a b : σ} (hc : c) (ha : P a) :
    P (if c then a else b) := by
  rw [if_pos hc]; exact ha

theorem ite_neg_pred {σ : Type} (P : σ → Prop) {c : Prop} [Decidable c] {a b : σ} (hc : ¬ c) (hb : P b) :
    P (if c then a else b) := by
  rw [if_neg hc]; exact hb

end Hermes

open Lean Meta in
/-- unfold the user's predicates (Prop-valued definitions of this project's proof files) inside `e`, nothing else -/
private partial def expandPreds (e : Expr) (fuel : Nat := 8) : MetaM Expr := do
  let env ← getEnv
  let isPred (n : Name) : Bool :=
    match env.find? n with
    | some (.defnInfo d) =>
      d.type.getForallBody.isProp &&
        (match env.getModuleIdxFor? n with
         | none => true
         | some idx => (env.header.moduleNames[idx.toNat]!).getRoot.toString.startsWith "Hermes")
    | _ => false
  let e' ← deltaExpand e isPred
  let e' ← Core.betaReduce e'
  if fuel == 0 || e' == e then pure e' else expandPreds e' (fuel - 1)

open Lean Elab Tactic Meta in
private def isStTy (ty : Expr) : Bool :=
  ty.getAppFn.isConst && ty.getAppFn.constName!.getString! == "St"

open Lean Elab Tactic Meta in
elab "walk_states " "[" preds:term,* "]" " by " tac:tacticSeq : tactic => do
  let decls ← withMainContext do pure ((← getLCtx).decls.toList.filterMap id)
  let predStx := preds.getElems
  -- state ↦ (index of the predicate, proof)
  let mut facts : Array (FVarId × Nat × Expr) := #[]
  for d in decls do
    unless isStTy (← instantiateMVars d.type) do continue
    let x := d.fvarId
    -- the initial state(s) are not let-bound: only the user's tactic applies (value `x` itself)
    let v ← if d.isLet then instantiateMVars d.value else pure (mkFVar x)
    let found : Option (Nat × Expr × Expr) ← withMainContext do
      let predEs ← predStx.mapM (fun p => elabTerm p none)
      let goalOf (i : Nat) : Expr := (mkApp predEs[i]! (mkFVar x)).headBeta
      let look (y : Expr) : Option (Nat × Expr) :=
        if y.isFVar then (facts.find? (fun f => f.1 == y.fvarId!)).map (fun f => f.2) else none
      let prevFact : Option (Nat × Expr) :=
        if v.isAppOfArity ``ite 5 then
          (look (v.getArg! 4)).orElse fun _ => look (v.getArg! 3)
        else if d.isLet then
          (collectFVars {} v).fvarIds.findSome? fun y => look (mkFVar y)
        else none
      -- the predicates are tried in the order given: list the strongest (latest phase) first
      for i in [0:predEs.size] do
        -- 1. join of two states with the same fact; or a branch decided by a hypothesis of the context
        if v.isAppOfArity ``ite 5 then
          let cond := v.getArg! 1
          for hd in (← getLCtx) do
            if hd.isLet || hd.isImplementationDetail then continue
            let hty ← instantiateMVars hd.type
            if hty == cond then
              match look (v.getArg! 3) with
              | some (ia, ha) =>
                if ia == i then
                  let pr ← mkAppOptM ``Hermes.ite_pos_pred #[none, some predEs[i]!, some cond, some (v.getArg! 2), some (v.getArg! 3), some (v.getArg! 4), some hd.toExpr, some ha]
                  return some (i, goalOf i, pr)
              | none => pure ()
            else if hty == mkNot cond then
              match look (v.getArg! 4) with
              | some (ib, hb) =>
                if ib == i then
                  let pr ← mkAppOptM ``Hermes.ite_neg_pred #[none, some predEs[i]!, some cond, some (v.getArg! 2), some (v.getArg! 3), some (v.getArg! 4), some hd.toExpr, some hb]
                  return some (i, goalOf i, pr)
              | none => pure ()
          match look (v.getArg! 3), look (v.getArg! 4) with
          | some (ia, ha), some (ib, hb) =>
            if ia == i && ib == i then
              try
                let pr ← mkAppOptM ``Hermes.ite_pred #[none, some predEs[i]!, some (v.getArg! 1), some (v.getArg! 2), some (v.getArg! 3), some (v.getArg! 4), some ha, some hb]
                if ← withReducible (isDefEq (← inferType pr) (goalOf i)) then
                  return some (i, goalOf i, pr)
              catch _ => pure ()
          | _, _ => pure ()
        else
          -- 2. a statement that does not touch what the known fact of its predecessor speaks about
          match prevFact with
          | some (j, h) =>
            if j == i then
              let s ← saveState
              if ← withReducible (isDefEq (← expandPreds (← inferType h)) (← expandPreds (goalOf i))) then
                return some (i, goalOf i, h)
              s.restore
          | none => pure ()
        -- 3. the user's tactic, with the fact about the predecessor state (for a join: of the unchanged branch) as `hprev`
        let mv ← mkFreshExprSyntheticOpaqueMVar (goalOf i)
        let s ← saveState
        try
          let g0 ← match prevFact with
            | some (_, h) => do
              let g1 ← mv.mvarId!.assert (Name.mkSimple "hprev") (← inferType h) h
              let (_, g2) ← g1.intro1P
              pure g2
            | none => pure mv.mvarId!
          let rest ← Tactic.run g0 (Tactic.withoutRecover (withReducible (evalTactic tac)))
          unless rest.isEmpty do throwError "left goals"
          return some (i, goalOf i, ← instantiateMVars mv)
        catch _ =>
          s.restore
      return none
    match found with
    | none => pure ()
    | some (i, ty, pr) =>
      let g ← getMainGoal
      let g' ← g.assert (← mkFreshUserName `hst) ty pr
      let (h, g'') ← g'.intro1P
      replaceMainGoal [g'']
      facts := facts.push (x, i, mkFVar h)
