#!/usr/bin/env python3
"""Regenerates the table of seeded changes in DESIGN.md (between the SEEDED-TABLE markers) from seeded/*/meta.json."""
import json, os, re
V = os.path.dirname(os.path.dirname(os.path.abspath(__file__)))
rows = []
for d in sorted(os.listdir(os.path.join(V, "seeded"))):
    mp = os.path.join(V, "seeded", d, "meta.json")
    if not os.path.exists(mp):
        continue
    m = json.load(open(mp))
    def cell(x, n):
        x = re.sub(r"\s+", " ", str(x)).replace("|", "\\|")
        return x if len(x) <= n else x[: n - 1] + "…"
    rows.append("| %s | %s | %s | %s |" % (d, cell(m.get("summary", ""), 230), cell(m.get("needs", ""), 200), cell(m.get("check_result", ""), 260)))
table = "| seed | change | needs, to manifest | result of the check |\n|---|---|---|---|\n" + "\n".join(rows) + "\n"
p = os.path.join(V, "DESIGN.md")
s = open(p).read()
a, b = "<!-- SEEDED-TABLE-BEGIN -->", "<!-- SEEDED-TABLE-END -->"
if a in s:
    s = s[: s.index(a) + len(a)] + "\n" + table + s[s.index(b):]
    open(p, "w").write(s)
print("%d seeds in table" % len(rows))
