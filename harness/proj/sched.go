package proj

// Generators for the schedule / rotation checks (C10, C16): date-format switch of a generated
// project, the fixed-column automatic-management table (automan.txt, hermes/input.go:445-545) and a
// management-event output configuration that prints every attribute the code hands over.

import (
	"fmt"
	"os"
	"path/filepath"
	"strings"
)

// SetFormat switches the project to one of the four HERMES date formats (0 DEshort, 1 DElong,
// 2 ENshort, 3 ENlong) and rewrites the two configuration entries that are parsed with the
// configured format: EndDate (6 characters in the short formats) and AnnualOutputDate (DDMM or MMDD).
// annD/annM give the annual output date.
func (p *Project) SetFormat(f int, end Date, annD, annM int) {
	p.DateFmt = f
	p.Cfg["EndDate"] = "\"" + end.Fmt(f) + "\""
	if f >= 2 {
		p.Cfg["AnnualOutputDate"] = fmt.Sprintf("\"%02d%02d\"", annM, annD)
	} else {
		p.Cfg["AnnualOutputDate"] = fmt.Sprintf("\"%02d%02d\"", annD, annM)
	}
}

// AutoEntry is one line of automan.txt. Dates are (month, day); the year is taken by the reader from
// the rotation entry. Sow1M == 0 writes "0000" (fixed sowing date from the rotation file), Har2M == 0
// writes "0000" (latest harvest = rotation harvest date).
type AutoEntry struct {
	Crop               string  `json:"crop"`
	Sow1M, Sow1D       int     // window start
	Sow2M, Sow2D       int     // window end
	Har2M, Har2D       int     // latest harvest
	TSoil              float64 `json:"tsoil"`   // sliding-mean temperature threshold
	TSoilIsMax         bool    `json:"ts_max"`  // "x" flag: threshold is a maximum
	SMoMin, SMoMax     float64 // sowing moisture window (% of available water)
	HMoMin, HMoMax     float64 // harvest moisture window
	RainAv, RainAct    float64 // harvest rain limits (cm)
	TAccu              int     `json:"taccu"` // temperature sum needed before sowing
	TBase              int     `json:"tbase"`
	IrrSt1, IrrSt2     int     // development stages between which automatic irrigation is allowed
	NDem1, NDem2, NDem3 int
	NStage1, NStage2, NStage3 string // "S3" (stage) or "120" (day of year) or "0"
	TWindow            int
	OrgF               string // organic fertiliser code or "---"
	OrgAmount          int
	OrgTime            string // "H" / "S" / "0"
	OrgDoy             int
	IrrLow             int // % of available water below which irrigation starts
	IrrDep             int // cm
	IrrMax             int // mm per day
}

// Line renders the entry in the fixed-column layout the reader indexes (input.go:451-541);
// fmtEN selects MMDD instead of DDMM for the three dates.
func (a AutoEntry) Line(fmtEN bool) string {
	b := []byte(strings.Repeat(" ", 184))
	put := func(pos int, s string) { copy(b[pos:], s) }
	md := func(m, d int) string {
		if m == 0 {
			return "0000"
		}
		if fmtEN {
			return fmt.Sprintf("%02d%02d", m, d)
		}
		return fmt.Sprintf("%02d%02d", d, m)
	}
	put(0, fmt.Sprintf("%-3s", a.Crop))
	put(4, md(a.Sow1M, a.Sow1D))
	put(9, md(a.Sow2M, a.Sow2D))
	put(14, md(a.Har2M, a.Har2D))
	put(19, fmt.Sprintf("%-5.1f", a.TSoil))
	if a.TSoilIsMax {
		put(24, "x")
	}
	put(25, fmt.Sprintf("%5.1f", a.SMoMin))
	put(32, fmt.Sprintf("%5.1f", a.SMoMax))
	put(39, fmt.Sprintf("%5.1f", a.HMoMin))
	put(46, fmt.Sprintf("%5.1f", a.HMoMax))
	put(53, fmt.Sprintf("%4.1f", a.RainAv))
	put(60, fmt.Sprintf("%4.1f", a.RainAct))
	put(68, fmt.Sprintf("%3d", a.TAccu))
	put(74, fmt.Sprintf("%2d", a.TBase))
	put(80, fmt.Sprintf("%1d", a.IrrSt1))
	put(87, fmt.Sprintf("%1d", a.IrrSt2))
	put(94, fmt.Sprintf("%3d", a.NDem1))
	put(100, fmt.Sprintf("%3d", a.NDem2))
	put(106, fmt.Sprintf("%3d", a.NDem3))
	st := func(s string) string {
		if s == "" {
			s = "0"
		}
		return fmt.Sprintf("%-3s", s)
	}
	put(112, st(a.NStage1))
	put(119, st(a.NStage2))
	put(127, st(a.NStage3))
	put(135, fmt.Sprintf("%2d", a.TWindow))
	org := a.OrgF
	if org == "" {
		org = "---"
	}
	put(143, fmt.Sprintf("%-3s", org))
	put(149, fmt.Sprintf("%3d", a.OrgAmount))
	ot := a.OrgTime
	if ot == "" {
		ot = "0"
	}
	put(156, ot)
	put(157, fmt.Sprintf("%02d", a.OrgDoy))
	put(163, fmt.Sprintf("%3d", a.IrrLow))
	put(170, fmt.Sprintf("%3d", a.IrrDep))
	put(177, fmt.Sprintf("%3d", a.IrrMax))
	return string(b)
}

// WriteAutoman overwrites project/<name>/automan.txt with the given entries (call after Write).
func (p *Project) WriteAutoman(root string, entries []AutoEntry) error {
	var b strings.Builder
	b.WriteString("crp Sow1 Sow2 har2 TSmin Smomin Smomax Hmomin Hmomax Rainav Rainact TACCU Tbase Irrdv1 Irrdv2 Ndem1 Ndem2 Ndem3 stage1 stage 2 stage 3 Twindow orgF  amount appdat Irrlow irrdep irrmax\n")
	for _, e := range entries {
		b.WriteString(e.Line(p.DateFmt >= 2))
		b.WriteString("\n")
	}
	return os.WriteFile(filepath.Join(root, "project", p.Name, "automan.txt"), []byte(b.String()), 0o644)
}

// ManagementConf prints every attribute the code attaches to an event (output_management.go,
// nitro.go:40-54, run.go:458-463), all event kinds enabled. Floats with %v (shortest exact text).
const ManagementConf = `eventformats:
  tillage:
    eventname: tillage
    enabled: true
    additionalfields:
      Depth: '%d'
      Type: '%d'
  irrigation:
    eventname: irrigation
    enabled: true
    additionalfields:
      Amount: '%d'
      NO3: '%v'
  sowing:
    eventname: sowing
    enabled: true
    additionalfields:
      Crop: '%s'
  harvest:
    eventname: harvest
    enabled: true
    additionalfields:
      Crop: '%s'
      Residue: '%v'
  fertilization:
    eventname: fertilization
    enabled: true
    additionalfields:
      Fertilizer: '%s'
      Ndirect: '%v'
      NH4: '%v'
seperatorrune: 32
`

// WriteManagementConf overwrites the management output configuration (call after Write).
func (p *Project) WriteManagementConf(root string) error {
	return os.WriteFile(filepath.Join(root, "project", p.Name, "managementout_conf.yml"), []byte(ManagementConf), 0o644)
}

// ShrinkWeather regenerates the weather series for start year … end year + 1 only.
func (p *Project) ShrinkWeather(end Date) {
	p.WeatherStart = Date{p.Start().Y, 1, 1}
	p.WeatherDays = Date{end.Y + 1, 12, 31}.Z() - p.WeatherStart.Z() + 1
	p.GenWeather()
}

// MEvent is one parsed line of the management event file.
type MEvent struct {
	Date  string            // as printed (Kalender, dotted, configured format)
	Kind  string            // tillage | irrigation | sowing | harvest | fertilization
	Attrs map[string]string // attribute → text
}

// ParseMEvents parses the management event file written with ManagementConf.
func ParseMEvents(s string) []MEvent {
	var out []MEvent
	for _, ln := range strings.Split(s, "\n") {
		f := strings.Fields(ln)
		if len(f) < 2 {
			continue
		}
		e := MEvent{Date: f[0], Kind: f[1], Attrs: map[string]string{}}
		for i := 2; i+1 < len(f); i += 2 {
			e.Attrs[strings.TrimSuffix(f[i], ":")] = f[i+1]
		}
		out = append(out, e)
	}
	return out
}

// WriteScheduleStyle rewrites the three schedule files in another valid rendering (call after Write):
// style 1 separates the columns by tabs, style 2 by runs of blanks and appends a comment token to every
// line (the readers split at white space and use the first four tokens); style 0 keeps Write's files.
func (p *Project) WriteScheduleStyle(root string, style int) error {
	if style == 0 {
		return nil
	}
	sep, tail := "\t", ""
	if style == 2 {
		sep, tail = "    ", "   #generated"
	}
	field := func(f string) string {
		if f == "" {
			return p.Field
		}
		return f
	}
	dir := filepath.Join(root, "project", p.Name)
	var b strings.Builder
	b.WriteString("Field_ID  N   Frt date\n")
	for _, e := range p.Fert {
		fmt.Fprintf(&b, "%s%s%d%s%s%s%s%s\n", field(e.Field), sep, e.Amount, sep, e.Kind, sep, e.Date.Fmt(p.DateFmt), tail)
	}
	b.WriteString("end\n")
	if err := os.WriteFile(filepath.Join(dir, "fert_"+p.Name+".txt"), []byte(b.String()), 0o644); err != nil {
		return err
	}
	b.Reset()
	b.WriteString("Field_ID  Ir N03 date\n")
	for _, e := range p.Irr {
		fmt.Fprintf(&b, "%s%s%d%s%d%s%s%s\n", field(e.Field), sep, e.MM, sep, e.Conc, sep, e.Date.Fmt(p.DateFmt), tail)
	}
	b.WriteString("end\n")
	if err := os.WriteFile(filepath.Join(dir, "irr_"+p.Name+".txt"), []byte(b.String()), 0o644); err != nil {
		return err
	}
	b.Reset()
	b.WriteString("Field_ID  Ti Typ date\n          cm\n")
	for _, e := range p.Til {
		fmt.Fprintf(&b, "%s%s%d%s%d%s%s%s\n", field(e.Field), sep, e.Depth, sep, e.Kind, sep, e.Date.Fmt(p.DateFmt), tail)
	}
	b.WriteString("end\n")
	return os.WriteFile(filepath.Join(dir, "til_"+p.Name+".txt"), []byte(b.String()), 0o644)
}
