package main

import (
	"github.com/zalf-rpm/Hermes2Go/hermes"
	"verifharness/vh"
)

// waterSrcImpStage: the Lean translation of the CURRENT source of hermes.Water (regenerated on this run) on the kernel states;
// Water calls no transcendental function, so the comparison is bit for bit (the tolerance only absorbs nothing).
func waterSrcImpStage(c *vh.Ctx, saved []waterCase) {
	var sic []srcImpCase
	for i := range saved {
		if i >= c.N(1500, 20000) {
			break
		}
		wc := saved[i]
		g, l, subd := newWaterState(&wc)
		// crop accumulators: every second case runs with a crop in the ground (zeit > SAAT)
		zeit := 1000
		if i%2 == 1 {
			g.SAAT[0] = 500
		}
		wdt := wc.Wdt
		sic = append(sic, srcImpCase{Recv: map[string]interface{}{"g": g, "l": l},
			Params: map[string]interface{}{"wdt": wdt, "subd": subd, "zeit": zeit},
			Call:   func() { hermes.Water(wdt, subd, zeit, g, l) }, Desc: wc})
	}
	correspondSrcImp(c, "Water", sic, 1e-12, 1e-15)
}

// denitrSrcImpStage: the Lean translation of the current source of hermes.Denitr.
func denitrSrcImpStage(c *vh.Ctx, saved []denitCase) {
	var sic []srcImpCase
	for i := range saved {
		if i >= c.N(1500, 20000) {
			break
		}
		dc := saved[i]
		if dc.Marsh {
			continue
		}
		g := hermes.NewGlobalVarsMain()
		for z := range dc.C {
			g.C1[z] = dc.C[z]
			g.WG[1][z] = dc.Wg[z]
			g.PORGES[z] = dc.Porges[z]
		}
		for z := 0; z < 4; z++ {
			g.TSOIL[0][z] = dc.Tsoil[z]
		}
		g.CUMDENIT = dc.Cumdenit
		fromPorges := i%2 == 1
		gp := &g
		sic = append(sic, srcImpCase{Recv: map[string]interface{}{"g": gp},
			Params: map[string]interface{}{"thetasatFromPorges": fromPorges},
			Call:   func() { hermes.Denitr(gp, fromPorges) }, Desc: dc})
	}
	correspondSrcImp(c, "Denitr", sic, 1e-9, 1e-12)
}

// nmoveSrcImpStage: the Lean translation of the current source of nmove (nitro.go) on the kernel states.
func nmoveSrcImpStage(c *vh.Ctx, saved []nmoveCase) {
	var sic []srcImpCase
	for i := range saved {
		if i >= c.N(1500, 20000) {
			break
		}
		nc := saved[i]
		g, l, subd := newNmoveState(&nc)
		wdt := nc.Wdt
		sic = append(sic, srcImpCase{Recv: map[string]interface{}{"g": g, "l": l},
			Params: map[string]interface{}{"wdt": wdt, "subd": subd, "zeit": nmoveZeit},
			Call:   func() { hermes.VerifNmove(wdt, subd, nmoveZeit, g, l) }, Desc: nc})
	}
	correspondSrcImp(c, "nmove", sic, 1e-9, 1e-12)
}

// mineralSrcImpStage: the Lean translation of the current source of mineral (nitro.go) on the kernel states.
func mineralSrcImpStage(c *vh.Ctx, saved []mineralCase) {
	var sic []srcImpCase
	for i := range saved {
		if i >= c.N(1500, 20000) {
			break
		}
		mc := saved[i]
		g, l := setupMineral(&mc)
		gp, lp := &g, &l
		sic = append(sic, srcImpCase{Recv: map[string]interface{}{"g": gp, "l": lp}, Params: map[string]interface{}{},
			Call: func() { hermes.VerifMineral(gp, lp) }, Desc: mc})
	}
	correspondSrcImp(c, "mineral", sic, 1e-9, 1e-12)
}
