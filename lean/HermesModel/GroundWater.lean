/-
Model of the groundwater level of a day (C20):

* `GetGroundWaterLevel`                       hermes/soil.go:734-765  → `getLevel`
* mean and amplitude from the polygon file    hermes/input.go:68-73   → `gwMean`, `gwAmpl`
* the daily sinusoid                          hermes/run.go:361, hermes/init.go:12 → `sinArg`, `sinusLevel`

A series is the list of the records of the series file in file order: (day number, level).
`GWTimestamps` is the list of the first components, `GWTimeSeriesValues` the Go map built from the
records (a later record of the same day overwrites the earlier one).  Day numbers are natural
numbers (the day-number origin is 1, see C12); the Go code uses the value 0 as "no neighbour".
Polymorphic in the arithmetic (see Num.lean); `sin` is an input of the model.  Core Lean only.
-/
import HermesModel.Num
namespace Hermes.GroundWater

/-- Go `float64(i)` for an int that may be negative (GRLO − GRHI) -/
class IntConv (α : Type) where
  ofInt : Int → α

instance : IntConv Float where
  ofInt i := Float.ofInt i

section
variable {α : Type}

/-- `g.GWTimeSeriesValues[date]` with the comma-ok flag: the last record of the day -/
def mapGet : List (Nat × α) → Nat → Option α
  | [], _ => none
  | (d, v) :: r, date =>
    match mapGet r date with
    | some w => some w
    | none => if d = date then some v else none

/-- soil.go:744-752: `for _, d := range g.GWTimestamps { if d < date { prevDate = d } else if d > date
{ nextDate = d; break } }`, started with `prev` and nextDate = 0.  Result (prevDate, nextDate). -/
def neighbours (date : Nat) : List Nat → Nat → Nat × Nat
  | [], prev => (prev, 0)
  | d :: ds, prev =>
    if d < date then neighbours date ds d
    else if date < d then (prev, d)
    else neighbours date ds prev

variable [Add α] [Sub α] [Mul α] [Div α] [OfNat α 0] [Conv α]

/-- soil.go:763: the interpolation formula in the operation order of the code -/
def interpolate (p n date : Nat) (vp vn : α) : α :=
  (vn - vp) / Conv.ofNat (n - p) * Conv.ofNat (date - p) + vp

/-- `GetGroundWaterLevel(g, date)`; `none` = the error "no ground water level found" -/
def getLevel (s : List (Nat × α)) (date : Nat) : Option α :=
  match mapGet s date with
  | some l => some l
  | none =>
    let pn := neighbours date (s.map (·.1)) 0
    if pn.1 = 0 ∧ pn.2 = 0 then none
    else if pn.1 = 0 then some ((mapGet s pn.2).getD 0)
    else if pn.2 = 0 then some ((mapGet s pn.1).getD 0)
    else some (interpolate pn.1 pn.2 date ((mapGet s pn.1).getD 0) ((mapGet s pn.2).getD 0))

end

section
variable {α : Type} [Add α] [Sub α] [Mul α] [Div α] [OfNat α 2] [OfNat α 180] [IntConv α]

/-- input.go:71-72: `g.GW = float64(g.GRLO+g.GRHI) / 2` -/
def gwMean (grhi grlo : Int) : α := IntConv.ofInt (grlo + grhi) / 2

/-- input.go:73: `g.AMPL = float64(g.GRLO-g.GRHI) / 2` -/
def gwAmpl (grhi grlo : Int) : α := IntConv.ofInt (grlo - grhi) / 2

/-- run.go:361: `(g.TAG.Num+float64(g.GWPhase))*math.Pi/180` -/
def sinArg (tag : α) (phase : Int) (pi : α) : α := (tag + IntConv.ofInt phase) * pi / 180

/-- run.go:361: `g.GRW = g.GW - (g.AMPL * math.Sin(…))` with the sine value as an input -/
def sinusLevel (gw ampl sinv : α) : α := gw - ampl * sinv

end
end Hermes.GroundWater
