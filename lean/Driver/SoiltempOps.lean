import HermesModel.Proto
import HermesModel.SoilTemp
open Hermes Hermes.Proto

namespace Hermes.Driver

def mkLayers_Soiltemp : List Float → List Float → List Float → List Float → List (SoilTemp.Layer Float)
  | bd :: bds, wg :: wgs, hum :: hums, e :: es => { bd, wg, hum, e } :: mkLayers_Soiltemp bds wgs hums es
  | _, _, _, _ => []

/-- `soiltemp.day N  lai expNegLai rad eta temp tmin tmax sq tbase dt dz  tsoil[N+1] bd[N] wg[N] hum[N] e[N]`
answers `radiat surf td[N+1] tsoil[N+1] cond[N] cap[N]` -/
def soiltempDay (toks : List String) : Option String := do
  let (n, r) ← popNat toks
  let (sc, r) ← popFloats 11 r
  let (tsoil, r) ← popFloats (n + 1) r
  let (bd, r) ← popFloats n r
  let (wg, r) ← popFloats n r
  let (hum, r) ← popFloats n r
  let (e, _) ← popFloats n r
  match sc with
  | [lai, expNegLai, rad, eta, temp, tmin, tmax, sq, tbase, dt, dz] =>
    let i : SoilTemp.DayIn Float :=
      { lai, expNegLai, rad, eta, temp, tmin, tmax, sq, tbase, dt, dz, layers := mkLayers_Soiltemp bd wg hum e }
    let o := SoilTemp.day i tsoil
    some (fmtFloats ([o.radiat, o.surf] ++ o.td ++ o.tsoil ++ o.cond ++ o.cap))
  | _ => none

/-- `soiltemp.node a dt dz2 tm t tp` answers the new node value and the diffusion number -/
def soiltempNode (toks : List String) : Option String := do
  let (sc, _) ← popFloats 6 toks
  match sc with
  | [a, dt, dz2, tm, t, tp] => some (fmtFloats [SoilTemp.node a dt dz2 tm t tp, SoilTemp.diffNum a dt dz2])
  | _ => none

def soiltempOps (toks : List String) : String :=
  match toks with
  | "soiltemp.day" :: rest => (soiltempDay rest).getD "bad-op"
  | "soiltemp.node" :: rest => (soiltempNode rest).getD "bad-op"
  | _ => "bad-op"

end Hermes.Driver
