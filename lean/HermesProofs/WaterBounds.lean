/-
Bounds of the water content after one call of `Water` (model: HermesModel/Water.lean) over ℚ:
per-layer facts about the infiltration cascade, the evaporation cascade with its dryness limit,
the overflow pass and the capillary rise, stated by layer index.
-/
import HermesProofs.Water
import Mathlib.Tactic.Positivity

namespace Hermes.Water

theorem zip3_get : ∀ (a b c : List ℚ) (j : ℕ) (t : ℚ × ℚ × ℚ), (zip3 a b c)[j]? = some t →
    a[j]? = some t.1 ∧ b[j]? = some t.2.1 ∧ c[j]? = some t.2.2 := by
  intro a
  induction a with
  | nil => intro b c j t h; simp [zip3] at h
  | cons x xs ih =>
    intro b c j t h
    cases b with
    | nil => simp [zip3] at h
    | cons y ys =>
      cases c with
      | nil => simp [zip3] at h
      | cons z zs =>
        cases j with
        | zero =>
          simp only [zip3, List.getElem?_cons_zero, Option.some.injEq] at h
          subst h; simp
        | succ j =>
          simp only [zip3, List.getElem?_cons_succ] at h ⊢
          exact ih ys zs j t h

theorem addAt_get (c : ℚ) : ∀ (l : List ℚ) (k j : ℕ),
    (addAt k c l)[j]? = (l[j]?).map (fun x => if j = k then x + c else x) := by
  intro l
  induction l with
  | nil => intro k j; simp [addAt]
  | cons x xs ih =>
    intro k j
    cases k with
    | zero =>
      cases j with
      | zero => simp [addAt]
      | succ j => simp [addAt]
    | succ k =>
      cases j with
      | zero => simp [addAt]
      | succ j => simp only [addAt, List.getElem?_cons_succ, ih]; simp

/-- overflow pass: every layer ends at most at field capacity; it either ends exactly there or
keeps at least what it had (what the layer above pushed down is non-negative). -/
theorem overflow_get (dz : ℚ) (hdz : 0 < dz) : ∀ (l : List (ℚ × ℚ × ℚ)) (carry : Option ℚ) (j : ℕ) (a : ℚ × ℚ),
    (∀ c, carry = some c → 0 ≤ c) → (overflow dz carry l).1[j]? = some a →
    ∃ t, l[j]? = some t ∧ a.1 ≤ t.2.1 * dz ∧ (a.1 = t.2.1 * dz ∨ t.1 ≤ a.1) := by
  intro l
  induction l with
  | nil => intro carry j a _ h; simp [overflow] at h
  | cons hd tl ih =>
    intro carry j a hc h
    obtain ⟨wa0, w, q⟩ := hd
    have key : ∀ (wa : ℚ), wa0 ≤ wa →
        (if w < wa / dz then
            ((w * dz, q + (wa - w * dz)) :: (overflow dz (some (wa - w * dz)) tl).1)
          else ((wa, q) :: (overflow dz none tl).1))[j]? = some a →
        ∃ t, ((wa0, w, q) :: tl)[j]? = some t ∧ a.1 ≤ t.2.1 * dz ∧ (a.1 = t.2.1 * dz ∨ t.1 ≤ a.1) := by
      intro wa hwa h
      split_ifs at h with hlt
      · cases j with
        | zero =>
          simp only [List.getElem?_cons_zero, Option.some.injEq] at h
          subst h
          exact ⟨(wa0, w, q), by simp, le_refl _, Or.inl rfl⟩
        | succ j =>
          simp only [List.getElem?_cons_succ] at h ⊢
          have hs : 0 ≤ wa - w * dz := by
            have := (lt_div_iff₀ hdz).mp hlt
            linarith
          exact ih (some (wa - w * dz)) j a (by intro c hc'; cases hc'; exact hs) h
      · cases j with
        | zero =>
          simp only [List.getElem?_cons_zero, Option.some.injEq] at h
          subst h
          refine ⟨(wa0, w, q), by simp, ?_, Or.inr hwa⟩
          have := not_lt.mp hlt
          exact (div_le_iff₀ hdz).mp this
        | succ j =>
          simp only [List.getElem?_cons_succ] at h ⊢
          exact ih none j a (by intro c hc'; cases hc') h
    cases carry with
    | none =>
      simp only [overflow] at h
      exact key wa0 (le_refl _) (by split_ifs at h ⊢ <;> simpa using h)
    | some c =>
      simp only [overflow] at h
      have hc0 := hc c rfl
      exact key (wa0 + c) (by linarith) (by split_ifs at h ⊢ <;> simpa using h)

/-- infiltration cascade with non-negative inflow: every layer either ends at field capacity or
keeps at least what it had. -/
theorem infil_get (dz : ℚ) (dd : ℕ) (df : ℚ) (hdf0 : 0 ≤ df) (hdf1 : df ≤ 1) :
    ∀ (l : List (ℚ × ℚ)) (a : ℚ) (k j : ℕ) (x : ℚ), 0 ≤ a → (infil dz dd df a k l).1[j]? = some x →
    ∃ t, l[j]? = some t ∧ (x = t.2 * dz ∨ t.1 ≤ x) := by
  intro l
  induction l with
  | nil => intro a k j x _ h; simp [infil] at h
  | cons hd tl ih =>
    intro a k j x ha h
    obtain ⟨wa, w⟩ := hd
    simp only [infil] at h
    by_cases hneg : a + wa - w * dz < 0
    · rw [if_pos hneg] at h
      cases j with
      | zero =>
        simp only [List.getElem?_cons_zero, Option.some.injEq] at h
        exact ⟨(wa, w), by simp, Or.inr (by simp only; linarith)⟩
      | succ j =>
        simp only [List.getElem?_cons_succ, List.getElem?_map] at h ⊢
        cases ht : tl[j]? with
        | none => rw [ht] at h; simp at h
        | some t =>
          rw [ht] at h
          simp only [Option.map_some, Option.some.injEq] at h
          exact ⟨t, rfl, Or.inr (by rw [← h])⟩
    · rw [if_neg hneg] at h
      have ha' : 0 ≤ a + wa - w * dz := not_lt.mp hneg
      have hout : 0 ≤ (if k = dd then (1 - df) * (a + wa - w * dz) else a + wa - w * dz) := by
        split_ifs
        · exact mul_nonneg (by linarith) ha'
        · exact ha'
      generalize (if k = dd then (1 - df) * (a + wa - w * dz) else a + wa - w * dz) = aOut at h hout
      cases j with
      | zero =>
        simp only [List.getElem?_cons_zero, Option.some.injEq] at h
        exact ⟨(wa, w), by simp, Or.inl h.symm⟩
      | succ j =>
        simp only [List.getElem?_cons_succ] at h ⊢
        exact ih aOut (k + 1) j x hout h

/-- what one layer gives to evaporation never takes it below a third of the wilting point -/
theorem evapLayer_limit (dz wdt : ℚ) (carry : Option ℚ) (wa wmin ev0 : ℚ) :
    wmin / 3 * dz ≤ wa - (evapLayer dz wdt carry wa wmin ev0).2.2 := by
  unfold evapLayer
  simp only
  split_ifs with h
  · linarith
  · have := not_lt.mp h
    linarith

/-- evaporation cascade: every layer either ends at or above a third of its wilting point (all
layers the cascade reaches) or is untouched. No hypothesis on signs or magnitudes. -/
theorem evap_get (dz wdt : ℚ) : ∀ (l : List (ℚ × ℚ × ℚ)) (a1 : ℚ) (carry : Option ℚ) (j : ℕ) (x : ℚ),
    (evap dz wdt a1 carry l).1[j]? = some x →
    ∃ t, l[j]? = some t ∧ (t.2.1 / 3 * dz ≤ x ∨ x = t.1) := by
  intro l
  induction l with
  | nil => intro a1 carry j x h; simp [evap] at h
  | cons hd tl ih =>
    intro a1 carry j x h
    obtain ⟨wa, wmin, ev0⟩ := hd
    have hl := evapLayer_limit dz wdt carry wa wmin ev0
    simp only [evap] at h
    generalize evapLayer dz wdt carry wa wmin ev0 = e at h hl
    split_ifs at h with hbr
    · cases j with
      | zero =>
        simp only [List.getElem?_cons_zero, Option.some.injEq] at h
        exact ⟨(wa, wmin, ev0), by simp, Or.inl (by simp only; linarith)⟩
      | succ j =>
        simp only [List.getElem?_cons_succ, List.getElem?_map] at h ⊢
        cases ht : tl[j]? with
        | none => rw [ht] at h; simp at h
        | some t =>
          rw [ht] at h
          simp only [Option.map_some, Option.some.injEq] at h
          exact ⟨t, rfl, Or.inr h.symm⟩
    · cases j with
      | zero =>
        simp only [List.getElem?_cons_zero, Option.some.injEq] at h
        exact ⟨(wa, wmin, ev0), by simp, Or.inl (by simp only; linarith)⟩
      | succ j =>
        simp only [List.getElem?_cons_succ] at h ⊢
        exact ih _ _ j x h

theorem water0_get (dz wdt : ℚ) : ∀ (wg tp : List ℚ) (j : ℕ) (x : ℚ), (water0 dz wdt wg tp)[j]? = some x →
    ∃ g t, wg[j]? = some g ∧ tp[j]? = some t ∧ x = g * dz - t * wdt := by
  intro wg
  induction wg with
  | nil => intro tp j x h; simp [water0] at h
  | cons g gs ih =>
    intro tp j x h
    cases tp with
    | nil => simp [water0] at h
    | cons t ts =>
      cases j with
      | zero =>
        simp only [water0, List.getElem?_cons_zero, Option.some.injEq] at h
        exact ⟨g, t, by simp, by simp, h.symm⟩
      | succ j =>
        simp only [water0, List.getElem?_cons_succ] at h ⊢
        exact ih ts j x h

theorem limitTp_get (dz : ℚ) : ∀ (tp wg wmin : List ℚ) (j : ℕ) (t : ℚ), (limitTp dz tp wg wmin)[j]? = some t →
    ∃ t0 g m, tp[j]? = some t0 ∧ wg[j]? = some g ∧ wmin[j]? = some m ∧
      t = (if (g - m) * dz < t0 then (if g < m then 0 else (g - m) * dz) else t0) := by
  intro tp
  induction tp with
  | nil => intro wg wmin j t h; simp [limitTp] at h
  | cons x xs ih =>
    intro wg wmin j t h
    cases wg with
    | nil => simp [limitTp] at h
    | cons g0 gs =>
      cases wmin with
      | nil => simp [limitTp] at h
      | cons m0 ms =>
        cases j with
        | zero =>
          simp only [limitTp, List.getElem?_cons_zero, Option.some.injEq] at h
          exact ⟨x, g0, m0, by simp, by simp, by simp, h.symm⟩
        | succ j =>
          simp only [limitTp, List.getElem?_cons_succ] at h ⊢
          exact ih gs ms j t h

end Hermes.Water
