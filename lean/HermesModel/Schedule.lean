/-
Model of the scheduled-management bookkeeping of HERMES (core Lean only, executable).

* reading of the fertiliser / tillage / irrigation files in hermes/input.go (`Input`): lines of other
  fields skipped, an event dated before the simulation start is dropped (fertiliser, tillage: by re-using
  its slot and clearing the slot behind the last event; irrigation: once BEGINN is known), dates that are
  not after their predecessor moved to the day after it (state after the fixes C10-1 … C10-3);
* the three cursors: nitro.go:56-69 (fertiliser NDG/ZTDG), nitro.go:245-281 (tillage NTIL/EINTE),
  run.go:451-465 (irrigation NBR/ZTBR) as state machines over ZEIT;
* the fertiliser split `dueng` (input.go:1507-1524), polymorphic over the arithmetic;
* irrigation entering the rain of the day before `Evatra` (run.go:451-453, water.go:477,505).

Day numbers (`ZEIT`, the `masDat` of `Datum`) are `Nat`; the Go arrays are fixed-size and
zero-initialised, they are modelled as lists read with `getD · 0`.
-/
namespace Hermes.Schedule

/-- One data line of a schedule file: does its field id equal the simulated field (`SCHLAG == g.PKT`),
its day number, and the index of the line (stands for the payload: amount, kind, depth …). -/
structure Ev where
  own : Bool
  date : Nat
  id : Nat
  deriving Repr, DecidableEq

/-- State of a reading loop: the slots filled so far (`kept`, in order) and the content of the slot
after them (`stale`): the counter is incremented, the slot written, and the counter decremented again
when the date is before `BEGINN` (input.go:318-320, 659-661, 692-694), so the next event overwrites it. -/
structure ReadSt where
  kept : List Ev := []
  stale : Option Ev := none
  deriving Repr, DecidableEq

/-- The reading loop over the data lines (the nested `for` of input.go:307-323 / 649-664 / 681-697:
lines of other fields only end the inner loop and are discarded). -/
def readLoop (beginn : Nat) : List Ev → ReadSt → ReadSt
  | [], st => st
  | e :: r, st =>
    if !e.own then readLoop beginn r st
    else if e.date < beginn then readLoop beginn r { st with stale := some e }
    else readLoop beginn r { kept := st.kept ++ [e], stale := none }

def read (beginn : Nat) (ls : List Ev) : ReadSt := readLoop beginn ls {}

/-- day numbers in the slots: the kept events; the slot behind them is cleared after the loop
(`EINTE[NRTIL+1] = 0`, `ZTDG[NDu] = 0`, input.go), its payload cells keep the dropped line -/
def keptDates (st : ReadSt) : List Nat := st.kept.map (·.date)

/-- The same-day shift `if D[i+1] <= D[i] { D[i+1] = D[i]+1 }`, sequentially from the front over the
filled slots; `prev` is the (already shifted) predecessor (input.go, tillage and fertiliser readers):
a date that is not after its predecessor moves to the day after the predecessor. -/
def shiftFrom (prev : Nat) : List Nat → List Nat
  | [] => []
  | d :: r =>
    let d' := if d ≤ prev then prev + 1 else d
    d' :: shiftFrom d' r

/-- shift of a list whose first element has no predecessor inside the loop (tillage: `i` starts at 1) -/
def shiftList : List Nat → List Nat
  | [] => []
  | d :: r => d :: shiftFrom d r

/-- `ZTDG[0 …]` after `Input`: slot 0 is the harvest of the pre-crop (= BEGINN), the user events follow
from slot 1 (`NDu := 1`), the shift loop runs over the pairs (0,1) … (NDu-2,NDu-1); then the cleared cell. -/
def fertDates (beginn : Nat) (ls : List Ev) : List Nat :=
  beginn :: (shiftFrom beginn (keptDates (read beginn ls)) ++ [0])

/-- `EINTE[1 …]` after `Input` (tillage slots are 1-based; `EINT`/`TILART` 0-based); then the cleared cell. -/
def tilDates (beginn : Nat) (ls : List Ev) : List Nat :=
  shiftList (keptDates (read beginn ls)) ++ [0]

/-- `BEGINN` as the irrigation reading loop sees it: the irrigation file is read before
`g.BEGINN = g.ERNTE[0]`, so the comparison `ZTBR < BEGINN` inside the loop is made against the zero value
and keeps every line of the field … -/
def irrBeginnAtRead : Nat := 0

/-- … and the events dated before the start are dropped, order kept, right after BEGINN is set
(input.go, behind `g.BEGINN = g.ERNTE[0]`). -/
def irrKept (beginn : Nat) (ls : List Ev) : List Ev :=
  (read irrBeginnAtRead ls).kept.filter fun e => decide (beginn ≤ e.date)

/-- `ZTBR[0 …]` after `Input` (no same-day shift; the cells behind the last event are cleared) -/
def irrDates (beginn : Nat) (ls : List Ev) : List Nat := (irrKept beginn ls).map (·.date)

/-! ### cursors -/

/-- A cursor over an array of execution days: on day `zeit` the pending slot `k` fires iff
`zeit == D[k]`, and the cursor moves on by one (at most one event per day).
Fertiliser: `D[k] = ZTDG[k] + 1` (nitro.go:58), irrigation: `D[k] = ZTBR[k]` with `k = NBR-1`
(run.go:451), tillage: `D[k] = EINTE[k+1] + 1` (nitro.go:245). Result: fired (day, slot) pairs. -/
def runCursor (ds : List Nat) : Nat → List Nat → List (Nat × Nat)
  | _, [] => []
  | k, zeit :: days =>
    if zeit = ds.getD k 0 then (zeit, k) :: runCursor ds (k + 1) days
    else runCursor ds k days

/-- the days `b, b+1, …` (n of them): the loop `for ZEIT := BEGINN; ZEIT <= ENDE; ZEIT++` (run.go:307) -/
def daysFrom (b : Nat) : Nat → List Nat
  | 0 => []
  | n + 1 => b :: daysFrom (b + 1) n

/-- execution days of the fertiliser slots: `zeit == ZTDG[NDG]+1` -/
def fertExecDays (ztdg : List Nat) : List Nat := ztdg.map (· + 1)
/-- execution days of the tillage slots: `zeit == EINTE[NTIL+1]+1` (argument: `EINTE[1 …]`) -/
def tilExecDays (einte1 : List Nat) : List Nat := einte1.map (· + 1)

/-- The tillage cursor with the postponement of nitro.go:233-239: when the pending tillage date is
reached while a crop with automatic harvest is standing (`SAAT[AKF] > 0 && ERNTE[AKF] == 0`, only
possible with AutoHarvest) the date moves on by two days. `pending zeit` is that condition.
State: `NTIL`, `EINTE[1 …]`. -/
def runTillage (pending : Nat → Bool) : Nat → List Nat → List Nat → List (Nat × Nat)
  | _, _, [] => []
  | k, einte, zeit :: days =>
    let d := einte.getD k 0
    let einte' := if zeit = d && pending zeit then einte.set k (d + 2) else einte
    if zeit = einte'.getD k 0 + 1 then (zeit, k) :: runTillage pending (k + 1) einte' days
    else runTillage pending k einte' days

/-- nitro.go (tillage step): the mixing and the management event are inside `if g.EINT[NTIL] > 0`, the
increment `g.NTIL.Inc()` is behind it — a tillage line of depth 0 is carried out as "nothing", moves the
cursor like any other line (`runTillage` does not look at the depth) and writes no event. Fertiliser lines
with amount 0 and irrigation lines with 0 mm are not treated specially (event written, amounts 0). -/
def tillageLogged (depth : Nat) : Bool := decide (0 < depth)

/-! ### fertiliser split and irrigation (numeric, polymorphic) -/

section
variable {α : Type} [Add α] [Sub α] [Mul α] [Div α] [Neg α] [OfNat α 1] [OfScientific α]

/-- one row of FERTILIZ.TXT: Ntot Ndir Nfst Nslo NH4 Loss -/
structure FertRow (α : Type) where
  ntot : α
  ndir : α
  nfst : α
  nslo : α
  nh4 : α
  loss : α

structure FertSplit (α : Type) where
  ndir : α   -- NDIR: mineral N → DSUMM
  nh4n : α   -- NH4N: ammonium part → NH4Sum
  nsas : α   -- NSAS: fast organic → NFOS[0]
  nlas : α   -- NLAS: slow organic → NAOS[0]

/-- `DGMG = quantity × DUNGSZEN` (input.go:688), then `dueng` (input.go:1514-1520), same operation order. -/
def dueng (quantity factor : α) (t : FertRow α) : FertSplit α :=
  let dgmg := quantity * factor
  let ndir0 := dgmg * t.ntot * t.ndir
  let nh4n := ndir0 * t.nh4 * (1 - t.loss)
  let ndir := ndir0 - ndir0 * t.nh4 * t.loss
  let nsas := (dgmg * t.ntot - ndir) * t.nfst
  let nlas := (dgmg * t.ntot - ndir) * t.nslo
  { ndir, nh4n, nsas, nlas }

/-- pools after the fertiliser step of nitro.go:59-63: (NFOS[0], NAOS[0], DSUMM, NH4Sum) -/
def applyFert (nfos0 naos0 dsumm nh4sum : α) (s : FertSplit α) : α × α × α × α :=
  (nfos0 + s.nsas, naos0 + s.nlas, dsumm + s.ndir, nh4sum + s.nh4n)

/-- run.go:452-453: `EffectiveIRRIG = BREG/10`, `REGEN[TAG] += EffectiveIRRIG` -/
def irrigate (regen breg : α) : α × α :=
  let eff := breg / (10.0 : α)
  (eff, regen + eff)

/-- water.go:477,505 (inside `Evatra`, which runs after the irrigation block):
`EVA = ETA − REGEN[TAG]`, `FLUSS0 = −EVA`. -/
def fluss0 (eta regen : α) : α := -(eta - regen)

end

end Hermes.Schedule
