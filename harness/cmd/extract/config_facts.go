package main

// config_facts — regenerates lean/HermesModel/Generated/ConfigFacts.lean from hermes/config.go (C14):
//   * the fields of `type Config struct` in declaration order with the kind reflection sees
//     (float64 / int / string / bool, named types resolved to their underlying type),
//   * the default of every field from the composite literal returned by NewDefaultConfig()
//     (absent field = zero value), named constants resolved through the iota blocks,
//   * the spelling table of the on/off keys (featureSwitchStrToID) and the text codecs of the
//     enumeration keys in the YAML file (toID, dateStrToID).
// The Lean model of the configuration overlay imports this table, so a changed default, a new key
// or a new spelling re-checks (or breaks) the C14 theorems and changes the model the
// correspondence stage runs against.

import (
	"bytes"
	"fmt"
	"go/ast"
	"go/token"
	"path/filepath"
	"sort"
	"strconv"
	"strings"
)

func init() { registerExtractor(extractConfigFacts) }

type cfgField struct {
	name, typ, kind, codec, lit, show string
}

func leanStr(s string) string {
	var b strings.Builder
	b.WriteByte('"')
	for _, r := range s {
		switch {
		case r == '"':
			b.WriteString("\\\"")
		case r == '\\':
			b.WriteString("\\\\")
		case r == '\n':
			b.WriteString("\\n")
		case r == '\t':
			b.WriteString("\\t")
		case r < 0x20 || r == 0x7f:
			fmt.Fprintf(&b, "\\x%02x", r)
		default:
			b.WriteRune(r)
		}
	}
	b.WriteByte('"')
	return b.String()
}

// decimalLit turns the text of a Go numeric literal into (mantissa, exp10) with value = mantissa·10^(−exp10).
func decimalLit(txt string) (string, int, bool) {
	txt = strings.ReplaceAll(txt, "_", "")
	e := 0
	if i := strings.IndexAny(txt, "eE"); i >= 0 {
		v, err := strconv.Atoi(txt[i+1:])
		if err != nil {
			return "", 0, false
		}
		e = v
		txt = txt[:i]
	}
	frac := 0
	if i := strings.IndexByte(txt, '.'); i >= 0 {
		frac = len(txt) - i - 1
		txt = txt[:i] + txt[i+1:]
	}
	for _, c := range txt {
		if c < '0' || c > '9' {
			return "", 0, false
		}
	}
	txt = strings.TrimLeft(txt, "0")
	if txt == "" {
		txt = "0"
	}
	exp10 := frac - e
	for exp10 < 0 {
		txt += "0"
		exp10++
	}
	return txt, exp10, true
}

func extractConfigFacts(repo, outDir string, fc *facts) {
	f := parseFile(filepath.Join(repo, "hermes", "config.go"))

	// ---- type declarations: underlying kinds and the Config struct
	underlying := map[string]string{}
	var cfgStruct *ast.StructType
	for _, d := range f.Decls {
		gd, ok := d.(*ast.GenDecl)
		if !ok || gd.Tok != token.TYPE {
			continue
		}
		for _, s := range gd.Specs {
			ts := s.(*ast.TypeSpec)
			switch t := ts.Type.(type) {
			case *ast.Ident:
				underlying[ts.Name.Name] = t.Name
			case *ast.StructType:
				if ts.Name.Name == "Config" {
					cfgStruct = t
				}
			}
		}
	}
	must(cfgStruct != nil, "type Config struct in config.go")

	// ---- constants (iota blocks and plain int constants)
	consts := map[string]int64{}
	constType := map[string]string{}
	for _, d := range f.Decls {
		gd, ok := d.(*ast.GenDecl)
		if !ok || gd.Tok != token.CONST {
			continue
		}
		curType := ""
		iotaMode := false
		for i, s := range gd.Specs {
			vs := s.(*ast.ValueSpec)
			if vs.Type != nil {
				if id, ok := vs.Type.(*ast.Ident); ok {
					curType = id.Name
				}
			}
			if len(vs.Values) == 1 {
				if id, ok := vs.Values[0].(*ast.Ident); ok && id.Name == "iota" {
					iotaMode = true
				} else if bl, ok := vs.Values[0].(*ast.BasicLit); ok && bl.Kind == token.INT {
					v, _ := strconv.ParseInt(bl.Value, 0, 64)
					for _, n := range vs.Names {
						consts[n.Name] = v
						constType[n.Name] = curType
					}
					iotaMode = false
					continue
				} else {
					iotaMode = false
					continue
				}
			}
			if iotaMode {
				for _, n := range vs.Names {
					consts[n.Name] = int64(i)
					constType[n.Name] = curType
				}
			}
		}
	}

	kindOf := func(typ string) string {
		for k := 0; k < 8; k++ {
			switch typ {
			case "float64":
				return "float"
			case "int":
				return "int"
			case "string":
				return "text"
			case "bool":
				return "switch"
			}
			u, ok := underlying[typ]
			if !ok {
				return "other"
			}
			typ = u
		}
		return "other"
	}

	// ---- string-keyed map literals: map[string]T{ "text": value }
	type mapEntry struct {
		key string
		val ast.Expr
	}
	maps := map[string][]mapEntry{}
	mapValType := map[string]string{}
	for _, d := range f.Decls {
		gd, ok := d.(*ast.GenDecl)
		if !ok || gd.Tok != token.VAR {
			continue
		}
		for _, s := range gd.Specs {
			vs := s.(*ast.ValueSpec)
			if len(vs.Names) != 1 || len(vs.Values) != 1 {
				continue
			}
			cl, ok := vs.Values[0].(*ast.CompositeLit)
			if !ok {
				continue
			}
			mt, ok := cl.Type.(*ast.MapType)
			if !ok {
				continue
			}
			kid, ok := mt.Key.(*ast.Ident)
			if !ok || kid.Name != "string" {
				continue
			}
			vid, ok := mt.Value.(*ast.Ident)
			if !ok {
				continue
			}
			var es []mapEntry
			for _, e := range cl.Elts {
				kv, ok := e.(*ast.KeyValueExpr)
				if !ok {
					continue
				}
				bl, ok := kv.Key.(*ast.BasicLit)
				if !ok || bl.Kind != token.STRING {
					continue
				}
				k, err := strconv.Unquote(bl.Value)
				if err != nil {
					continue
				}
				es = append(es, mapEntry{k, kv.Value})
			}
			maps[vs.Names[0].Name] = es
			mapValType[vs.Names[0].Name] = vid.Name
		}
	}
	sw, ok := maps["featureSwitchStrToID"]
	must(ok && len(sw) > 0, "var featureSwitchStrToID map literal in config.go")
	sort.Slice(sw, func(i, j int) bool { return sw[i].key < sw[j].key })
	var swLean, swShow []string
	for _, e := range sw {
		id, ok := e.val.(*ast.Ident)
		must(ok && (id.Name == "true" || id.Name == "false"), "boolean value in featureSwitchStrToID")
		swLean = append(swLean, fmt.Sprintf("(%s, %s)", leanStr(e.key), id.Name))
		swShow = append(swShow, e.key+"="+id.Name)
	}
	// enumeration codecs of the YAML file: type name -> text -> int (the UnmarshalYAML methods index
	// these maps; a missing text gives the zero value)
	codecMaps := map[string]string{} // type name -> map var name
	ast.Inspect(f, func(n ast.Node) bool {
		fd, ok := n.(*ast.FuncDecl)
		if !ok || fd.Name.Name != "UnmarshalYAML" || fd.Recv == nil || len(fd.Recv.List) != 1 {
			return true
		}
		st, ok := fd.Recv.List[0].Type.(*ast.StarExpr)
		if !ok {
			return true
		}
		tid, ok := st.X.(*ast.Ident)
		if !ok {
			return true
		}
		ast.Inspect(fd.Body, func(m ast.Node) bool {
			ie, ok := m.(*ast.IndexExpr)
			if !ok {
				return true
			}
			if id, ok := ie.X.(*ast.Ident); ok {
				if _, isMap := maps[id.Name]; isMap {
					codecMaps[tid.Name] = id.Name
				}
			}
			return true
		})
		return false
	})
	var enumLean []string
	enumTypes := []string{}
	for t := range codecMaps {
		if kindOf(t) == "int" {
			enumTypes = append(enumTypes, t)
		}
	}
	sort.Strings(enumTypes)
	for _, t := range enumTypes {
		es := maps[codecMaps[t]]
		sort.Slice(es, func(i, j int) bool { return es[i].key < es[j].key })
		var parts, show []string
		for _, e := range es {
			id, ok := e.val.(*ast.Ident)
			must(ok, "constant name as value in "+codecMaps[t])
			v, ok := consts[id.Name]
			must(ok, "constant "+id.Name)
			parts = append(parts, fmt.Sprintf("(%s, %d)", leanStr(e.key), v))
			show = append(show, fmt.Sprintf("%s=%d", e.key, v))
		}
		enumLean = append(enumLean, fmt.Sprintf("  (%s, [%s])", leanStr(t), strings.Join(parts, ", ")))
		fc.Strs["Config.enum."+t] = show
	}
	must(codecMaps["FeatureSwitch"] == "featureSwitchStrToID", "FeatureSwitch.UnmarshalYAML reading featureSwitchStrToID")

	// ---- defaults
	nd := findFunc(f, "NewDefaultConfig")
	must(nd != nil, "func NewDefaultConfig")
	var lit *ast.CompositeLit
	ast.Inspect(nd.Body, func(n ast.Node) bool {
		if rs, ok := n.(*ast.ReturnStmt); ok && len(rs.Results) == 1 {
			if cl, ok := rs.Results[0].(*ast.CompositeLit); ok {
				lit = cl
			}
		}
		return true
	})
	must(lit != nil, "composite literal returned by NewDefaultConfig")
	defaults := map[string]ast.Expr{}
	for _, e := range lit.Elts {
		kv, ok := e.(*ast.KeyValueExpr)
		must(ok, "keyed fields in NewDefaultConfig")
		id, ok := kv.Key.(*ast.Ident)
		must(ok, "field name in NewDefaultConfig")
		defaults[id.Name] = kv.Value
	}

	var fields []cfgField
	seen := map[string]bool{}
	for _, fl := range cfgStruct.Fields.List {
		tid, isIdent := fl.Type.(*ast.Ident)
		typ := "?"
		if isIdent {
			typ = tid.Name
		}
		for _, n := range fl.Names {
			if !n.IsExported() {
				continue // reflection cannot set it; the override skips it (CanSet)
			}
			cf := cfgField{name: n.Name, typ: typ, kind: kindOf(typ)}
			// the key of the YAML file is the field name (the model addresses both layers by one name)
			if fl.Tag != nil {
				tag, _ := strconv.Unquote(fl.Tag.Value)
				if i := strings.Index(tag, "yaml:\""); i >= 0 {
					yn := tag[i+6:]
					yn = yn[:strings.IndexAny(yn, ",\"")]
					must(yn == n.Name, "yaml key equal to the field name for "+n.Name+" (found "+yn+")")
				}
			}
			if _, ok := codecMaps[typ]; ok && cf.kind == "int" {
				cf.codec = typ
			}
			def, has := defaults[n.Name]
			seen[n.Name] = true
			neg := false
			if ue, ok := def.(*ast.UnaryExpr); ok && has && (ue.Op == token.SUB || ue.Op == token.ADD) {
				neg = ue.Op == token.SUB
				def = ue.X
			}
			switch cf.kind {
			case "float":
				m, e10 := "0", 0
				if has {
					bl, ok := def.(*ast.BasicLit)
					must(ok && (bl.Kind == token.FLOAT || bl.Kind == token.INT), "numeric literal as default of "+n.Name)
					var ok2 bool
					m, e10, ok2 = decimalLit(bl.Value)
					must(ok2, "decimal literal as default of "+n.Name)
				}
				cf.lit = fmt.Sprintf(".float %v %s %d", neg, m, e10)
				cf.show = fmt.Sprintf("%s%se-%d", map[bool]string{true: "-", false: ""}[neg], m, e10)
			case "int":
				v := int64(0)
				if has {
					switch x := def.(type) {
					case *ast.BasicLit:
						must(x.Kind == token.INT, "integer literal as default of "+n.Name)
						v, _ = strconv.ParseInt(x.Value, 0, 64)
					case *ast.Ident:
						c, ok := consts[x.Name]
						must(ok, "constant "+x.Name+" as default of "+n.Name)
						v = c
					default:
						must(false, "integer default of "+n.Name)
					}
				}
				if neg {
					v = -v
				}
				cf.lit = fmt.Sprintf(".int (%d)", v)
				cf.show = fmt.Sprint(v)
			case "text":
				s := ""
				if has {
					bl, ok := def.(*ast.BasicLit)
					must(ok && bl.Kind == token.STRING, "string literal as default of "+n.Name)
					var err error
					s, err = strconv.Unquote(bl.Value)
					must(err == nil, "string literal as default of "+n.Name)
				}
				cf.lit = ".text " + leanStr(s)
				cf.show = strconv.Quote(s)
			case "switch":
				b := "false"
				if has {
					id, ok := def.(*ast.Ident)
					must(ok && (id.Name == "true" || id.Name == "false"), "boolean default of "+n.Name)
					b = id.Name
				}
				cf.lit = ".switch " + b
				cf.show = b
			default:
				cf.lit = ".other"
				cf.show = "other"
			}
			fields = append(fields, cf)
		}
	}
	for k := range defaults {
		must(seen[k], "Config field for the default of "+k)
	}
	must(len(fields) > 0, "fields of Config")

	var b bytes.Buffer
	b.WriteString("/- GENERATED by harness/cmd/extract (config_facts.go) from hermes/config.go — do not edit. -/\n")
	b.WriteString("import HermesModel.ConfigLit\nnamespace Hermes.Generated\nopen Hermes.Config (CfgLit)\n\n")
	b.WriteString("/-- fields of `type Config struct` in declaration order: name, default of `NewDefaultConfig()`\n(kind as reflection sees it), name of the text codec of the YAML file (\"\" = plain scalar) -/\n")
	b.WriteString("def configFields : List (String × CfgLit × String) := [\n")
	var show []string
	for i, cf := range fields {
		sep := ","
		if i == len(fields)-1 {
			sep = ""
		}
		fmt.Fprintf(&b, "  (%s, %s, %s)%s\n", leanStr(cf.name), cf.lit, leanStr(cf.codec), sep)
		show = append(show, cf.name+":"+cf.kind+":"+cf.show)
	}
	b.WriteString("]\n\n/-- text → value tables of the enumeration keys (`UnmarshalYAML`; a text not listed gives 0) -/\n")
	b.WriteString("def configEnums : List (String × List (String × Int)) := [\n" + strings.Join(enumLean, ",\n") + "\n]\n\n")
	b.WriteString("/-- `featureSwitchStrToID`: the spellings of the on/off keys (sorted by text) -/\n")
	b.WriteString("def switchSpellings : List (String × Bool) := [" + strings.Join(swLean, ", ") + "]\n\nend Hermes.Generated\n")
	if outDir != "" {
		writeIfChanged(filepath.Join(outDir, "ConfigFacts.lean"), b.Bytes())
	}
	fc.Strs["Config.fields"] = show
	fc.Strs["Config.switchSpellings"] = swShow
	fc.Scalars["Config.numFields"] = strconv.Itoa(len(fields))
}
