package main

import (
	"fmt"
	"os"
	"path/filepath"
	"strings"

	"verifharness/proj"
	"verifharness/vh"
)

// c05SessionPairs: the records of a run are complete and in order also when another run of the SAME
// project (same output configuration files) overlaps it in the same session — the situation of a
// batch file with several lines per project and -concurrent > 1. Each overlapping line must write
// exactly the result files it writes alone.
func c05SessionPairs(c *vh.Ctx) {
	root := filepath.Join(c.Scratch, "pairs")
	os.MkdirAll(root, 0o755)
	n := c.N(12, 150)
	differ := func(a, b string) string {
		la, lb := strings.Split(a, "\n"), strings.Split(b, "\n")
		for i := 0; i < len(la) && i < len(lb); i++ {
			if la[i] != lb[i] {
				return fmt.Sprintf("record %d: alone %q, overlapped %q", i, la[i], lb[i])
			}
		}
		return fmt.Sprintf("%d records alone, %d overlapped", len(la), len(lb))
	}
	for k := 0; k < n; k++ {
		cs := c05GenCase(c.Rng.Fork(), fmt.Sprintf("q%d", k))
		p := cs.Project
		if err := p.Write(root, c.Repo); err != nil {
			c.Violate("correspondence", "run:write", err.Error(), nil)
			return
		}
		dir := filepath.Join(root, "project", p.Name)
		os.WriteFile(filepath.Join(dir, "dailyout_conf.yml"), []byte(cs.Daily.YAML()), 0o644)
		os.WriteFile(filepath.Join(dir, "yearlyout_conf.yml"), []byte(cs.Yearly.YAML()), 0o644)
		os.WriteFile(filepath.Join(dir, "cropout_conf.yml"), []byte(cs.Crop.YAML()), 0o644)
		// three lines of the same project that differ in the polygon id (= result file names) and,
		// for the third, in the end date (a shorter window)
		mk := func(poly string, extra ...string) []string {
			var a []string
			for _, t := range p.BatchArgs() {
				if !strings.HasPrefix(t, "poligonID=") {
					a = append(a, t)
				}
			}
			return append(append(a, "poligonID="+poly), extra...)
		}
		short := p.End().AddDays(-200)
		if short.Z() <= p.Start().Z()+30 {
			short = p.End()
		}
		fmtEnd := short.Fmt(1)
		if p.DateFmt == 2 || p.DateFmt == 3 {
			fmtEnd = short.Fmt(3)
		}
		lines := [][]string{mk("A" + p.Name), mk("B" + p.Name), mk("S"+p.Name, "EndDate="+fmtEnd)}
		var alone []*proj.MemOut
		ok := true
		for _, l := range lines {
			mo, rs := proj.RunSession(root, [][]string{l}, false)
			if rs[0].Err != nil || rs[0].Panic != "" {
				ok = false
			}
			alone = append(alone, mo)
		}
		if !ok {
			c.Count("P:run-failed")
			os.RemoveAll(dir)
			continue
		}
		both, rs := proj.RunSession(root, lines, true)
		c.Eval()
		c.Count("P:overlapping-lines-of-one-project")
		for i, r := range rs {
			if r.Panic != "" || r.Err != nil {
				c.Violate("search", "session-pair:run-failed", fmt.Sprintf("line %d of three overlapping lines of one project fails (err=%v panic=%s) although it runs alone", i+1, r.Err, r.Panic), map[string]interface{}{"case": cs, "lines": lines})
			}
		}
		for i := range lines {
			for name, buf := range alone[i].Files {
				got, have := both.Files[name]
				if !have {
					c.Violate("search", "session-pair:missing-file:"+name[:1], fmt.Sprintf("result file %s of line %d is not written when other lines of the project overlap", name, i+1), map[string]interface{}{"case": cs, "lines": lines})
					continue
				}
				if got.String() != buf.String() {
					c.Violate("search", "session-pair:records-differ:"+name[:1], fmt.Sprintf("result file %s of line %d differs when other lines of the same project overlap in the session: %s", name, i+1, differ(buf.String(), got.String())), map[string]interface{}{"case": cs, "lines": lines})
				}
			}
		}
		c.Nontrivial(fmt.Sprintf("pair:%d", k))
		os.RemoveAll(dir)
		os.RemoveAll(filepath.Join(root, "weather"))
	}
}
