/-
Lemmas over ℚ for `C07_dissolved_le_applied…` (HermesProps/C07.lean): the moisture factor of the
frozen branch of `mineral`, the invariants UMS ≤ DSUMM and NH4UMS ≤ NH4Sum through one layer, through
the layer loop and through any sequence of fertiliser applications, `mineral` calls and measurement
days (HermesModel/FertPool.lean).
-/
import HermesProofs.Mineral
import HermesModel.FertPool
namespace Hermes.Mineral
open Hermes.Nitro

/-- The moisture factor of the frozen branch (nitro.go:663-676) is in [0,1] as soon as the wilting
point lies below the threshold WRED whenever the `WG < WRED` branch is taken (the branch has no
`WG > WMIN` test and no upper clamp). -/
theorem miredCold_unit (wg w wred wmin porges : ℚ) (h : wg < wred → wmin < wred) :
    0 ≤ miredCold wg w wred wmin porges ∧ miredCold wg w wred wmin porges ≤ 1 := by
  unfold miredCold
  have hm : (if wg < w ∧ wred < wg then (1 : ℚ)
           else if wg < wred then (wg - wmin) / (wred - wmin)
           else if w + 0.01 < wg ∧ wg < porges then (porges - wg) / (porges - w)
           else if porges < wg then 0
           else 1) ≤ 1 := by
    split_ifs with h1 h2 h3 h4
    · exact le_refl _
    · have := h h2
      rw [div_le_one (by linarith)]; linarith
    · obtain ⟨a, b⟩ := h3
      have : (0 : ℚ) < 0.01 := by norm_num
      rw [div_le_one (by linarith)]; linarith
    · norm_num
    · exact le_refl _
  generalize (if wg < w ∧ wred < wg then (1 : ℚ)
           else if wg < wred then (wg - wmin) / (wred - wmin)
           else if w + 0.01 < wg ∧ wg < porges then (porges - wg) / (porges - w)
           else if porges < wg then 0
           else 1) = m at hm
  simp only
  split_ifs <;> constructor <;> linarith

/-- the dissolution step `x + 0.4·m·(D − x)` with `m ∈ [0,1]` keeps `x ≤ D` and does not decrease `x` -/
theorem dissolve_step (m x D : ℚ) (m0 : 0 ≤ m) (m1 : m ≤ 1) (h : x ≤ D) :
    x + 0.4 * m * (D - x) ≤ D ∧ x ≤ x + 0.4 * m * (D - x) := by
  have e1 : (0.4 : ℚ) * m * (D - x) ≤ D - x := by nlinarith
  have e2 : (0 : ℚ) ≤ 0.4 * m * (D - x) := by
    have : (0 : ℚ) ≤ 0.4 * m := by positivity
    exact mul_nonneg this (by linarith)
  constructor <;> linarith

/-- what the frozen branch needs of the top layer: if the `WG < WRED` formula is used, the wilting
point is below WRED -/
def FrozenOrd (wred : ℚ) (L : Layer ℚ) : Prop :=
  ¬ 0 < (L.tdLo + L.tdUp) / 2 → L.wg < wred → L.wmin < wred

instance (wred : ℚ) (L : Layer ℚ) : Decidable (FrozenOrd wred L) := by unfold FrozenOrd; infer_instance

/-- UMS ≤ DSUMM and NH4UMS ≤ NH4Sum through one layer, every temperature -/
theorem layer_dissolved (top : Bool) (dsumm nh4sum wred : ℚ) (L : Layer ℚ) (a : Acc ℚ)
    (hord : top = true → FrozenOrd wred L) (h1 : a.ums ≤ dsumm) (h2 : a.nh4ums ≤ nh4sum) :
    (layer top dsumm nh4sum wred L a).2.ums ≤ dsumm ∧ a.ums ≤ (layer top dsumm nh4sum wred L a).2.ums ∧
    (layer top dsumm nh4sum wred L a).2.nh4ums ≤ nh4sum ∧ a.nh4ums ≤ (layer top dsumm nh4sum wred L a).2.nh4ums := by
  unfold layer
  by_cases hw : 0 < (L.tdLo + L.tdUp) / 2
  · simp only [hw, if_true]
    obtain ⟨m0, m1⟩ := miredWarm_unit L.wg L.wnor wred L.wmin L.porges
    generalize miredWarm L.wg L.wnor wred L.wmin L.porges = m at m0 m1
    cases top
    · simp; exact ⟨h1, h2⟩
    · simp only [if_true]
      obtain ⟨a1, a2⟩ := dissolve_step m a.ums dsumm m0 m1 h1
      obtain ⟨b1, b2⟩ := dissolve_step m a.nh4ums nh4sum m0 m1 h2
      exact ⟨a1, a2, b1, b2⟩
  · simp only [hw, if_false]
    cases top
    · simp; exact ⟨h1, h2⟩
    · simp only [if_true]
      obtain ⟨m0, m1⟩ := miredCold_unit L.wg L.w wred L.wmin L.porges (hord rfl hw)
      generalize miredCold L.wg L.w wred L.wmin L.porges = m at m0 m1
      obtain ⟨a1, a2⟩ := dissolve_step m a.ums dsumm m0 m1 h1
      obtain ⟨b1, b2⟩ := dissolve_step m a.nh4ums nh4sum m0 m1 h2
      exact ⟨a1, a2, b1, b2⟩

/-- the loop over the mineralisation layers (any number of layers) -/
theorem go_dissolved (dsumm nh4sum wred : ℚ) : ∀ (ls : List (Layer ℚ)) (top : Bool) (a : Acc ℚ),
    (top = true → ∀ L ∈ ls.head?, FrozenOrd wred L) → a.ums ≤ dsumm → a.nh4ums ≤ nh4sum →
    (go dsumm nh4sum wred top ls a).2.ums ≤ dsumm ∧ a.ums ≤ (go dsumm nh4sum wred top ls a).2.ums ∧
    (go dsumm nh4sum wred top ls a).2.nh4ums ≤ nh4sum ∧ a.nh4ums ≤ (go dsumm nh4sum wred top ls a).2.nh4ums := by
  intro ls
  induction ls with
  | nil => intro top a _ h1 h2; exact ⟨h1, le_refl _, h2, le_refl _⟩
  | cons L rest ih =>
    intro top a hord h1 h2
    obtain ⟨a1, a2, a3, a4⟩ := layer_dissolved top dsumm nh4sum wred L a
      (fun ht => hord ht L (by simp)) h1 h2
    obtain ⟨b1, b2, b3, b4⟩ := ih false (layer top dsumm nh4sum wred L a).2 (fun h => by simp at h) a1 a3
    simp only [go]
    exact ⟨b1, le_trans a2 b2, b3, le_trans a4 b4⟩

end Hermes.Mineral

namespace Hermes.FertPool
open Hermes.Mineral

/-- the invariant: dissolved ≤ applied, nitrified ≤ ammonium applied -/
def Inv (p : Pool ℚ) : Prop := p.acc.ums ≤ p.dsumm ∧ p.acc.nh4ums ≤ p.nh4sum

/-- admissible events: applications add non-negative amounts; in a `mineral` call the top layer
satisfies `FrozenOrd` (only matters when it is frozen and drier than WRED) -/
def EvOk : Ev ℚ → Prop
  | .fert nd nh => 0 ≤ nd ∧ 0 ≤ nh
  | .mineral wred ls => ∀ L ∈ ls.head?, FrozenOrd wred L
  | .measure => True

theorem apply_inv (p : Pool ℚ) (e : Ev ℚ) (he : EvOk e) (h : Inv p) : Inv (apply p e) := by
  obtain ⟨h1, h2⟩ := h
  cases e with
  | fert nd nh =>
    obtain ⟨a, b⟩ := he
    exact ⟨by show p.acc.ums ≤ p.dsumm + nd; linarith, by show p.acc.nh4ums ≤ p.nh4sum + nh; linarith⟩
  | mineral wred ls =>
    obtain ⟨a1, _, a3, _⟩ := go_dissolved p.dsumm p.nh4sum wred ls true p.acc (fun _ => he) h1 h2
    exact ⟨a1, a3⟩
  | measure =>
    exact ⟨by show (0 : ℚ) ≤ 0; exact le_refl _, h2⟩

theorem runEvs_inv : ∀ (evs : List (Ev ℚ)) (p : Pool ℚ), (∀ e ∈ evs, EvOk e) → Inv p → Inv (runEvs p evs) := by
  intro evs
  induction evs with
  | nil => intro p _ h; exact h
  | cons e es ih =>
    intro p hok h
    exact ih (apply p e) (fun x hx => hok x (List.mem_cons_of_mem _ hx)) (apply_inv p e (hok e (List.mem_cons_self ..)) h)

/-- … and after every single event on the way -/
theorem trace_inv : ∀ (evs : List (Ev ℚ)) (p : Pool ℚ), (∀ e ∈ evs, EvOk e) → Inv p → ∀ q ∈ trace p evs, Inv q := by
  intro evs
  induction evs with
  | nil => intro p _ _ q hq; simp [trace] at hq
  | cons e es ih =>
    intro p hok h q hq
    have h1 := apply_inv p e (hok e (List.mem_cons_self ..)) h
    simp only [trace, List.mem_cons] at hq
    rcases hq with rfl | hq
    · exact h1
    · exact ih (apply p e) (fun x hx => hok x (List.mem_cons_of_mem _ hx)) h1 q hq

end Hermes.FertPool
