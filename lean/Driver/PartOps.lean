import HermesModel.Proto
import HermesModel.Partition
open Hermes Hermes.Proto

namespace Hermes.Driver

def chunksOf (k : Nat) (l : List Nat) : Nat → List (List Nat)
  | 0 => []
  | fuel + 1 => if l.isEmpty then [] else l.take k :: chunksOf k (l.drop k) fuel

def partOps (toks : List String) : String :=
  open Hermes.Partition in
  match toks with
  | ["part.size", l, n] =>
    match l.toNat?, n.toNat? with
    | some l, some n => toString (size l n)
    | _, _ => "bad-op"
  | ["part.list", l, n] =>
    match l.toNat?, n.toNat? with
    | some l, some n =>
      let rs := ranges l n
      if rs.isEmpty then "(empty)" else " ".intercalate (rs.map fun r => s!"{r.1}-{r.2}")
    | _, _ => "bad-op"
  | ["part.sel", a, b, n] =>
    match a.toNat?, b.toNat?, n.toNat? with
    | some a, some b, some n =>
      let xs := selected a b n
      if xs.isEmpty then "(empty)" else " ".intercalate (xs.map toString)
    | _, _, _ => "bad-op"
  | "part.count" :: k :: bytes =>
    match k.toNat? with
    | some k =>
      let bs := bytes.filterMap String.toNat?
      if bs.length != bytes.length || k == 0 then "bad-op" else
      let cnt := lineCounter false (chunksOf k bs (bs.length + 1))
      let exe := (scannerLines bs).length
      s!"{cnt} {exe}"
    | none => "bad-op"
  | _ => "bad-op"

end Hermes.Driver
