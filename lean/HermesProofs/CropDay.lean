/-
Lemmas about the crop-day model (HermesModel/CropDay.lean) over ℚ: signs of the photosynthesis chain of
`radia`, maintenance shares, N-content functions, the uptake distribution over the rooted layers.
-/
import HermesProofs.Crop
import HermesModel.CropDay
import Mathlib.Algebra.Order.BigOperators.Group.List
import Mathlib.Algebra.BigOperators.Group.List.Basic
import Mathlib.Algebra.BigOperators.Ring.List

namespace Hermes.CropDay
open Hermes.Crop

/-! ### helpers -/

theorem sumFrom_eq (z : ℚ) : ∀ l : List ℚ, sumFrom z l = z + l.sum := by
  intro l
  induction l generalizing z with
  | nil => simp [sumFrom]
  | cons x xs ih => simp only [sumFrom, List.sum_cons]; rw [ih]; ring

theorem isZero_iff (x : ℚ) : isZero x = true ↔ x = 0 := by
  simp only [isZero, Bool.and_eq_true, Bool.not_eq_true', decide_eq_false_iff_not, not_lt]
  constructor
  · intro h; linarith [h.1, h.2]
  · intro h; subst h; simp

theorem miFix_pos (m : ℚ) (h : 0 ≤ m) : 0 < miFix m := by
  simp only [miFix]
  split_ifs with hz
  · norm_num
  · rcases lt_or_eq_of_le h with h1 | h1
    · exact h1
    · exact absurd ((isZero_iff m).mpr h1.symm) hz

theorem minMax_nonneg (a b : ℚ) (ha : 0 ≤ a) (hb : 0 ≤ b) : 0 ≤ (minMax a b).1 ∧ 0 ≤ (minMax a b).2 := by
  simp only [minMax]; split_ifs <;> exact ⟨by assumption, by assumption⟩

theorem negDiv_nonpos (ma mi : ℚ) (h1 : 0 ≤ ma) (h2 : 0 < mi) : negDiv ma mi ≤ 0 := by
  simp only [negDiv]
  exact div_nonpos_of_nonpos_of_nonneg (by linarith) (le_of_lt h2)

/-! ### radia: hypotheses = ranges of the inputs and of the transcendental functions -/

/-- What the proofs about `radia` assume of its inputs. The first group are sign conditions on the state
and the weather; `co2` says that the CO2 compensation point 17.5·2^((T−10)/10) of CO2 method 1 lies below
the CO2 concentration (it is 198 ppm at 45 °C); the rest are the ranges of the library functions on the
arguments the model hands to them: sin of the solar elevation at noon ∈ (0,1] on a day with daylight, log ≥ 0
on [1,∞), exp ∈ (0,1] on (−∞,0], 2^x > 0. -/
structure RadiaRange (i : RadiaIn ℚ) (t : RadiaT ℚ) : Prop where
  dle : 0 ≤ i.dle
  drc : 0 ≤ i.drc
  lai : 0 ≤ i.lai
  sund : 0 ≤ i.sund
  trrel : 0 ≤ i.trrel
  worg : ∀ w ∈ i.worg, (0 : ℚ) ≤ w
  mairt : ∀ m ∈ i.mairt, (0 : ℚ) ≤ m
  co2 : i.co2meth = 1 → 0 < t.pow2co ∧ 17.5 * t.pow2co ≤ i.co2konz
  sslae : 0 < t.sslae ∧ t.sslae ≤ 1
  logX : 1 ≤ argX i t → 0 ≤ t.logX
  logY : 1 ≤ argY i t → 0 ≤ t.logY
  e8 : -0.8 * i.lai ≤ 0 → 0 < t.e8 ∧ t.e8 ≤ 1
  eC : argC i t ≤ 0 → 0 < t.eC ∧ t.eC ≤ 1
  eO : argO i t ≤ 0 → 0 < t.eO ∧ t.eO ≤ 1
  teff : 0 < t.teff

theorem amaxOf_ge (i : RadiaIn ℚ) (t : RadiaT ℚ) : 0.1 ≤ amaxOf i t := by
  simp only [amaxOf]; split_ifs <;> linarith

theorem dleOf_pos (i : RadiaIn ℚ) (hdl : 0 < i.dl) (hdle : 0 ≤ i.dle) : 0 < dleOf i := by
  simp only [dleOf]
  split_ifs with h
  · norm_num
  · rcases lt_or_eq_of_le hdle with h1 | h1
    · exact h1
    · exact absurd ⟨(isZero_iff _).mpr h1.symm, hdl⟩ h

theorem effOf_nonneg (i : RadiaIn ℚ) (t : RadiaT ℚ) (h : i.co2meth = 1 → 0 < t.pow2co ∧ 17.5 * t.pow2co ≤ i.co2konz) :
    0 ≤ effOf i t := by
  simp only [effOf]
  split_ifs with h1
  · have hc := h h1
    have hcc : cocompOf i t = 17.5 * t.pow2co := by simp [cocompOf, h1]
    rw [hcc]
    have hp : (0 : ℚ) < 17.5 * t.pow2co := by have := hc.1; positivity
    have : 0 ≤ (i.co2konz - 17.5 * t.pow2co) / (i.co2konz + 2.0 * (17.5 * t.pow2co)) :=
      div_nonneg (by linarith [hc.2]) (by linarith [hc.2])
    positivity
  · norm_num

theorem effe_nonneg (i : RadiaIn ℚ) (t : RadiaT ℚ) (h : i.co2meth = 1 → 0 < t.pow2co ∧ 17.5 * t.pow2co ≤ i.co2konz) :
    0 ≤ effe i t := by
  have := effOf_nonneg i t h
  simp only [effe]
  have h2 : (0 : ℚ) ≤ 1 - 0.08 := by norm_num
  positivity

section chain
variable (i : RadiaIn ℚ) (t : RadiaT ℚ) (r : RadiaRange i t) (hdl : 0 < i.dl)
include r hdl

theorem argX_ge_one : 1 ≤ argX i t := by
  have ha := amaxOf_ge i t
  have hd := dleOf_pos i hdl r.dle
  have he := effe_nonneg i t r.co2
  have hs := r.sslae.1
  have hdrc := r.drc
  simp only [argX]
  have : 0 ≤ 0.45 * i.drc / (dleOf i * 3600.0) * effe i t / (t.sslae * amaxOf i t) := by
    have h1 : 0 < amaxOf i t := by linarith
    positivity
  linarith

theorem argY_ge_one : 1 ≤ argY i t := by
  have ha := amaxOf_ge i t
  have hd := dleOf_pos i hdl r.dle
  have he := effe_nonneg i t r.co2
  have hs : 0 < 5.0 - t.sslae := by have := r.sslae.2; norm_num; linarith
  have hdrc := r.drc
  simp only [argY]
  have : 0 ≤ 0.55 * i.drc / (dleOf i * 3600.0) * effe i t / ((5.0 - t.sslae) * amaxOf i t) := by
    have h1 : 0 < amaxOf i t := by linarith
    positivity
  linarith

theorem phch_ge : 20.5 ≤ phch i t := by
  have ha : 0 < amaxOf i t := by linarith [amaxOf_ge i t]
  have hd := dleOf_pos i hdl r.dle
  have hx := r.logX (argX_ge_one i t r hdl)
  have hy := r.logY (argY_ge_one i t r hdl)
  have hs := r.sslae.1
  have hs5 : 0 < 5.0 - t.sslae := by have := r.sslae.2; norm_num; linarith
  simp only [phch]
  have h1 : 0 ≤ t.sslae * amaxOf i t * dleOf i * t.logX / (1 + t.logX) := by positivity
  have h2 : 0 ≤ (5.0 - t.sslae) * amaxOf i t * dleOf i * t.logY / (1 + t.logY) := by positivity
  nlinarith

omit hdl in
theorem e8_range : 0 < t.e8 ∧ t.e8 ≤ 1 := r.e8 (by have := r.lai; nlinarith)

theorem phc3_nonneg : 0 ≤ phc3 i t := by
  have h := phch_ge i t r hdl
  have he := e8_range i t r
  simp only [phc3]
  have : 0 ≤ 1 - t.e8 := by linarith [he.2]
  have : 0 ≤ phch i t := by linarith
  positivity

theorem phc4_nonneg : 0 ≤ phc4 i t := by
  have ha : 0 < amaxOf i t := by linarith [amaxOf_ge i t]
  have := r.lai
  simp only [phc4]
  positivity

theorem argC_nonpos : argC i t ≤ 0 := by
  have h := minMax_nonneg _ _ (phc3_nonneg i t r hdl) (phc4_nonneg i t r hdl)
  simp only [argC]
  exact negDiv_nonpos _ _ h.2 (miFix_pos _ h.1)

theorem phcl_nonneg : 0 ≤ phcl i t := by
  have h := minMax_nonneg _ _ (phc3_nonneg i t r hdl) (phc4_nonneg i t r hdl)
  have he := r.eC (argC_nonpos i t r hdl)
  have hm := miFix_pos _ h.1
  simp only [phcl]
  have : 0 ≤ 1 - t.eC := by linarith [he.2]
  positivity

theorem zOf_nonneg : 0 ≤ zOf i t := by
  have ha : 0 < amaxOf i t := by linarith [amaxOf_ge i t]
  have hd := dleOf_pos i hdl r.dle
  have he := effe_nonneg i t r.co2
  have hdrc := r.drc
  simp only [zOf]
  positivity

theorem phoh_ge : 1.1 ≤ phoh i t := by
  have ha : 0 < amaxOf i t := by linarith [amaxOf_ge i t]
  have hd := dleOf_pos i hdl r.dle
  have hz := zOf_nonneg i t r hdl
  simp only [phoh]
  have : 0 ≤ 5.0 * amaxOf i t * dleOf i * zOf i t / (1 + zOf i t) := by positivity
  nlinarith

theorem pho3_nonneg : 0 ≤ pho3 i t := by
  have h := phoh_ge i t r hdl
  have he := e8_range i t r
  simp only [pho3]
  have : 0 ≤ 1 - t.e8 := by linarith [he.2]
  have : 0 ≤ phoh i t := by linarith
  positivity

theorem argO_nonpos : argO i t ≤ 0 := by
  have h := minMax_nonneg _ _ (pho3_nonneg i t r hdl) (phc4_nonneg i t r hdl)
  simp only [argO]
  exact negDiv_nonpos _ _ h.2 (miFix_pos _ h.1)

theorem phol_nonneg : 0 ≤ phol i t := by
  have h := minMax_nonneg _ _ (pho3_nonneg i t r hdl) (phc4_nonneg i t r hdl)
  have he := r.eO (argO_nonpos i t r hdl)
  have hm := miFix_pos _ h.1
  simp only [phol]
  have : 0 ≤ 1 - t.eO := by linarith [he.2]
  positivity

theorem dgac_nonneg : 0 ≤ dgac i t := by
  simp only [dgac]
  split_ifs
  · exact phcl_nonneg i t r hdl
  · linarith [phch_ge i t r hdl]

theorem dgao_nonneg : 0 ≤ dgao i t := by
  simp only [dgao]
  split_ifs
  · exact phol_nonneg i t r hdl
  · linarith [phoh_ge i t r hdl]

theorem sundClamp_range : 0 ≤ sundClamp i ∧ sundClamp i ≤ dleOf i := by
  have hd := dleOf_pos i hdl r.dle
  have hs := r.sund
  simp only [sundClamp]
  split_ifs with h
  · exact ⟨le_of_lt hd, le_refl _⟩
  · exact ⟨hs, not_lt.mp h⟩

/-- DTGA is a convex combination of DGAC and DGAO -/
theorem dtga_nonneg : 0 ≤ dtga i t := by
  have hc := dgac_nonneg i t r hdl
  have ho := dgao_nonneg i t r hdl
  simp only [dtga]
  split_ifs
  · have hd := dleOf_pos i hdl r.dle
    have hs := sundClamp_range i t r hdl
    have h1 : 0 ≤ sundClamp i / dleOf i := div_nonneg hs.1 (le_of_lt hd)
    have h2 : sundClamp i / dleOf i ≤ 1 := by rw [div_le_one hd]; exact hs.2
    have : 0 ≤ 1 - sundClamp i / dleOf i := by linarith
    positivity
  · have hf := clamp01_unit ((i.drc - 1000000.0 * i.rad * 1) / (0.8 * i.drc))
    simp only [fov]
    have : 0 ≤ 1 - clamp01 ((i.drc - 1000000.0 * i.rad * 1) / (0.8 * i.drc)) := by linarith [hf.2]
    have := hf.1
    positivity

theorem gphot0_nonneg : 0 ≤ gphot0 i t := by
  have h := dtga_nonneg i t r hdl
  have ht := r.trrel
  simp only [gphot0]
  split_ifs <;> positivity

end chain

theorem zipMul_nonneg : ∀ (a b : List ℚ), (∀ x ∈ a, (0 : ℚ) ≤ x) → (∀ x ∈ b, (0 : ℚ) ≤ x) →
    ∀ x ∈ List.zipWith (· * ·) a b, (0 : ℚ) ≤ x := by
  intro a
  induction a with
  | nil => intro b _ _ x hx; simp at hx
  | cons a0 as ih =>
    intro b ha hb x hx
    cases b with
    | nil => simp at hx
    | cons b0 bs =>
      simp only [List.zipWith_cons_cons, List.mem_cons] at hx
      rcases hx with hx | hx
      · rw [hx]; exact mul_nonneg (ha a0 (by simp)) (hb b0 (by simp))
      · exact ih bs (fun y hy => ha y (by simp [hy])) (fun y hy => hb y (by simp [hy])) x hx

theorem maints_nonneg (i : RadiaIn ℚ) (hw : ∀ w ∈ i.worg, (0 : ℚ) ≤ w) (hm : ∀ m ∈ i.mairt, (0 : ℚ) ≤ m) : 0 ≤ maints i := by
  simp only [maints, mainorg, sumFrom_eq, zero_add]
  exact List.sum_nonneg (zipMul_nonneg _ _ hw hm)

theorem maint0_range (i : RadiaIn ℚ) (t : RadiaT ℚ) (r : RadiaRange i t) (hdl : 0 < i.dl) :
    0 ≤ maint0 i t ∧ maint0 i t ≤ gphot0 i t := by
  have hg := gphot0_nonneg i t r hdl
  have hm := maints_nonneg i r.worg r.mairt
  have ht := r.teff
  simp only [maint0]
  split_ifs with h
  · exact ⟨hg, le_refl _⟩
  · exact ⟨by positivity, not_lt.mp h⟩

/-- the result of `radia`: 0 ≤ MAINT ≤ GPHOT -/
theorem radia_signs (i : RadiaIn ℚ) (t : RadiaT ℚ) (r : RadiaRange i t) :
    0 ≤ (radia i t).maint ∧ (radia i t).maint ≤ (radia i t).gphot := by
  by_cases hdl : i.dl ≤ 0
  · simp [radia, hdl]
  · have h := maint0_range i t r (not_le.mp hdl)
    simp only [radia, if_neg hdl]
    by_cases hT : i.temp < i.mintmp
    · simp only [if_pos hT]; exact ⟨h.1, le_refl _⟩
    · simp only [if_neg hT]; exact h

/-! ### maintenance shares -/

theorem mant_props (i : RadiaIn ℚ) (hw : ∀ w ∈ i.worg, (0 : ℚ) ≤ w) (hm : ∀ m ∈ i.mairt, (0 : ℚ) ≤ m) (hs : 0 < maints i) :
    (∀ x ∈ mant i, 0 ≤ x ∧ x ≤ 1) ∧ (mant i).sum = 1 := by
  have hnn := zipMul_nonneg _ _ hw hm
  have hsum : maints i = (mainorg i).sum := by simp [maints, sumFrom_eq]
  constructor
  · intro x hx
    simp only [mant, List.mem_map] at hx
    obtain ⟨y, hy, rfl⟩ := hx
    have hy0 : 0 ≤ y := hnn y hy
    have hyle : y ≤ (mainorg i).sum := List.single_le_sum hnn y hy
    refine ⟨div_nonneg hy0 (le_of_lt hs), ?_⟩
    rw [div_le_one hs, hsum]; exact hyle
  · simp only [mant]
    have : (List.map (fun x => x / maints i) (mainorg i)) = List.map (fun x => x * (maints i)⁻¹) (mainorg i) := by
      apply List.map_congr_left; intro a _; rw [div_eq_mul_inv]
    rw [this, List.sum_map_mul_right, List.map_id', ← hsum]
    exact mul_inv_cancel₀ (ne_of_gt hs)

/-! ### uptake distribution -/

theorem pi_pos : (0 : ℚ) < (pi : ℚ) := by simp only [pi]; norm_num

theorem peClamp_nonneg (c1 pe : ℚ) : 0 ≤ peClamp c1 pe := by
  simp only [peClamp]; split_ifs <;> linarith

theorem peClamp_le_avail (c1 pe : ℚ) : peClamp c1 pe ≤ max 0 (c1 - 0.75) := by
  simp only [peClamp]
  split_ifs with h1 h2 h2
  · exact le_max_left _ _
  · exact le_max_right _ _
  · exact le_max_left _ _
  · exact le_trans (not_lt.mp h1) (le_max_right _ _)

theorem peClamp_le_self (c1 pe : ℚ) (h : 0 ≤ pe) : peClamp c1 pe ≤ pe := by
  simp only [peClamp]
  split_ifs <;> linarith

theorem peOne_nonneg (d trn sd : ℚ) (m : ℚ × ℚ × ℚ) : 0 ≤ peOne d trn sd m := by
  simp only [peOne]; split_ifs
  · exact peClamp_nonneg _ _
  · exact le_refl _

theorem peOne_le_avail (d trn sd : ℚ) (m : ℚ × ℚ × ℚ) : peOne d trn sd m ≤ max 0 (m.1 - 0.75) := by
  simp only [peOne]; split_ifs
  · exact peClamp_le_avail _ _
  · exact le_max_left _ _

/-- per rooted layer: 0 ≤ PE ≤ max(0, C1 − 0.75), whatever the demand and the potential uptake are -/
theorem pe_forall₂ (dt dz d trn sd : ℚ) : ∀ (ls : List (ULayer ℚ)) (idx : ℕ),
    List.Forall₂ (fun p (l : ULayer ℚ) => 0 ≤ p ∧ p ≤ max 0 (l.c1 - 0.75)) ((massDiff dt dz idx ls).map (peOne d trn sd)) ls := by
  intro ls
  induction ls with
  | nil => intro idx; simp [massDiff]
  | cons l rest ih =>
    intro idx
    simp only [massDiff, List.map_cons]
    refine List.Forall₂.cons ⟨peOne_nonneg _ _ _ _, ?_⟩ (ih (idx + 1))
    have := peOne_le_avail d trn sd (if idx + 1 < 11 then (l.c1, massOf dt dz l, diffOf dt l) else (l.c1, 0, 0))
    split_ifs at this ⊢ <;> simpa using this

theorem massDiff_length (dt dz : ℚ) : ∀ (ls : List (ULayer ℚ)) (idx : ℕ), (massDiff dt dz idx ls).length = ls.length := by
  intro ls
  induction ls with
  | nil => intro idx; simp [massDiff]
  | cons l rest ih => intro idx; simp [massDiff, ih]

/-- what the sum bound needs of a rooted layer: a valid soil state — non-negative water uptake, non-negative mineral
N, positive water content (then the mass-flow term is ≥ 0; the diffusion term is ≥ 0 by its floor) -/
structure LayerOk (l : ULayer ℚ) : Prop where
  tp : 0 ≤ l.tp
  c1 : 0 ≤ l.c1
  wg : 0 < l.wg

theorem massOf_nonneg (dt dz : ℚ) (l : ULayer ℚ) (h : LayerOk l) (hdt : 0 ≤ dt) (hdz : 0 < dz) : 0 ≤ massOf dt dz l := by
  have hwg := h.wg
  have hc := h.c1
  have := h.tp
  simp only [massOf]
  positivity

/-- the diffusion term is never negative (floor 0), for every state -/
theorem diffOf_nonneg (dt : ℚ) (l : ULayer ℚ) : 0 ≤ diffOf dt l := by
  simp only [diffOf]
  split_ifs with h
  · exact le_refl _
  · exact not_lt.mp h

theorem massDiff_nonneg (dt dz : ℚ) (hdt : 0 ≤ dt) (hdz : 0 < dz) : ∀ (ls : List (ULayer ℚ)) (idx : ℕ), (∀ l ∈ ls, LayerOk l) →
    ∀ m ∈ massDiff dt dz idx ls, 0 ≤ m.2.1 ∧ 0 ≤ m.2.2 := by
  intro ls
  induction ls with
  | nil => intro idx _ m hm; simp [massDiff] at hm
  | cons l rest ih =>
    intro idx hl m hm
    simp only [massDiff, List.mem_cons] at hm
    rcases hm with hm | hm
    · rw [hm]
      split_ifs
      · exact ⟨massOf_nonneg dt dz l (hl l (by simp)) hdt hdz, diffOf_nonneg dt l⟩
      · exact ⟨le_refl _, le_refl _⟩
    · exact ih (idx + 1) (fun x hx => hl x (by simp [hx])) m hm

theorem pePre_nonneg (d trn sd : ℚ) (m : ℚ × ℚ × ℚ) (hd : 0 < d) (h1 : 0 ≤ m.2.1) (h2 : 0 ≤ m.2.2) : 0 ≤ pePre d trn sd m := by
  simp only [pePre]
  split_ifs with ha hb
  · have : 0 < trn := lt_of_lt_of_le hd ha
    positivity
  · have h3 : 0 < d - trn := by linarith
    have h4 : 0 < sd := by linarith
    positivity
  · linarith

/-- Σ of the shares before the limits is at most the demand, when all MASS, DIFF are ≥ 0 -/
theorem sum_pePre_le (d : ℚ) (md : List (ℚ × ℚ × ℚ)) (hd : 0 < d) :
    (md.map (pePre d (md.map (·.2.1)).sum (md.map (·.2.2)).sum)).sum ≤ d := by
  set trn := (md.map (·.2.1)).sum with htrn
  set sd := (md.map (·.2.2)).sum with hsd
  by_cases ha : d ≤ trn
  · have hpos : 0 < trn := lt_of_lt_of_le hd ha
    have : md.map (pePre d trn sd) = md.map (fun m => d * trn⁻¹ * m.2.1) := by
      apply List.map_congr_left; intro m _; simp only [pePre, if_pos ha]; field_simp
    rw [this, List.sum_map_mul_left, ← htrn]
    have : d * trn⁻¹ * trn = d := by field_simp
    linarith
  · by_cases hb : d - trn < sd
    · have hsdpos : 0 < sd := by linarith
      have : md.map (pePre d trn sd) = md.map (fun m => m.2.1 + (d - trn) * sd⁻¹ * m.2.2) := by
        apply List.map_congr_left; intro m _; simp only [pePre, if_neg ha, if_pos hb]; field_simp
      rw [this, List.sum_map_add, List.sum_map_mul_left, ← htrn, ← hsd]
      have : (d - trn) * sd⁻¹ * sd = d - trn := by field_simp
      linarith
    · have : md.map (pePre d trn sd) = md.map (fun m => m.2.1 + m.2.2) := by
        apply List.map_congr_left; intro m _; simp only [pePre, if_neg ha, if_neg hb]
      rw [this, List.sum_map_add, ← htrn, ← hsd]
      linarith

theorem sum_peOne_le (d : ℚ) (md : List (ℚ × ℚ × ℚ)) (h : ∀ m ∈ md, 0 ≤ m.2.1 ∧ 0 ≤ m.2.2) :
    (md.map (peOne d (md.map (·.2.1)).sum (md.map (·.2.2)).sum)).sum ≤ max d 0 := by
  by_cases hd : 0 < d
  · refine le_trans ?_ (le_trans (sum_pePre_le d md hd) (le_max_left _ _))
    apply List.sum_le_sum
    intro m hm
    simp only [peOne, if_pos hd]
    exact peClamp_le_self _ _ (pePre_nonneg _ _ _ _ hd (h m hm).1 (h m hm).2)
  · have : md.map (peOne d (md.map (·.2.1)).sum (md.map (·.2.2)).sum) = md.map (fun _ => (0 : ℚ)) := by
      apply List.map_congr_left; intro m _; simp only [peOne, if_neg hd]
    rw [this]
    simp

/-- SUMPE ≤ max(DTGESN, 0) for the rooted layers `ls` when every layer is `LayerOk` -/
theorem uptakeCore_sum_le (legum : Bool) (dt dz d massum diffsum : ℚ) (ls : List (ULayer ℚ)) (hdt : 0 ≤ dt) (hdz : 0 < dz)
    (h : ∀ l ∈ ls, LayerOk l) : (uptakeCore legum dt dz d massum diffsum ls).sumpe ≤ max d 0 := by
  simp only [uptakeCore, trnsumOf, sumdiffOf, sumFrom_eq, zero_add]
  exact sum_peOne_le d _ (massDiff_nonneg dt dz hdt hdz ls 0 h)

theorem uptakeCore_sumpe_nonneg (legum : Bool) (dt dz d massum diffsum : ℚ) (ls : List (ULayer ℚ)) :
    0 ≤ (uptakeCore legum dt dz d massum diffsum ls).sumpe := by
  simp only [uptakeCore, sumFrom_eq, zero_add]
  apply List.sum_nonneg
  intro x hx
  simp only [List.mem_map] at hx
  obtain ⟨m, _, rfl⟩ := hx
  exact peOne_nonneg _ _ _ _

theorem uptakeCore_pe_length (legum : Bool) (dt dz d massum diffsum : ℚ) (ls : List (ULayer ℚ)) :
    (uptakeCore legum dt dz d massum diffsum ls).pe.length = ls.length := by
  simp [uptakeCore, massDiff_length]

/-! ### the layers `uptakeDay` builds -/

theorem wradOf_pos (beet : Bool) (i : ℕ) : (0 : ℚ) < wradOf beet i := by
  simp only [wradOf]
  split_ifs with h1 h2
  · norm_num
  · norm_num
  · exact not_le.mp h2

theorem rootLayers_nonneg (beet : Bool) (wumas dz : ℚ) (hdz : 0 < dz) : ∀ (eqs : List (ℚ × ℚ)) (i : ℕ) (prev : ℚ),
    ∀ x ∈ rootLayers beet wumas dz i prev eqs, 0 ≤ x.1 := by
  intro eqs
  induction eqs with
  | nil => intro i prev x hx; simp [rootLayers] at hx
  | cons e rest ih =>
    intro i prev x hx
    obtain ⟨e1, e2⟩ := e
    simp only [rootLayers, List.mem_cons] at hx
    rcases hx with hx | hx
    · rw [hx]
      have hw := wradOf_pos beet i
      have hpi := pi_pos
      have habs : ∀ y : ℚ, 0 ≤ fabs y := by intro y; simp only [fabs]; split_ifs <;> linarith
      have h1 := habs (rfw wumas e1 - prev)
      have h2 := habs (rfw wumas e1)
      dsimp only
      split_ifs <;> positivity
    · exact ih _ _ x hx

theorem mkLayers_ok (beet : Bool) : ∀ (ss : List (SoilL ℚ)) (i : ℕ) (rs : List (ℚ × ℚ)) (qs : List ℚ),
    (∀ s ∈ ss, 0 ≤ s.tp ∧ 0 ≤ s.c1 ∧ 0 < s.wg) → ∀ l ∈ mkLayers beet i ss rs qs, LayerOk l := by
  intro ss
  induction ss with
  | nil => intro i rs qs _ l hl; simp [mkLayers] at hl
  | cons s rest ih =>
    intro i rs qs hs l hl
    cases rs with
    | nil => simp [mkLayers] at hl
    | cons r rs' =>
      cases qs with
      | nil => simp [mkLayers] at hl
      | cons q qs' =>
        obtain ⟨den, ant⟩ := r
        simp only [mkLayers, List.mem_cons] at hl
        rcases hl with hl | hl
        · rw [hl]
          have h := hs s (by simp)
          exact ⟨h.1, h.2.1, h.2.2⟩
        · exact ih (i + 1) rs' qs' (fun x hx => hs x (by simp [hx])) l hl

/-- the rooted layers carry the mineral N of the soil layers, in order -/
theorem mkLayers_c1 (beet : Bool) : ∀ (ss : List (SoilL ℚ)) (i : ℕ) (rs : List (ℚ × ℚ)) (qs : List ℚ),
    List.Forall₂ (fun (l : ULayer ℚ) (s : SoilL ℚ) => l.c1 = s.c1) (mkLayers beet i ss rs qs) (ss.take (mkLayers beet i ss rs qs).length) := by
  intro ss
  induction ss with
  | nil => intro i rs qs; simp [mkLayers]
  | cons s rest ih =>
    intro i rs qs
    cases rs with
    | nil => simp [mkLayers]
    | cons r rs' =>
      cases qs with
      | nil => simp [mkLayers]
      | cons q qs' =>
        obtain ⟨den, ant⟩ := r
        simp only [mkLayers, List.length_cons, List.take_succ_cons]
        exact List.Forall₂.cons rfl (ih (i + 1) rs' qs')

theorem mkLayers_length_le (beet : Bool) : ∀ (ss : List (SoilL ℚ)) (i : ℕ) (rs : List (ℚ × ℚ)) (qs : List ℚ),
    (mkLayers beet i ss rs qs).length ≤ ss.length := by
  intro ss
  induction ss with
  | nil => intro i rs qs; simp [mkLayers]
  | cons s rest ih =>
    intro i rs qs
    cases rs with
    | nil => simp [mkLayers]
    | cons r rs' =>
      cases qs with
      | nil => simp [mkLayers]
      | cons q qs' =>
        obtain ⟨den, ant⟩ := r
        simp only [mkLayers, List.length_cons]
        have := ih (i + 1) rs' qs'
        omega

/-! ### demand -/

theorem demandClamp_range (dt d : ℚ) (hdt : 0 ≤ dt) : 0 ≤ demandClamp dt d ∧ demandClamp dt d ≤ 6.0 * dt ∧ demandClamp dt d ≤ max d 0 := by
  simp only [demandClamp]
  have h6 : (0 : ℚ) ≤ 6.0 * dt := by positivity
  split_ifs with h1 h2 h2
  · exact ⟨le_refl _, h6, le_max_right _ _⟩
  · exact ⟨not_lt.mp h2, le_refl _, le_trans (le_of_lt h1) (le_max_left _ _)⟩
  · exact ⟨le_refl _, h6, le_max_right _ _⟩
  · exact ⟨not_lt.mp h2, not_lt.mp h1, le_max_left _ _⟩

theorem demandCap_le (legum : Bool) (wulaen mx dt d : ℚ) : demandCap legum wulaen mx dt d ≤ d := by
  simp only [demandCap]
  split_ifs with h
  · exact le_of_lt h.1
  · exact le_refl _

theorem nfixOf_range (legum : Bool) (d sumpe : ℚ) (hd : 0 ≤ d) (h2 : sumpe ≤ d) :
    0 ≤ nfixOf legum d sumpe ∧ nfixOf legum d sumpe ≤ 0.74 * d := by
  simp only [nfixOf]
  split_ifs with hl h
  · exact ⟨by positivity, le_refl _⟩
  · exact ⟨by linarith, not_lt.mp h⟩
  · exact ⟨le_refl _, by positivity⟩

/-! ### dead organ mass, organs 1–3 -/

theorem wdorgUpd_lt (dt w wd d : ℚ) : wdorgUpd dt w wd d < w := by
  simp only [wdorgUpd]
  split_ifs with h
  · norm_num
  · linarith [not_le.mp h]

theorem updLow_pos (dt w g d : ℚ) : 0 < (updLow dt w g d).1 := by
  simp only [updLow]
  split_ifs with h
  · have : w + g * dt - d * dt = w + (g - d) * dt := by ring
    dsimp only
    rw [this]
    have h0 : (0 : ℚ) < 1e-13 := by norm_num
    linarith
  · norm_num

theorem getD_append_lt (l1 l2 : List ℚ) (k : ℕ) (h : k < l1.length) : (l1 ++ l2).getD k 0 = l1.getD k 0 := by
  simp [List.getD_eq_getElem?_getD, List.getElem?_append_left h]

theorem getD_append_len (l1 : List ℚ) (x : ℚ) : (l1 ++ [x]).getD l1.length 0 = x := by
  simp [List.getD_eq_getElem?_getD]

/-- invariant of the organ loop: the loop index is the number of organs written, and the organs 1–3 written so far are > 0 -/
def LowPos (i : ℕ) (st : OrgState ℚ) : Prop :=
  st.worg.length = i ∧ ∀ k, k < 3 → k < st.worg.length → 0 < st.worg.getD k 0

theorem organStep_lowPos (e : OrganEnv ℚ) (gehalt : ℚ) (st : OrgState ℚ) (i : ℕ) (p : OrganPar ℚ) (w dOld : ℚ)
    (h : LowPos i st) : LowPos (i + 1) (organStep e gehalt st i p w dOld) := by
  obtain ⟨hlen, hpos⟩ := h
  simp only [organStep, LowPos]
  constructor
  · simp [hlen]
  · intro k hk3 hklen
    simp only [List.length_append, List.length_singleton] at hklen
    by_cases hk : k < st.worg.length
    · rw [getD_append_lt _ _ _ hk]
      exact hpos k hk3 hk
    · have hke : k = st.worg.length := by omega
      have hi3 : i < 3 := by omega
      rw [hke, getD_append_len, if_pos hi3]
      exact updLow_pos _ _ _ _

theorem organLoop_lowPos (e : OrganEnv ℚ) (gehalt : ℚ) :
    ∀ (orgs : List (OrganPar ℚ × ℚ × ℚ)) (i : ℕ) (st : OrgState ℚ), LowPos i st →
      LowPos (i + orgs.length) (organLoop e gehalt i orgs st) := by
  intro orgs
  induction orgs with
  | nil => intro i st h; simpa [organLoop] using h
  | cons x rest ih =>
    intro i st h
    obtain ⟨p, w, d⟩ := x
    simp only [organLoop, List.length_cons]
    have := ih (i + 1) _ (organStep_lowPos e gehalt st i p w d h)
    have he : i + (rest.length + 1) = i + 1 + rest.length := by ring
    rw [he]; exact this

/-! ### bookkeeping of the assimilate -/

theorem organLoop_gorg (e : OrganEnv ℚ) (gehalt : ℚ) :
    ∀ (orgs : List (OrganPar ℚ × ℚ × ℚ)) (i : ℕ) (st : OrgState ℚ),
      (organLoop e gehalt i orgs st).gorg = st.gorg ++ orgs.map (fun x => (rates e x.1 x.2.1 x.2.2).1) := by
  intro orgs
  induction orgs with
  | nil => intro i st; simp [organLoop]
  | cons x rest ih =>
    intro i st
    obtain ⟨p, w, d⟩ := x
    simp only [organLoop, List.map_cons]
    rw [ih]
    simp [organStep]

/-- Σ GORG while the stage's temperature sum is not exceeded -/
theorem sum_rates (e : OrganEnv ℚ) (h : ¬ 1 < e.sumI / e.tsumI) : ∀ (orgs : List (OrganPar ℚ × ℚ × ℚ)),
    (orgs.map (fun x => (rates e x.1 x.2.1 x.2.2).1)).sum =
      e.gtw * 0.7 * ((orgs.map (·.1.proPrev)).sum + ((orgs.map (·.1.proCur)).sum - (orgs.map (·.1.proPrev)).sum) * e.sumI / e.tsumI) * e.reduk
        - e.maint * (orgs.map (·.1.mant)).sum * 0.7 := by
  intro orgs
  induction orgs with
  | nil => simp
  | cons x rest ih =>
    simp only [List.map_cons, List.sum_cons]
    rw [ih]
    simp only [rates, if_neg h]
    ring


theorem withMant_pro : ∀ (orgs : List (OrganPar ℚ × ℚ × ℚ)) (ms : List ℚ),
    (withMant orgs ms).map (·.1.proPrev) = orgs.map (·.1.proPrev) ∧ (withMant orgs ms).map (·.1.proCur) = orgs.map (·.1.proCur) := by
  intro orgs
  induction orgs with
  | nil => intro ms; cases ms <;> simp [withMant]
  | cons x rest ih =>
    intro ms
    obtain ⟨p, w, d⟩ := x
    cases ms with
    | nil => simp [withMant]
    | cons m ms' =>
      simp only [withMant, List.map_cons]
      exact ⟨by rw [(ih ms').1], by rw [(ih ms').2]⟩

theorem withMant_mant : ∀ (orgs : List (OrganPar ℚ × ℚ × ℚ)) (ms : List ℚ), ms.length = orgs.length →
    (withMant orgs ms).map (·.1.mant) = ms := by
  intro orgs
  induction orgs with
  | nil => intro ms h; cases ms with
    | nil => simp [withMant]
    | cons m ms' => simp at h
  | cons x rest ih =>
    intro ms h
    obtain ⟨p, w, d⟩ := x
    cases ms with
    | nil => simp at h
    | cons m ms' =>
      simp only [withMant, List.map_cons]
      rw [ih ms' (by simpa using h)]

end Hermes.CropDay
