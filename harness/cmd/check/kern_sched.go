package main

// Shared machinery of the schedule / rotation checks (C10, C16): a traced whole run (state of the
// cursors and of the rotation arrays per day through the verif probes), the fertiliser table, date
// list generators and the evaluation of "exactly once, in order, on time" on the implementation.

import (
	"fmt"
	"os"
	"path/filepath"
	"strconv"
	"strings"

	"github.com/zalf-rpm/Hermes2Go/hermes"

	"verifharness/proj"
	"verifharness/vh"
)

// ---------------------------------------------------------------- fertiliser table

type fertRow struct {
	Code                              string
	Ntot, Ndir, Nfst, Nslo, NH4, Loss float64
}

func loadFertTable(repo string) ([]fertRow, error) {
	b, err := os.ReadFile(filepath.Join(repo, "examples", "parameter", "FERTILIZ.TXT"))
	if err != nil {
		return nil, err
	}
	var rows []fertRow
	seen := map[string]bool{}
	for i, ln := range strings.Split(string(b), "\n") {
		f := strings.Fields(ln)
		if i == 0 || len(f) < 7 {
			continue
		}
		var v [6]float64
		ok := true
		for k := 0; k < 6; k++ {
			v[k], err = strconv.ParseFloat(f[1+k], 64)
			if err != nil {
				ok = false
			}
		}
		if !ok || seen[f[0]] {
			continue
		}
		seen[f[0]] = true
		rows = append(rows, fertRow{f[0], v[0], v[1], v[2], v[3], v[4], v[5]})
	}
	if len(rows) == 0 {
		return nil, fmt.Errorf("no rows in FERTILIZ.TXT")
	}
	return rows, nil
}

// split: the amounts the table, the quantity and the global factor give (input.go:1514-1520 is the
// reference for the operation order; the meaning: N = quantity·factor·Ntot, mineral share Ndir of it,
// of which the NH4 share is reduced by the volatilisation loss; the rest organic, fast/slow).
func (t fertRow) split(qty, factor float64) (ndir, nh4n, nsas, nlas float64) {
	dgmg := qty * factor
	ndir0 := dgmg * t.Ntot * t.Ndir
	nh4n = ndir0 * t.NH4 * (1 - t.Loss)
	ndir = ndir0 - ndir0*t.NH4*t.Loss
	nsas = (dgmg*t.Ntot - ndir) * t.Nfst
	nlas = (dgmg*t.Ntot - ndir) * t.Nslo
	return
}

// ---------------------------------------------------------------- traced run

type dayRec struct {
	Zeit int
	// at DayStart (after irrigation, Evatra, automatic sowing; before the sub-step loop)
	NDG, NBR, NTIL, AKF       int
	EffIrr, Regen, RegenDaily float64
	Fluss0, ETA               float64
	DSUMM, NH4Sum, SF, SA     float64
	Intwick                   float64
	Saat, Ernte, Ernte2       int // of the current crop
	Saat1, Saat2, ErntePrev   int
	SaatNext, Saat2Next       int
	IrrSt1, IrrSt2, IrrMax    float64
	BregPrev                  float64 // BREG[NBR-2] (the slot just applied when NBR advanced)
	Einte                     int     // EINTE[NTIL+1]
	SowTrig                   bool    // weather/soil conditions of automatic sowing, recomputed from g
	OrgH                      bool    // organic fertiliser after harvest configured for the current crop
	Emerged                   bool    // SUM[0] >= TSUM[0] after PhytoOut (crop.go:150)
	// after Nitro of sub-step 1
	NDG1, NTIL1, AKF1         int
	DSUMM1, NH4Sum1, SF1, SA1 float64
	ErnteCur1, Ernte2Cur1     int // ERNTE/ERNTE2 of the crop that was current at DayStart
	SaatNext1, Saat2Next1     int
	Nfertsim1                 float64
	// end of day
	AKFEnd int
}

type inputSnap struct {
	Beginn, Ende                        int
	Dungszen                            float64
	ZTDG, ZTBR, EINTE, TILART           []int
	EINT, BREG, BRKZ                    []float64
	NDIR, NH4N, NSAS, NLAS              []float64
	DGART                               []string
	SAAT, SAAT1, SAAT2, ERNTE, ERNTE2   []int
	FRUCHT                              []string
	IRRST1, IRRST2, IRRMAX              []float64
	AutoMan, AutoHar, AutoIrr, AutoFert bool
}

type trace struct {
	Snap *inputSnap
	Days []dayRec
	Res  *proj.RunResult
}

func sumPools(a *[21]float64, m *[4]float64) float64 {
	s := 0.0
	for z := 0; z < 4; z++ {
		s += a[z] + m[z]
	}
	return s
}

func cpInts(a []int, n int) []int {
	if n > len(a) {
		n = len(a)
	}
	return append([]int(nil), a[:n]...)
}
func cpFloats(a []float64, n int) []float64 {
	if n > len(a) {
		n = len(a)
	}
	return append([]float64(nil), a[:n]...)
}

// sowTrigOf recomputes the weather- and soil-dependent part of the automatic sowing decision
// (run.go:536-563) from the state the day-start probe sees (nothing of it is changed between the
// sowing block and the probe). The gate `SAAT==0 && ZEIT>=SAAT1`, the `> ERNTE+4` test and the forced
// sowing are left to the model.
func sowTrigOf(g *hermes.GlobalVarsMain) bool {
	i := g.AKF.Index
	win := g.TSLWINDOW[i]
	slidesum := 0.0
	for I := 1; I <= int(win); I++ {
		if g.TAG.Num > win && g.TAG.Index-I >= 0 {
			slidesum += g.TEMP[g.TAG.Index-I]
		}
	}
	slide := slidesum / win
	if !(g.TJAHRSUM > g.TJAHR[i]) {
		return false
	}
	moistRain := func() bool {
		nfk1 := (g.WG[0][0] + g.REGEN[g.TAG.Index]/g.DZ.Num - g.WMIN[0]) / (g.WNOR[0] - g.WMIN[0]) * 100
		if nfk1 <= g.MAXMOI[i] && nfk1 >= g.MINMOI[i] {
			if g.REGEN[g.TAG.Index] <= 0.5 && (g.TAG.Index < 1 || g.REGEN[g.TAG.Index-1] <= 5) {
				return true
			}
		}
		return false
	}
	if g.TSLMIN[i] >= 0 && g.TSLMAX[i] < 0 {
		if slide >= g.TSLMIN[i] && g.TEMP[g.TAG.Index] >= g.TSLMIN[i] {
			return moistRain()
		}
	} else if g.TSLMIN[i] < 0 && g.TSLMAX[i] >= 0 {
		if slide <= g.TSLMAX[i] && g.TEMP[g.TAG.Index] <= g.TSLMAX[i] {
			return moistRain()
		}
	}
	return false
}

// runTraced writes and runs the project and records the cursor / rotation state of every day.
// after(root) is called between Write and Run (to overwrite generated files).
func runTraced(c *vh.Ctx, root string, p *proj.Project, slots int, after func(root string) error) (*trace, error) {
	if err := p.Write(root, c.Repo); err != nil {
		return nil, err
	}
	if err := p.WriteManagementConf(root); err != nil {
		return nil, err
	}
	if after != nil {
		if err := after(root); err != nil {
			return nil, err
		}
	}
	tr := &trace{}
	var cur *dayRec
	crop := func(g *hermes.GlobalVarsMain) []string {
		out := make([]string, slots)
		for i := range out {
			out[i] = strings.TrimSpace(g.CropTypeToString(g.FRUCHT[i], true))
		}
		return out
	}
	probes := &hermes.VerifProbes{
		DayStart: func(g *hermes.GlobalVarsMain, w *hermes.WaterSharedVars, n *hermes.NitroSharedVars, cs *hermes.CropSharedVars, zeit int, wdt float64) {
			if tr.Snap == nil {
				tr.Snap = &inputSnap{Beginn: g.BEGINN, Ende: g.ENDE, Dungszen: g.DUNGSZEN,
					ZTDG: cpInts(g.ZTDG[:], slots), ZTBR: cpInts(g.ZTBR, slots), EINTE: cpInts(g.EINTE[:], slots), TILART: cpInts(g.TILART[:], slots),
					EINT: cpFloats(g.EINT[:], slots), BREG: cpFloats(g.BREG, slots), BRKZ: cpFloats(g.BRKZ, slots),
					NDIR: cpFloats(g.NDIR[:], slots), NH4N: cpFloats(g.NH4N[:], slots), NSAS: cpFloats(g.NSAS[:], slots), NLAS: cpFloats(g.NLAS[:], slots),
					DGART: append([]string(nil), g.DGART[:slots]...),
					SAAT:  cpInts(g.SAAT[:], slots), SAAT1: cpInts(g.SAAT1[:], slots), SAAT2: cpInts(g.SAAT2[:], slots), ERNTE: cpInts(g.ERNTE[:], slots), ERNTE2: cpInts(g.ERNTE2[:], slots),
					FRUCHT: crop(g), IRRST1: cpFloats(g.IRRST1[:], slots), IRRST2: cpFloats(g.IRRST2[:], slots), IRRMAX: cpFloats(g.IRRMAX[:], slots),
					AutoMan: g.AUTOMAN, AutoHar: g.AUTOHAR, AutoIrr: g.AUTOIRRI, AutoFert: g.AUTOFERT}
			}
			a := g.AKF.Index
			d := dayRec{Zeit: zeit, NDG: g.NDG.Index, NBR: g.NBR, NTIL: g.NTIL.Index, AKF: a,
				EffIrr: g.EffectiveIRRIG, Regen: g.REGEN[g.TAG.Index], RegenDaily: g.REGENdaily, Fluss0: g.FLUSS0, ETA: g.ETA,
				DSUMM: g.DSUMM, NH4Sum: g.NH4Sum, SF: sumPools(&g.NFOS, &g.MINFOS), SA: sumPools(&g.NAOS, &g.MINAOS),
				Intwick: g.INTWICK.Num, Saat: g.SAAT[a], Ernte: g.ERNTE[a], Ernte2: g.ERNTE2[a], Saat1: g.SAAT1[a], Saat2: g.SAAT2[a],
				SaatNext: g.SAAT[a+1], Saat2Next: g.SAAT2[a+1],
				IrrSt1: g.IRRST1[a], IrrSt2: g.IRRST2[a], IrrMax: g.IRRMAX[a], Einte: g.EINTE[g.NTIL.Index+1]}
			d.OrgH = g.ODU[a] == 1 && g.ORGTIME[a] == "H"
			if a > 0 {
				d.ErntePrev = g.ERNTE[a-1]
				if g.AUTOMAN {
					d.SowTrig = sowTrigOf(g)
				}
			}
			if g.NBR >= 2 && g.NBR-2 < len(g.BREG) {
				d.BregPrev = g.BREG[g.NBR-2]
			}
			tr.Days = append(tr.Days, d)
			cur = &tr.Days[len(tr.Days)-1]
		},
		AfterNitro: func(g *hermes.GlobalVarsMain, w *hermes.WaterSharedVars, n *hermes.NitroSharedVars, zeit, subd int, wdt, steps float64) {
			if subd != 1 || cur == nil {
				return
			}
			cur.NDG1, cur.NTIL1, cur.AKF1 = g.NDG.Index, g.NTIL.Index, g.AKF.Index
			cur.DSUMM1, cur.NH4Sum1 = g.DSUMM, g.NH4Sum
			cur.SF1, cur.SA1 = sumPools(&g.NFOS, &g.MINFOS), sumPools(&g.NAOS, &g.MINAOS)
			cur.ErnteCur1, cur.Ernte2Cur1 = g.ERNTE[cur.AKF], g.ERNTE2[cur.AKF]
			cur.SaatNext1, cur.Saat2Next1 = g.SAAT[cur.AKF+1], g.SAAT2[cur.AKF+1]
			cur.Nfertsim1 = g.NFERTSIM
			cur.Emerged = g.SUM[0] >= g.TSUM[0]
		},
		DayEnd: func(g *hermes.GlobalVarsMain, w *hermes.WaterSharedVars, n *hermes.NitroSharedVars, cs *hermes.CropSharedVars, zeit int) {
			if cur != nil {
				cur.AKFEnd = g.AKF.Index
			}
		},
	}
	tr.Res = proj.Run(root, p, probes)
	os.RemoveAll(filepath.Join(root, "project", p.Name))
	os.RemoveAll(filepath.Join(root, "weather"))
	return tr, nil
}

// ---------------------------------------------------------------- schedules

// schedEv is one line of a schedule file as the checks see it.
type schedEv struct {
	Z     int    `json:"day"`  // day number of the date
	Date  string `json:"date"` // ISO
	Own   bool   `json:"own"`  // line of the simulated field
	A     int    `json:"a"`    // amount (kg, dt, m3) / mm / depth
	B     int    `json:"b"`    // - / concentration / tillage type
	Kind  string `json:"kind,omitempty"`
	Field string `json:"field,omitempty"` // field id of a line of another field
}

// walkDates draws an ascending list of day numbers: `pre` events before start, then events from
// the start day on until `post` events lie after `last`. At most maxPerDay events share a day.
// clean: no event on the start day, and after a same-day pair the next event is at least two days
// later (the schedules on which the shifted dates stay strictly ascending).
func walkDates(r *vh.Rng, start, last, maxPerDay int, clean bool, pre, post, maxN, gap int) []int {
	var out []int
	d := start - 1 - r.Intn(40)
	for i := 0; i < pre && d < start; i++ {
		out = append(out, d)
		d += 1 + r.Intn(3)
	}
	d = start + r.Intn(12)
	if clean && d == start {
		d++
	}
	same, after := 1, 0
	for n := 0; n < maxN; n++ {
		out = append(out, d)
		if d > last {
			after++
			if after >= post {
				break
			}
		}
		roll := r.Intn(10)
		step := 2 + r.Intn(2*gap)
		if roll < 2 {
			step = 0
		} else if roll < 5 {
			step = 1
		}
		if step == 0 && same >= maxPerDay {
			step = 1
		}
		if clean && same >= 2 && step < 2 {
			step = 2 + r.Intn(3)
		}
		if step == 0 {
			same++
		} else {
			same = 1
		}
		d += step
		if post == 0 && d > last {
			break
		}
	}
	return out
}

// evClass classifies the in-period own events of one kind by their schedule context.
// feature: start (dated on the start day; fertiliser only, whose slot 0 holds the residues of the
// pre-crop dated BEGINN), pair2 (same day as the predecessor), nextday (the day after the
// predecessor), plain. "/prev-shifted" is appended to nextday/plain when the slot date of the event is
// pushed behind a predecessor that was itself moved (one action per day: `D[i+1] <= D[i]` -> `D[i]+1`).
func evClass(dates []int, start int, isFert bool) []string {
	cls := make([]string, len(dates))
	prevS, havePrev := start, isFert
	for j, d := range dates {
		f := "plain"
		switch {
		case j > 0 && d == dates[j-1]:
			f = "pair2"
		case j > 0 && d == dates[j-1]+1:
			f = "nextday"
		case j == 0 && isFert && d == start:
			f = "start"
		}
		sd := d
		if havePrev && d <= prevS {
			sd = prevS + 1
		}
		cls[j] = f
		if sd != d && (f == "nextday" || f == "plain") {
			cls[j] = f + "/prev-shifted"
		}
		prevS, havePrev = sd, true
	}
	return cls
}

type execRec struct {
	Zeit, Slot int
}

// evalExactlyOnce evaluates the C10 predicate for one kind of action on the implementation's
// executions: the executed events are the in-period events, in order, each once; execution day in
// [date, date+1], the second of a same-day pair on the day after the first; an unexecuted event whose
// latest admissible day lies inside the simulated period is lost. payloadOK(j, slot) tells whether
// execution slot carries the j-th expected event.
func evalExactlyOnce(c *vh.Ctx, kind string, dates []int, cls []string, lastDay int, execs []execRec, payloadOK func(j int, e execRec) string, replay interface{}, extraClass ...func(e execRec) string) {
	for j, e := range execs {
		if j >= len(dates) {
			xc := "unscheduled"
			if len(extraClass) > 0 {
				xc = extraClass[0](e)
			}
			c.Violate("search", "run:"+kind+":extra:"+xc, fmt.Sprintf("%s: execution #%d on day %d (slot %d) has no scheduled in-period event left (%s)", kind, j+1, e.Zeit, e.Slot, xc), replay)
			return
		}
		if why := payloadOK(j, e); why != "" {
			c.Violate("search", "run:"+kind+":wrong-event:"+cls[j], fmt.Sprintf("%s: execution #%d on day %d is not the scheduled event #%d (day %d): %s", kind, j+1, e.Zeit, j+1, dates[j], why), replay)
			return
		}
		lo, hi := dates[j], dates[j]+1
		if strings.HasPrefix(cls[j], "pair2") && j > 0 {
			lo, hi = execs[j-1].Zeit+1, execs[j-1].Zeit+1
		}
		if e.Zeit < lo {
			c.Violate("search", "run:"+kind+":early:"+cls[j], fmt.Sprintf("%s event #%d scheduled for day %d executed on day %d (before its time; admissible %d..%d)", kind, j+1, dates[j], e.Zeit, lo, hi), replay)
		} else if e.Zeit > hi {
			c.Violate("search", "run:"+kind+":late:"+cls[j], fmt.Sprintf("%s event #%d scheduled for day %d executed on day %d, %d days after its date (admissible %d..%d)", kind, j+1, dates[j], e.Zeit, e.Zeit-dates[j], lo, hi), replay)
		}
		c.Count(kind + ":executed:" + cls[j])
	}
	if j := len(execs); j < len(dates) {
		must := dates[j] + 1
		if kind == "fertilization" || kind == "tillage" {
			must = dates[j] + 2 // the second of a same-day pair may take a day more
		}
		if must <= lastDay {
			c.Violate("search", "run:"+kind+":lost:"+cls[j], fmt.Sprintf("%s event #%d scheduled for day %d was never executed although the run lasts until day %d (%d later events of the kind are lost with it)", kind, j+1, dates[j], lastDay, len(dates)-j-1), replay)
			c.Count(kind + ":lost:" + cls[j])
		}
	}
}

func dotted(z, format int) string {
	d := proj.FromZ(z)
	switch format {
	case 0:
		return fmt.Sprintf("%02d.%02d.%02d", d.D, d.M, d.Y%100)
	case 2:
		return fmt.Sprintf("%02d.%02d.%02d", d.M, d.D, d.Y%100)
	case 3:
		return fmt.Sprintf("%02d.%02d.%04d", d.M, d.D, d.Y)
	}
	return fmt.Sprintf("%02d.%02d.%04d", d.D, d.M, d.Y)
}

func intsStr(xs []int) string {
	p := make([]string, len(xs))
	for i, x := range xs {
		p[i] = strconv.Itoa(x)
	}
	return strings.Join(p, " ")
}

func nearSch(a, b, scale float64) bool {
	if a != a || b != b {
		return false
	}
	d := a - b
	if d < 0 {
		d = -d
	}
	if scale < 0 {
		scale = -scale
	}
	return d <= 1e-9*(1+scale)
}
