package main

import (
	"fmt"
	"math"
	"os"
	"path/filepath"
	"regexp"

	"github.com/zalf-rpm/Hermes2Go/hermes"
	"verifharness/proj"
	"verifharness/vh"
)

// Whole-simulation observation shared by C02 and C07: the N state at the start of the sub-step loop
// (after deposition / irrigation N / measurement overwrite), after every call of Nitro, and at day
// end (after Denitr, before the annual counter reset).

type nSnap struct {
	C1                                                           []float64 // layers 0..N-1
	SumC1                                                        float64
	C1below                                                      float64 // C1[N] (outside the profile)
	Naos, Nfos                                                   [21]float64
	Minaos, Minfos                                               [4]float64
	Outsum, Drainloss, Aufnasum, Cumdenit, N2onitsum, Ums, Dsumm float64
	Nh4sum, Nh4ums, Pesum, Nfixsum, N2odencum                    float64
	NDG, NTIL, AKF, MZ, NBR                                      int
}

type nSub struct {
	Subd            int
	Wdt, Steps      float64
	Pesum, Aufnasum float64
	SumPE           float64
	MaxAbsPE        float64 // largest |PE[i]| handed to the transport routine in this sub-step
	PEBelowReach    float64 // sum of |PE[i]| of the layers the crop does not reach today (i >= min(root depth, groundwater table))
	Reach           int     // int(min(WURZ, GRW)): the layers PhytoOut computes an uptake for
	Schnorr         float64
	Qdrain, Q1Drain float64
	Drainloss       float64
	ClampEvidence   bool
	Unstable        bool
	SumC1           float64
	NegC1           bool
	OrgTot          float64 // Σ NAOS + NFOS + MINAOS + MINFOS after this sub-step
	Dsumm, Nh4sum   float64 // applied-fertiliser sums after this sub-step
}

type nDay struct {
	Zeit                 int
	Date                 string
	Start, End           nSnap
	Subs                 []nSub
	CropDay              bool    // PhytoOut runs on this day (a crop stands on the field)
	SowDay               bool    // the crop is sown today: PESUM is set from the seedling biomass (crop.go:119-123)
	HarvestDay           bool    // the current rotation entry is harvested today (nitro.go harvest block moves and resets PESUM)
	WumasStart, WumasEnd float64 // root dry mass before / after the day (dead roots feed the organic pools)
	Crop                 string
	Legume               bool
	Depo, IrrN           float64
	Nfix                 float64
	HaveEnd              bool
	UnstableSoFar        bool // the run has raised the instability flag on this or an earlier day
}

type nRun struct {
	P            *proj.Project
	N            int
	Days         []*nDay
	Res          *proj.RunResult
	Steps        map[int]int
	unstableSeen bool
	SameDayIrrDays int // days with two irrigation lines on which water was applied (nitroSameDayIrrConc)
	sowOf, harOf map[int]int // observed sowing / harvest day per rotation entry (run_nitro_auto.go)
}

func snapN(g *hermes.GlobalVarsMain) nSnap {
	var s nSnap
	s.C1 = append(s.C1, g.C1[:g.N]...)
	for _, x := range s.C1 {
		s.SumC1 += x
	}
	s.C1below = g.C1[g.N]
	s.Naos, s.Nfos, s.Minaos, s.Minfos = g.NAOS, g.NFOS, g.MINAOS, g.MINFOS
	s.Outsum, s.Drainloss, s.Aufnasum, s.Cumdenit, s.N2onitsum, s.Ums, s.Dsumm = g.OUTSUM, g.DRAINLOSS, g.AUFNASUM, g.CUMDENIT, g.N2onitsum, g.UMS, g.DSUMM
	s.Nh4sum, s.Nh4ums, s.Pesum, s.Nfixsum, s.N2odencum = g.NH4Sum, g.NH4UMS, g.PESUM, g.NFIXSUM, g.N2Odencum
	s.NDG, s.NTIL, s.AKF, s.MZ, s.NBR = g.NDG.Index, g.NTIL.Index, g.AKF.Index, g.MZ, g.NBR
	return s
}

// runNitroObserved writes and runs the project with the N observers installed.
func runNitroObserved(c *vh.Ctx, p *proj.Project) *nRun {
	root := filepath.Join(c.Scratch, "run-"+p.Name)
	os.MkdirAll(root, 0o755)
	defer os.RemoveAll(root)
	r := &nRun{P: p, N: p.N(), Steps: map[int]int{}}
	if err := p.Write(root, c.Repo); err != nil {
		r.Res = &proj.RunResult{Err: err}
		return r
	}
	if a := nitroAutoOf[p]; a != nil {
		// automatic management: the generated automan.txt replaces the shipped table
		if err := p.WriteAutoman(root, a.Entries); err != nil {
			r.Res = &proj.RunResult{Err: err}
			return r
		}
	}
	var cur *nDay
	probes := &hermes.VerifProbes{
		DayStart: func(g *hermes.GlobalVarsMain, w *hermes.WaterSharedVars, n *hermes.NitroSharedVars, cs *hermes.CropSharedVars, zeit int, wdt float64) {
			cur = &nDay{Zeit: zeit, Date: g.AKTUELL, Start: snapN(g)}
			// day inputs expected from the generated INPUT (configuration text, irrigation schedule file the harness
			// wrote), not from the arrays of the code under test
			cur.Depo = p.DepositionPerDay()
			cur.IrrN = nitroIrrN(p, zeit)
			if conc, ok := nitroSameDayIrrConc[p]; ok && !(nitroAutoOf[p] != nil && nitroAutoOf[p].AutoIrr) {
				// several passes on one day: the N of the water applied today (mm x ppm x 0.01)
				cur.IrrN = float64(conc) * g.EffectiveIRRIG * 10 * 0.01
				if g.EffectiveIRRIG > 0 {
					if _, _, lines := p.IrrigationNOn(zeit); lines > 1 {
						r.SameDayIrrDays++
					}
				}
			}
			cur.SowDay = zeit == g.SAAT[g.AKF.Index]
			cur.HarvestDay = zeit == g.ERNTE[g.AKF.Index]
			cur.WumasStart = g.WUMAS
			cur.Crop = g.CropTypeToString(g.FRUCHT[g.AKF.Index], false)
			cur.CropDay = g.AKF.Num > 1 && g.SAAT[g.AKF.Index] > 0 && zeit >= g.SAAT[g.AKF.Index] && zeit <= g.ERNTE2[g.AKF.Index]
			r.N = g.N
			r.Days = append(r.Days, cur)
		},
		AfterNitro: func(g *hermes.GlobalVarsMain, w *hermes.WaterSharedVars, n *hermes.NitroSharedVars, zeit, subd int, wdt, steps float64) {
			if cur == nil {
				return
			}
			s := nSub{Subd: subd, Wdt: wdt, Steps: steps, Pesum: g.PESUM, Aufnasum: g.AUFNASUM, Schnorr: g.SCHNORR, Qdrain: g.QDRAIN, Drainloss: g.DRAINLOSS,
				Unstable: g.C1NotStable != "", Dsumm: g.DSUMM, Nh4sum: g.NH4Sum, Reach: int(math.Min(float64(g.WURZ), g.GRW))}
			for z := 0; z < 21; z++ {
				s.OrgTot += g.NAOS[z] + g.NFOS[z]
			}
			for z := 0; z < 4; z++ {
				s.OrgTot += g.MINAOS[z] + g.MINFOS[z]
			}
			if g.DRAIDEP >= 1 && g.DRAIDEP <= g.N {
				s.Q1Drain = g.Q1[g.DRAIDEP]
			}
			for z := 0; z < g.N; z++ {
				s.SumPE += g.PE[z]
				if a := math.Abs(g.PE[z]); a > s.MaxAbsPE || math.IsNaN(a) {
					s.MaxAbsPE = a
				}
				if z >= int(math.Min(float64(g.WURZ), g.GRW)) {
					s.PEBelowReach += math.Abs(g.PE[z])
				}
				s.SumC1 += g.C1[z]
				if g.C1[z] == 0 || g.C1[z] == g.DN[z]*wdt/2 {
					s.ClampEvidence = true
				}
				if g.C1[z] < 0 {
					s.NegC1 = true
				}
			}
			if subd == 1 {
				cur.Legume = g.LEGUM
				cur.Nfix = g.NFIX
			}
			if s.Unstable {
				r.unstableSeen = true
			}
			cur.UnstableSoFar = r.unstableSeen
			cur.Subs = append(cur.Subs, s)
		},
		DayEnd: func(g *hermes.GlobalVarsMain, w *hermes.WaterSharedVars, n *hermes.NitroSharedVars, cs *hermes.CropSharedVars, zeit int) {
			if cur == nil {
				return
			}
			cur.End = snapN(g)
			cur.WumasEnd = g.WUMAS
			cur.HaveEnd = true
			r.Steps[len(cur.Subs)]++
		},
	}
	r.Res = proj.Run(root, p, probes)
	return r
}

// panicSignature: a stable name for a run-time panic (numbers of the message kept: they are the
// index and the array length, i.e. the call site's identity, not the random case).
func panicSignature(msg string) string {
	if len(msg) > 80 {
		msg = msg[:80]
	}
	return "run:panic:" + regexp.MustCompile(`\s+`).ReplaceAllString(msg, "_")
}

// steerNitroProject: the settings the two properties quantify over — leaching depth at the profile
// bottom; tillage not deeper than the profile and (unless deepTillage) not deeper than the four
// layers the mineralised-amount counters have.
func steerNitroProject(p *proj.Project, deepTillage bool) {
	n := p.N()
	p.Cfg["LeachingDepth"] = fmt.Sprint(n)
	for i := range p.Til {
		maxD := 10*n + 4
		if !deepTillage && maxD > 44 {
			maxD = 44
		}
		if p.Til[i].Depth > maxD {
			p.Til[i].Depth = maxD
		}
	}
	if p.DrainDep > n {
		p.DrainDep = n
	}
}

func relTol(terms ...float64) float64 {
	s := 1.0
	for _, t := range terms {
		s += math.Abs(t)
	}
	return 1e-9 * s
}

func sum4(a [4]float64, n int) float64 {
	s := 0.0
	for z := 0; z < 4 && z < n; z++ {
		s += a[z]
	}
	return s
}
