package main

import (
	"fmt"
	"math"
	"strings"

	"github.com/zalf-rpm/Hermes2Go/hermes"
	"verifharness/vh"
)

// evCase: the state read by one call of hermes.Evatra (see lean/HermesModel/Evatra.lean).
type evCase struct {
	N       int     `json:"N"`
	Method  int     `json:"et_method"`
	Crop    bool    `json:"crop_active"`
	BareWhy string  `json:"bare_why,omitempty"`
	Tag     int     `json:"tag_index"`
	Intw    int     `json:"intwick_index"`
	Wurz    int     `json:"wurz"`
	Lumday  int     `json:"lumday"`
	Grw     float64 `json:"grw"`
	Regen   float64 `json:"regen_cm"`
	Lai     float64 `json:"lai"`
	Prop    float64 `json:"prop"`
	Lukrit  float64 `json:"lukrit"`
	// weather of the day and site
	Temp, Tmin, Tmax, Rad, Sund, Rh, Wind, Verd, Etnull float64
	Lat, Alti, Windhi, Kcoa, Fkc, Fkb, Fk, Co2         float64
	Ctrans                                             bool
	Co2meth                                            int
	TrrelPrev, EtrelPrev                               float64
	Wg, W, Wmin, Wnor, Porges, Wudich                  []float64
	Class                                              string `json:"class"` // input class (part of violation signatures)
}

type evOut struct {
	Verdu, Eta, Eva, Fluss0, Gwauf, Lured, Etrel, Trrel float64
	Ev, Nfk, Tp                                        []float64
	Lumday, Wurz                                       int
	// after the first Water call of the day (uptake limit)
	TpLimited []float64
}

var etMethodName = map[int]string{1: "haude", 2: "turc-wendling", 3: "penman-monteith", 4: "priestley-taylor", 5: "et0-column"}

func genSoilColumn(r *vh.Rng, n int) (w, wmin, wnor, porges, wg []float64) {
	stony := r.Chance(0.2) // stone fractions up to 97 %: all capacities scaled down
	for i := 0; i < n; i++ {
		fc := vh.RoundTo(r.Uni(0.08, 0.5), 3)
		if stony && r.Chance(0.7) {
			fc = vh.RoundTo(fc*r.Uni(0.03, 0.4), 4)
		}
		wp := vh.RoundTo(r.Uni(0.01, fc*0.8), 3)
		if wp >= fc || wp <= 0 {
			wp = vh.RoundTo(fc*0.5, 4)
		}
		nor := fc
		if r.Chance(0.3) { // groundwater-lifted field capacity: WNOR stays at the normal value
			nor = vh.RoundTo(r.Uni(wp+0.02, fc), 3)
			if !(nor > wp) {
				nor = fc
			}
		}
		por := vh.RoundTo(fc+r.Uni(0.0, 0.15), 3)
		var g float64
		switch r.Intn(9) {
		case 0:
			g = fc
		case 1:
			g = wp
		case 2:
			g = vh.RoundTo(r.Uni(fc, por), 3)
		case 3:
			g = vh.RoundTo(r.Uni(wp/3, wp), 4)
		case 4:
			g = wp / 3
		case 5:
			g = vh.RoundTo(r.Uni(wp, wp+0.02), 4) // nearly dry: deficit redistribution engages
		default:
			g = vh.RoundTo(r.Uni(wp, fc), 4)
		}
		w = append(w, fc)
		wmin = append(wmin, wp)
		wnor = append(wnor, nor)
		porges = append(porges, por)
		wg = append(wg, g)
	}
	return
}

func genEvCase(r *vh.Rng) evCase {
	n := r.Range(1, 20)
	if r.Chance(0.15) {
		n = []int{1, 2, 3, 20}[r.Intn(4)]
	}
	c := evCase{N: n, Method: r.Range(1, 5), Tag: r.Intn(365), Kcoa: 1, Windhi: 2}
	c.W, c.Wmin, c.Wnor, c.Porges, c.Wg = genSoilColumn(r, n)
	// weather
	c.Temp = vh.RoundTo(r.Uni(-21, 40), 1)
	if r.Chance(0.1) {
		c.Temp = vh.RoundTo(r.Uni(-21.9, -15), 1)
	}
	if r.Chance(0.04) {
		c.Temp = vh.RoundTo(r.Uni(-35, -22), 1) // deep frost (below the zero of the Turc-Wendling temperature term)
	}
	dtr := r.Uni(1, 14)
	c.Tmin, c.Tmax = vh.RoundTo(c.Temp-dtr/2, 1), vh.RoundTo(c.Temp+dtr/2, 1)
	c.Rad = vh.RoundTo(r.Uni(0.1, 16), 2)
	c.Sund = vh.RoundTo(r.Uni(0, 16), 1)
	if r.Chance(0.3) {
		c.Rad = 0 // radiation missing: sunshine hours are used
		c.Class = "sunshine"
	} else {
		c.Class = "radiation"
	}
	c.Rh = vh.RoundTo(r.Uni(20, 100), 0)
	c.Wind = vh.RoundTo(r.Uni(0.1, 12), 1)
	c.Verd = vh.RoundTo(r.Uni(0, 30), 1)
	c.Etnull = vh.RoundTo(r.Uni(0, 12), 1)
	if r.Chance(0.2) {
		c.Etnull = 0
	}
	if c.Method == 5 && r.Chance(0.03) {
		c.Etnull = -99.9 // the none-sentinel on a single day of an otherwise filled ET0 column
	}
	c.Lat = vh.RoundTo(r.Uni(-60, 70), 2)
	switch r.Intn(10) {
	case 0:
		c.Lat = []float64{90, -90, 89.9, -89.9, 66.56, -66.56, 0, 78.2, -78.2}[r.Intn(9)]
		c.Class += ":polar-or-equator"
	case 1:
		c.Lat = vh.RoundTo(r.Uni(66, 90), 1) * []float64{1, -1}[r.Intn(2)]
		c.Class += ":polar"
	}
	c.Alti = vh.RoundTo(r.Uni(0, 2500), 0)
	if r.Chance(0.2) {
		c.Windhi = 10
	}
	if r.Chance(0.3) {
		c.Kcoa = vh.RoundTo(r.Uni(0.5, 1), 2)
	}
	c.Fkc = vh.RoundTo(r.Uni(0.2, 1.5), 2)
	c.Fkb = vh.RoundTo(r.Uni(0.2, 1.2), 2)
	c.Fk = vh.RoundTo(r.Uni(0.1, 0.5), 2)
	if r.Chance(0.25) { // demand well above the cap
		c.Fkc, c.Fkb, c.Fk = 1.8, 1.6, 0.6
	}
	c.Ctrans = r.Chance(0.4)
	c.Co2meth = r.Range(1, 3)
	c.Co2 = vh.RoundTo(r.Uni(330, 800), 0)
	c.Regen = 0
	if r.Chance(0.35) {
		c.Regen = vh.RoundTo(r.Uni(0, 0.6), 2)
		if r.Chance(0.2) {
			c.Regen = vh.RoundTo(r.Uni(0.6, 8), 1)
		}
	}
	c.Prop = []float64{0.1, 0.3, 0.4, 0.6}[r.Intn(4)]
	// vegetation
	c.Crop = r.Chance(0.7)
	c.Intw = r.Range(1, 5)
	if !c.Crop {
		c.BareWhy = []string{"before-sowing", "stage-1", "after-harvest", "after-harvest2"}[r.Intn(4)]
		if c.BareWhy == "stage-1" {
			c.Intw = 0
		}
	}
	c.Lai = vh.RoundTo(r.Uni(0, 8), 2)
	if r.Chance(0.15) {
		c.Lai = 0
	}
	c.Wurz = r.Range(0, n)
	if r.Chance(0.3) {
		c.Wurz = n
	}
	c.Grw = 99
	switch r.Intn(6) {
	case 0:
		c.Grw = float64(r.Range(1, n+1)) // exactly on a layer boundary
	case 1:
		c.Grw = vh.RoundTo(r.Uni(0.5, float64(n)+1.5), 1)
	case 2:
		c.Grw = float64(c.Wurz) // groundwater exactly at the root depth
		if c.Grw == 0 {
			c.Grw = 1
		}
	}
	c.Lukrit = 0
	if r.Chance(0.6) {
		c.Lukrit = vh.RoundTo(r.Uni(0.02, 0.12), 3)
	}
	c.Lumday = r.Intn(5)
	for i := 0; i < n; i++ {
		d := 0.0
		// below the current root depth the array keeps the densities of the previous crop (stale, often non-zero)
		if (i < c.Wurz && r.Chance(0.9)) || (i >= c.Wurz && r.Chance(0.4)) {
			d = vh.RoundTo(r.Uni(0.01, 6)*math.Exp(-0.3*float64(i)), 4)
		}
		c.Wudich = append(c.Wudich, d)
	}
	c.TrrelPrev = vh.RoundTo(r.F(), 3)
	c.EtrelPrev = vh.RoundTo(r.F(), 3)
	return c
}

const evZeit = 1000

// buildEvState sets up GlobalVarsMain / WaterSharedVars for the case. scale multiplies every
// crop / bare-soil coefficient of the potential-ET formulas (FKC, FKB, FKF, FKU): with a power of
// two the real code computes exactly scale·VERDU₀ and the daily cap stays out of the way.
func buildEvState(c *evCase, scale float64) (*hermes.GlobalVarsMain, *hermes.WaterSharedVars) {
	g := hermes.NewGlobalVarsMain()
	l := &hermes.WaterSharedVars{}
	g.N = c.N
	g.BEGINN = 900
	g.ETMETH = c.Method
	g.TAG.SetByIndex(c.Tag)
	g.AKF.SetByIndex(0)
	g.INTWICK.SetByIndex(c.Intw)
	g.SAAT[0] = 500
	g.ERNTE[0] = 1200
	g.ERNTE2[0] = 1300
	switch c.BareWhy {
	case "before-sowing":
		g.SAAT[0] = 1100
	case "after-harvest":
		g.ERNTE[0] = evZeit
	case "after-harvest2":
		g.ERNTE[0] = 0
		g.ERNTE2[0] = 990
	case "":
		if c.Tag%2 == 0 { // the second form of the harvest condition
			g.ERNTE[0] = 0
		}
	}
	t := c.Tag
	g.TEMP[t], g.TMIN[t], g.TMAX[t] = c.Temp, c.Tmin, c.Tmax
	g.RAD[t], g.SUND[t], g.RH[t], g.WIND[t] = c.Rad, c.Sund, c.Rh, c.Wind
	g.VERD[t], g.ETNULL[t], g.REGEN[t] = c.Verd, c.Etnull, c.Regen
	g.LAT, g.ALTI, g.WINDHI, g.KCOA = c.Lat, c.Alti, c.Windhi, c.Kcoa
	g.FKC, g.FKB = c.Fkc*scale, c.Fkb*scale
	for m := 0; m < 12; m++ {
		g.FKF[m] = c.Fk * scale
		g.FKU[m] = c.Fk * scale
	}
	g.CTRANS = c.Ctrans
	g.CO2METH = c.Co2meth
	g.CO2KONZ = c.Co2
	g.MINTMP = 2
	g.LAI = c.Lai
	g.PROP = c.Prop
	g.WURZ = c.Wurz
	g.GRW = c.Grw
	g.LUKRIT[c.Intw] = c.Lukrit
	g.LUMDAY = c.Lumday
	g.LURED = 1
	g.TRREL, g.ETREL = c.TrrelPrev, c.EtrelPrev
	for i := 0; i < c.N; i++ {
		g.WG[1][i] = c.Wg[i]
		g.WG[0][i] = -7 // overwritten by Evatra (zeit > BEGINN)
		g.W[i], g.WMIN[i], g.WNOR[i], g.PORGES[i] = c.W[i], c.Wmin[i], c.Wnor[i], c.Porges[i]
		g.WUDICH[i] = c.Wudich[i]
		g.TP[i] = 0.123 // must be overwritten
	}
	g.OUTN = c.N
	g.CAPS = [21]float64{}
	return &g, l
}

// cropActive: the vegetation condition of water.go:137-138 evaluated on the generated state.
func cropActive(g *hermes.GlobalVarsMain, zeit int) bool {
	a := g.AKF.Index
	return zeit > g.SAAT[a] && g.INTWICK.Num > 1 &&
		((g.ERNTE[a] > 0 && zeit < g.ERNTE[a]) || (g.ERNTE[a] == 0 && zeit < g.ERNTE2[a]))
}

const evScale = 1.0 / 4096

// runEvatraImpl calls the real hermes.Evatra with the ET coefficients scaled by ±2^-12 (gives the
// raw potential ET of the chosen method, exactly: the positive scale shows a positive value below
// the cap, the negative scale shows a negative value, which the floor at zero would hide), then as is.
func runEvatraImpl(c *evCase) (verdu0 float64, o evOut, panicked string) {
	defer func() {
		if r := recover(); r != nil {
			panicked = fmt.Sprint(r)
		}
	}()
	gs, ls := buildEvState(c, evScale)
	hermes.Evatra(ls, gs, nil, evZeit)
	verdu0 = gs.VERDUNST / evScale
	if gs.VERDUNST == 0 {
		gn, ln := buildEvState(c, -evScale)
		hermes.Evatra(ln, gn, nil, evZeit)
		if gn.VERDUNST > 0 {
			verdu0 = -(gn.VERDUNST / evScale)
		}
	}
	g, l := buildEvState(c, 1)
	hermes.Evatra(l, g, nil, evZeit)
	o.Verdu = g.VERDUNST
	o.Eta, o.Eva, o.Fluss0, o.Gwauf = g.ETA, l.EVA[c.Tag], g.FLUSS0, l.GWAUF
	o.Lured, o.Etrel, o.Trrel, o.Lumday, o.Wurz = g.LURED, g.ETREL, g.TRREL, g.LUMDAY, g.WURZ
	o.Ev = append(o.Ev, l.EV[:c.N]...)
	o.Nfk = append(o.Nfk, l.NFK[:c.N]...)
	o.Tp = append(o.Tp, g.TP[:c.N]...)
	// the uptake limit of the first Water call of the day
	hermes.Water(1, 1, evZeit, g, l)
	o.TpLimited = append(o.TpLimited, g.TP[:c.N]...)
	return
}

func (c *evCase) slot(xs []float64, idx int, dupLast bool) float64 {
	if idx < c.N {
		return xs[idx]
	}
	if dupLast && idx == c.N {
		return xs[c.N-1] // WG[0][N] = WG[1][N-1]
	}
	return 0
}

func (c *evCase) line(verdu0 float64) string {
	crop := 0
	if c.Crop {
		crop = 1
	}
	var sb strings.Builder
	elai := math.Exp(-.5 * c.Lai)
	fmt.Fprintf(&sb, "evatra.part %d %d %d %d %d %s", c.N, crop, 1, c.Wurz, c.Lumday,
		vh.FVals(10, 1, verdu0, elai, c.Regen, c.W[0], c.Grw,
			c.slot(c.Porges, 0, false), c.slot(c.Porges, 1, false), c.slot(c.Porges, 2, false),
			c.slot(c.Wg, 0, true), c.slot(c.Wg, 1, true), c.slot(c.Wg, 2, true),
			c.Lukrit, c.TrrelPrev, c.EtrelPrev))
	expc := make([]float64, c.N)
	dz := 10.0
	for i := 0; i < c.N; i++ {
		expc[i] = math.Exp(-c.Prop * .1 * (float64((i+1)*10) - dz/2))
	}
	for _, l := range [][]float64{c.Wg, c.Wmin, c.Wnor, expc, c.Wudich} {
		sb.WriteByte(' ')
		sb.WriteString(vh.FVals(l...))
	}
	return sb.String()
}

func (o *evOut) line() string {
	var all []float64
	all = append(all, o.Verdu, o.Eta, o.Eva, o.Fluss0)
	all = append(all, o.Ev...)
	all = append(all, o.Nfk...)
	all = append(all, o.Tp...)
	all = append(all, o.Gwauf, o.Lured, o.Etrel, o.Trrel)
	return vh.FVals(all...) + fmt.Sprintf(" %d %d", o.Lumday, o.Wurz)
}

// evatraPredicates evaluates the C08 predicates on the answers of the real Evatra (+ the uptake
// limit of Water). report(sigSuffix, what) is called for every violated predicate.
func evatraPredicates(c *evCase, verdu0 float64, o *evOut, report func(sig, what string)) {
	m := etMethodName[c.Method]
	veg := "bare"
	capV := 0.6
	if c.Crop {
		veg, capV = "crop", 0.65
	}
	fin := allFinite(o.Verdu, o.Eta, o.Eva, o.Fluss0, o.Gwauf, o.Lured, o.Etrel, o.Trrel) && allFinite(o.Ev...) && allFinite(o.Tp...) && allFinite(o.Nfk...)
	if !fin {
		report("nonfinite:"+m+":"+veg+":"+c.Class, fmt.Sprintf("Evatra produced a non-finite value (potential ET %v, ETA %v, TRREL %v, ETREL %v)", o.Verdu, o.Eta, o.Trrel, o.Etrel))
		return
	}
	if o.Verdu > capV {
		report("pet-above-cap:"+veg, fmt.Sprintf("potential ET %.6g cm exceeds the daily cap %.2g cm (%s)", o.Verdu, capV, veg))
	}
	if o.Verdu < 0 {
		report("pet-negative:"+m, fmt.Sprintf("potential ET is negative: %.6g cm (method %s, TEMP %.1f, ET0 column %.1f): the floor at zero before the cap is missing", o.Verdu, m, c.Temp, c.Etnull))
	}
	tol := 1e-9 * (1 + math.Abs(o.Verdu))
	if o.Eta < -tol && o.Verdu >= 0 {
		report("eta-negative:"+m, fmt.Sprintf("actual evaporation is negative: %.6g", o.Eta))
	}
	tpSum := sum(o.Tp)
	if o.Verdu >= 0 && o.Eta+tpSum > o.Verdu+tol {
		report("eta-above-pet:"+veg, fmt.Sprintf("actual evaporation %.9g + uptake %.9g exceeds potential ET %.9g", o.Eta, tpSum, o.Verdu))
	}
	minv := math.Min(float64(c.Wurz), c.Grw)
	for i := 0; i < c.N; i++ {
		if o.Tp[i] < 0 {
			report("tp-negative", fmt.Sprintf("uptake of layer %d is negative: %.6g", i+1, o.Tp[i]))
		}
		if !c.Crop && o.Tp[i] != 0 {
			report("tp-on-bare-soil", fmt.Sprintf("uptake %.6g from layer %d on bare soil", o.Tp[i], i+1))
		}
		if c.Crop && float64(i+1) > minv && o.Tp[i] != 0 {
			where := "below-root-depth"
			if float64(i+1) > c.Grw {
				where = "below-groundwater"
			}
			report("tp-outside:"+where, fmt.Sprintf("uptake %.6g from layer %d although root depth is %d and groundwater at %.2f dm", o.Tp[i], i+1, c.Wurz, c.Grw))
		}
		avail := math.Max(0, (c.Wg[i]-c.Wmin[i])*10)
		if o.TpLimited[i] > avail+1e-12*(1+avail) {
			report("tp-above-available", fmt.Sprintf("uptake %.9g of layer %d exceeds the plant-available water %.9g after the limit of Water", o.TpLimited[i], i+1, avail))
		}
		if o.Ev[i] < 0 {
			report("ev-negative", fmt.Sprintf("evaporation share of layer %d is negative: %.6g", i+1, o.Ev[i]))
		}
	}
	if o.Eva > 0 && sum(o.Ev) > o.Eva+1e-9*(1+o.Eva) {
		report("ev-sum-above-eva", fmt.Sprintf("layer evaporation shares sum to %.9g > net evaporation %.9g", sum(o.Ev), o.Eva))
	}
	for name, v := range map[string]float64{"TRREL": o.Trrel, "ETREL": o.Etrel, "LURED": o.Lured} {
		if v < -1e-9 || v > 1+1e-9 {
			report("ratio-outside-unit:"+name+":"+veg, fmt.Sprintf("%s = %.9g outside [0,1]", name, v))
		}
	}
}

// evatraKernelStage: correspondence of hermes.Evatra (all five ET methods) with the Lean model of
// its partition part, and the kernel-level predicates of C08 on the implementation.
func evatraKernelStage(c *vh.Ctx, n int) {
	var cases, impl []string
	var kept []evCase
	for k := 0; k < n; k++ {
		ec := genEvCase(c.Rng)
		v0, o, pan := runEvatraImpl(&ec)
		c.Eval()
		veg := "bare:" + ec.BareWhy
		if ec.Crop {
			veg = "crop"
		}
		c.Count("evatra:method=" + etMethodName[ec.Method])
		c.Count("evatra:" + veg)
		c.Count("evatra:" + ec.Class)
		if pan != "" {
			c.Violate("search", "evatra-kernel:panic", "hermes.Evatra panicked: "+pan, ec)
			continue
		}
		if v0 > 0.65 {
			c.Count("evatra:cap-engaged")
		}
		if v0 < 0 {
			c.Count("evatra:floor-engaged:" + etMethodName[ec.Method])
		}
		if ec.Crop && ec.Grw < float64(ec.Wurz) {
			c.Count("evatra:groundwater-above-root-depth")
		}
		if ec.Crop && sum(o.Tp) > 0 {
			c.Count("evatra:uptake>0")
		}
		if o.Eva > 0 {
			c.Count("evatra:evaporation-day")
		}
		if o.Lured < 1 {
			c.Count("evatra:air-deficit")
		}
		c.Nontrivial(fmt.Sprintf("e%d", k))
		if k < 2 {
			c.Sample(ec)
		}
		cases = append(cases, ec.line(v0))
		impl = append(impl, o.line())
		kept = append(kept, ec)
		ecc := ec
		evatraPredicates(&ecc, v0, &o, func(sig, what string) {
			c.Violate("search", "evatra-kernel:"+sig, what, ecc)
		})
	}
	saved := kept
	c.Correspond("evatra.part", cases, impl, 1e-9, 1e-12, func(i int) interface{} { return saved[i] })
	// the same cases in 8 goroutines at once (the dispatcher runs several simulations concurrently)
	nc := len(saved)
	if nc > 600 {
		nc = 600
	}
	concurrentKernelStage(c, "evatra", impl[:nc], 8, 2, func(i int) string {
		ec := saved[i]
		_, o, pan := runEvatraImpl(&ec)
		if pan != "" {
			return "panic " + pan
		}
		return o.line()
	}, func(i int, got string) {
		if i < 0 {
			c.Violate("search", "evatra-kernel:concurrent:panic", "hermes.Evatra panics when several simulations run at the same time: "+got, nil)
			return
		}
		ec := saved[i]
		v0, o, _ := runEvatraImpl(&ec) // sequential again: must be the known answer
		if o.line() != impl[i] {
			return // not a function of its arguments even sequentially: reported by the correspondence
		}
		c.Violate("search", "evatra-kernel:concurrent:differs-from-sequential", fmt.Sprintf("hermes.Evatra on its own state gives another answer when other simulations call it at the same time (state shared between runs): sequential %.60s…, concurrent %.60s… (potential ET of the case %g)", impl[i], got, v0), ec)
	})
}
