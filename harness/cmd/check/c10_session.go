package main

// C10, session stage: triples of projects in one hermes session — A, B (same field id, plot, rotation and
// time frame as A with DIFFERENT fertiliser / irrigation / tillage files and another global fertilisation
// factor) and an independent C — sequentially in two orders and overlapping. Every line must reproduce
// its solo result files; for B the executions listed in the management event file of the session run
// must be the in-period events of B's own files (clean schedules: date+1, date+2 for the second of a pair,
// irrigation on its date).

import (
	"fmt"
	"os"
	"path/filepath"
	"strconv"

	"verifharness/proj"
	"verifharness/vh"
)

func c10SessionStage(c *vh.Ctx, table []fertRow) {
	root := filepath.Join(c.Scratch, "sessions")
	os.MkdirAll(root, 0o755)
	n := c.N(16, 160)
	for k := 0; k < n; k++ {
		r := c.Rng.Fork()
		format := k % 4
		mk := func(p *proj.Project, kk int) (*c10Sched, int, int) {
			end := p.End()
			annD, annM := r.Range(1, 28), r.Range(1, 12)
			last := end.Z()
			if az := (proj.Date{Y: end.Y, M: annM, D: annD}).Z(); az >= last {
				last = az + 1
			}
			s0 := p.Start().Z()
			p.Cfg["Fertilization"] = strconv.Itoa([]int{100, 50, 75, 120, 33, 0}[r.Intn(6)])
			p.SetFormat(format, end, annD, annM)
			return genC10Schedules(r, p, 100+kk, table, s0, last, true), s0, last
		}
		a := proj.Gen(r, fmt.Sprintf("a%d", k), proj.Opt{Management: true, Years: r.Range(1, 2), NoCrop: r.Chance(0.4), MaxLayers: 8})
		b, err := cloneProjectSch(a, fmt.Sprintf("b%d", k)) // before the date format is switched: End() is readable
		if err != nil {
			c.Violate("search", "harness:clone", err.Error(), nil)
			return
		}
		sa, _, _ := mk(a, 3*k)
		sb, s0b, lastb := mk(b, 3*k+1)
		cp := proj.Gen(r, fmt.Sprintf("c%d", k), proj.Opt{Management: true, Years: r.Range(1, 2), NoCrop: r.Chance(0.4), MaxLayers: 8})
		cp.Field, cp.Plot = a.Field, a.Plot // the same field id in a third project's files
		sc, _, _ := mk(cp, 3*k+2)
		ps := []sessProject{
			{a, func(root string) error { return a.WriteScheduleStyle(root, sa.Style) }},
			{b, func(root string) error { return b.WriteScheduleStyle(root, sb.Style) }},
			{cp, func(root string) error { return cp.WriteScheduleStyle(root, sc.Style) }},
		}
		replay := map[string]interface{}{"date_format": format, "project_a": a, "project_b": b, "project_c": cp,
			"how": "write the three projects into one root (Project.Write, WriteManagementConf, WriteScheduleStyle), proj.RunSession(root, lines, concurrent) vs one fresh session per line (harness/cmd/check/c10_session.go)"}
		mo := sessionCompare(c, root, ps, [][]int{{0, 1, 2}, {2, 1, 0}}, replay)
		if mo == nil {
			continue
		}
		c.Nontrivial(fmt.Sprintf("session/%d", k))
		c.Count("session:triples")

		// ---- B's management event file against B's own schedule files
		m, _ := sessFile(mo, "M", b)
		got := map[string][]string{}
		for _, e := range proj.ParseMEvents(m) {
			got[e.Kind] = append(got[e.Kind], e.Date)
		}
		expect := func(own []schedEv, shift bool, havePrev bool, skipZero bool) []string {
			var out []string
			prev := s0b
			for _, e := range own {
				if e.Z < s0b {
					continue
				}
				sd := e.Z
				if shift {
					if havePrev && sd <= prev {
						sd = prev + 1
					}
					prev, havePrev = sd, true
					sd++ // carried out on the day after the slot date
				}
				if sd <= lastb && !(skipZero && e.A == 0) {
					out = append(out, dotted(sd, format))
				}
			}
			return out
		}
		want := map[string][]string{
			"fertilization": append([]string{dotted(s0b+1, format)}, expect(sb.FertOwn, true, true, false)...), // slot 0: residues of the pre-crop
			"tillage":       expect(sb.TilOwn, true, false, true),
			"irrigation":    expect(sb.IrrOwn, false, false, false),
		}
		for kind, w := range want {
			c.Eval()
			if fmt.Sprint(got[kind]) != fmt.Sprint(w) {
				c.Violate("search", "session-line:"+kind+":executions", fmt.Sprintf("project %s as second line of a session: %s events in the management event file %v, its own schedule file gives %v", b.Name, kind, got[kind], w), replay)
			}
		}
	}
}
