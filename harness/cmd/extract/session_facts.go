package main

// Session / iteration-order facts (C03, C11), regenerated from the repo's source on every check run:
//
//   - concurrency.session_fields        the fields of the types every run of a session shares
//     (HermesSession, FilePool, fileData-like pool entries): `Type.field:type`;
//   - concurrency.session_field_writes  every assignment / ++ / -- / append-assignment whose target is
//     rooted at a value of one of those types (receiver, parameter or `g.Session`), outside the
//     constructors — a write to session state after construction is shared mutable state between the
//     concurrent runs of a batch unless it sits inside the pool's mutex span (`locked` is recorded);
//   - concurrency.map_ranges_order_sensitive  every `range` over a map whose body accumulates in iteration
//     order (append, compound assignment, string concatenation, channel send, output call, or an early
//     exit by break/return that depends on the first match) and whose function does not sort afterwards:
//     Go randomises map iteration per run, so such a loop makes results differ between identical runs.
//
// The lists are compared with the pinned expectation in harness/cmd/check/c03_expect_session.go; a new
// entry is a broken obligation of `runs_share_only_pool` / determinism (stage "proof").

import (
	"fmt"
	"go/ast"
	"go/parser"
	"go/token"
	"os"
	"path/filepath"
	"sort"
	"strings"
)

func init() { registerExtractor(extractSessionFacts) }

var sessionTypes = map[string]bool{"HermesSession": true, "FilePool": true}
var sessionCtors = map[string]bool{"NewHermesSession": true, "NewFilePool": true}

func extractSessionFacts(repo, outDir string, fc *facts) {
	dir := filepath.Join(repo, "hermes")
	ents, err := os.ReadDir(dir)
	if err != nil {
		fmt.Println("session facts:", err)
		os.Exit(1)
	}
	fset := token.NewFileSet()
	type pf struct {
		name string
		f    *ast.File
	}
	var files []pf
	for _, e := range ents {
		n := e.Name()
		if !strings.HasSuffix(n, ".go") || strings.HasSuffix(n, "_test.go") || strings.HasPrefix(n, "verif_") {
			continue
		}
		f, err := parser.ParseFile(fset, filepath.Join(dir, n), nil, 0)
		if err != nil {
			fmt.Println("session facts:", err)
			os.Exit(1)
		}
		files = append(files, pf{n, f})
	}
	fields, writes, sens := []string{}, []string{}, []string{}
	mapFields := map[string]bool{} // struct fields of map type (any struct of the package)
	pkgMaps := map[string]bool{}
	for _, p := range files {
		for _, d := range p.f.Decls {
			gd, ok := d.(*ast.GenDecl)
			if !ok {
				continue
			}
			for _, sp := range gd.Specs {
				switch s := sp.(type) {
				case *ast.TypeSpec:
					st, ok := s.Type.(*ast.StructType)
					if !ok {
						continue
					}
					for _, fl := range st.Fields.List {
						_, isMap := fl.Type.(*ast.MapType)
						for _, nm := range fl.Names {
							if isMap {
								mapFields[nm.Name] = true
							}
							if sessionTypes[s.Name.Name] {
								fields = append(fields, fmt.Sprintf("%s.%s:%s", s.Name.Name, nm.Name, exprString(fl.Type)))
							}
						}
						if len(fl.Names) == 0 && sessionTypes[s.Name.Name] {
							fields = append(fields, fmt.Sprintf("%s.(embedded):%s", s.Name.Name, exprString(fl.Type)))
						}
					}
				case *ast.ValueSpec:
					if gd.Tok == token.VAR {
						for i, nm := range s.Names {
							if _, ok := s.Type.(*ast.MapType); ok {
								pkgMaps[nm.Name] = true
							} else if i < len(s.Values) {
								if cl, ok := s.Values[i].(*ast.CompositeLit); ok {
									if _, ok := cl.Type.(*ast.MapType); ok {
										pkgMaps[nm.Name] = true
									}
								}
							}
						}
					}
				}
			}
		}
	}
	typeName := func(e ast.Expr) string {
		if st, ok := e.(*ast.StarExpr); ok {
			e = st.X
		}
		if id, ok := e.(*ast.Ident); ok {
			return id.Name
		}
		return ""
	}
	for _, p := range files {
		for _, d := range p.f.Decls {
			fd, ok := d.(*ast.FuncDecl)
			if !ok || fd.Body == nil {
				continue
			}
			fname := fd.Name.Name
			sessVars := map[string]string{} // identifier -> session type
			if fd.Recv != nil && len(fd.Recv.List) == 1 {
				if t := typeName(fd.Recv.List[0].Type); sessionTypes[t] {
					for _, nm := range fd.Recv.List[0].Names {
						sessVars[nm.Name] = t
					}
					fname = t + "." + fname
				} else if t != "" {
					fname = t + "." + fname
				}
			}
			if fd.Type.Params != nil {
				for _, par := range fd.Type.Params.List {
					if t := typeName(par.Type); sessionTypes[t] {
						for _, nm := range par.Names {
							sessVars[nm.Name] = t
						}
					}
				}
			}
			where := p.name + ":" + fname
			// lock spans (Lock() … Unlock() on a mux field, by position; defer Unlock extends to the end)
			type span struct{ from, to token.Pos }
			var spans []span
			var lockPos []token.Pos
			ast.Inspect(fd.Body, func(n ast.Node) bool {
				switch x := n.(type) {
				case *ast.DeferStmt:
					if f := exprString(x.Call.Fun); strings.HasSuffix(f, ".Unlock") && len(lockPos) > 0 {
						spans = append(spans, span{lockPos[len(lockPos)-1], fd.Body.End()})
						lockPos = lockPos[:len(lockPos)-1]
					}
					return false
				case *ast.CallExpr:
					f := exprString(x.Fun)
					if strings.HasSuffix(f, ".Lock") {
						lockPos = append(lockPos, x.Pos())
					} else if strings.HasSuffix(f, ".Unlock") && len(lockPos) > 0 {
						spans = append(spans, span{lockPos[len(lockPos)-1], x.Pos()})
						lockPos = lockPos[:len(lockPos)-1]
					}
				}
				return true
			})
			locked := func(pos token.Pos) string {
				for _, s := range spans {
					if s.from <= pos && pos <= s.to {
						return "locked"
					}
				}
				return "UNLOCKED"
			}
			// is e rooted at session state?  `s.X…`, `session.X…`, `g.Session.X…`, `….HermesFilePool.X…`
			sessionTarget := func(e ast.Expr) (string, bool) {
				cur := e
				path := []string{}
				for {
					switch v := cur.(type) {
					case *ast.SelectorExpr:
						path = append([]string{v.Sel.Name}, path...)
						cur = v.X
						continue
					case *ast.IndexExpr:
						cur = v.X
						continue
					case *ast.StarExpr:
						cur = v.X
						continue
					case *ast.ParenExpr:
						cur = v.X
						continue
					case *ast.Ident:
						if t, ok := sessVars[v.Name]; ok && len(path) > 0 {
							return t + "." + strings.Join(path, "."), true
						}
						for i, s := range path {
							if (s == "Session" || s == "HermesFilePool") && i+1 < len(path) {
								return strings.Join(path[i:], "."), true
							}
						}
					}
					return "", false
				}
			}
			if !sessionCtors[fd.Name.Name] {
				ast.Inspect(fd.Body, func(n ast.Node) bool {
					switch x := n.(type) {
					case *ast.AssignStmt:
						for _, l := range x.Lhs {
							if t, ok := sessionTarget(l); ok {
								writes = append(writes, fmt.Sprintf("%s:%s:%s", where, t, locked(x.Pos())))
							}
						}
					case *ast.IncDecStmt:
						if t, ok := sessionTarget(x.X); ok {
							writes = append(writes, fmt.Sprintf("%s:%s:%s", where, t, locked(x.Pos())))
						}
					}
					return true
				})
			}
			// local variables of map type
			localMaps := map[string]bool{}
			ast.Inspect(fd, func(n ast.Node) bool {
				switch x := n.(type) {
				case *ast.AssignStmt:
					if x.Tok == token.DEFINE {
						for i, l := range x.Lhs {
							id, ok := l.(*ast.Ident)
							if !ok || i >= len(x.Rhs) {
								continue
							}
							switch r := x.Rhs[i].(type) {
							case *ast.CompositeLit:
								if _, ok := r.Type.(*ast.MapType); ok {
									localMaps[id.Name] = true
								}
							case *ast.CallExpr:
								if exprString(r.Fun) == "make" && len(r.Args) > 0 {
									if _, ok := r.Args[0].(*ast.MapType); ok {
										localMaps[id.Name] = true
									}
								}
							}
						}
					}
				case *ast.Field:
					if _, ok := x.Type.(*ast.MapType); ok {
						for _, nm := range x.Names {
							localMaps[nm.Name] = true
						}
					}
				case *ast.ValueSpec:
					if _, ok := x.Type.(*ast.MapType); ok {
						for _, nm := range x.Names {
							localMaps[nm.Name] = true
						}
					}
				}
				return true
			})
			// order-sensitive ranges over maps
			var ranges []*ast.RangeStmt
			ast.Inspect(fd.Body, func(n ast.Node) bool {
				if r, ok := n.(*ast.RangeStmt); ok {
					isMap := false
					switch v := r.X.(type) {
					case *ast.Ident:
						isMap = localMaps[v.Name] || pkgMaps[v.Name]
					case *ast.SelectorExpr:
						isMap = mapFields[v.Sel.Name]
					}
					if isMap {
						ranges = append(ranges, r)
					}
				}
				return true
			})
			for _, r := range ranges {
				why := []string{}
				add := func(s string) {
					for _, w := range why {
						if w == s {
							return
						}
					}
					why = append(why, s)
				}
				ast.Inspect(r.Body, func(n ast.Node) bool {
					switch x := n.(type) {
					case *ast.CallExpr:
						f := exprString(x.Fun)
						if f == "append" {
							add("append")
						}
						if i := strings.LastIndex(f, "."); i >= 0 {
							switch f[i+1:] {
							case "Write", "WriteString", "Fprintf", "Fprintln", "Fprint", "Printf", "Println", "Print", "WriteLine", "WriteRune", "WriteByte":
								add("output")
							}
						}
					case *ast.SendStmt:
						add("send")
					case *ast.AssignStmt:
						switch x.Tok {
						case token.ADD_ASSIGN, token.SUB_ASSIGN, token.MUL_ASSIGN, token.QUO_ASSIGN:
							add("accumulate")
						}
					case *ast.BranchStmt:
						if x.Tok == token.BREAK {
							add("break")
						}
					case *ast.ReturnStmt:
						add("return")
					}
					return true
				})
				if len(why) == 0 {
					continue
				}
				sorted := false
				ast.Inspect(fd.Body, func(n ast.Node) bool {
					if c, ok := n.(*ast.CallExpr); ok && c.Pos() > r.End() {
						if f := exprString(c.Fun); strings.HasPrefix(f, "sort.") || strings.HasPrefix(f, "slices.Sort") {
							sorted = true
						}
					}
					return true
				})
				if sorted {
					continue
				}
				sort.Strings(why)
				sens = append(sens, fmt.Sprintf("%s:%s:%s", where, exprString(r.X), strings.Join(why, "+")))
			}
		}
	}
	sort.Strings(fields)
	sort.Strings(writes)
	sort.Strings(sens)
	fc.Strs["concurrency.session_fields"] = fields
	fc.Strs["concurrency.session_field_writes"] = writes
	fc.Strs["concurrency.map_ranges_order_sensitive"] = sens
}
