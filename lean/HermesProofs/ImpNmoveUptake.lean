/-
The uptake block of `nmove` for the *translation of the current source* (hermes/nitro.go → `HermesModel/Generated/Impnmove.lean`,
regenerated on every run): in the first sub-step of a day the uptake the crop routine hands over is cut, layer by layer, to what the
layer holds above 0.5 kg N/ha and to ≥ 0; the later statements of `nmove` do not touch the uptake array.  The loop body is walked
with `walk_states` (phases `Q0` untouched → `QA` cut from above → `QB` cut at 0 → `QC` layer's mineral N reduced); rewriting with
`p_subd = 1` directly sends the unifier into the record (see DESIGN §10), the hypothesis-decided join of the walker does not.
-/
import HermesProofs.ImpNmoveNonneg
import HermesProofs.WalkStates
import Mathlib.Tactic.Linarith
import Mathlib.Tactic.NormNum
import Mathlib.Tactic.SplitIfs

namespace Hermes.Generated.Imp.nmove
open Hermes.Imp

variable (m : MathFns ℚ)

/-- uptake block untouched so far -/
def Q0 (s t : St ℚ) : Prop := t.g_PE = s.g_PE ∧ t.g_C1 = s.g_C1 ∧ t.g_N = s.g_N ∧ t.p_subd = s.p_subd
/-- after the cut to what the layer holds above 0.5 kg N/ha -/
def QA (s : St ℚ) (z : Int) (t : St ℚ) : Prop :=
  t.g_C1 = s.g_C1 ∧ t.g_N = s.g_N ∧ t.p_subd = s.p_subd ∧ t.g_PE.length = s.g_PE.length ∧
  (∀ j : Int, j ≠ z → rd t.g_PE j = rd s.g_PE j) ∧ rd t.g_PE z ≤ rd s.g_C1 z - 0.5
/-- after the cut at 0 -/
def QB (s : St ℚ) (z : Int) (t : St ℚ) : Prop :=
  t.g_C1 = s.g_C1 ∧ t.g_N = s.g_N ∧ t.p_subd = s.p_subd ∧ t.g_PE.length = s.g_PE.length ∧
  (∀ j : Int, j ≠ z → rd t.g_PE j = rd s.g_PE j) ∧ 0 ≤ rd t.g_PE z ∧ (rd t.g_PE z ≤ rd s.g_C1 z - 0.5 ∨ rd t.g_PE z = 0)
/-- after the layer's mineral N has been reduced by the uptake: what the rest of the body keeps -/
def QC (s : St ℚ) (z : Int) (t : St ℚ) : Prop :=
  t.g_N = s.g_N ∧ t.p_subd = s.p_subd ∧ t.g_PE.length = s.g_PE.length ∧
  (∀ j : Int, j ≠ z → rd t.g_PE j = rd s.g_PE j) ∧ 0 ≤ rd t.g_PE z ∧ (rd t.g_PE z ≤ rd s.g_C1 z - 0.5 ∨ rd t.g_PE z = 0) ∧
  (∀ j : Int, j ≠ z → rd t.g_C1 j = rd s.g_C1 j)

section
variable {s t : St ℚ} {z : Int}

theorem qa_clamp (h : Q0 s t) (h0 : 0 ≤ z) (hz : z.toNat < s.g_PE.length) :
    QA s z (if rd t.g_C1 z - 0.5 < rd t.g_PE z then { t with g_PE := wr t.g_PE z (rd t.g_C1 z - 0.5) } else t) := by
  obtain ⟨e1, e2, e3, e4⟩ := h
  have hl : z.toNat < t.g_PE.length := by rw [e1]; exact hz
  split_ifs with hc
  · refine ⟨e2, e3, e4, by show (wr t.g_PE z _).length = _; rw [length_wr, e1], ?_, ?_⟩
    · intro j hj; show rd (wr t.g_PE z _) j = _; rw [rd_wr_ne _ _ _ _ (Ne.symm hj), e1]
    · show rd (wr t.g_PE z _) z ≤ _; rw [rd_wr_same _ _ _ h0 hl, e2]
  · refine ⟨e2, e3, e4, by rw [e1], fun j _ => by rw [e1], ?_⟩
    rw [← e2]; exact not_lt.mp hc

theorem qb_clamp (h : QA s z t) (h0 : 0 ≤ z) (hz : z.toNat < s.g_PE.length) :
    QB s z (if rd t.g_PE z < 0.0 then { t with g_PE := wr t.g_PE z 0.0 } else t) := by
  obtain ⟨e2, e3, e4, l, o, b⟩ := h
  have hl : z.toNat < t.g_PE.length := by rw [l]; exact hz
  have z0 : ((0.0 : ℚ)) = 0 := by norm_num
  split_ifs with hc
  · refine ⟨e2, e3, e4, by show (wr t.g_PE z _).length = _; rw [length_wr, l], ?_, ?_, ?_⟩
    · intro j hj; show rd (wr t.g_PE z _) j = _; rw [rd_wr_ne _ _ _ _ (Ne.symm hj)]; exact o j hj
    · show 0 ≤ rd (wr t.g_PE z _) z; rw [rd_wr_same _ _ _ h0 hl]; norm_num
    · right; show rd (wr t.g_PE z _) z = 0; rw [rd_wr_same _ _ _ h0 hl]; norm_num
  · rw [z0] at hc
    exact ⟨e2, e3, e4, l, o, not_lt.mp hc, Or.inl b⟩

theorem qc_of_qb (h : QB s z t) : QC s z t :=
  ⟨h.2.1, h.2.2.1, h.2.2.2.1, h.2.2.2.2.1, h.2.2.2.2.2.1, h.2.2.2.2.2.2, fun j _ => by rw [h.1]⟩

theorem qc_c1 (h : QC s z t) (v : ℚ) : QC s z { t with g_C1 := wr t.g_C1 z v } :=
  ⟨h.1, h.2.1, h.2.2.1, h.2.2.2.1, h.2.2.2.2.1, h.2.2.2.2.2.1, fun j hj => by
    show rd (wr t.g_C1 z v) j = _
    rw [rd_wr_ne _ _ _ _ (Ne.symm hj)]; exact h.2.2.2.2.2.2 j hj⟩
theorem qb_frame_c1 (h : QB s z t) (v : ℚ) : QC s z { t with g_C1 := wr t.g_C1 z v } := qc_c1 (qc_of_qb h) v
end

/-- the uptake block of the first loop of `nmove` (nitro.go:718-735), first sub-step: the uptake of the layer is cut to what the
layer holds above 0.5 kg N/ha and to ≥ 0; the other layers' uptake is untouched -/
theorem loop1_uptake (z : Int) (s : St ℚ) (hs : s.p_subd = 1) (h0 : 0 ≤ z) (hz : z.toNat < s.g_PE.length) :
    QC s z (loop1 m z s) := by
  unfold loop1
  extract_lets s1
  have hs1 : s1.p_subd = 1 := hs
  have hq0 : Q0 s s := ⟨rfl, rfl, rfl, rfl⟩
  walk_states [QC s z, QB s z, QA s z, Q0 s] by
    first | exact hq0 | exact qb_frame_c1 hprev _ | exact qc_c1 hprev _ | exact qc_of_qb hprev | exact qb_clamp hprev h0 hz | exact qa_clamp hprev h0 hz
  assumption


/-- statement 2 (the loop over all layers), first sub-step: every layer's uptake ends ≥ 0 and at most what the layer held above
0.5 kg N/ha at the start of the call (or 0) -/
theorem top2_uptake (s : St ℚ) (hs : s.p_subd = 1) (hN : s.g_N.toNat ≤ s.g_PE.length) :
    ∀ j : Int, 0 ≤ j → j < s.g_N → 0 ≤ rd (top2 m s).g_PE j ∧ (rd (top2 m s).g_PE j ≤ rd s.g_C1 j - 0.5 ∨ rd (top2 m s).g_PE j = 0) := by
  unfold top2
  have key := loopUp_noBrk_ind (loop1 m)
    (fun k u => u.g_N = s.g_N ∧ u.p_subd = s.p_subd ∧ u.g_PE.length = s.g_PE.length ∧
      (∀ j : Int, (k : Int) ≤ j → rd u.g_C1 j = rd s.g_C1 j) ∧
      (∀ j : Int, 0 ≤ j → j < (k : Int) → 0 ≤ rd u.g_PE j ∧ (rd u.g_PE j ≤ rd s.g_C1 j - 0.5 ∨ rd u.g_PE j = 0)))
    0 s.g_N s ⟨rfl, rfl, rfl, fun _ _ => rfl, fun j h0 h1 => absurd h1 (by omega)⟩
    (fun k hk u hu => by
      obtain ⟨a1, a2, a3, a4, a5⟩ := hu
      have hz : ((0 : Int) + k).toNat < u.g_PE.length := by rw [a3]; omega
      obtain ⟨b1, b2, b3, b4, b5, b6, b7⟩ := loop1_uptake m (0 + k) u (a2.trans hs) (by omega) hz
      refine ⟨b1.trans a1, b2.trans a2, b3.trans a3, ?_, ?_⟩
      · intro j hj
        rw [b7 j (by push_cast at hj; omega)]
        exact a4 j (by push_cast at hj ⊢; omega)
      · intro j h0 h1
        by_cases hjk : j = 0 + k
        · subst hjk
          rw [a4 (0 + k) (by omega)] at b6
          exact ⟨b5, b6⟩
        · rw [b4 j hjk]
          exact a5 j h0 (by push_cast at h1; omega))
  intro j h0 h1
  exact key.2.2.2.2 j h0 (by omega)

/-- the statements behind the uptake loop do not touch the uptake array -/
theorem after2_PE (t : St ℚ) :
    (top11 m (top10 m (top9 m (top8 m (top7 m (top6 m (top5 m (top4 m (top3 m t))))))))).g_PE = t.g_PE := by
  have h11 : ∀ u : St ℚ, (top11 m u).g_PE = u.g_PE := by
    intro u; unfold top11; dsimp only; split_ifs <;> rfl
  have pe : ∀ u v : St ℚ, later u = later v → u.g_PE = v.g_PE := fun u v h => congrArg (fun x => x.2.2.1) h
  rw [h11]
  have e10 := pe _ _ (top10_later m (top9 m (top8 m (top7 m (top6 m (top5 m (top4 m (top3 m t))))))))
  have e9 := pe _ _ (top9_later m (top8 m (top7 m (top6 m (top5 m (top4 m (top3 m t)))))))
  have e8 := pe _ _ (top8_later m (top7 m (top6 m (top5 m (top4 m (top3 m t))))))
  have e5 := pe _ _ (top5_later m (top4 m (top3 m t)))
  have e4 := pe _ _ (top4_later m (top3 m t))
  rw [e10, e9, e8]
  show (top5 m (top4 m (top3 m t))).g_PE = _
  rw [e5, e4]
  rfl

/-- **`nmove`, first sub-step of the day: the uptake handed on by the crop routine is cut, layer by layer, to what the layer holds
above 0.5 kg N/ha and is never negative** — for every state and any number of layers inside the array. -/
theorem run_uptake_bounds (s : St ℚ) (hs : s.p_subd = 1) (hN : s.g_N.toNat ≤ s.g_PE.length) :
    ∀ j : Int, 0 ≤ j → j < s.g_N → 0 ≤ rd (run m s).g_PE j ∧ (rd (run m s).g_PE j ≤ rd s.g_C1 j - 0.5 ∨ rd (run m s).g_PE j = 0) := by
  have e : (run m s).g_PE = (top2 m (top1 m s)).g_PE := after2_PE m (top2 m (top1 m s))
  rw [e]
  exact top2_uptake m (top1 m s) hs hN

end Hermes.Generated.Imp.nmove
